#!/bin/bash
# Build the framework from files on disk only (offline).
set -e
cd "$(dirname "$0")"
export GOFLAGS=-mod=mod GOPROXY=off GOSUMDB=off GOTOOLCHAIN=local
mkdir -p build work evidence replays
if [ -d tools/extract ]; then
  cp /repo/go.sum tools/extract/go.sum
  (cd tools/extract && go build -o ../../build/extract . ) 2>&1 | grep -v conda || true
  mkdir -p lean/RefmtModel/Gen
  ./build/extract /repo lean/RefmtModel/Gen
fi
cp /repo/go.sum harness/go.sum
(cd harness && go build -tags verif -o ../build/harness .) 2>&1 | grep -v conda || true
(cd lean && lake build RefmtModel RefmtProofs driver) 2>&1 | grep -v conda | tail -5
echo setup done
