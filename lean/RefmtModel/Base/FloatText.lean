/-
  Exact decimal <-> binary64 conversion over big naturals (no hardware floats):
    * `parseDecimal`   : correctly rounded (nearest, ties to even) value of  d * 10^e10,
                         as strconv.ParseFloat computes it, with the overflow flag;
    * `shortestDigits` : the shortest decimal digit string that rounds back to the float,
                         closest to the true value (strconv.FormatFloat(f, _, -1, 64)).
  Trusted base: these re-implement strconv; the harness validates them against the
  real strconv on boundary and random floats on every run (`laws` stream).
-/
import RefmtModel.Base.Digits
namespace Refmt.FloatText
open Refmt

/-- number of bits of `n` (0 for 0) -/
def bitLen (n : Nat) : Nat := if n = 0 then 0 else Nat.log2 n + 1

def p52 : Nat := 4503599627370496
def p53 : Nat := 9007199254740992

/-- Correctly rounded binary64 bit pattern (without sign) of the positive rational `num / den`;
    second component: overflow to +Inf. -/
def roundRat (num den : Nat) : Nat × Bool :=
  if num = 0 then (0, false) else
  -- e = floor(log2(num/den))
  let g : Int := (bitLen num : Int) - (bitLen den : Int)
  let ge : Bool := if g ≥ 0 then num ≥ den * 2 ^ g.toNat else num * 2 ^ (-g).toNat ≥ den
  let e : Int := if ge then g else g - 1
  -- scale so that the integer part is the 53-bit significand (or the subnormal significand)
  let sh : Int := if e < -1022 then 1074 else 52 - e
  let n2 := if sh ≥ 0 then num * 2 ^ sh.toNat else num
  let d2 := if sh ≥ 0 then den else den * 2 ^ (-sh).toNat
  let q := n2 / d2
  let r := n2 % d2
  let q' := if 2 * r > d2 || (2 * r == d2 && q % 2 == 1) then q + 1 else q
  -- bits = (biased-1) * 2^52 + q' for normals (q' in [2^52, 2^53]), = q' for subnormals
  let bits := if e < -1022 then q' else ((e + 1022).toNat) * p52 + q'
  if bits ≥ 0x7ff0000000000000 then (0x7ff0000000000000, true) else (bits, false)

/-- value of `d * 10^e10` as binary64 bits (sign handled by the caller) -/
def parseDecimal (d : Nat) (e10 : Int) : Nat × Bool :=
  if d = 0 then (0, false)
  else if e10 ≥ 0 then
    -- guard against astronomically large exponents: anything above 10^400 overflows
    if e10 > 400 then (0x7ff0000000000000, true) else roundRat (d * 10 ^ e10.toNat) 1
  else
    if (-e10) > 800 + (natDigits d).length then (0, false) else roundRat d (10 ^ (-e10).toNat)

/-- Exact value of finite positive bits as (m, e): value = m * 2^e. -/
def decompose (bits : Nat) : Nat × Int :=
  let ex := (bits / p52) % 2048
  let fr := bits % p52
  if ex == 0 then (fr, -1074) else (fr + p52, (ex : Int) - 1075)

/-- compare rationals a/b ? c/d  (b,d > 0) -/
def qle (a b c d : Nat) : Bool := a * d ≤ c * b
def qlt (a b c d : Nat) : Bool := a * d < c * b

/-- Pre-scaled data for the shortest-digits search: value, interval ends (numerators over `den`),
    inclusiveness, `x17 = floor(v / 10^(p-16))` with a flag for a non-zero remainder. -/
structure SD where
  vN : Nat
  loN : Nat
  hiN : Nat
  den : Nat
  incl : Bool
  p : Int          -- floor(log10 v)

def mkSD (m : Nat) (e : Int) (boundaryLow : Bool) : SD :=
  let s : Int := e - 2
  let scaleN := if s ≥ 0 then 2 ^ s.toNat else 1
  let den := if s ≥ 0 then 1 else 2 ^ (-s).toNat
  let vN := 4 * m * scaleN
  let loN := (if boundaryLow then 4 * m - 1 else 4 * m - 2) * scaleN
  let hiN := (4 * m + 2) * scaleN
  -- estimate floor(log10 v) from bit lengths, then fix up by exact comparison
  let lg2 : Int := (bitLen vN : Int) - (bitLen den : Int)
  let approx : Int := lg2 * 30103 / 100000
  let pow10ge (q : Int) : Bool := if q ≥ 0 then vN ≥ den * 10 ^ q.toNat else vN * 10 ^ (-q).toNat ≥ den
  let p : Int :=
    if pow10ge (approx + 1) then approx + 1
    else if pow10ge approx then approx
    else if pow10ge (approx - 1) then approx - 1 else approx - 2
  ⟨vN, loN, hiN, den, m % 2 == 0, p⟩

/-- Shortest digits: (digits as a number, decimal exponent k) with value ≈ digits * 10^k. -/
def shortestAux (d : SD) : Nat → Nat → Nat × Int
  | 0, _ => (0, 0)
  | fuel+1, n =>
    let k : Int := d.p + 1 - (n : Int)
    let xN := if k ≥ 0 then d.vN else d.vN * 10 ^ (-k).toNat
    let xD := if k ≥ 0 then d.den * 10 ^ k.toNat else d.den
    let fl := xN / xD
    let inside (c : Nat) : Bool :=
      let cN := if k ≥ 0 then c * 10 ^ k.toNat else c
      let cD := if k ≥ 0 then 1 else 10 ^ (-k).toNat
      if d.incl then qle d.loN d.den cN cD && qle cN cD d.hiN d.den
      else qlt d.loN d.den cN cD && qlt cN cD d.hiN d.den
    match inside fl, inside (fl + 1) with
    | false, false => shortestAux d fuel (n + 1)
    | true, false => (fl, k)
    | false, true => (fl + 1, k)
    | true, true =>
      let r := xN % xD
      if 2 * r < xD then (fl, k)
      else if 2 * r > xD then (fl + 1, k)
      else if fl % 2 == 0 then (fl, k) else (fl + 1, k)

/-- (digit string, decimal point position `dp`): value = 0.d1d2… * 10^dp, as strconv's decimal. -/
def shortest (bits : Nat) : Bytes × Int :=
  let abs := bits % 9223372036854775808
  if abs == 0 then ([48], 1) else
  let (m, e) := decompose abs
  let boundaryLow := (abs % p52 == 0) && (abs / p52 > 1)
  let (c, k) := shortestAux (mkSD m e boundaryLow) 20 1
  -- a candidate like 10 (from rounding 9.x up) has n+1 digits; strip trailing zeros
  let ds := natDigits c
  let dp : Int := (ds.length : Int) + k
  let rec strip : List Nat → List Nat
    | [] => []
    | x :: xs => match strip xs with
      | [] => if x == 48 then [] else [x]
      | r => x :: r
  let ds' := strip ds
  (if ds'.isEmpty then [48] else ds', dp)

/-- strconv %e with shortest digits: d.ddde±XX -/
def fmtE (neg : Bool) (ds : Bytes) (dp : Int) : Bytes :=
  let first := ds.headD 48
  let rest := ds.drop 1
  let exp : Int := dp - 1
  let ea := exp.natAbs
  let ed := natDigits ea
  (if neg then [45] else []) ++ [first] ++ (if rest.isEmpty then [] else 46 :: rest) ++ [101] ++
    [if exp < 0 then 45 else 43] ++ (if ea < 10 then 48 :: ed else ed)

/-- strconv %f with shortest digits -/
def fmtF (neg : Bool) (ds : Bytes) (dp : Int) : Bytes :=
  let sign := if neg then [45] else []
  if dp ≤ 0 then
    sign ++ [48, 46] ++ List.replicate (-dp).toNat 48 ++ ds
  else if dp.toNat ≥ ds.length then
    sign ++ ds ++ List.replicate (dp.toNat - ds.length) 48
  else
    sign ++ ds.take dp.toNat ++ [46] ++ ds.drop dp.toNat

/-- What json `emitFloat` writes for finite `bits` (ES6-style cut-offs, `e-0X` clean-up). -/
def jsonFloat (bits : Nat) : Bytes :=
  let neg := bits ≥ 9223372036854775808
  let abs := bits % 9223372036854775808
  let (ds, dp) := shortest bits
  -- abs < 1e-6  <=>  dp < -5  (1e-6 = 0.1e-5 has dp = -5);  abs >= 2^63 by bit pattern (monotone on positives)
  let useE := abs != 0 && (dp < -5 || abs ≥ 0x43e0000000000000)
  if useE then
    let b := fmtE neg ds dp
    -- clean up e-09 to e-9
    let n := b.length
    if n ≥ 4 && b.getD (n - 4) 0 == 101 && b.getD (n - 3) 0 == 45 && b.getD (n - 2) 0 == 48 then
      b.take (n - 2) ++ [b.getD (n - 1) 0]
    else b
  else fmtF neg ds dp

end Refmt.FloatText

namespace Refmt.FloatText

/-- `float32(f)` for a float64 bit pattern, returned as the float64 bits of the rounded value
    (round to nearest even; overflow to ±Inf; NaN stays NaN, quieted). -/
def narrowF32 (bits : Nat) : Nat :=
  let sign := bits / 9223372036854775808
  let abs := bits % 9223372036854775808
  let ex := abs / p52
  if ex == 2047 then
    (if abs % p52 == 0 then bits else sign * 9223372036854775808 + 0x7ff8000000000000 + (abs % p52) / 536870912 * 536870912 % 2251799813685248)
  else if abs == 0 then bits
  else
    let (m, e) := decompose abs          -- value = m * 2^e
    -- round m * 2^e to 24 significant bits (or to a multiple of 2^-149 for subnormals)
    let blen := bitLen m
    let topExp : Int := e + (blen : Int) - 1          -- floor(log2 value)
    let sh : Int := if topExp < -126 then (-149 - e) else ((blen : Int) - 24)   -- drop `sh` low bits of m
    let m' : Nat :=
      if sh ≤ 0 then m * 2 ^ (-sh).toNat
      else
        let d := 2 ^ sh.toNat
        let q := m / d
        let r := m % d
        if 2 * r > d || (2 * r == d && q % 2 == 1) then q + 1 else q
    let e' : Int := if sh ≤ 0 then e + sh else e + sh
    if m' == 0 then sign * 9223372036854775808
    else
      -- value' = m' * 2^e'; overflow if ≥ 2^128
      let top : Int := e' + (bitLen m' : Int) - 1
      if top ≥ 128 then sign * 9223372036854775808 + 0x7ff0000000000000
      else
        -- exact float64 of m' * 2^e' (always representable)
        let r := roundRat (if e' ≥ 0 then m' * 2 ^ e'.toNat else m') (if e' ≥ 0 then 1 else 2 ^ (-e').toNat)
        sign * 9223372036854775808 + r.1

/-- `float64(i)` for an integer (round to nearest even) -/
def intToF64 (i : Int) : Nat :=
  if i ≥ 0 then (roundRat i.toNat 1).1 else 9223372036854775808 + (roundRat (-i).toNat 1).1

end Refmt.FloatText
