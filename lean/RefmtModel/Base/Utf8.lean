/-
  Re-implementation of Go's unicode/utf8.DecodeRune / EncodeRune and
  unicode/utf16 surrogate decoding (trusted base; validated by the harness
  against the real functions).
-/
import RefmtModel.Tok
namespace Refmt

def runeError : Nat := 0xFFFD

/-- continuation byte -/
def isCont (b : Nat) : Bool := 0x80 ≤ b && b ≤ 0xBF

/-- `utf8.DecodeRune`: (rune, size). Size 0 only for empty input. -/
def decodeRune : Bytes → Nat × Nat
  | [] => (runeError, 0)
  | p0 :: rest =>
    if p0 < 0x80 then (p0, 1)
    else if p0 < 0xC2 then (runeError, 1)
    else if p0 < 0xE0 then
      match rest with
      | b1 :: _ => if isCont b1 then ((p0 % 32) * 64 + b1 % 64, 2) else (runeError, 1)
      | _ => (runeError, 1)
    else if p0 < 0xF0 then
      match rest with
      | b1 :: b2 :: _ =>
        let lo := if p0 == 0xE0 then 0xA0 else 0x80
        let hi := if p0 == 0xED then 0x9F else 0xBF
        if lo ≤ b1 && b1 ≤ hi && isCont b2 then
          ((p0 % 16) * 4096 + (b1 % 64) * 64 + b2 % 64, 3)
        else (runeError, 1)
      | _ => (runeError, 1)
    else if p0 < 0xF5 then
      match rest with
      | b1 :: b2 :: b3 :: _ =>
        let lo := if p0 == 0xF0 then 0x90 else 0x80
        let hi := if p0 == 0xF4 then 0x8F else 0xBF
        if lo ≤ b1 && b1 ≤ hi && isCont b2 && isCont b3 then
          ((p0 % 8) * 262144 + (b1 % 64) * 4096 + (b2 % 64) * 64 + b3 % 64, 4)
        else (runeError, 1)
      | _ => (runeError, 1)
    else (runeError, 1)

/-- `utf8.EncodeRune` (invalid runes and surrogates encode U+FFFD). -/
def encodeRune (r : Nat) : Bytes :=
  if r < 0x80 then [r]
  else if r < 0x800 then [0xC0 + r / 64, 0x80 + r % 64]
  else if (0xD800 ≤ r && r ≤ 0xDFFF) || r > 0x10FFFF then [0xEF, 0xBF, 0xBD]
  else if r < 0x10000 then [0xE0 + r / 4096, 0x80 + (r / 64) % 64, 0x80 + r % 64]
  else [0xF0 + r / 262144, 0x80 + (r / 4096) % 64, 0x80 + (r / 64) % 64, 0x80 + r % 64]

/-- `utf16.IsSurrogate` -/
def isSurrogate (r : Nat) : Bool := 0xD800 ≤ r && r < 0xE000

/-- `utf16.DecodeRune` -/
def utf16Decode (r1 r2 : Nat) : Nat :=
  if 0xD800 ≤ r1 && r1 < 0xDC00 && 0xDC00 ≤ r2 && r2 < 0xE000 then
    (r1 - 0xD800) * 1024 + (r2 - 0xDC00) + 0x10000
  else runeError

/-- What Go yields when a string is coerced to valid UTF-8 rune by rune:
    every byte that does not start a valid encoding becomes U+FFFD. -/
def toValidUtf8 (s : Bytes) : Bytes :=
  match s with
  | [] => []
  | b :: rest =>
    let n := (decodeRune (b :: rest)).2
    if _h : n ≤ 1 then
      (if b < 0x80 then [b] else [0xEF, 0xBF, 0xBD]) ++ toValidUtf8 rest
    else
      (b :: rest).take n ++ toValidUtf8 ((b :: rest).drop n)
termination_by s.length
decreasing_by
  · simp
  · simp only [List.length_drop, List.length_cons]; omega

end Refmt
