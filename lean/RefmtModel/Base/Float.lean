/-
  Bit-level float helpers (exact, no hardware floats):
  `halfFloatToFloatBits` as transcribed from cbor/cborDecoderTerminals.go, and the
  exact widening float32 -> float64 performed by `float64(math.Float32frombits(x))`
  (NaNs are quieted with their payload shifted, as the hardware conversion does).
-/
import RefmtModel.Tok
namespace Refmt

def two32 : Nat := 4294967296

/-- the renormalisation loop of `halfFloatToFloatBits`: returns (m, e) with e mod 2^32 -/
def halfNormLoop : Nat → Nat → Nat → Nat × Nat
  | 0, m, e => (m, e)
  | fuel+1, m, e =>
    if m / 1024 % 2 == 0 then halfNormLoop fuel (m * 2 % two32) ((e + two32 - 1) % two32)
    else (m, e)

/-- `halfFloatToFloatBits` -/
def halfToFloatBits (yy : Nat) : Nat :=
  let y := yy % 65536
  let s := (y / 32768) % 2
  let e := (y / 1024) % 32
  let m := y % 1024
  if e == 0 then
    if m == 0 then s * 2147483648
    else
      let (m1, e1) := halfNormLoop 11 m e
      let e2 := (e1 + 1) % two32
      let m2 := m1 % two32 - (m1 / 1024 % 2) * 1024   -- m &= ^0x400
      let e3 := (e2 + 112) % two32
      let m3 := m2 * 8192 % two32
      (s * 2147483648 + (e3 * 8388608) % two32 + m3) % two32
  else if e == 31 then
    if m == 0 then s * 2147483648 + 0x7f800000
    else s * 2147483648 + 0x7f800000 + m * 8192
  else
    s * 2147483648 + (e + 112) * 8388608 + m * 8192

def pow2_52 : Nat := 4503599627370496
def pow2_63 : Nat := 9223372036854775808

/-- exact float32 → float64 widening on bit patterns -/
def f32to64 (x : Nat) : Nat :=
  let s := (x / 2147483648) % 2
  let e := (x / 8388608) % 256
  let m := x % 8388608
  if e == 255 then
    if m == 0 then s * pow2_63 + 0x7ff * pow2_52
    else s * pow2_63 + 0x7ff * pow2_52 + 2251799813685248 + (m * 536870912) % 2251799813685248
  else if e == 0 then
    if m == 0 then s * pow2_63
    else
      let k := Nat.log2 m
      s * pow2_63 + (k + 874) * pow2_52 + (m - 2 ^ k) * 2 ^ (52 - k)
  else s * pow2_63 + (e + 896) * pow2_52 + m * 536870912

end Refmt
