import RefmtModel.Tok
namespace Refmt

/-- ASCII decimal digits of `n` (strconv.AppendUint base 10). -/
def natDigits (n : Nat) : Bytes :=
  if h : n < 10 then [48 + n] else natDigits (n / 10) ++ [48 + n % 10]
termination_by n
decreasing_by omega

/-- strconv.AppendInt base 10 -/
def intDigits (i : Int) : Bytes :=
  if i < 0 then 45 :: natDigits (-i).toNat else natDigits i.toNat

def isDigit (b : Nat) : Bool := 48 ≤ b && b ≤ 57

/-- Value of a string of ASCII digits (no validation). -/
def digitsVal : Bytes → Nat := fun bs => bs.foldl (fun acc b => acc * 10 + (b - 48)) 0

end Refmt
