import RefmtModel.Tok
namespace Refmt

/-- Big-endian `n`-byte rendering of `v` (low `8n` bits). -/
def beBytes : Nat → Nat → Bytes
  | 0, _ => []
  | n+1, v => (v / 256 ^ n) % 256 :: beBytes n v

/-- Big-endian value of a byte list. -/
def beVal : Bytes → Nat
  | [] => 0
  | b :: bs => b * 256 ^ bs.length + beVal bs

def hexDigit (n : Nat) : Nat := if n < 10 then 48 + n else 87 + n   -- '0'.. / 'a'..

end Refmt
