/-
  Tokens: the lingua franca of refmt (tok/token.go).

  Go's `Token` is a fat struct whose value fields are a union selected by `Type`;
  the model uses a sum type carrying only the field that has meaning.  Bytes are
  natural numbers (< 256 wherever they come from the wire or the protocol parser);
  strings are byte lists because Go strings may hold invalid UTF-8.
-/
namespace Refmt

abbrev Bytes := List Nat

/-- Token payload; one constructor per `tok.TokenType`. -/
inductive Body where
  | mapOpen (len : Int)
  | mapClose
  | arrOpen (len : Int)
  | arrClose
  | null
  | str (s : Bytes)
  | bytes (b : Bytes)
  | bool (b : Bool)
  | int (i : Int)
  | uint (n : Nat)
  | float (bits : Nat)
deriving DecidableEq, Repr, Inhabited

/-- A token: payload plus the CBOR tag extension slot (`Tagged`/`Tag`). -/
structure Tok where
  body : Body
  tag : Option Int := none
deriving DecidableEq, Repr, Inhabited

def two64 : Nat := 18446744073709551616
def two63 : Nat := 9223372036854775808

/-- `uint64(x)` for a Go `int`/`int64` value `x`. -/
def toU64 (x : Int) : Nat := (x % (two64 : Int)).toNat

/-- `int64(x)` for a Go `uint64` value `x`. -/
def toI64 (x : Nat) : Int :=
  let y := x % two64
  if y < two63 then (y : Int) else (y : Int) - (two64 : Int)

/-- Token trees: one value. `len` fields record the declared length (negative = indefinite). -/
inductive TV where
  | scalar (t : Tok)                                    -- body must be a scalar body
  | arr (tag : Option Int) (len : Int) (items : List TV)
  | map (tag : Option Int) (len : Int) (entries : List (TV × TV))

def Body.isScalar : Body → Bool
  | .mapOpen _ | .mapClose | .arrOpen _ | .arrClose => false
  | _ => true

mutual
  def TV.flatten : TV → List Tok
    | .scalar t => [t]
    | .arr tag len items => ⟨.arrOpen len, tag⟩ :: (TV.flattenList items ++ [⟨.arrClose, none⟩])
    | .map tag len entries => ⟨.mapOpen len, tag⟩ :: (TV.flattenEntries entries ++ [⟨.mapClose, none⟩])
  def TV.flattenList : List TV → List Tok
    | [] => []
    | v :: vs => TV.flatten v ++ TV.flattenList vs
  def TV.flattenEntries : List (TV × TV) → List Tok
    | [] => []
    | (k, v) :: es => TV.flatten k ++ (TV.flatten v ++ TV.flattenEntries es)
end

mutual
  /-- Inverse of `flatten`: read one token tree from the front of a token list. -/
  def TV.unflatten : Nat → List Tok → Option (TV × List Tok)
    | 0, _ => none
    | _, [] => none
    | fuel+1, t :: ts =>
      match t.body with
      | .arrOpen len => (TV.unflattenList fuel ts).map fun (vs, r) => (.arr t.tag len vs, r)
      | .mapOpen len => (TV.unflattenEntries fuel ts).map fun (es, r) => (.map t.tag len es, r)
      | .arrClose => none
      | .mapClose => none
      | _ => some (.scalar t, ts)
  def TV.unflattenList : Nat → List Tok → Option (List TV × List Tok)
    | 0, _ => none
    | _, [] => none
    | fuel+1, t :: ts =>
      match t.body with
      | .arrClose => some ([], ts)
      | _ => match TV.unflatten fuel (t :: ts) with
        | none => none
        | some (v, r) => (TV.unflattenList fuel r).map fun (vs, r') => (v :: vs, r')
  def TV.unflattenEntries : Nat → List Tok → Option (List (TV × TV) × List Tok)
    | 0, _ => none
    | _, [] => none
    | fuel+1, t :: ts =>
      match t.body with
      | .mapClose => some ([], ts)
      | _ => match TV.unflatten fuel (t :: ts) with
        | none => none
        | some (k, r) => match TV.unflatten fuel r with
          | none => none
          | some (v, r') => (TV.unflattenEntries fuel r').map fun (es, r'') => ((k, v) :: es, r'')
end

/-- The whole list is exactly one token tree. -/
def TV.ofToks (ts : List Tok) : Option TV :=
  match TV.unflatten (ts.length + 1) ts with
  | some (v, []) => some v
  | _ => none

mutual
  /-- Every declared non-negative length equals the number of entries that follow. -/
  def TV.lengthsOk : TV → Bool
    | .scalar _ => true
    | .arr _ len items => (len < 0 || len == items.length) && TV.lengthsOkList items
    | .map _ len es => (len < 0 || len == es.length) && TV.lengthsOkEntries es
  def TV.lengthsOkList : List TV → Bool
    | [] => true
    | v :: vs => TV.lengthsOk v && TV.lengthsOkList vs
  def TV.lengthsOkEntries : List (TV × TV) → Bool
    | [] => true
    | (k, v) :: es => TV.lengthsOk k && TV.lengthsOk v && TV.lengthsOkEntries es
end

end Refmt
