/-
  Tokens: the lingua franca of refmt (tok/token.go).

  Go's `Token` is a fat struct whose value fields are a union selected by `Type`;
  the model uses a sum type carrying only the field that has meaning.  Bytes are
  natural numbers (< 256 wherever they come from the wire or the protocol parser);
  strings are byte lists because Go strings may hold invalid UTF-8.
-/
namespace Refmt

abbrev Bytes := List Nat

/-- Token payload; one constructor per `tok.TokenType`. -/
inductive Body where
  | mapOpen (len : Int)
  | mapClose
  | arrOpen (len : Int)
  | arrClose
  | null
  | str (s : Bytes)
  | bytes (b : Bytes)
  | bool (b : Bool)
  | int (i : Int)
  | uint (n : Nat)
  | float (bits : Nat)
deriving DecidableEq, Repr, Inhabited

/-- A token: payload plus the CBOR tag extension slot (`Tagged`/`Tag`). -/
structure Tok where
  body : Body
  tag : Option Int := none
deriving DecidableEq, Repr, Inhabited

def two64 : Nat := 18446744073709551616
def two63 : Nat := 9223372036854775808

/-- `uint64(x)` for a Go `int`/`int64` value `x`. -/
def toU64 (x : Int) : Nat := (x % (two64 : Int)).toNat

/-- `int64(x)` for a Go `uint64` value `x`. -/
def toI64 (x : Nat) : Int :=
  let y := x % two64
  if y < two63 then (y : Int) else (y : Int) - (two64 : Int)

/-- Token trees: one value. `len` fields record the declared length (negative = indefinite). -/
inductive TV where
  | scalar (t : Tok)                                    -- body must be a scalar body
  | arr (tag : Option Int) (len : Int) (items : List TV)
  | map (tag : Option Int) (len : Int) (entries : List (Tok × TV))

def Body.isScalar : Body → Bool
  | .mapOpen _ | .mapClose | .arrOpen _ | .arrClose => false
  | _ => true

mutual
  def TV.flatten : TV → List Tok
    | .scalar t => [t]
    | .arr tag len items => ⟨.arrOpen len, tag⟩ :: (TV.flattenList items ++ [⟨.arrClose, none⟩])
    | .map tag len entries => ⟨.mapOpen len, tag⟩ :: (TV.flattenEntries entries ++ [⟨.mapClose, none⟩])
  def TV.flattenList : List TV → List Tok
    | [] => []
    | v :: vs => TV.flatten v ++ TV.flattenList vs
  def TV.flattenEntries : List (Tok × TV) → List Tok
    | [] => []
    | (k, v) :: es => k :: (TV.flatten v ++ TV.flattenEntries es)
end

end Refmt
