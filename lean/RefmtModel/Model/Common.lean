import RefmtModel.Tok
namespace Refmt

/-- How an encoder `Step` returns.
    `ck d`   : `return d, w.checkErr()`  (done flag `d`, error iff the writer has failed)
    `plain d`: `return d, nil`
    `bad`    : a token-stream error (`ErrInvalidTokenStream` / fmt.Errorf)
    `badck`  : `return false, err` where err is a value error (kept apart only for done-flag fidelity)
    `panic`  : the Go code panics -/
inductive Ret
  | ck (done : Bool)
  | plain (done : Bool)
  | bad
  | panic
deriving DecidableEq, Repr

structure EncOut (σ : Type) where
  st : σ
  writes : List Bytes      -- one element per `Write` call, in order
  ret : Ret

end Refmt

namespace Refmt

/-- Observable result of one `Step` with a writer that never fails. -/
inductive Flag | cont | done | err | panic
deriving DecidableEq, Repr

def Ret.flag : Ret → Flag
  | .ck d => if d then .done else .cont
  | .plain d => if d then .done else .cont
  | .bad => .err
  | .panic => .panic

/-- Feed tokens to an encoder until the first done / error / panic; one flag per step taken. -/
def runFlags {σ : Type} (step : σ → Tok → EncOut σ) : σ → List Tok → List Flag
  | _, [] => []
  | s, t :: ts =>
    match (step s t).ret.flag with
    | .cont => .cont :: runFlags step (step s t).st ts
    | f => [f]

/-- Like `runFlags`, also collecting the `Write` calls made (writer never fails). -/
def runOut {σ : Type} (step : σ → Tok → EncOut σ) : σ → List Tok → List Flag × List Bytes
  | _, [] => ([], [])
  | s, t :: ts =>
    match (step s t).ret.flag with
    | .cont =>
      let r := runOut step (step s t).st ts
      (.cont :: r.1, (step s t).writes ++ r.2)
    | f => ([f], (step s t).writes)

end Refmt
