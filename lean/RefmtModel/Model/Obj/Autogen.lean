/-
  Model of obj/atlas/structMapAutogen.go: `exploreFields` (a port of encoding/json's
  breadth-first field resolution), `dominantField`, the three sorters, `parseTag`,
  `isValidTag`, `downcaseFirstLetter`; and the specification it is checked against:
  Go's promotion rule applied to refmt's serial names (`promoted`).
  Unicode case/letter tables are a parameter (`UTab`), instantiated for the names the
  harness generates.
-/
import RefmtModel.Model.Obj.Marshal
import RefmtModel.Base.Utf8
namespace Refmt.Obj
open Refmt

structure UTab where
  isUpper : Nat → Bool
  toLower : Nat → Nat
  isLetterOrDigit : Nat → Bool

/-- upper-case letters whose lower-case form has a different UTF-8 length (or lies in another block):
    İ→i, Ⱥ→ⱥ, K (Kelvin)→k, Å (Angstrom)→å, Ω (Ohm)→ω, ẞ→ß -/
def oddCase : List (Nat × Nat) := [(0x130, 0x69), (0x23A, 0x2C65), (0x212A, 0x6B), (0x212B, 0xE5), (0x2126, 0x3C9), (0x1E9E, 0xDF)]

/-- ASCII plus the few non-ASCII letters the shape generator uses -/
def uTab : UTab where
  isUpper r := (65 ≤ r && r ≤ 90) || r == 0xC9 || r == 0x3A9 || (0xC0 ≤ r && r ≤ 0xDE && r != 0xD7) || (oddCase.lookup r).isSome
  toLower r := if 65 ≤ r && r ≤ 90 then r + 32 else if r == 0x3A9 then 0x3C9 else if 0xC0 ≤ r && r ≤ 0xDE && r != 0xD7 then r + 32
               else (oddCase.lookup r).getD r
  isLetterOrDigit r := (48 ≤ r && r ≤ 57) || (65 ≤ r && r ≤ 90) || (97 ≤ r && r ≤ 122) || (r ≥ 0xC0 && r != 0xD7 && r != 0xF7 && r != runeError)

/-- `downcaseFirstLetter` (after the repair: the first rune is decoded) -/
def downcaseFirst (u : UTab) (s : Bytes) : Bytes :=
  match s with
  | [] => []
  | _ =>
    let (r, size) := decodeRune s
    if !u.isUpper r then s else encodeRune (u.toLower r) ++ s.drop size

/-- `parseTag`: (name, options) split at the first comma -/
def parseTag (tag : Bytes) : Bytes × Bytes :=
  (tag.takeWhile (· != 44), (tag.dropWhile (· != 44)).drop 1)

/-- `tagOptions.Contains` -/
def optContains (opts : Bytes) (name : Bytes) : Bool :=
  let rec go : Nat → Bytes → Bool
    | 0, _ => false
    | fuel+1, s =>
      if s.isEmpty then false else
      let hd := s.takeWhile (· != 44)
      let rest := (s.dropWhile (· != 44)).drop 1
      hd == name || go fuel rest
  go (opts.length + 1) opts

def punct : Bytes := [33, 35, 36, 37, 38, 40, 41, 42, 43, 45, 46, 47, 58, 60, 61, 62, 63, 64, 91, 93, 94, 95, 123, 124, 125, 126, 32]

/-- `isValidTag` over runes -/
def isValidTag (u : UTab) (s : Bytes) : Bool :=
  let rec go : Nat → Bytes → Bool
    | 0, _ => true
    | _, [] => true
    | fuel+1, b :: rest =>
      let (r, size) := decodeRune (b :: rest)
      (punct.contains r || u.isLetterOrDigit r) && go fuel ((b :: rest).drop (max size 1))
  !s.isEmpty && go (s.length + 1) s

structure AField where
  name : Bytes
  route : List Nat
  ty : Nat
  tagged : Bool
  omitEmpty : Bool
deriving DecidableEq, Repr, Inhabited

def kindIsStruct (ts : Types) (id : Nat) : Bool := match ts.get id with | .struct _ => true | _ => false
def derefOnce (ts : Types) (id : Nat) : Nat := match ts.get id with | .ptr e => e | _ => id

def routeLt : List Nat → List Nat → Bool
  | [], [] => false
  | [], _ :: _ => true
  | _ :: _, [] => false
  | a :: as, b :: bs => if a != b then a < b else routeLt as bs

/-- `StructMapEntry_byName.Less` -/
def byNameLe (x y : AField) : Bool :=
  if x.name != y.name then bytesLt x.name y.name
  else if x.route.length != y.route.length then x.route.length < y.route.length
  else if x.tagged != y.tagged then x.tagged
  else !routeLt y.route x.route

/-- `dominantField` on a group of same-name fields sorted by `byName` -/
def dominantField (fs : List AField) : Option AField :=
  match fs with
  | [] => none
  | f0 :: _ =>
    let top := fs.takeWhile fun f => f.route.length == f0.route.length
    let tagged := top.filter (·.tagged)
    match tagged with
    | [t] => some t
    | _ :: _ :: _ => none
    | [] => (match top with | [x] => some x | _ => none)

def groupByName : Nat → List AField → List (List AField)
  | 0, _ => []
  | _, [] => []
  | fuel+1, f :: rest =>
    let same := rest.takeWhile (·.name == f.name)
    (f :: same) :: groupByName fuel (rest.dropWhile (·.name == f.name))

/-- one BFS level: scan the struct types in `current`; returns (found fields, next queue, next counts, visited) -/
def scanLevel (ts : Types) (u : UTab) (current : List (List Nat × Nat)) (count : List (Nat × Nat)) (visited : List Nat) :
    List AField × List (List Nat × Nat) × List (Nat × Nat) × List Nat :=
  current.foldl (fun (acc : List AField × List (List Nat × Nat) × List (Nat × Nat) × List Nat) (f : List Nat × Nat) =>
    let (fields, next, nextCount, vis) := acc
    let (froute, fty) := f
    if vis.contains fty then acc else
    let vis := fty :: vis
    match ts.get fty with
    | .struct fds =>
      (fds.zipIdx).foldl (fun (acc2 : List AField × List (List Nat × Nat) × List (Nat × Nat) × List Nat) (p : FieldDesc × Nat) =>
        let (fields, next, nextCount, vis) := acc2
        let (sf, i) := p
        let skip :=
          if sf.embedded then (!sf.exported && !kindIsStruct ts (derefOnce ts sf.ty)) else !sf.exported
        if skip then acc2 else
        let tag := sf.tag.getD []
        if tag == [45] then acc2 else
        let (nm0, opts) := parseTag tag
        let nm := if isValidTag u nm0 then nm0 else []
        let route := froute ++ [i]
        let ft := derefOnce ts sf.ty
        if !nm.isEmpty || !sf.embedded || !kindIsStruct ts ft then
          if !sf.exported then acc2 else     -- a named embedded field of unexported struct type is an unexported field
          let fld : AField := ⟨if nm.isEmpty then downcaseFirst u sf.name else nm, route, sf.ty, !nm.isEmpty, optContains opts [111, 109, 105, 116, 101, 109, 112, 116, 121]⟩
          let dup := (count.lookup fty).getD 0 > 1
          (fields ++ (if dup then [fld, fld] else [fld]), next, nextCount, vis)
        else
          let c := (nextCount.lookup ft).getD 0
          -- multiplicity carries over from a parent type that is itself reached more than once
          let c' := if (count.lookup fty).getD 0 > 1 then 2 else c + 1
          let nextCount' := (ft, c') :: nextCount.filter (·.1 != ft)
          (fields, if c == 0 then next ++ [(route, ft)] else next, nextCount', vis)) (fields, next, nextCount, vis)
    | _ => (fields, next, nextCount, vis)) ([], [], [], visited)

def bfs (ts : Types) (u : UTab) : Nat → List (List Nat × Nat) → List (Nat × Nat) → List Nat → List AField → List AField
  | 0, _, _, _, acc => acc
  | _, [], _, _, acc => acc
  | fuel+1, current, count, visited, acc =>
    let (found, next, nextCount, vis) := scanLevel ts u current count visited
    bfs ts u fuel next nextCount vis (acc ++ found)

/-- RFC 7049 order on names -/
def rfcLe (x y : AField) : Bool :=
  if x.name.length != y.name.length then x.name.length < y.name.length else bytesLe x.name y.name

/-- `exploreFields` -/
def exploreFields (ts : Types) (u : UTab) (root : Nat) (mode : KeySort) : List AField :=
  let all := bfs ts u 64 [([], root)] [] [] []
  let sorted := all.mergeSort byNameLe
  let picked := (groupByName (sorted.length + 1) sorted).filterMap fun g =>
    match g with
    | [x] => some x
    | _ => dominantField g
  match mode with
  | .default => picked.mergeSort fun x y => !routeLt y.route x.route
  | .strings => picked
  | .rfc7049 => picked.mergeSort rfcLe

/-! ### Specification: Go's promotion rule on serial names -/

/-- all candidate fields with their depth (= route length), following every embedding path -/
def candidates (ts : Types) (u : UTab) : Nat → List Nat → List Nat → Nat → List AField
  | 0, _, _, _ => []
  | fuel+1, path, route, sty =>
    if path.contains sty then [] else
    match ts.get sty with
    | .struct fds =>
      (fds.zipIdx).flatMap fun (sf, i) =>
        let skip := if sf.embedded then (!sf.exported && !kindIsStruct ts (derefOnce ts sf.ty)) else !sf.exported
        if skip then [] else
        let tag := sf.tag.getD []
        if tag == [45] then [] else
        let (nm0, opts) := parseTag tag
        let nm := if isValidTag u nm0 then nm0 else []
        let ft := derefOnce ts sf.ty
        if !nm.isEmpty || !sf.embedded || !kindIsStruct ts ft then
          if !sf.exported then [] else
          [⟨if nm.isEmpty then downcaseFirst u sf.name else nm, route ++ [i], sf.ty, !nm.isEmpty,
            optContains opts [111, 109, 105, 116, 101, 109, 112, 116, 121]⟩]
        else candidates ts u fuel (sty :: path) (route ++ [i]) ft
    | _ => []

/-- the field selected for `name`, if any: at the minimal depth exactly one tagged candidate,
    or no tagged one and exactly one candidate -/
def selectName (cands : List AField) (name : Bytes) : Option AField :=
  let cs := cands.filter (·.name == name)
  match cs.map (·.route.length) with
  | [] => none
  | d :: ds =>
    let dmin := ds.foldl min d
    let top := cs.filter (·.route.length == dmin)
    match top.filter (·.tagged) with
    | [t] => some t
    | _ :: _ :: _ => none
    | [] => (match top with | [x] => some x | _ => none)

/-- the promoted field set (order: by name) -/
def promoted (ts : Types) (u : UTab) (root : Nat) : List AField :=
  let cands := candidates ts u 64 [] [] root
  let names := (cands.map (·.name)).eraseDups.mergeSort bytesLe
  names.filterMap (selectName cands)

end Refmt.Obj
