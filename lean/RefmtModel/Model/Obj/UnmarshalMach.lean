/-
  A STATEFUL model of the object unmarshaller (obj/unmarshal.go, unmarshalSlab.go and the machine files),
  mirroring the Go structure: a slab of rows, each row embedding one instance of every machine struct; a stack
  of suspended machines; a current machine; `Bind`; one token per `Step`.

  The functional model (Unmarshal.lean) has no per-instance state.  This one has, and
  RefmtProofs/Props/C17ObjUnmarshal.lean relates the two, from ANY starting state of the instance.

  Representation choices (the model's values are untyped, Go's are addressable `reflect.Value`s):
    * a machine reference (Go: pointer to a sub-struct of a row) is a pair (row index, machine kind).
    * `reflect.Value` targets are SLOTS: every machine keeps the current content of its target in its own row
      (`…_rv`); a `Step` that reports done also reports the final content of the machine's target (`SRes.done`),
      and the driver, when it pops the parent machine, hands that content to it (`absorb`: the write that Go's
      child machine made through the `reflect.Value` it was given: slice element, array element, the map
      machine's `tmp_rv`, the struct field reached by the field's route).  Wrapping machines (ptrDeref, wildcard,
      transform, union) pass the content of their delegate's target on: in Go the delegate wrote through them.
    * where Go asks a value for its type (`rv.Type()`), the slot carries the declared type id (`…_rt`).
    * `reflect.Type` arguments of `Reset` are type ids.
    * configuration that Go reaches through a pointer (`cfg.StructMap.Fields`, `cfg.Elements`) is copied into the
      row when the row is configured; the primitive machine's `kind` is represented by the type id (which also
      gives the length of a byte array), `kind = Interface` by the flag `anyKind`.
    * machine selection reuses `upickBare` / `umachForEntry`, and `storePrim`, `innerCur`, `wrapPtr`, `getRoute`,
      `setRoute`, `hasKey`, `zeroVal`, `peel` of the functional model.
    * recursion that is unbounded in Go takes fuel; running out of it is `XFail.stuck`.
-/
import RefmtModel.Model.Obj.Unmarshal
namespace Refmt.Obj.UM
open Refmt Refmt.Obj

/-- the machine structs embedded in a slab row -/
inductive MK
  | ptr | prim | wild | map | slice | array | struct | transform | union | errThunk
deriving DecidableEq, Repr, Inhabited

/-- an `UnmarshalMachine` interface value: pointer to a sub-struct of a row -/
structure URef where
  row : Nat
  kind : MK
deriving DecidableEq, Repr, Inhabited

/-- failures of the stateful model: those of the functional model, plus divergence -/
inductive XFail | f (x : Fail) | stuck
deriving DecidableEq, Repr

/-- `ptrDerefDelegateUnmarshalMachine` (the embedded interface is a machine of the same row) -/
structure PtrM where
  mach : Option MK := none
  peelCount : Nat := 0
  ptr_rv : Val := .ptr none
  ptr_rt : Nat := 0
  firstStep : Bool := false
deriving Repr

/-- `unmarshalMachinePrimitive`; `ty` stands for `kind` -/
structure PrimM where
  ty : Nat := 0
  anyKind : Bool := false
  rv : Val := .ptr none
deriving Repr

/-- `unmarshalMachineWildcard`; `holder = some ty` is a valid `holder_rv` of type `ty`; `dyn` is the dynamic type
    of what was stored into the target when there is no holder (the map case) -/
structure WildM where
  target_rv : Val := .ptr none
  target_rt : Nat := 0
  delegate : Option URef := none
  holder : Option Nat := none
  dyn : Nat := 0
deriving Repr

inductive MapPhase | initial | acceptKeyOrClose | acceptValue | acceptAnotherKeyOrClose
deriving DecidableEq, Repr, Inhabited

/-- `unmarshalMachineMapStringWildcard` -/
structure MapM where
  target_rv : Val := .ptr none
  value_rt : Nat := 0
  valueMach : Option URef := none
  valueZero_rv : Val := .ptr none
  key_rv : Val := .ptr none
  keyDestringer : Option Nat := none
  tmp_rv : Val := .ptr none
  phase : MapPhase := .initial
deriving Repr

inductive ArrPhase | initial | acceptValueOrClose
deriving DecidableEq, Repr, Inhabited

/-- `unmarshalMachineSliceWildcard`; `working` stands for `working_rv` (the elements) -/
structure SliceM where
  target_rv : Val := .ptr none
  working : List Val := []
  value_rt : Nat := 0
  valueZero_rv : Val := .ptr none
  valueMach : Option URef := none
  phase : ArrPhase := .initial
  index : Nat := 0
deriving Repr

/-- `unmarshalMachineArrayWildcard`; `target_rt` stands for `target_rv.Type()` -/
structure ArrayM where
  target_rv : Val := .ptr none
  target_rt : Nat := 0
  value_rt : Nat := 0
  valueMach : Option URef := none
  phase : ArrPhase := .initial
  index : Nat := 0
  maxLen : Nat := 0
deriving Repr

/-- `unmarshalMachineStructAtlas`; `fields` stands for `cfg.StructMap.Fields`, `rt` for `rv.Type()` -/
structure StructM where
  fields : List SMField := []
  rv : Val := .ptr none
  rt : Nat := 0
  expectLen : Int := 0
  index : Int := 0
  value : Bool := false
  fieldEntry : SMField := ⟨[], false, [], 0, false⟩
deriving Repr

/-- `unmarshalMachineTransform`; the delegate is a machine of the same row -/
structure TransM where
  trFunc : Nat := 0
  recv_rt : Nat := 0
  delegate : Option MK := none
  target_rv : Val := .ptr none
  recv_rv : Val := .ptr none
deriving Repr

inductive UPhase | acceptMapOpen | acceptKey | delegate | acceptMapClose
deriving DecidableEq, Repr, Inhabited

/-- `unmarshalMachineUnionKeyed`; `members` stands for `cfg.Elements`; `tmp_rt` for `tmp_rv.Type()` -/
structure UnionM where
  members : List (Bytes × Nat) := []
  target_rv : Val := .ptr none
  target_rt : Nat := 0
  phase : UPhase := .acceptMapOpen
  tmp_rv : Val := .ptr none
  tmp_rt : Nat := 0
  delegate : Option URef := none
deriving Repr

/-- `errThunkUnmarshalMachine` -/
structure ErrM where
  err : Option Fail := none
deriving Repr

/-- `unmarshalSlabRow` -/
structure URow where
  ptr : PtrM := {}
  prim : PrimM := {}
  wild : WildM := {}
  map : MapM := {}
  slice : SliceM := {}
  array : ArrayM := {}
  struct : StructM := {}
  transform : TransM := {}
  union : UnionM := {}
  err : ErrM := {}
deriving Repr

/-- `unmarshalSlabRow{}` -/
def URow.zero : URow := {}

/-- `Unmarshaller`: the slab's rows, the stack of suspended machines (top first), the current machine; plus the
    error `Bind` returned, if any -/
structure UState where
  rows : List URow
  stack : List URef
  step : Option URef
  bindErr : Option XFail := none
deriving Repr

/-- `NewUnmarshaller` -/
def UState.fresh : UState := ⟨[], [], none, none⟩

abbrev X := Except XFail

/-- `rt.Kind() == reflect.Ptr` -/
def isPtrTy (ts : Types) (id : Nat) : Bool := match ts.get id with | .ptr _ => true | _ => false

mutual
  /-- `_yieldUnmarshalMachinePtrForAtlasEntry` / the tail of `_yieldUnmarshalMachinePtr`, once the machine has been
      selected (`upickBare` / `umachForEntry`): writes the configuration fields and nothing else -/
  def cfgU (ts : Types) (a : Atlas) : Nat → URow → Nat → UMach → X (URow × MK)
    | 0, _, _, _ => .error .stuck
    | fuel+1, row, id, m =>
      match m with
      | .prim => .ok ({ row with prim := { row.prim with ty := id } }, .prim)
      | .slice _ => .ok (row, .slice)
      | .array _ _ => .ok (row, .array)
      | .map _ _ => .ok (row, .map)
      | .wildcard => .ok (row, .wild)
      | .structMap fs => .ok ({ row with struct := { row.struct with fields := fs } }, .struct)
      | .transform fn uty =>
        -- a pointer receive type is refused; the delegate is picked in the SAME row; a transform delegate is refused
        if isPtrTy ts uty then .ok ({ row with err := { err := some .err } }, .errThunk)
        else
          match yieldBare ts a fuel row uty with
          | .error x => .error x
          | .ok (row1, k) =>
            if k == .transform then .ok ({ row1 with err := { err := some .err } }, .errThunk)
            else .ok ({ row1 with transform := { row1.transform with trFunc := fn, recv_rt := uty, delegate := some k } },
                      .transform)
      | .union ms => .ok ({ row with union := { row.union with members := ms } }, .union)
      | .errThunk => .ok ({ row with err := { err := some .err } }, .errThunk)
      | .panic => .error (.f .panic)
  /-- `_yieldUnmarshalMachinePtr` -/
  def yieldBare (ts : Types) (a : Atlas) : Nat → URow → Nat → X (URow × MK)
    | 0, _, _ => .error .stuck
    | fuel+1, row, id => cfgU ts a fuel row id (upickBare ts a id)
end

/-- `requisitionMachine` on a given (zero) row: peel pointers, pick the bare machine, wrap it in the row's
    ptrDeref machine -/
def yieldU (ts : Types) (a : Atlas) (fuel : Nat) (row : URow) (id : Nat) : X (URow × MK) :=
  let pb := peel ts 64 0 id
  match yieldBare ts a fuel row pb.2 with
  | .error x => .error x
  | .ok (row1, k) =>
    if pb.1 == 0 then .ok (row1, k)
    else .ok ({ row1 with ptr := { row1.ptr with mach := some k, peelCount := pb.1 } }, .ptr)

/-- `grow` -/
def grow (rows : List URow) : List URow := rows ++ [URow.zero]
/-- `release` -/
def release (rows : List URow) : List URow := rows.dropLast

/-- `requisitionMachine`: grow, then configure the new (zero) row -/
def requisition (ts : Types) (a : Atlas) (fuel : Nat) (rows : List URow) (id : Nat) : X (List URow × URef) :=
  match yieldU ts a fuel URow.zero id with
  | .error x => .error x
  | .ok (row, k) => .ok (rows ++ [row], ⟨rows.length, k⟩)

/-- a machine writing into its row -/
def updRow (rows : List URow) (i : Nat) (f : URow → URow) : List URow :=
  match rows[i]? with
  | some r => rows.set i (f r)
  | none => rows

/-- the tip row's index (`slab.tip()`) -/
def tipIx (rows : List URow) : Nat := rows.length - 1

/-- the map machine's key-type switch in `Reset`: `none` = unsupported key type, `some none` = string keys,
    `some (some fn)` = keys made from strings by the atlas transform `fn` -/
def keyFnOfU (ts : Types) (a : Atlas) (kt : Nat) : Option (Option Nat) :=
  match ts.get kt with
  | .prim .string _ => some none
  | _ =>
    (match a.get kt with
     | some ⟨_, _, _, .transform fn _ uty⟩ =>
       (match ts.get uty with | .prim .string _ => some (some fn) | _ => none)
     | _ => none)

/-- the type of `Reset` once the machine is fixed: type, value (current content of the target), rows -/
abbrev ResetF := URef → Nat → Val → List URow → X (List URow)

/-- `ptrDerefDelegateUnmarshalMachine.Reset`: the delegate's Reset is deferred to the first step -/
def resetPtr (m : URef) (rt : Nat) (v : Val) (R : List URow) : X (List URow) :=
  .ok (updRow R m.row fun r => { r with ptr := { r.ptr with ptr_rv := v, ptr_rt := rt, firstStep := true } })

/-- `unmarshalMachinePrimitive.Reset` -/
def resetPrim (m : URef) (v : Val) (R : List URow) : X (List URow) :=
  .ok (updRow R m.row fun r => { r with prim := { r.prim with rv := v } })

/-- `unmarshalMachineWildcard.Reset` -/
def resetWild (m : URef) (rt : Nat) (v : Val) (R : List URow) : X (List URow) :=
  .ok (updRow R m.row fun r => { r with wild := { r.wild with
    target_rv := v, target_rt := rt, delegate := none, holder := none } })

/-- `unmarshalMachineMapStringWildcard.Reset`: the value machine is requisitioned BEFORE the key type is checked -/
def resetMap (ts : Types) (a : Atlas) (fuel : Nat) (m : URef) (rt : Nat) (v : Val) (R : List URow) : X (List URow) :=
  match ts.get rt with
  | .map kt vt =>
    (match requisition ts a fuel R vt with
     | .error x => .error x
     | .ok (R1, d) =>
       match keyFnOfU ts a kt with
       | none => .error (.f .err)
       | some kf =>
         .ok (updRow R1 m.row fun r => { r with map :=
           { target_rv := v, value_rt := vt, valueMach := some d, valueZero_rv := zeroVal ts 64 vt,
             key_rv := zeroVal ts 64 kt, keyDestringer := kf, tmp_rv := zeroVal ts 64 vt, phase := .initial } }))
  | _ => .error (.f .panic)

/-- the elements a slice value holds -/
def sliceElems : Val → List Val
  | .slice (some es) => es
  | _ => []

/-- `unmarshalMachineSliceWildcard.Reset` (`working_rv` is the same handle as `target_rv`) -/
def resetSlice (ts : Types) (a : Atlas) (fuel : Nat) (m : URef) (rt : Nat) (v : Val) (R : List URow) : X (List URow) :=
  match ts.get rt with
  | .slice e =>
    (match requisition ts a fuel R e with
     | .error x => .error x
     | .ok (R1, d) =>
       .ok (updRow R1 m.row fun r => { r with slice :=
         { target_rv := v, working := sliceElems v, value_rt := e, valueZero_rv := zeroVal ts 64 e,
           valueMach := some d, phase := .initial, index := 0 } }))
  | _ => .error (.f .panic)

/-- `unmarshalMachineArrayWildcard.Reset` -/
def resetArray (ts : Types) (a : Atlas) (fuel : Nat) (m : URef) (rt : Nat) (v : Val) (R : List URow) : X (List URow) :=
  match ts.get rt with
  | .arr n e =>
    (match requisition ts a fuel R e with
     | .error x => .error x
     | .ok (R1, d) =>
       .ok (updRow R1 m.row fun r => { r with array :=
         { target_rv := v, target_rt := rt, value_rt := e, valueMach := some d, phase := .initial, index := 0,
           maxLen := n } }))
  | _ => .error (.f .panic)

/-- `unmarshalMachineStructAtlas.Reset`.  NB: `expectLen`, `fieldEntry` are not touched. -/
def resetStruct (m : URef) (rt : Nat) (v : Val) (R : List URow) : X (List URow) :=
  .ok (updRow R m.row fun r => { r with struct := { r.struct with rv := v, rt := rt, index := -1, value := false } })

/-- `unmarshalMachineTransform.Reset` -/
def resetTransform (ts : Types) (rec : ResetF) (m : URef) (row : URow) (v : Val) (R : List URow) : X (List URow) :=
  match row.transform.delegate with
  | none => .error (.f .panic)
  | some k =>
    let rv := zeroVal ts 64 row.transform.recv_rt
    rec ⟨m.row, k⟩ row.transform.recv_rt rv
      (updRow R m.row fun r => { r with transform := { r.transform with target_rv := v, recv_rv := rv } })

/-- `unmarshalMachineUnionKeyed.Reset`.  NB: `tmp_rv`, `delegate` are not touched. -/
def resetUnion (m : URef) (rt : Nat) (v : Val) (R : List URow) : X (List URow) :=
  .ok (updRow R m.row fun r => { r with union := { r.union with target_rv := v, target_rt := rt, phase := .acceptMapOpen } })

/-- `errThunkUnmarshalMachine.Reset` -/
def resetErr (row : URow) (R : List URow) : X (List URow) :=
  match row.err.err with
  | some f => .error (.f f)
  | none => .ok R

/-- dispatch on the machine behind the interface value -/
def resetBody (ts : Types) (a : Atlas) (fuel : Nat) (rec : ResetF) : ResetF := fun m rt v R =>
  match R[m.row]? with
  | none => .error (.f .panic)
  | some row =>
    match m.kind with
    | .ptr => resetPtr m rt v R
    | .prim => resetPrim m v R
    | .wild => resetWild m rt v R
    | .map => resetMap ts a fuel m rt v R
    | .slice => resetSlice ts a fuel m rt v R
    | .array => resetArray ts a fuel m rt v R
    | .struct => resetStruct m rt v R
    | .transform => resetTransform ts rec m row v R
    | .union => resetUnion m rt v R
    | .errThunk => resetErr row R

/-- `m.Reset(slab, rv, rt)` on the slab's rows -/
def resetM (ts : Types) (a : Atlas) : Nat → ResetF
  | 0 => fun _ _ _ _ => .error .stuck
  | fuel+1 => resetBody ts a fuel (resetM ts a fuel)

/-- what one `Step` call leaves behind: `done = some v` is `done = true`, with `v` the content of the machine's
    target at that moment; the new state -/
structure SRes where
  done : Option Val
  st : UState

/-- a machine's step writing into its own row -/
def UState.upd (s : UState) (i : Nat) (f : URow → URow) : UState := { s with rows := updRow s.rows i f }

/-- the type of `Step` once the machine is fixed -/
abbrev StepF := URef → UState → Tok → X SRes
/-- the type of `d.Recurse(tok, rv, rt, nextMach)` -/
abbrev RecurseF := UState → Tok → Val → Nat → URef → X SRes

def cont (s : UState) : X SRes := .ok ⟨none, s⟩
def fin (v : Val) (s : UState) : X SRes := .ok ⟨some v, s⟩
def xerr : X SRes := .error (.f .err)
def xpanic : X SRes := .error (.f .panic)

/-- `ptrDerefDelegateUnmarshalMachine.Step` -/
def stepPtr (ts : Types) (reset : ResetF) (rec : StepF) (m : URef) (row : URow) (s : UState) (t : Tok) : X SRes :=
  match row.ptr.mach with
  | none => xpanic
  | some k =>
    let fwd (s' : UState) : X SRes :=
      match rec ⟨m.row, k⟩ s' t with
      | .error x => .error x
      | .ok res => .ok { res with done := res.done.map (wrapPtr row.ptr.peelCount) }
    if row.ptr.firstStep then
      let s1 := s.upd m.row fun r => { r with ptr := { r.ptr with firstStep := false } }
      match t.body with
      | .null => fin (.ptr none) s1
      | _ =>
        match reset ⟨m.row, k⟩ (peel ts 64 0 row.ptr.ptr_rt).2
            (innerCur ts row.ptr.peelCount row.ptr.ptr_rt row.ptr.ptr_rv) s1.rows with
        | .error x => .error x
        | .ok R1 => fwd { s1 with rows := R1 }
    else fwd s

/-- what the primitive machine with `kind = Interface` stores: dynamic type and value -/
def anyVal (it : IfaceTys) (t : Tok) : Option Val :=
  match t.body with
  | .str x => some (.iface (some (it.str, .str x)))
  | .bytes b => some (.iface (some (it.bytes, .bytes (some b))))
  | .bool b => some (.iface (some (it.bool, .bool b)))
  | .int i => some (.iface (some (it.int, .int i)))
  | .uint n => if n < two63 then some (.iface (some (it.int, .int n))) else some (.iface (some (it.uint64, .uint n)))
  | .float f => some (.iface (some (it.f64, .float f)))
  | .null => some (.iface none)
  | _ => none

/-- `unmarshalMachinePrimitive.Step` -/
def stepPrim (ts : Types) (it : IfaceTys) (row : URow) (s : UState) (t : Tok) : X SRes :=
  if row.prim.anyKind then (match anyVal it t with | some v => fin v s | none => xpanic)
  else
    match storePrim (ts.get row.prim.ty) t with
    | some v => fin v s
    | none => xerr

/-- `NumMethod() > 0` of an interface type -/
def hasMethods (ts : Types) (rt : Nat) : Bool := match ts.get rt with | .iface m => m | _ => false

/-- the wildcard machine's step once a delegate is there: step it; when it is done, the target holds the holder's
    (or, without holder, the in-place) content under its dynamic type -/
def wildFwd (rec : StepF) (d : URef) (dynTy : Nat) (s : UState) (t : Tok) : X SRes :=
  match rec d s t with
  | .error x => .error x
  | .ok res => .ok { res with done := res.done.map fun v => .iface (some (dynTy, v)) }

/-- `unmarshalMachineWildcard.Step` with `prepareDemux` -/
def stepWild (ts : Types) (a : Atlas) (it : IfaceTys) (fuel : Nat) (reset : ResetF) (rec : StepF)
    (m : URef) (row : URow) (s : UState) (t : Tok) : X SRes :=
  match row.wild.delegate with
  | some d => wildFwd rec d (row.wild.holder.getD row.wild.dyn) s t
  | none =>
    let tip := tipIx s.rows
    match t.tag with
    | some g =>
      (match a.getByTag g with
       | none => xerr
       | some e =>
         -- `AssignableTo`: the descriptors carry no method sets; as in the functional model
         if hasMethods ts row.wild.target_rt then xerr else
         match s.rows[tip]? with
         | none => xpanic
         | some trow =>
           match yieldBare ts a fuel trow e.ty with
           | .error x => .error x
           | .ok (trow', k) =>
             let d : URef := ⟨tip, k⟩
             let R1 := updRow (s.rows.set tip trow') m.row fun r => { r with wild := { r.wild with
               holder := some e.ty, delegate := some d } }
             match reset d e.ty (zeroVal ts 64 e.ty) R1 with
             | .error x => .error x
             | .ok R2 => wildFwd rec d e.ty { s with rows := R2 } t)
    | none =>
      if hasMethods ts row.wild.target_rt && (match t.body with | .null | .mapClose | .arrClose => false | _ => true)
      then xerr else
      match t.body with
      | .mapOpen _ =>
        let d : URef := ⟨tip, .map⟩
        let R1 := updRow s.rows m.row fun r => { r with wild := { r.wild with
          target_rv := .iface (some (it.mapSI, .map (some []))), dyn := it.mapSI, delegate := some d } }
        (match reset d it.mapSI (.map (some [])) R1 with
         | .error x => .error x
         | .ok R2 => wildFwd rec d it.mapSI { s with rows := R2 } t)
      | .arrOpen _ =>
        let d : URef := ⟨tip, .slice⟩
        let R1 := updRow s.rows m.row fun r => { r with wild := { r.wild with
          holder := some it.sliceI, delegate := some d } }
        (match reset d it.sliceI (.slice (some [])) R1 with
         | .error x => .error x
         | .ok R2 => wildFwd rec d it.sliceI { s with rows := R2 } t)
      | .mapClose => xerr
      | .arrClose => xerr
      | .null => fin (.iface none) s
      | _ =>
        -- a COPY of the tip row's primitive machine, with kind Interface
        (match anyVal it t with | some v => fin v s | none => xpanic)

/-- the entries a map value holds -/
def mapEntries : Val → List (Val × Val)
  | .map (some es) => es
  | _ => []

/-- `step_AcceptKeyOrClose`, on a state whose row `m.row` holds the map machine `mm` -/
def mapKeyOrClose (trs : Trs) (m : URef) (mm : MapM) (s : UState) (t : Tok) : X SRes :=
  match t.body with
  | .mapClose => fin mm.target_rv { s with rows := release s.rows }
  | .str x =>
    let key : Option Val := match mm.keyDestringer with
      | none => some (.str x)
      | some fn => trs.u fn (.str x)
    (match key with
     | none => xerr
     | some k =>
       if hasKey k (mapEntries mm.target_rv) then xerr
       else cont (s.upd m.row fun r => { r with map := { r.map with key_rv := k, phase := .acceptValue } }))
  | _ => xerr

/-- `unmarshalMachineMapStringWildcard.Step` -/
def stepMap (trs : Trs) (rc : RecurseF) (m : URef) (row : URow) (s : UState) (t : Tok) : X SRes :=
  let mm := row.map
  match mm.phase with
  | .initial =>
    (match t.body with
     | .null => fin (.map none) s
     | .mapOpen _ =>
       cont (s.upd m.row fun r => { r with map := { r.map with
         phase := .acceptKeyOrClose, target_rv := .map (some (mapEntries r.map.target_rv)) } })
     | _ => xerr)
  | .acceptKeyOrClose => mapKeyOrClose trs m mm s t
  | .acceptValue =>
    (match mm.valueMach with
     | none => xpanic
     | some d =>
       rc (s.upd m.row fun r => { r with map := { r.map with phase := .acceptAnotherKeyOrClose, tmp_rv := r.map.valueZero_rv } })
         t mm.valueZero_rv mm.value_rt d)
  | .acceptAnotherKeyOrClose =>
    -- `SetMapIndex(key_rv, tmp_rv)`, then as `acceptKeyOrClose`
    let tgt : Val := .map (some (mapEntries mm.target_rv ++ [(mm.key_rv, mm.tmp_rv)]))
    mapKeyOrClose trs m { mm with target_rv := tgt }
      (s.upd m.row fun r => { r with map := { r.map with target_rv := tgt } }) t

/-- `unmarshalMachineSliceWildcard.Step` -/
def stepSlice (rc : RecurseF) (m : URef) (row : URow) (s : UState) (t : Tok) : X SRes :=
  let sm := row.slice
  match sm.phase with
  | .initial =>
    (match t.body with
     | .arrOpen _ =>
       -- `target_rv.Set(MakeSlice(0, 0))`; `working_rv` is the same handle
       cont (s.upd m.row fun r => { r with slice := { r.slice with
         phase := .acceptValueOrClose, target_rv := .slice (some []), working := [] } })
     | .null => fin (.slice none) s
     | _ => xerr)
  | .acceptValueOrClose =>
    (match t.body with
     | .mapClose => xerr
     | .arrClose =>
       fin (.slice (some sm.working))
         { s with rows := release (updRow s.rows m.row fun r => { r with slice := { r.slice with
             target_rv := .slice (some r.slice.working) } }) }
     | _ =>
       match sm.valueMach with
       | none => xpanic
       | some d =>
         rc (s.upd m.row fun r => { r with slice := { r.slice with
             working := r.slice.working ++ [r.slice.valueZero_rv], index := r.slice.index + 1 } })
           t sm.valueZero_rv sm.value_rt d)

/-- the elements an array value holds -/
def arrElems : Val → List Val
  | .arr es => es
  | _ => []

/-- `unmarshalMachineArrayWildcard.Step`.  The zero of the array type is `maxLen` zeros of the element type. -/
def stepArray (ts : Types) (rc : RecurseF) (m : URef) (row : URow) (s : UState) (t : Tok) : X SRes :=
  let am := row.array
  match am.phase with
  | .initial =>
    (match t.body with
     | .arrOpen _ =>
       cont (s.upd m.row fun r => { r with array := { r.array with
         phase := .acceptValueOrClose,
         target_rv := .arr (List.replicate r.array.maxLen (zeroVal ts 64 r.array.value_rt)) } })
     | .null => fin (zeroVal ts 64 am.target_rt) s
     | _ => xerr)
  | .acceptValueOrClose =>
    (match t.body with
     | .mapClose => xerr
     | .arrClose => fin am.target_rv { s with rows := release s.rows }
     | _ =>
       if am.index ≥ am.maxLen then xerr else
       match am.valueMach with
       | none => xpanic
       | some d =>
         rc (s.upd m.row fun r => { r with array := { r.array with index := r.array.index + 1 } })
           t ((arrElems am.target_rv)[am.index]?.getD (zeroVal ts 64 am.value_rt)) am.value_rt d)

/-- `unmarshalMachineStructAtlas.Step` -/
def stepStruct (ts : Types) (a : Atlas) (it : IfaceTys) (fuel : Nat) (rc : RecurseF) (m : URef) (row : URow)
    (s : UState) (t : Tok) : X SRes :=
  let sm := row.struct
  if sm.index < 0 then
    (match t.body with
     | .mapOpen len =>
       cont (s.upd m.row fun r => { r with struct := { r.struct with expectLen := len, index := r.struct.index + 1 } })
     | .null => fin (zeroVal ts 64 sm.rt) s
     | _ => xerr)
  else if sm.value then
    -- the slot of an ignored field is a fresh `interface{}`; otherwise the field reached by the route
    let child : Option (Nat × Val) :=
      if sm.fieldEntry.ignore then some (it.iface, .iface none)
      else (getRoute ts 64 sm.rt sm.fieldEntry.route sm.rv).map fun v => (sm.fieldEntry.ty, v)
    (match child with
     | none => xerr
     | some (crt, crv) =>
       let s1 := s.upd m.row fun r => { r with struct := { r.struct with index := r.struct.index + 1, value := false } }
       match requisition ts a fuel s1.rows crt with
       | .error x => .error x
       | .ok (R1, d) => rc { s1 with rows := R1 } t crv crt d)
  else
    let s1 : UState := if sm.index > 0 then { s with rows := release s.rows } else s
    (match t.body with
     | .mapClose =>
       if sm.expectLen ≥ 0 && sm.expectLen != sm.index then xerr else fin sm.rv s1
     | .str name =>
       (match sm.fields.find? fun f => f.name == name with
        | none => xerr
        | some f => cont (s1.upd m.row fun r => { r with struct := { r.struct with fieldEntry := f, value := true } }))
     | _ => xerr)

/-- `unmarshalMachineTransform.Step` -/
def stepTransform (trs : Trs) (rec : StepF) (m : URef) (row : URow) (s : UState) (t : Tok) : X SRes :=
  match row.transform.delegate with
  | none => xpanic
  | some k =>
    match rec ⟨m.row, k⟩ s t with
    | .error x => .error x
    | .ok res =>
      match res.done with
      | none => .ok res
      | some rv =>
        match trs.u row.transform.trFunc rv with
        | some v => .ok { res with done := some v }
        | none => xerr

/-- `unmarshalMachineUnionKeyed.Step` and its four phases -/
def stepUnion (ts : Types) (a : Atlas) (fuel : Nat) (reset : ResetF) (rec : StepF) (m : URef) (row : URow)
    (s : UState) (t : Tok) : X SRes :=
  let um := row.union
  match um.phase with
  | .acceptMapOpen =>
    (match t.body with
     | .mapOpen len =>
       if len != -1 && len != 1 then xerr
       else cont (s.upd m.row fun r => { r with union := { r.union with phase := .acceptKey } })
     | _ => xerr)
  | .acceptKey =>
    (match t.body with
     | .str name =>
       (match um.members.find? fun (nm, _) => nm == name with
        | none => xerr
        | some (_, idx) =>
          match a.pool[idx]? with
          | none => xpanic
          | some me =>
            let tip := tipIx s.rows
            match s.rows[tip]? with
            | none => xpanic
            | some trow =>
              match cfgU ts a fuel trow me.ty (umachForEntry ts me) with
              | .error x => .error x
              | .ok (trow', k) =>
                let d : URef := ⟨tip, k⟩
                let tmp := zeroVal ts 64 me.ty
                match reset d me.ty tmp (s.rows.set tip trow') with
                | .error x => .error x
                | .ok R2 =>
                  cont { s with rows := updRow R2 m.row fun r => { r with union := { r.union with
                    tmp_rv := tmp, tmp_rt := me.ty, delegate := some d, phase := .delegate } } })
     | _ => xerr)
  | .delegate =>
    (match um.delegate with
     | none => xpanic
     | some d =>
       match rec d s t with
       | .error x => .error x
       | .ok res =>
         match res.done with
         | none => .ok res
         | some v =>
           cont (res.st.upd m.row fun r => { r with union := { r.union with tmp_rv := v, phase := .acceptMapClose } }))
  | .acceptMapClose =>
    (match t.body with
     | .mapClose => fin (.iface (some (um.tmp_rt, um.tmp_rv))) s
     | _ => xerr)

/-- `errThunkUnmarshalMachine.Step` -/
def stepErr (row : URow) : X SRes :=
  match row.err.err with
  | some f => .error (.f f)
  | none => xpanic

/-- the type of `absorb`: the suspended machine, the final content of the child's target, the rows -/
abbrev AbsF := URef → Val → List URow → X (List URow)

/-- the write the child machine made through the `reflect.Value` handed to `Recurse` by the machine that is resumed
    (wrapping machines: by the machine they delegate to) -/
def absorbBody (ts : Types) (rec : AbsF) : AbsF := fun m v R =>
  match R[m.row]? with
  | none => .error (.f .panic)
  | some row =>
    match m.kind with
    | .ptr => (match row.ptr.mach with | some k => rec ⟨m.row, k⟩ v R | none => .error (.f .panic))
    | .wild => (match row.wild.delegate with | some d => rec d v R | none => .error (.f .panic))
    | .transform => (match row.transform.delegate with | some k => rec ⟨m.row, k⟩ v R | none => .error (.f .panic))
    | .union => (match row.union.delegate with | some d => rec d v R | none => .error (.f .panic))
    | .slice =>
      .ok (updRow R m.row fun r => { r with slice := { r.slice with working := r.slice.working.set (r.slice.index - 1) v } })
    | .array =>
      .ok (updRow R m.row fun r => { r with array := { r.array with
        target_rv := .arr ((arrElems r.array.target_rv).set (r.array.index - 1) v) } })
    | .map => .ok (updRow R m.row fun r => { r with map := { r.map with tmp_rv := v } })
    | .struct =>
      if row.struct.fieldEntry.ignore then .ok R
      else
        (match setRoute ts 64 row.struct.rt row.struct.fieldEntry.route row.struct.rv (fun _ => v) with
         | none => .error (.f .panic)
         | some rv' => .ok (updRow R m.row fun r => { r with struct := { r.struct with rv := rv' } }))
    | .prim | .errThunk => .error (.f .panic)

def absorbM (ts : Types) : Nat → AbsF
  | 0 => fun _ _ _ => .error .stuck
  | fuel+1 => absorbBody ts (absorbM ts fuel)

/-- dispatch on the machine behind the interface value -/
def stepBody (ts : Types) (a : Atlas) (trs : Trs) (it : IfaceTys) (fuel : Nat) (rec : StepF) (rc : RecurseF) : StepF :=
  fun m s t =>
    match s.rows[m.row]? with
    | none => .error (.f .panic)
    | some row =>
      match m.kind with
      | .ptr => stepPtr ts (resetM ts a fuel) rec m row s t
      | .prim => stepPrim ts it row s t
      | .wild => stepWild ts a it fuel (resetM ts a fuel) rec m row s t
      | .map => stepMap trs rc m row s t
      | .slice => stepSlice rc m row s t
      | .array => stepArray ts rc m row s t
      | .struct => stepStruct ts a it fuel rc m row s t
      | .transform => stepTransform trs rec m row s t
      | .union => stepUnion ts a fuel (resetM ts a fuel) rec m row s t
      | .errThunk => stepErr row

/-- `d.Recurse(tok, rv, rt, nextMach)` and the caller's `return false, err`: push the current machine, Reset the
    next one, make it current, step the driver once with the same token -/
def recurseBody (ts : Types) (a : Atlas) (fuel : Nat) (ms : UState → Tok → X SRes) : RecurseF :=
  fun s t rv rt next =>
    match s.step with
    | none => .error (.f .panic)
    | some cur =>
      match resetM ts a fuel next rt rv s.rows with
      | .error x => .error x
      | .ok R1 =>
        match ms { s with rows := R1, stack := cur :: s.stack, step := some next } t with
        | .error x => .error x
        | .ok res => .ok { res with done := none }

/-- `d.Step(tok)`: step the current machine; when it is done, pop (the popped machine finds the child's write in
    its target: `absorb`), or report done on an empty stack -/
def ustepBody (ts : Types) (fuel : Nat) (st : StepF) (s : UState) (t : Tok) : X SRes :=
  match s.step with
  | none => .error (.f .panic)
  | some cur =>
    match st cur s t with
    | .error x => .error x
    | .ok res =>
      match res.done with
      | none => .ok res
      | some v =>
        match res.st.stack with
        | [] => .ok res
        | p :: rest =>
          match absorbM ts fuel p v res.st.rows with
          | .error x => .error x
          | .ok R => .ok ⟨none, { res.st with rows := R, step := some p, stack := rest }⟩

mutual
  /-- `m.Step(d, slab, tok)` -/
  def stepM (ts : Types) (a : Atlas) (trs : Trs) (it : IfaceTys) : Nat → StepF
    | 0 => fun _ _ _ => .error .stuck
    | fuel+1 => stepBody ts a trs it fuel (stepM ts a trs it fuel) (recurse ts a trs it fuel)
  def recurse (ts : Types) (a : Atlas) (trs : Trs) (it : IfaceTys) : Nat → RecurseF
    | 0 => fun _ _ _ _ _ => .error .stuck
    | fuel+1 => recurseBody ts a fuel (ustep ts a trs it fuel)
  /-- the driver: one token -/
  def ustep (ts : Types) (a : Atlas) (trs : Trs) (it : IfaceTys) : Nat → UState → Tok → X SRes
    | 0 => fun _ _ => .error .stuck
    | fuel+1 => ustepBody ts fuel (stepM ts a trs it fuel)
end

/-- `d.Bind(&target)` with `cur` the current content of the target: forget the stack and the rows, requisition the
    first machine, Reset it.  Nothing of `dirty` survives except (when requisitioning panics) the stale current
    machine. -/
def bind (ts : Types) (a : Atlas) (fuel : Nat) (dirty : UState) (id : Nat) (cur : Val) : UState :=
  match requisition ts a fuel [] id with
  | .error x => { rows := [], stack := [], step := dirty.step, bindErr := some x }
  | .ok (R, m) =>
    match resetM ts a fuel m id cur R with
    | .error x => { rows := R, stack := [], step := some m, bindErr := some x }
    | .ok R1 => { rows := R1, stack := [], step := some m, bindErr := none }

/-- how a failure at the first of the remaining tokens is reported; divergence of the stateful model is a panic -/
def XFail.toURes : XFail → URes
  | .f .err => .err 0
  | .f .panic => .panic 0
  | .stuck => .panic 0

/-- pump `d.Step` (each call with machine fuel `sf`) over the tokens: one call per token -/
def pump (ts : Types) (a : Atlas) (trs : Trs) (it : IfaceTys) (sf : Nat) : UState → List Tok → URes
  | _, [] => .more 0
  | s, t :: rest =>
    match ustep ts a trs it sf s t with
    | .error x => x.toURes
    | .ok res =>
      match res.done with
      | some v => .ok v rest 1
      | none => (pump ts a trs it sf res.st rest).shift 1

/-- the run of a bound instance, in the functional model's result type.  An error returned by `Bind` is reported
    at the first token (the functional model has no `Bind`: it raises every error at a token). -/
def urun (ts : Types) (a : Atlas) (trs : Trs) (it : IfaceTys) (sf : Nat) (s : UState) (toks : List Tok) : URes :=
  match toks, s.bindErr with
  | [], _ => .more 0
  | _ :: _, some x => x.toURes
  | _ :: _, none => pump ts a trs it sf s toks

end Refmt.Obj.UM
