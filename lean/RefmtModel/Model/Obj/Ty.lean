/-
  The object layer's universe: type descriptors (as read back from Go's reflect),
  values, atlas entries.  Types refer to each other by id so that recursive Go
  types are representable; the table comes from the harness.
-/
import RefmtModel.Model.Reader
namespace Refmt.Obj
open Refmt

inductive Kind
  | bool | int | int8 | int16 | int32 | int64 | uint | uint8 | uint16 | uint32 | uint64 | uintptr | f32 | f64 | string
deriving DecidableEq, Repr, Inhabited

structure FieldDesc where
  name : Bytes
  ty : Nat
  exported : Bool
  embedded : Bool
  tag : Option Bytes      -- the value of the `refmt:"…"` struct tag, if present
deriving DecidableEq, Repr, Inhabited

inductive TyDesc
  | prim (k : Kind) (builtin : Bool)     -- builtin: the predeclared type itself (matched by identity, not overridable)
  | bytes (builtin : Bool)               -- a slice whose element kind is uint8
  | byteArr (n : Nat)                    -- an array whose element kind is uint8
  | slice (elem : Nat)
  | arr (n : Nat) (elem : Nat)
  | map (key : Nat) (elem : Nat)
  | ptr (elem : Nat)
  | iface (methods : Bool)
  | struct (fields : List FieldDesc)
  | other                                -- func, chan, complex, …
deriving DecidableEq, Repr, Inhabited

abbrev Types := List (Nat × TyDesc)

def Types.get (ts : Types) (id : Nat) : TyDesc := (ts.lookup id).getD .other

/-- Go values.  Floats are f64 bit patterns (a float32 is stored as its exact widening). -/
inductive Val
  | bool (b : Bool)
  | int (i : Int)
  | uint (n : Nat)
  | float (bits : Nat)
  | str (s : Bytes)
  | bytes (b : Option Bytes)
  | byteArr (b : Bytes)
  | slice (elems : Option (List Val))
  | arr (elems : List Val)
  | map (entries : Option (List (Val × Val)))
  | ptr (v : Option Val)
  | iface (v : Option (Nat × Val))        -- dynamic type id, value
  | struct (fields : List Val)
deriving Repr, Inhabited

inductive KeySort | default | strings | rfc7049
deriving DecidableEq, Repr, Inhabited

structure SMField where
  name : Bytes
  ignore : Bool
  route : List Nat
  ty : Nat
  omitEmpty : Bool
deriving DecidableEq, Repr, Inhabited

inductive EntryK
  | structMap (fields : List SMField)
  | transform (fn : Nat) (mty : Nat) (uty : Nat)      -- function pair id, marshal target type, unmarshal receive type
  | union (members : List (Bytes × Nat))              -- member name ↦ index into the atlas pool (sorted by name)
  | mapMorph (mode : KeySort)
  | invalid
deriving DecidableEq, Repr, Inhabited

structure Entry where
  registered : Bool
  ty : Nat
  tag : Option Int
  k : EntryK
deriving DecidableEq, Repr, Inhabited

structure Atlas where
  pool : List Entry
  defaultSort : KeySort
deriving Repr, Inhabited

/-- `Atlas.Get(rtid)` -/
def Atlas.get (a : Atlas) (ty : Nat) : Option Entry := a.pool.find? fun e => e.registered && e.ty == ty
/-- `Atlas.GetEntryByTag(tag)` -/
def Atlas.getByTag (a : Atlas) (tag : Int) : Option Entry := a.pool.find? fun e => e.registered && e.tag == some tag

/-- User transform functions (atlas.MarshalTransformFunc / UnmarshalTransformFunc), by pair id.
    `none` = the function returned an error. -/
structure Trs where
  m : Nat → Val → Option Val
  u : Nat → Val → Option Val

inductive Fail | err | panic
deriving DecidableEq, Repr

/-- strip pointer levels: (peel count, base type id) -/
def peel (ts : Types) : Nat → Nat → Nat → Nat × Nat
  | 0, n, id => (n, id)
  | fuel+1, n, id => match ts.get id with
    | .ptr e => peel ts fuel (n + 1) e
    | _ => (n, id)

/-- zero value of a type -/
def zeroVal (ts : Types) : Nat → Nat → Val
  | 0, _ => .ptr none
  | fuel+1, id =>
    match ts.get id with
    | .prim k _ =>
      (match k with
       | .bool => .bool false
       | .string => .str []
       | .f32 | .f64 => .float 0
       | .int | .int8 | .int16 | .int32 | .int64 => .int 0
       | _ => .uint 0)
    | .bytes _ => .bytes none
    | .byteArr n => .byteArr (List.replicate n 0)
    | .slice _ => .slice none
    | .arr n e => .arr (List.replicate n (zeroVal ts fuel e))
    | .map _ _ => .map none
    | .ptr _ => .ptr none
    | .iface _ => .iface none
    | .struct fs => .struct (fs.map fun f => zeroVal ts fuel f.ty)
    | .other => .ptr none

end Refmt.Obj
