/-
  Functional model of the object unmarshaller (obj/unmarshal*.go): feed a token list
  to a target of a given type (starting from a current value: pointers, maps and
  struct fields keep what they hold), obtain the value and the unconsumed tokens,
  or the index of the token at which an error / panic is raised, or "more tokens
  needed".
-/
import RefmtModel.Model.Obj.Marshal
import RefmtModel.Base.FloatText
namespace Refmt.Obj
open Refmt

inductive URes
  | ok (v : Val) (rest : List Tok) (used : Nat)     -- value, unconsumed tokens, tokens consumed
  | more (used : Nat)                                 -- ran out of tokens after consuming `used`
  | err (used : Nat)                                  -- error raised by the token at index `used` (0-based, relative)
  | panic (used : Nat)
deriving Repr

def URes.shift (k : Nat) : URes → URes
  | .ok v r u => .ok v r (u + k)
  | .more u => .more (u + k)
  | .err u => .err (u + k)
  | .panic u => .panic (u + k)

inductive UMach
  | prim | slice (elem : Nat) | array (n : Nat) (elem : Nat) | map (key elem : Nat)
  | wildcard | structMap (fields : List SMField) | transform (fn uty : Nat)
  | union (members : List (Bytes × Nat)) | errThunk | panic

def umachForEntry (ts : Types) (e : Entry) : UMach :=
  match e.k with
  | .transform fn _ uty => .transform fn uty
  | .structMap fs => .structMap fs
  | .union ms => .union ms
  | .mapMorph _ => (match ts.get e.ty with | .map k v => .map k v | _ => .panic)
  | .invalid => .panic

/-- `_yieldUnmarshalMachinePtr` (pointers already peeled) -/
def upickBare (ts : Types) (a : Atlas) (id : Nat) : UMach :=
  match ts.get id with
  | .prim _ true => .prim
  | .bytes true => .prim
  | d =>
    match a.get id with
    | some e => umachForEntry ts e
    | none =>
      match d with
      | .prim _ _ => .prim
      | .bytes _ => .prim
      | .byteArr _ => .prim
      | .slice e => .slice e
      | .arr n e => .array n e
      | .map k v => .map k v
      | .struct _ => .errThunk
      | .iface _ => .wildcard
      | .ptr _ => .panic
      | .other => .errThunk

def intRange : Kind → Option (Int × Int)
  | .int8 => some (-128, 127) | .int16 => some (-32768, 32767) | .int32 => some (-2147483648, 2147483647)
  | .int64 | .int => some (-(two63 : Int), (two63 : Int) - 1)
  | _ => none
def uintMax : Kind → Option Nat
  | .uint8 => some 255 | .uint16 => some 65535 | .uint32 => some 4294967295
  | .uint64 | .uint | .uintptr => some (two64 - 1)
  | _ => none

/-- the primitive machine: one token into a scalar target -/
def storePrim (d : TyDesc) (t : Tok) : Option Val :=
  match d, t.body with
  | .prim .bool _, .bool b => some (.bool b)
  | .prim .string _, .str s => some (.str s)
  | .prim .f64 _, .float b => some (.float b)
  | .prim .f32 _, .float b => some (.float (FloatText.narrowF32 b))
  | .prim .f64 _, .int i => some (.float (FloatText.intToF64 i))
  | .prim .f64 _, .uint n => some (.float (FloatText.intToF64 n))
  | .prim .f32 _, .int i => some (.float (FloatText.narrowF32 (FloatText.intToF64 i)))
  | .prim .f32 _, .uint n => some (.float (FloatText.narrowF32 (FloatText.intToF64 n)))
  | .prim k _, .int i =>
    (match intRange k, uintMax k with
     | some (lo, hi), _ => if lo ≤ i && i ≤ hi then some (.int i) else none
     | _, some mx => if 0 ≤ i && i.toNat ≤ mx then some (.uint i.toNat) else none
     | _, _ => none)
  | .prim k _, .uint n =>
    (match intRange k, uintMax k with
     | some (_, hi), _ => if (n : Int) ≤ hi then some (.int n) else none
     | _, some mx => if n ≤ mx then some (.uint n) else none
     | _, _ => none)
  | .bytes _, .bytes b => some (.bytes (some b))
  | .bytes _, .null => some (.bytes none)
  | .byteArr n, .bytes b => if b.length == n then some (.byteArr b) else none
  | .byteArr n, .null => if n == 0 then some (.byteArr []) else none
  | _, _ => none

/-- dynamic type ids of what an untyped slot receives for scalars -/
structure IfaceTys where
  str : Nat
  bytes : Nat
  bool : Nat
  int : Nat
  uint64 : Nat
  f64 : Nat
  mapSI : Nat       -- map[string]interface{}
  sliceI : Nat      -- []interface{}
  iface : Nat       -- interface{}
deriving Repr, Inhabited

/-- structural equality of values (fuel-bounded; map keys are shallow) -/
def beqVal : Nat → Val → Val → Bool
  | 0, _, _ => false
  | fuel+1, a, b =>
    match a, b with
    | .bool x, .bool y => x == y
    | .int x, .int y => x == y
    | .uint x, .uint y => x == y
    | .float x, .float y => x == y
    | .str x, .str y => x == y
    | .bytes x, .bytes y => x == y
    | .byteArr x, .byteArr y => x == y
    | .struct xs, .struct ys => xs.length == ys.length && (xs.zip ys).all fun (p, q) => beqVal fuel p q
    | .arr xs, .arr ys => xs.length == ys.length && (xs.zip ys).all fun (p, q) => beqVal fuel p q
    | .ptr none, .ptr none => true
    | .ptr (some x), .ptr (some y) => beqVal fuel x y
    | _, _ => false

def hasKey (k : Val) (es : List (Val × Val)) : Bool := es.any fun (k', _) => beqVal 8 k' k

/-- innermost current value along a pointer chain of `n` levels (existing pointees are kept, nil ones are fresh zeros) -/
def innerCur (ts : Types) : Nat → Nat → Val → Val
  | 0, _, v => v
  | n+1, id, v =>
    match ts.get id, v with
    | .ptr e, .ptr (some x) => innerCur ts n e x
    | .ptr e, _ => innerCur ts n e (zeroVal ts 64 e)
    | _, x => x

def wrapPtr : Nat → Val → Val
  | 0, v => v
  | n+1, v => .ptr (some (wrapPtr n v))

/-- `TraverseToValueAllocating` + assignment: update the field at `route` with `f`; `none` = cannot reach -/
def setRoute (ts : Types) : Nat → Nat → List Nat → Val → (Val → Val) → Option Val
  | 0, _, _, _, _ => none
  | _, _, [], v, f => some (f v)
  | fuel+1, id, i :: rest, v, f =>
    match ts.get id, v with
    | .ptr e, .ptr p =>
      (setRoute ts fuel e (i :: rest) (p.getD (zeroVal ts 64 e)) f).map fun x => .ptr (some x)
    | .struct fds, .struct fs =>
      (match fds[i]?, fs[i]? with
       | some fd, some fv =>
         -- a nil embedded pointer of unexported type cannot be set through reflection
         if !rest.isEmpty && !fd.exported && (match fv with | .ptr none => true | _ => false) then none
         else (setRoute ts fuel fd.ty rest fv f).map fun x => .struct (fs.set i x)
       | _, _ => none)
    | _, _ => none

/-- current value of the field at `route` as the unmarshaller would see it after allocation -/
def getRoute (ts : Types) : Nat → Nat → List Nat → Val → Option Val
  | 0, _, _, _ => none
  | _, _, [], v => some v
  | fuel+1, id, i :: rest, v =>
    match ts.get id, v with
    | .ptr e, .ptr p => getRoute ts fuel e (i :: rest) (p.getD (zeroVal ts 64 e))
    | .struct fds, .struct fs =>
      (match fds[i]?, fs[i]? with
       | some fd, some fv =>
         if !rest.isEmpty && !fd.exported && (match fv with | .ptr none => true | _ => false) then none
         else getRoute ts fuel fd.ty rest fv
       | _, _ => none)
    | _, _ => none

mutual
  /-- unmarshal one value of declared type `id` into current value `cur` from `toks` -/
  def unmV (ts : Types) (a : Atlas) (trs : Trs) (it : IfaceTys) : Nat → Nat → Val → List Tok → URes
    | 0, _, _, _ => .panic 0
    | _, _, _, [] => .more 0
    | fuel+1, id, cur, t :: rest =>
      let (n, base) := peel ts 64 0 id
      if n == 0 then unmBare ts a trs it fuel base (upickBare ts a base) cur (t :: rest)
      else
        -- ptrDerefDelegateUnmarshalMachine
        match t.body with
        | .null => .ok (.ptr none) rest 1
        | _ =>
          match unmBare ts a trs it fuel base (upickBare ts a base) (innerCur ts n id cur) (t :: rest) with
          | .ok v r u => .ok (wrapPtr n v) r u
          | x => x
  def unmBare (ts : Types) (a : Atlas) (trs : Trs) (it : IfaceTys) : Nat → Nat → UMach → Val → List Tok → URes
    | 0, _, _, _, _ => .panic 0
    | _, _, _, _, [] => .more 0
    | fuel+1, id, m, cur, t :: rest =>
      match m with
      | .errThunk => .err 0
      | .panic => .panic 0
      | .prim => (match storePrim (ts.get id) t with | some v => .ok v rest 1 | none => .err 0)
      | .wildcard => unmWild ts a trs it fuel (match ts.get id with | .iface m => m | _ => false) t rest
      | .slice e =>
        (match t.body with
         | .null => .ok (.slice none) rest 1
         | .arrOpen _ => (unmElems ts a trs it fuel e none [] rest).shift 1
         | _ => .err 0)
      | .array n e =>
        (match t.body with
         | .null => .ok (zeroVal ts 64 id) rest 1
         | .arrOpen _ =>
           (match unmElems ts a trs it fuel e (some n) [] rest with
            | .ok (.slice (some vs)) r u => .ok (.arr (vs ++ List.replicate (n - vs.length) (zeroVal ts 64 e))) r (u + 1)
            | x => x.shift 1)
         | _ => .err 0)
      | .map kt vt =>
        -- Reset: key type must be string-kinded or have a transform from a string kind
        let keyFn : Option (Option Nat) :=
          match ts.get kt with
          | .prim .string _ => some none
          | _ =>
            (match a.get kt with
             | some ⟨_, _, _, .transform fn _ uty⟩ =>
               (match ts.get uty with | .prim .string _ => some (some fn) | _ => none)
             | _ => none)
        (match keyFn with
         | none => .err 0
         | some kf =>
           (match t.body with
            | .null => .ok (.map none) rest 1
            | .mapOpen _ =>
              let cur0 : List (Val × Val) := match cur with | .map (some es) => es | _ => []
              (unmMapEntries ts a trs it fuel kf vt cur0 rest).shift 1
            | _ => .err 0))
      | .structMap fields =>
        (match t.body with
         | .null => .ok (zeroVal ts 64 id) rest 1
         | .mapOpen len => (unmStruct ts a trs it fuel id fields len 0 cur rest).shift 1
         | _ => .err 0)
      | .transform fn uty =>
        -- delegate chosen without pointer peeling (`_yieldUnmarshalMachinePtr`)
        (match unmBare ts a trs it fuel uty (upickBare ts a uty) (zeroVal ts 64 uty) (t :: rest) with
         | .ok rv r u =>
           (match trs.u fn rv with
            | some v => .ok v r u
            | none => .err (u - 1))
         | x => x)
      | .union members =>
        (match t.body with
         | .mapOpen len =>
           if len != -1 && len != 1 then .err 0 else
           (match rest with
            | [] => .more 1
            | k :: rest2 =>
              (match k.body with
               | .str name =>
                 (match members.find? fun (nm, _) => nm == name with
                  | none => .err 1
                  | some (_, idx) =>
                    (match a.pool[idx]? with
                     | none => .panic 1
                     | some me =>
                       -- the delegate's Reset happens while processing the key token
                       (match umachForEntry ts me with
                        | .errThunk => .err 1
                        | .panic => .panic 1
                        | dm =>
                          (match unmBare ts a trs it fuel me.ty dm (zeroVal ts 64 me.ty) rest2 with
                           | .ok v r u =>
                             (match r with
                              | [] => .more (u + 2)
                              | c :: r' =>
                                (match c.body with
                                 | .mapClose => .ok (.iface (some (me.ty, v))) r' (u + 3)
                                 | _ => .err (u + 2)))
                           | x => x.shift 2))))
               | _ => .err 1))
         | _ => .err 0)
  /-- the wildcard machine (untyped slot): first token decides -/
  def unmWild (ts : Types) (a : Atlas) (trs : Trs) (it : IfaceTys) : Nat → Bool → Tok → List Tok → URes
    | 0, _, _, _ => .panic 0
    | fuel+1, methods, t, rest =>
      match t.tag with
      | some g =>
        (match a.getByTag g with
         | none => .err 0
         | some e =>
           -- into an interface type with methods the registered type would have to implement it; the type
           -- descriptors do not carry method sets, so the model rejects (no zoo atlas reaches this case)
           if methods then .err 0 else
           (match unmBare ts a trs it fuel e.ty (upickBare ts a e.ty) (zeroVal ts 64 e.ty) (t :: rest) with
            | .ok v r u => .ok (.iface (some (e.ty, v))) r u
            | x => x))
      | none =>
        if methods && (match t.body with | .null | .mapClose | .arrClose => false | _ => true) then .err 0 else
        match t.body with
        | .mapOpen _ =>
          (match unmBare ts a trs it fuel it.mapSI (.map it.str it.iface) (.map (some [])) (t :: rest) with
           | .ok v r u => .ok (.iface (some (it.mapSI, v))) r u
           | x => x)
        | .arrOpen _ =>
          (match unmBare ts a trs it fuel it.sliceI (.slice it.iface) (.slice none) (t :: rest) with
           | .ok v r u => .ok (.iface (some (it.sliceI, v))) r u
           | x => x)
        | .mapClose => .err 0
        | .arrClose => .err 0
        | .null => .ok (.iface none) rest 1
        | .str s => .ok (.iface (some (it.str, .str s))) rest 1
        | .bytes b => .ok (.iface (some (it.bytes, .bytes (some b)))) rest 1
        | .bool b => .ok (.iface (some (it.bool, .bool b))) rest 1
        | .int i => .ok (.iface (some (it.int, .int i))) rest 1
        | .uint n =>
          if n < two63 then .ok (.iface (some (it.int, .int n))) rest 1
          else .ok (.iface (some (it.uint64, .uint n))) rest 1
        | .float f => .ok (.iface (some (it.f64, .float f))) rest 1
  /-- elements of a slice / array after the open token; `cap` = fixed array length -/
  def unmElems (ts : Types) (a : Atlas) (trs : Trs) (it : IfaceTys) : Nat → Nat → Option Nat → List Val → List Tok → URes
    | 0, _, _, _, _ => .panic 0
    | _, _, _, _, [] => .more 0
    | fuel+1, e, cap, acc, t :: rest =>
      match t.body with
      | .mapClose => .err 0
      | .arrClose => .ok (.slice (some acc.reverse)) rest 1
      | _ =>
        if (match cap with | some n => decide (acc.length ≥ n) | none => false) then .err 0
        else
          match unmV ts a trs it fuel e (zeroVal ts 64 e) (t :: rest) with
          | .ok v r u => (unmElems ts a trs it fuel e cap (v :: acc) r).shift u
          | x => x
  /-- map entries after the open token; `es` = entries committed so far (in commit order) -/
  def unmMapEntries (ts : Types) (a : Atlas) (trs : Trs) (it : IfaceTys) : Nat → Option Nat → Nat → List (Val × Val) → List Tok → URes
    | 0, _, _, _, _ => .panic 0
    | _, _, _, _, [] => .more 0
    | fuel+1, kf, vt, es, t :: rest =>
      match t.body with
      | .mapClose => .ok (.map (some es)) rest 1
      | .str s =>
        let key : Option Val := match kf with
          | none => some (.str s)
          | some fn => trs.u fn (.str s)
        (match key with
         | none => .err 0
         | some k =>
           if hasKey k es then .err 0
           else
             match unmV ts a trs it fuel vt (zeroVal ts 64 vt) rest with
             | .ok v r u => (unmMapEntries ts a trs it fuel kf vt (es ++ [(k, v)]) r).shift (u + 1)
             | x => x.shift 1)
      | _ => .err 0
  /-- struct entries after the open token; `idx` = entries seen so far -/
  def unmStruct (ts : Types) (a : Atlas) (trs : Trs) (it : IfaceTys) : Nat → Nat → List SMField → Int → Nat → Val → List Tok → URes
    | 0, _, _, _, _, _, _ => .panic 0
    | _, _, _, _, _, _, [] => .more 0
    | fuel+1, id, fields, expectLen, idx, cur, t :: rest =>
      match t.body with
      | .mapClose => if expectLen ≥ 0 && expectLen != idx then .err 0 else .ok cur rest 1
      | .str name =>
        (match fields.find? fun f => f.name == name with
         | none => .err 0
         | some f =>
           if f.ignore then
             -- value slurped into a dummy untyped slot
             (match rest with
              | [] => .more 1
              | v :: rest2 =>
                (match unmWild ts a trs it fuel false v rest2 with
                 | .ok _ r u => (unmStruct ts a trs it fuel id fields expectLen (idx + 1) cur r).shift (u + 1)
                 | x => x.shift 1))
           else
             (match rest with
              | [] => .more 1
              | _ =>
                (match getRoute ts 64 id f.route cur with
                 | none => .err 1
                 | some fcur =>
                   (match unmV ts a trs it fuel f.ty fcur rest with
                    | .ok v r u =>
                      (match setRoute ts 64 id f.route cur (fun _ => v) with
                       | none => .panic 1
                       | some cur' => (unmStruct ts a trs it fuel id fields expectLen (idx + 1) cur' r).shift (u + 1))
                    | x => x.shift 1))))
      | _ => .err 0
end

end Refmt.Obj
