/-
  Functional model of the object marshaller (obj/marshal*.go): the token list the
  driver emits for a value, or the tokens emitted before an error / panic.
  Machine selection order (identity → atlas → kind), pointer peeling, nil cases,
  omitempty / ignored / unreachable fields with the up-front length count, key
  stringification and ordering, transform tagging and keyed unions are reproduced.
-/
import RefmtModel.Model.Obj.Ty
namespace Refmt.Obj
open Refmt

structure MOut where
  toks : List Tok
  fail : Option Fail
deriving Repr

def MOut.ok (ts : List Tok) : MOut := ⟨ts, none⟩
def MOut.bad (f : Fail) : MOut := ⟨[], some f⟩

/-- sequential composition: stop at the first failure -/
def MOut.seq (a : MOut) (b : Unit → MOut) : MOut :=
  match a.fail with
  | some _ => a
  | none => let r := b (); ⟨a.toks ++ r.toks, r.fail⟩

/-- the transform machine's tagging: the first emitted token gets the entry's tag (overriding) -/
def retagFirst (tag : Option Int) (o : MOut) : MOut :=
  match tag, o.toks with
  | some g, t :: rest => { o with toks := { t with tag := some g } :: rest }
  | _, _ => o

/-- `isEmptyValue` -/
def isEmpty : Nat → Val → Bool
  | 0, _ => false
  | fuel+1, v =>
    match v with
    | .bool b => !b
    | .int i => i == 0
    | .uint n => n == 0
    | .float bits => bits % 9223372036854775808 == 0
    | .str s => s.isEmpty
    | .bytes b => (b.getD []).isEmpty
    | .byteArr b => b.isEmpty
    | .slice es => (es.getD []).isEmpty
    | .arr es => es.isEmpty
    | .map es => (es.getD []).isEmpty
    | .ptr p => p.isNone
    | .iface p => p.isNone
    | .struct fs => fs.all (isEmpty fuel)

/-- `ReflectRoute.TraverseToValue`: `none` = invalid (through a nil pointer, or a malformed route) -/
def traverse : List Nat → Val → Option Val
  | [], v => some v
  | i :: rest, v =>
    let v1 : Option Val := match v with
      | .ptr none => none
      | .ptr (some x) => some x
      | x => some x
    match v1 with
    | some (.struct fs) => (match fs[i]? with | some f => traverse rest f | none => none)
    | _ => none

def bytesLt : Bytes → Bytes → Bool
  | [], [] => false
  | [], _ :: _ => true
  | _ :: _, [] => false
  | a :: as, b :: bs => a < b || (a == b && bytesLt as bs)

def bytesLe (a b : Bytes) : Bool := !bytesLt b a

/-- the two map-key orders (obj/marshalMapWildcard.go) -/
def keyLe (mode : KeySort) (a b : Bytes) : Bool :=
  match mode with
  | .rfc7049 => if a.length == b.length then bytesLe a b else a.length < b.length
  | _ => bytesLe a b

def sortKeys (mode : KeySort) (kvs : List (Bytes × Val)) : List (Bytes × Val) :=
  kvs.mergeSort fun x y => keyLe mode x.1 y.1

inductive Mach
  | prim | slice (elem : Nat) | array (elem : Nat) | map (key elem : Nat) (mode : KeySort)
  | wildcard | structMap (e : Entry) (fields : List SMField) | transform (e : Entry) (fn mty : Nat)
  | union (e : Entry) (members : List (Bytes × Nat)) | errThunk | panic

/-- `_yieldMarshalMachinePtrForAtlasEntry` -/
def machForEntry (ts : Types) (e : Entry) : Mach :=
  match e.k with
  | .transform fn mty _ => .transform e fn mty
  | .structMap fs => .structMap e fs
  | .union ms => .union e ms
  | .mapMorph mode => (match ts.get e.ty with | .map k v => .map k v mode | _ => .panic)
  | .invalid => .panic

/-- `_yieldBareMarshalMachinePtr` (pointers already peeled) -/
def pickBare (ts : Types) (a : Atlas) (id : Nat) : Mach :=
  match ts.get id with
  | .prim _ true => .prim
  | .bytes true => .prim
  | d =>
    match a.get id with
    | some e => machForEntry ts e
    | none =>
      match d with
      | .prim _ _ => .prim
      | .bytes _ => .prim
      | .byteArr _ => .prim
      | .slice e => .slice e
      | .arr _ e => .array e
      | .map k v => .map k v a.defaultSort
      | .struct _ => .errThunk
      | .iface _ => .wildcard
      | .ptr _ => .panic
      | .other => .errThunk

/-- scalar token of a primitive machine -/
def primTok (ts : Types) (id : Nat) (v : Val) : MOut :=
  match v with
  | .bool b => .ok [⟨.bool b, none⟩]
  | .str s => .ok [⟨.str s, none⟩]
  | .int i => .ok [⟨.int i, none⟩]
  | .uint n => .ok [⟨.uint n, none⟩]
  | .float b => .ok [⟨.float b, none⟩]
  | .bytes none => .ok [⟨.null, none⟩]
  | .bytes (some b) => .ok [⟨.bytes b, none⟩]
  | .byteArr b => .ok [⟨.bytes b, none⟩]
  | _ => .bad .panic

/-- strip `n` pointer levels from a value: `none` = nil met -/
def derefN : Nat → Val → Option Val
  | 0, v => some v
  | n+1, .ptr (some x) => derefN n x
  | _, _ => none

mutual
  /-- marshal a value of declared type `id` -/
  def marshalV (ts : Types) (a : Atlas) (trs : Trs) : Nat → Nat → Val → MOut
    | 0, _, _ => .bad .panic
    | fuel+1, id, v =>
      let (n, base) := peel ts 64 0 id
      if n == 0 then marshalBare ts a trs fuel base (pickBare ts a base) v
      else
        -- ptrDerefDelegateMarshalMachine: a nil anywhere in the chain is `null` (whatever the base machine is)
        match derefN n v with
        | none => .ok [⟨.null, none⟩]
        | some inner => marshalBare ts a trs fuel base (pickBare ts a base) inner
  def marshalBare (ts : Types) (a : Atlas) (trs : Trs) : Nat → Nat → Mach → Val → MOut
    | 0, _, _, _ => .bad .panic
    | fuel+1, id, m, v =>
      match m with
      | .prim => primTok ts id v
      | .errThunk => .bad .err
      | .panic => .bad .panic
      | .wildcard =>
        (match v with
         | .iface none => .ok [⟨.null, none⟩]
         | .iface (some (dt, dv)) => marshalV ts a trs fuel dt dv
         | _ => .bad .panic)
      | .slice e =>
        (match v with
         | .slice none => .ok [⟨.null, none⟩]
         | .slice (some es) =>
           (MOut.ok [⟨.arrOpen es.length, none⟩]).seq fun _ =>
           (marshalList ts a trs fuel e es).seq fun _ => .ok [⟨.arrClose, none⟩]
         | _ => .bad .panic)
      | .array e =>
        (match v with
         | .arr es =>
           (MOut.ok [⟨.arrOpen es.length, none⟩]).seq fun _ =>
           (marshalList ts a trs fuel e es).seq fun _ => .ok [⟨.arrClose, none⟩]
         | _ => .bad .panic)
      | .map kt vt mode =>
        -- Reset: the key type must be string-kinded, or a struct with a transform to a string kind
        let keyFn : Option (Option Nat) :=
          match ts.get kt with
          | .prim .string _ => some none
          | .struct _ =>
            (match a.get kt with
             | some ⟨_, _, _, .transform fn mty _⟩ =>
               (match ts.get mty with | .prim .string _ => some (some fn) | _ => none)
             | _ => none)
          | _ => none
        (match keyFn, v with
         | none, _ => .bad .err
         | some kf, .map es =>
           let entries := es.getD []
           let strs : Option (List (Bytes × Val)) := entries.mapM fun (k, x) =>
             match kf, k with
             | none, .str s => some (s, x)
             | some fn, k => (match trs.m fn k with | some (.str s) => some (s, x) | _ => none)
             | _, _ => none
           (match strs with
            | none => .bad .err
            | some kvs =>
              if es.isNone then .ok [⟨.null, none⟩]
              else
                (MOut.ok [⟨.mapOpen entries.length, none⟩]).seq fun _ =>
                (marshalEntries ts a trs fuel vt (sortKeys mode kvs)).seq fun _ => .ok [⟨.mapClose, none⟩])
         | _, _ => .bad .panic)
      | .structMap e fields =>
        let emit := fields.filter fun f =>
          !f.ignore && (match traverse f.route v with
                        | none => false
                        | some fv => !(f.omitEmpty && isEmpty 1000 fv))
        (MOut.ok [⟨.mapOpen emit.length, e.tag⟩]).seq fun _ =>
        (marshalFields ts a trs fuel emit v).seq fun _ => .ok [⟨.mapClose, none⟩]
      | .transform e fn mty =>
        (match trs.m fn v with
         | none => .bad .err
         | some tv => retagFirst e.tag (marshalV ts a trs fuel mty tv))
      | .union _ members =>
        (match v with
         | .iface none => .bad .err
         | .iface (some (dt, dv)) =>
           (match members.find? fun (_, idx) => (a.pool[idx]?.map (·.ty)) == some dt with
            | none => .bad .err
            | some (name, idx) =>
              (match a.pool[idx]? with
               | none => .bad .panic
               | some me =>
                 -- the member machine's Reset runs before the first token
                 let inner := marshalBare ts a trs fuel dt (machForEntry ts me) dv
                 (match inner.toks, inner.fail with
                  | [], some f => .bad f
                  | _, _ =>
                    (MOut.ok [⟨.mapOpen 1, none⟩, ⟨.str name, none⟩]).seq fun _ =>
                    inner.seq fun _ => .ok [⟨.mapClose, none⟩])))
         | _ => .bad .panic)
  def marshalList (ts : Types) (a : Atlas) (trs : Trs) : Nat → Nat → List Val → MOut
    | 0, _, _ => .bad .panic
    | _, _, [] => .ok []
    | fuel+1, e, x :: xs => (marshalV ts a trs fuel e x).seq fun _ => marshalList ts a trs fuel e xs
  def marshalEntries (ts : Types) (a : Atlas) (trs : Trs) : Nat → Nat → List (Bytes × Val) → MOut
    | 0, _, _ => .bad .panic
    | _, _, [] => .ok []
    | fuel+1, vt, (k, x) :: rest =>
      (MOut.ok [⟨.str k, none⟩]).seq fun _ =>
      (marshalV ts a trs fuel vt x).seq fun _ => marshalEntries ts a trs fuel vt rest
  def marshalFields (ts : Types) (a : Atlas) (trs : Trs) : Nat → List SMField → Val → MOut
    | 0, _, _ => .bad .panic
    | _, [], _ => .ok []
    | fuel+1, f :: rest, v =>
      match traverse f.route v with
      | none => .bad .panic
      | some fv =>
        (MOut.ok [⟨.str f.name, none⟩]).seq fun _ =>
        (marshalV ts a trs fuel f.ty fv).seq fun _ => marshalFields ts a trs fuel rest v
end

end Refmt.Obj
