/-
  A STATEFUL model of the object marshaller (obj/marshal.go, marshalSlab.go and the machine files), mirroring
  the Go structure: a slab of rows, each row embedding one instance of every machine struct; a stack of
  suspended machines; a current machine; `Bind`; one token per `Step`.

  The functional model (Marshal.lean) has no per-instance state.  This one has, and
  RefmtProofs/Props/C17ObjMarshal.lean proves that it refines the functional model from ANY starting state
  (for every atlas without same-row clashes of the transform machine: see there).

  Layout: the row structs (`PtrM` .. `ErrM`, `Row`), `MState`; configuration of a row (`cfgMach`, `yieldM` =
  `_yieldMarshalMachinePtr`); `grow` / `release` / `requisition` / `yieldTip`; one `reset…` and one `step…` function
  per machine, written after the Go `Reset` / `Step`, taking the recursive calls (`Reset` of a delegate, `Step` of a
  delegate, `Recurse`) as parameters; the dispatchers `resetBody` / `stepBody`; `recurseBody` (`d.Recurse`),
  `mstepBody` (`d.Step`); the fuelled knots `resetM`, `stepM` / `recurse` / `mstep`; `bind`, `runX`, `run`.

  Representation choices (the model's values are untyped, Go's are `reflect.Value`s):
    * a machine reference (Go: pointer to a sub-struct of a row) is a pair (row index, machine kind);
      rows are identified by index.  (Go's `append` may move the slab; machines handed out earlier then live on
      in the old backing array.  Every reference held by the driver or by a machine was taken before the move and
      keeps pointing to the old array, and the tip row used by `yieldMachine` is never a row of an active machine,
      so identifying rows by index loses nothing.)
    * `reflect.Type` arguments of `Reset` are type ids; where Go asks the value for its type
      (`rv.Type()` in the ptrDeref and transform machines) the model uses the declared type
      (`TransM.mty` stands for the type of the transformed value).
    * the map machine's key list holds (string form, looked-up value) instead of (string form, key value).
    * configuration that Go reaches through a pointer (`cfg.StructMap.Fields`, `cfg.UnionKeyedMorphism`, the map
      morphism's sort mode) is copied into the row when the row is configured.
    * the union machine looks the member up by type, as the functional model does (Go maps the type to the member
      NAME and treats the empty name as "not a member").
    * machine selection reuses `pickBare` / `machForEntry`, and the helpers `primTok`, `derefN`, `peel`, `sortKeys`,
      `traverse`, `isEmpty` of the functional model; `keyFnOf` and `stringify` restate expressions that the
      functional model has inline.
    * loops and recursion that are unbounded in Go take fuel; running out of it is the distinguished
      outcome `XFail.stuck` (Go: unbounded recursion).  Reached only through the same-row clash of the transform
      machine (C17ObjMarshal.lean, `clash_chain`, `clash_ptr`), where Go panics at the second trip round the cycle
      because its transform functions are typed.
-/
import RefmtModel.Model.Obj.Marshal
namespace Refmt.Obj.MM
open Refmt Refmt.Obj

/-- the machine structs embedded in a slab row -/
inductive MK
  | ptr | prim | wild | map | slice | array | struct | transform | union | errThunk
deriving DecidableEq, Repr, Inhabited

/-- a `MarshalMachine` interface value: pointer to a sub-struct of a row -/
structure MRef where
  row : Nat
  kind : MK
deriving DecidableEq, Repr, Inhabited

/-- failures of the stateful model: those of the functional model, plus divergence -/
inductive XFail | f (x : Fail) | stuck
deriving DecidableEq, Repr

/-- `ptrDerefDelegateMarshalMachine` (the embedded interface is a machine of the same row) -/
structure PtrM where
  mach : Option MK := none
  peelCount : Nat := 0
  isNil : Bool := false
deriving Repr

/-- `marshalMachinePrimitive`; `ty` stands for `kind` -/
structure PrimM where
  ty : Nat := 0
  rv : Val := .ptr none
deriving Repr

/-- `marshalMachineWildcard` -/
structure WildM where
  delegate : Option MRef := none
deriving Repr

/-- `marshalMachineMapWildcard` -/
structure MapM where
  morphism : KeySort := .default
  target_rv : Val := .ptr none
  value_rt : Nat := 0
  keyStringer : Option Nat := none
  valueMach : Option MRef := none
  keys : List (Bytes × Val) := []
  index : Int := 0
  value : Bool := false
deriving Repr

/-- `marshalMachineSliceWildcard` / its embedded `marshalMachineArrayWildcard` (the same memory) -/
structure SliceM where
  target_rv : Val := .ptr none
  value_rt : Nat := 0
  valueMach : Option MRef := none
  index : Int := 0
  length : Nat := 0
deriving Repr

/-- `marshalMachineStructAtlas`; `fields` stands for `cfg.StructMap.Fields` -/
structure StructM where
  cfg : Entry := ⟨false, 0, none, .invalid⟩
  fields : List SMField := []
  target_rv : Val := .ptr none
  index : Int := 0
  value_rv : Option Val := none
deriving Repr

/-- `marshalMachineTransform`; the delegate is a machine of the same row; `mty` stands for the type of the
    transformed value (`tr_rv.Type()`); `tag = none` is `tagged = false` -/
structure TransM where
  trFunc : Nat := 0
  mty : Nat := 0
  delegate : Option MK := none
  tag : Option Int := none
  first : Bool := false
deriving Repr

/-- the union machine's `step` function pointer -/
inductive UPhase | nil | emitMapOpen | emitKey | delegate | emitMapClose
deriving DecidableEq, Repr, Inhabited

/-- `marshalMachineUnionKeyed`; `members` stands for `cfg.UnionKeyedMorphism` -/
structure UnionM where
  cfg : Entry := ⟨false, 0, none, .invalid⟩
  members : List (Bytes × Nat) := []
  target_rv : Val := .ptr none
  elementName : Bytes := []
  step : UPhase := .nil
  delegate : Option MRef := none
deriving Repr

/-- `errThunkMarshalMachine` -/
structure ErrM where
  err : Option Fail := none
deriving Repr

/-- `marshalSlabRow` -/
structure Row where
  ptr : PtrM := {}
  prim : PrimM := {}
  wild : WildM := {}
  map : MapM := {}
  slice : SliceM := {}
  struct : StructM := {}
  transform : TransM := {}
  union : UnionM := {}
  err : ErrM := {}
deriving Repr

/-- `marshalSlabRow{}` -/
def Row.zero : Row := {}

/-- `Marshaller`: the slab's rows, the stack of suspended machines (top first), the current machine; plus the
    error `Bind` returned, if any (kept here so that `run` can be applied to the result of `bind`) -/
structure MState where
  rows : List Row
  stack : List MRef
  step : Option MRef
  bindErr : Option XFail := none
deriving Repr

/-- `NewMarshaller` -/
def MState.fresh : MState := ⟨[], [], none, none⟩

abbrev X := Except XFail

mutual
  /-- the row-configuring part of `_yieldBareMarshalMachinePtr` / `_yieldMarshalMachinePtrForAtlasEntry`, once the
      machine has been selected (`pickBare` / `machForEntry`): writes the configuration fields and nothing else -/
  def cfgMach (ts : Types) (a : Atlas) : Nat → Row → Nat → Mach → X (Row × MK)
    | 0, _, _, _ => .error .stuck
    | fuel+1, row, id, m =>
      match m with
      | .prim => .ok ({ row with prim := { row.prim with ty := id } }, .prim)
      | .slice _ => .ok (row, .slice)
      | .array _ => .ok (row, .array)
      | .map _ _ mode => .ok ({ row with map := { row.map with morphism := mode } }, .map)
      | .wildcard => .ok (row, .wild)
      | .structMap e fs => .ok ({ row with struct := { row.struct with cfg := e, fields := fs } }, .struct)
      | .transform e fn mty =>
        -- trFunc first; the delegate is picked in the SAME row ("without growing stack"); then the tag
        let row1 := { row with transform := { row.transform with trFunc := fn, mty := mty } }
        match yieldM ts a fuel row1 mty with
        | .error x => .error x
        | .ok (row2, k) =>
          .ok ({ row2 with transform := { row2.transform with delegate := some k, tag := e.tag } }, .transform)
      | .union e ms => .ok ({ row with union := { row.union with cfg := e, members := ms } }, .union)
      | .errThunk => .ok ({ row with err := { err := some .err } }, .errThunk)
      | .panic => .error (.f .panic)
  /-- `_yieldMarshalMachinePtr`: peel pointers, pick the bare machine, wrap it in the row's ptrDeref machine -/
  def yieldM (ts : Types) (a : Atlas) : Nat → Row → Nat → X (Row × MK)
    | 0, _, _ => .error .stuck
    | fuel+1, row, id =>
      let pb := peel ts 64 0 id
      match cfgMach ts a fuel row pb.2 (pickBare ts a pb.2) with
      | .error x => .error x
      | .ok (row1, k) =>
        if pb.1 == 0 then .ok (row1, k)
        else .ok ({ row1 with ptr := { mach := some k, peelCount := pb.1, isNil := false } }, .ptr)
end

/-- `grow` -/
def grow (rows : List Row) : List Row := rows ++ [Row.zero]
/-- `release` -/
def release (rows : List Row) : List Row := rows.dropLast

/-- `requisitionMachine`: grow, then configure the new (zero) row -/
def requisition (ts : Types) (a : Atlas) (fuel : Nat) (rows : List Row) (id : Nat) : X (List Row × MRef) :=
  match yieldM ts a fuel Row.zero id with
  | .error x => .error x
  | .ok (row, k) => .ok (rows ++ [row], ⟨rows.length, k⟩)

/-- `yieldMachine`: configure the tip row as it is (NOT zeroed) -/
def yieldTip (ts : Types) (a : Atlas) (fuel : Nat) (rows : List Row) (id : Nat) : X (List Row × MRef) :=
  match rows[rows.length - 1]? with
  | none => .error (.f .panic)
  | some row =>
    match yieldM ts a fuel row id with
    | .error x => .error x
    | .ok (row', k) => .ok (rows.set (rows.length - 1) row', ⟨rows.length - 1, k⟩)

/-- a machine writing into its row -/
def updRow (rows : List Row) (i : Nat) (f : Row → Row) : List Row :=
  match rows[i]? with
  | some r => rows.set i (f r)
  | none => rows

/-- the map machine's key-type switch in `Reset`: `none` = unsupported key type, `some none` = string keys,
    `some (some fn)` = struct keys stringified by the atlas transform `fn` -/
def keyFnOf (ts : Types) (a : Atlas) (kt : Nat) : Option (Option Nat) :=
  match ts.get kt with
  | .prim .string _ => some none
  | .struct _ =>
    (match a.get kt with
     | some ⟨_, _, _, .transform fn mty _⟩ =>
       (match ts.get mty with | .prim .string _ => some (some fn) | _ => none)
     | _ => none)
  | _ => none

/-- the map machine's key enumeration in `Reset`: string form of every key, paired with the entry's value -/
def stringify (trs : Trs) (kf : Option Nat) (entries : List (Val × Val)) : Option (List (Bytes × Val)) :=
  entries.mapM fun (k, x) =>
    match kf, k with
    | none, .str s => some (s, x)
    | some fn, k => (match trs.m fn k with | some (.str s) => some (s, x) | _ => none)
    | _, _ => none

/-- `rt.Elem()` of a slice or array type -/
def elemOf (ts : Types) (rt : Nat) : Option Nat :=
  match ts.get rt with
  | .slice e => some e
  | .arr _ e => some e
  | _ => none

/-- `target_rv.Len()` as the slice machine (`sl = true`) or the array machine sees it -/
def lenOf (sl : Bool) (v : Val) : Option Nat :=
  match sl, v with
  | true, .slice es => some (es.getD []).length
  | false, .arr es => some es.length
  | _, _ => none

/-- the type of `Reset` once the machine is fixed: type, value, rows -/
abbrev ResetF := MRef → Nat → Val → List Row → X (List Row)

/-- `ptrDerefDelegateMarshalMachine.Reset`: isNil := false; peel `peelCount` levels (a nil on the way:
    isNil := true, done); Reset the delegate (a machine of the same row) -/
def resetPtr (ts : Types) (rec : ResetF) (m : MRef) (row : Row) (rt : Nat) (v : Val) (R : List Row) : X (List Row) :=
  match derefN row.ptr.peelCount v with
  | none => .ok (updRow R m.row fun r => { r with ptr := { r.ptr with isNil := true } })
  | some inner =>
    match row.ptr.mach with
    | none => .error (.f .panic)
    | some k =>
      rec ⟨m.row, k⟩ (peel ts 64 0 rt).2 inner
        (updRow R m.row fun r => { r with ptr := { r.ptr with isNil := false } })

/-- `marshalMachinePrimitive.Reset` -/
def resetPrim (m : MRef) (v : Val) (R : List Row) : X (List Row) :=
  .ok (updRow R m.row fun r => { r with prim := { r.prim with rv := v } })

/-- `marshalMachineWildcard.Reset`: a nil interface clears the delegate; otherwise a machine for the dynamic type
    is requisitioned (and never released) and Reset -/
def resetWild (ts : Types) (a : Atlas) (fuel : Nat) (rec : ResetF) (m : MRef) (v : Val) (R : List Row) : X (List Row) :=
  match v with
  | .iface none => .ok (updRow R m.row fun r => { r with wild := { delegate := none } })
  | .iface (some (dt, dv)) =>
    (match requisition ts a fuel R dt with
     | .error x => .error x
     | .ok (R1, d) => rec d dt dv (updRow R1 m.row fun r => { r with wild := { delegate := some d } }))
  | _ => .error (.f .panic)

/-- `marshalMachineMapWildcard.Reset`.  NB: `value` is not touched. -/
def resetMap (ts : Types) (a : Atlas) (trs : Trs) (fuel : Nat) (m : MRef) (rt : Nat) (v : Val) (R : List Row) :
    X (List Row) :=
  match ts.get rt with
  | .map kt vt =>
    (match requisition ts a fuel R vt with
     | .error x => .error x
     | .ok (R1, d) =>
       match keyFnOf ts a kt with
       | none => .error (.f .err)
       | some kf =>
         match v with
         | .map es =>
           (match stringify trs kf (es.getD []) with
            | none => .error (.f .err)
            | some kvs =>
              .ok (updRow R1 m.row fun r => { r with map := { r.map with
                target_rv := v, value_rt := vt, valueMach := some d, keyStringer := kf,
                keys := sortKeys r.map.morphism kvs, index := -1 } }))
         | _ => .error (.f .panic))
  | _ => .error (.f .panic)

/-- `marshalMachineArrayWildcard.Reset` (the slice machine embeds the array machine) -/
def resetSlice (ts : Types) (a : Atlas) (fuel : Nat) (m : MRef) (rt : Nat) (v : Val) (R : List Row) : X (List Row) :=
  match elemOf ts rt with
  | none => .error (.f .panic)
  | some e =>
    match requisition ts a fuel R e with
    | .error x => .error x
    | .ok (R1, d) =>
      match lenOf (m.kind == .slice) v with
      | none => .error (.f .panic)
      | some n =>
        .ok (updRow R1 m.row fun r => { r with slice :=
          { target_rv := v, value_rt := e, valueMach := some d, index := -1, length := n } })

/-- `marshalMachineStructAtlas.Reset`: "we'll reuse the same row for all fields" -/
def resetStruct (m : MRef) (v : Val) (R : List Row) : X (List Row) :=
  .ok (grow (updRow R m.row fun r => { r with struct := { r.struct with
    target_rv := v, index := -1, value_rv := none } }))

/-- `marshalMachineTransform.Reset` -/
def resetTransform (trs : Trs) (rec : ResetF) (m : MRef) (row : Row) (v : Val) (R : List Row) : X (List Row) :=
  match trs.m row.transform.trFunc v with
  | none => .error (.f .err)
  | some tv =>
    match row.transform.delegate with
    | none => .error (.f .panic)
    | some k =>
      rec ⟨m.row, k⟩ row.transform.mty tv
        (updRow R m.row fun r => { r with transform := { r.transform with first := true } })

/-- `marshalMachineUnionKeyed.Reset`.  (Go looks the member NAME up by type and treats the empty name as
    "unknown"; the model looks the member up by type.)  The delegate is configured in `slab.tip()`,
    whichever row that is. -/
def resetUnion (ts : Types) (a : Atlas) (fuel : Nat) (rec : ResetF) (m : MRef) (row : Row) (v : Val) (R : List Row) :
    X (List Row) :=
  match v with
  | .iface none => .error (.f .err)
  | .iface (some (dt, dv)) =>
    (match row.union.members.find? fun (_, idx) => (a.pool[idx]?.map (·.ty)) == some dt with
     | none => .error (.f .err)
     | some (name, idx) =>
       match a.pool[idx]? with
       | none => .error (.f .panic)
       | some me =>
         let R1 := updRow R m.row fun r => { r with union := { r.union with target_rv := dv, elementName := name } }
         let tip := R1.length - 1
         match R1[tip]? with
         | none => .error (.f .panic)
         | some trow =>
           match cfgMach ts a fuel trow me.ty (machForEntry ts me) with
           | .error x => .error x
           | .ok (trow', k) =>
             let R3 := updRow (R1.set tip trow') m.row fun r => { r with union := { r.union with
               delegate := some ⟨tip, k⟩ } }
             match rec ⟨tip, k⟩ me.ty dv R3 with
             | .error x => .error x
             | .ok R4 => .ok (updRow R4 m.row fun r => { r with union := { r.union with step := .emitMapOpen } }))
  | _ => .error (.f .panic)

/-- `errThunkMarshalMachine.Reset` -/
def resetErr (row : Row) (R : List Row) : X (List Row) :=
  match row.err.err with
  | some f => .error (.f f)
  | none => .ok R

/-- dispatch on the machine behind the interface value -/
def resetBody (ts : Types) (a : Atlas) (trs : Trs) (fuel : Nat) (rec : ResetF) : ResetF := fun m rt v R =>
  match R[m.row]? with
  | none => .error (.f .panic)
  | some row =>
    match m.kind with
    | .ptr => resetPtr ts rec m row rt v R
    | .prim => resetPrim m v R
    | .wild => resetWild ts a fuel rec m v R
    | .map => resetMap ts a trs fuel m rt v R
    | .slice | .array => resetSlice ts a fuel m rt v R
    | .struct => resetStruct m v R
    | .transform => resetTransform trs rec m row v R
    | .union => resetUnion ts a fuel rec m row v R
    | .errThunk => resetErr row R

/-- `Reset` of the machine `m` (Go: `m.Reset(slab, rv, rt)`), on the slab's rows -/
def resetM (ts : Types) (a : Atlas) (trs : Trs) : Nat → ResetF
  | 0 => fun _ _ _ _ => .error .stuck
  | fuel+1 => resetBody ts a trs fuel (resetM ts a trs fuel)

/-- what one `Step` call leaves behind: the token, the `done` flag, the new state -/
structure SRes where
  tok : Tok
  done : Bool
  st : MState

/-- a machine's step writing into its own row -/
def MState.upd (s : MState) (i : Nat) (f : Row → Row) : MState := { s with rows := updRow s.rows i f }

/-- the test of `countEmittableStructFields` -/
def emittable (target : Val) (f : SMField) : Bool :=
  !f.ignore && (match traverse f.route target with
                | none => false
                | some fv => !(f.omitEmpty && isEmpty 1000 fv))

/-- the struct machine's search for the next field to emit, among the fields from position `i` on: skips
    ignored fields and fields that are unreachable or empty-and-omitEmpty (Go: the `for fieldEntry.Ignore` loop
    and the tail call `mach.Step`).  `none`: ran off the end. -/
def seekField (target : Val) : List SMField → Nat → Option (Nat × SMField × Val)
  | [], _ => none
  | f :: rest, i =>
    if f.ignore then seekField target rest (i + 1)
    else
      match traverse f.route target with
      | none => seekField target rest (i + 1)
      | some fv =>
        if f.omitEmpty && isEmpty 1000 fv then seekField target rest (i + 1)
        else some (i, f, fv)

/-- elements of a slice / array value as the slice (`sl = true`) or array machine indexes them -/
def elemsOf (sl : Bool) (v : Val) : Option (List Val) :=
  match sl, v with
  | true, .slice (some es) => some es
  | false, .arr es => some es
  | _, _ => none

/-- `target_rv.IsNil()` of a slice value -/
def isNilSlice : Val → Bool
  | .slice none => true
  | _ => false

def tk (b : Body) : Tok := ⟨b, none⟩


/-- the type of `Step` once the machine is fixed -/
abbrev StepF := MRef → MState → X SRes
/-- the type of `d.Recurse(tok, rv, rt, nextMach)` -/
abbrev RecurseF := MState → Val → Nat → MRef → X SRes

/-- `ptrDerefDelegateMarshalMachine.Step` -/
def stepPtr (rec : StepF) (m : MRef) (row : Row) (s : MState) : X SRes :=
  if row.ptr.isNil then .ok ⟨tk .null, true, s⟩
  else
    match row.ptr.mach with
    | none => .error (.f .panic)
    | some k => rec ⟨m.row, k⟩ s

/-- `marshalMachinePrimitive.Step` -/
def stepPrim (ts : Types) (row : Row) (s : MState) : X SRes :=
  match primTok ts row.prim.ty row.prim.rv with
  | ⟨[t], none⟩ => .ok ⟨t, true, s⟩
  | _ => .error (.f .panic)

/-- `marshalMachineWildcard.Step` -/
def stepWild (rec : StepF) (row : Row) (s : MState) : X SRes :=
  match row.wild.delegate with
  | none => .ok ⟨tk .null, true, s⟩
  | some d => rec d s

def MapM.incr (r : Row) : Row := { r with map := { r.map with index := r.map.index + 1 } }

/-- `marshalMachineMapWildcard.Step` -/
def stepMap (rc : RecurseF) (m : MRef) (row : Row) (s : MState) : X SRes :=
  let mm := row.map
  if mm.index < 0 then
    (match mm.target_rv with
     | .map none => .ok ⟨tk .null, true, s.upd m.row MapM.incr⟩
     | .map (some es) => .ok ⟨tk (.mapOpen es.length), false, s.upd m.row MapM.incr⟩
     | _ => .error (.f .panic))
  else if mm.index = mm.keys.length then
    .ok ⟨tk .mapClose, true, { s with rows := release (updRow s.rows m.row MapM.incr) }⟩
  else if mm.index > mm.keys.length then .error (.f .err)
  else if mm.value then
    (match mm.keys[mm.index.toNat]?, mm.valueMach with
     | some (_, x), some d =>
       rc (s.upd m.row fun r => { r with map := { r.map with value := false, index := r.map.index + 1 } })
         x mm.value_rt d
     | _, _ => .error (.f .panic))
  else
    (match mm.keys[mm.index.toNat]? with
     | some (k, _) => .ok ⟨tk (.str k), false, s.upd m.row fun r => { r with map := { r.map with value := true } }⟩
     | none => .error (.f .panic))

def SliceM.incr (r : Row) : Row := { r with slice := { r.slice with index := r.slice.index + 1 } }

/-- `marshalMachineSliceWildcard.Step` (`sl = true`: a nil slice is `null`) falling through to
    `marshalMachineArrayWildcard.Step` -/
def stepSlice (rc : RecurseF) (m : MRef) (row : Row) (s : MState) : X SRes :=
  let sl := m.kind == .slice
  let sm := row.slice
  if sl && decide (sm.index < 0) && isNilSlice sm.target_rv then
    .ok ⟨tk .null, true, s⟩
  else if sm.index < 0 then
    (match lenOf sl sm.target_rv with
     | none => .error (.f .panic)
     | some n => .ok ⟨tk (.arrOpen n), false, s.upd m.row SliceM.incr⟩)
  else if sm.index = sm.length then
    .ok ⟨tk .arrClose, true, { s with rows := release (updRow s.rows m.row SliceM.incr) }⟩
  else if sm.index > sm.length then .error (.f .err)
  else
    (match (elemsOf sl sm.target_rv).bind (·[sm.index.toNat]?), sm.valueMach with
     | some x, some d => rc (s.upd m.row SliceM.incr) x sm.value_rt d
     | _, _ => .error (.f .panic))

def StructM.incr (r : Row) : Row := { r with struct := { r.struct with index := r.struct.index + 1 } }

/-- `mach.index++; mach.value_rv = reflect.Value{}` -/
def StructM.take (r : Row) : Row := { r with struct := { r.struct with index := r.struct.index + 1, value_rv := none } }

/-- `marshalMachineStructAtlas.Step` -/
def stepStruct (ts : Types) (a : Atlas) (fuel : Nat) (rc : RecurseF) (m : MRef) (row : Row) (s : MState) : X SRes :=
  let sm := row.struct
  if sm.index < 0 then
    .ok ⟨⟨.mapOpen ((sm.fields.filter (emittable sm.target_rv)).length), sm.cfg.tag⟩, false, s.upd m.row StructM.incr⟩
  else if sm.index = sm.fields.length then
    .ok ⟨tk .mapClose, true, { s with rows := release (updRow s.rows m.row StructM.incr) }⟩
  else if sm.index > sm.fields.length then .error (.f .err)
  else
    match sm.value_rv with
    | some child =>
      -- a value was loaded by the last step: recurse into it, in the tip row as it is
      (match sm.fields[sm.index.toNat]? with
       | none => .error (.f .panic)
       | some fe =>
         let s1 := s.upd m.row StructM.take
         match yieldTip ts a fuel s1.rows fe.ty with
         | .error x => .error x
         | .ok (R1, d) => rc { s1 with rows := R1 } child fe.ty d)
    | none =>
      -- pick the next field to emit and yield its key; none left: close
      (match seekField sm.target_rv (sm.fields.drop sm.index.toNat) sm.index.toNat with
       | none =>
         .ok ⟨tk .mapClose, true,
           { s with rows := release (updRow s.rows m.row fun r => { r with struct := { r.struct with
               index := (r.struct.fields.length : Int) + 1 } }) }⟩
       | some (i, fe, fv) =>
         .ok ⟨tk (.str fe.name), false,
           s.upd m.row fun r => { r with struct := { r.struct with index := i, value_rv := some fv } }⟩)

/-- `marshalMachineTransform.Step`: `first` and the tag are read AFTER the delegate's step -/
def stepTransform (rec : StepF) (m : MRef) (row : Row) (s : MState) : X SRes :=
  match row.transform.delegate with
  | none => .error (.f .panic)
  | some k =>
    match rec ⟨m.row, k⟩ s with
    | .error x => .error x
    | .ok res =>
      match res.st.rows[m.row]? with
      | none => .error (.f .panic)
      | some r' =>
        match r'.transform.first, r'.transform.tag with
        | true, some g =>
          .ok { res with tok := { res.tok with tag := some g },
                         st := res.st.upd m.row fun r => { r with transform := { r.transform with first := false } } }
        | _, _ => .ok res

/-- `marshalMachineUnionKeyed.Step` and its four phases -/
def stepUnion (rec : StepF) (m : MRef) (row : Row) (s : MState) : X SRes :=
  match row.union.step with
  | .nil => .error (.f .panic)
  | .emitMapOpen =>
    .ok ⟨tk (.mapOpen 1), false, s.upd m.row fun r => { r with union := { r.union with step := .emitKey } }⟩
  | .emitKey =>
    .ok ⟨tk (.str row.union.elementName), false, s.upd m.row fun r => { r with union := { r.union with step := .delegate } }⟩
  | .delegate =>
    (match row.union.delegate with
     | none => .error (.f .panic)
     | some d =>
       match rec d s with
       | .error x => .error x
       | .ok res =>
         if res.done then
           .ok { res with done := false,
                          st := res.st.upd m.row fun r => { r with union := { r.union with step := .emitMapClose } } }
         else .ok res)
  | .emitMapClose =>
    .ok ⟨tk .mapClose, true, s.upd m.row fun r => { r with union := { r.union with step := .nil } }⟩

/-- `errThunkMarshalMachine.Step` (with a nil error Go would report done with whatever the token holds; never
    reached after a Reset) -/
def stepErr (row : Row) : X SRes :=
  match row.err.err with
  | some f => .error (.f f)
  | none => .error (.f .panic)

/-- dispatch on the machine behind the interface value -/
def stepBody (ts : Types) (a : Atlas) (fuel : Nat) (rec : StepF) (rc : RecurseF) : StepF := fun m s =>
  match s.rows[m.row]? with
  | none => .error (.f .panic)
  | some row =>
    match m.kind with
    | .ptr => stepPtr rec m row s
    | .prim => stepPrim ts row s
    | .wild => stepWild rec row s
    | .map => stepMap rc m row s
    | .slice | .array => stepSlice rc m row s
    | .struct => stepStruct ts a fuel rc m row s
    | .transform => stepTransform rec m row s
    | .union => stepUnion rec m row s
    | .errThunk => stepErr row

/-- `d.Recurse(tok, rv, rt, nextMach)` and the caller's `return false, err`: push the current machine, Reset the
    next one, make it current, step the driver once -/
def recurseBody (ts : Types) (a : Atlas) (trs : Trs) (fuel : Nat) (ms : MState → X SRes) : RecurseF :=
  fun s rv rt next =>
    match s.step with
    | none => .error (.f .panic)
    | some cur =>
      match resetM ts a trs fuel next rt rv s.rows with
      | .error x => .error x
      | .ok R1 =>
        match ms { s with rows := R1, stack := cur :: s.stack, step := some next } with
        | .error x => .error x
        | .ok res => .ok { res with done := false }

/-- `d.Step(tok)`: step the current machine; when it is done, pop (or report done on an empty stack) -/
def mstepBody (st : StepF) (s : MState) : X SRes :=
  match s.step with
  | none => .error (.f .panic)
  | some cur =>
    match st cur s with
    | .error x => .error x
    | .ok res =>
      if !res.done then .ok res
      else
        match res.st.stack with
        | [] => .ok res
        | p :: rest => .ok { res with done := false, st := { res.st with step := some p, stack := rest } }

mutual
  /-- `m.Step(d, slab, tok)` -/
  def stepM (ts : Types) (a : Atlas) (trs : Trs) : Nat → StepF
    | 0 => fun _ _ => .error .stuck
    | fuel+1 => stepBody ts a fuel (stepM ts a trs fuel) (recurse ts a trs fuel)
  def recurse (ts : Types) (a : Atlas) (trs : Trs) : Nat → RecurseF
    | 0 => fun _ _ _ _ => .error .stuck
    | fuel+1 => recurseBody ts a trs fuel (mstep ts a trs fuel)
  def mstep (ts : Types) (a : Atlas) (trs : Trs) : Nat → MState → X SRes
    | 0 => fun _ => .error .stuck
    | fuel+1 => mstepBody (stepM ts a trs fuel)
end

/-- `d.Bind(v)`: forget the stack and the rows, requisition the first machine, Reset it.
    Nothing of `dirty` survives except (when `Bind` itself fails) the stale current machine. -/
def bind (ts : Types) (a : Atlas) (trs : Trs) (fuel : Nat) (dirty : MState) (id : Nat) (v : Val) : MState :=
  match requisition ts a fuel [] id with
  | .error x => { rows := [], stack := [], step := dirty.step, bindErr := some x }
  | .ok (R, m) =>
    match resetM ts a trs fuel m id v R with
    | .error x => { rows := R, stack := [], step := some m, bindErr := some x }
    | .ok R1 => { rows := R1, stack := [], step := some m, bindErr := none }

/-- pump `d.Step` (each call with machine fuel `sf`) at most `k` times: the tokens, and how it ended -/
def runX (ts : Types) (a : Atlas) (trs : Trs) (sf : Nat) : Nat → MState → List Tok × Option XFail
  | 0, _ => ([], some .stuck)
  | k+1, s =>
    match mstep ts a trs sf s with
    | .error x => ([], some x)
    | .ok res =>
      if res.done then ([res.tok], none)
      else
        let r := runX ts a trs sf k res.st
        (res.tok :: r.1, r.2)

/-- the state in which `runX` stops after a completed run -/
def finalState (ts : Types) (a : Atlas) (trs : Trs) (sf : Nat) : Nat → MState → Option MState
  | 0, _ => none
  | k+1, s =>
    match mstep ts a trs sf s with
    | .error _ => none
    | .ok res => if res.done then some res.st else finalState ts a trs sf k res.st

def XFail.toFail : XFail → Fail
  | .f x => x
  | .stuck => .panic

/-- Bind's error if any, else pump until done or failure.  Divergence of the stateful model (`stuck`) is
    reported as a panic here; `runX` keeps it apart. -/
def run (ts : Types) (a : Atlas) (trs : Trs) (fuel : Nat) (s : MState) : MOut :=
  match s.bindErr with
  | some x => ⟨[], some x.toFail⟩
  | none =>
    let r := runX ts a trs fuel fuel s
    ⟨r.1, r.2.map XFail.toFail⟩

end Refmt.Obj.MM
