/-
  Lean mirrors of the harness's transform-function library (harness/zoo.go `transforms`).
  User transform functions are parameters of the object-layer theorems; these concrete
  ones are what the correspondence check runs, and the law `u (m x) = x` is re-checked
  by the harness on every generated value.
-/
import RefmtModel.Model.Obj.Ty
import RefmtModel.Base.Digits
namespace Refmt.Obj
open Refmt

def splitAt (sep : Nat) : Bytes → Bytes → Option (Bytes × Bytes)
  | [], _ => none
  | c :: rest, acc => if c == sep then some (acc.reverse, rest) else splitAt sep rest (c :: acc)

def splitColon : Bytes → Bytes → Option (Bytes × Bytes) := splitAt 31

/-- strconv.ParseInt(s, 10, 64) restricted to what the library accepts (no leading '+') -/
def parseInt64 (s : Bytes) : Option Int :=
  let neg := s.head? == some 45
  let ds := if neg then s.drop 1 else s
  if ds.isEmpty || !(ds.all isDigit) then none
  else
    let v := digitsVal ds
    if neg then (if v ≤ two63 then some (-(v : Int)) else none)
    else (if v < two63 then some (v : Int) else none)

def trM : Nat → Val → Option Val
  | 1, .struct [.str a, .str b] => some (.str (a ++ [31] ++ b))
  | 2, .int n => some (.str (intDigits n))
  | 3, .struct [.uint x, .uint y] => some (.bytes (some [x, y]))
  | 4, .struct [l] => some l
  | 5, .struct [v] => some (.struct [v])
  | 6, .struct [.str k, .int v] => some (.map (some [(.str k, .int v)]))
  | 7, .struct [p] => some p
  | 8, .struct [v] => some v
  | 9, .struct [v] => some v
  | 10, .byteArr b => some (.str b)
  | 11, .struct [.str a, .str b] => some (.str (a ++ [30] ++ b))
  | 12, .struct [x, y] => some (.struct [x, y])
  | 13, .str s => some (.str ([99, 47] ++ s))
  | 14, .struct [x] => some x
  | 15, .struct [y] => some (.struct [y])
  | 16, .struct [z] => some (.ptr (some z))
  | 17, .struct [.int s] => some (.int s)
  | _, _ => none

def trU : Nat → Val → Option Val
  | 1, .str s => (splitColon s []).map fun (a, b) => .struct [.str a, .str b]
  | 2, .str s => (parseInt64 s).map .int
  | 3, .bytes (some [x, y]) => some (.struct [.uint x, .uint y])
  | 4, l => some (.struct [l])
  | 5, .struct [v] => some (.struct [v])
  | 6, .map (some [(.str k, .int v)]) => some (.struct [.str k, .int v])
  | 7, p => some (.struct [p])
  | 8, v => some (.struct [v])
  | 9, v => some (.struct [v])
  | 10, .str s => if s.length == 4 then some (.byteArr s) else none
  | 11, .str s => (splitAt 30 s []).map fun (a, b) => .struct [.str a, .str b]
  | 12, .struct [x, y] => some (.struct [x, y])
  | 13, .str s => (match s with | 99 :: 47 :: rest => some (.str rest) | _ => none)
  | 14, x => some (.struct [x])
  | 15, .struct [y] => some (.struct [y])
  | 16, .ptr (some z) => some (.struct [z])
  | 16, .ptr none => some (.struct [.str []])
  | 17, .int s => some (.struct [.int s])
  | _, _ => none

def trLib : Trs := ⟨trM, trU⟩

end Refmt.Obj
