/-
  Model of cbor/cborDecoder.go + cborDecoderTerminals.go over the abstract reader.
-/
import RefmtModel.Base.Bytes
import RefmtModel.Base.Float
import RefmtModel.Model.Reader
import RefmtModel.Model.CborEnc
namespace Refmt.CborDec
open Refmt Refmt.CborEnc

/-- `decoderPhase` -/
inductive Phase
  | acceptValue | arrIndef | mapIndefKey | mapIndefVal | arrDef | mapDefKey | mapDefVal
deriving DecidableEq, Repr

structure St where
  stack : List Phase    -- head = top
  phase : Phase
  left : List Nat       -- head = top
deriving DecidableEq, Repr

def maxInt : Nat := 9223372036854775807
def cap32M : Nat := 33554432

def init : St := ⟨[], .acceptValue, []⟩
def reset (_ : St) : St := init

/-- Result of a terminal decode: value or error, the reader afterwards, bytes allocated. -/
structure R (α : Type) where
  res : Except Err α
  rd : Rd
  alloc : Nat := 0

/-- `decodeUint` -/
def decUint (rd : Rd) (major : Nat) : R Nat :=
  let v := major % 32
  if v ≤ 0x17 then ⟨.ok v, rd, 0⟩
  else if v == 0x18 then
    match rd.read1 with
    | (.ok (b, rd'), _) => ⟨.ok b, rd', 0⟩
    | (.error e, rd') => ⟨.error e, rd', 0⟩
  else if v == 0x19 then
    match rd.readN 2 with
    | (.ok bs, rd') => ⟨.ok (beVal bs), rd', 0⟩
    | (.error e, rd') => ⟨.error e, rd', 0⟩
  else if v == 0x1a then
    match rd.readN 4 with
    | (.ok bs, rd') => ⟨.ok (beVal bs), rd', 0⟩
    | (.error e, rd') => ⟨.error e, rd', 0⟩
  else if v == 0x1b then
    match rd.readN 8 with
    | (.ok bs, rd') => ⟨.ok (beVal bs), rd', 0⟩
    | (.error e, rd') => ⟨.error e, rd', 0⟩
  else ⟨.error .syntax, rd, 0⟩

/-- `decodeNegInt` -/
def decNegInt (rd : Rd) (major : Nat) : R Int :=
  let u := decUint rd major
  match u.res with
  | .error e => ⟨.error e, u.rd, 0⟩
  | .ok ui =>
    if ui > maxInt then ⟨.error .range, u.rd, 0⟩
    else ⟨.ok (-1 - (ui : Int)), u.rd, 0⟩

/-- `decodeLen` -/
def decLen (rd : Rd) (major : Nat) : R Nat :=
  let u := decUint rd major
  match u.res with
  | .error e => ⟨.error e, u.rd, 0⟩
  | .ok ui => if ui > maxInt then ⟨.error .range, u.rd, 0⟩ else ⟨.ok ui, u.rd, 0⟩

/-- `decodeBytes` (Readn: fresh allocation of n bytes) -/
def decBytes (rd : Rd) (major : Nat) : R Bytes :=
  let l := decLen rd major
  match l.res with
  | .error e => ⟨.error e, l.rd, 0⟩
  | .ok n =>
    if n > cap32M then ⟨.error .range, l.rd, 0⟩
    else match l.rd.readN n with
      | (.ok bs, rd') => ⟨.ok bs, rd', n⟩
      | (.error e, rd') => ⟨.error e, rd', n⟩

/-- `decodeString` (Readnzc: scratch below 32 bytes, then one copy into the string) -/
def decString (rd : Rd) (major : Nat) : R Bytes :=
  let l := decLen rd major
  match l.res with
  | .error e => ⟨.error e, l.rd, 0⟩
  | .ok n =>
    if n > cap32M then ⟨.error .range, l.rd, 0⟩
    else match l.rd.readN n with
      | (.ok bs, rd') => ⟨.ok bs, rd', (if n < 32 then 0 else n) + n⟩
      | (.error e, rd') => ⟨.error e, rd', (if n < 32 then 0 else n)⟩

/-- the chunk loop of `decodeBytesOrStringIndefinite`. `cap` mirrors Go's `cap(bs)`. -/
def decChunks (fuel : Nat) (rd : Rd) (majorWanted : Nat) (acc : Bytes) (cap : Nat) (alloc : Nat) : R Bytes :=
  match fuel with
  | 0 => ⟨.error .other, rd, alloc⟩
  | fuel+1 =>
    match rd.read1 with
    | (.error e, rd') => ⟨.error e, rd', alloc⟩
    | (.ok (mb, rd1), _) =>
      if mb == sigBreak then ⟨.ok acc, rd1, alloc⟩
      else if mb / 32 * 32 != majorWanted then ⟨.error .syntax, rd1, alloc⟩
      else
        let l := decLen rd1 mb
        match l.res with
        | .error e => ⟨.error e, l.rd, alloc⟩
        | .ok n =>
          if n > cap32M then ⟨.error .range, l.rd, alloc⟩
          else
            let newLen := acc.length + n
            let (cap', alloc') := if newLen > cap then (2 * cap + n, alloc + 2 * cap + n) else (cap, alloc)
            match l.rd.readN n with
            | (.ok bs, rd') => decChunks fuel rd' majorWanted (acc ++ bs) cap' alloc'
            | (.error e, rd') => ⟨.error e, rd', alloc'⟩

/-- `decodeFloat`: f64 bits -/
def decFloat (rd : Rd) (major : Nat) : R Nat :=
  if major == sigF16 then
    match rd.readN 2 with
    | (.ok bs, rd') => ⟨.ok (f32to64 (halfToFloatBits (beVal bs))), rd', 0⟩
    | (.error e, rd') => ⟨.error e, rd', 0⟩
  else if major == sigF32 then
    match rd.readN 4 with
    | (.ok bs, rd') => ⟨.ok (f32to64 (beVal bs)), rd', 0⟩
    | (.error e, rd') => ⟨.error e, rd', 0⟩
  else
    match rd.readN 8 with
    | (.ok bs, rd') => ⟨.ok (beVal bs), rd', 0⟩
    | (.error e, rd') => ⟨.error e, rd', 0⟩

/-- What one `Step` produced. -/
inductive Ret
  | tok (t : Tok) (done : Bool)
  | err (e : Err)
deriving Repr

structure Out where
  st : St
  rd : Rd
  ret : Ret
  alloc : Nat := 0

/-- `pushPhase` -/
def push (s : St) (p : Phase) : St := { s with stack := s.phase :: s.stack, phase := p }

/-- Helper: lift a terminal result into a scalar token result (`return true, err`). -/
def scalarOut {α : Type} (s : St) (r : R α) (mk : α → Body) (tag : Option Int) : Out :=
  match r.res with
  | .ok v => ⟨s, r.rd, .tok ⟨mk v, tag⟩ true, r.alloc⟩
  | .error e => ⟨s, r.rd, .err e, r.alloc⟩

/-- `stepHelper_acceptValue`; `tag` = the single tag already read, if any.
    `done` in the result is the helper's own `done` (true for scalars, false for opens). -/
def acceptValue (coerce : Bool) (s : St) (rd : Rd) (major : Nat) (tag : Option Int) (fuel : Nat) : Out :=
  if major == sigNil then ⟨s, rd, .tok ⟨.null, tag⟩ true, 0⟩
  else if major == sigUndef then
    if coerce then ⟨s, rd, .tok ⟨.null, tag⟩ true, 0⟩ else ⟨s, rd, .err .syntax, 0⟩
  else if major == sigFalse then ⟨s, rd, .tok ⟨.bool false, tag⟩ true, 0⟩
  else if major == sigTrue then ⟨s, rd, .tok ⟨.bool true, tag⟩ true, 0⟩
  else if major == sigF16 || major == sigF32 || major == sigF64 then
    scalarOut s (decFloat rd major) Body.float tag
  else if major == sigIndefBytes then
    scalarOut s (decChunks (rd.data.length + 1) rd majBytes [] 16 16) Body.bytes tag
  else if major == sigIndefStr then
    let r := decChunks (rd.data.length + 1) rd majStr [] 16 16
    scalarOut s { r with alloc := r.alloc + (match r.res with | .ok bs => bs.length | _ => 0) } Body.str tag
  else if major == sigIndefArr then ⟨push s .arrIndef, rd, .tok ⟨.arrOpen (-1), tag⟩ false, 0⟩
  else if major == sigIndefMap then ⟨push s .mapIndefKey, rd, .tok ⟨.mapOpen (-1), tag⟩ false, 0⟩
  else if major < majNeg then scalarOut s (decUint rd major) Body.uint tag
  else if major < majBytes then scalarOut s (decNegInt rd major) Body.int tag
  else if major < majStr then scalarOut s (decBytes rd major) Body.bytes tag
  else if major < majArr then scalarOut s (decString rd major) Body.str tag
  else if major < majMap then
    let l := decLen rd major
    match l.res with
    | .ok n => ⟨push { s with left := n :: s.left } .arrDef, l.rd, .tok ⟨.arrOpen n, tag⟩ false, 0⟩
    | .error e => ⟨s, l.rd, .err e, 0⟩
  else if major < majTag then
    let l := decLen rd major
    match l.res with
    | .ok n => ⟨push { s with left := n :: s.left } .mapDefKey, l.rd, .tok ⟨.mapOpen n, tag⟩ false, 0⟩
    | .error e => ⟨s, l.rd, .err e, 0⟩
  else if major < 0xe0 then
    match tag with
    | some _ => ⟨s, rd, .err .syntax, 0⟩       -- multiple tags
    | none =>
      let l := decLen rd major
      match l.res with
      | .error e => ⟨s, l.rd, .err e, 0⟩
      | .ok t =>
        match l.rd.read1 with
        | (.error e, rd') => ⟨s, rd', .err e, 0⟩
        | (.ok (mb, rd1), _) =>
          match fuel with
          | 0 => ⟨s, rd1, .err .other, 0⟩
          | fuel+1 => acceptValue coerce s rd1 mb (some (t : Int)) fuel
  else ⟨s, rd, .err .syntax, 0⟩

/-- Inside containers the helper's `done` is discarded: `return false, err`. -/
def inContainer (o : Out) : Out :=
  match o.ret with
  | .tok t _ => { o with ret := .tok t false }
  | .err _ => o

/-- Read the next major byte, or fail. -/
def withMajor (s : St) (rd : Rd) (k : Nat → Rd → Out) : Out :=
  match rd.read1 with
  | (.error e, rd') => ⟨s, rd', .err e, 0⟩
  | (.ok (mb, rd1), _) => k mb rd1

/-- The per-phase sub-step (the `switch d.phase` of `Step`). -/
def subStep (coerce : Bool) (s : St) (rd : Rd) : Out :=
  match s.phase with
  | .acceptValue => withMajor s rd fun mb rd1 => acceptValue coerce s rd1 mb none 1
  | .arrIndef => withMajor s rd fun mb rd1 =>
      if mb == sigBreak then ⟨s, rd1, .tok ⟨.arrClose, none⟩ true, 0⟩
      else inContainer (acceptValue coerce s rd1 mb none 1)
  | .mapIndefKey => withMajor s rd fun mb rd1 =>
      if mb == sigBreak then ⟨s, rd1, .tok ⟨.mapClose, none⟩ true, 0⟩
      else inContainer (acceptValue coerce { s with phase := .mapIndefVal } rd1 mb none 1)
  | .mapIndefVal => withMajor s rd fun mb rd1 =>
      if mb == sigBreak then ⟨s, rd1, .err .syntax, 0⟩
      else inContainer (acceptValue coerce { s with phase := .mapIndefKey } rd1 mb none 1)
  | .arrDef =>
    match s.left with
    | [] => ⟨s, rd, .err .other, 0⟩            -- index out of range panic in Go; unreachable
    | 0 :: l => ⟨{ s with left := l }, rd, .tok ⟨.arrClose, none⟩ true, 0⟩
    | (n+1) :: l =>
      let s1 := { s with left := n :: l }
      withMajor s1 rd fun mb rd1 => inContainer (acceptValue coerce s1 rd1 mb none 1)
  | .mapDefKey =>
    match s.left with
    | [] => ⟨s, rd, .err .other, 0⟩
    | 0 :: l => ⟨{ s with left := l }, rd, .tok ⟨.mapClose, none⟩ true, 0⟩
    | (n+1) :: l =>
      let s1 := { s with left := n :: l }
      withMajor s1 rd fun mb rd1 => inContainer (acceptValue coerce { s1 with phase := .mapDefVal } rd1 mb none 1)
  | .mapDefVal => withMajor s rd fun mb rd1 =>
      inContainer (acceptValue coerce { s with phase := .mapDefKey } rd1 mb none 1)

/-- `Decoder.Step` -/
def step (coerce : Bool) (s : St) (rd : Rd) : Out :=
  let o := subStep coerce s rd
  match o.ret with
  | .err _ => o
  | .tok _ false => o
  | .tok t true =>
    match o.st.stack with
    | [] => o
    | [_] => o                          -- nSteps <= 0: all done, stack left as is
    | p :: rest => { o with st := { o.st with phase := p, stack := rest }, ret := .tok t false }

/-- Result of decoding one item. -/
structure RunOut where
  toks : List Tok
  res : Except Err Unit     -- ok = done signalled on the last token
  rd : Rd
  steps : Nat
  alloc : Nat

/-- Iterate `step` until done or error. -/
def run (coerce : Bool) : Nat → St → Rd → List Tok → Nat → Nat → RunOut
  | 0, _, rd, acc, steps, alloc => ⟨acc.reverse, .error .other, rd, steps, alloc⟩
  | fuel+1, s, rd, acc, steps, alloc =>
    let o := step coerce s rd
    match o.ret with
    | .err e => ⟨acc.reverse, .error e, o.rd, steps + 1, alloc + o.alloc⟩
    | .tok t true => ⟨(t :: acc).reverse, .ok (), o.rd, steps + 1, alloc + o.alloc⟩
    | .tok t false => run coerce fuel o.st o.rd (t :: acc) (steps + 1) (alloc + o.alloc)

/-- Decode one item from a byte string (fuel: every step consumes a byte or closes a container). -/
def decode (coerce : Bool) (rd : Rd) : RunOut :=
  run coerce (2 * rd.data.length + 2) init rd [] 0 0

end Refmt.CborDec
