/-
  Model of shared/reader.go: `readerToScanner` (one byte of push-back over an
  arbitrary io.Reader) and the `SlickReaderStream` operations the decoders use,
  with `io.ReadAtLeast` as in the Go standard library.

  The underlying io.Reader is a *schedule*: the data plus a list of chunk sizes
  saying how many bytes each successive `Read` call may return at most
  (0 = a legal empty read `(0, nil)`), and whether the last data is returned
  together with EOF.  C15 proves these operations refine the abstract cursor `Rd`.
-/
import RefmtModel.Model.Reader
namespace Refmt.Sched
open Refmt

/-- the underlying io.Reader -/
structure Src where
  data : Bytes
  chunks : List Nat        -- remaining chunk budget list; exhausted = unlimited
  eofWithData : Bool
deriving DecidableEq, Repr

/-- one `Read(p)` with `len(p) = want > 0`: bytes delivered, EOF flag, new source -/
def Src.read (s : Src) (want : Nat) : Bytes × Bool × Src :=
  match s.data with
  | [] => ([], true, s)
  | _ =>
    match s.chunks with
    | [] =>
      let n := min want s.data.length
      (s.data.take n, s.eofWithData && n == s.data.length, { s with data := s.data.drop n })
    | c :: cs =>
      if c == 0 then ([], false, { s with chunks := cs })
      else
        let n := min (min c want) s.data.length
        let chunks' := if n < c then (c - n) :: cs else cs
        (s.data.take n, s.eofWithData && n == s.data.length, { s with data := s.data.drop n, chunks := chunks' })

/-- `readerToScanner` -/
structure Sc where
  src : Src
  l : Nat     -- last byte
  ls : Nat    -- 0: nothing read, 1: pushed back, 2: can unread
deriving DecidableEq, Repr

def Sc.ofSrc (s : Src) : Sc := ⟨s, 0, 0⟩

/-- `readerToScanner.Read(p)`, `len(p) = want > 0`: (bytes, eof?, state) -/
def Sc.read (z : Sc) (want : Nat) : Bytes × Bool × Sc :=
  if z.ls == 1 then
    if want == 1 then ([z.l], false, { z with ls := 2 })
    else
      let (bs, eof, src') := z.src.read (want - 1)
      if bs.isEmpty then ([z.l], eof, { z with src := src', ls := 2 })
      else
        let eof' := if eof && bs.length == want - 1 then false else eof
        (z.l :: bs, eof', { src := src', l := bs.getLastD 0, ls := 2 })
  else
    let (bs, eof, src') := z.src.read want
    if bs.isEmpty then ([], eof, { z with src := src' })
    else
      let eof' := if eof && bs.length == want then false else eof
      (bs, eof', { src := src', l := bs.getLastD 0, ls := 2 })

/-- Bound on consecutive empty reads, as in bufio (`io.ErrNoProgress`). -/
def maxEmpty : Nat := 100

/-- `readerToScanner.ReadByte` (after the repair: an empty read is retried, not taken as a NUL byte) -/
def Sc.readByte : Nat → Sc → Except Err Nat × Sc
  | 0, z => (.error .other, z)          -- io.ErrNoProgress
  | fuel+1, z =>
    let (bs, eof, z') := z.read 1
    match bs with
    | b :: _ => (.ok b, z')
    | [] => if eof then (.error .eof, z') else Sc.readByte fuel z'

/-- `UnreadByte`: error (→ panic in `Unreadn1`) unless a byte was just read -/
def Sc.unreadByte (z : Sc) : Option Sc :=
  if z.ls == 2 then some { z with ls := 1 } else none

/-- `io.ReadAtLeast(z, buf, n)` with `len(buf) = n > 0` -/
def Sc.readAtLeast : Nat → Sc → Nat → Bytes → Except Err Bytes × Sc
  | 0, z, _, _ => (.error .other, z)
  | fuel+1, z, want, acc =>
    if want == 0 then (.ok acc, z) else
    let (bs, eof, z') := z.read want
    let acc' := acc ++ bs
    if bs.length ≥ want then (.ok acc', z')
    else if eof then (.error (if acc'.isEmpty then .eof else .unexpectedEof), z')
    else Sc.readAtLeast fuel z' (want - bs.length) acc'

/-- `Readn1` -/
def Sc.readn1 (z : Sc) : Except Err Nat × Sc := z.readByte (maxEmpty + 1)
/-- `Readb`/`Readn`/`Readnzc` for `n > 0` -/
def Sc.readN (z : Sc) (n : Nat) : Except Err Bytes × Sc :=
  if n == 0 then (.ok [], z) else z.readAtLeast (n + (z.src.chunks.length + 2)) n []

/-- The abstract cursor a scanner state stands for. -/
def Sc.abs (z : Sc) : Rd :=
  if z.ls == 1 then ⟨z.l :: z.src.data, none, 1⟩ else ⟨z.src.data, none, 0⟩

end Refmt.Sched
