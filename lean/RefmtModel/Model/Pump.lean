/-
  Model of shared/pump.go `TokenPump.Run` for a decoder source and an encoder sink:
  one source step, one sink step per iteration; any error ends the run; when the
  source signals done the sink must signal done on that very token.
-/
import RefmtModel.Model.CborDec
import RefmtModel.Model.JsonDec
import RefmtModel.Model.Writer
namespace Refmt.Pump
open Refmt

/-- a token source: one `Step` -/
inductive SrcStep (σ : Type)
  | tok (st : σ) (rd : Rd) (t : Tok) (done : Bool)
  | err (rd : Rd)

def cborSrc (coerce : Bool) (s : CborDec.St) (rd : Rd) : SrcStep CborDec.St :=
  let o := CborDec.step coerce s rd
  match o.ret with
  | .tok t d => .tok o.st o.rd t d
  | .err _ => .err o.rd

def jsonSrc (s : JsonDec.St) (rd : Rd) : SrcStep JsonDec.St :=
  let o := JsonDec.step s rd
  match o.ret with
  | .tok t d => .tok o.st o.rd t d
  | .err _ => .err o.rd

structure Res where
  ok : Bool              -- `Run` returned nil
  out : List Bytes       -- Write calls made on the sink's writer
  rd : Rd                -- the source's reader afterwards
deriving Repr

/-- `TokenPump.Run` (fuel bounds the number of iterations; every source step consumes input or closes a container) -/
def run {σ τ : Type} (src : σ → Rd → SrcStep σ) (sink : τ → Tok → EncOut τ) :
    Nat → σ → Rd → τ → List Bytes → Res
  | 0, _, rd, _, out => ⟨false, out, rd⟩
  | fuel+1, s, rd, k, out =>
    match src s rd with
    | .err rd' => ⟨false, out, rd'⟩
    | .tok s' rd' t srcDone =>
      let o := sink k t
      let out' := out ++ o.writes
      match o.ret.flag with
      | .err | .panic => ⟨false, out', rd'⟩
      | fl =>
        if srcDone then ⟨fl == .done, out', rd'⟩     -- "src at end of item but sink expects more" otherwise
        else if fl == .done then
          -- the sink is done but the source is not: the Go loop keeps stepping both; the sink then
          -- answers from its finished state.  Modelled by continuing with the sink state as is.
          run src sink fuel s' rd' o.st out'
        else run src sink fuel s' rd' o.st out'

end Refmt.Pump
