/-
  Model of json/jsonDecoder.go + jsonDecoderTerminals.go over the abstract reader.
-/
import RefmtModel.Base.Utf8
import RefmtModel.Base.Digits
import RefmtModel.Base.FloatText
import RefmtModel.Model.Reader
namespace Refmt.JsonDec
open Refmt

/-- which step function a frame holds -/
inductive FK | value | arr | mapKey | mapVal
deriving DecidableEq, Repr

structure Frame where
  k : FK
  some : Bool
deriving DecidableEq, Repr

structure St where
  stack : List Frame     -- head = top
  frame : Frame
deriving DecidableEq, Repr

def init : St := ⟨[], ⟨.value, false⟩⟩
def reset (_ : St) : St := init

def isWs (b : Nat) : Bool := b == 32 || b == 9 || b == 13 || b == 10

/-- `readn1skippingWhitespace` -/
def skipWs : Nat → Rd → Except Err (Nat × Rd) × Rd
  | 0, rd => (.error .other, rd)
  | fuel+1, rd =>
    match rd.read1 with
    | (.error e, rd') => (.error e, rd')
    | (.ok (b, rd1), _) => if isWs b then skipWs fuel rd1 else (.ok (b, rd1), rd1)

/-! ### strings -/

inductive SS | normal | esc | u0 | u1 | u2 | u3
deriving DecidableEq, Repr

def isHex (c : Nat) : Bool := (48 ≤ c && c ≤ 57) || (97 ≤ c && c ≤ 102) || (65 ≤ c && c ≤ 70)

/-- `strscan_*`: next state, `none` = string finished, error = invalid byte -/
def strStep : SS → Nat → Except Unit (Option SS)
  | .normal, c =>
    if c == 34 then .ok none
    else if c == 92 then .ok (some .esc)
    else if c < 0x20 then .error ()
    else .ok (some .normal)
  | .esc, c =>
    if c == 98 || c == 102 || c == 110 || c == 114 || c == 116 || c == 92 || c == 47 || c == 34 then .ok (some .normal)
    else if c == 117 then .ok (some .u0)
    else .error ()
  | .u0, c => if isHex c then .ok (some .u1) else .error ()
  | .u1, c => if isHex c then .ok (some .u2) else .error ()
  | .u2, c => if isHex c then .ok (some .u3) else .error ()
  | .u3, c => if isHex c then .ok (some .normal) else .error ()

/-- The scan loop of `decodeString`: returns the raw content (between the quotes). -/
def scanString : Nat → SS → Rd → Bytes → Except Err (Bytes × Rd) × Rd
  | 0, _, rd, _ => (.error .other, rd)
  | fuel+1, st, rd, acc =>
    match rd.read1 with
    | (.error e, rd') => (.error e, rd')
    | (.ok (b, rd1), _) =>
      match strStep st b with
      | .error _ => (.error .syntax, rd1)
      | .ok none => (.ok (acc.reverse, rd1), rd1)
      | .ok (some st') => scanString fuel st' rd1 (b :: acc)

def hexNib (c : Nat) : Nat :=
  if 48 ≤ c && c ≤ 57 then c - 48 else if 97 ≤ c && c ≤ 102 then c - 87 else if 65 ≤ c && c ≤ 70 then c - 55 else 0

/-- `getu4`: value of `\uXXXX` at the head of `s`, or none -/
def getu4 : Bytes → Option Nat
  | 92 :: 117 :: a :: b :: c :: d :: _ =>
    if isHex a && isHex b && isHex c && isHex d then some (hexNib a * 4096 + hexNib b * 256 + hexNib c * 16 + hexNib d) else none
  | _ => none

/-- `parseString` (the unquoting slow path, which agrees with the fast path when nothing needs unquoting). -/
def parseString : Nat → Bytes → Option Bytes
  | 0, _ => none
  | _, [] => some []
  | fuel+1, c :: rest =>
    if c == 92 then
      match rest with
      | [] => none
      | e :: rest' =>
        if e == 34 || e == 92 || e == 47 || e == 39 then (parseString fuel rest').map (e :: ·)
        else if e == 98 then (parseString fuel rest').map (8 :: ·)
        else if e == 102 then (parseString fuel rest').map (12 :: ·)
        else if e == 110 then (parseString fuel rest').map (10 :: ·)
        else if e == 114 then (parseString fuel rest').map (13 :: ·)
        else if e == 116 then (parseString fuel rest').map (9 :: ·)
        else if e == 117 then
          match getu4 (c :: rest) with
          | none => none
          | some rr =>
            let after := (c :: rest).drop 6
            if isSurrogate rr then
              match getu4 after with
              | some rr1 =>
                let dec := utf16Decode rr rr1
                if dec != runeError then (parseString fuel (after.drop 6)).map (encodeRune dec ++ ·)
                else (parseString fuel after).map (encodeRune runeError ++ ·)
              | none => (parseString fuel after).map (encodeRune runeError ++ ·)
            else (parseString fuel after).map (encodeRune rr ++ ·)
        else none
    else if c == 34 || c < 32 then none
    else if c < 0x80 then (parseString fuel rest).map (c :: ·)
    else
      let rs := decodeRune (c :: rest)
      (parseString fuel ((c :: rest).drop (max rs.2 1))).map (encodeRune rs.1 ++ ·)

/-- `decodeString` (the opening quote has been consumed) -/
def decString (rd : Rd) : Except Err (Bytes × Rd) × Rd :=
  match scanString (rd.data.length + 1) .normal rd [] with
  | (.error e, rd') => (.error e, rd')
  | (.ok (raw, rd1), _) =>
    -- Unreadn1, parse, Readn1 again: net effect on the reader is nil
    let s := (parseString (raw.length + 1) raw).getD []
    (.ok (s, rd1), rd1)

/-! ### numbers -/

inductive NS | neg | s0 | s1 | dot | dot0 | e | eSign | e0
deriving DecidableEq, Repr

/-- `numscan_*`: ok (some st) = continue, ok none = number ended before this byte, error = invalid -/
def numStep : NS → Nat → Except Unit (Option NS)
  | .neg, c => if c == 48 then .ok (some .s0) else if 49 ≤ c && c ≤ 57 then .ok (some .s1) else .error ()
  | .s1, c =>
    if isDigit c then .ok (some .s1)
    else if c == 46 then .ok (some .dot) else if c == 101 || c == 69 then .ok (some .e) else .ok none
  | .s0, c => if c == 46 then .ok (some .dot) else if c == 101 || c == 69 then .ok (some .e) else .ok none
  | .dot, c => if isDigit c then .ok (some .dot0) else .error ()
  | .dot0, c => if isDigit c then .ok (some .dot0) else if c == 101 || c == 69 then .ok (some .e) else .ok none
  | .e, c => if c == 43 || c == 45 then .ok (some .eSign) else if isDigit c then .ok (some .e0) else .error ()
  | .eSign, c => if isDigit c then .ok (some .e0) else .error ()
  | .e0, c => if isDigit c then .ok (some .e0) else .ok none

/-- The scan loop of `decodeNumber`; `acc` = text so far (reversed). -/
def scanNumber : Nat → NS → Rd → Bytes → Except Err (Bytes × Rd) × Rd
  | 0, _, rd, _ => (.error .other, rd)
  | fuel+1, st, rd, acc =>
    match rd.read1 with
    | (.error .eof, rd') =>
      -- end of input ends the number, which must be complete
      (match numStep st 32 with
       | .error _ => (.error .unexpectedEof, rd')
       | .ok _ => (.ok (acc.reverse, rd'), rd'))
    | (.error e, rd') => (.error e, rd')
    | (.ok (b, rd1), _) =>
      match numStep st b with
      | .error _ => (.error .syntax, rd1)
      | .ok none => let rd2 := rd1.unread1 b; (.ok (acc.reverse, rd2), rd2)
      | .ok (some st') => scanNumber fuel st' rd1 (b :: acc)

/-- Token for a grammar-valid number text: int preferred, then uint, else float. -/
def numTok (text : Bytes) : Except Err Body :=
  let isInt := !(text.any fun c => c == 46 || c == 101 || c == 69)
  let neg := text.head? == some 45
  let body := if neg then text.drop 1 else text
  if isInt then
    let v := digitsVal body
    if neg then (if v ≤ two63 then .ok (.int (-(v : Int))) else .error .range)
    else if v < two63 then .ok (.int v)
    else if v < two64 then .ok (.uint v)
    else .error .range
  else
    let mant := body.takeWhile fun c => c != 101 && c != 69
    let expPart := (body.dropWhile fun c => c != 101 && c != 69).drop 1
    let ip := mant.takeWhile (· != 46)
    let fp := (mant.dropWhile (· != 46)).drop 1
    let eneg := expPart.head? == some 45
    let edig := if expPart.head? == some 45 || expPart.head? == some 43 then expPart.drop 1 else expPart
    let ev : Int := if eneg then -(digitsVal edig : Int) else (digitsVal edig : Int)
    let (bits, ovf) := FloatText.parseDecimal (digitsVal (ip ++ fp)) (ev - (fp.length : Int))
    if ovf then .error .range
    else .ok (.float (if neg then bits + 9223372036854775808 else bits))

/-- `decodeNumber` (first byte `b0` already consumed) -/
def decNumber (rd : Rd) (b0 : Nat) : Except Err (Body × Rd) × Rd :=
  let st : NS := if b0 == 45 then .neg else if b0 == 48 then .s0 else .s1
  match scanNumber (rd.data.length + 2) st rd [b0] with
  | (.error e, rd') => (.error e, rd')
  | (.ok (text, rd1), _) =>
    match numTok text with
    | .ok b => (.ok (b, rd1), rd1)
    | .error e => (.error e, rd1)

/-! ### the step machine -/

inductive Ret
  | tok (t : Tok) (done : Bool)
  | err (e : Err)
deriving Repr

structure Out where
  st : St
  rd : Rd
  ret : Ret

def push (s : St) (k : FK) : St := ⟨s.frame :: s.stack, ⟨k, false⟩⟩

/-- `expectLiteralRemainder` -/
def literal (s : St) (rd : Rd) (rest : Bytes) (b : Body) : Out :=
  match rd.readN rest.length with
  | (.error .eof, rd') => ⟨s, rd', .err .unexpectedEof⟩
  | (.error e, rd') => ⟨s, rd', .err e⟩
  | (.ok bs, rd') => if bs == rest then ⟨s, rd', .tok ⟨b, none⟩ true⟩ else ⟨s, rd', .err .syntax⟩

/-- `stepHelper_acceptKV` for a value -/
def acceptValue (s : St) (rd : Rd) (mb : Nat) : Out :=
  if mb == 123 then ⟨push s .mapKey, rd, .tok ⟨.mapOpen (-1), none⟩ false⟩
  else if mb == 91 then ⟨push s .arr, rd, .tok ⟨.arrOpen (-1), none⟩ false⟩
  else if mb == 110 then literal s rd [117, 108, 108] .null
  else if mb == 34 then
    match decString rd with
    | (.ok (str, rd'), _) => ⟨s, rd', .tok ⟨.str str, none⟩ true⟩
    | (.error e, rd') => ⟨s, rd', .err e⟩
  else if mb == 102 then literal s rd [97, 108, 115, 101] (.bool false)
  else if mb == 116 then literal s rd [114, 117, 101] (.bool true)
  else if mb == 45 || isDigit mb then
    match decNumber rd mb with
    | (.ok (b, rd'), _) => ⟨s, rd', .tok ⟨b, none⟩ true⟩
    | (.error e, rd') => ⟨s, rd', .err e⟩
  else ⟨s, rd, .err .syntax⟩

def inContainer (o : Out) : Out :=
  match o.ret with
  | .tok t _ => { o with ret := .tok t false }
  | .err _ => o

/-- after the optional comma handling: `mb` is the first byte of the next entry or the close -/
def arrEntry (s : St) (rd : Rd) (mb : Nat) : Out :=
  if mb == 93 then ⟨s, rd, .tok ⟨.arrClose, none⟩ true⟩
  else inContainer (acceptValue { s with frame := ⟨s.frame.k, true⟩ } rd mb)

def mapEntry (s : St) (rd : Rd) (mb : Nat) : Out :=
  if mb == 125 then ⟨s, rd, .tok ⟨.mapClose, none⟩ true⟩
  else if mb != 34 then ⟨s, rd, .err .syntax⟩
  else
    match decString rd with
    | (.error e, rd') => ⟨s, rd', .err e⟩
    | (.ok (key, rd1), _) =>
      match skipWs (rd1.data.length + 1) rd1 with
      | (.error e, rd') => ⟨s, rd', .err e⟩
      | (.ok (c, rd2), _) =>
        if c != 58 then ⟨s, rd2, .err .syntax⟩
        else ⟨{ s with frame := ⟨.mapVal, false⟩ }, rd2, .tok ⟨.str key, none⟩ false⟩

/-- comma / close handling shared by arrays and maps -/
def afterSome (s : St) (rd : Rd) (mb : Nat) (close : Nat) (closeTok : Body) (entry : St → Rd → Nat → Out) : Out :=
  if s.frame.some then
    if mb == close then ⟨s, rd, .tok ⟨closeTok, none⟩ true⟩
    else if mb == 44 then
      match skipWs (rd.data.length + 1) rd with
      | (.error e, rd') => ⟨s, rd', .err e⟩
      | (.ok (mb2, rd2), _) => entry s rd2 mb2
    else ⟨s, rd, .err .syntax⟩
  else entry s rd mb

def subStep (s : St) (rd : Rd) : Out :=
  match skipWs (rd.data.length + 1) rd with
  | (.error e, rd') => ⟨s, rd', .err e⟩
  | (.ok (mb, rd1), _) =>
    match s.frame.k with
    | .value => acceptValue s rd1 mb
    | .arr => afterSome s rd1 mb 93 .arrClose arrEntry
    | .mapKey => afterSome s rd1 mb 125 .mapClose mapEntry
    | .mapVal => inContainer (acceptValue { s with frame := ⟨.mapKey, true⟩ } rd1 mb)

/-- `Decoder.Step` -/
def step (s : St) (rd : Rd) : Out :=
  let o := subStep s rd
  match o.ret with
  | .err _ => o
  | .tok _ false => o
  | .tok t true =>
    match o.st.stack with
    | [] => o
    | [_] => o
    | f :: rest => { o with st := ⟨rest, f⟩, ret := .tok t false }

structure RunOut where
  toks : List Tok
  res : Except Err Unit
  rd : Rd
  steps : Nat

def run : Nat → St → Rd → List Tok → Nat → RunOut
  | 0, _, rd, acc, steps => ⟨acc.reverse, .error .other, rd, steps⟩
  | fuel+1, s, rd, acc, steps =>
    let o := step s rd
    match o.ret with
    | .err e => ⟨acc.reverse, .error e, o.rd, steps + 1⟩
    | .tok t true => ⟨(t :: acc).reverse, .ok (), o.rd, steps + 1⟩
    | .tok t false => run fuel o.st o.rd (t :: acc) (steps + 1)

def decode (rd : Rd) : RunOut := run (2 * rd.data.length + 2) init rd [] 0

end Refmt.JsonDec
