/-
  Model of pretty/prettyEncoder.go: acceptance, done flags and panic sites only
  (the ANSI-decorated output is not modelled).
-/
import RefmtModel.Spec.Rec
import RefmtModel.Model.Common
namespace Refmt.Pretty
open Refmt

inductive Phase | any | mapKey | mapVal | arr
deriving DecidableEq, Repr

structure St where
  stack : List Phase
  current : Phase
deriving DecidableEq, Repr

def init : St := ⟨[], .any⟩
def reset (_ : St) : St := ⟨[], .any⟩
def push (s : St) (p : Phase) : St := ⟨p :: s.stack, p⟩

def pop (s : St) : Option (St × Bool) :=
  match s.stack with
  | [] => none
  | [_] => some (s, true)
  | _ :: p :: r => some (⟨p :: r, p⟩, false)

def popRet (s : St) : EncOut St :=
  match pop s with
  | none => ⟨s, [], .panic⟩
  | some (s', d) => ⟨s', [], .plain d⟩

def stepAny (s : St) : Body → EncOut St
  | .mapOpen _ => ⟨push s .mapKey, [], .plain false⟩
  | .arrOpen _ => ⟨push s .arr, [], .plain false⟩
  | .mapClose => ⟨s, [], .bad⟩
  | .arrClose => ⟨s, [], .bad⟩
  | _ => ⟨s, [], .plain true⟩

def stepMapKey (s : St) : Body → EncOut St
  | .mapClose => popRet s
  | .str _ => ⟨{ s with current := .mapVal }, [], .plain false⟩
  | .int _ => ⟨{ s with current := .mapVal }, [], .plain false⟩
  | .uint _ => ⟨{ s with current := .mapVal }, [], .plain false⟩
  | _ => ⟨s, [], .bad⟩

def stepMapVal (s : St) : Body → EncOut St
  | .mapOpen _ => ⟨push s .mapKey, [], .plain false⟩
  | .arrOpen _ => ⟨push s .arr, [], .plain false⟩
  | .mapClose => ⟨s, [], .bad⟩
  | .arrClose => ⟨s, [], .bad⟩
  | _ => ⟨{ s with current := .mapKey }, [], .plain false⟩

def stepArr (s : St) : Body → EncOut St
  | .mapOpen _ => ⟨push s .mapKey, [], .plain false⟩
  | .arrOpen _ => ⟨push s .arr, [], .plain false⟩
  | .mapClose => ⟨s, [], .bad⟩
  | .arrClose => popRet s
  | _ => ⟨s, [], .plain false⟩

def step (s : St) (t : Tok) : EncOut St :=
  match s.current with
  | .any => stepAny s t.body
  | .mapKey => stepMapKey s t.body
  | .mapVal => stepMapVal s t.body
  | .arr => stepArr s t.body

end Refmt.Pretty
