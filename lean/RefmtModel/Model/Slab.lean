/-
  The slab discipline of the object layer (obj/marshalSlab.go, obj/unmarshalSlab.go, Marshaller.Bind,
  Unmarshaller.Bind), as a model of its own.

  The functional model of marshalling and unmarshalling (Model/Obj) has no per-instance state.  The Go code keeps
  its machines in rows of a slab and reuses the slab for every value.  What makes the two agree is a discipline:

    grow      appends a ZERO row            (`s.rows = append(s.rows, marshalSlabRow{})`)
    release   drops the last row            (`s.rows = s.rows[0 : len(s.rows)-1]`)
    Bind      forgets every row and the machine stack before the first requisition

  so that a machine handed out by `requisitionMachine` always lives in a zero row, whatever the instance did
  before.  The source text of these functions is regenerated into Gen/Machines.lean on every run and compared with
  the text this model was written from (RefmtProofs/Props/C17Machines.lean).
-/
namespace Refmt.Slab

/-- a slab: the stack of rows in use, oldest first -/
structure S (Row : Type) where
  rows : List Row
deriving Repr

variable {Row : Type}

/-- `grow`: append Go's zero value of the row struct -/
def grow (zero : Row) (s : S Row) : S Row := ⟨s.rows ++ [zero]⟩
/-- `release`: re-slice without the last row -/
def release (s : S Row) : S Row := ⟨s.rows.dropLast⟩
/-- what `Bind` does to the slab: re-slice to length 0 -/
def bind (_ : S Row) : S Row := ⟨[]⟩
/-- the tip row (the one `requisitionMachine` / `yieldMachine` configure) -/
def tip? (s : S Row) : Option Row := s.rows.getLast?
/-- a machine writing into the tip row (Reset, Step, the yield functions) -/
def writeTip (f : Row → Row) (s : S Row) : S Row :=
  match s.rows.getLast? with
  | none => s
  | some r => ⟨s.rows.dropLast ++ [f r]⟩

/-- everything an instance can do to its slab between two Binds -/
inductive Op (Row : Type) where
  | grow
  | release
  | write (f : Row → Row)

def step (zero : Row) (s : S Row) : Op Row → S Row
  | .grow => grow zero s
  | .release => release s
  | .write f => writeTip f s

def run (zero : Row) (s : S Row) (ops : List (Op Row)) : S Row := ops.foldl (step zero) s

end Refmt.Slab
