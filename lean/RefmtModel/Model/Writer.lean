/-
  Writers with an injected fault (C16): the k-th `Write` call (0-based) returns an
  error, a short count, or both; fail-stop makes every later call fail as well.
  Both encoders keep the first failure sticky (cbor/encodeWriter.go quickWriterStream;
  json errTrackingWriter) and report it from `Step` wherever the model says `Ret.ck`.
-/
import RefmtModel.Model.Common
namespace Refmt

inductive WMode | err | short | both
deriving DecidableEq, Repr

structure WFault where
  k : Nat
  mode : WMode
  stop : Bool
deriving DecidableEq, Repr

structure WSt where
  calls : Nat := 0
  failed : Bool := false
deriving DecidableEq, Repr

/-- Does call number `i` writing `bs` fail in a way the wrapper notices?
    (a "short count" on an empty buffer is not observable) -/
def WFault.hits (f : WFault) (i : Nat) (bs : Bytes) : Bool :=
  (i == f.k || (f.stop && i > f.k)) &&
  (match f.mode with | .short => !bs.isEmpty | _ => true)

/-- perform the `Write` calls of one step -/
def WSt.writes (f : Option WFault) (w : WSt) : List Bytes → WSt
  | [] => w
  | bs :: rest =>
    let hit := match f with | some ft => ft.hits w.calls bs | none => false
    WSt.writes f ⟨w.calls + 1, w.failed || hit⟩ rest

/-- flag of a step result given the writer state after its writes -/
def Ret.flagW (r : Ret) (w : WSt) : Flag :=
  match r with
  | .ck d => if w.failed then .err else (if d then .done else .cont)
  | .plain d => if d then .done else .cont
  | .bad => .err
  | .panic => .panic

/-- Feed tokens to an encoder writing to a possibly faulty writer, as the pump does:
    stop at the first done / error / panic.  Returns the flags and the number of Write calls made. -/
def runFaulty {σ : Type} (step : σ → Tok → EncOut σ) (f : Option WFault) : σ → WSt → List Tok → List Flag × Nat
  | _, w, [] => ([], w.calls)
  | s, w, t :: ts =>
    let o := step s t
    let w' := w.writes f o.writes
    match o.ret.flagW w' with
    | .cont =>
      let r := runFaulty step f o.st w' ts
      (.cont :: r.1, r.2)
    | fl => ([fl], w'.calls)

end Refmt
