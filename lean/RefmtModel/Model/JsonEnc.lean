/-
  Model of json/jsonEncoder.go + jsonEncoderTerminals.go.
  One `Write` call of the Go code = one element of `writes` (empty writes included).
  Float text is a parameter (`ff : Nat → Bytes`, finite f64 bits ↦ what `emitFloat` writes).
-/
import RefmtModel.Base.Bytes
import RefmtModel.Base.Digits
import RefmtModel.Base.Utf8
import RefmtModel.Spec.Rec
import RefmtModel.Model.Common
namespace Refmt.JsonEnc
open Refmt

inductive Phase | any | mapKey | mapVal | arr
deriving DecidableEq, Repr

structure Cfg where
  line : Option Bytes     -- `nil` vs non-nil matters (`if d.cfg.Line != nil`)
  indent : Bytes
deriving DecidableEq, Repr

def Cfg.lineBytes (c : Cfg) : Bytes := c.line.getD []

structure St where
  stack : List Phase
  current : Phase
  some : Bool
deriving DecidableEq, Repr

def init : St := ⟨[], .any, false⟩
def reset (_ : St) : St := ⟨[], .any, false⟩

def push (s : St) (p : Phase) : St := ⟨p :: s.stack, p, false⟩

/-- `popPhase`: (state, writes, done) or none for over-pop panic. -/
def pop (c : Cfg) (s : St) : Option (St × List Bytes × Bool) :=
  match s.stack with
  | [] => none
  | [_] => some (s, [c.lineBytes], true)
  | _ :: p :: r => some (⟨p :: r, p, true⟩, [], false)

/-- `entrySep`: writes and the new `some` flag (always true). -/
def entrySep (c : Cfg) (s : St) : List Bytes :=
  (if s.some then [[44]] else []) ++ [c.lineBytes] ++ List.replicate s.stack.length c.indent

/-- Writes before a close bracket. -/
def closeIndent (c : Cfg) (s : St) : List Bytes :=
  if s.some then [c.lineBytes] ++ List.replicate (s.stack.length - 1) c.indent else []

/-- The body of `emitString`'s loop.  `pend` = bytes since `start` (not yet written). -/
def escLoop (s : Bytes) (pend : Bytes) : List Bytes :=
  match s with
  | [] => if pend.isEmpty then [] else [pend]
  | b :: rest =>
    let flush : List Bytes := if pend.isEmpty then [] else [pend]
    if b < 0x80 then
      if 0x20 ≤ b && b != 92 && b != 34 then escLoop rest (pend ++ [b])
      else
        let esc : List Bytes :=
          if b == 92 || b == 34 then [[92], [b]]
          else if b == 10 then [[92], [110]]
          else if b == 13 then [[92], [114]]
          else if b == 9 then [[92], [116]]
          else [[92, 117, 48, 48], [hexDigit (b / 16)], [hexDigit (b % 16)]]
        flush ++ esc ++ escLoop rest []
    else
      if _h : (decodeRune (b :: rest)).2 ≤ 1 then
        flush ++ [[92, 117, 102, 102, 102, 100]] ++ escLoop rest []
      else if (decodeRune (b :: rest)).1 == 0x2028 || (decodeRune (b :: rest)).1 == 0x2029 then
        flush ++ [[92, 117, 50, 48, 50], [hexDigit ((decodeRune (b :: rest)).1 % 16)]]
          ++ escLoop ((b :: rest).drop (decodeRune (b :: rest)).2) []
      else
        escLoop ((b :: rest).drop (decodeRune (b :: rest)).2)
          (pend ++ (b :: rest).take (decodeRune (b :: rest)).2)
termination_by s.length
decreasing_by
  all_goals simp only [List.length_drop, List.length_cons]
  all_goals omega

/-! A linear-time implementation of `escLoop` for COMPILED code (the driver of the correspondence check), proved equal to
the definition above and installed with `@[csimp]`: the compiler may substitute only what `escLoop_eq_fast` proves, nothing
is trusted.  (The definition above appends to the pending run, which is quadratic on strings of tens of kilobytes.)
Proofs keep reasoning about `escLoop`. -/

/-- same loop, the pending run kept reversed -/
def flushR (rp : Bytes) : List Bytes := if rp.isEmpty then [] else [rp.reverse]

def escBytes (b : Nat) : List Bytes :=
  if b == 92 || b == 34 then [[92], [b]]
  else if b == 10 then [[92], [110]]
  else if b == 13 then [[92], [114]]
  else if b == 9 then [[92], [116]]
  else [[92, 117, 48, 48], [hexDigit (b / 16)], [hexDigit (b % 16)]]

def escLoopR (s : Bytes) (rp : Bytes) : List Bytes :=
  match s with
  | [] => flushR rp
  | b :: rest =>
    if b < 0x80 then
      if 0x20 ≤ b && b != 92 && b != 34 then escLoopR rest (b :: rp)
      else flushR rp ++ escBytes b ++ escLoopR rest []
    else
      if _h : (decodeRune (b :: rest)).2 ≤ 1 then
        flushR rp ++ [[92, 117, 102, 102, 102, 100]] ++ escLoopR rest []
      else if (decodeRune (b :: rest)).1 == 0x2028 || (decodeRune (b :: rest)).1 == 0x2029 then
        flushR rp ++ [[92, 117, 50, 48, 50], [hexDigit ((decodeRune (b :: rest)).1 % 16)]]
          ++ escLoopR ((b :: rest).drop (decodeRune (b :: rest)).2) []
      else
        escLoopR ((b :: rest).drop (decodeRune (b :: rest)).2)
          (((b :: rest).take (decodeRune (b :: rest)).2).reverse ++ rp)
termination_by s.length
decreasing_by
  all_goals simp only [List.length_drop, List.length_cons]
  all_goals omega

theorem escLoopR_eq (s : Bytes) (rp : Bytes) : escLoopR s rp = escLoop s rp.reverse := by
  fun_induction escLoopR s rp
  all_goals rw [escLoop]
  all_goals (try simp only [flushR, escBytes, List.isEmpty_reverse])
  all_goals (repeat' split)
  all_goals simp_all

def escLoopFast (s : Bytes) (pend : Bytes) : List Bytes := escLoopR s pend.reverse

@[csimp] theorem escLoop_eq_fast : @escLoop = @escLoopFast := by
  funext s pend; simp [escLoopFast, escLoopR_eq]

/-- `emitString` -/
def emitString (s : Bytes) : List Bytes := [[34]] ++ escLoop s [] ++ [[34]]

/-- `flushValue`: writes, or `none` = value error (non-finite float), or panic for bytes. -/
inductive Flush | ok (ws : List Bytes) | err | panic

def flushValue (ff : Nat → Bytes) : Body → Flush
  | .str s => .ok (emitString s)
  | .bool true => .ok [[116, 114, 117, 101]]
  | .bool false => .ok [[102, 97, 108, 115, 101]]
  | .int i => .ok [intDigits i]
  | .uint n => .ok [natDigits n]
  | .float bits => if floatNonFinite bits then .err else .ok [ff bits]
  | .null => .ok [[110, 117, 108, 108]]
  | .bytes _ => .err
  | _ => .panic

def isOpenOrClose : Body → Bool
  | .mapOpen _ | .mapClose | .arrOpen _ | .arrClose => true
  | _ => false

/-- return of `flushValue` turned into a step result with done flag `d` -/
def valueRet (s : St) (pre : List Bytes) (d : Bool) : Flush → EncOut St
  | .ok ws => ⟨s, pre ++ ws, .ck d⟩
  | .err => ⟨s, pre, .bad⟩
  | .panic => ⟨s, pre, .panic⟩

def stepAny (_c : Cfg) (ff : Nat → Bytes) (s : St) (b : Body) : EncOut St :=
  match b with
  | .mapOpen _ => ⟨push s .mapKey, [[123]], .ck false⟩
  | .arrOpen _ => ⟨push s .arr, [[91]], .ck false⟩
  | .mapClose => ⟨s, [], .bad⟩
  | .arrClose => ⟨s, [], .bad⟩
  | v => valueRet s [] true (flushValue ff v)

def stepMapKey (c : Cfg) (s : St) (b : Body) : EncOut St :=
  match b with
  | .mapClose =>
    match pop c s with
    | none => ⟨s, closeIndent c s ++ [[125]], .panic⟩
    | some (s', ws, d) => ⟨s', closeIndent c s ++ [[125]] ++ ws, .ck d⟩
  | .str k =>
    ⟨{ s with current := .mapVal, some := true },
     entrySep c s ++ emitString k ++ [[58]] ++ (if c.line.isSome then [[32]] else []), .ck false⟩
  | _ => ⟨s, [], .bad⟩

def stepMapVal (_c : Cfg) (ff : Nat → Bytes) (s : St) (b : Body) : EncOut St :=
  match b with
  | .mapOpen _ => ⟨push s .mapKey, [[123]], .ck false⟩
  | .arrOpen _ => ⟨push s .arr, [[91]], .ck false⟩
  | .mapClose => ⟨s, [], .bad⟩
  | .arrClose => ⟨s, [], .bad⟩
  | v => valueRet { s with current := .mapKey } [] false (flushValue ff v)

def stepArr (c : Cfg) (ff : Nat → Bytes) (s : St) (b : Body) : EncOut St :=
  match b with
  | .mapOpen _ => ⟨push { s with some := true } .mapKey, entrySep c s ++ [[123]], .ck false⟩
  | .arrOpen _ => ⟨push { s with some := true } .arr, entrySep c s ++ [[91]], .ck false⟩
  | .mapClose => ⟨s, [], .bad⟩
  | .arrClose =>
    match pop c s with
    | none => ⟨s, closeIndent c s ++ [[93]], .panic⟩
    | some (s', ws, d) => ⟨s', closeIndent c s ++ [[93]] ++ ws, .ck d⟩
  | v => valueRet { s with some := true } (entrySep c s) false (flushValue ff v)

/-- `Encoder.Step` -/
def step (c : Cfg) (ff : Nat → Bytes) (s : St) (t : Tok) : EncOut St :=
  match s.current with
  | .any => stepAny c ff s t.body
  | .mapKey => stepMapKey c s t.body
  | .mapVal => stepMapVal c ff s t.body
  | .arr => stepArr c ff s t.body

end Refmt.JsonEnc
