/-
  Model of cbor/cborEncoder.go + cborEncoderTerminals.go.
  One `Write` call of the Go code = one element of `writes`.
-/
import RefmtModel.Base.Bytes
import RefmtModel.Model.Common
namespace Refmt.CborEnc
open Refmt

/-- `encoderPhase` (cbor/cborEncoder.go:37-45), same order as the Go iota. -/
inductive Phase
  | any | mapDefKey | mapDefVal | mapIndefKey | mapIndefVal | arrDef | arrIndef
deriving DecidableEq, Repr

structure St where
  stack : List Phase      -- head = top (Go appends at the end)
  current : Phase
deriving DecidableEq, Repr

def init : St := ⟨[], .any⟩
/-- `Encoder.Reset` -/
def reset (_ : St) : St := ⟨[], .any⟩

-- Major type bases (cbor/cborCommon.go)
def majUint := 0x00
def majNeg := 0x20
def majBytes := 0x40
def majStr := 0x60
def majArr := 0x80
def majMap := 0xa0
def majTag := 0xc0
def sigFalse := 0xf4
def sigTrue := 0xf5
def sigNil := 0xf6
def sigUndef := 0xf7
def sigF16 := 0xf9
def sigF32 := 0xfa
def sigF64 := 0xfb
def sigIndefBytes := 0x5f
def sigIndefStr := 0x7f
def sigIndefArr := 0x9f
def sigIndefMap := 0xbf
def sigBreak := 0xff

/-- `emitMajorPlusLen` as a list of `Write` calls. `v < 2^64`. -/
def emitHead (major v : Nat) : List Bytes :=
  if v ≤ 0x17 then [[major + v]]
  else if v ≤ 0xff then [[major + 0x18, v]]
  else if v ≤ 0xffff then [[major + 0x19], beBytes 2 v]
  else if v ≤ 0xffffffff then [[major + 0x1a], beBytes 4 v]
  else [[major + 0x1b], beBytes 8 v]

def tagHead : Option Int → List Bytes
  | none => []
  | some t => emitHead majTag (toU64 t)

def encInt (i : Int) : List Bytes :=
  if i ≥ 0 then emitHead majUint i.toNat else emitHead majNeg (toU64 (-1 - i))

/-- Bytes written for a scalar body (after the tag head). -/
def scalarWrites : Body → List Bytes
  | .null => [[sigNil]]
  | .str s => emitHead majStr s.length ++ [s]
  | .bytes b => emitHead majBytes b.length ++ [b]
  | .bool true => [[sigTrue]]
  | .bool false => [[sigFalse]]
  | .int i => encInt i
  | .uint n => emitHead majUint n
  | .float bits => [[sigF64], beBytes 8 bits]
  | _ => []

/-- `pushPhase` -/
def push (s : St) (p : Phase) : St := ⟨p :: s.stack, p⟩

/-- `popPhase`: returns (state, stack-now-empty?) or `none` for the over-pop panic. -/
def pop (s : St) : Option (St × Bool) :=
  match s.stack with
  | [] => none
  | [_] => some (s, true)          -- n == 0: returns true, leaves stack and current alone
  | _ :: p :: r => some (⟨p :: r, p⟩, false)

/-- The phase after the `current -= 1` adjustment for a value position; `none` in key position. -/
def valuePos : Phase → Option Phase
  | .mapDefVal => some .mapDefKey
  | .mapIndefVal => some .mapIndefKey
  | .any => some .any
  | .arrDef => some .arrDef
  | .arrIndef => some .arrIndef
  | .mapDefKey => none
  | .mapIndefKey => none

/-- `current += 1` for a key -/
def keyPos : Phase → Option Phase
  | .mapDefKey => some .mapDefVal
  | .mapIndefKey => some .mapIndefVal
  | _ => none

def popRet (s : St) (ws : List Bytes) (checked : Bool) : EncOut St :=
  match pop s with
  | none => ⟨s, ws, .panic⟩
  | some (s', d) => ⟨s', ws, if checked then .ck d else .plain d⟩

/-- Value-only scalars: null, bytes, bool, float. -/
def stepValueOnly (s : St) (t : Tok) : EncOut St :=
  match valuePos s.current with
  | some c => ⟨{ s with current := c }, tagHead t.tag ++ scalarWrites t.body, .ck (s.current == .any)⟩
  | none => ⟨s, [], .bad⟩

/-- Scalars that may also be keys: string, int, uint. -/
def stepKeyable (s : St) (t : Tok) : EncOut St :=
  match valuePos s.current with
  | some c => ⟨{ s with current := c }, tagHead t.tag ++ scalarWrites t.body, .ck (s.current == .any)⟩
  | none =>
    match keyPos s.current with
    | some c => ⟨{ s with current := c }, tagHead t.tag ++ scalarWrites t.body, .ck (s.current == .any)⟩
    | none => ⟨s, [], .panic⟩

/-- The phase pushed by an open token: definite iff `len >= 0`. -/
def openPhase (isMap : Bool) (len : Int) : Phase :=
  if len ≥ 0 then (if isMap then .mapDefKey else .arrDef)
  else (if isMap then .mapIndefKey else .arrIndef)

def openWrites (isMap : Bool) (len : Int) : List Bytes :=
  if len ≥ 0 then emitHead (if isMap then majMap else majArr) (toU64 len)
  else [[if isMap then sigIndefMap else sigIndefArr]]

def stepOpen (s : St) (tag : Option Int) (len : Int) (isMap : Bool) : EncOut St :=
  match valuePos s.current with
  | some c => ⟨push { s with current := c } (openPhase isMap len), tagHead tag ++ openWrites isMap len, .ck false⟩
  | none => ⟨s, [], .bad⟩

def stepMapClose (s : St) : EncOut St :=
  match s.current with
  | .mapDefKey => popRet s [] false
  | .mapIndefKey => popRet s [[sigBreak]] true
  | _ => ⟨s, [], .bad⟩

def stepArrClose (s : St) : EncOut St :=
  match s.current with
  | .arrDef => popRet s [] false
  | .arrIndef => popRet s [[sigBreak]] true
  | _ => ⟨s, [], .bad⟩

/-- `Encoder.Step` -/
def step (s : St) (t : Tok) : EncOut St :=
  match t.body with
  | .mapOpen len => stepOpen s t.tag len true
  | .arrOpen len => stepOpen s t.tag len false
  | .mapClose => stepMapClose s
  | .arrClose => stepArrClose s
  | .null => stepValueOnly s t
  | .bytes _ => stepValueOnly s t
  | .bool _ => stepValueOnly s t
  | .float _ => stepValueOnly s t
  | .str _ => stepKeyable s t
  | .int _ => stepKeyable s t
  | .uint _ => stepKeyable s t

end Refmt.CborEnc
