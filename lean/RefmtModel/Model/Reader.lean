/-
  The abstract byte source the decoders read from: a cursor into the remaining
  data with one byte of push-back, an end condition (EOF), and an optional
  injected fault (C16).  `shared/reader.go`'s SlickReaderStream over
  readerToScanner over an arbitrary `io.Reader` schedule is modelled separately
  (Model/SchedReader.lean) and proved to refine this cursor (C15).
-/
import RefmtModel.Tok
namespace Refmt

/-- Error classes (Go error texts are not compared, only classes). -/
inductive Err
  | eof | unexpectedEof | injected
  | syntax        -- malformed input (decoder-level)
  | range         -- number out of range
  | invalidStream -- token stream errors (encoders / unmarshaller)
  | cantFit | noSuchField | noSuchMember | dupKey | lenMismatch | outOfSpace | noTag | transform | bind | other
deriving DecidableEq, Repr, Inhabited

structure Rd where
  data : Bytes                      -- bytes not yet delivered
  fault : Option (Nat × Bool) := none  -- (bytes until an injected read error fires, fail-stop?)
  pb : Nat := 0                     -- 1 iff the head of `data` is a pushed-back byte (already taken from the source)
deriving DecidableEq, Repr

def Rd.ofBytes (bs : Bytes) : Rd := ⟨bs, none, 0⟩

/-- bytes still held by the underlying source (excludes the pushed-back byte) -/
def Rd.sourceLeft (r : Rd) : Nat := r.data.length - r.pb

/-- State after an injected fault fired: fail-once clears it, fail-stop keeps it. -/
def Rd.afterFault (r : Rd) : Rd :=
  match r.fault with
  | some (_, false) => { r with fault := none }
  | _ => r

/-- `Readn1` with the reader state after an error made explicit. -/
def Rd.read1 (r : Rd) : Except Err (Nat × Rd) × Rd :=
  match r.fault with
  | some (0, _) => (.error .injected, r.afterFault)
  | _ =>
    match r.data with
    | [] => (.error .eof, r)
    | b :: rest =>
      let r' : Rd := ⟨rest, r.fault.map fun (k, s) => (k - 1, s), 0⟩
      (.ok (b, r'), r')

/-- `Unreadn1` after a successful `read1` that returned `b`. -/
def Rd.unread1 (r : Rd) (b : Nat) : Rd :=
  ⟨b :: r.data, r.fault.map fun (k, s) => (k + 1, s), 1⟩

/-- `Readb`/`Readn`/`Readnzc` of `n > 0` bytes through `io.ReadAtLeast`:
    result and the reader afterwards. -/
def Rd.readN (r : Rd) (n : Nat) : Except Err Bytes × Rd :=
  if n = 0 then (.ok [], r) else
  let avail := match r.fault with
    | some (k, _) => min k r.data.length
    | none => r.data.length
  if n ≤ avail then
    (.ok (r.data.take n), ⟨r.data.drop n, r.fault.map fun (k, s) => (k - n, s), 0⟩)
  else
    match r.fault with
    | some (k, s) =>
      if k ≤ r.data.length then
        -- the fault fires after k bytes
        (.error .injected, (⟨r.data.drop k, some (0, s), 0⟩ : Rd).afterFault)
      else
        (.error (if r.data.isEmpty then .eof else .unexpectedEof), ⟨[], some (k - r.data.length, s), 0⟩)
    | none => (.error (if r.data.isEmpty then .eof else .unexpectedEof), ⟨[], none, 0⟩)

end Refmt
