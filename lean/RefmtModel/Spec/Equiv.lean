/-
  `norm`: the value a Marshal → Unmarshal round trip is specified to return, written
  directly on values and types (not on tokens).  It differs from the input only in
  what the wire formats cannot carry:
    * a non-nil pointer whose target serializes as null comes back as a nil pointer;
    * an empty value under `omitempty` (and a field without mapping, or behind a nil
      embedded pointer) comes back as the zero value;
    * JSON re-reads -0 as 0;
    * the concrete numeric Go type inside an untyped slot becomes int / uint64 / float64
      (JSON additionally re-types integral floats by their text);
    * an untyped slot holding something that serializes as null comes back empty.
-/
import RefmtModel.Model.Obj.Unmarshal
import RefmtModel.Model.JsonDec
import RefmtModel.Spec.Rec
namespace Refmt.Obj
open Refmt

/-- does the value serialize as a single `null` token? -/
def isNullSer (ts : Types) (a : Atlas) (trs : Trs) (id : Nat) (v : Val) : Bool :=
  match (marshalV ts a trs 1000 id v).toks with
  | [t] => (match t.body with | .null => true | _ => false)
  | _ => false

/-- does the value serialize as a single `null` token that carries no tag?  (A tagged null still names its
    registered type: an untyped slot reconstructs that type from it wherever tags survive, i.e. not in JSON.) -/
def isBareNullSer (fmt : Fmt) (ts : Types) (a : Atlas) (trs : Trs) (id : Nat) (v : Val) : Bool :=
  match (marshalV ts a trs 1000 id v).toks with
  | [t] => (match t.body with | .null => (t.tag.isNone || fmt == .json) | _ => false)
  | _ => false

/-- what an untyped slot holds after reading a number written from `bits` (a float) -/
def normFloatIface (fmt : Fmt) (it : IfaceTys) (bits : Nat) : Nat × Val :=
  match fmt with
  | .json =>
    (match JsonDec.numTok (FloatText.jsonFloat bits) with
     | .ok (.int i) => (it.int, .int i)
     | .ok (.uint n) => (it.uint64, .uint n)
     | .ok (.float b) => (it.f64, .float b)
     | _ => (it.f64, .float bits))
  | _ => (it.f64, .float bits)

def normFloat (fmt : Fmt) (bits : Nat) : Nat :=
  match fmt with
  | .json => if bits == 9223372036854775808 then 0 else bits
  | _ => bits

/-- a value of static type `e` as the content of an untyped slot (already boxed if `e` is an interface type) -/
def boxAs (ts : Types) (e : Nat) (x : Val) : Val :=
  match ts.get e with
  | .iface _ => x
  | _ => .iface (some (e, x))

mutual
  def normV (fmt : Fmt) (ts : Types) (a : Atlas) (trs : Trs) (it : IfaceTys) : Nat → Nat → Val → Val
    | 0, _, v => v
    | fuel+1, id, v =>
      let (n, base) := peel ts 64 0 id
      if n == 0 then normBare fmt ts a trs it fuel base (pickBare ts a base) v
      else
        match derefN n v with
        | none => .ptr none
        | some inner =>
          if isNullSer ts a trs base inner then .ptr none
          else wrapPtr n (normBare fmt ts a trs it fuel base (pickBare ts a base) inner)
  def normBare (fmt : Fmt) (ts : Types) (a : Atlas) (trs : Trs) (it : IfaceTys) : Nat → Nat → Mach → Val → Val
    | 0, _, _, v => v
    | fuel+1, id, m, v =>
      match m with
      | .prim => (match v with | .float b => .float (normFloat fmt b) | x => x)
      | .slice e => (match v with | .slice (some vs) => .slice (some (vs.map (normV fmt ts a trs it fuel e))) | x => x)
      | .array e => (match v with | .arr vs => .arr (vs.map (normV fmt ts a trs it fuel e)) | x => x)
      | .map _ vt _ =>
        (match v with
         | .map (some es) => .map (some (es.map fun (k, x) => (k, normV fmt ts a trs it fuel vt x)))
         | x => x)
      | .wildcard =>
        (match v with
         | .iface (some (dt, dv)) =>
           if isBareNullSer fmt ts a trs dt dv then .iface none else
           let (_, dbase) := peel ts 64 0 dt
           (match pickBare ts a dbase, derefN (peel ts 64 0 dt).1 dv with
            | .prim, some pv =>
              (match pv with
               | .bool b => .iface (some (it.bool, .bool b))
               | .int i => .iface (some (it.int, .int i))
               | .uint u => if u < two63 then .iface (some (it.int, .int u)) else .iface (some (it.uint64, .uint u))
               | .float b => .iface (some (normFloatIface fmt it b))
               | .str s => .iface (some (it.str, .str s))
               | .bytes (some b) => .iface (some (it.bytes, .bytes (some b)))
               | .byteArr b => .iface (some (it.bytes, .bytes (some b)))
               | x => .iface (some (dt, x)))
            | .slice e, some (.slice (some vs)) =>
              .iface (some (it.sliceI, .slice (some (vs.map fun x => normV fmt ts a trs it fuel it.iface (boxAs ts e x)))))
            | .array e, some (.arr vs) =>
              .iface (some (it.sliceI, .slice (some (vs.map fun x => normV fmt ts a trs it fuel it.iface (boxAs ts e x)))))
            | .map _ vt _, some (.map (some es)) =>
              .iface (some (it.mapSI, .map (some (es.map fun (k, x) => (k, normV fmt ts a trs it fuel it.iface (boxAs ts vt x))))))
            | _, some pv =>
              -- tagged registered types are reconstructed as themselves (CBOR); everything else is outside the property's domain
              .iface (some (dbase, normBare fmt ts a trs it fuel dbase (pickBare ts a dbase) pv))
            | _, none => .iface none)
         | x => x)
      | .structMap _ fields =>
        let z := zeroVal ts 64 id
        fields.foldl (fun acc f =>
          if f.ignore then acc else
          match traverse f.route v with
          | none => acc
          | some fv =>
            if f.omitEmpty && isEmpty 1000 fv then acc
            else (setRoute ts 64 id f.route acc (fun _ => normV fmt ts a trs it fuel f.ty fv)).getD acc) z
      | .transform _ fn mty =>
        (match trs.m fn v with
         | some tv => (trs.u fn (normV fmt ts a trs it fuel mty tv)).getD v
         | none => v)
      | .union _ members =>
        (match v with
         | .iface (some (dt, dv)) =>
           (match members.find? fun (_, idx) => (a.pool[idx]?.map (·.ty)) == some dt with
            | some (_, idx) =>
              (match a.pool[idx]? with
               | some me => .iface (some (dt, normBare fmt ts a trs it fuel dt (machForEntry ts me) dv))
               | none => v)
            | none => v)
         | x => x)
      | _ => v
end

end Refmt.Obj
