/-
  RFC 8259 as a specification: a recursive-descent reference reader for ONE JSON
  value at the front of a byte string (the decoders are streaming one-item
  readers), plus refmt's single deliberate leniency: a comma directly before a
  closing bracket or brace.  Number literals end by maximal munch of the RFC
  number grammar; the bytes after the item belong to the next item.
  Token typing of numbers (`numTok`): integer syntax within int64 -> int, within
  uint64 -> uint, beyond -> range error; anything else -> float64 (overflow -> error).
-/
import RefmtModel.Model.JsonDec
namespace Refmt.Spec.Json
open Refmt Refmt.JsonDec

def skip : Bytes → Bytes
  | [] => []
  | b :: r => if isWs b then skip r else b :: r

/-- raw content of a string literal whose opening quote has been consumed, and the rest -/
def lexString : Nat → SS → Bytes → Bytes → Option (Bytes × Bytes)
  | 0, _, _, _ => none
  | _, _, [], _ => none
  | fuel+1, st, b :: r, acc =>
    match strStep st b with
    | .error _ => none
    | .ok none => some (acc.reverse, r)
    | .ok (some st') => lexString fuel st' r (b :: acc)

/-- maximal munch of the number grammar starting in state `st` (first byte already in `acc`) -/
def lexNumber : Nat → NS → Bytes → Bytes → Option (Bytes × Bytes)
  | 0, _, _, _ => none
  | _, st, [], acc => (match numStep st 32 with | .error _ => none | .ok _ => some (acc.reverse, []))
  | fuel+1, st, b :: r, acc =>
    match numStep st b with
    | .error _ => none
    | .ok none => some (acc.reverse, b :: r)
    | .ok (some st') => lexNumber fuel st' r (b :: acc)

def startsWith (p : Bytes) (bs : Bytes) : Bool := bs.take p.length == p

mutual
  def parseValue : Nat → Bytes → Option (TV × Bytes)
    | 0, _ => none
    | fuel+1, bs =>
      match skip bs with
      | [] => none
      | b :: r =>
        if b == 123 then (parseMembers fuel r false).map fun (es, r') => (.map none (-1) es, r')
        else if b == 91 then (parseElements fuel r false).map fun (vs, r') => (.arr none (-1) vs, r')
        else if b == 34 then
          (lexString (r.length + 1) .normal r []).map fun (raw, r') =>
            (.scalar ⟨.str ((parseString (raw.length + 1) raw).getD []), none⟩, r')
        else if b == 110 then (if startsWith [117, 108, 108] r then some (.scalar ⟨.null, none⟩, r.drop 3) else none)
        else if b == 116 then (if startsWith [114, 117, 101] r then some (.scalar ⟨.bool true, none⟩, r.drop 3) else none)
        else if b == 102 then (if startsWith [97, 108, 115, 101] r then some (.scalar ⟨.bool false, none⟩, r.drop 4) else none)
        else if b == 45 || isDigit b then
          let st : NS := if b == 45 then .neg else if b == 48 then .s0 else .s1
          match lexNumber (r.length + 2) st r [b] with
          | none => none
          | some (text, r') => (match numTok text with | .ok body => some (.scalar ⟨body, none⟩, r') | .error _ => none)
        else none
  /-- elements of an array after `[`; `some` = at least one element has been read -/
  def parseElements : Nat → Bytes → Bool → Option (List TV × Bytes)
    | 0, _, _ => none
    | fuel+1, bs, sm =>
      match skip bs with
      | [] => none
      | b :: r =>
        if b == 93 then some ([], r)
        else if sm then
          if b == 44 then
            match skip r with
            | 93 :: r' => some ([], r')               -- the leniency: `,]`
            | r1 => match parseValue fuel r1 with
              | none => none
              | some (v, r2) => (parseElements fuel r2 true).map fun (vs, r3) => (v :: vs, r3)
          else none
        else
          match parseValue fuel (b :: r) with
          | none => none
          | some (v, r2) => (parseElements fuel r2 true).map fun (vs, r3) => (v :: vs, r3)
  def parseMembers : Nat → Bytes → Bool → Option (List (TV × TV) × Bytes)
    | 0, _, _ => none
    | fuel+1, bs, sm =>
      match skip bs with
      | [] => none
      | b :: r =>
        if b == 125 then some ([], r)
        else
          let keyStart : Option Bytes :=
            if sm then (if b == 44 then some (skip r) else none) else some (b :: r)
          match keyStart with
          | none => none
          | some ks =>
            match ks with
            | 125 :: r' => if sm then some ([], r') else none     -- `,}`
            | 34 :: r1 =>
              match lexString (r1.length + 1) .normal r1 [] with
              | none => none
              | some (raw, r2) =>
                match skip r2 with
                | 58 :: r3 =>
                  match parseValue fuel r3 with
                  | none => none
                  | some (v, r4) =>
                    (parseMembers fuel r4 true).map fun (es, r5) =>
                      ((.scalar ⟨.str ((parseString (raw.length + 1) raw).getD []), none⟩, v) :: es, r5)
                | _ => none
            | _ => none
end

def parse (bs : Bytes) : Option (TV × Bytes) := parseValue (2 * bs.length + 2) bs

end Refmt.Spec.Json

namespace Refmt.Spec.Json
open Refmt Refmt.JsonDec

/-- What a JSON round trip is allowed to change in a token ("up to JSON's number typing"):
    lengths become unknown, tags vanish, numbers are re-typed by their text, invalid UTF-8
    becomes U+FFFD.  A float whose text the decoder cannot type is expected back unchanged. -/
def retypeTok (t : Tok) : Tok :=
  ⟨match t.body with
   | .uint n => if n < two63 then .int n else .uint n
   | .float b => (match numTok (FloatText.jsonFloat b) with | .ok b' => b' | .error _ => .float b)
   | .mapOpen _ => .mapOpen (-1)
   | .arrOpen _ => .arrOpen (-1)
   | .str s => .str (toValidUtf8 s)
   | b => b, none⟩

/-- Remove JSON-insignificant whitespace (outside string literals). -/
def stripWs : Bytes → Bool → Bool → Bytes
  | [], _, _ => []
  | b :: r, inStr, esc =>
    if inStr then
      b :: (if esc then stripWs r true false
            else if b == 92 then stripWs r true true
            else if b == 34 then stripWs r false false
            else stripWs r true false)
    else if b == 34 then b :: stripWs r true false
    else if isWs b then stripWs r false false
    else b :: stripWs r false false

end Refmt.Spec.Json
