/-
  The generic pushdown recogniser for "one well-formed value of format `fmt`".
  This is the *specification* that the three hand-written encoder automata are
  proved to simulate (C14), and that marshaller / decoder outputs are proved to
  satisfy (C07, C04, C05).  Lengths are treated as style here (>= 0 definite,
  < 0 indefinite); declared-count accuracy is a separate predicate.
-/
import RefmtModel.Tok
import RefmtModel.Model.Common
namespace Refmt

inductive Fmt | cbor | json | pretty
deriving DecidableEq, Repr

inductive Frame | arr | mapKey | mapVal
deriving DecidableEq, Repr

/-- f64 bit pattern is NaN or +-Inf (exponent all ones). -/
def floatNonFinite (bits : Nat) : Bool := (bits / 4503599627370496) % 2048 == 2047

/-- Which tokens may be a map key in each format. -/
def keyOk : Fmt → Body → Bool
  | .json, .str _ => true
  | .json, _ => false
  | _, .str _ => true
  | _, .int _ => true
  | _, .uint _ => true
  | _, _ => false

/-- Which scalar tokens the format can represent as a value. -/
def valOk : Fmt → Body → Bool
  | .json, .bytes _ => false
  | .json, .float b => !floatNonFinite b
  | _, _ => true

inductive RecOut
  | cont (stk : List Frame)
  | done
  | reject
deriving DecidableEq, Repr

/-- State after one complete value has been consumed in context `stk`. -/
def afterValue : List Frame → RecOut
  | [] => .done
  | .arr :: r => .cont (.arr :: r)
  | .mapVal :: r => .cont (.mapKey :: r)
  | .mapKey :: _ => .reject

/-- A token in value position (top of stack is not `mapKey`). -/
def recValue (fmt : Fmt) (stk : List Frame) : Body → RecOut
  | .mapOpen _ => .cont (.mapKey :: stk)
  | .arrOpen _ => .cont (.arr :: stk)
  | .arrClose => match stk with
      | .arr :: r => afterValue r
      | _ => .reject
  | .mapClose => .reject
  | b => if valOk fmt b then afterValue stk else .reject

/-- A token in key position. -/
def recKey (fmt : Fmt) (r : List Frame) : Body → RecOut
  | .mapClose => afterValue r
  | b => if keyOk fmt b then .cont (.mapVal :: r) else .reject

def recStep (fmt : Fmt) (stk : List Frame) (b : Body) : RecOut :=
  match stk with
  | .mapKey :: r => recKey fmt r b
  | _ => recValue fmt stk b

/-- Run the recogniser over a token list; `none` = still expecting more. -/
def recRun (fmt : Fmt) : List Frame → List Body → RecOut
  | stk, [] => .cont stk
  | stk, b :: bs => match recStep fmt stk b with
      | .cont stk' => recRun fmt stk' bs
      | .done => match bs with
          | [] => .done
          | _ => .reject   -- tokens after the value is complete
      | .reject => .reject

/-- The token list is exactly one well-formed value. -/
def WF (fmt : Fmt) (ts : List Body) : Prop := recRun fmt [] ts = .done

end Refmt

namespace Refmt

/-- The recogniser's flags for a token list, in the same format as `runFlags`. -/
def recFlags (fmt : Fmt) : List Frame → List Tok → List Flag
  | _, [] => []
  | stk, t :: ts =>
    match recStep fmt stk t.body with
    | .cont stk' => .cont :: recFlags fmt stk' ts
    | .done => [.done]
    | .reject => [.err]

end Refmt
