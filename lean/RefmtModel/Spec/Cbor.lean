/-
  RFC 7049 as a specification, restricted to refmt's supported subset (written
  down here, not hidden in the model):
    * `head`/`enc`  : the shortest-form encoder of token trees (C02);
    * `parse`       : a recursive-descent reference decoder (C04) accepting every
                      legal spelling: non-shortest heads, chunked strings, half /
                      single / double floats, definite and indefinite containers,
                      at most one tag per item, tag and lengths <= maxInt,
                      integers in [-2^63, 2^64-1], string chunks <= 32 MiB,
                      simple values false/true/null (undefined -> null iff the
                      option is set), any item as a map key.
-/
import RefmtModel.Base.Bytes
import RefmtModel.Base.Float
import RefmtModel.Model.Reader
namespace Refmt.Spec.Cbor
open Refmt

/-- Shortest-form head for major-type base `major` (0x00, 0x20, …, 0xc0) and argument `n < 2^64`. -/
def head (major n : Nat) : Bytes :=
  if n < 24 then [major + n]
  else if n < 256 then [major + 24, n]
  else if n < 65536 then (major + 25) :: beBytes 2 n
  else if n < 4294967296 then (major + 26) :: beBytes 4 n
  else (major + 27) :: beBytes 8 n

def tagBytes : Option Int → Bytes
  | none => []
  | some t => head 0xc0 (toU64 t)

/-- Encoding of a scalar token body. -/
def encBody : Body → Bytes
  | .null => [0xf6]
  | .bool false => [0xf4]
  | .bool true => [0xf5]
  | .uint n => head 0x00 n
  | .int i => if i ≥ 0 then head 0x00 i.toNat else head 0x20 (-1 - i).toNat
  | .bytes b => head 0x40 b.length ++ b
  | .str s => head 0x60 s.length ++ s
  | .float bits => 0xfb :: beBytes 8 bits
  | _ => []

mutual
  /-- The RFC 7049 encoding the token tree denotes: definite containers carry their
      declared length, indefinite ones end in a break, a tag head precedes its item. -/
  def enc : TV → Bytes
    | .scalar t => tagBytes t.tag ++ encBody t.body
    | .arr tag len items =>
      if len ≥ 0 then tagBytes tag ++ head 0x80 len.toNat ++ encList items
      else tagBytes tag ++ [0x9f] ++ encList items ++ [0xff]
    | .map tag len entries =>
      if len ≥ 0 then tagBytes tag ++ head 0xa0 len.toNat ++ encEntries entries
      else tagBytes tag ++ [0xbf] ++ encEntries entries ++ [0xff]
  def encList : List TV → Bytes
    | [] => []
    | v :: vs => enc v ++ encList vs
  def encEntries : List (TV × TV) → Bytes
    | [] => []
    | (k, v) :: es => enc k ++ enc v ++ encEntries es
end

/-! ### Reference decoder -/

def maxInt : Nat := 9223372036854775807
def cap32M : Nat := 33554432

/-- Argument of a head byte with additional info `ai`, and the rest. -/
def arg (ai : Nat) (bs : Bytes) : Option (Nat × Bytes) :=
  if ai < 24 then some (ai, bs)
  else if ai == 24 then (match bs with | b :: r => some (b, r) | _ => none)
  else if ai == 25 then (if bs.length ≥ 2 then some (beVal (bs.take 2), bs.drop 2) else none)
  else if ai == 26 then (if bs.length ≥ 4 then some (beVal (bs.take 4), bs.drop 4) else none)
  else if ai == 27 then (if bs.length ≥ 8 then some (beVal (bs.take 8), bs.drop 8) else none)
  else none

/-- Half-precision bits to double bits, by the definition of IEEE 754 binary16. -/
def halfToF64 (h : Nat) : Nat :=
  let s := (h / 32768) % 2
  let e := (h / 1024) % 32
  let m := h % 1024
  if e == 31 then
    if m == 0 then s * pow2_63 + 0x7ff * pow2_52
    else s * pow2_63 + 0x7ff * pow2_52 + 2251799813685248 + (m * 4398046511104) % 2251799813685248
  else if e == 0 then
    if m == 0 then s * pow2_63
    else
      let k := Nat.log2 m            -- value = m * 2^-24 = 2^(k-24) * (m / 2^k)
      s * pow2_63 + (k + 999) * pow2_52 + (m - 2 ^ k) * 2 ^ (52 - k)
  else s * pow2_63 + (e + 1008) * pow2_52 + m * 4398046511104

/-- Chunks of an indefinite-length string: definite strings of the same major type until a break. -/
def chunks (major : Nat) : Nat → Bytes → Bytes → Option (Bytes × Bytes)
  | 0, _, _ => none
  | fuel+1, bs, acc =>
    match bs with
    | [] => none
    | b :: r =>
      if b == 0xff then some (acc, r)
      else if b / 32 * 32 != major then none
      else match arg (b % 32) r with
        | none => none
        | some (n, r') =>
          if n > maxInt || n > cap32M || r'.length < n then none
          else chunks major fuel (r'.drop n) (acc ++ r'.take n)

mutual
  /-- One data item (`tagged` = a tag has already been read for this item). -/
  def parseItem (coerce : Bool) : Nat → Bytes → Option Int → Option (TV × Bytes)
    | 0, _, _ => none
    | fuel+1, bs, tag =>
      match bs with
      | [] => none
      | b :: r =>
        let mt := b / 32
        let ai := b % 32
        if mt == 7 then
          if b == 0xf4 then some (.scalar ⟨.bool false, tag⟩, r)
          else if b == 0xf5 then some (.scalar ⟨.bool true, tag⟩, r)
          else if b == 0xf6 then some (.scalar ⟨.null, tag⟩, r)
          else if b == 0xf7 then (if coerce then some (.scalar ⟨.null, tag⟩, r) else none)
          else if b == 0xf9 then (if r.length ≥ 2 then some (.scalar ⟨.float (halfToF64 (beVal (r.take 2))), tag⟩, r.drop 2) else none)
          else if b == 0xfa then (if r.length ≥ 4 then some (.scalar ⟨.float (f32to64 (beVal (r.take 4))), tag⟩, r.drop 4) else none)
          else if b == 0xfb then (if r.length ≥ 8 then some (.scalar ⟨.float (beVal (r.take 8)), tag⟩, r.drop 8) else none)
          else none
        else if ai == 31 then
          -- indefinite length
          if mt == 2 then (chunks 0x40 (r.length + 1) r []).map fun (s, r') => (.scalar ⟨.bytes s, tag⟩, r')
          else if mt == 3 then (chunks 0x60 (r.length + 1) r []).map fun (s, r') => (.scalar ⟨.str s, tag⟩, r')
          else if mt == 4 then (parseUntilBreak coerce fuel r).map fun (vs, r') => (.arr tag (-1) vs, r')
          else if mt == 5 then (parseEntriesUntilBreak coerce fuel r).map fun (es, r') => (.map tag (-1) es, r')
          else none
        else
          match arg ai r with
          | none => none
          | some (n, r') =>
            if mt == 0 then some (.scalar ⟨.uint n, tag⟩, r')
            else if mt == 1 then (if n < two63 then some (.scalar ⟨.int (-1 - (n : Int)), tag⟩, r') else none)
            else if mt == 2 then
              (if n > maxInt || n > cap32M || r'.length < n then none else some (.scalar ⟨.bytes (r'.take n), tag⟩, r'.drop n))
            else if mt == 3 then
              (if n > maxInt || n > cap32M || r'.length < n then none else some (.scalar ⟨.str (r'.take n), tag⟩, r'.drop n))
            else if mt == 4 then
              (if n > maxInt then none else (parseN coerce fuel n r').map fun (vs, r'') => (.arr tag n vs, r''))
            else if mt == 5 then
              (if n > maxInt then none else (parseEntriesN coerce fuel n r').map fun (es, r'') => (.map tag n es, r''))
            else -- mt == 6: tag
              match tag with
              | some _ => none
              | none => if n > maxInt then none else parseItem coerce fuel r' (some (n : Int))
  def parseN (coerce : Bool) : Nat → Nat → Bytes → Option (List TV × Bytes)
    | 0, _, _ => none
    | _, 0, bs => some ([], bs)
    | fuel+1, k+1, bs =>
      match parseItem coerce fuel bs none with
      | none => none
      | some (v, r) => (parseN coerce fuel k r).map fun (vs, r') => (v :: vs, r')
  def parseEntriesN (coerce : Bool) : Nat → Nat → Bytes → Option (List (TV × TV) × Bytes)
    | 0, _, _ => none
    | _, 0, bs => some ([], bs)
    | fuel+1, k+1, bs =>
      match parseItem coerce fuel bs none with
      | none => none
      | some (key, r) =>
        match parseItem coerce fuel r none with
        | none => none
        | some (v, r') => (parseEntriesN coerce fuel k r').map fun (es, r'') => ((key, v) :: es, r'')
  def parseUntilBreak (coerce : Bool) : Nat → Bytes → Option (List TV × Bytes)
    | 0, _ => none
    | fuel+1, bs =>
      match bs with
      | 0xff :: r => some ([], r)
      | _ =>
        match parseItem coerce fuel bs none with
        | none => none
        | some (v, r) => (parseUntilBreak coerce fuel r).map fun (vs, r') => (v :: vs, r')
  def parseEntriesUntilBreak (coerce : Bool) : Nat → Bytes → Option (List (TV × TV) × Bytes)
    | 0, _ => none
    | fuel+1, bs =>
      match bs with
      | 0xff :: r => some ([], r)
      | _ =>
        match parseItem coerce fuel bs none with
        | none => none
        | some (key, r) =>
          match parseItem coerce fuel r none with
          | none => none
          | some (v, r') => (parseEntriesUntilBreak coerce fuel r').map fun (es, r'') => ((key, v) :: es, r'')
end

/-- Decode one item from the front of `bs`. -/
def parse (coerce : Bool) (bs : Bytes) : Option (TV × Bytes) := parseItem coerce (2 * bs.length + 2) bs none

end Refmt.Spec.Cbor
