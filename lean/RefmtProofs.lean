import RefmtModel
