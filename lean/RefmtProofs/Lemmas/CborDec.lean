/-
  Decoder-machine lemmas for C02: reader facts without faults, heads decode back through
  `decUint`, the dispatch of `acceptValue` on the first byte, and `run` over a prefix.
-/
import RefmtProofs.Lemmas.Heads
set_option linter.unusedSimpArgs false
set_option linter.unusedVariables false
namespace Refmt.C02L
open Refmt Refmt.CborDec
open Refmt.CborEnc (sigNil sigUndef sigFalse sigTrue sigF16 sigF32 sigF64 sigIndefBytes sigIndefStr sigIndefArr sigIndefMap majNeg majBytes majStr majArr majMap majTag sigBreak majUint)

/-! ### Reader without faults -/

@[simp] theorem ofBytes_data (bs : Bytes) : (Rd.ofBytes bs).data = bs := rfl

@[simp] theorem read1_cons (b : Nat) (r : Bytes) :
    Rd.read1 (Rd.ofBytes (b :: r)) = (.ok (b, (Rd.ofBytes (r))), (Rd.ofBytes (r))) := by
  simp [Rd.read1, Rd.ofBytes]

theorem readN_append (bs rest : Bytes) (k : Nat) (h : bs.length = k) :
    Rd.readN (Rd.ofBytes (bs ++ rest)) k = (.ok bs, (Rd.ofBytes (rest))) := by
  subst h
  unfold Rd.readN
  by_cases h0 : bs.length = 0
  · have : bs = [] := List.eq_nil_of_length_eq_zero h0
    subst this; simp [Rd.ofBytes]
  · simp [h0, Rd.ofBytes]

/-! ### Heads decode back -/

theorem head_ne_nil (m n : Nat) : ∃ b tl, Spec.Cbor.head m n = b :: tl ∧ m ≤ b ∧ b < m + 28 := by
  unfold Spec.Cbor.head
  repeat' split
  all_goals first
    | exact ⟨_, _, rfl, by omega, by omega⟩

theorem decUint_head (m n : Nat) (hm : m % 32 = 0) (hn : n < two64) :
    ∃ b tl, Spec.Cbor.head m n = b :: tl ∧ m ≤ b ∧ b < m + 28 ∧
      ∀ rest, decUint (Rd.ofBytes (tl ++ rest)) b = ⟨.ok n, (Rd.ofBytes (rest)), 0⟩ := by
  unfold two64 at hn
  unfold Spec.Cbor.head
  by_cases h1 : n < 24
  · refine ⟨m + n, [], by simp [h1], by omega, by omega, ?_⟩
    intro rest
    have e : (m + n) % 32 = n := by omega
    have : n ≤ 23 := by omega
    simp [decUint, e, this]
  by_cases h2 : n < 256
  · refine ⟨m + 24, [n], by simp [h1, h2], by omega, by omega, ?_⟩
    intro rest
    have e : (m + 24) % 32 = 24 := by omega
    simp [decUint, e]
  by_cases h3 : n < 65536
  · refine ⟨m + 25, beBytes 2 n, by simp [h1, h2, h3], by omega, by omega, ?_⟩
    intro rest
    have e : (m + 25) % 32 = 25 := by omega
    have hv : beVal (beBytes 2 n) = n := by rw [beVal_beBytes]; exact Nat.mod_eq_of_lt (by omega)
    simp [decUint, e, readN_append _ rest 2 (beBytes_length 2 n), hv]
  by_cases h4 : n < 4294967296
  · refine ⟨m + 26, beBytes 4 n, by simp [h1, h2, h3, h4], by omega, by omega, ?_⟩
    intro rest
    have e : (m + 26) % 32 = 26 := by omega
    have hv : beVal (beBytes 4 n) = n := by rw [beVal_beBytes]; exact Nat.mod_eq_of_lt (by omega)
    simp [decUint, e, readN_append _ rest 4 (beBytes_length 4 n), hv]
  · refine ⟨m + 27, beBytes 8 n, by simp [h1, h2, h3, h4], by omega, by omega, ?_⟩
    intro rest
    have e : (m + 27) % 32 = 27 := by omega
    have hv : beVal (beBytes 8 n) = n := by rw [beVal_beBytes]; exact Nat.mod_eq_of_lt (by omega)
    simp [decUint, e, readN_append _ rest 8 (beBytes_length 8 n), hv]

theorem decLen_of_decUint {rd rd' : Rd} {b n : Nat} (h : decUint rd b = ⟨.ok n, rd', 0⟩) (hn : n ≤ maxInt) :
    decLen rd b = ⟨.ok n, rd', 0⟩ := by
  have : ¬ n > maxInt := by omega
  simp [decLen, h, this]

theorem decNegInt_of_decUint {rd rd' : Rd} {b n : Nat} (h : decUint rd b = ⟨.ok n, rd', 0⟩) (hn : n ≤ maxInt) :
    decNegInt rd b = ⟨.ok (-1 - (n : Int)), rd', 0⟩ := by
  have : ¬ n > maxInt := by omega
  simp [decNegInt, h, this]

/-! ### Dispatch of `acceptValue` on the first byte -/

macro "av_dispatch" : tactic => `(tactic|
  (unfold acceptValue
   simp (disch := omega) only [sigNil, sigUndef, sigFalse, sigTrue, sigF16, sigF32, sigF64, sigIndefBytes,
     sigIndefStr, sigIndefArr, sigIndefMap, majNeg, majBytes, majStr, majArr, majMap, majTag, beq_iff_eq,
     Bool.or_eq_true, if_neg, if_pos]))

macro "av_skip" : tactic => `(tactic|
  rw [if_neg (by
    (try simp only [sigNil, sigUndef, sigFalse, sigTrue, sigF16, sigF32, sigF64, sigIndefBytes,
     sigIndefStr, sigIndefArr, sigIndefMap, majNeg, majBytes, majStr, majArr, majMap, majTag, beq_iff_eq,
     Bool.or_eq_true])
    omega)])

theorem av_uint (coerce : Bool) (s : St) (rd : Rd) (hd : Nat) (tag : Option Int) (fuel : Nat) (h : hd < 0x20) :
    acceptValue coerce s rd hd tag fuel = scalarOut s (decUint rd hd) Body.uint tag := by
  av_dispatch

theorem av_neg (coerce : Bool) (s : St) (rd : Rd) (hd : Nat) (tag : Option Int) (fuel : Nat)
    (h : 0x20 ≤ hd) (h' : hd < 0x40) :
    acceptValue coerce s rd hd tag fuel = scalarOut s (decNegInt rd hd) Body.int tag := by
  av_dispatch

theorem av_bytes (coerce : Bool) (s : St) (rd : Rd) (hd : Nat) (tag : Option Int) (fuel : Nat)
    (h : 0x40 ≤ hd) (h' : hd < 0x5f) :
    acceptValue coerce s rd hd tag fuel = scalarOut s (decBytes rd hd) Body.bytes tag := by
  av_dispatch

theorem av_str (coerce : Bool) (s : St) (rd : Rd) (hd : Nat) (tag : Option Int) (fuel : Nat)
    (h : 0x60 ≤ hd) (h' : hd < 0x7f) :
    acceptValue coerce s rd hd tag fuel = scalarOut s (decString rd hd) Body.str tag := by
  av_dispatch

theorem av_arr (coerce : Bool) (s : St) (rd rd' : Rd) (hd n : Nat) (tag : Option Int) (fuel : Nat)
    (h : 0x80 ≤ hd) (h' : hd < 0x9f) (hl : decLen rd hd = ⟨.ok n, rd', 0⟩) :
    acceptValue coerce s rd hd tag fuel =
      ⟨push { s with left := n :: s.left } .arrDef, rd', .tok ⟨.arrOpen n, tag⟩ false, 0⟩ := by
  av_dispatch
  simp [hl]

theorem av_map (coerce : Bool) (s : St) (rd rd' : Rd) (hd n : Nat) (tag : Option Int) (fuel : Nat)
    (h : 0xa0 ≤ hd) (h' : hd < 0xbf) (hl : decLen rd hd = ⟨.ok n, rd', 0⟩) :
    acceptValue coerce s rd hd tag fuel =
      ⟨push { s with left := n :: s.left } .mapDefKey, rd', .tok ⟨.mapOpen n, tag⟩ false, 0⟩ := by
  av_dispatch
  simp [hl]

theorem av_tag (coerce : Bool) (s : St) (rd : Rd) (hd t mb : Nat) (r : Bytes) (fuel : Nat)
    (h : 0xc0 ≤ hd) (h' : hd < 0xe0) (hl : decLen rd hd = ⟨.ok t, (Rd.ofBytes (mb :: r)), 0⟩) :
    acceptValue coerce s rd hd none (fuel + 1) = acceptValue coerce s (Rd.ofBytes (r)) mb (some (t : Int)) fuel := by
  conv => lhs; rw [acceptValue]
  iterate 15 av_skip
  rw [if_pos (by omega)]
  simp only [hl, read1_cons]

/-! ### What `acceptValue` does on the encoding of one token -/

/-- `bs` is the (untagged) encoding of an item head that `acceptValue` turns into the token body `body`,
    moving the decoder state by `f`; the first byte is neither a break nor a tag. -/
def AV (bs : Bytes) (f : St → St) (body : Body) (done : Bool) : Prop :=
  ∃ hd tl, bs = hd :: tl ∧ hd ≠ 0xff ∧ (hd < 0xc0 ∨ 0xe0 ≤ hd) ∧
    ∀ (coerce : Bool) (s : St) (rest : Bytes) (tag : Option Int) (fuel : Nat),
      ∃ a, acceptValue coerce s (Rd.ofBytes (tl ++ rest)) hd tag fuel = ⟨f s, (Rd.ofBytes (rest)), .tok ⟨body, tag⟩ done, a⟩

/-- Same, for a complete (possibly tagged) item head as the sub-steps call it. -/
def AVT (bs : Bytes) (f : St → St) (t : Tok) (done : Bool) : Prop :=
  ∃ hd tl, bs = hd :: tl ∧ hd ≠ 0xff ∧
    ∀ (coerce : Bool) (s : St) (rest : Bytes),
      ∃ a, acceptValue coerce s (Rd.ofBytes (tl ++ rest)) hd none 1 = ⟨f s, (Rd.ofBytes (rest)), .tok t done, a⟩

theorem AV.tagged {bs : Bytes} {f : St → St} {body : Body} {done : Bool} (h : AV bs f body done)
    (tag : Option Int) (ht : ∀ g, tag = some g → 0 ≤ g ∧ g < (two63 : Int)) :
    AVT (Spec.Cbor.tagBytes tag ++ bs) f ⟨body, tag⟩ done := by
  obtain ⟨hd, tl, rfl, hne, hnt, hav⟩ := h
  cases tag with
  | none =>
    exact ⟨hd, tl, by simp [Spec.Cbor.tagBytes], hne, fun c s rest => hav c s rest none 1⟩
  | some g =>
    obtain ⟨g0, g1⟩ := ht g rfl
    have hu : toU64 g = g.toNat := by
      unfold toU64; rw [Int.emod_eq_of_lt g0 (by unfold two64; unfold two63 at g1; omega)]
    have hlt : g.toNat < two64 := by unfold two64; unfold two63 at g1; omega
    obtain ⟨b, tl', hb, hb1, hb2, hdec⟩ := decUint_head 0xc0 g.toNat (by decide) hlt
    refine ⟨b, tl' ++ hd :: tl, by simp [Spec.Cbor.tagBytes, hu, hb], by omega, ?_⟩
    intro c s rest
    obtain ⟨a, ha⟩ := hav c s rest (some g) 0
    refine ⟨a, ?_⟩
    have hl := decLen_of_decUint (hdec (hd :: tl ++ rest)) (by unfold maxInt; unfold two63 at g1; omega)
    have := av_tag c s (Rd.ofBytes (tl' ++ (hd :: tl ++ rest))) b g.toNat hd (tl ++ rest) 0 hb1 (by omega)
      (by simpa using hl)
    simp only [List.append_assoc, List.cons_append] at this ⊢
    rw [this, Int.toNat_of_nonneg g0]
    exact ha

/-- What comes back for a token body: non-negative signed integers come back unsigned,
    every indefinite length comes back as `-1`. -/
def canonBody : Body → Body
  | .int i => if i ≥ 0 then .uint i.toNat else .int i
  | .arrOpen l => if l < 0 then .arrOpen (-1) else .arrOpen l
  | .mapOpen l => if l < 0 then .mapOpen (-1) else .mapOpen l
  | b => b

theorem AV_uint (n : Nat) (hn : n < two64) : AV (Spec.Cbor.head 0x00 n) id (.uint n) true := by
  obtain ⟨b, tl, hb, h1, h2, hdec⟩ := decUint_head 0 n (by decide) hn
  refine ⟨b, tl, hb, by omega, Or.inl (by omega), fun c s rest tag fuel => ⟨0, ?_⟩⟩
  rw [av_uint _ _ _ _ _ _ (by omega)]
  simp [scalarOut, hdec rest]

theorem AV_neg (n : Nat) (hn : n ≤ maxInt) : AV (Spec.Cbor.head 0x20 n) id (.int (-1 - (n : Int))) true := by
  obtain ⟨b, tl, hb, h1, h2, hdec⟩ := decUint_head 0x20 n (by decide) (by unfold maxInt at hn; unfold two64; omega)
  refine ⟨b, tl, hb, by omega, Or.inl (by omega), fun c s rest tag fuel => ⟨0, ?_⟩⟩
  rw [av_neg _ _ _ _ _ _ (by omega) (by omega)]
  simp [scalarOut, decNegInt_of_decUint (hdec rest) hn]

theorem AV_bytes (bs : Bytes) (hn : bs.length ≤ cap32M) :
    AV (Spec.Cbor.head 0x40 bs.length ++ bs) id (.bytes bs) true := by
  have hm : bs.length ≤ maxInt := by unfold cap32M at hn; unfold maxInt; omega
  obtain ⟨b, tl, hb, h1, h2, hdec⟩ := decUint_head 0x40 bs.length (by decide) (by unfold maxInt at hm; unfold two64; omega)
  refine ⟨b, tl ++ bs, by simp [hb], by omega, Or.inl (by omega), fun c s rest tag fuel => ⟨bs.length, ?_⟩⟩
  rw [av_bytes _ _ _ _ _ _ (by omega) (by omega)]
  have hl := decLen_of_decUint (hdec (bs ++ rest)) hm
  have : ¬ bs.length > cap32M := by omega
  simp [scalarOut, decBytes, hl, this, readN_append bs rest bs.length rfl]

theorem AV_str (bs : Bytes) (hn : bs.length ≤ cap32M) :
    AV (Spec.Cbor.head 0x60 bs.length ++ bs) id (.str bs) true := by
  have hm : bs.length ≤ maxInt := by unfold cap32M at hn; unfold maxInt; omega
  obtain ⟨b, tl, hb, h1, h2, hdec⟩ := decUint_head 0x60 bs.length (by decide) (by unfold maxInt at hm; unfold two64; omega)
  refine ⟨b, tl ++ bs, by simp [hb], by omega, Or.inl (by omega), fun c s rest tag fuel =>
    ⟨(if bs.length < 32 then 0 else bs.length) + bs.length, ?_⟩⟩
  rw [av_str _ _ _ _ _ _ (by omega) (by omega)]
  have hl := decLen_of_decUint (hdec (bs ++ rest)) hm
  have : ¬ bs.length > cap32M := by omega
  simp [scalarOut, decString, hl, this, readN_append bs rest bs.length rfl]

theorem AV_const (hd : Nat) (body : Body)
    (h : (hd = 0xf6 ∧ body = .null) ∨ (hd = 0xf4 ∧ body = .bool false) ∨ (hd = 0xf5 ∧ body = .bool true)) :
    AV [hd] id body true := by
  refine ⟨hd, [], rfl, by omega, Or.inr (by omega), fun c s rest tag fuel => ⟨0, ?_⟩⟩
  conv => lhs; rw [acceptValue.eq_def]
  rcases h with ⟨rfl, rfl⟩ | ⟨rfl, rfl⟩ | ⟨rfl, rfl⟩ <;>
    simp [sigNil, sigUndef, sigFalse, sigTrue]

theorem AV_float (bits : Nat) (hb : bits < two64) : AV (0xfb :: beBytes 8 bits) id (.float bits) true := by
  refine ⟨0xfb, beBytes 8 bits, rfl, by omega, Or.inr (by omega), fun c s rest tag fuel => ⟨0, ?_⟩⟩
  conv => lhs; rw [acceptValue.eq_def]
  have hv : beVal (beBytes 8 bits) = bits := by
    rw [beVal_beBytes]; exact Nat.mod_eq_of_lt (by unfold two64 at hb; omega)
  simp [sigNil, sigUndef, sigFalse, sigTrue, sigF16, sigF32, sigF64, scalarOut, decFloat,
    readN_append _ rest 8 (beBytes_length 8 bits), hv]

theorem AV_arrDef (n : Nat) (hn : n ≤ maxInt) :
    AV (Spec.Cbor.head 0x80 n) (fun s => push { s with left := n :: s.left } .arrDef) (.arrOpen n) false := by
  obtain ⟨b, tl, hb, h1, h2, hdec⟩ := decUint_head 0x80 n (by decide) (by unfold maxInt at hn; unfold two64; omega)
  refine ⟨b, tl, hb, by omega, Or.inl (by omega), fun c s rest tag fuel => ⟨0, ?_⟩⟩
  exact av_arr _ _ _ _ _ _ _ _ (by omega) (by omega) (decLen_of_decUint (hdec rest) hn)

theorem AV_mapDef (n : Nat) (hn : n ≤ maxInt) :
    AV (Spec.Cbor.head 0xa0 n) (fun s => push { s with left := n :: s.left } .mapDefKey) (.mapOpen n) false := by
  obtain ⟨b, tl, hb, h1, h2, hdec⟩ := decUint_head 0xa0 n (by decide) (by unfold maxInt at hn; unfold two64; omega)
  refine ⟨b, tl, hb, by omega, Or.inl (by omega), fun c s rest tag fuel => ⟨0, ?_⟩⟩
  exact av_map _ _ _ _ _ _ _ _ (by omega) (by omega) (decLen_of_decUint (hdec rest) hn)

theorem AV_arrIndef : AV [0x9f] (fun s => push s .arrIndef) (.arrOpen (-1)) false := by
  refine ⟨0x9f, [], rfl, by omega, Or.inl (by omega), fun c s rest tag fuel => ⟨0, ?_⟩⟩
  conv => lhs; rw [acceptValue.eq_def]
  simp [sigNil, sigUndef, sigFalse, sigTrue, sigF16, sigF32, sigF64, sigIndefBytes, sigIndefStr, sigIndefArr]

theorem AV_mapIndef : AV [0xbf] (fun s => push s .mapIndefKey) (.mapOpen (-1)) false := by
  refine ⟨0xbf, [], rfl, by omega, Or.inl (by omega), fun c s rest tag fuel => ⟨0, ?_⟩⟩
  conv => lhs; rw [acceptValue.eq_def]
  simp [sigNil, sigUndef, sigFalse, sigTrue, sigF16, sigF32, sigF64, sigIndefBytes, sigIndefStr, sigIndefArr,
    sigIndefMap]

/-- Every in-range scalar body. -/
theorem AV_scalar (b : Body) (hs : b.isScalar = true)
    (hu : ∀ n, b = .uint n → n < two64)
    (hi : ∀ i, b = .int i → - (two63 : Int) ≤ i ∧ i < (two63 : Int))
    (hf : ∀ x, b = .float x → x < two64)
    (hstr : ∀ x, b = .str x → x.length ≤ 33554432)
    (hbytes : ∀ x, b = .bytes x → x.length ≤ 33554432) :
    AV (Spec.Cbor.encBody b) id (canonBody b) true := by
  cases b with
  | null => exact AV_const _ _ (Or.inl ⟨rfl, rfl⟩)
  | bool x =>
    cases x
    · exact AV_const _ _ (Or.inr (Or.inl ⟨rfl, rfl⟩))
    · exact AV_const _ _ (Or.inr (Or.inr ⟨rfl, rfl⟩))
  | uint n => exact AV_uint n (hu n rfl)
  | int i =>
    obtain ⟨i0, i1⟩ := hi i rfl
    unfold two63 at i0 i1
    by_cases h : i ≥ 0
    · simp only [Spec.Cbor.encBody, canonBody, h, if_true]
      exact AV_uint _ (by unfold two64; omega)
    · simp only [Spec.Cbor.encBody, canonBody, h, if_false]
      have := AV_neg (-1 - i).toNat (by unfold maxInt; omega)
      have e : (-1 - (((-1 - i).toNat : Nat) : Int)) = i := by omega
      rw [e] at this
      exact this
  | float x => exact AV_float x (hf x rfl)
  | str x => exact AV_str x (hstr x rfl)
  | bytes x => exact AV_bytes x (hbytes x rfl)
  | mapOpen _ => simp [Body.isScalar] at hs
  | mapClose => simp [Body.isScalar] at hs
  | arrOpen _ => simp [Body.isScalar] at hs
  | arrClose => simp [Body.isScalar] at hs

/-! ### Steps of the decoder machine -/

/-- In state `s` the next step reads one item head with `acceptValue` in state `sIn` (inside a container,
    so the helper's done flag is dropped), and `sIn` has a frame to return to. -/
def ValCtx (coerce : Bool) (s sIn : St) : Prop :=
  (∃ q r, sIn.stack = q :: r) ∧
  ∀ b r, b ≠ 0xff →
    subStep coerce s (Rd.ofBytes (b :: r)) = inContainer (acceptValue coerce sIn (Rd.ofBytes (r)) b none 1)

/-- Definite / indefinite variants of the container phases. -/
def arrPhase (d : Bool) : Phase := if d then .arrDef else .arrIndef
def mapKPhase (d : Bool) : Phase := if d then .mapDefKey else .mapIndefKey
def mapVPhase (d : Bool) : Phase := if d then .mapDefVal else .mapIndefVal
/-- The countdown stack: definite containers carry the number of items left. -/
def lf (d : Bool) (n : Nat) (l : List Nat) : List Nat := if d then n :: l else l

theorem ValCtx_arr (coerce d : Bool) (q : Phase) (stk : List Phase) (n : Nat) (l : List Nat) :
    ValCtx coerce ⟨q :: stk, arrPhase d, lf d (n + 1) l⟩ ⟨q :: stk, arrPhase d, lf d n l⟩ := by
  refine ⟨⟨q, stk, rfl⟩, ?_⟩
  intro b r hb
  cases d <;> simp [arrPhase, lf, subStep, withMajor, sigBreak, hb]

theorem ValCtx_mapK (coerce d : Bool) (q : Phase) (stk : List Phase) (n : Nat) (l : List Nat) :
    ValCtx coerce ⟨q :: stk, mapKPhase d, lf d (n + 1) l⟩ ⟨q :: stk, mapVPhase d, lf d n l⟩ := by
  refine ⟨⟨q, stk, rfl⟩, ?_⟩
  intro b r hb
  cases d <;> simp [mapKPhase, mapVPhase, lf, subStep, withMajor, sigBreak, hb]

theorem ValCtx_mapV (coerce d : Bool) (q : Phase) (stk : List Phase) (l : List Nat) :
    ValCtx coerce ⟨q :: stk, mapVPhase d, l⟩ ⟨q :: stk, mapKPhase d, l⟩ := by
  refine ⟨⟨q, stk, rfl⟩, ?_⟩
  intro b r hb
  cases d <;> simp [mapKPhase, mapVPhase, lf, subStep, withMajor, sigBreak, hb]

theorem step_nested {coerce : Bool} {s sIn : St} (hc : ValCtx coerce s sIn) {bs : Bytes} {f : St → St} {t : Tok}
    {d : Bool} (h : AVT bs f t d) (rest : Bytes) :
    ∃ a, step coerce s (Rd.ofBytes (bs ++ rest)) = ⟨f sIn, (Rd.ofBytes (rest)), .tok t false, a⟩ := by
  obtain ⟨hd, tl, rfl, hne, hav⟩ := h
  obtain ⟨a, ha⟩ := hav coerce sIn rest
  refine ⟨a, ?_⟩
  have hsub := hc.2 hd (tl ++ rest) hne
  simp only [step, List.cons_append, hsub, ha, inContainer]

theorem step_top_scalar {coerce : Bool} {bs : Bytes} {t : Tok} (h : AVT bs id t true) (rest : Bytes) :
    ∃ a, step coerce init (Rd.ofBytes (bs ++ rest)) = ⟨init, (Rd.ofBytes (rest)), .tok t true, a⟩ := by
  obtain ⟨hd, tl, rfl, hne, hav⟩ := h
  obtain ⟨a, ha⟩ := hav coerce init rest
  refine ⟨a, ?_⟩
  simp [step, subStep, init, withMajor] at ha ⊢
  simp [ha]

theorem step_top_open {coerce : Bool} {bs : Bytes} {f : St → St} {t : Tok} (h : AVT bs f t false) (rest : Bytes) :
    ∃ a, step coerce init (Rd.ofBytes (bs ++ rest)) = ⟨f init, (Rd.ofBytes (rest)), .tok t false, a⟩ := by
  obtain ⟨hd, tl, rfl, hne, hav⟩ := h
  obtain ⟨a, ha⟩ := hav coerce init rest
  refine ⟨a, ?_⟩
  simp [step, subStep, init, withMajor] at ha ⊢
  simp [ha]

/-- The close of a container whose frame sits above at least one other frame. -/
theorem step_arrClose_nested (coerce d : Bool) (p q : Phase) (stk : List Phase) (l : List Nat) (rest : Bytes) :
    step coerce ⟨p :: q :: stk, arrPhase d, lf d 0 l⟩ (Rd.ofBytes ((if d then [] else [0xff]) ++ rest)) =
      ⟨⟨q :: stk, p, l⟩, (Rd.ofBytes (rest)), .tok ⟨.arrClose, none⟩ false, 0⟩ := by
  cases d <;> simp [arrPhase, lf, step, subStep, withMajor, sigBreak]

theorem step_mapClose_nested (coerce d : Bool) (p q : Phase) (stk : List Phase) (l : List Nat) (rest : Bytes) :
    step coerce ⟨p :: q :: stk, mapKPhase d, lf d 0 l⟩ (Rd.ofBytes ((if d then [] else [0xff]) ++ rest)) =
      ⟨⟨q :: stk, p, l⟩, (Rd.ofBytes (rest)), .tok ⟨.mapClose, none⟩ false, 0⟩ := by
  cases d <;> simp [mapKPhase, lf, step, subStep, withMajor, sigBreak]

theorem step_arrClose_top (coerce d : Bool) (p : Phase) (l : List Nat) (rest : Bytes) :
    step coerce ⟨[p], arrPhase d, lf d 0 l⟩ (Rd.ofBytes ((if d then [] else [0xff]) ++ rest)) =
      ⟨⟨[p], arrPhase d, l⟩, (Rd.ofBytes (rest)), .tok ⟨.arrClose, none⟩ true, 0⟩ := by
  cases d <;> simp [arrPhase, lf, step, subStep, withMajor, sigBreak]

theorem step_mapClose_top (coerce d : Bool) (p : Phase) (l : List Nat) (rest : Bytes) :
    step coerce ⟨[p], mapKPhase d, lf d 0 l⟩ (Rd.ofBytes ((if d then [] else [0xff]) ++ rest)) =
      ⟨⟨[p], mapKPhase d, l⟩, (Rd.ofBytes (rest)), .tok ⟨.mapClose, none⟩ true, 0⟩ := by
  cases d <;> simp [mapKPhase, lf, step, subStep, withMajor, sigBreak]

/-! ### `run` over a prefix -/

/-- From `s`, reading `bs` yields the tokens `ts` (none of them final) and leaves the machine in `s'`. -/
def DRuns (coerce : Bool) (s : St) (bs : Bytes) (ts : List Tok) (s' : St) : Prop :=
  ∀ (fuel : Nat) (rest : Bytes) (acc : List Tok) (steps alloc : Nat),
    ∃ alloc', run coerce (ts.length + fuel) s (Rd.ofBytes (bs ++ rest)) acc steps alloc =
      run coerce fuel s' (Rd.ofBytes (rest)) (ts.reverse ++ acc) (steps + ts.length) alloc'

theorem DRuns.nil (coerce : Bool) (s : St) : DRuns coerce s [] [] s := by
  intro fuel rest acc steps alloc
  exact ⟨alloc, by simp⟩

theorem DRuns.single {coerce : Bool} {s s' : St} {bs : Bytes} {t : Tok}
    (h : ∀ rest, ∃ a, step coerce s (Rd.ofBytes (bs ++ rest)) = ⟨s', (Rd.ofBytes (rest)), .tok t false, a⟩) :
    DRuns coerce s bs [t] s' := by
  intro fuel rest acc steps alloc
  obtain ⟨a, ha⟩ := h rest
  refine ⟨alloc + a, ?_⟩
  have : [t].length + fuel = fuel + 1 := by simp [Nat.add_comm]
  rw [this, run]
  simp [ha]

theorem DRuns.append {coerce : Bool} {s s' s'' : St} {bs bs' : Bytes} {ts ts' : List Tok}
    (h1 : DRuns coerce s bs ts s') (h2 : DRuns coerce s' bs' ts' s'') :
    DRuns coerce s (bs ++ bs') (ts ++ ts') s'' := by
  intro fuel rest acc steps alloc
  obtain ⟨a1, e1⟩ := h1 (ts'.length + fuel) (bs' ++ rest) acc steps alloc
  obtain ⟨a2, e2⟩ := h2 fuel rest (ts.reverse ++ acc) (steps + ts.length) a1
  refine ⟨a2, ?_⟩
  have : (ts ++ ts').length + fuel = ts.length + (ts'.length + fuel) := by simp [Nat.add_assoc]
  rw [this, List.append_assoc, e1, e2]
  simp [Nat.add_assoc]

/-- A non-final prefix followed by one step that signals done. -/
theorem DRuns.finish {coerce : Bool} {s s' : St} {bs bs' : Bytes} {ts : List Tok} {t : Tok}
    (h : DRuns coerce s bs ts s')
    (hstep : ∀ rest, ∃ st a, step coerce s' (Rd.ofBytes (bs' ++ rest)) = ⟨st, (Rd.ofBytes (rest)), .tok t true, a⟩)
    (fuel : Nat) (rest : Bytes) (hf : ts.length + 1 ≤ fuel) :
    (run coerce fuel s (Rd.ofBytes ((bs ++ bs') ++ rest)) [] 0 0).toks = ts ++ [t] ∧
    (run coerce fuel s (Rd.ofBytes ((bs ++ bs') ++ rest)) [] 0 0).res = .ok () ∧
    (run coerce fuel s (Rd.ofBytes ((bs ++ bs') ++ rest)) [] 0 0).rd.data = rest := by
  obtain ⟨k, rfl⟩ : ∃ k, fuel = ts.length + (k + 1) := ⟨fuel - ts.length - 1, by omega⟩
  obtain ⟨a1, e1⟩ := h (k + 1) (bs' ++ rest) [] 0 0
  obtain ⟨st, a, e2⟩ := hstep rest
  rw [List.append_assoc, e1, run]
  simp [e2]

/-! ### Containers -/

def TagOk (tag : Option Int) : Prop := ∀ g, tag = some g → 0 ≤ g ∧ g < (two63 : Int)

theorem AVT_arrOpen (d : Bool) (tag : Option Int) (n : Nat) (ht : TagOk tag) (hn : n ≤ maxInt) :
    AVT (Spec.Cbor.tagBytes tag ++ (if d then Spec.Cbor.head 0x80 n else [0x9f]))
      (fun s => ⟨s.phase :: s.stack, arrPhase d, lf d n s.left⟩)
      ⟨.arrOpen (if d then (n : Int) else -1), tag⟩ false := by
  cases d
  · exact AV_arrIndef.tagged tag ht
  · exact (AV_arrDef n hn).tagged tag ht

theorem AVT_mapOpen (d : Bool) (tag : Option Int) (n : Nat) (ht : TagOk tag) (hn : n ≤ maxInt) :
    AVT (Spec.Cbor.tagBytes tag ++ (if d then Spec.Cbor.head 0xa0 n else [0xbf]))
      (fun s => ⟨s.phase :: s.stack, mapKPhase d, lf d n s.left⟩)
      ⟨.mapOpen (if d then (n : Int) else -1), tag⟩ false := by
  cases d
  · exact AV_mapIndef.tagged tag ht
  · exact (AV_mapDef n hn).tagged tag ht

theorem arr_nested {coerce d : Bool} {tag : Option Int} {n : Nat} {E : Bytes} {T : List Tok}
    (ht : TagOk tag) (hn : n ≤ maxInt)
    (hItems : ∀ q stk l, DRuns coerce ⟨q :: stk, arrPhase d, lf d n l⟩ E T ⟨q :: stk, arrPhase d, lf d 0 l⟩)
    {s sIn : St} (hc : ValCtx coerce s sIn) :
    DRuns coerce s
      ((Spec.Cbor.tagBytes tag ++ (if d then Spec.Cbor.head 0x80 n else [0x9f])) ++ E ++ (if d then [] else [0xff]))
      ([⟨.arrOpen (if d then (n : Int) else -1), tag⟩] ++ T ++ [⟨.arrClose, none⟩]) sIn := by
  obtain ⟨stk, ph, lft⟩ := sIn
  obtain ⟨q, r, hq⟩ := hc.1
  simp only at hq
  subst hq
  have h1 := DRuns.single (fun rest => step_nested hc (AVT_arrOpen d tag n ht hn) rest)
  have h3 : DRuns coerce ⟨ph :: q :: r, arrPhase d, lf d 0 lft⟩ (if d then [] else [0xff]) [⟨.arrClose, none⟩]
      ⟨q :: r, ph, lft⟩ :=
    DRuns.single (fun rest => ⟨0, step_arrClose_nested coerce d ph q r lft rest⟩)
  exact (h1.append (hItems ph (q :: r) lft)).append h3

theorem map_nested {coerce d : Bool} {tag : Option Int} {n : Nat} {E : Bytes} {T : List Tok}
    (ht : TagOk tag) (hn : n ≤ maxInt)
    (hItems : ∀ q stk l, DRuns coerce ⟨q :: stk, mapKPhase d, lf d n l⟩ E T ⟨q :: stk, mapKPhase d, lf d 0 l⟩)
    {s sIn : St} (hc : ValCtx coerce s sIn) :
    DRuns coerce s
      ((Spec.Cbor.tagBytes tag ++ (if d then Spec.Cbor.head 0xa0 n else [0xbf])) ++ E ++ (if d then [] else [0xff]))
      ([⟨.mapOpen (if d then (n : Int) else -1), tag⟩] ++ T ++ [⟨.mapClose, none⟩]) sIn := by
  obtain ⟨stk, ph, lft⟩ := sIn
  obtain ⟨q, r, hq⟩ := hc.1
  simp only at hq
  subst hq
  have h1 := DRuns.single (fun rest => step_nested hc (AVT_mapOpen d tag n ht hn) rest)
  have h3 : DRuns coerce ⟨ph :: q :: r, mapKPhase d, lf d 0 lft⟩ (if d then [] else [0xff]) [⟨.mapClose, none⟩]
      ⟨q :: r, ph, lft⟩ :=
    DRuns.single (fun rest => ⟨0, step_mapClose_nested coerce d ph q r lft rest⟩)
  exact (h1.append (hItems ph (q :: r) lft)).append h3

/-- What `run` returns from the initial state. -/
def Decodes (coerce : Bool) (bs : Bytes) (ts : List Tok) : Prop :=
  ∀ (fuel : Nat) (rest : Bytes), ts.length ≤ fuel →
    (run coerce fuel init (Rd.ofBytes (bs ++ rest)) [] 0 0).toks = ts ∧
    (run coerce fuel init (Rd.ofBytes (bs ++ rest)) [] 0 0).res = .ok () ∧
    (run coerce fuel init (Rd.ofBytes (bs ++ rest)) [] 0 0).rd.data = rest

theorem scalar_top {coerce : Bool} {bs : Bytes} {t : Tok} (h : AVT bs id t true) : Decodes coerce bs [t] := by
  intro fuel rest hf
  have := DRuns.finish (DRuns.nil coerce init) (bs' := bs) (t := t)
    (fun rest => by obtain ⟨a, ha⟩ := step_top_scalar (coerce := coerce) h rest; exact ⟨_, a, ha⟩) fuel rest
    (by simpa using hf)
  simpa using this

theorem arr_top {coerce d : Bool} {tag : Option Int} {n : Nat} {E : Bytes} {T : List Tok}
    (ht : TagOk tag) (hn : n ≤ maxInt)
    (hItems : ∀ q stk l, DRuns coerce ⟨q :: stk, arrPhase d, lf d n l⟩ E T ⟨q :: stk, arrPhase d, lf d 0 l⟩) :
    Decodes coerce
      ((Spec.Cbor.tagBytes tag ++ (if d then Spec.Cbor.head 0x80 n else [0x9f])) ++ E ++ (if d then [] else [0xff]))
      ([⟨.arrOpen (if d then (n : Int) else -1), tag⟩] ++ T ++ [⟨.arrClose, none⟩]) := by
  intro fuel rest hf
  have h1 := DRuns.single (fun rest => step_top_open (coerce := coerce) (AVT_arrOpen d tag n ht hn) rest)
  have h2 := h1.append (hItems init.phase init.stack init.left)
  exact h2.finish (fun rest => ⟨_, 0, step_arrClose_top coerce d _ _ rest⟩) fuel rest (by simpa using hf)

theorem map_top {coerce d : Bool} {tag : Option Int} {n : Nat} {E : Bytes} {T : List Tok}
    (ht : TagOk tag) (hn : n ≤ maxInt)
    (hItems : ∀ q stk l, DRuns coerce ⟨q :: stk, mapKPhase d, lf d n l⟩ E T ⟨q :: stk, mapKPhase d, lf d 0 l⟩) :
    Decodes coerce
      ((Spec.Cbor.tagBytes tag ++ (if d then Spec.Cbor.head 0xa0 n else [0xbf])) ++ E ++ (if d then [] else [0xff]))
      ([⟨.mapOpen (if d then (n : Int) else -1), tag⟩] ++ T ++ [⟨.mapClose, none⟩]) := by
  intro fuel rest hf
  have h1 := DRuns.single (fun rest => step_top_open (coerce := coerce) (AVT_mapOpen d tag n ht hn) rest)
  have h2 := h1.append (hItems init.phase init.stack init.left)
  exact h2.finish (fun rest => ⟨_, 0, step_mapClose_top coerce d _ _ rest⟩) fuel rest (by simpa using hf)

end Refmt.C02L
