/-
  Stateful object unmarshaller: `SimV n → SimM n → SimM (n+1)`.
-/
import RefmtProofs.Lemmas.UnmarshalMachUnionSimM
set_option linter.unusedSimpArgs false
set_option linter.unusedVariables false
namespace Refmt.UMachU
open Refmt Refmt.Obj Refmt.Obj.UM Refmt.UMachL

variable {ts : Types} {a : Atlas} {trs : Trs} {it : IfaceTys}

theorem simM_succ {S : List Nat} {n : Nat} (hV : SimV ts a trs it S n) (hM : SimM ts a trs it S n) :
    SimM ts a trs it S (n+1) := by
  intro vt he kf es lo row mid crow hi stk be c cck F w d toks sf hst hcc un hw hd hsf
  obtain ⟨hph, htg, hkd, hvt, hvz, hvm⟩ := hst
  obtain ⟨ekd, evt, evz, evm⟩ := effRow_map_eq row
  cases toks with
  | nil => simp [pump, unmMapEntries, Agree]
  | cons t rest =>
    obtain ⟨g, rfl⟩ : ∃ g, sf = g + 1 + 1 + d + 1 := ⟨sf - d - 3, by omega⟩
    have hl0 : stepM ts a trs it (g + 1 + 1) ⟨lo.length, .map⟩
        ⟨lo ++ row :: (mid ++ crow :: hi), stk, some c, be⟩ t
        = mapKeyOrClose trs ⟨lo.length, .map⟩ (effRow row).map
            ⟨lo ++ effRow row :: (mid ++ crow :: hi), stk, some c, be⟩ t := map_step_keyphase hph
    by_cases h1 : t.body = .mapClose
    · obtain ⟨hi', x, hx⟩ := snoc_of_ne_nil (mid ++ crow :: hi) (by simp)
      rw [mapKey_close h1, hx, dropLast_at, htg] at hl0
      rw [unmMap_close h1, hx]
      exact Agree.fin hw hl0 (effRow_same row) (by omega)
    · cases hb : t.body with
      | str x =>
        rw [mapKey_str (row := effRow row) hb, ekd, hkd, htg] at hl0
        rw [unmMap_str hb]
        cases hk : keyOf trs kf x with
        | none =>
          rw [hk] at hl0
          rw [pump_err (hw.pass hl0 (Or.inl ⟨_, rfl⟩))]
          simp [Agree, XFail.toURes]
        | some k =>
          rw [hk] at hl0
          simp only [mapEntries] at hl0 ⊢
          by_cases hh : hasKey k es = true
          · simp only [hh, if_true] at hl0 ⊢
            rw [pump_err (hw.pass hl0 (Or.inl ⟨_, rfl⟩))]
            simp [Agree, XFail.toURes]
          · simp only [hh, if_false] at hl0 ⊢
            rw [pump_cont (hw.pass hl0 (Or.inr ⟨_, rfl⟩))]
            have hst2 : MapVSt ts (rowMp (effRow row) (mpKey (effRow row).map k)) es k kf vt
                (lo.length + 1 + mid.length) cck :=
              ⟨rfl, htg, rfl, ekd.trans hkd, evt.trans hvt, evz.trans hvz, evm.trans hvm⟩
            have hw2 : Wr trs.u c lo (rowMp (effRow row) (mpKey (effRow row).map k)) .map F w d un :=
              hw.congr (effRow_pw row)
            have hA := simM_value hV hM he kf es k lo _ mid crow hi stk be c cck F w d rest (g + 1 + 1 + d + 1)
              hst2 hcc hw2 hd hsf
            exact hA.shift 1 ((effRow_same row).trans (rowMp_same _ _))
      | mapClose => first | exact absurd rfl h1 | exact absurd hb h1
      | _ =>
        rw [mapKey_other (by simp [hb]) (by simp [hb])] at hl0
        rw [pump_err (hw.pass hl0 (Or.inl ⟨_, rfl⟩)), unmMap_other (by simp [hb]) (by simp [hb])]
        simp [Agree, XFail.toURes]

end Refmt.UMachU
