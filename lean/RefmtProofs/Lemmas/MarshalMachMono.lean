/-
  Fuel monotonicity of the stateful marshaller model (RefmtModel/Model/Obj/MarshalMach.lean): a result other
  than `stuck` does not change when more fuel is given.
-/
import RefmtModel.Model.Obj.MarshalMach
open Refmt Refmt.Obj Refmt.Obj.MM
set_option linter.unusedVariables false
set_option linter.unusedSimpArgs false

namespace Refmt.MachL

variable {ts : Types} {a : Atlas} {trs : Trs}

/-- not stuck -/
def NS {α : Type} (r : X α) : Prop := r ≠ .error .stuck

theorem NS.of_eq {α : Type} {r r' : X α} (h : r = r') (hn : NS r') : NS r := h ▸ hn

theorem cfgYield_mono1 : ∀ n : Nat,
    (∀ row id m, NS (cfgMach ts a n row id m) → cfgMach ts a (n+1) row id m = cfgMach ts a n row id m) ∧
    (∀ row id, NS (yieldM ts a n row id) → yieldM ts a (n+1) row id = yieldM ts a n row id) := by
  intro n
  induction n with
  | zero => exact ⟨fun _ _ _ h => absurd (by simp [cfgMach]) h, fun _ _ h => absurd (by simp [yieldM]) h⟩
  | succ n ih =>
    obtain ⟨ihc, ihy⟩ := ih
    constructor
    · intro row id m h
      cases m <;> try (simp [cfgMach])
      next e fn mty =>
        have : NS (yieldM ts a n { row with transform := { row.transform with trFunc := fn, mty := mty } } mty) := by
          intro hs; apply h; simp [cfgMach, hs]
        rw [ihy _ _ this]
    · intro row id h
      have : NS (cfgMach ts a n row (peel ts 64 0 id).2 (pickBare ts a (peel ts 64 0 id).2)) := by
        intro hs; apply h; simp [yieldM, hs]
      simp only [yieldM]
      rw [ihc _ _ _ this]

theorem cfgMach_mono1 {n row id m} (h : NS (cfgMach ts a n row id m)) :
    cfgMach ts a (n+1) row id m = cfgMach ts a n row id m := (cfgYield_mono1 n).1 _ _ _ h
theorem yieldM_mono1 {n row id} (h : NS (yieldM ts a n row id)) :
    yieldM ts a (n+1) row id = yieldM ts a n row id := (cfgYield_mono1 n).2 _ _ h

theorem requisition_mono1 {n R id} (h : NS (requisition ts a n R id)) :
    requisition ts a (n+1) R id = requisition ts a n R id := by
  have : NS (yieldM ts a n Row.zero id) := by
    intro hs; apply h; simp [requisition, hs]
  simp only [requisition, yieldM_mono1 this]

theorem yieldTip_mono1 {n R id} (h : NS (yieldTip ts a n R id)) :
    yieldTip ts a (n+1) R id = yieldTip ts a n R id := by
  unfold yieldTip at h ⊢
  cases hrow : R[R.length - 1]? with
  | none => rfl
  | some row =>
    simp only [hrow] at h ⊢
    have : NS (yieldM ts a n row id) := by
      intro hs; apply h; simp [hs]
    simp only [yieldM_mono1 this]

theorem NS.stuck_elim {α : Type} {P : Prop} (h : NS (.error .stuck : X α)) : P := absurd rfl h

/-- `r'` agrees with `r` wherever `r` is not stuck -/
def RLe (r r' : ResetF) : Prop := ∀ m rt v R, NS (r m rt v R) → r' m rt v R = r m rt v R

theorem resetPtr_mono {rec rec' : ResetF} (hle : RLe rec rec') {m row rt v R}
    (h : NS (resetPtr ts rec m row rt v R)) : resetPtr ts rec' m row rt v R = resetPtr ts rec m row rt v R := by
  unfold resetPtr at h ⊢
  cases hd : derefN row.ptr.peelCount v with
  | none => rfl
  | some inner =>
    simp only [hd] at h ⊢
    cases hm : row.ptr.mach with
    | none => rfl
    | some k =>
      simp only [hm] at h ⊢
      exact hle _ _ _ _ h

theorem resetTransform_mono {rec rec' : ResetF} (hle : RLe rec rec') {m row v R}
    (h : NS (resetTransform trs rec m row v R)) :
    resetTransform trs rec' m row v R = resetTransform trs rec m row v R := by
  unfold resetTransform at h ⊢
  cases hd : trs.m row.transform.trFunc v with
  | none => rfl
  | some tv =>
    simp only [hd] at h ⊢
    cases hm : row.transform.delegate with
    | none => rfl
    | some k =>
      simp only [hm] at h ⊢
      exact hle _ _ _ _ h

theorem resetWild_mono {n} {rec rec' : ResetF} (hle : RLe rec rec') {m v R}
    (h : NS (resetWild ts a n rec m v R)) :
    resetWild ts a (n+1) rec' m v R = resetWild ts a n rec m v R := by
  unfold resetWild at h ⊢
  split
  · rfl
  · next dt dv =>
    simp only at h
    by_cases hs : requisition ts a n R dt = .error .stuck
    · exact (h (by simp [hs])).elim
    · rw [requisition_mono1 hs]
      cases hq : requisition ts a n R dt with
      | error x => rfl
      | ok p =>
        obtain ⟨R1, d⟩ := p
        simp only [hq] at h ⊢
        exact hle _ _ _ _ h
  · rfl

theorem resetMap_mono {n} {m rt v R} (h : NS (resetMap ts a trs n m rt v R)) :
    resetMap ts a trs (n+1) m rt v R = resetMap ts a trs n m rt v R := by
  unfold resetMap at h ⊢
  split
  · next kt vt hg =>
    simp only [hg] at h
    by_cases hs : requisition ts a n R vt = .error .stuck
    · exact (h (by simp [hs])).elim
    · rw [requisition_mono1 hs]
  · rfl

theorem resetSlice_mono {n} {m rt v R} (h : NS (resetSlice ts a n m rt v R)) :
    resetSlice ts a (n+1) m rt v R = resetSlice ts a n m rt v R := by
  unfold resetSlice at h ⊢
  cases he : elemOf ts rt with
  | none => rfl
  | some e =>
    simp only [he] at h ⊢
    by_cases hs : requisition ts a n R e = .error .stuck
    · exact (h (by simp [hs])).elim
    · rw [requisition_mono1 hs]

theorem resetUnion_mono {n} {rec rec' : ResetF} (hle : RLe rec rec') {m row v R}
    (h : NS (resetUnion ts a n rec m row v R)) :
    resetUnion ts a (n+1) rec' m row v R = resetUnion ts a n rec m row v R := by
  unfold resetUnion at h ⊢
  split
  · rfl
  · next dt dv =>
    simp only at h ⊢
    split
    · rfl
    · next name idx hf =>
      simp only [hf] at h
      split
      · rfl
      · next me hme =>
        simp only [hme] at h
        split
        · rfl
        · next trow htr =>
          simp only [htr] at h
          by_cases hs : cfgMach ts a n trow me.ty (machForEntry ts me) = .error .stuck
          · exact (h (by simp [hs])).elim
          · rw [cfgMach_mono1 hs]
            cases hq : cfgMach ts a n trow me.ty (machForEntry ts me) with
            | error x => rfl
            | ok p =>
              obtain ⟨trow', k⟩ := p
              simp only [hq] at h ⊢
              have : NS (rec ⟨(updRow R m.row fun r => { r with union := { r.union with target_rv := dv, elementName := name } }).length - 1, k⟩ me.ty dv
                  (updRow ((updRow R m.row fun r => { r with union := { r.union with target_rv := dv, elementName := name } }).set
                    ((updRow R m.row fun r => { r with union := { r.union with target_rv := dv, elementName := name } }).length - 1) trow') m.row
                    fun r => { r with union := { r.union with delegate := some ⟨(updRow R m.row fun r => { r with union := { r.union with target_rv := dv, elementName := name } }).length - 1, k⟩ } })) := by
                intro hs2; apply h; simp [hs2]
              rw [hle _ _ _ _ this]
  · rfl

theorem resetBody_mono {n} {rec rec' : ResetF} (hle : RLe rec rec') :
    RLe (resetBody ts a trs n rec) (resetBody ts a trs (n+1) rec') := by
  intro m rt v R h
  unfold resetBody at h ⊢
  cases hrow : R[m.row]? with
  | none => rfl
  | some row =>
    simp only [hrow] at h ⊢
    cases hk : m.kind <;> simp only [hk] at h ⊢
    · exact resetPtr_mono hle h
    · exact resetWild_mono hle h
    · exact resetMap_mono h
    · exact resetSlice_mono h
    · exact resetSlice_mono h
    · exact resetTransform_mono hle h
    · exact resetUnion_mono hle h

theorem resetM_mono1 (n : Nat) : RLe (resetM ts a trs n) (resetM ts a trs (n+1)) := by
  induction n with
  | zero => intro m rt v R h; exact (h rfl).elim
  | succ n ih => exact resetBody_mono ih

theorem resetM_mono {n n'} (hn : n ≤ n') {m rt v R} (h : NS (resetM ts a trs n m rt v R)) :
    resetM ts a trs n' m rt v R = resetM ts a trs n m rt v R := by
  induction hn with
  | refl => rfl
  | step hle ih => rw [resetM_mono1 _ _ _ _ _ (ih ▸ h), ih]

theorem mono_of_mono1 {α : Type} (f : Nat → X α) (h1 : ∀ n, NS (f n) → f (n+1) = f n)
    {n n' : Nat} (hn : n ≤ n') (h : NS (f n)) : f n' = f n := by
  induction hn with
  | refl => rfl
  | step hle ih => rw [h1 _ (ih ▸ h), ih]

theorem yieldM_mono {n n'} (hn : n ≤ n') {row id} (h : NS (yieldM ts a n row id)) :
    yieldM ts a n' row id = yieldM ts a n row id :=
  mono_of_mono1 (fun n => yieldM ts a n row id) (fun _ => yieldM_mono1) hn h
theorem cfgMach_mono {n n'} (hn : n ≤ n') {row id m} (h : NS (cfgMach ts a n row id m)) :
    cfgMach ts a n' row id m = cfgMach ts a n row id m :=
  mono_of_mono1 (fun n => cfgMach ts a n row id m) (fun _ => cfgMach_mono1) hn h
theorem requisition_mono {n n'} (hn : n ≤ n') {R id} (h : NS (requisition ts a n R id)) :
    requisition ts a n' R id = requisition ts a n R id :=
  mono_of_mono1 (fun n => requisition ts a n R id) (fun _ => requisition_mono1) hn h
theorem yieldTip_mono {n n'} (hn : n ≤ n') {R id} (h : NS (yieldTip ts a n R id)) :
    yieldTip ts a n' R id = yieldTip ts a n R id :=
  mono_of_mono1 (fun n => yieldTip ts a n R id) (fun _ => yieldTip_mono1) hn h

def SLe (r r' : StepF) : Prop := ∀ m s, NS (r m s) → r' m s = r m s
def CLe (r r' : RecurseF) : Prop := ∀ s rv rt next, NS (r s rv rt next) → r' s rv rt next = r s rv rt next
def MLe (r r' : MState → X SRes) : Prop := ∀ s, NS (r s) → r' s = r s

theorem stepPtr_mono {rec rec' : StepF} (hle : SLe rec rec') {m row s}
    (h : NS (stepPtr rec m row s)) : stepPtr rec' m row s = stepPtr rec m row s := by
  unfold stepPtr at h ⊢
  split
  · rfl
  · next hnil =>
    simp only [hnil] at h
    cases hm : row.ptr.mach with
    | none => rfl
    | some k =>
      simp only [hm] at h ⊢
      exact hle _ _ h

theorem stepWild_mono {rec rec' : StepF} (hle : SLe rec rec') {row s}
    (h : NS (stepWild rec row s)) : stepWild rec' row s = stepWild rec row s := by
  unfold stepWild at h ⊢
  cases hm : row.wild.delegate with
  | none => rfl
  | some d =>
    simp only [hm] at h ⊢
    exact hle _ _ h

theorem stepTransform_mono {rec rec' : StepF} (hle : SLe rec rec') {m row s}
    (h : NS (stepTransform rec m row s)) : stepTransform rec' m row s = stepTransform rec m row s := by
  unfold stepTransform at h ⊢
  cases hm : row.transform.delegate with
  | none => rfl
  | some k =>
    simp only [hm] at h ⊢
    have : NS (rec ⟨m.row, k⟩ s) := by intro hs; apply h; simp [hs]
    rw [hle _ _ this]

theorem stepUnion_mono {rec rec' : StepF} (hle : SLe rec rec') {m row s}
    (h : NS (stepUnion rec m row s)) : stepUnion rec' m row s = stepUnion rec m row s := by
  unfold stepUnion at h ⊢
  cases hp : row.union.step <;> simp only [hp] at h ⊢
  cases hm : row.union.delegate with
  | none => rfl
  | some d =>
    simp only [hm] at h ⊢
    have : NS (rec d s) := by intro hs; apply h; simp [hs]
    rw [hle _ _ this]

theorem stepMap_mono {rc rc' : RecurseF} (hle : CLe rc rc') {m row s}
    (h : NS (stepMap rc m row s)) : stepMap rc' m row s = stepMap rc m row s := by
  unfold stepMap at h ⊢
  simp only at h ⊢
  split
  · rfl
  · split
    · rfl
    · split
      · rfl
      · split
        · next h1 h2 h3 h4 =>
          simp only [h1, h2, h3, h4, if_false, if_true] at h
          split
          · next x d hk hv =>
            simp only [hk, hv] at h
            exact hle _ _ _ _ h
          · rfl
        · rfl

theorem stepSlice_mono {rc rc' : RecurseF} (hle : CLe rc rc') {m row s}
    (h : NS (stepSlice rc m row s)) : stepSlice rc' m row s = stepSlice rc m row s := by
  unfold stepSlice at h ⊢
  simp only at h ⊢
  split
  · rfl
  · split
    · rfl
    · split
      · rfl
      · split
        · rfl
        · next h1 h2 h3 h4 =>
          simp only [h2, h3, h4, if_false] at h
          split
          · next x d hk hv =>
            simp only [hk, hv] at h
            simp at h
            exact hle _ _ _ _ h
          · rfl

theorem stepStruct_mono {n} {rc rc' : RecurseF} (hle : CLe rc rc') {m row s}
    (h : NS (stepStruct ts a n rc m row s)) :
    stepStruct ts a (n+1) rc' m row s = stepStruct ts a n rc m row s := by
  unfold stepStruct at h ⊢
  simp only at h ⊢
  split
  · rfl
  · split
    · rfl
    · split
      · rfl
      · next h1 h2 h3 =>
        simp only [h1, h2, h3, if_false] at h
        split
        · next child hc =>
          simp only [hc] at h
          split
          · rfl
          · next fe hfe =>
            simp only [hfe] at h
            by_cases hs : yieldTip ts a n (s.upd m.row StructM.take).rows fe.ty = .error .stuck
            · exact (h (by simp [hs])).elim
            · rw [yieldTip_mono1 hs]
              cases hq : yieldTip ts a n (s.upd m.row StructM.take).rows fe.ty with
              | error x => rfl
              | ok p =>
                obtain ⟨R1, d⟩ := p
                simp only [hq] at h ⊢
                exact hle _ _ _ _ h
        · rfl

theorem stepBody_mono {n} {rec rec' : StepF} {rc rc' : RecurseF} (hs : SLe rec rec') (hc : CLe rc rc') :
    SLe (stepBody ts a n rec rc) (stepBody ts a (n+1) rec' rc') := by
  intro m s h
  unfold stepBody at h ⊢
  cases hrow : s.rows[m.row]? with
  | none => rfl
  | some row =>
    simp only [hrow] at h ⊢
    cases hk : m.kind <;> simp only [hk] at h ⊢
    · exact stepPtr_mono hs h
    · exact stepWild_mono hs h
    · exact stepMap_mono hc h
    · exact stepSlice_mono hc h
    · exact stepSlice_mono hc h
    · exact stepStruct_mono hc h
    · exact stepTransform_mono hs h
    · exact stepUnion_mono hs h

theorem recurseBody_mono {n} {ms ms' : MState → X SRes} (hm : MLe ms ms') :
    CLe (recurseBody ts a trs n ms) (recurseBody ts a trs (n+1) ms') := by
  intro s rv rt next h
  unfold recurseBody at h ⊢
  cases hcur : s.step with
  | none => rfl
  | some cur =>
    simp only [hcur] at h ⊢
    by_cases hs : resetM ts a trs n next rt rv s.rows = .error .stuck
    · exact (h (by simp [hs])).elim
    · rw [resetM_mono1 _ _ _ _ _ hs]
      cases hq : resetM ts a trs n next rt rv s.rows with
      | error x => rfl
      | ok R1 =>
        simp only [hq] at h ⊢
        have : NS (ms { s with rows := R1, stack := cur :: s.stack, step := some next }) := by
          intro hs2; apply h; simp [hs2]
        rw [hm _ this]

theorem mstepBody_mono {st st' : StepF} (hs : SLe st st') : MLe (mstepBody st) (mstepBody st') := by
  intro s h
  unfold mstepBody at h ⊢
  cases hcur : s.step with
  | none => rfl
  | some cur =>
    simp only [hcur] at h ⊢
    have : NS (st cur s) := by intro hs2; apply h; simp [hs2]
    rw [hs _ _ this]

theorem step_mono1 (n : Nat) :
    SLe (stepM ts a trs n) (stepM ts a trs (n+1)) ∧ CLe (recurse ts a trs n) (recurse ts a trs (n+1)) ∧
    MLe (mstep ts a trs n) (mstep ts a trs (n+1)) := by
  induction n with
  | zero =>
    exact ⟨fun m s h => (h (by simp [stepM])).elim, fun s rv rt nx h => (h (by simp [recurse])).elim,
      fun s h => (h (by simp [mstep])).elim⟩
  | succ n ih =>
    obtain ⟨ihs, ihc, ihm⟩ := ih
    refine ⟨?_, ?_, ?_⟩
    · simp only [stepM]; exact stepBody_mono ihs ihc
    · simp only [recurse]; exact recurseBody_mono ihm
    · simp only [mstep]; exact mstepBody_mono ihs

theorem stepM_mono {n n'} (hn : n ≤ n') {m s} (h : NS (stepM ts a trs n m s)) :
    stepM ts a trs n' m s = stepM ts a trs n m s :=
  mono_of_mono1 (fun n => stepM ts a trs n m s) (fun n => (step_mono1 n).1 m s) hn h
theorem mstep_mono {n n'} (hn : n ≤ n') {s} (h : NS (mstep ts a trs n s)) :
    mstep ts a trs n' s = mstep ts a trs n s :=
  mono_of_mono1 (fun n => mstep ts a trs n s) (fun n => (step_mono1 n).2.2 s) hn h

theorem runX_succ (sf k : Nat) (s : MState) :
    runX ts a trs sf (k+1) s =
      match mstep ts a trs sf s with
      | .error x => ([], some x)
      | .ok res =>
        if res.done then ([res.tok], none)
        else (res.tok :: (runX ts a trs sf k res.st).1, (runX ts a trs sf k res.st).2) := by
  rw [runX]
  cases mstep ts a trs sf s <;> rfl

theorem runX_mono_sf {sf sf'} (hn : sf ≤ sf') : ∀ (k : Nat) (s : MState),
    (runX ts a trs sf k s).2 ≠ some .stuck → runX ts a trs sf' k s = runX ts a trs sf k s
  | 0, s, h => by simp [runX] at h
  | k+1, s, h => by
    rw [runX_succ] at h
    rw [runX_succ, runX_succ]
    by_cases hs : mstep ts a trs sf s = .error .stuck
    · simp [hs] at h
    · rw [mstep_mono hn hs]
      cases hq : mstep ts a trs sf s with
      | error x => rfl
      | ok res =>
        simp only [hq] at h ⊢
        by_cases hd : res.done
        · simp [hd]
        · simp only [hd] at h ⊢
          rw [runX_mono_sf hn k res.st (by simpa using h)]

theorem runX_mono_k {sf} : ∀ (k : Nat) (s : MState),
    (runX ts a trs sf k s).2 ≠ some .stuck → runX ts a trs sf (k+1) s = runX ts a trs sf k s
  | 0, s, h => by simp [runX] at h
  | k+1, s, h => by
    rw [runX_succ] at h
    rw [runX_succ sf (k+1) s, runX_succ sf k s]
    cases hq : mstep ts a trs sf s with
    | error x => rfl
    | ok res =>
      simp only [hq] at h ⊢
      by_cases hd : res.done
      · simp [hd]
      · simp only [hd] at h ⊢
        rw [runX_mono_k k res.st (by simpa using h)]

theorem recurse_mono {n n'} (hn : n ≤ n') {s rv rt next} (h : NS (recurse ts a trs n s rv rt next)) :
    recurse ts a trs n' s rv rt next = recurse ts a trs n s rv rt next :=
  mono_of_mono1 (fun n => recurse ts a trs n s rv rt next) (fun n => (step_mono1 n).2.1 s rv rt next) hn h

end Refmt.MachL
