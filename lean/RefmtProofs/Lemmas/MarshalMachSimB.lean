/-
  Simulation lemmas for the slice and array machines.
-/
import RefmtProofs.Lemmas.MarshalMachSimA
import RefmtProofs.Lemmas.MarshalMachFun
open Refmt Refmt.Obj Refmt.Obj.MM
set_option linter.unusedVariables false
set_option linter.unusedSimpArgs false

namespace Refmt.MachL

variable {ts : Types} {a : Atlas} {trs : Trs}

/-- the slice machine's row after Reset and `i + 1` steps -/
def srow (row : Row) (v : Val) (e : Nat) (d : MRef) (i : Int) (n : Nat) : Row :=
  { row with slice := { target_rv := v, value_rt := e, valueMach := some d, index := i, length := n } }

theorem srow_incr (row v e d i n) : SliceM.incr (srow row v e d i n) = srow row v e d (i + 1) n := rfl
theorem srow_ptr (row v e d i n) : (srow row v e d i n).ptr = row.ptr := rfl
theorem srow_map (row v e d i n) : (srow row v e d i n).map = row.map := rfl
theorem agreeW_srow (mk : Mask) (row v e d i n) : agreeW mk row (srow row v e d i n) := ⟨fun _ => rfl, fun _ => rfl, fun _ => rfl⟩

theorem seq_fail_left {x : MOut} {y : Unit → MOut} {f : Fail} (h : (x.seq y).fail ≠ some f) : x.fail ≠ some f := by
  intro hx; apply h; simp [MOut.seq, hx]

theorem seq_fail_right {x : MOut} {y : Unit → MOut} {f : Fail} (h : (x.seq y).fail ≠ some f) (hx : x.fail = none) :
    (y ()).fail ≠ some f := by
  intro hy; apply h; simp [MOut.seq, hx, hy]

/-- the slice / array machine's step on an element -/
theorem stepSlice_elem {rc : RecurseF} {lo row hi v e d n k st cur be es x} {i : Nat}
    (hk : k = .slice ∨ k = .array) (hes : elemsOf (k == .slice) v = some es) (hx : es[i]? = some x) (hi' : i < n) :
    stepSlice rc ⟨lo.length, k⟩ (srow row v e d i n) ⟨lo ++ srow row v e d i n :: hi, st, cur, be⟩ =
      rc ⟨lo ++ srow row v e d (i + 1) n :: hi, st, cur, be⟩ x e d := by
  have h1 : ¬ ((i : Int) < 0) := by omega
  have h2 : ¬ ((i : Int) = (n : Int)) := by omega
  have h3 : ¬ ((i : Int) > (n : Int)) := by omega
  simp only [stepSlice, srow, h1, h2, h3, hes, decide_false, Bool.and_false, Bool.false_and, if_false]
  simp [hx, upd_at, SliceM.incr, srow]

theorem stepM_slice_at {n lo row hi k st cur be} (hk : k = .slice ∨ k = .array) :
    stepM ts a trs (n+1) ⟨lo.length, k⟩ ⟨lo ++ row :: hi, st, cur, be⟩ =
      stepSlice (recurse ts a trs n) ⟨lo.length, k⟩ row ⟨lo ++ row :: hi, st, cur, be⟩ := by
  cases hk with
  | inl h => subst h; simp only [stepM_at, stepBody, getRow]
  | inr h => subst h; simp only [stepM_at, stepBody, getRow]

variable (ts a trs) in
/-- the induction hypothesis: the simulation statement for `marshalV` at fuel `f` -/
def IHV (f : Nat) : Prop :=
  ∀ id v L row hi k, CfgV ts a id k row → Clean (row :: hi) →
    (marshalV ts a trs f id v).fail ≠ some .panic →
    Sim ts a trs FFF FFF (CfgV ts a id k) L row hi ⟨L, k⟩ id v (marshalV ts a trs f id v)

/-- the state predicate at the end of the slice machine's element loop -/
def SliceEnd (ts : Types) (a : Atlas) (lo : List Row) (row : Row) (hi : List Row) (v : Val) (e : Nat) (kd : MK) (n : Nat)
    (st : List MRef) (cur : MRef) (be : Option XFail) (i : Nat) (s' : MState) : Prop :=
  ∃ drow' dhi', s' = ⟨lo ++ srow row v e ⟨lo.length + 1 + hi.length, kd⟩ i n :: (hi ++ drow' :: dhi'), st, some cur, be⟩ ∧
    CfgV ts a e kd drow' ∧ Clean (drow' :: dhi')

theorem slice_loop {mk : Mask} {r0 : Row} {lo row hi v e kd n k st cur be es}
    (hk : k = .slice ∨ k = .array) (hes : elemsOf (k == .slice) v = some es) (hn : es.length = n)
    (hp : Pass ts a trs cur ⟨lo.length, k⟩ lo mk r0) (hag : agreeW mk r0 row) (hclhi : Clean hi) :
    ∀ (xs : List Val) (f i : Nat) (drow : Row) (dhi : List Row), (∀ f', f' < f → IHV ts a trs f') →
      i ≤ n → es.drop i = xs → CfgV ts a e kd drow → Clean (drow :: dhi) →
      (marshalList ts a trs f e xs).fail ≠ some .panic →
      Seg ts a trs ⟨lo ++ srow row v e ⟨lo.length + 1 + hi.length, kd⟩ i n :: (hi ++ drow :: dhi), st, some cur, be⟩
        (marshalList ts a trs f e xs) (SliceEnd ts a lo row hi v e kd n st cur be n) := by
  intro xs
  induction xs with
  | nil =>
    intro f i drow dhi hih hle hdrop hcfg hcl hnp
    cases f with
    | zero => simp [marshalList_zero, MOut.bad] at hnp
    | succ f =>
      have hi_n : i = n := by
        have := congrArg List.length hdrop
        simp at this; omega
      subst hi_n
      rw [marshalList_nil]
      exact Seg.nil ⟨drow, dhi, rfl, hcfg, hcl⟩
  | cons x xs ih =>
    intro f i drow dhi hih hle hdrop hcfg hcl hnp
    cases f with
    | zero => simp [marshalList_zero, MOut.bad] at hnp
    | succ f =>
      rw [marshalList_cons] at hnp ⊢
      have hx : es[i]? = some x := by
        have := congrArg (·[0]?) hdrop
        simpa using this
      have hlt : i < n := by
        have := congrArg List.length hdrop
        simp at this; omega
      refine Seg.seq (P1 := SliceEnd ts a lo row hi v e kd n st cur be (i + 1)) ?_ ?_
      · have hsim := hih f (Nat.lt_succ_self f) e x (lo.length + 1 + hi.length) drow dhi kd hcfg hcl
          (seq_fail_left hnp)
        have hl := Pass.link (hiP := hi ++ drow :: dhi) (hi0 := hi) (drow := drow) (dhi := dhi) (st := st) (be := be)
          (x := x) (rt := e) (d := ⟨lo.length + 1 + hi.length, kd⟩) hp
          (hag.trans (agreeW_srow mk row v e ⟨lo.length + 1 + hi.length, kd⟩ i n))
          (hag.trans (agreeW_srow mk row v e ⟨lo.length + 1 + hi.length, kd⟩ (i + 1 : Nat) n)) ?_
        · refine (seg_recurse hsim (len_at ..) hl.1 hl.2).mono ?_
          rintro s' ⟨drow2, dhi2, rfl, hq, hc⟩
          exact ⟨drow2, dhi2, by simp [reassoc], hq, hc⟩
        · intro n' res hrec hns
          refine ⟨n' + 1, ?_⟩
          rw [← hrec, stepM_slice_at hk, stepSlice_elem hk hes hx hlt, reassoc]
          rfl
      · rintro hnone s' ⟨drow2, dhi2, rfl, hq, hc⟩
        refine ih f (i + 1) drow2 dhi2 (fun f' hf' => hih f' (Nat.lt_succ_of_lt hf')) hlt ?_ hq hc ?_
        · rw [← List.drop_drop, hdrop]; rfl
        · exact seq_fail_right hnp hnone

theorem lenOf_of_elemsOf {sl v es} (h : elemsOf sl v = some es) : lenOf sl v = some es.length := by
  unfold elemsOf at h; unfold lenOf
  split at h <;> simp_all

theorem notNil_of_elemsOf {k : MK} {v es} (h : elemsOf (k == .slice) v = some es) :
    ((k == .slice) && isNilSlice v) = false := by
  unfold elemsOf at h
  split at h <;> simp_all [isNilSlice]

theorem release_at (lo : List Row) (row : Row) (rest : List Row) (h : rest ≠ []) :
    release (lo ++ row :: rest) = lo ++ row :: rest.dropLast := by
  unfold release
  rw [List.dropLast_append_of_ne_nil (by simp), List.dropLast_cons_of_ne_nil h]

theorem stepSlice_open {rc : RecurseF} {lo row hi v e d n k st cur be es}
    (hes : elemsOf (k == .slice) v = some es) :
    stepSlice rc ⟨lo.length, k⟩ (srow row v e d (-1) n) ⟨lo ++ srow row v e d (-1) n :: hi, st, cur, be⟩ =
      .ok ⟨⟨.arrOpen es.length, none⟩, false, ⟨lo ++ srow row v e d (0 : Nat) n :: hi, st, cur, be⟩⟩ := by
  have h0 := notNil_of_elemsOf hes
  have h1 : ((k == MK.slice) && decide ((-1 : Int) < 0) && isNilSlice v) = false := by
    rw [Bool.and_assoc, Bool.and_comm (decide _), ← Bool.and_assoc, h0]; rfl
  simp only [stepSlice, srow, h1, lenOf_of_elemsOf hes]
  simp [upd_at, SliceM.incr, srow, tk]
  intro hk; subst hk; simpa using h0

theorem stepSlice_close {rc : RecurseF} {lo row hi v e d n k st cur be} (hhi : hi ≠ []) :
    stepSlice rc ⟨lo.length, k⟩ (srow row v e d (n : Nat) n) ⟨lo ++ srow row v e d (n : Nat) n :: hi, st, cur, be⟩ =
      .ok ⟨⟨.arrClose, none⟩, true, ⟨lo ++ srow row v e d ((n : Nat) + 1) n :: hi.dropLast, st, cur, be⟩⟩ := by
  have h1 : ¬ ((n : Int) < 0) := by omega
  simp only [stepSlice, srow, h1, decide_false, Bool.and_false, Bool.false_and, if_false, if_true]
  simp [updRow_at, SliceM.incr, srow, tk, release_at _ _ _ hhi]

theorem resetSlice_at {n lo row hi rt v e k drow kd len} (hk : k = .slice ∨ k = .array)
    (helem : elemOf ts rt = some e) (hy : yieldM ts a n Row.zero e = .ok (drow, kd))
    (hlen : lenOf (k == .slice) v = some len) :
    resetM ts a trs (n+1) ⟨lo.length, k⟩ rt v (lo ++ row :: hi) =
      .ok (lo ++ srow row v e ⟨lo.length + 1 + hi.length, kd⟩ (-1) len :: (hi ++ [drow])) := by
  have : resetM ts a trs (n+1) ⟨lo.length, k⟩ rt v (lo ++ row :: hi) =
      resetSlice ts a n ⟨lo.length, k⟩ rt v (lo ++ row :: hi) := by
    cases hk with
    | inl h => subst h; simp only [resetM_at, resetBody, getRow]
    | inr h => subst h; simp only [resetM_at, resetBody, getRow]
  rw [this]
  simp only [resetSlice, helem, requisition_at hy, hlen, reassoc, updRow_at, len_at, srow]

/-- `mach.index++` from -1 -/
def sliceAt0 (r : Row) : Row := { r with slice := { r.slice with index := (0 : Nat) } }

theorem sim_slice_elems {mk vm : Mask} {Q : Row → Prop} {L row hi rt v e kd ny drow k f es}
    (hk : k = .slice ∨ k = .array) (helem : elemOf ts rt = some e)
    (hes : elemsOf (k == .slice) v = some es)
    (hy : yieldM ts a ny Row.zero e = .ok (drow, kd)) (hcfgd : CfgV ts a e kd drow) (hdcl : drow.map.value = false)
    (hcl : Clean (row :: hi)) (hih : ∀ f', f' < f → IHV ts a trs f')
    (hQ : ∀ r : Row, Q r)
    (hnp : (marshalList ts a trs f e es).fail ≠ some .panic) :
    Sim ts a trs mk vm Q L row hi ⟨L, k⟩ rt v
      ((MOut.ok [⟨.arrOpen es.length, none⟩]).seq fun _ =>
        (marshalList ts a trs f e es).seq fun _ => MOut.ok [⟨.arrClose, none⟩]) := by
  refine ⟨fun e' h => by simp [MOut.seq, MOut.ok] at h, fun _ => ?_⟩
  refine ⟨ny+1, srow row v e ⟨L + 1 + hi.length, kd⟩ (-1) es.length, hi ++ [drow],
    fun lo hl => by subst hl; exact resetSlice_at hk helem hy (lenOf_of_elemsOf hes), agreeW_srow .., hQ _,
    Clean.cons hcl.head (Clean.append hcl.tail (Clean.cons hdcl (fun _ h => by cases h))), fun lo hl => ?_⟩
  subst hl
  refine runsAs_container (fA := sliceAt0) (hiA := hi ++ [drow])
    (PE := fun rowB st cur be s' => rowB.map.value = false ∧
      SliceEnd ts a lo rowB hi v e kd es.length st cur be es.length s') ?_
    (fun r => ⟨fun _ => rfl, fun _ => rfl, fun _ => rfl⟩) ?_ ?_
  · intro w st be cur
    refine ⟨1, ?_⟩
    show stepM ts a trs 1 ⟨lo.length, k⟩
      ⟨lo ++ srow (setWm vm w row) v e ⟨lo.length + 1 + hi.length, kd⟩ (-1) es.length :: (hi ++ [drow]), st, some cur, be⟩ = _
    rw [stepM_slice_at hk, stepSlice_open hes]
    rfl
  · intro w w' cur st be hp
    refine (slice_loop (row := setWm vm w' (sliceAt0 (setWm vm w (srow row v e ⟨lo.length + 1 + hi.length, kd⟩ (-1) es.length))))
      hk hes rfl hp (agreeW.refl _ _) hcl.tail es f 0 drow [] hih (Nat.zero_le _) rfl hcfgd
      (Clean.cons hdcl (fun _ h => by cases h)) hnp).mono (fun s' h => ⟨hcl.head, h⟩)
  · rintro rowB cur st be s' ⟨hval, drow', dhi', rfl, hq, hc⟩
    refine ⟨_, _, srow rowB v e ⟨lo.length + 1 + hi.length, kd⟩ ((es.length : Nat) + 1) es.length,
      (hi ++ drow' :: dhi').dropLast, 1, rfl, agreeW_srow .., ?_, agreeW_srow .., hQ _,
      Clean.cons (by rw [srow_map]; exact hval) (Clean.dropLast (Clean.append hcl.tail hc))⟩
    rw [stepM_slice_at hk, stepSlice_close (by simp)]

theorem sim_slice_nil {mk vm : Mask} {Q : Row → Prop} {L row hi rt e kd ny drow}
    (helem : elemOf ts rt = some e)
    (hy : yieldM ts a ny Row.zero e = .ok (drow, kd)) (hdcl : drow.map.value = false)
    (hcl : Clean (row :: hi)) (hQ : ∀ r : Row, Q r) :
    Sim ts a trs mk vm Q L row hi ⟨L, .slice⟩ rt (.slice none) (MOut.ok [⟨.null, none⟩]) := by
  refine ⟨fun e' h => by simp [MOut.ok] at h, fun _ => ?_⟩
  have hcl1 : ∀ r : Row, r.map.value = false → Clean (r :: (hi ++ [drow])) :=
    fun r hr => Clean.cons hr (Clean.append hcl.tail (Clean.cons hdcl (fun _ h => by cases h)))
  refine ⟨ny+1, srow row (.slice none) e ⟨L + 1 + hi.length, kd⟩ (-1) 0, hi ++ [drow],
    fun lo hl => by subst hl; exact resetSlice_at (Or.inl rfl) helem hy rfl, agreeW_srow .., hQ _, hcl1 _ hcl.head,
    fun lo hl => ?_⟩
  subst hl
  refine runsAs_single (n := 1) (f := fun r => r) (hi2 := hi ++ [drow]) ?_ (fun _ => agreeW.refl _ _) (fun _ => hQ _)
    (fun _ => hcl1 _ hcl.head)
  intro w st be cur
  show stepM ts a trs 1 ⟨lo.length, .slice⟩
    ⟨lo ++ srow (setWm vm w row) (.slice none) e ⟨lo.length + 1 + hi.length, kd⟩ (-1) 0 :: (hi ++ [drow]), st, some cur, be⟩ = _
  rw [stepM_slice_at (Or.inl rfl)]
  simp [stepSlice, srow, isNilSlice, tk]
  rfl
