/-
  The BFS of `exploreFields` against the path-based `candidates` on embedding trees:
  if no struct type is expanded twice (`expT … .Nodup`), the raw BFS output is a permutation of
  `candidates`.
-/
import RefmtModel
import RefmtProofs.Lemmas.Autogen
import RefmtProofs.Lemmas.AutogenBfs
set_option linter.unusedSimpArgs false
set_option linter.unusedVariables false
namespace Refmt.Autogen
open Refmt Refmt.Obj
open List (Perm)

/-! ### list lemmas -/

theorem flatMap_append_perm {α β : Type} (l : List α) (f g : α → List β) :
    (l.flatMap (fun x => f x ++ g x)).Perm (l.flatMap f ++ l.flatMap g) := by
  induction l with
  | nil => simp
  | cons a l ih =>
    simp only [List.flatMap_cons]
    have h1 : (f a ++ g a ++ List.flatMap (fun x => f x ++ g x) l).Perm
        (f a ++ g a ++ (List.flatMap f l ++ List.flatMap g l)) := Perm.append_left _ ih
    refine h1.trans ?_
    simp only [List.append_assoc]
    refine Perm.append_left _ ?_
    simp only [← List.append_assoc]
    exact Perm.append_right _ List.perm_append_comm

theorem perm_flatMap_left {α β : Type} (l : List α) (f g : α → List β) (h : ∀ x ∈ l, (f x).Perm (g x)) :
    (l.flatMap f).Perm (l.flatMap g) := by
  induction l with
  | nil => simp
  | cons a l ih =>
    simp only [List.flatMap_cons]
    exact Perm.append (h a (by simp)) (ih (fun x hx => h x (by simp [hx])))

theorem flatMap_ite_filter {α β : Type} (l : List α) (p : α → Bool) (f : α → List β) :
    l.flatMap (fun x => if p x then f x else []) = (l.filter p).flatMap f := by
  induction l with
  | nil => rfl
  | cons a l ih =>
    simp only [List.flatMap_cons, List.filter_cons, ih]
    cases p a <;> simp

theorem flatMap_congr' {α β : Type} (l : List α) (f g : α → List β) (h : ∀ x ∈ l, f x = g x) :
    l.flatMap f = l.flatMap g := by
  induction l with
  | nil => rfl
  | cons a l ih =>
    simp only [List.flatMap_cons]
    rw [h a (by simp), ih (fun x hx => h x (by simp [hx]))]

/-! ### one step of `candidates` -/

theorem candidates_field (ts : Types) (u : UTab) (fuel : Nat) (path route : List Nat) (sty : Nat) (p : FieldDesc × Nat) :
    (match p with
      | (sf, i) =>
        let skip := if sf.embedded then (!sf.exported && !kindIsStruct ts (derefOnce ts sf.ty)) else !sf.exported
        if skip then [] else
        let tag := sf.tag.getD []
        if tag == [45] then [] else
        let (nm0, opts) := parseTag tag
        let nm := if isValidTag u nm0 then nm0 else []
        let ft := derefOnce ts sf.ty
        if !nm.isEmpty || !sf.embedded || !kindIsStruct ts ft then
          if !sf.exported then [] else
          [(⟨if nm.isEmpty then downcaseFirst u sf.name else nm, route ++ [i], sf.ty, !nm.isEmpty,
            optContains opts [111, 109, 105, 116, 101, 109, 112, 116, 121]⟩ : AField)]
        else candidates ts u fuel (sty :: path) (route ++ [i]) ft) =
    fieldOut ts u route p ++ (childOut ts u route p).flatMap (fun c => candidates ts u fuel (sty :: path) c.1 c.2) := by
  obtain ⟨sf, i⟩ := p
  simp only [fieldOut, childOut]
  by_cases hskip : (if sf.embedded then (!sf.exported && !kindIsStruct ts (derefOnce ts sf.ty)) else !sf.exported) = true
  · simp only [hskip, if_true]; rfl
  · simp only [hskip, if_false, Bool.false_eq_true]
    by_cases htag : (sf.tag.getD [] == [45]) = true
    · simp only [htag, if_true]; rfl
    · simp only [htag, if_false, Bool.false_eq_true]
      by_cases hcond : (!List.isEmpty (if isValidTag u (parseTag (sf.tag.getD [])).fst = true then
            (parseTag (sf.tag.getD [])).fst else []) || !sf.embedded || !kindIsStruct ts (derefOnce ts sf.ty)) = true
      · simp only [hcond, if_true]
        by_cases hexp : (!sf.exported) = true
        · simp only [hexp, if_true]; rfl
        · simp only [hexp, if_false, Bool.false_eq_true]; simp
      · simp only [hcond, if_false, Bool.false_eq_true]; simp

theorem candidates_succ (ts : Types) (u : UTab) (fuel : Nat) (path route : List Nat) (sty : Nat) :
    (candidates ts u (fuel + 1) path route sty).Perm
      (if path.contains sty then [] else
        fieldsOf ts u (route, sty) ++
          (childrenOf ts u (route, sty)).flatMap (fun c => candidates ts u fuel (sty :: path) c.1 c.2)) := by
  rw [candidates]
  by_cases hp : path.contains sty = true
  · simp only [hp, if_true]; exact Perm.refl _
  · simp only [hp, if_false, Bool.false_eq_true, fieldsOf, childrenOf]
    cases hty : ts.get sty with
    | struct fds =>
      simp only []
      rw [flatMap_congr' _ _ _ (fun p _ => candidates_field ts u fuel path route sty p), List.flatMap_assoc]
      exact flatMap_append_perm _ _ _
    | _ => simp

/-! ### tree nodes with their ancestor path -/

/-- (types of the strict ancestors, (route, type)) -/
abbrev XNode := List Nat × Node

def xlive (x : XNode) : Bool := !x.1.contains x.2.2

def xchildren (ts : Types) (u : UTab) (x : XNode) : List XNode :=
  (childrenOf ts u x.2).map fun c => (x.2.2 :: x.1, c)

def nextX (ts : Types) (u : UTab) (ns : List XNode) : List XNode := (ns.filter xlive).flatMap (xchildren ts u)

def candsX (ts : Types) (u : UTab) (fuel : Nat) (ns : List XNode) : List AField :=
  ns.flatMap fun x => candidates ts u fuel x.1 x.2.1 x.2.2

/-- the embedded struct types queued by a struct type -/
def childTypes (ts : Types) (u : UTab) (sty : Nat) : List Nat := (childrenOf ts u ([], sty)).map (·.2)

/-- struct types expanded along all embedding paths (the model-side reading of `C19.expanded`) -/
def expT (ts : Types) (u : UTab) : Nat → List Nat → Nat → List Nat
  | 0, _, _ => []
  | fuel+1, path, sty =>
    if path.contains sty then [] else
    sty :: (childTypes ts u sty).flatMap (fun t => expT ts u fuel (sty :: path) t)

def expX (ts : Types) (u : UTab) (fuel : Nat) (ns : List XNode) : List Nat :=
  ns.flatMap fun x => expT ts u fuel x.1 x.2.2

theorem childOut_types (ts : Types) (u : UTab) (r r' : List Nat) (p : FieldDesc × Nat) :
    (childOut ts u r p).map (·.2) = (childOut ts u r' p).map (·.2) := by
  simp only [childOut]
  repeat' split
  all_goals simp

theorem childrenOf_types (ts : Types) (u : UTab) (r : List Nat) (sty : Nat) :
    (childrenOf ts u (r, sty)).map (·.2) = childTypes ts u sty := by
  simp only [childTypes, childrenOf]
  cases ts.get sty with
  | struct fds =>
    simp only [List.map_flatMap]
    exact flatMap_congr' _ _ _ (fun p _ => childOut_types ts u r [] p)
  | _ => rfl

theorem candsX_zero (ts : Types) (u : UTab) (ns : List XNode) : candsX ts u 0 ns = [] := by
  induction ns with
  | nil => rfl
  | cons x ns ih =>
    simp only [candsX, List.flatMap_cons] at ih ⊢
    rw [ih]; simp [candidates]

theorem candsX_succ (ts : Types) (u : UTab) (fuel : Nat) (ns : List XNode) :
    (candsX ts u (fuel + 1) ns).Perm
      ((ns.filter xlive).flatMap (fun x => fieldsOf ts u x.2) ++ candsX ts u fuel (nextX ts u ns)) := by
  have h1 : (candsX ts u (fuel + 1) ns).Perm
      (ns.flatMap (fun x => if xlive x then
        fieldsOf ts u x.2 ++ (xchildren ts u x).flatMap (fun y => candidates ts u fuel y.1 y.2.1 y.2.2) else [])) := by
    apply perm_flatMap_left
    intro x _
    refine (candidates_succ ts u fuel x.1 x.2.1 x.2.2).trans (Perm.of_eq ?_)
    simp only [xlive, xchildren, List.flatMap_map]
    cases x.1.contains x.2.2 <;> simp
  refine h1.trans ?_
  rw [flatMap_ite_filter]
  refine (flatMap_append_perm _ _ _).trans (Perm.of_eq ?_)
  simp only [candsX, nextX, List.flatMap_assoc]

theorem expX_succ (ts : Types) (u : UTab) (fuel : Nat) (ns : List XNode) :
    (expX ts u (fuel + 1) ns).Perm ((ns.filter xlive).map (·.2.2) ++ expX ts u fuel (nextX ts u ns)) := by
  have h1 : expX ts u (fuel + 1) ns =
      (ns.flatMap (fun x => if xlive x then
        [x.2.2] ++ (xchildren ts u x).flatMap (fun y => expT ts u fuel y.1 y.2.2) else [])) := by
    apply flatMap_congr'
    intro x _
    rw [expT]
    simp only [xlive, xchildren, List.flatMap_map, ← childrenOf_types ts u x.2.1 x.2.2]
    cases x.1.contains x.2.2 <;> simp
  rw [h1, flatMap_ite_filter]
  refine (flatMap_append_perm _ _ _).trans (Perm.of_eq ?_)
  simp only [expX, nextX, List.flatMap_assoc]
  congr 1
  induction (ns.filter xlive) with
  | nil => rfl
  | cons a l ih => simp [ih]

/-! ### the next-level queue and its counts -/

theorem lookup_filter_ne (a t : Nat) (h : t ≠ a) : ∀ (q : List (Nat × Nat)),
    (q.filter (·.1 != a)).lookup t = q.lookup t := by
  intro q
  induction q with
  | nil => rfl
  | cons e q ih =>
    obtain ⟨k, v⟩ := e
    rw [List.filter_cons]
    by_cases hk : k = a
    · subst hk
      have h1 : (t == k) = false := by simp [h]
      simp [List.lookup_cons, h1, ih]
    · have h1 : ((k, v).1 != a) = true := by simp [hk]
      simp only [h1, if_true, List.lookup_cons, ih]

theorem enq_count (q : List Node × List (Nat × Nat)) (c : Node) (t : Nat) :
    ((enq false q c).2.lookup t).getD 0 = (q.2.lookup t).getD 0 + (if c.2 = t then 1 else 0) := by
  simp only [enq, List.lookup_cons]
  by_cases h : c.2 = t
  · subst h; simp
  · have h1 : (t == c.2) = false := by simp; exact fun e => h e.symm
    simp only [h1, h, if_false, Nat.add_zero]
    rw [lookup_filter_ne c.2 t (fun e => h e.symm)]

/-- `q` is the queue/count state after enqueuing the nodes `L0` (seen through the type filter `pt`) -/
def EnqInv (pt : Nat → Bool) (L0 : List Node) (q : List Node × List (Nat × Nat)) : Prop :=
  (∀ t, (q.2.lookup t).getD 0 = (L0.map (·.2)).count t) ∧
  q.1.filter (fun c => pt c.2) = L0.filter (fun c => pt c.2)

theorem enq_inv_step (pt : Nat → Bool) (L0 : List Node) (q : List Node × List (Nat × Nat)) (c : Node)
    (hq : EnqInv pt L0 q) (hnd : (((L0 ++ [c]).filter (fun c => pt c.2)).map (·.2)).Nodup) :
    EnqInv pt (L0 ++ [c]) (enq false q c) := by
  obtain ⟨hcnt, hqueue⟩ := hq
  constructor
  · intro t
    rw [enq_count, hcnt t, List.map_append, List.count_append]
    simp only [List.map_cons, List.map_nil, List.count_cons, List.count_nil, beq_iff_eq, Nat.zero_add]
  · simp only [enq]
    by_cases h0 : ((q.2.lookup c.2).getD 0 == 0) = true
    · simp only [h0, if_true, List.filter_append, hqueue]
    · simp only [h0, if_false, Bool.false_eq_true, List.filter_append, hqueue]
      suffices hpc : pt c.2 = false by simp [hpc]
      cases hpc : pt c.2 with
      | false => rfl
      | true =>
        exfalso
        have hpos : 0 < (L0.map (·.2)).count c.2 := by
          rw [← hcnt c.2]
          simp only [beq_iff_eq] at h0
          omega
        rw [List.count_pos_iff, List.mem_map] at hpos
        obtain ⟨c', hc', hty⟩ := hpos
        rw [List.filter_append, List.map_append] at hnd
        have hdisj := (List.nodup_append.mp hnd).2.2
        refine hdisj c.2 ?_ c.2 ?_ rfl
        · rw [List.mem_map]
          exact ⟨c', List.mem_filter.mpr ⟨hc', by rw [hty]; exact hpc⟩, hty⟩
        · simp [hpc]

theorem enq_inv_foldl (pt : Nat → Bool) : ∀ (L L0 : List Node) (q : List Node × List (Nat × Nat)),
    EnqInv pt L0 q → (((L0 ++ L).filter (fun c => pt c.2)).map (·.2)).Nodup →
    EnqInv pt (L0 ++ L) (L.foldl (enq false) q) := by
  intro L
  induction L with
  | nil => intro L0 q hq _; simpa using hq
  | cons c L ih =>
    intro L0 q hq hnd
    rw [List.foldl_cons]
    have e : L0 ++ c :: L = (L0 ++ [c]) ++ L := by simp
    rw [e] at hnd ⊢
    refine ih (L0 ++ [c]) (enq false q c) (enq_inv_step pt L0 q c hq ?_) hnd
    rw [List.filter_append, List.map_append] at hnd
    exact (List.nodup_append.mp hnd).1

theorem enq_inv_nil (pt : Nat → Bool) : EnqInv pt [] ([], []) := by
  constructor
  · intro t; simp
  · rfl

/-! ### one level of the BFS, when the unvisited queued types are distinct -/

theorem outer_fold_spec (ts : Types) (u : UTab) (count : List (Nat × Nat)) :
    ∀ (current : List Node) (F : List AField) (Q : List Node) (C : List (Nat × Nat)) (V : List Nat),
    ((current.filter (fun c => !V.contains c.2)).map (·.2)).Nodup →
    (∀ c ∈ current.filter (fun c => !V.contains c.2), ¬ ((count.lookup c.2).getD 0 > 1)) →
    current.foldl (outerStep ts u count) (F, Q, C, V) =
      (F ++ (current.filter (fun c => !V.contains c.2)).flatMap (fieldsOf ts u),
       (List.foldl (enq false) (Q, C) ((current.filter (fun c => !V.contains c.2)).flatMap (childrenOf ts u))).1,
       (List.foldl (enq false) (Q, C) ((current.filter (fun c => !V.contains c.2)).flatMap (childrenOf ts u))).2,
       ((current.filter (fun c => !V.contains c.2)).map (·.2)).reverse ++ V) := by
  intro current
  induction current with
  | nil => intro F Q C V _ _; simp
  | cons c cs ih =>
    intro F Q C V hnd hdup
    rw [List.foldl_cons]
    by_cases hv : V.contains c.2 = true
    · have hstep : outerStep ts u count (F, Q, C, V) c = (F, Q, C, V) := by simp only [outerStep, hv, if_true]
      have hfil : (c :: cs).filter (fun c => !V.contains c.2) = cs.filter (fun c => !V.contains c.2) := by
        rw [List.filter_cons]; simp only [hv, Bool.not_true, Bool.false_eq_true, if_false]
      rw [hstep, hfil]
      rw [hfil] at hnd hdup
      exact ih F Q C V hnd hdup
    · have hv' : V.contains c.2 = false := by simpa using hv
      have hfil : (c :: cs).filter (fun c => !V.contains c.2) = c :: cs.filter (fun c => !V.contains c.2) := by
        rw [List.filter_cons]; simp only [hv', Bool.not_false, if_true]
      rw [hfil] at hdup
      have hd : decide ((count.lookup c.2).getD 0 > 1) = false := by
        have := hdup c (by simp)
        simpa using this
      have hstep : outerStep ts u count (F, Q, C, V) c =
          (F ++ fieldsOf ts u c,
           (List.foldl (enq false) (Q, C) (childrenOf ts u c)).1,
           (List.foldl (enq false) (Q, C) (childrenOf ts u c)).2, c.2 :: V) := by
        simp only [outerStep, hv', Bool.false_eq_true, if_false, hd, dupl]
      rw [hfil, List.map_cons, List.nodup_cons] at hnd
      have hfil2 : cs.filter (fun x => !(c.2 :: V).contains x.2) = cs.filter (fun x => !V.contains x.2) := by
        apply List.filter_congr
        intro x hx
        cases hxv : V.contains x.2 with
        | true => simp only [List.contains_cons, hxv, Bool.or_true]
        | false =>
          have hne : x.2 ≠ c.2 := by
            intro e
            apply hnd.1
            rw [List.mem_map]
            exact ⟨x, List.mem_filter.mpr ⟨hx, by simp only [hxv, Bool.not_false]⟩, e⟩
          have hb : (x.2 == c.2) = false := by simp [hne]
          simp only [List.contains_cons, hxv, hb, Bool.or_false]
      rw [hstep, ih _ _ _ (c.2 :: V) (by rw [hfil2]; exact hnd.2)
        (by rw [hfil2]; exact fun x hx => hdup x (List.mem_cons_of_mem _ hx)), hfil2, hfil]
      simp only [List.flatMap_cons, List.foldl_append, List.map_cons, List.reverse_cons, List.append_assoc,
        List.singleton_append]

/-! ### the BFS state against the tree frontier -/

structure Inv (ts : Types) (u : UTab) (fuel : Nat) (ns : List XNode) (current : List Node)
    (count : List (Nat × Nat)) (visited : List Nat) : Prop where
  nodup : (visited ++ expX ts u fuel ns).Nodup
  paths : ∀ x ∈ ns, ∀ t ∈ x.1, t ∈ visited
  queue : current.filter (fun c => !visited.contains c.2) =
    (ns.filter (fun x => !visited.contains x.2.2)).map (·.2)
  cnt : ∀ t, (count.lookup t).getD 0 ≤ (ns.map (·.2.2)).count t

theorem live_iff (ts : Types) (u : UTab) (fuel : Nat) (ns : List XNode) (visited : List Nat)
    (hnd : (visited ++ expX ts u (fuel + 1) ns).Nodup) (hpaths : ∀ x ∈ ns, ∀ t ∈ x.1, t ∈ visited) :
    ∀ x ∈ ns, (!visited.contains x.2.2) = xlive x := by
  intro x hx
  unfold xlive
  cases hc : x.1.contains x.2.2 with
  | true =>
    have : x.2.2 ∈ visited := hpaths x hx _ (by simpa using hc)
    have : visited.contains x.2.2 = true := by simpa using this
    rw [this]
  | false =>
    have hmem : x.2.2 ∈ expX ts u (fuel + 1) ns := by
      unfold expX
      rw [List.mem_flatMap]
      refine ⟨x, hx, ?_⟩
      rw [expT]
      simp only [hc, Bool.false_eq_true, if_false, List.mem_cons, true_or]
    have hdisj := (List.nodup_append.mp hnd).2.2
    have : visited.contains x.2.2 = false := by
      cases hv : visited.contains x.2.2 with
      | false => rfl
      | true => exact absurd rfl (hdisj x.2.2 (by simpa using hv) x.2.2 hmem)
    rw [this]

theorem live_types_nodup (ts : Types) (u : UTab) (fuel : Nat) (ns : List XNode) (visited : List Nat)
    (hnd : (visited ++ expX ts u (fuel + 1) ns).Nodup) : ((ns.filter xlive).map (·.2.2)).Nodup := by
  have h1 := (List.nodup_append.mp hnd).2.1
  have h2 := (expX_succ ts u fuel ns).nodup h1
  exact (List.nodup_append.mp h2).1

theorem count_filter_types (t : Nat) (p : XNode → Bool) : ∀ (l : List XNode),
    (∀ y ∈ l, y.2.2 = t → p y = true) → (l.map (·.2.2)).count t = ((l.filter p).map (·.2.2)).count t := by
  intro l
  induction l with
  | nil => intro _; rfl
  | cons a l ih =>
    intro h
    have ih' := ih (fun y hy => h y (by simp [hy]))
    rw [List.filter_cons]
    by_cases ha : a.2.2 = t
    · have := h a (by simp) ha
      simp only [this, if_true, List.map_cons, List.count_cons, ih']
    · cases hp : p a with
      | true => simp only [if_true, List.map_cons, List.count_cons, ih']
      | false =>
        have hb : (a.2.2 == t) = false := by simp [ha]
        simp only [Bool.false_eq_true, if_false, List.map_cons, List.count_cons, ih', hb, Nat.add_zero]

theorem nextX_nodes (ts : Types) (u : UTab) (ns : List XNode) :
    (nextX ts u ns).map (·.2) = ((ns.filter xlive).map (·.2)).flatMap (childrenOf ts u) := by
  simp only [nextX, xchildren, List.map_flatMap, List.flatMap_map, List.map_map]
  apply flatMap_congr'
  intro x _
  simp [Function.comp_def]

theorem mem_nextX (ts : Types) (u : UTab) (ns : List XNode) (y : XNode) (hy : y ∈ nextX ts u ns) :
    ∃ x ∈ ns, xlive x = true ∧ y.1 = x.2.2 :: x.1 := by
  simp only [nextX, xchildren, List.mem_flatMap, List.mem_map, List.mem_filter] at hy
  obtain ⟨x, ⟨hx, hl⟩, c, _, rfl⟩ := hy
  exact ⟨x, hx, hl, rfl⟩

theorem bfs_perm (ts : Types) (u : UTab) : ∀ (fuel : Nat) (ns : List XNode) (current : List Node)
    (count : List (Nat × Nat)) (visited : List Nat) (acc : List AField),
    (fuel ≠ 0 → Inv ts u fuel ns current count visited) →
    (bfs ts u fuel current count visited acc).Perm (acc ++ candsX ts u fuel ns) := by
  intro fuel
  induction fuel with
  | zero =>
    intro ns current count visited acc _
    rw [candsX_zero]
    simp [bfs]
  | succ fuel ih =>
    intro ns current count visited acc hinv
    have I := hinv (Nat.succ_ne_zero _)
    have hA := live_iff ts u fuel ns visited I.nodup I.paths
    have hA' : ns.filter (fun x => !visited.contains x.2.2) = ns.filter xlive :=
      List.filter_congr hA
    have hB := live_types_nodup ts u fuel ns visited I.nodup
    have hP : current.filter (fun c => !visited.contains c.2) = (ns.filter xlive).map (·.2) := by
      rw [I.queue, hA']
    have hstep := candsX_succ ts u fuel ns
    cases current with
    | nil =>
      have hLV : ns.filter xlive = [] := by
        have : (ns.filter xlive).map (·.2) = [] := by rw [← hP]; rfl
        simpa using this
      have hnil : candsX ts u (fuel + 1) ns = [] := by
        have : (candsX ts u (fuel + 1) ns).Perm [] := by
          refine hstep.trans (Perm.of_eq ?_)
          simp [nextX, hLV, candsX]
        exact List.perm_nil.mp this
      rw [hnil]
      simp [bfs]
    | cons c0 cs =>
      rw [bfs]
      · have hnodup : ∀ x ∈ ns.filter xlive, ¬ ((count.lookup x.2.2).getD 0 > 1) := by
          intro x hx
          have hxl := (List.mem_filter.mp hx).2
          have hxn := (List.mem_filter.mp hx).1
          have hc1 : (ns.map (·.2.2)).count x.2.2 ≤ 1 := by
            rw [count_filter_types x.2.2 xlive ns ?_]
            · exact List.nodup_iff_count.mp hB _
            · intro y hy hyt
              rw [← hA y hy, hyt, hA x hxn]
              exact hxl
          have hc2 := I.cnt x.2.2
          omega
        rw [scanLevel_eq, outer_fold_spec ts u count (c0 :: cs) [] [] [] visited
          (by rw [hP, List.map_map]; exact hB)
          (by
            rw [hP]
            intro c hc
            rw [List.mem_map] at hc
            obtain ⟨x, hx, rfl⟩ := hc
            exact hnodup x hx)]
        simp only [hP, List.nil_append]
        have hfound : ((ns.filter xlive).map (·.2)).flatMap (fieldsOf ts u) =
            (ns.filter xlive).flatMap (fun x => fieldsOf ts u x.2) := by rw [List.flatMap_map]
        rw [hfound]
        -- the next level
        have hL := nextX_nodes ts u ns
        rw [← hL]
        refine (ih (nextX ts u ns) _ _ _ _ ?_).trans ?_
        · intro hf
          obtain ⟨f, rfl⟩ := Nat.exists_eq_succ_of_ne_zero hf
          have hnd' : ((((ns.filter xlive).map (·.2)).map (·.2)).reverse ++ visited ++
              expX ts u (f + 1) (nextX ts u ns)).Nodup := by
            refine List.Perm.nodup ?_ I.nodup
            rw [List.map_map, List.append_assoc]
            refine (Perm.append_left _ (expX_succ ts u (f + 1) ns)).trans ?_
            rw [← List.append_assoc, ← List.append_assoc]
            refine Perm.append_right _ ?_
            refine List.perm_append_comm.trans (Perm.append_right _ ?_)
            exact (List.reverse_perm _).symm
          have hpaths' : ∀ x ∈ nextX ts u ns, ∀ t ∈ x.1,
              t ∈ (((ns.filter xlive).map (·.2)).map (·.2)).reverse ++ visited := by
            intro y hy t ht
            obtain ⟨x, hx, hxl, hyp⟩ := mem_nextX ts u ns y hy
            rw [hyp, List.mem_cons] at ht
            rw [List.mem_append]
            rcases ht with rfl | ht
            · left
              rw [List.mem_reverse, List.map_map, List.mem_map]
              exact ⟨x, List.mem_filter.mpr ⟨hx, hxl⟩, rfl⟩
            · exact Or.inr (I.paths x hx t ht)
          have hA2 := live_iff ts u f (nextX ts u ns) _ hnd' hpaths'
          have hB2 := live_types_nodup ts u f (nextX ts u ns) _ hnd'
          have hfm : ∀ (V : List Nat), ((nextX ts u ns).map (·.2)).filter (fun c => !V.contains c.2) =
              ((nextX ts u ns).filter (fun x => !V.contains x.2.2)).map (·.2) := by
            intro V
            rw [List.filter_map]
            rfl
          have henq := enq_inv_foldl
            (fun t => !((((ns.filter xlive).map (·.2)).map (·.2)).reverse ++ visited).contains t)
            ((nextX ts u ns).map (·.2)) [] ([], []) (enq_inv_nil _) (by
              rw [List.nil_append, hfm, List.map_map, List.filter_congr hA2]
              exact hB2)
          rw [List.nil_append] at henq
          exact {
            nodup := hnd'
            paths := hpaths'
            queue := by rw [henq.2, hfm]
            cnt := by
              intro t
              rw [henq.1 t, List.map_map]
              exact Nat.le_refl _ }
        · rw [List.append_assoc]
          exact Perm.append_left _ hstep.symm
      · intro h; cases h

end Refmt.Autogen
