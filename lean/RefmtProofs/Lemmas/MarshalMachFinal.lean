/-
  From the step relations to the executable `runX` / `finalState`.
-/
import RefmtProofs.Lemmas.MarshalMachMain
open Refmt Refmt.Obj Refmt.Obj.MM
set_option linter.unusedVariables false
set_option linter.unusedSimpArgs false

namespace Refmt.MachL

variable {ts : Types} {a : Atlas} {trs : Trs}

theorem DS.at {s res} (h : DS ts a trs s res) : ∃ N, ∀ sf, N ≤ sf → mstep ts a trs sf s = res := by
  obtain ⟨n, hm, hns⟩ := h
  exact ⟨n, fun sf hsf => by rw [mstep_mono hsf (hm ▸ hns), hm]⟩

theorem emits_runX : ∀ (toks : List Tok) (s s' : MState), Emits ts a trs s toks s' →
    ∃ N, ∀ sf, N ≤ sf → ∀ k, runX ts a trs sf (toks.length + k) s =
      (toks ++ (runX ts a trs sf k s').1, (runX ts a trs sf k s').2)
  | [], s, s', h => by
    cases h
    exact ⟨0, fun sf _ k => by simp⟩
  | t :: toks, s, s', h => by
    obtain ⟨s1, hd, hr⟩ := h
    obtain ⟨N1, h1⟩ := hd.at
    obtain ⟨N2, h2⟩ := emits_runX toks s1 s' hr
    refine ⟨max N1 N2, fun sf hsf k => ?_⟩
    have e1 := h1 sf (Nat.le_trans (Nat.le_max_left _ _) hsf)
    have e2 := h2 sf (Nat.le_trans (Nat.le_max_right _ _) hsf) k
    have hlen : (t :: toks).length + k = (toks.length + k) + 1 := by simp; omega
    rw [hlen, runX_succ, e1]
    simp [e2]

theorem fin_runX {s t s'} (h : DS ts a trs s (.ok ⟨t, true, s'⟩)) :
    ∃ N, ∀ sf, N ≤ sf → ∀ k, runX ts a trs sf (k + 1) s = ([t], none) := by
  obtain ⟨N, hN⟩ := h.at
  exact ⟨N, fun sf hsf k => by rw [runX_succ, hN sf hsf]; simp⟩

theorem err_runX {s x} (h : DS ts a trs s (.error x)) :
    ∃ N, ∀ sf, N ≤ sf → ∀ k, runX ts a trs sf (k + 1) s = ([], some x) := by
  obtain ⟨N, hN⟩ := h.at
  exact ⟨N, fun sf hsf k => by rw [runX_succ, hN sf hsf]⟩

theorem finalState_succ (sf k : Nat) (s : MState) :
    finalState ts a trs sf (k+1) s =
      match mstep ts a trs sf s with
      | .error _ => none
      | .ok res => if res.done then some res.st else finalState ts a trs sf k res.st := by
  rw [finalState]
  cases mstep ts a trs sf s <;> rfl

theorem emits_final : ∀ (toks : List Tok) (s s' : MState), Emits ts a trs s toks s' →
    ∃ N, ∀ sf, N ≤ sf → ∀ k, finalState ts a trs sf (toks.length + k) s = finalState ts a trs sf k s'
  | [], s, s', h => by
    cases h
    exact ⟨0, fun sf _ k => by simp⟩
  | t :: toks, s, s', h => by
    obtain ⟨s1, hd, hr⟩ := h
    obtain ⟨N1, h1⟩ := hd.at
    obtain ⟨N2, h2⟩ := emits_final toks s1 s' hr
    refine ⟨max N1 N2, fun sf hsf k => ?_⟩
    have e1 := h1 sf (Nat.le_trans (Nat.le_max_left _ _) hsf)
    have e2 := h2 sf (Nat.le_trans (Nat.le_max_right _ _) hsf) k
    have hlen : (t :: toks).length + k = (toks.length + k) + 1 := by simp; omega
    rw [hlen, finalState_succ, e1]
    simp [e2]

theorem fin_final {s t s'} (h : DS ts a trs s (.ok ⟨t, true, s'⟩)) :
    ∃ N, ∀ sf, N ≤ sf → ∀ k, finalState ts a trs sf (k + 1) s = some s' := by
  obtain ⟨N, hN⟩ := h.at
  exact ⟨N, fun sf hsf k => by rw [finalState_succ, hN sf hsf]; simp⟩

theorem bind_ok {fuel' dirty id v drow k R1}
    (hy : yieldM ts a fuel' Row.zero id = .ok (drow, k))
    (hr : resetM ts a trs fuel' ⟨0, k⟩ id v [drow] = .ok R1) :
    bind ts a trs fuel' dirty id v = { rows := R1, stack := [], step := some ⟨0, k⟩, bindErr := none } := by
  simp [MM.bind, requisition, hy, hr]

theorem bind_err {fuel' dirty id v drow k e}
    (hy : yieldM ts a fuel' Row.zero id = .ok (drow, k))
    (hr : resetM ts a trs fuel' ⟨0, k⟩ id v [drow] = .error (.f e)) :
    bind ts a trs fuel' dirty id v =
      { rows := [drow], stack := [], step := some ⟨0, k⟩, bindErr := some (.f e) } := by
  simp [MM.bind, requisition, hy, hr]

theorem mout_eta (r : MOut) : r = ⟨r.toks, r.fail⟩ := by cases r; rfl

/-- the run of the root machine, from its `RunsAs` -/
theorem top_run {Q : Row → Prop} {row1 hi1 c r} (hrun : RunsAs ts a trs FFF FFF Q [] row1 hi1 c r) :
    match r.fail with
    | none => ∃ init last smid s_end, r.toks = init ++ [last] ∧
        Emits ts a trs ⟨[] ++ row1 :: hi1, [], some c, none⟩ init smid ∧
        DS ts a trs smid (.ok ⟨last, true, s_end⟩) ∧ s_end.stack = [] ∧ s_end.rows ≠ []
    | some e => ∃ smid, Emits ts a trs ⟨[] ++ row1 :: hi1, [], some c, none⟩ r.toks smid ∧
        DS ts a trs smid (.error (.f e)) := by
  obtain ⟨n1, t1, done1, rowA, hiA, hst, _, hdone, hnd⟩ := hrun (getW row1) c [] none
  rw [setWm_FFF] at hst
  have hcs1 : CS ts a trs ⟨[] ++ row1 :: hi1, [], some c, none⟩
      (.ok ⟨t1, done1, ⟨[] ++ rowA :: hiA, [], some c, none⟩⟩) := ⟨n1, c, rfl, hst, NS.ok⟩
  cases done1 with
  | true =>
    obtain ⟨hr, _, _⟩ := hdone rfl
    rw [hr]
    exact ⟨[], t1, _, _, rfl, rfl, hcs1.toDS_fin, rfl, by simp⟩
  | false =>
    obtain ⟨rest, htoks, hrest⟩ := hnd rfl
    have hR := hrest (getW rowA) (Pass.refl _ _ _ _)
    rw [setWm_FFF] at hR
    unfold Rest at hR
    cases hf : r.fail with
    | none =>
      simp only [hf] at hR ⊢
      obtain ⟨mid, last, rowM, hiM, row2, hi2, n2, hre, hem, _, hfin, _, _, _⟩ := hR
      have hcs2 : CS ts a trs ⟨[] ++ rowM :: hiM, [], some c, none⟩
          (.ok ⟨last, true, ⟨[] ++ row2 :: hi2, [], some c, none⟩⟩) := ⟨n2, c, rfl, hfin, NS.ok⟩
      refine ⟨t1 :: mid, last, _, _, by rw [htoks, hre]; rfl, ⟨_, hcs1.toDS_tok, hem⟩, hcs2.toDS_fin, rfl, by simp⟩
    | some e =>
      simp only [hf] at hR ⊢
      obtain ⟨smid, hem, hd⟩ := hR
      rw [htoks]
      exact ⟨smid, ⟨_, hcs1.toDS_tok, hem⟩, hd⟩

/-- the refinement, for atlases in the fragment: whatever the state before `Bind`, with enough fuel the stateful
    marshaller produces the functional result; and after a completed run the stack is empty again (the rows are
    not: the root machine's row stays until the next `Bind`) -/
theorem refines_frag (hfrag : Frag ts a) (fuel id : Nat) (v : Val)
    (hnp : (marshalV ts a trs fuel id v).fail ≠ some .panic) :
    ∃ N, ∀ fuel', N ≤ fuel' → ∀ dirty : MState,
      run ts a trs fuel' (MM.bind ts a trs fuel' dirty id v) = marshalV ts a trs fuel id v ∧
      ((marshalV ts a trs fuel id v).fail = none →
        ∃ s', finalState ts a trs fuel' fuel' (MM.bind ts a trs fuel' dirty id v) = some s' ∧
          s'.stack = [] ∧ s'.rows ≠ []) := by
  obtain ⟨ny, drow, k, hy, hcfg, hval⟩ := yieldOK_of_frag hfrag id Row.zero
  have hcl : Clean [drow] := Clean.cons (by rw [hval]; rfl) (fun _ h => by cases h)
  have hsim := ihv_all (trs := trs) hfrag fuel id v 0 drow [] k hcfg hcl hnp
  have hyy : ∀ fuel', ny ≤ fuel' → yieldM ts a fuel' Row.zero id = .ok (drow, k) :=
    fun fuel' h => by rw [yieldM_mono h (hy ▸ NS.ok), hy]
  generalize hr : marshalV ts a trs fuel id v = r at hsim hnp
  obtain ⟨hs1, hs2⟩ := hsim
  by_cases hfailreset : r.toks = [] ∧ r.fail ≠ none
  · obtain ⟨htk, hf⟩ := hfailreset
    cases hfe : r.fail with
    | none => exact absurd hfe hf
    | some e =>
      obtain ⟨n, hn⟩ := hs1 e htk hfe
      have hn := hn [] rfl
      refine ⟨max ny n, fun fuel' hle dirty => ⟨?_, fun h => by simp [hfe] at h⟩⟩
      have h1 := hyy fuel' (Nat.le_trans (Nat.le_max_left _ _) hle)
      have h2 : resetM ts a trs fuel' ⟨0, k⟩ id v [drow] = .error (.f e) := by
        rw [resetM_mono (Nat.le_trans (Nat.le_max_right _ _) hle) (hn ▸ NS.f)]; exact hn
      rw [bind_err h1 h2, mout_eta r, htk, hfe]
      simp [run, XFail.toFail]
  · obtain ⟨n, row1, hi1, hreset, _, _, _, hrun⟩ := hs2 hfailreset
    have hreset := hreset [] rfl
    have hra := top_run (hrun [] rfl)
    cases hfe : r.fail with
    | none =>
      simp only [hfe] at hra
      obtain ⟨init, last, smid, s_end, htoks, hem, hds, hstk, hrows⟩ := hra
      obtain ⟨N1, hN1⟩ := emits_runX _ _ _ hem
      obtain ⟨N2, hN2⟩ := fin_runX hds
      obtain ⟨N3, hN3⟩ := emits_final _ _ _ hem
      obtain ⟨N4, hN4⟩ := fin_final hds
      refine ⟨ny + n + N1 + N2 + N3 + N4 + init.length + 1, fun fuel' hle dirty => ?_⟩
      have h1 := hyy fuel' (by omega)
      have h2 : resetM ts a trs fuel' ⟨0, k⟩ id v [drow] = .ok ([] ++ row1 :: hi1) := by
        rw [resetM_mono (by omega) (hreset ▸ NS.ok)]; exact hreset
      obtain ⟨k', hk'⟩ : ∃ k', fuel' = init.length + (k' + 1) := ⟨fuel' - init.length - 1, by omega⟩
      rw [bind_ok h1 h2]
      refine ⟨?_, fun _ => ⟨s_end, ?_, hstk, hrows⟩⟩
      · rw [mout_eta r, htoks, hfe]
        simp only [run]
        conv => lhs; rw [hk']
        rw [hN1 _ (by omega), hN2 _ (by omega)]
        simp
      · conv => lhs; arg 5; rw [hk']
        rw [hN3 _ (by omega), hN4 _ (by omega)]
    | some e =>
      simp only [hfe] at hra
      obtain ⟨smid, hem, hds⟩ := hra
      obtain ⟨N1, hN1⟩ := emits_runX _ _ _ hem
      obtain ⟨N2, hN2⟩ := err_runX hds
      refine ⟨ny + n + N1 + N2 + r.toks.length + 1, fun fuel' hle dirty => ⟨?_, fun h => by simp [hfe] at h⟩⟩
      have h1 := hyy fuel' (by omega)
      have h2 : resetM ts a trs fuel' ⟨0, k⟩ id v [drow] = .ok ([] ++ row1 :: hi1) := by
        rw [resetM_mono (by omega) (hreset ▸ NS.ok)]; exact hreset
      obtain ⟨k', hk'⟩ : ∃ k', fuel' = r.toks.length + (k' + 1) := ⟨fuel' - r.toks.length - 1, by omega⟩
      rw [bind_ok h1 h2]
      conv => rhs; rw [mout_eta r, hfe]
      simp only [run]
      conv => lhs; rw [hk']
      rw [hN1 _ (by omega), hN2 _ (by omega)]
      simp [XFail.toFail]
