/-
  Read faults (C16): a reader with an injected fault, seen as a function of the fault-free reader.

  `inj M stop b` is the reader `b` (fault-free) with a fault that fires when exactly `M` bytes of
  `b.data` are left, i.e. after `b.data.length - M` more delivered bytes.  Every reader operation
  either reports the injected error or commutes with `inj M stop`.
-/
import RefmtModel
set_option linter.unusedSimpArgs false
set_option linter.unusedVariables false
namespace Refmt.C16R
open Refmt

def inj (M : Nat) (stop : Bool) (b : Rd) : Rd := ⟨b.data, some (b.data.length - M, stop), b.pb⟩

/-- a fault-free reader that has not yet passed the fault position -/
def Ok (M : Nat) (b : Rd) : Prop := b.fault = none ∧ M ≤ b.data.length

@[simp] theorem inj_data (M : Nat) (stop : Bool) (b : Rd) : (inj M stop b).data = b.data := rfl

/-- results of `read1`-like functions -/
def mapP {α : Type} (g : Rd → Rd) : Except Err (α × Rd) × Rd → Except Err (α × Rd) × Rd
  | (.ok (x, r), r') => (.ok (x, g r), g r')
  | (.error e, r') => (.error e, g r')

def OkP {α : Type} (M : Nat) : Except Err (α × Rd) × Rd → Prop
  | (.ok (_, r), r') => Ok M r ∧ Ok M r'
  | (.error _, r') => Ok M r'

def DichP {α : Type} (M : Nat) (stop : Bool) (x y : Except Err (α × Rd) × Rd) : Prop :=
  (∃ r', x = (.error .injected, r')) ∨ (OkP M y ∧ x = mapP (inj M stop) y)

theorem read1_sim {M : Nat} {stop : Bool} (b : Rd) (h : Ok M b) :
    (∃ r', (inj M stop b).read1 = (.error .injected, r')) ∨
    (∃ x b1, b.read1 = (.ok (x, b1), b1) ∧
      (inj M stop b).read1 = (.ok (x, inj M stop b1), inj M stop b1) ∧ Ok M b1) := by
  obtain ⟨data, fault, pb⟩ := b
  obtain ⟨hf, hM⟩ := h
  simp only at hf hM
  subst hf
  by_cases hlen : data.length = M
  · left
    simp [inj, Rd.read1, hlen]
  · right
    cases data with
    | nil => simp at hM; subst hM; simp at hlen
    | cons x rest =>
      simp only [List.length_cons] at hM hlen
      have e : (x :: rest).length - M = (rest.length - M) + 1 := by simp only [List.length_cons]; omega
      refine ⟨x, ⟨rest, none, 0⟩, by simp [Rd.read1], ?_, rfl, by simp only []; omega⟩
      simp only [inj, Rd.read1, e]
      simp

theorem unread1_inj {M : Nat} {stop : Bool} (b : Rd) (x : Nat) (h : Ok M b) :
    (inj M stop b).unread1 x = inj M stop (b.unread1 x) ∧ Ok M (b.unread1 x) := by
  obtain ⟨data, fault, pb⟩ := b
  obtain ⟨hf, hM⟩ := h
  simp only at hf hM
  subst hf
  refine ⟨?_, rfl, by simp only [Rd.unread1, List.length_cons]; omega⟩
  simp only [inj, Rd.unread1, List.length_cons, Option.map_some, Rd.mk.injEq, true_and, and_true,
    Option.some.injEq, Prod.mk.injEq]
  omega

theorem readN_sim {M : Nat} {stop : Bool} (b : Rd) (n : Nat) (h : Ok M b) :
    (∃ r', (inj M stop b).readN n = (.error .injected, r')) ∨
    (∃ res b1, b.readN n = (res, b1) ∧ (inj M stop b).readN n = (res, inj M stop b1) ∧ Ok M b1) := by
  obtain ⟨data, fault, pb⟩ := b
  obtain ⟨hf, hM⟩ := h
  simp only at hf hM
  subst hf
  by_cases hn : n = 0
  · right
    exact ⟨.ok [], ⟨data, none, pb⟩, by simp [Rd.readN, hn], by simp [Rd.readN, hn], rfl, hM⟩
  · by_cases hle : n ≤ data.length - M
    · right
      have h1 : n ≤ data.length := by omega
      refine ⟨.ok (data.take n), ⟨data.drop n, none, 0⟩, by simp [Rd.readN, hn, h1], ?_, rfl,
        by simp only [List.length_drop]; omega⟩
      have h2 : n ≤ min (data.length - M) data.length := by omega
      simp only [inj, Rd.readN, hn, h2, if_true, if_false, Option.map_some, List.length_drop]
      have : data.length - M - n = data.length - n - M := by omega
      rw [this]
    · left
      have h2 : ¬ n ≤ min (data.length - M) data.length := by omega
      have h3 : data.length - M ≤ data.length := by omega
      simp only [inj, Rd.readN, hn, h2, h3, if_true, if_false]
      exact ⟨_, rfl⟩

end Refmt.C16R
