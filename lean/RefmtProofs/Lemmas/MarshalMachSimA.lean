/-
  Simulation lemmas for the leaf machines (primitive, error thunk) and the wrappers (ptrDeref, wildcard).
-/
import RefmtProofs.Lemmas.MarshalMachDefs
open Refmt Refmt.Obj Refmt.Obj.MM
set_option linter.unusedVariables false
set_option linter.unusedSimpArgs false

namespace Refmt.MachL

variable {ts : Types} {a : Atlas} {trs : Trs}

/-- a step of `c` that does not report done, seen as a step of the current machine -/
theorem Pass.cs_tok {cur c lo mk r0 row' hi' row'' hi'' st st' be n t} {cur' : Option MRef}
    (hp : Pass ts a trs cur c lo mk r0) (h1 : agreeW mk r0 row') (h2 : agreeW mk r0 row'')
    (h : stepM ts a trs n c ⟨lo ++ row' :: hi', st, some cur, be⟩ =
      .ok ⟨t, false, ⟨lo ++ row'' :: hi'', st', cur', be⟩⟩) :
    CS ts a trs ⟨lo ++ row' :: hi', st, some cur, be⟩ (.ok ⟨t, false, ⟨lo ++ row'' :: hi'', st', cur', be⟩⟩) := by
  obtain ⟨n', h'⟩ := hp.1 row' hi' st be n _ h1 h rfl ⟨row'', hi'', rfl, h2⟩
  exact ⟨n', cur, rfl, h', NS.ok⟩

theorem Pass.cs_err {cur c lo mk r0 row' hi' st be n e}
    (hp : Pass ts a trs cur c lo mk r0) (h1 : agreeW mk r0 row')
    (h : stepM ts a trs n c ⟨lo ++ row' :: hi', st, some cur, be⟩ = .error (.f e)) :
    CS ts a trs ⟨lo ++ row' :: hi', st, some cur, be⟩ (.error (.f e)) := by
  obtain ⟨n', h'⟩ := hp.2 row' hi' st be n e h1 h
  exact ⟨n', cur, rfl, h', NS.f⟩

theorem stepM_at {n lo row hi k st cur be} :
    stepM ts a trs (n+1) ⟨lo.length, k⟩ ⟨lo ++ row :: hi, st, cur, be⟩ =
      stepBody ts a n (stepM ts a trs n) (recurse ts a trs n) ⟨lo.length, k⟩ ⟨lo ++ row :: hi, st, cur, be⟩ := rfl

theorem resetM_at {n lo row hi k rt v} :
    resetM ts a trs (n+1) ⟨lo.length, k⟩ rt v (lo ++ row :: hi) =
      resetBody ts a trs n (resetM ts a trs n) ⟨lo.length, k⟩ rt v (lo ++ row :: hi) := rfl

/-- a machine whose only step emits one token and reports done, leaving its row as `f` makes it -/
theorem runsAs_single {mk vm : Mask} {Q : Row → Prop} {lo row1 hi1 c t hi2 n} {f : Row → Row}
    (hstep : ∀ w st be cur, stepM ts a trs n c ⟨lo ++ setWm vm w row1 :: hi1, st, some cur, be⟩ =
      .ok ⟨t, true, ⟨lo ++ f (setWm vm w row1) :: hi2, st, some cur, be⟩⟩)
    (hag : ∀ r, agreeW mk r (f r)) (hq : ∀ w, Q (f (setWm vm w row1)))
    (hc : ∀ w, Clean (f (setWm vm w row1) :: hi2)) :
    RunsAs ts a trs mk vm Q lo row1 hi1 c ⟨[t], none⟩ := by
  intro w cur st be
  exact ⟨n, t, true, _, hi2, hstep w st be cur, hag _, fun _ => ⟨rfl, hq w, hc w⟩, fun h => by cases h⟩

theorem primTok_irrel (i j : Nat) (v : Val) : primTok ts i v = primTok ts j v := rfl

theorem sim_prim {mk vm : Mask} {L row hi rt id v t} (hcl : Clean (row :: hi)) (hr : primTok ts id v = ⟨[t], none⟩) :
    Sim ts a trs mk vm (CfgBare .prim .prim) L row hi ⟨L, .prim⟩ rt v (primTok ts id v) := by
  rw [hr]
  refine ⟨fun e h => by simp at h, fun _ => ?_⟩
  refine ⟨1, { row with prim := { row.prim with rv := v } }, hi, fun lo hl => ?_, agreeW.refl _ _, rfl,
    Clean.cons hcl.head hcl.tail, fun lo hl => ?_⟩
  · subst hl; simp [resetM_at, resetBody, getRow, resetPrim, updRow_at]
  · subst hl
    refine runsAs_single (n := 1) (f := fun r => r) (hi2 := hi) ?_ (fun _ => agreeW.refl _ _) (fun _ => rfl)
      (fun _ => Clean.cons hcl.head hcl.tail)
    intro w st be cur
    simp only [stepM_at, stepBody, getRow, stepPrim, setWm_prim]
    rw [primTok_irrel _ id, hr]

theorem sim_errThunk {mk vm : Mask} {L row hi rt v} (hcfg : CfgBare .errThunk .errThunk row) :
    Sim ts a trs mk vm (CfgBare .errThunk .errThunk) L row hi ⟨L, .errThunk⟩ rt v (MOut.bad .err) := by
  refine ⟨fun e _ he => ⟨1, fun lo hl => ?_⟩, fun h => absurd ⟨rfl, by simp [MOut.bad]⟩ h⟩
  simp only [MOut.bad] at he
  cases he
  subst hl
  simp [resetM_at, resetBody, getRow, resetErr, hcfg.2]

theorem setWm_ptr_own (b2 b3 : Bool) (w : WVal) (r : Row) : (setWm (false, b2, b3) w r).ptr = r.ptr := rfl

theorem setWm_via_ptr (v1 b2 b3 : Bool) (w : WVal) (r : Row) :
    setWm (v1, b2, b3) (getW (setWm (false, b2, b3) w r)) r = setWm (false, b2, b3) w r := by
  cases v1 <;> cases b2 <;> cases b3 <;> rfl

theorem agreeW_ptr_le {b2 b3 : Bool} {r r' : Row} (h : agreeW (true, b2, b3) r r') : agreeW (false, b2, b3) r r' :=
  h.of_le ⟨fun x => (by cases x), fun x => x, fun x => x⟩

theorem sim_ptr_nil {p2 p3 b2 b3 : Bool} {Q : Row → Prop} {L row hi rt v} (hcl : Clean (row :: hi))
    (hd : derefN row.ptr.peelCount v = none)
    (hq : ∀ w, Q (setWm (false, b2, b3) w { row with ptr := { row.ptr with isNil := true } })) :
    Sim ts a trs (false, p2, p3) (false, b2, b3) Q L row hi ⟨L, .ptr⟩ rt v (MOut.ok [⟨.null, none⟩]) := by
  refine ⟨fun e h => by simp [MOut.ok] at h, fun _ => ?_⟩
  refine ⟨1, { row with ptr := { row.ptr with isNil := true } }, hi, fun lo hl => ?_,
    ⟨fun h => (by cases h), fun _ => rfl, fun _ => rfl⟩, ?_, Clean.cons hcl.head hcl.tail, fun lo hl => ?_⟩
  · subst hl; simp [resetM_at, resetBody, getRow, resetPtr, hd, updRow_at]
  · have := hq (getW { row with ptr := { row.ptr with isNil := true } })
    rwa [setWm_self] at this
  · subst hl
    refine runsAs_single (n := 1) (f := fun r => r) (hi2 := hi) ?_ (fun _ => agreeW.refl _ _) hq
      (fun _ => Clean.cons hcl.head hcl.tail)
    intro w st be cur
    simp [stepM_at, stepBody, getRow, stepPtr, tk, setWm_ptr_own]

theorem sim_ptr_some {p2 p3 v1 b2 b3 : Bool} {Q Qb : Row → Prop} {L row hi rt v inner k' r} (hcl : Clean (row :: hi))
    (hd : derefN row.ptr.peelCount v = some inner) (hm : row.ptr.mach = some k')
    (hsim : Sim ts a trs (true, p2, p3) (v1, b2, b3) Qb L { row with ptr := { row.ptr with isNil := false } } hi
      ⟨L, k'⟩ (peel ts 64 0 rt).2 inner r)
    (hqb : ∀ r2, Qb r2 → r2.ptr = { row.ptr with isNil := false } → Q r2) :
    Sim ts a trs (false, p2, p3) (false, b2, b3) Q L row hi ⟨L, .ptr⟩ rt v r := by
  obtain ⟨hs1, hs2⟩ := hsim
  have hreset : ∀ (lo : List Row) n, lo.length = L → resetM ts a trs (n+1) ⟨L, .ptr⟩ rt v (lo ++ row :: hi) =
      resetM ts a trs n ⟨L, k'⟩ (peel ts 64 0 rt).2 inner
        (lo ++ { row with ptr := { row.ptr with isNil := false } } :: hi) := by
    intro lo n hl; subst hl
    simp [resetM_at, resetBody, getRow, resetPtr, hd, hm, updRow_at]
  have hstep : ∀ (lo : List Row) n (rw : Row) hi' st cur be, lo.length = L → rw.ptr = { row.ptr with isNil := false } →
      stepM ts a trs (n+1) ⟨L, .ptr⟩ ⟨lo ++ rw :: hi', st, cur, be⟩ =
        stepM ts a trs n ⟨L, k'⟩ ⟨lo ++ rw :: hi', st, cur, be⟩ := by
    intro lo n rw hi' st cur be hl hP; subst hl
    simp [stepM_at, stepBody, getRow, stepPtr, hP, hm]
  refine ⟨fun e h1 h2 => ?_, fun hne => ?_⟩
  · obtain ⟨n, hn⟩ := hs1 e h1 h2
    exact ⟨n+1, fun lo hl => by rw [hreset lo n hl, hn lo hl]⟩
  · obtain ⟨n, row1, hi1, hr, hag1, hq1, hc1, hrun⟩ := hs2 hne
    have hp1 : row1.ptr = { row.ptr with isNil := false } := hag1.1 rfl
    refine ⟨n+1, row1, hi1, fun lo hl => by rw [hreset lo n hl, hr lo hl],
      ⟨fun h => (by cases h), hag1.2.1, hag1.2.2⟩, hqb _ hq1 hp1, hc1, fun lo hl => ?_⟩
    intro w cur st be
    obtain ⟨n1, t1, done1, rowA, hiA, hst, hagA, hdone, hnd⟩ :=
      hrun lo hl (getW (setWm (false, b2, b3) w row1)) cur st be
    rw [setWm_via_ptr] at hst hagA
    have hpA : rowA.ptr = { row.ptr with isNil := false } := by rw [hagA.1 rfl, setWm_ptr_own, hp1]
    refine ⟨n1+1, t1, done1, rowA, hiA, ?_, agreeW_ptr_le hagA, fun h => ?_, fun h => ?_⟩
    · rw [hstep lo _ _ _ _ _ _ hl (by rw [setWm_ptr_own, hp1]), hst]
    · obtain ⟨x1, x2, x3⟩ := hdone h
      exact ⟨x1, hqb _ x2 hpA, x3⟩
    · obtain ⟨rest, x1, x2⟩ := hnd h
      refine ⟨rest, x1, fun w' hp => ?_⟩
      have hpY : (setWm (false, b2, b3) w' rowA).ptr = { row.ptr with isNil := false } := by
        rw [setWm_ptr_own, hpA]
      have hp' : Pass ts a trs cur ⟨L, k'⟩ lo (true, p2, p3) (setWm (false, b2, b3) w' rowA) := by
        refine ⟨fun row' hi' st' be' n' res hag hs hnd' hshape => ?_, fun row' hi' st' be' n' e hag hs => ?_⟩
        · obtain ⟨row'', hi'', hrows, hag''⟩ := hshape
          refine hp.1 row' hi' st' be' (n'+1) res (agreeW_ptr_le hag) ?_ hnd' ⟨row'', hi'', hrows, agreeW_ptr_le hag''⟩
          rw [hstep lo _ _ _ _ _ _ hl (by rw [hag.1 rfl, hpY]), hs]
        · refine hp.2 row' hi' st' be' (n'+1) e (agreeW_ptr_le hag) ?_
          rw [hstep lo _ _ _ _ _ _ hl (by rw [hag.1 rfl, hpY]), hs]
      have hR := x2 (getW (setWm (false, b2, b3) w' rowA)) (by rw [setWm_via_ptr]; exact hp')
      rw [setWm_via_ptr] at hR
      unfold Rest at hR ⊢
      cases hf : r.fail with
      | some e => simp only [hf] at hR ⊢; exact hR
      | none =>
        simp only [hf] at hR ⊢
        obtain ⟨mid, last, rowM, hiM, row2, hi2, n2, y1, y2, y3, y4, y5, y6, y7⟩ := hR
        refine ⟨mid, last, rowM, hiM, row2, hi2, n2+1, y1, y2, agreeW_ptr_le y3, ?_, agreeW_ptr_le y5,
          hqb _ y6 (by rw [y5.1 rfl, hpY]), y7⟩
        rw [hstep lo _ _ _ _ _ _ hl (by rw [y3.1 rfl, hpY]), y4]

theorem reassoc (lo : List Row) (row : Row) (hi x : List Row) : (lo ++ row :: hi) ++ x = lo ++ row :: (hi ++ x) := by
  simp

abbrev FFF : Mask := (false, false, false)
theorem setWm_FFF (w : WVal) (r : Row) : setWm FFF w r = r := rfl

theorem sim_wild_nil {mk vm : Mask} {L row hi rt} (hcl : Clean (row :: hi)) :
    Sim ts a trs mk vm (CfgBare .wildcard .wild) L row hi ⟨L, .wild⟩ rt (.iface none)
      (MOut.ok [⟨.null, none⟩]) := by
  refine ⟨fun e h => by simp [MOut.ok] at h, fun _ => ?_⟩
  refine ⟨1, { row with wild := { delegate := none } }, hi, fun lo hl => ?_, agreeW.refl _ _, rfl,
    Clean.cons hcl.head hcl.tail, fun lo hl => ?_⟩
  · subst hl; simp [resetM_at, resetBody, getRow, resetWild, updRow_at]
  · subst hl
    refine runsAs_single (n := 1) (f := fun r => r) (hi2 := hi) ?_ (fun _ => agreeW.refl _ _) (fun _ => rfl)
      (fun _ => Clean.cons hcl.head hcl.tail)
    intro w st be cur
    simp [stepM_at, stepBody, getRow, stepWild, tk, setWm_wild]

theorem sim_wild_some {mk mkd vmd : Mask} {Qd : Row → Prop} {L row hi rt dt dv ny drow kd r}
    (hcl : Clean (row :: hi)) (hy : yieldM ts a ny Row.zero dt = .ok (drow, kd))
    (hsim : Sim ts a trs mkd vmd Qd (L + 1 + hi.length) drow [] ⟨L + 1 + hi.length, kd⟩ dt dv r) :
    Sim ts a trs mk FFF (CfgBare .wildcard .wild) L row hi ⟨L, .wild⟩ rt (.iface (some (dt, dv))) r := by
  obtain ⟨hs1, hs2⟩ := hsim
  have hreset : ∀ (lo : List Row) n, lo.length = L → ny ≤ n →
      resetM ts a trs (n+1) ⟨L, .wild⟩ rt (.iface (some (dt, dv))) (lo ++ row :: hi) =
      resetM ts a trs n ⟨L + 1 + hi.length, kd⟩ dt dv
        ((lo ++ { row with wild := { delegate := some ⟨L + 1 + hi.length, kd⟩ } } :: hi) ++ drow :: []) := by
    intro lo n hl hn; subst hl
    have hy' : yieldM ts a n Row.zero dt = .ok (drow, kd) := by rw [yieldM_mono hn (hy ▸ NS.ok), hy]
    simp only [resetM_at, resetBody, getRow, resetWild, requisition_at hy', reassoc, updRow_at, len_at]
  have hstep : ∀ (lo : List Row) n hi' st cur be, lo.length = L →
      stepM ts a trs (n+1) ⟨L, .wild⟩
        ⟨lo ++ { row with wild := { delegate := some ⟨L + 1 + hi.length, kd⟩ } } :: hi', st, cur, be⟩ =
      stepM ts a trs n ⟨L + 1 + hi.length, kd⟩
        ⟨lo ++ { row with wild := { delegate := some ⟨L + 1 + hi.length, kd⟩ } } :: hi', st, cur, be⟩ := by
    intro lo n hi' st cur be hl; subst hl
    simp only [stepM_at, stepBody, getRow, stepWild]
  have hlen : ∀ (lo : List Row) (r' : Row), lo.length = L → (lo ++ r' :: hi).length = L + 1 + hi.length := by
    intro lo r' hl; rw [len_at, hl]
  refine ⟨fun e h1 h2 => ?_, fun hne => ?_⟩
  · obtain ⟨n, hn⟩ := hs1 e h1 h2
    refine ⟨max ny n + 1, fun lo hl => ?_⟩
    rw [hreset lo _ hl (Nat.le_max_left _ _)]
    have := hn (lo ++ { row with wild := { delegate := some ⟨L + 1 + hi.length, kd⟩ } } :: hi) (hlen lo _ hl)
    rw [resetM_mono (Nat.le_max_right _ _) (this ▸ NS.f), this]
  · obtain ⟨n, row1, hi1, hr, _, hq1, hc1, hrun⟩ := hs2 hne
    refine ⟨max ny n + 1, { row with wild := { delegate := some ⟨L + 1 + hi.length, kd⟩ } },
      hi ++ row1 :: hi1, fun lo hl => ?_, agreeW.refl _ _, rfl, Clean.cons hcl.head (Clean.append hcl.tail hc1),
      fun lo hl => ?_⟩
    · rw [hreset lo _ hl (Nat.le_max_left _ _)]
      have := hr (lo ++ { row with wild := { delegate := some ⟨L + 1 + hi.length, kd⟩ } } :: hi) (hlen lo _ hl)
      rw [resetM_mono (Nat.le_max_right _ _) (this ▸ NS.ok), this, reassoc]
    · intro w cur st be
      obtain ⟨n1, t1, done1, rowA, hiA, hst, _, hdone, hnd⟩ :=
        hrun (lo ++ { row with wild := { delegate := some ⟨L + 1 + hi.length, kd⟩ } } :: hi) (hlen lo _ hl)
          (getW row1) cur st be
      rw [setWm_self, reassoc] at hst
      refine ⟨n1+1, t1, done1, _, hi ++ rowA :: hiA, ?_, agreeW.refl _ _, fun h => ?_, fun h => ?_⟩
      · rw [setWm_FFF, hstep lo _ _ _ _ _ hl, hst, reassoc]
      · obtain ⟨x1, x2, x3⟩ := hdone h
        exact ⟨x1, rfl, Clean.cons hcl.head (Clean.append hcl.tail x3)⟩
      · obtain ⟨rest, x1, x2⟩ := hnd h
        refine ⟨rest, x1, fun w' hp => ?_⟩
        rw [setWm_FFF] at hp ⊢
        have hp' : Pass ts a trs cur ⟨L + 1 + hi.length, kd⟩
            (lo ++ { row with wild := { delegate := some ⟨L + 1 + hi.length, kd⟩ } } :: hi) mkd rowA := by
          refine ⟨fun row' hi' st' be' n' res hag hs hnd' hshape => ?_, fun row' hi' st' be' n' e hag hs => ?_⟩
          · obtain ⟨row'', hi'', hrows, hag''⟩ := hshape
            rw [reassoc] at hs ⊢
            refine hp.1 _ _ st' be' (n'+1) res (agreeW.refl _ _) ?_ hnd'
              ⟨_, hi ++ row'' :: hi'', by rw [hrows, reassoc]; rfl, agreeW.refl _ _⟩
            rw [hstep lo _ _ _ _ _ hl, hs]
          · rw [reassoc] at hs ⊢
            refine hp.2 _ _ st' be' (n'+1) e (agreeW.refl _ _) ?_
            rw [hstep lo _ _ _ _ _ hl, hs]
        have hR := x2 (getW rowA) (by rw [setWm_self]; exact hp')
        rw [setWm_self] at hR
        unfold Rest at hR ⊢
        cases hf : r.fail with
        | some e => simp only [hf, reassoc] at hR ⊢; exact hR
        | none =>
          simp only [hf, reassoc] at hR ⊢
          obtain ⟨mid, last, rowM, hiM, row2, hi2, n2, y1, y2, y3, y4, y5, y6, y7⟩ := hR
          refine ⟨mid, last, _, hi ++ rowM :: hiM, _, hi ++ row2 :: hi2, n2+1, y1, y2, agreeW.refl _ _, ?_,
            agreeW.refl _ _, rfl, Clean.cons hcl.head (Clean.append hcl.tail y7)⟩
          rw [hstep lo _ _ _ _ _ hl, y4]
          rfl

/-- a machine that emits an opening token, a body, and a closing token with which it reports done -/
theorem runsAs_container {mk vm : Mask} {Q : Row → Prop} {lo row1 hi1 c topen tclose} {body : MOut}
    {fA : Row → Row} {hiA : List Row} {PE : Row → List MRef → MRef → Option XFail → MState → Prop}
    (hopen : ∀ w st be cur, ∃ n, stepM ts a trs n c ⟨lo ++ setWm vm w row1 :: hi1, st, some cur, be⟩ =
      .ok ⟨topen, false, ⟨lo ++ fA (setWm vm w row1) :: hiA, st, some cur, be⟩⟩)
    (hagA : ∀ r, agreeW mk r (fA r))
    (hbody : ∀ w w' cur st be, Pass ts a trs cur c lo mk (setWm vm w' (fA (setWm vm w row1))) →
      Seg ts a trs ⟨lo ++ setWm vm w' (fA (setWm vm w row1)) :: hiA, st, some cur, be⟩ body
        (PE (setWm vm w' (fA (setWm vm w row1))) st cur be))
    (hclose : ∀ rowB cur st be s', PE rowB st cur be s' →
      ∃ rowM hiM row2 hi2 n, s' = ⟨lo ++ rowM :: hiM, st, some cur, be⟩ ∧ agreeW mk rowB rowM ∧
        stepM ts a trs n c s' = .ok ⟨tclose, true, ⟨lo ++ row2 :: hi2, st, some cur, be⟩⟩ ∧
        agreeW mk rowB row2 ∧ Q row2 ∧ Clean (row2 :: hi2)) :
    RunsAs ts a trs mk vm Q lo row1 hi1 c ((MOut.ok [topen]).seq fun _ => body.seq fun _ => MOut.ok [tclose]) := by
  intro w cur st be
  obtain ⟨n, hn⟩ := hopen w st be cur
  refine ⟨n, topen, false, _, hiA, hn, hagA _, fun h => (by cases h), fun _ => ?_⟩
  refine ⟨body.toks ++ (if body.fail = none then [tclose] else []), ?_, fun w' hp => ?_⟩
  · cases hf : body.fail <;> simp [MOut.seq, MOut.ok, hf]
  · have hb := hbody w w' cur st be hp
    unfold Seg at hb
    unfold Rest
    cases hf : body.fail with
    | none =>
      simp only [hf] at hb
      obtain ⟨s', he, hpe⟩ := hb
      obtain ⟨rowM, hiM, row2, hi2, n2, rfl, h1, h2, h3, h4, h5⟩ := hclose _ cur st be s' hpe
      simp only [MOut.seq, MOut.ok, hf]
      exact ⟨body.toks, tclose, rowM, hiM, row2, hi2, n2, by simp, he, h1, h2, h3, h4, h5⟩
    | some e =>
      simp only [hf] at hb
      obtain ⟨smid, he, hd⟩ := hb
      simp only [MOut.seq, MOut.ok, hf]
      exact ⟨smid, by simpa using he, hd⟩

/-- the two links `seg_recurse` asks for, for a machine `c` whose step at `sp` is `Recurse` -/
theorem Pass.link {cur c lo mk r0 prow hiP prow' hi0 drow dhi st be x rt d}
    (hp : Pass ts a trs cur c lo mk r0) (h1 : agreeW mk r0 prow) (h2 : agreeW mk r0 prow')
    (hstep : ∀ n res', recurse ts a trs n ⟨(lo ++ prow' :: hi0) ++ drow :: dhi, st, some cur, be⟩ x rt d = res' →
      NS res' → ∃ n', stepM ts a trs n' c ⟨lo ++ prow :: hiP, st, some cur, be⟩ = res') :
    (∀ n res, recurse ts a trs n ⟨(lo ++ prow' :: hi0) ++ drow :: dhi, st, some cur, be⟩ x rt d = .ok res →
      res.done = false → (∃ rowA hiA, res.st.rows = (lo ++ prow' :: hi0) ++ rowA :: hiA) →
      CS ts a trs ⟨lo ++ prow :: hiP, st, some cur, be⟩ (.ok res)) ∧
    (∀ n e, recurse ts a trs n ⟨(lo ++ prow' :: hi0) ++ drow :: dhi, st, some cur, be⟩ x rt d = .error (.f e) →
      CS ts a trs ⟨lo ++ prow :: hiP, st, some cur, be⟩ (.error (.f e))) := by
  constructor
  · intro n res hrec hnd ⟨rowA, hiA, hrows⟩
    obtain ⟨n1, h⟩ := hstep n _ hrec NS.ok
    obtain ⟨n', h'⟩ := hp.1 prow hiP st be n1 res h1 h hnd ⟨prow', hi0 ++ rowA :: hiA, by rw [hrows, reassoc], h2⟩
    exact ⟨n', cur, rfl, h', NS.ok⟩
  · intro n e hrec
    obtain ⟨n1, h⟩ := hstep n _ hrec NS.f
    exact hp.cs_err h1 h
