/-
  Helper lemmas on the object marshaller model (RefmtModel/Model/Obj/Marshal.lean) used by C07 / C20:
  inversion of `MOut.seq`, `retagFirst` on flattened trees, length preservation of `mapM` / `sortKeys`.
-/
import RefmtModel
open Refmt Refmt.Obj
set_option linter.unusedVariables false
set_option linter.unusedSimpArgs false

namespace Refmt.ObjL

theorem seq_inv {a : MOut} {b : Unit → MOut} {toks : List Tok}
    (h : a.seq b = ⟨toks, none⟩) :
    ∃ t1 t2, a = ⟨t1, none⟩ ∧ b () = ⟨t2, none⟩ ∧ toks = t1 ++ t2 := by
  unfold MOut.seq at h
  split at h
  · next f hf => rw [h] at hf; simp at hf
  · next hf =>
    simp at h
    refine ⟨a.toks, (b ()).toks, ?_, ?_, h.1.symm⟩
    · cases a; simp_all
    · cases hb : b (); simp_all

theorem ok_inv {ts toks : List Tok} (h : MOut.ok ts = ⟨toks, none⟩) : toks = ts := by
  simp [MOut.ok] at h; exact h.symm

theorem bad_ne {f : Fail} {toks : List Tok} : MOut.bad f ≠ ⟨toks, none⟩ := by
  simp [MOut.bad]

/-- replace the tag on the root of a token tree -/
def setTag (g : Int) : TV → TV
  | .scalar t => .scalar { t with tag := some g }
  | .arr _ len items => .arr (some g) len items
  | .map _ len es => .map (some g) len es

theorem retag_flatten (g : Int) (tv : TV) (f : Option Fail) :
    retagFirst (some g) ⟨tv.flatten, f⟩ = ⟨(setTag g tv).flatten, f⟩ := by
  cases tv <;> simp [retagFirst, setTag, TV.flatten]

theorem mapM_length {α β : Type} (f : α → Option β) : ∀ (l : List α) (r : List β), l.mapM f = some r → r.length = l.length
  | [], r, h => by simp at h; subst h; rfl
  | x :: xs, r, h => by
    rw [List.mapM_cons] at h
    cases hx : f x with
    | none => simp [hx] at h
    | some y =>
      cases hxs : xs.mapM f with
      | none => simp [hx, hxs] at h
      | some ys =>
        simp [hx, hxs] at h
        subst h
        simp [mapM_length f xs ys hxs]

theorem sortKeys_length (mode : KeySort) (kvs : List (Bytes × Val)) : (sortKeys mode kvs).length = kvs.length := by
  simp [sortKeys]

end Refmt.ObjL
