/-
  Exact result of `numTok` on the texts `FloatText.fmtE` / `FloatText.fmtF` produce (which decimal reaches
  `parseDecimal`, which integer is read), as opposed to the mere success shown in `FloatTok` / `FloatJson`.
-/
import RefmtProofs.Lemmas.FloatJson
set_option linter.unusedSimpArgs false
set_option linter.unusedVariables false
namespace Refmt.FloatL
open Refmt Refmt.FloatText Refmt.JsonDec Refmt.C03L

/-- what `numTok` makes of the pair `parseDecimal` returns -/
def floatRes (neg : Bool) (pr : Nat × Bool) : Except Err Body :=
  if pr.2 then .error .range else .ok (.float (if neg then pr.1 + 9223372036854775808 else pr.1))

/-- exact form of `numTokCore_float` -/
theorem numTokCore_float_eq (neg : Bool) (ip fp F E : Bytes) (ev : Int)
    (hip : Digs ip)
    (hF : (F = [] ∧ fp = []) ∨ (F = 46 :: fp ∧ Digs fp))
    (hE : (E = [] ∧ ev = 0) ∨ (∃ ed, E = 101 :: 43 :: ed ∧ Digs ed ∧ ev = (digitsVal ed : Int)) ∨
      (∃ ed, E = 101 :: 45 :: ed ∧ Digs ed ∧ ev = -(digitsVal ed : Int)))
    (hne : F ≠ [] ∨ E ≠ []) :
    numTokCore neg (ip ++ F ++ E) =
      floatRes neg (parseDecimal (digitsVal (ip ++ fp)) (ev - (fp.length : Int))) := by
  have hmE : ∀ x ∈ ip ++ F, notE x = true := by
    intro x hx
    simp only [List.mem_append] at hx
    rcases hx with hx | hx
    · exact digit_notE (hip x hx)
    · rcases hF with ⟨rfl, _⟩ | ⟨rfl, hfp⟩
      · simp at hx
      · simp only [List.mem_cons] at hx
        rcases hx with rfl | hx
        · decide
        · exact digit_notE (hfp x hx)
  have hE0 : E = [] ∨ ∃ t, E = 101 :: t := by
    rcases hE with ⟨h, _⟩ | ⟨ed, h, _⟩ | ⟨ed, h, _⟩
    · exact Or.inl h
    · exact Or.inr ⟨_, h⟩
    · exact Or.inr ⟨_, h⟩
  have hmant : (ip ++ F ++ E).takeWhile notE = ip ++ F := by
    rw [List.takeWhile_append_of_pos hmE]
    rcases hE0 with rfl | ⟨t, rfl⟩
    · simp
    · rw [List.takeWhile_cons_of_neg (by decide)]; simp
  have hexp : (ip ++ F ++ E).dropWhile notE = E := by
    rw [List.dropWhile_append_of_pos hmE]
    rcases hE0 with rfl | ⟨t, rfl⟩
    · simp
    · rw [List.dropWhile_cons_of_neg (by decide)]
  have hipD : ∀ x ∈ ip, notDot x = true := fun x hx => digit_notDot (hip x hx)
  have hip' : (ip ++ F).takeWhile notDot = ip := by
    rw [List.takeWhile_append_of_pos hipD]
    rcases hF with ⟨rfl, _⟩ | ⟨rfl, _⟩
    · simp
    · rw [List.takeWhile_cons_of_neg (by decide)]; simp
  have hfp' : ((ip ++ F).dropWhile notDot).drop 1 = fp := by
    rw [List.dropWhile_append_of_pos hipD]
    rcases hF with ⟨rfl, rfl⟩ | ⟨rfl, _⟩
    · simp
    · rw [List.dropWhile_cons_of_neg (by decide)]; simp
  have hany : (ip ++ F ++ E).any (fun c => c == 46 || c == 101 || c == 69) = true := by
    rw [List.any_eq_true]
    rcases hne with h | h
    · rcases hF with ⟨rfl, _⟩ | ⟨rfl, _⟩
      · exact absurd rfl h
      · exact ⟨46, by simp, by decide⟩
    · rcases hE0 with rfl | ⟨t, rfl⟩
      · exact absurd rfl h
      · exact ⟨101, by simp, by decide⟩
  unfold numTokCore
  simp only [hany, Bool.not_true, Bool.false_eq_true, if_false]
  change (match FloatText.parseDecimal
      (digitsVal (((ip ++ F ++ E).takeWhile notE).takeWhile notDot ++
        (((ip ++ F ++ E).takeWhile notE).dropWhile notDot).drop 1))
      ((if (((ip ++ F ++ E).dropWhile notE).drop 1).head? == some 45 then
          -(digitsVal (if (((ip ++ F ++ E).dropWhile notE).drop 1).head? == some 45 ||
              (((ip ++ F ++ E).dropWhile notE).drop 1).head? == some 43 then
              (((ip ++ F ++ E).dropWhile notE).drop 1).drop 1 else (((ip ++ F ++ E).dropWhile notE).drop 1)) : Int)
        else (digitsVal (if (((ip ++ F ++ E).dropWhile notE).drop 1).head? == some 45 ||
              (((ip ++ F ++ E).dropWhile notE).drop 1).head? == some 43 then
              (((ip ++ F ++ E).dropWhile notE).drop 1).drop 1 else (((ip ++ F ++ E).dropWhile notE).drop 1)) : Int)) -
        (((((ip ++ F ++ E).takeWhile notE).dropWhile notDot).drop 1).length : Int)) with
    | (bits, ovf) => if ovf then Except.error Err.range
        else Except.ok (Body.float (if neg then bits + 9223372036854775808 else bits))) = _
  rw [hmant, hexp, hip', hfp']
  have hev : (if (E.drop 1).head? == some 45 then
          -(digitsVal (if (E.drop 1).head? == some 45 || (E.drop 1).head? == some 43 then
              (E.drop 1).drop 1 else (E.drop 1)) : Int)
        else (digitsVal (if (E.drop 1).head? == some 45 || (E.drop 1).head? == some 43 then
              (E.drop 1).drop 1 else (E.drop 1)) : Int)) = ev := by
    rcases hE with ⟨rfl, rfl⟩ | ⟨ed, rfl, _, rfl⟩ | ⟨ed, rfl, _, rfl⟩
    · simp [digitsVal]
    · simp
    · simp
  rw [hev]
  generalize parseDecimal (digitsVal (ip ++ fp)) (ev - (fp.length : Int)) = pr
  obtain ⟨bits, ovf⟩ := pr
  rfl

/-- exact form of `numTokCore_int` -/
theorem numTokCore_int_eq (neg : Bool) (body : Bytes) (hd : Digs body) (hv : digitsVal body < two63) :
    numTokCore neg body = .ok (.int (if neg then -(digitsVal body : Int) else (digitsVal body : Int))) := by
  unfold numTokCore
  simp only [digits_noexp body hd, Bool.not_false, if_true]
  cases neg
  · simp only [Bool.false_eq_true, if_false, hv, if_true]
  · simp only [if_true, Nat.le_of_lt hv]

/-- the `%e` text, with any exponent digit string of the right value -/
theorem eText_tok (neg : Bool) (f : Nat) (r : Bytes) (sg : Nat) (D : Bytes) (dp : Int)
    (hd : Digs (f :: r)) (hD : Digs D) (hne : D ≠ [])
    (hsg : (sg = 43 ∧ (digitsVal D : Int) = dp - 1) ∨ (sg = 45 ∧ -(digitsVal D : Int) = dp - 1)) :
    numTok (((if neg then [45] else []) ++ [f] ++ (if r.isEmpty then [] else 46 :: r)) ++ 101 :: sg :: D) =
      floatRes neg (parseDecimal (digitsVal (f :: r)) (dp - ((f :: r).length : Int))) := by
  have e1 : ((if neg then [45] else []) ++ [f] ++ (if r.isEmpty then [] else 46 :: r)) ++ 101 :: sg :: D =
      (if neg then [45] else []) ++ f :: ((if r.isEmpty then [] else 46 :: r) ++ 101 :: sg :: D) := by simp
  rw [e1, numTok_signed neg f _ hd.head]
  have e2 : f :: ((if r.isEmpty then [] else 46 :: r) ++ 101 :: sg :: D) =
      [f] ++ (if r.isEmpty then [] else 46 :: r) ++ 101 :: sg :: D := by simp
  rw [e2]
  rw [numTokCore_float_eq neg [f] r _ _ (dp - 1) (Digs.cons hd.head Digs.nil) ?_ ?_ (Or.inr (by simp))]
  · have : dp - 1 - (r.length : Int) = dp - ((f :: r).length : Int) := by
      simp only [List.length_cons]; omega
    rw [this]; rfl
  · cases r with
    | nil => left; simp
    | cons x xs => right; exact ⟨by simp, hd.tail⟩
  · rcases hsg with ⟨rfl, h⟩ | ⟨rfl, h⟩
    · right; left; exact ⟨D, rfl, hD, h.symm⟩
    · right; right; exact ⟨D, rfl, hD, h.symm⟩

theorem fmtE_tok (neg : Bool) (f : Nat) (r : Bytes) (dp : Int) (hd : Digs (f :: r)) :
    numTok (cleanup (fmtE neg (f :: r) dp)) =
      floatRes neg (parseDecimal (digitsVal (f :: r)) (dp - ((f :: r).length : Int))) := by
  have hfm : fmtE neg (f :: r) dp =
      ((if neg then [45] else []) ++ [f] ++ (if r.isEmpty then [] else 46 :: r)) ++
        101 :: (if dp - 1 < 0 then 45 else 43) ::
          (if (dp - 1).natAbs < 10 then 48 :: natDigits (dp - 1).natAbs else natDigits (dp - 1).natAbs) := by
    simp [fmtE]
  rw [hfm]
  generalize hD : (if (dp - 1).natAbs < 10 then 48 :: natDigits (dp - 1).natAbs else natDigits (dp - 1).natAbs) = D
  have hDd : Digs D := by
    rw [← hD]; split
    · exact Digs.cons (by decide) (Digs.nat _)
    · exact Digs.nat _
  have hDl : 2 ≤ D.length := by
    rw [← hD]; split
    · rename_i h; rw [natDigits_lt _ h]; simp
    · rename_i h; exact natDigits_len2 _ h
  have hDv : digitsVal D = (dp - 1).natAbs := by
    rw [← hD]; split
    · rw [digitsVal_cons0, digitsVal_natDigits]
    · rw [digitsVal_natDigits]
  have hsg : ∀ D' : Bytes, digitsVal D' = (dp - 1).natAbs →
      ((if dp - 1 < 0 then 45 else 43) = 43 ∧ (digitsVal D' : Int) = dp - 1) ∨
      ((if dp - 1 < 0 then 45 else 43) = 45 ∧ -(digitsVal D' : Int) = dp - 1) := by
    intro D' h
    by_cases hneg : dp - 1 < 0
    · right; simp only [hneg, if_true, true_and]; rw [h]; omega
    · left; simp only [hneg, if_false, true_and]; rw [h]; omega
  rcases cleanup_shape ((if neg then [45] else []) ++ [f] ++ (if r.isEmpty then [] else 46 :: r))
    (if dp - 1 < 0 then 45 else 43) D hDd hDl with h | ⟨z, hz, h⟩
  · rw [h]
    exact eText_tok neg f r _ D dp hd hDd (by intro h0; rw [h0] at hDl; simp at hDl) (hsg D hDv)
  · rw [h]
    have hz' : Digs [z] := by
      rw [hz] at hDd; exact hDd.tail
    have hzv : digitsVal [z] = (dp - 1).natAbs := by
      rw [← hDv, hz, digitsVal_cons0]
    exact eText_tok neg f r _ [z] dp hd hz' (by simp) (hsg [z] hzv)

/-- the `%f` text with a decimal point -/
theorem fmtF_tok_frac (neg : Bool) (ds : Bytes) (dp : Int) (hd : Digs ds) (hl : LeadOk ds dp)
    (hfr : dp ≤ 0 ∨ dp.toNat < ds.length) :
    numTok (fmtF neg ds dp) = floatRes neg (parseDecimal (digitsVal ds) (dp - (ds.length : Int))) := by
  unfold fmtF
  simp only
  by_cases h1 : dp ≤ 0
  · rw [if_pos h1]
    have e1 : (if neg then [45] else []) ++ [48, 46] ++ List.replicate (-dp).toNat 48 ++ ds =
        (if neg then [45] else []) ++ 48 :: (46 :: (List.replicate (-dp).toNat 48 ++ ds)) := by simp
    rw [e1, numTok_signed neg 48 _ (by decide)]
    have e2 : 48 :: (46 :: (List.replicate (-dp).toNat 48 ++ ds)) =
        [48] ++ (46 :: (List.replicate (-dp).toNat 48 ++ ds)) ++ [] := by simp
    rw [e2]
    rw [numTokCore_float_eq neg [48] (List.replicate (-dp).toNat 48 ++ ds) _ _ 0
      (by intro x hx; simp at hx; subst hx; decide)
      (Or.inr ⟨rfl, (Digs.zeros _).append hd⟩) (Or.inl ⟨rfl, rfl⟩) (Or.inl (by simp))]
    have hv : digitsVal ([48] ++ (List.replicate (-dp).toNat 48 ++ ds)) = digitsVal ds := by
      rw [List.singleton_append, digitsVal_cons0, digitsVal_zeros_left]
    have he : (0 : Int) - ((List.replicate (-dp).toNat 48 ++ ds).length : Int) = dp - (ds.length : Int) := by
      simp only [List.length_append, List.length_replicate]; omega
    rw [hv, he]
  · rw [if_neg h1]
    have h2 : ¬ dp.toNat ≥ ds.length := by
      rcases hfr with h | h
      · exact absurd h h1
      · omega
    rw [if_neg h2]
    rcases hl with ⟨h, hdp⟩ | ⟨b, r, rfl, hb⟩
    · subst h; subst hdp; simp at h2
    · have hpos : 0 < dp.toNat := by omega
      have htake : (b :: r).take dp.toNat = b :: r.take (dp.toNat - 1) := by
        obtain ⟨n, hn⟩ : ∃ n, dp.toNat = n + 1 := ⟨dp.toNat - 1, by omega⟩
        rw [hn]; simp
      have e1 : (if neg then [45] else []) ++ (b :: r).take dp.toNat ++ [46] ++ (b :: r).drop dp.toNat =
          (if neg then [45] else []) ++ b :: (r.take (dp.toNat - 1) ++ 46 :: (b :: r).drop dp.toNat) := by
        rw [htake]; simp
      rw [e1, numTok_signed neg b _ hd.head]
      have e2 : b :: (r.take (dp.toNat - 1) ++ 46 :: (b :: r).drop dp.toNat) =
          (b :: r).take dp.toNat ++ (46 :: (b :: r).drop dp.toNat) ++ [] := by
        rw [htake]; simp
      rw [e2]
      rw [numTokCore_float_eq neg _ ((b :: r).drop dp.toNat) _ _ 0 (hd.take _)
        (Or.inr ⟨rfl, hd.drop _⟩) (Or.inl ⟨rfl, rfl⟩) (Or.inl (by simp))]
      rw [List.take_append_drop]
      have he : (0 : Int) - (((b :: r).drop dp.toNat).length : Int) = dp - ((b :: r).length : Int) := by
        simp only [List.length_drop]; omega
      rw [he]

/-- the `%f` text without a decimal point: the digits followed by zeros, read as an integer -/
theorem fmtF_tok_int (neg : Bool) (ds : Bytes) (dp : Int) (hd : Digs ds) (hne : ds ≠ [])
    (h1 : 0 < dp) (h2 : dp.toNat ≥ ds.length)
    (hv : digitsVal ds * 10 ^ (dp.toNat - ds.length) < two63) :
    fmtF neg ds dp = (if neg then [45] else []) ++ (ds ++ List.replicate (dp.toNat - ds.length) 48) ∧
    numTok (fmtF neg ds dp) =
      .ok (.int (if neg then -((digitsVal ds * 10 ^ (dp.toNat - ds.length) : Nat) : Int)
        else ((digitsVal ds * 10 ^ (dp.toNat - ds.length) : Nat) : Int))) := by
  have hF : fmtF neg ds dp = (if neg then [45] else []) ++ (ds ++ List.replicate (dp.toNat - ds.length) 48) := by
    unfold fmtF
    simp only
    rw [if_neg (by omega), if_pos h2, List.append_assoc]
  refine ⟨hF, ?_⟩
  rw [hF]
  obtain ⟨f, r, rfl⟩ : ∃ f r, ds = f :: r := by
    cases ds with
    | nil => exact absurd rfl hne
    | cons f r => exact ⟨f, r, rfl⟩
  rw [List.cons_append, numTok_signed neg f _ hd.head, ← List.cons_append]
  rw [numTokCore_int_eq neg _ (hd.append (Digs.zeros _)) (by rw [digitsVal_zeros]; exact hv), digitsVal_zeros]

end Refmt.FloatL
