/-
  C15 support: the JSON decoder model (RefmtModel/Model/JsonDec.lean) as a client program (`Prog`) of the
  reader interface.  One `Prog`-valued mirror per model function, in continuation-passing style, and one
  lemma per mirror: running the mirror over a cursor and continuing = continuing from the model function's
  result and the reader it leaves.  The number scanner's look-ahead byte is pushed back through the
  `unread` component of `Prog.read1`.
-/
import RefmtModel
import RefmtProofs.Props.C15
import RefmtProofs.Lemmas.Bounds
import RefmtProofs.Lemmas.C15Base
set_option linter.unusedSimpArgs false
set_option linter.unusedVariables false
namespace Refmt.C15Prog.Json
open Refmt Refmt.C15 Refmt.C15Prog Refmt.JsonDec

variable {β : Type}

/-- continue with a terminal's result: the program gets the value or the error, not the reader -/
def contR {α : Type} (k : Except Err α → Prog β) (x : Except Err (α × Rd) × Rd) : Option β :=
  match x with
  | (.ok (a, rd1), _) => runCursor (k (.ok a)) rd1
  | (.error e, rd') => runCursor (k (.error e)) rd'

/-! ### whitespace -/

def skipWsP : Nat → (Except Err Nat → Prog β) → Prog β
  | 0, k => k (.error .other)
  | fuel+1, k =>
    rd1 fun r => match r with
      | .error e => k (.error e)
      | .ok b => if isWs b then skipWsP fuel k else k (.ok b)

theorem skipWsP_spec (k : Except Err Nat → Prog β) : ∀ (fuel : Nat) (rd : Rd),
    runCursor (skipWsP fuel k) rd = contR k (skipWs fuel rd) := by
  intro fuel
  induction fuel with
  | zero => intro rd; rfl
  | succ fuel ih =>
    intro rd
    rw [skipWsP, skipWs, run_rd1]
    rcases rd.read1 with ⟨e | ⟨b, rd1⟩, rd'⟩
    · rfl
    · dsimp only
      split
      · exact ih rd1
      · rfl

theorem skipWs_fuel : ∀ (f g : Nat) (rd : Rd), rd.data.length < f → rd.data.length < g →
    skipWs f rd = skipWs g rd := by
  intro f
  induction f with
  | zero => intro g rd h; omega
  | succ f ih =>
    intro g rd hf hg
    cases g with
    | zero => omega
    | succ g =>
      rw [skipWs, skipWs]
      rcases h : rd.read1 with ⟨e | ⟨b, rd1⟩, rd'⟩
      · rfl
      · have h1 := C06.read1_ok_len h
        dsimp only
        split
        · exact ih _ _ (by omega) (by omega)
        · rfl

/-- `skipWs` with the model's fuel, as a program with a fixed loop bound `N` -/
theorem skipWsP_model (k : Except Err Nat → Prog β) (N : Nat) (rd : Rd) (hN : rd.data.length < N) :
    runCursor (skipWsP N k) rd = contR k (skipWs (rd.data.length + 1) rd) := by
  rw [skipWsP_spec, skipWs_fuel N (rd.data.length + 1) rd hN (by omega)]

/-! ### strings -/

def scanStringP : Nat → SS → Bytes → (Except Err Bytes → Prog β) → Prog β
  | 0, _, _, k => k (.error .other)
  | fuel+1, st, acc, k =>
    rd1 fun r => match r with
      | .error e => k (.error e)
      | .ok b =>
        match strStep st b with
        | .error _ => k (.error .syntax)
        | .ok none => k (.ok acc.reverse)
        | .ok (some st') => scanStringP fuel st' (b :: acc) k

theorem scanStringP_spec (k : Except Err Bytes → Prog β) : ∀ (fuel : Nat) (st : SS) (acc : Bytes) (rd : Rd),
    runCursor (scanStringP fuel st acc k) rd = contR k (scanString fuel st rd acc) := by
  intro fuel
  induction fuel with
  | zero => intro st acc rd; rfl
  | succ fuel ih =>
    intro st acc rd
    rw [scanStringP, scanString, run_rd1]
    rcases rd.read1 with ⟨e | ⟨b, rd1⟩, rd'⟩
    · rfl
    · dsimp only
      rcases strStep st b with _ | _ | st'
      · rfl
      · rfl
      · exact ih _ _ _

theorem scanString_fuel : ∀ (f g : Nat) (st : SS) (rd : Rd) (acc : Bytes), rd.data.length < f → rd.data.length < g →
    scanString f st rd acc = scanString g st rd acc := by
  intro f
  induction f with
  | zero => intro g st rd acc h; omega
  | succ f ih =>
    intro g st rd acc hf hg
    cases g with
    | zero => omega
    | succ g =>
      rw [scanString, scanString]
      rcases h : rd.read1 with ⟨e | ⟨b, rd1⟩, rd'⟩
      · rfl
      · have h1 := C06.read1_ok_len h
        dsimp only
        rcases strStep st b with _ | _ | st'
        · rfl
        · rfl
        · exact ih _ _ _ _ (by omega) (by omega)

def decStringP (N : Nat) (k : Except Err Bytes → Prog β) : Prog β :=
  scanStringP N .normal [] fun r => match r with
    | .error e => k (.error e)
    | .ok raw => k (.ok ((parseString (raw.length + 1) raw).getD []))

theorem decStringP_spec (k : Except Err Bytes → Prog β) (N : Nat) (rd : Rd) (hN : rd.data.length < N) :
    runCursor (decStringP N k) rd = contR k (decString rd) := by
  unfold decStringP decString
  rw [scanStringP_spec, scanString_fuel N (rd.data.length + 1) _ rd _ hN (by omega)]
  rcases scanString (rd.data.length + 1) .normal rd [] with ⟨e | ⟨raw, rd1⟩, rd'⟩ <;> rfl

/-! ### numbers -/

/-- does the number end before byte `b` (which is then pushed back)? -/
def numEnds (st : NS) (b : Nat) : Bool :=
  match numStep st b with
  | .ok none => true
  | _ => false

def scanNumberP : Nat → NS → Bytes → (Except Err Bytes → Prog β) → Prog β
  | 0, _, _, k => k (.error .other)
  | fuel+1, st, acc, k =>
    .read1 (numEnds st) fun r => match r with
      | .error .eof =>
        (match numStep st 32 with
         | .error _ => k (.error .unexpectedEof)
         | .ok _ => k (.ok acc.reverse))
      | .error e => k (.error e)
      | .ok b =>
        match numStep st b with
        | .error _ => k (.error .syntax)
        | .ok none => k (.ok acc.reverse)
        | .ok (some st') => scanNumberP fuel st' (b :: acc) k

theorem scanNumberP_spec (k : Except Err Bytes → Prog β) : ∀ (fuel : Nat) (st : NS) (acc : Bytes) (rd : Rd),
    runCursor (scanNumberP fuel st acc k) rd = contR k (scanNumber fuel st rd acc) := by
  intro fuel
  induction fuel with
  | zero => intro st acc rd; rfl
  | succ fuel ih =>
    intro st acc rd
    rw [scanNumberP, scanNumber, run_read1]
    rcases rd.read1 with ⟨e | ⟨b, rd1⟩, rd'⟩
    · cases e
      case eof =>
        dsimp only
        rcases numStep st 32 with _ | _ <;> rfl
      all_goals rfl
    · dsimp only
      unfold numEnds
      rcases numStep st b with _ | _ | st'
      · rfl
      · rfl
      · exact ih _ _ _

theorem scanNumber_fuel : ∀ (f g : Nat) (st : NS) (rd : Rd) (acc : Bytes), rd.data.length < f → rd.data.length < g →
    scanNumber f st rd acc = scanNumber g st rd acc := by
  intro f
  induction f with
  | zero => intro g st rd acc h; omega
  | succ f ih =>
    intro g st rd acc hf hg
    cases g with
    | zero => omega
    | succ g =>
      rw [scanNumber, scanNumber]
      rcases h : rd.read1 with ⟨e | ⟨b, rd1⟩, rd'⟩
      · cases e <;> rfl
      · have h1 := C06.read1_ok_len h
        dsimp only
        rcases numStep st b with _ | _ | st'
        · rfl
        · rfl
        · exact ih _ _ _ _ (by omega) (by omega)

def decNumberP (N : Nat) (b0 : Nat) (k : Except Err Body → Prog β) : Prog β :=
  scanNumberP N (if b0 == 45 then .neg else if b0 == 48 then .s0 else .s1) [b0] fun r => match r with
    | .error e => k (.error e)
    | .ok text => k (numTok text)

theorem decNumberP_spec (k : Except Err Body → Prog β) (N : Nat) (b0 : Nat) (rd : Rd) (hN : rd.data.length < N) :
    runCursor (decNumberP N b0 k) rd = contR k (decNumber rd b0) := by
  unfold decNumberP decNumber
  dsimp only
  rw [scanNumberP_spec, scanNumber_fuel N (rd.data.length + 2) _ rd _ hN (by omega)]
  rcases scanNumber (rd.data.length + 2) _ rd [b0] with ⟨e | ⟨text, rd1⟩, rd'⟩
  · rfl
  · show runCursor (k (numTok text)) rd1 = _
    dsimp only
    rcases numTok text with e | b <;> rfl


/-! ### the step machine -/

/-- `Out` without the reader -/
structure O where
  st : St
  ret : JsonDec.Ret

def strip (o : Out) : O := ⟨o.st, o.ret⟩

/-- continue with a step result: the program gets everything but the reader -/
def contO (k : O → Prog β) (o : Out) : Option β := runCursor (k (strip o)) o.rd

theorem ite_step {c : Prop} [Decidable c] {A B : Prog β} {X Y : Out} {rd : Rd} {k : O → Prog β}
    (h1 : c → runCursor A rd = contO k X) (h2 : ¬ c → runCursor B rd = contO k Y) :
    runCursor (if c then A else B) rd = contO k (if c then X else Y) := by
  by_cases h : c
  · rw [if_pos h, if_pos h]; exact h1 h
  · rw [if_neg h, if_neg h]; exact h2 h

/-- `expectLiteralRemainder` -/
def literalP (s : St) (rest : Bytes) (b : Body) (k : O → Prog β) : Prog β :=
  .readN rest.length fun r => match r with
    | .error .eof => k ⟨s, .err .unexpectedEof⟩
    | .error e => k ⟨s, .err e⟩
    | .ok bs => if bs == rest then k ⟨s, .tok ⟨b, none⟩ true⟩ else k ⟨s, .err .syntax⟩

theorem literalP_spec (s : St) (rest : Bytes) (b : Body) (k : O → Prog β) (rd : Rd) :
    runCursor (literalP s rest b k) rd = contO k (literal s rd rest b) := by
  unfold literalP literal
  rw [run_readN]
  rcases rd.readN rest.length with ⟨e | bs, rd'⟩
  · cases e <;> rfl
  · dsimp only
    apply ite_step <;> (intro _; rfl)

def acceptValueP (N : Nat) (s : St) (mb : Nat) (k : O → Prog β) : Prog β :=
  if mb == 123 then k ⟨push s .mapKey, .tok ⟨.mapOpen (-1), none⟩ false⟩
  else if mb == 91 then k ⟨push s .arr, .tok ⟨.arrOpen (-1), none⟩ false⟩
  else if mb == 110 then literalP s [117, 108, 108] .null k
  else if mb == 34 then
    decStringP N fun r => match r with
      | .ok str => k ⟨s, .tok ⟨.str str, none⟩ true⟩
      | .error e => k ⟨s, .err e⟩
  else if mb == 102 then literalP s [97, 108, 115, 101] (.bool false) k
  else if mb == 116 then literalP s [114, 117, 101] (.bool true) k
  else if mb == 45 || isDigit mb then
    decNumberP N mb fun r => match r with
      | .ok b => k ⟨s, .tok ⟨b, none⟩ true⟩
      | .error e => k ⟨s, .err e⟩
  else k ⟨s, .err .syntax⟩

theorem acceptValueP_spec (N : Nat) (k : O → Prog β) (s : St) (rd : Rd) (mb : Nat) (hN : rd.data.length < N) :
    runCursor (acceptValueP N s mb k) rd = contO k (acceptValue s rd mb) := by
  unfold acceptValueP acceptValue
  apply ite_step
  · intro _; rfl
  intro _
  apply ite_step
  · intro _; rfl
  intro _
  apply ite_step
  · intro _; exact literalP_spec _ _ _ _ _
  intro _
  apply ite_step
  · intro _
    rw [decStringP_spec _ N rd hN]
    rcases decString rd with ⟨e | ⟨str, rd1⟩, rd'⟩ <;> rfl
  intro _
  apply ite_step
  · intro _; exact literalP_spec _ _ _ _ _
  intro _
  apply ite_step
  · intro _; exact literalP_spec _ _ _ _ _
  intro _
  apply ite_step
  · intro _
    rw [decNumberP_spec _ N mb rd hN]
    rcases decNumber rd mb with ⟨e | ⟨b, rd1⟩, rd'⟩ <;> rfl
  · intro _; rfl

def inContainerO (o : O) : O :=
  match o.ret with
  | .tok t _ => { o with ret := .tok t false }
  | .err _ => o

theorem contO_inContainer (k : O → Prog β) (o : Out) :
    contO (fun o => k (inContainerO o)) o = contO k (inContainer o) := by
  rcases o with ⟨st, rd, ret | e⟩ <;> rfl

theorem acceptValueP_in (N : Nat) (k : O → Prog β) (s : St) (rd : Rd) (mb : Nat) (hN : rd.data.length < N) :
    runCursor (acceptValueP N s mb fun o => k (inContainerO o)) rd = contO k (inContainer (acceptValue s rd mb)) := by
  rw [acceptValueP_spec N _ s rd mb hN]
  exact contO_inContainer k _

def arrEntryP (N : Nat) (s : St) (mb : Nat) (k : O → Prog β) : Prog β :=
  if mb == 93 then k ⟨s, .tok ⟨.arrClose, none⟩ true⟩
  else acceptValueP N { s with frame := ⟨s.frame.k, true⟩ } mb fun o => k (inContainerO o)

theorem arrEntryP_spec (N : Nat) (k : O → Prog β) (s : St) (rd : Rd) (mb : Nat) (hN : rd.data.length < N) :
    runCursor (arrEntryP N s mb k) rd = contO k (arrEntry s rd mb) := by
  unfold arrEntryP arrEntry
  apply ite_step
  · intro _; rfl
  · intro _; exact acceptValueP_in N k _ rd mb hN

def mapEntryP (N : Nat) (s : St) (mb : Nat) (k : O → Prog β) : Prog β :=
  if mb == 125 then k ⟨s, .tok ⟨.mapClose, none⟩ true⟩
  else if mb != 34 then k ⟨s, .err .syntax⟩
  else
    decStringP N fun r => match r with
      | .error e => k ⟨s, .err e⟩
      | .ok key =>
        skipWsP N fun r => match r with
          | .error e => k ⟨s, .err e⟩
          | .ok c =>
            if c != 58 then k ⟨s, .err .syntax⟩
            else k ⟨{ s with frame := ⟨.mapVal, false⟩ }, .tok ⟨.str key, none⟩ false⟩

theorem mapEntryP_spec (N : Nat) (k : O → Prog β) (s : St) (rd : Rd) (mb : Nat) (hN : rd.data.length < N) :
    runCursor (mapEntryP N s mb k) rd = contO k (mapEntry s rd mb) := by
  unfold mapEntryP mapEntry
  apply ite_step
  · intro _; rfl
  intro _
  apply ite_step
  · intro _; rfl
  intro _
  rw [decStringP_spec _ N rd hN]
  rcases h : decString rd with ⟨e | ⟨key, rd1⟩, rd'⟩
  · rfl
  · have h1 := C06.Json.decString_ok _ _ _ _ h
    unfold contR
    dsimp only
    rw [skipWsP_model _ N rd1 (by omega)]
    rcases skipWs (rd1.data.length + 1) rd1 with ⟨e | ⟨c, rd2⟩, rd''⟩
    · rfl
    · unfold contR
      dsimp only
      apply ite_step <;> (intro _; rfl)

def afterSomeP (N : Nat) (s : St) (mb : Nat) (close : Nat) (closeTok : Body)
    (entry : St → Nat → (O → Prog β) → Prog β) (k : O → Prog β) : Prog β :=
  if s.frame.some then
    if mb == close then k ⟨s, .tok ⟨closeTok, none⟩ true⟩
    else if mb == 44 then
      skipWsP N fun r => match r with
        | .error e => k ⟨s, .err e⟩
        | .ok mb2 => entry s mb2 k
    else k ⟨s, .err .syntax⟩
  else entry s mb k

theorem afterSomeP_spec (N : Nat) (k : O → Prog β) (close : Nat) (closeTok : Body)
    (entryP : St → Nat → (O → Prog β) → Prog β) (entry : St → Rd → Nat → Out)
    (he : ∀ (s : St) (rd : Rd) (mb : Nat), rd.data.length < N → runCursor (entryP s mb k) rd = contO k (entry s rd mb))
    (s : St) (rd : Rd) (mb : Nat) (hN : rd.data.length < N) :
    runCursor (afterSomeP N s mb close closeTok entryP k) rd = contO k (afterSome s rd mb close closeTok entry) := by
  unfold afterSomeP afterSome
  apply ite_step
  · intro _
    apply ite_step
    · intro _; rfl
    intro _
    apply ite_step
    · intro _
      rw [skipWsP_model _ N rd hN]
      rcases h : skipWs (rd.data.length + 1) rd with ⟨e | ⟨mb2, rd2⟩, rd''⟩
      · rfl
      · have h1 := C06.Json.skipWs_ok _ _ _ _ _ h
        exact he s rd2 mb2 (by omega)
    · intro _; rfl
  · intro _; exact he s rd mb hN

def subStepP (N : Nat) (s : St) (k : O → Prog β) : Prog β :=
  skipWsP N fun r => match r with
    | .error e => k ⟨s, .err e⟩
    | .ok mb =>
      match s.frame.k with
      | .value => acceptValueP N s mb k
      | .arr => afterSomeP N s mb 93 .arrClose (arrEntryP N) k
      | .mapKey => afterSomeP N s mb 125 .mapClose (mapEntryP N) k
      | .mapVal => acceptValueP N { s with frame := ⟨.mapKey, true⟩ } mb fun o => k (inContainerO o)

theorem subStepP_spec (N : Nat) (k : O → Prog β) (s : St) (rd : Rd) (hN : rd.data.length < N) :
    runCursor (subStepP N s k) rd = contO k (subStep s rd) := by
  unfold subStepP subStep
  rw [skipWsP_model _ N rd hN]
  rcases h : skipWs (rd.data.length + 1) rd with ⟨e | ⟨mb, rd1⟩, rd'⟩
  · rfl
  · have h1 := C06.Json.skipWs_ok _ _ _ _ _ h
    have hN1 : rd1.data.length < N := by omega
    unfold contR
    dsimp only
    rcases s with ⟨stack, ⟨fk, sm⟩⟩
    cases fk <;> dsimp only
    · exact acceptValueP_spec N k _ rd1 mb hN1
    · exact afterSomeP_spec N k _ _ _ _ (fun s rd mb h => arrEntryP_spec N k s rd mb h) _ rd1 mb hN1
    · exact afterSomeP_spec N k _ _ _ _ (fun s rd mb h => mapEntryP_spec N k s rd mb h) _ rd1 mb hN1
    · exact acceptValueP_in N k _ rd1 mb hN1

/-- the stack handling of `Step` after the sub-step -/
def postO (o : O) : O :=
  match o.ret with
  | .err _ => o
  | .tok _ false => o
  | .tok t true =>
    match o.st.stack with
    | [] => o
    | [_] => o
    | f :: rest => { o with st := ⟨rest, f⟩, ret := .tok t false }

theorem strip_step (s : St) (rd : Rd) :
    strip (step s rd) = postO (strip (subStep s rd)) ∧ (step s rd).rd = (subStep s rd).rd := by
  unfold step
  dsimp only
  generalize subStep s rd = o
  rcases o with ⟨⟨stack, fr⟩, rd', (⟨t, _ | _⟩ | e)⟩
  · exact ⟨rfl, rfl⟩
  · rcases stack with _ | ⟨p, _ | ⟨q, rest⟩⟩ <;> exact ⟨rfl, rfl⟩
  · exact ⟨rfl, rfl⟩

/-- `Decoder.Step` -/
def stepP (N : Nat) (s : St) (k : O → Prog β) : Prog β :=
  subStepP N s fun o => k (postO o)

theorem stepP_spec (N : Nat) (k : O → Prog β) (s : St) (rd : Rd) (hN : rd.data.length < N) :
    runCursor (stepP N s k) rd = contO k (step s rd) := by
  unfold stepP
  rw [subStepP_spec N _ s rd hN]
  unfold contO
  rw [(strip_step s rd).1, (strip_step s rd).2]

/-- what a client gets out of a decode: tokens, outcome, steps -/
abbrev Res := List Tok × Except Err Unit × Nat

def proj (r : RunOut) : Res := (r.toks, r.res, r.steps)

def runP (N : Nat) : Nat → St → List Tok → Nat → Prog Res
  | 0, _, acc, steps => .ret (acc.reverse, .error .other, steps)
  | fuel+1, s, acc, steps =>
    stepP N s fun o => match o.ret with
      | .err e => .ret (acc.reverse, .error e, steps + 1)
      | .tok t true => .ret ((t :: acc).reverse, .ok (), steps + 1)
      | .tok t false => runP N fuel o.st (t :: acc) (steps + 1)

theorem runP_spec (N : Nat) : ∀ (fuel : Nat) (s : St) (rd : Rd) (acc : List Tok) (steps : Nat),
    rd.data.length < N →
    runCursor (runP N fuel s acc steps) rd = some (proj (run fuel s rd acc steps)) := by
  intro fuel
  induction fuel with
  | zero => intro s rd acc steps hN; rfl
  | succ fuel ih =>
    intro s rd acc steps hN
    rw [runP, run, stepP_spec N _ s rd hN]
    have hl := C06.Json.step_ok s rd
    unfold contO
    dsimp only
    generalize step s rd = o at hl
    rcases o with ⟨st, rd', (⟨t, _ | _⟩ | e)⟩
    · have := hl t false rfl
      dsimp only at this
      exact ih _ _ _ _ (by show rd'.data.length < N; omega)
    · rfl
    · rfl

end Refmt.C15Prog.Json
