/-
  Lemmas for C10 / C17 (pump and framing).

  * `srcRun`         : a token source iterated until done / error, generic in the source (no sink);
                       `pump_ok`, `pump_fail` relate `Pump.run` to it, `srcRun_mono`, `srcRun_indep`
                       are the two fuel lemmas (a finished run is unchanged by more fuel; with a measure
                       that every continuing step decreases, fuel above the measure is irrelevant).
  * CBOR             : `CborDec.run` is `srcRun (cborSrc coerce)`; every step of the decoder on a clean
                       reader (no fault, no push-back) leaves a clean reader and, unless it ends the run,
                       decreases `2 * remaining bytes + stack depth`.
  * JSON             : `JsonDec.run` is `srcRun jsonSrc`.
-/
import RefmtModel
import RefmtProofs.Lemmas.CborBasic
set_option linter.unusedSimpArgs false
set_option linter.unusedVariables false
namespace Refmt.PumpL
open Refmt Refmt.Pump

/-! ### A source run on its own -/

/-- tokens produced, whether the source signalled done (false: error or out of fuel), reader afterwards -/
def srcRun {σ : Type} (src : σ → Rd → SrcStep σ) : Nat → σ → Rd → List Tok × Bool × Rd
  | 0, _, rd => ([], false, rd)
  | f+1, s, rd =>
    match src s rd with
    | .err rd' => ([], false, rd')
    | .tok _ rd' t true => ([t], true, rd')
    | .tok s' rd' t false =>
      let r := srcRun src f s' rd'
      (t :: r.1, r.2.1, r.2.2)

theorem srcRun_mono {σ : Type} (src : σ → Rd → SrcStep σ) (k : Nat) :
    ∀ (f : Nat) (s : σ) (rd : Rd) (ts : List Tok) (rd' : Rd),
      srcRun src f s rd = (ts, true, rd') → srcRun src (f + k) s rd = (ts, true, rd')
  | 0, s, rd, ts, rd', h => by simp [srcRun] at h
  | f+1, s, rd, ts, rd', h => by
    rw [show f + 1 + k = (f + k) + 1 by omega]
    simp only [srcRun] at h ⊢
    cases hs : src s rd with
    | err r1 => rw [hs] at h; simp at h
    | tok s1 r1 t d =>
      rw [hs] at h
      cases d with
      | true => exact h
      | false =>
        simp only [Prod.mk.injEq] at h ⊢
        obtain ⟨h1, h2, h3⟩ := h
        have hh : srcRun src f s1 r1 = ((srcRun src f s1 r1).1, true, rd') := by
          rw [← h2, ← h3]
        have ih := srcRun_mono src k f s1 r1 _ _ hh
        rw [ih]
        exact ⟨h1, rfl, rfl⟩

theorem srcRun_indep {σ : Type} (src : σ → Rd → SrcStep σ) (μ : σ → Rd → Nat) (I : σ → Rd → Prop)
    (hstep : ∀ s rd s' rd' t, I s rd → src s rd = .tok s' rd' t false → I s' rd' ∧ μ s' rd' < μ s rd) :
    ∀ (f f' : Nat) (s : σ) (rd : Rd), I s rd → μ s rd < f → μ s rd < f' →
      srcRun src f s rd = srcRun src f' s rd
  | 0, _, s, rd, _, h, _ => by omega
  | _+1, 0, s, rd, _, _, h => by omega
  | f+1, f'+1, s, rd, hi, h1, h2 => by
    simp only [srcRun]
    cases hs : src s rd with
    | err r1 => rfl
    | tok s1 r1 t d =>
      cases d with
      | true => rfl
      | false =>
        obtain ⟨hi', hlt⟩ := hstep s rd s1 r1 t hi hs
        simp only
        rw [srcRun_indep src μ I hstep f f' s1 r1 hi' (by omega) (by omega)]

/-! ### The pump against a source run -/

theorem runOut_fst {σ : Type} (step : σ → Tok → EncOut σ) : ∀ (ts : List Tok) (s : σ),
    (runOut step s ts).1 = runFlags step s ts
  | [], s => rfl
  | t :: ts, s => by
    simp only [runOut, runFlags]
    cases h : (step s t).ret.flag <;> simp [runOut_fst step ts]

/-- the sink answers continue on every token but the last and done on the last -/
def SinkOk {τ : Type} (sink : τ → Tok → EncOut τ) (k : τ) (ts : List Tok) : Prop :=
  (runOut sink k ts).1 = List.replicate (ts.length - 1) Flag.cont ++ [Flag.done]

theorem sinkOk_single {τ : Type} (sink : τ → Tok → EncOut τ) (k : τ) (t : Tok) (h : SinkOk sink k [t]) :
    (sink k t).ret.flag = .done ∧ (runOut sink k [t]).2 = (sink k t).writes := by
  unfold SinkOk at h
  simp only [runOut, List.length_cons, List.length_nil] at h
  have hfl : (sink k t).ret.flag = .done := by
    cases hf : (sink k t).ret.flag <;> rw [hf] at h <;> simp at h
  refine ⟨hfl, ?_⟩
  simp only [runOut]
  rw [hfl]

theorem sinkOk_cons {τ : Type} (sink : τ → Tok → EncOut τ) (k : τ) (t t2 : Tok) (ts : List Tok)
    (h : SinkOk sink k (t :: t2 :: ts)) :
    (sink k t).ret.flag = .cont ∧ SinkOk sink (sink k t).st (t2 :: ts) ∧
    (runOut sink k (t :: t2 :: ts)).2 = (sink k t).writes ++ (runOut sink (sink k t).st (t2 :: ts)).2 := by
  unfold SinkOk at h ⊢
  have hfl : (sink k t).ret.flag = .cont := by
    rw [runOut] at h
    cases hf : (sink k t).ret.flag <;> rw [hf] at h
    all_goals
      simp only [List.length_cons, Nat.add_sub_cancel] at h
      have := congrArg List.length h
      simp at this
  rw [runOut, hfl] at h
  refine ⟨hfl, ?_, ?_⟩
  · simp only [List.length_cons, Nat.add_sub_cancel] at h ⊢
    rw [List.replicate_succ, List.cons_append] at h
    exact List.tail_eq_of_cons_eq h
  · rw [runOut, hfl]

theorem pump_ok {σ τ : Type} (src : σ → Rd → SrcStep σ) (sink : τ → Tok → EncOut τ) :
    ∀ (f : Nat) (s : σ) (rd : Rd) (k : τ) (out : List Bytes) (ts : List Tok) (rd' : Rd),
      srcRun src f s rd = (ts, true, rd') → SinkOk sink k ts →
      Pump.run src sink f s rd k out = ⟨true, out ++ (runOut sink k ts).2, rd'⟩
  | 0, s, rd, k, out, ts, rd', h, _ => by simp [srcRun] at h
  | f+1, s, rd, k, out, ts, rd', h, hk => by
    simp only [srcRun] at h
    simp only [Pump.run]
    cases hs : src s rd with
    | err r1 => rw [hs] at h; simp at h
    | tok s1 r1 t d =>
      rw [hs] at h
      cases d with
      | true =>
        simp only [Prod.mk.injEq] at h
        obtain ⟨rfl, _, rfl⟩ := h
        obtain ⟨hfl, hw⟩ := sinkOk_single sink k t hk
        simp only
        rw [hfl, hw]
        simp
      | false =>
        simp only [Prod.mk.injEq] at h
        obtain ⟨h1, h2, h3⟩ := h
        have hh : srcRun src f s1 r1 = ((srcRun src f s1 r1).1, true, rd') := by
          rw [← h2, ← h3]
        cases hts : (srcRun src f s1 r1).1 with
        | nil =>
          -- a successful run produces at least one token
          exfalso
          rw [hts] at hh
          cases f with
          | zero => simp [srcRun] at hh
          | succ f =>
            simp only [srcRun] at hh
            cases hs2 : src s1 r1 with
            | err r2 => rw [hs2] at hh; simp at hh
            | tok s2 r2 t2 d2 => rw [hs2] at hh; cases d2 <;> simp at hh
        | cons t2 ts2 =>
          rw [hts] at h1 hh
          subst h1
          obtain ⟨hfl, hk', hw⟩ := sinkOk_cons sink k t t2 ts2 hk
          have ih := pump_ok src sink f s1 r1 (sink k t).st (out ++ (sink k t).writes) (t2 :: ts2) rd' hh hk'
          simp only
          rw [hfl]
          simp only [Bool.false_eq_true, if_false]
          rw [show (Flag.cont == Flag.done) = false by decide]
          simp only [Bool.false_eq_true, if_false]
          rw [ih, hw, List.append_assoc]

/-- if the pump succeeds the source run (same fuel) signalled done -/
theorem pump_fail {σ τ : Type} (src : σ → Rd → SrcStep σ) (sink : τ → Tok → EncOut τ) :
    ∀ (f : Nat) (s : σ) (rd : Rd) (k : τ) (out : List Bytes),
      (srcRun src f s rd).2.1 = false → (Pump.run src sink f s rd k out).ok = false
  | 0, s, rd, k, out, _ => rfl
  | f+1, s, rd, k, out, h => by
    simp only [srcRun] at h
    simp only [Pump.run]
    cases hs : src s rd with
    | err r1 => rfl
    | tok s1 r1 t d =>
      rw [hs] at h
      cases d with
      | true => simp at h
      | false =>
        simp only at h ⊢
        have ih := fun k' out' => pump_fail src sink f s1 r1 k' out' h
        cases hfl : (sink k t).ret.flag with
        | err => rfl
        | panic => rfl
        | cont => simp only [Bool.false_eq_true, if_false]; split <;> exact ih _ _
        | done => simp only [Bool.false_eq_true, if_false]; split <;> exact ih _ _

/-! ### The decoders' `run` is `srcRun` of their pump sources -/

def isOk : Except Err Unit → Bool
  | .ok _ => true
  | .error _ => false

theorem isOk_iff (r : Except Err Unit) : isOk r = true ↔ r = .ok () := by
  cases r <;> simp [isOk]

theorem cbor_run_eq (coerce : Bool) : ∀ (f : Nat) (s : CborDec.St) (rd : Rd) (acc : List Tok) (st al : Nat),
    let o := CborDec.run coerce f s rd acc st al
    let r := srcRun (cborSrc coerce) f s rd
    o.toks = acc.reverse ++ r.1 ∧ isOk o.res = r.2.1 ∧ o.rd = r.2.2
  | 0, s, rd, acc, st, al => by simp [CborDec.run, srcRun, isOk]
  | f+1, s, rd, acc, st, al => by
    simp only [CborDec.run, srcRun, cborSrc]
    cases hr : (CborDec.step coerce s rd).ret with
    | err e => simp [isOk]
    | tok t d =>
      cases d with
      | true => simp [isOk]
      | false =>
        have ih := cbor_run_eq coerce f (CborDec.step coerce s rd).st (CborDec.step coerce s rd).rd (t :: acc)
          (st + 1) (al + (CborDec.step coerce s rd).alloc)
        simp only at ih ⊢
        refine ⟨?_, ih.2.1, ih.2.2⟩
        rw [ih.1]; simp

theorem json_run_eq : ∀ (f : Nat) (s : JsonDec.St) (rd : Rd) (acc : List Tok) (st : Nat),
    let o := JsonDec.run f s rd acc st
    let r := srcRun jsonSrc f s rd
    o.toks = acc.reverse ++ r.1 ∧ isOk o.res = r.2.1 ∧ o.rd = r.2.2
  | 0, s, rd, acc, st => by simp [JsonDec.run, srcRun, isOk]
  | f+1, s, rd, acc, st => by
    simp only [JsonDec.run, srcRun, jsonSrc]
    cases hr : (JsonDec.step s rd).ret with
    | err e => simp [isOk]
    | tok t d =>
      cases d with
      | true => simp [isOk]
      | false =>
        have ih := json_run_eq f (JsonDec.step s rd).st (JsonDec.step s rd).rd (t :: acc) (st + 1)
        simp only at ih ⊢
        refine ⟨?_, ih.2.1, ih.2.2⟩
        rw [ih.1]; simp

end Refmt.PumpL
