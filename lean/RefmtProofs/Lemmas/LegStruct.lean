/-
  C12, claim (ii) — reading the entries of a struct in any order (see RefmtProofs/Props/C12Typed.lean).
-/
import RefmtProofs.Lemmas.LegUP
set_option linter.unusedSimpArgs false
set_option linter.unusedVariables false
namespace Refmt.Obj
open Refmt Refmt.C13 Refmt.C11 Refmt.C12 Refmt.C12L

variable {ts : Types} {a : Atlas} {trs : Trs} {it : IfaceTys}

/-- the field index of a one-step route -/
def routeIdx (f : SMField) : Nat := f.route.headD 0

def setStep (acc : List Val) (p : SMField × Item) : List Val := acc.set (routeIdx p.1) p.2.r

/-- writes at pairwise distinct indices commute: the result does not depend on the order -/
theorem foldl_setStep_perm {l1 l2 : List (SMField × Item)} (hp : l1.Perm l2) :
    (l1.map fun p => routeIdx p.1).Nodup → ∀ cs, l1.foldl setStep cs = l2.foldl setStep cs := by
  induction hp with
  | nil => intro _ cs; rfl
  | cons x _ ih =>
    intro hnd cs
    simp only [List.map_cons, List.nodup_cons] at hnd
    simp only [List.foldl_cons]
    exact ih hnd.2 _
  | swap x y l =>
    intro hnd cs
    simp only [List.map_cons, List.nodup_cons, List.mem_cons, not_or] at hnd
    simp only [List.foldl_cons, setStep]
    rw [List.set_comm _ _ (Ne.symm hnd.1.1)]
  | trans h1 _ ih1 ih2 =>
    intro hnd cs
    rw [ih1 hnd cs]
    exact ih2 (((h1.map _).nodup_iff).mp hnd) cs

theorem setStep_length (l : List (SMField × Item)) : ∀ cs, (l.foldl setStep cs).length = cs.length := by
  induction l with
  | nil => intro cs; rfl
  | cons p ps ih => intro cs; simp only [List.foldl_cons]; rw [ih]; simp [setStep]

/-- struct entries (key = field name), in any order: every value is written to the field its name designates -/
theorem rd_struct (id : Nat) (fds : List FieldDesc) (fields : List SMField) (N : Nat) (hd : ts.get id = .struct fds)
    (hnames : (fields.map (·.name)).Nodup) : ∀ (l : List (SMField × Item)),
    (∀ p ∈ l, p.1 ∈ fields ∧ p.1.ignore = false ∧ HeadNC p.2.tk2 ∧ ∃ i fd, p.1.route = [i] ∧ fds[i]? = some fd ∧
      ∀ F, N ≤ F → Rd ts a trs it F p.1.ty p.2.tk2 p.2.r) →
    (l.map fun p => routeIdx p.1).Nodup →
    ∀ F, N + l.length + 1 ≤ F → ∀ (cs : List Val) (idx : Nat) (len : Int) rest, cs.length = fds.length →
    (∀ p ∈ l, cs[routeIdx p.1]? = some (zeroVal ts 64 p.1.ty)) → len = ((idx + l.length : Nat) : Int) →
    unmStruct ts a trs it F id fields len idx (.struct cs)
        (l.flatMap (fun p => ⟨.str p.1.name, none⟩ :: p.2.tk2) ++ ⟨.mapClose, none⟩ :: rest) =
      .ok (.struct (l.foldl setStep cs)) rest ((l.flatMap (fun p => ⟨.str p.1.name, none⟩ :: p.2.tk2)).length + 1) := by
  intro l
  induction l with
  | nil =>
    intro _ _ F hF cs idx len rest _ _ hlen
    obtain ⟨F, rfl⟩ : ∃ F', F = F' + 1 := ⟨F - 1, by omega⟩
    subst hlen
    simp [unmStruct_cons]
  | cons p ps ih =>
    intro h hnd F hF cs idx len rest hcs hzero hlen
    obtain ⟨F, rfl⟩ : ∃ F', F = F' + 1 := ⟨F - 1, by omega⟩
    obtain ⟨hmem, hign, ⟨t, r, htk, hc1, hc2⟩, i, fd, hroute, hfd, hx⟩ := h p (by simp)
    have hri : routeIdx p.1 = i := by simp [routeIdx, hroute]
    have hci : cs[i]? = some (zeroVal ts 64 p.1.ty) := by rw [← hri]; exact hzero p (by simp)
    have hx := hx F (by simp at hF; omega)
      (ps.flatMap (fun p => ⟨.str p.1.name, none⟩ :: p.2.tk2) ++ ⟨.mapClose, none⟩ :: rest)
    simp only [List.map_cons, List.nodup_cons] at hnd
    have hxs := ih (fun y hy => h y (by simp [hy])) hnd.2 F (by simp at hF; omega)
      (cs.set i p.2.r) (idx + 1) len rest (by simp [hcs])
      (fun y hy => by
        have hne : i ≠ routeIdx y.1 := by
          intro he
          apply hnd.1
          rw [hri, he]
          exact List.mem_map_of_mem (f := fun p => routeIdx p.1) hy
        rw [List.getElem?_set_ne hne]
        exact hzero y (by simp [hy]))
      (by rw [hlen]; simp only [List.length_cons]; congr 1; omega)
    rw [flatMap_cons_append, List.cons_append, unmStruct_cons]
    simp only [find?_name fields hnames p.1 hmem, hign, Bool.false_eq_true, if_false]
    rw [htk] at hx ⊢
    rw [List.cons_append] at hx ⊢
    simp only
    rw [hroute, getRoute_one ts hd hfd hci]
    simp only
    rw [hx]
    simp only [URes.bind'_ok, structCont]
    rw [setRoute_one ts _ hd hfd hci]
    simp only [hxs, List.foldl_cons, setStep, hri, URes.shift_ok]
    simp [List.flatMap_cons, htk]
    omega

/-- the struct-map fold of the specification, written with `setStep` -/
theorem fold_fieldStep (id : Nat) (fds : List FieldDesc) (vs : List Val) (R : Nat → Val → Val) (hd : ts.get id = .struct fds) :
    ∀ (l : List (SMField × Item)) (cs : List Val), cs.length = fds.length →
    (∀ p ∈ l, ∃ i fd fv, p.1.route = [i] ∧ fds[i]? = some fd ∧ vs[i]? = some fv ∧ p.2.r = R p.1.ty fv) →
    (l.map (·.1)).foldl (fieldStep ts id (.struct vs) R) (.struct cs) = .struct (l.foldl setStep cs) := by
  intro l
  induction l with
  | nil => intro cs _ _; rfl
  | cons p ps ih =>
    intro cs hcs h
    obtain ⟨i, fd, fv, hroute, hfd, hvi, hr⟩ := h p (by simp)
    have hilt : i < cs.length := by
      rw [hcs]
      exact (List.getElem?_eq_some_iff.mp hfd).1
    have hci : cs[i]? = some cs[i] := List.getElem?_eq_getElem hilt
    have hstep : fieldStep ts id (.struct vs) R (.struct cs) p.1 = .struct (setStep cs p) := by
      unfold fieldStep
      rw [hroute, traverse_one, hvi]
      simp only
      rw [setRoute_one ts _ hd hfd hci]
      simp [setStep, routeIdx, hroute, hr]
    simp only [List.map_cons, List.foldl_cons, hstep]
    exact ih _ (by simp [setStep, hcs]) (fun y hy => h y (by simp [hy]))

end Refmt.Obj
