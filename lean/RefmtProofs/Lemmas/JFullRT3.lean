-- the JSON round-trip induction over `fullTy`: keyed unions and transforms
-- (see RefmtProofs/Props/C01JsonFull.lean; mirrors RefmtProofs/Lemmas/FullRT3.lean)
import RefmtProofs.Lemmas.JFullRT2
import RefmtProofs.Lemmas.JFullEqv
set_option linter.unusedSimpArgs false
set_option linter.unusedVariables false
set_option linter.unusedTactic false
set_option linter.unreachableTactic false
namespace Refmt.Obj
open Refmt Refmt.C13 Refmt.C11 Refmt.C12

local notation "rt" => Spec.Json.retypeTok

variable {ts : Types} {a : Atlas} {trs : Trs} {it : IfaceTys}

/-! ### keyed unions -/

theorem rtj_b_union {f} (hnm : namesUtf8 a = true) (ih : RTJ ts a trs it f) (p h id : Nat) (m reg : Bool) (ty : Nat) (tag : Option Int)
    (members : List (Bytes × Nat)) (v : Val) (toks : List Tok) (g : Nat) (hp64 : p + 1 ≤ 64)
    (hd : ts.get id = .iface m) (he : a.get id = some ⟨reg, ty, tag, .union members⟩)
    (hnames : (members.map (·.1)).Nodup) (hmem : ∀ mem ∈ members, MOKF ts a p mem)
    (hv : hasTy ts h id v = true) (hg : f + 1 ≤ g) (hs : fullValJB ts a trs it g id (pickBare ts a id) v = true)
    (hm : marshalBare ts a trs (f+1) id (pickBare ts a id) v = ⟨toks, none⟩) :
    HeadSpec toks ∧ ∀ F, f + 1 < F → ∀ rest,
      unmBare ts a trs it F id (upickBare ts a id) (zeroVal ts 64 id) (toks.map rt ++ rest) =
        .ok (rtJB ts a trs it g id (pickBare ts a id) v) rest toks.length := by
  obtain ⟨g, rfl⟩ : ∃ g', g = g' + 1 := ⟨g - 1, by omega⟩
  obtain ⟨hpk, hupk⟩ := pick_union hd he
  rw [hpk] at hm hs ⊢; rw [hupk]
  rw [fullValJB_union] at hs
  rw [marshalBare_union] at hm
  have hutf := names_union hnm he
  cases h with
  | zero => simp [hasTy] at hv
  | succ h =>
  cases v <;> try (simp [MOut.bad] at hm; done)
  rename_i o
  cases o with
  | none => simp [MOut.bad] at hm
  | some q =>
    obtain ⟨dt, dv⟩ := q
    have hvd : hasTy ts h dt dv = true := by simpa [hasTy, hd] using hv
    simp only at hm hs
    cases hfind : (members.find? fun (x : Bytes × Nat) => (a.pool[x.2]?.map (·.ty)) == some dt) with
    | none => simp only [hfind] at hm; simp [MOut.bad] at hm
    | some q =>
      obtain ⟨nm, idx⟩ := q
      simp only [hfind] at hm hs
      cases hme : a.pool[idx]? with
      | none => simp only [hme] at hm; simp [MOut.bad] at hm
      | some me =>
        simp only [hme] at hm hs
        obtain ⟨hin, hty⟩ := find_member_ty hfind hme
        obtain ⟨me', fs, fds, hme', hk, hds, hmach, humach, hpkd, hupkd, hfull⟩ := member_mach (hmem _ hin)
        simp only at hme'
        rw [hme] at hme'
        cases hme'
        subst hty
        rw [hmach] at hm hs
        obtain ⟨p', rfl⟩ : ∃ p', p = p' + 1 := by
          cases p with
          | zero => simp [fullTy] at hfull
          | succ p' => exact ⟨p', rfl⟩
        have hnpd : ∀ e, ts.get me.ty ≠ .ptr e := by simp [hds]
        cases hinner : marshalBare ts a trs f me.ty (pickBare ts a me.ty) dv with
        | mk ti fi =>
        rw [hinner] at hm
        simp only at hm
        have hfi : fi = none := by
          cases fi with
          | none => rfl
          | some ff =>
            exfalso
            cases ti with
            | nil => simp [MOut.bad] at hm
            | cons t0 r0 =>
              simp only [MOut.seq, MOut.ok] at hm
              simp at hm
        subst hfi
        have hm2 : (MOut.ok [⟨.mapOpen 1, none⟩, ⟨.str nm, none⟩]).seq (fun _ =>
            (MOut.mk ti none).seq fun _ => MOut.ok [⟨.mapClose, none⟩]) = ⟨toks, none⟩ := by
          cases ti <;> simpa using hm
        obtain ⟨t1, t23, h1, h23, rfl⟩ := seq_ok hm2
        obtain ⟨tl, tc, h2, h3, rfl⟩ := seq_ok h23
        simp [MOut.ok] at h1 h2 h3; subst h1 h2 h3
        obtain ⟨hhs, hu⟩ := ih.b p' h me.ty dv ti g (by omega) hfull hnpd hvd (by omega) hs hinner
        refine ⟨Or.inr ⟨⟨.mapOpen 1, none⟩, _, rfl, by simp, by simp, by simp⟩, fun F hF rest => ?_⟩
        obtain ⟨F, rfl⟩ : ∃ F', F = F' + 1 := ⟨F - 1, by omega⟩
        have hu := hu F (by omega) (⟨.mapClose, none⟩ :: rest)
        rw [hupkd] at hu
        have humach' : umachForEntry ts me = .structMap fs := by rw [humach, hupkd]
        have hnmu : toValidUtf8 nm = nm := hutf _ hin
        have e1 : ([(⟨.mapOpen 1, none⟩ : Tok), ⟨.str nm, none⟩] ++ (ti ++ [(⟨.mapClose, none⟩ : Tok)])).map rt ++ rest =
            ⟨.mapOpen (-1), none⟩ :: ⟨.str nm, none⟩ :: (ti.map rt ++ ⟨.mapClose, none⟩ :: rest) := by simp [rt_str hnmu]
        rw [e1, unmBare_union, rtJB_union]
        simp only [hfind, hme, hmach, find?_member_name members hnames nm idx hin, humach', hu]
        simp [unionClose]

/-! ### transforms -/

/-- the transform machine's tagging is invisible after a JSON round trip -/
theorem retag_rt {tag : Option Int} {o : MOut} {toks : List Tok} (h : retagFirst tag o = ⟨toks, none⟩) :
    ∃ toks0, o = ⟨toks0, none⟩ ∧ toks.length = toks0.length ∧ toks.map rt = toks0.map rt ∧
      (HeadSpec toks0 → HeadSpec toks) := by
  obtain ⟨toks0, ho, hlen, hcase⟩ := retag_inv h
  refine ⟨toks0, ho, hlen, ?_, ?_⟩
  · rcases hcase with rfl | ⟨t0, r, gg, -, rfl, rfl⟩
    · rfl
    · simp only [List.map_cons]
      rw [rt_tag t0.body (some gg) t0.tag]
  · intro hhs0
    rcases hcase with rfl | ⟨t0, r, gg, -, rfl, rfl⟩
    · exact hhs0
    · rcases hhs0 with ⟨tg, h0⟩ | ⟨t, r', h0, h1, h2, h3⟩
      · simp only [List.cons.injEq] at h0
        obtain ⟨rfl, rfl⟩ := h0
        exact Or.inl ⟨some gg, rfl⟩
      · simp only [List.cons.injEq] at h0
        obtain ⟨rfl, rfl⟩ := h0
        exact Or.inr ⟨_, _, rfl, h1, h2, h3⟩

theorem rtj_b_transform {f} (htr : TrsEqv trs) (he : UEnv ts a it) (ih : RTJ ts a trs it f) (p h id : Nat) (reg : Bool) (ty : Nat)
    (tag : Option Int) (fn mty : Nat) (v : Val) (toks : List Tok) (g : Nat) (hp64 : p + 1 ≤ 64)
    (hb : isBuiltin (ts.get id) = false) (hent : a.get id = some ⟨reg, ty, tag, .transform fn mty mty⟩)
    (hmp : ∀ e, ts.get mty ≠ .ptr e) (hfm : fullTy ts a p mty = true)
    (hg : f + 1 ≤ g) (hs : fullValJB ts a trs it g id (pickBare ts a id) v = true)
    (hm : marshalBare ts a trs (f+1) id (pickBare ts a id) v = ⟨toks, none⟩) :
    HeadSpec toks ∧ ∀ F, f + 1 < F → ∀ rest,
      unmBare ts a trs it F id (upickBare ts a id) (zeroVal ts 64 id) (toks.map rt ++ rest) =
        .ok (rtJB ts a trs it g id (pickBare ts a id) v) rest toks.length := by
  obtain ⟨g, rfl⟩ : ∃ g', g = g' + 1 := ⟨g - 1, by omega⟩
  obtain ⟨hpk, hupk⟩ := pick_transform hb hent
  rw [hpk] at hm hs ⊢; rw [hupk]
  rw [fullValJB_transform] at hs
  rw [marshalBare_transform] at hm
  cases htm : trs.m fn v with
  | none => simp only [htm] at hm; simp [MOut.bad] at hm
  | some tv =>
    simp only [htm, Bool.and_eq_true] at hm hs
    obtain ⟨⟨hvt, hfv⟩, hsome⟩ := hs
    obtain ⟨toks0, ho, hlen, hmap, hhead⟩ := retag_rt hm
    obtain ⟨hhs0, hu⟩ := ih.v p 1000 mty tv toks0 g (by omega) hfm hvt (by omega) hfv ho
    obtain ⟨b', hb'⟩ := Option.isSome_iff_exists.mp hsome
    obtain ⟨a', ha', -⟩ := htr fn _ _ b' ((rtj_eqv_norm htr he g).1 p mty tv (by omega) hfm hfv) hb'
    refine ⟨hhead hhs0, fun F hF rest => ?_⟩
    obtain ⟨F, rfl⟩ : ∃ F', F = F' + 1 := ⟨F - 1, by omega⟩
    have hu' := hu (F + 1) (by omega) rest
    rw [rtJB_transform]
    simp only [htm, ha', Option.getD_some]
    rw [hmap, hlen]
    obtain ⟨t0, r0, rfl, -, -⟩ := hhs0.head
    rw [List.map_cons, List.cons_append, unmV_nonptr ts a trs it hmp] at hu'
    rw [List.map_cons, List.cons_append, unmBare_transform, hu']
    simp [trPost, ha']

end Refmt.Obj
