/-
  Stateful object unmarshaller: the map machine between entries  ~  `unmMapEntries`.
-/
import RefmtProofs.Lemmas.UnmarshalMachUnionMap
set_option linter.unusedSimpArgs false
set_option linter.unusedVariables false
namespace Refmt.UMachU
open Refmt Refmt.Obj Refmt.Obj.UM Refmt.UMachL

variable {ts : Types} {a : Atlas} {trs : Trs} {it : IfaceTys}

theorem unmMap_close {n vt : Nat} {kf : Option Nat} {es : List (Val × Val)} {t : Tok} {rest : List Tok}
    (ht : t.body = .mapClose) :
    unmMapEntries ts a trs it (n+1) kf vt es (t :: rest) = .ok (.map (some es)) rest 1 := by
  simp only [unmMapEntries, ht]

theorem unmMap_other {n vt : Nat} {kf : Option Nat} {es : List (Val × Val)} {t : Tok} {rest : List Tok}
    (h1 : t.body ≠ .mapClose) (h2 : ∀ x, t.body ≠ .str x) :
    unmMapEntries ts a trs it (n+1) kf vt es (t :: rest) = .err 0 := by
  simp only [unmMapEntries]

theorem unmMap_str {n vt : Nat} {kf : Option Nat} {es : List (Val × Val)} {t : Tok} {rest : List Tok} {x : Bytes}
    (ht : t.body = .str x) :
    unmMapEntries ts a trs it (n+1) kf vt es (t :: rest) =
      match keyOf trs kf x with
      | none => .err 0
      | some k =>
        if hasKey k es then .err 0
        else (bindU (unmV ts a trs it n vt (zeroVal ts 64 vt) rest)
          (fun v r u => (unmMapEntries ts a trs it n kf vt (es ++ [(k, v)]) r).shift u)).shift 1 := by
  have fin2 : ∀ k : Val,
      (if hasKey k es then URes.err 0
       else match unmV ts a trs it n vt (zeroVal ts 64 vt) rest with
         | .ok v r u => (unmMapEntries ts a trs it n kf vt (es ++ [(k, v)]) r).shift (u + 1)
         | y => y.shift 1)
      = (if hasKey k es then URes.err 0
         else (bindU (unmV ts a trs it n vt (zeroVal ts 64 vt) rest)
          (fun v r u => (unmMapEntries ts a trs it n kf vt (es ++ [(k, v)]) r).shift u)).shift 1) := by
    intro k
    split
    · rfl
    · cases unmV ts a trs it n vt (zeroVal ts 64 vt) rest <;> simp [bindU]
  cases kf with
  | none =>
    simp only [unmMapEntries, ht, keyOf]
    exact fin2 _
  | some fn =>
    simp only [unmMapEntries, ht, keyOf]
    cases trs.u fn (.str x) with
    | none => rfl
    | some k => exact fin2 k

variable (ts a trs it)

/-- the map machine's row when it expects a key or the close token: `es` are the entries committed or about to be -/
def MapSt (row : URow) (es : List (Val × Val)) (kf : Option Nat) (vt j : Nat) (cck : MK) : Prop :=
  (row.map.phase = .acceptKeyOrClose ∨ row.map.phase = .acceptAnotherKeyOrClose) ∧
  (effRow row).map.target_rv = .map (some es) ∧ row.map.keyDestringer = kf ∧ row.map.value_rt = vt ∧
  row.map.valueZero_rv = zeroVal ts 64 vt ∧ row.map.valueMach = some ⟨j, cck⟩

def SimM (S : List Nat) (n : Nat) : Prop :=
  ∀ vt ∈ S, ∀ (kf : Option Nat) (es : List (Val × Val)) (lo : List URow) (row : URow) (mid : List URow) (crow : URow)
    (hi : List URow) (stk : List URef) (be : Option XFail) (c : URef) (cck : MK) (F : Val → Option Val) (w : Val → Val) (d : Nat) (toks : List Tok)
    (sf : Nat),
    MapSt ts row es kf vt (lo.length + 1 + mid.length) cck → CfgV ts a crow vt cck → ∀ {un : Option Nat}, Wr trs.u c lo row .map F w d un → d ≤ 3 →
    17 ≤ sf →
    Agree ts a trs it none un c sf be stk lo row F w
      (pump ts a trs it sf ⟨lo ++ row :: (mid ++ crow :: hi), stk, some c, be⟩ toks)
      (unmMapEntries ts a trs it n kf vt es toks)

variable {ts a trs it}

theorem simM_zero (S : List Nat) : SimM ts a trs it S 0 := by
  intro vt he kf es lo row mid crow hi stk be c cck F w d toks sf hst hcc un hw hd hsf
  simp [unmMapEntries, Agree]

theorem effRow_map_eq (row : URow) :
    (effRow row).map.keyDestringer = row.map.keyDestringer ∧ (effRow row).map.value_rt = row.map.value_rt ∧
    (effRow row).map.valueZero_rv = row.map.valueZero_rv ∧ (effRow row).map.valueMach = row.map.valueMach := by
  unfold effRow; split <;> exact ⟨rfl, rfl, rfl, rfl⟩

/-- the map machine's row when it expects a value for key `k` -/
def MapVSt (ts : Types) (row : URow) (es : List (Val × Val)) (k : Val) (kf : Option Nat) (vt j : Nat) (cck : MK) : Prop :=
  row.map.phase = .acceptValue ∧ row.map.target_rv = .map (some es) ∧ row.map.key_rv = k ∧
  row.map.keyDestringer = kf ∧ row.map.value_rt = vt ∧
  row.map.valueZero_rv = zeroVal ts 64 vt ∧ row.map.valueMach = some ⟨j, cck⟩

theorem simM_value {S : List Nat} {n : Nat} (hV : SimV ts a trs it S n) (hM : SimM ts a trs it S n)
    {vt : Nat} (he : vt ∈ S) (kf : Option Nat) (es : List (Val × Val)) (k : Val) (lo : List URow) (row : URow)
    (mid : List URow) (crow : URow) (hi : List URow) (stk : List URef) (be : Option XFail) (c : URef) (cck : MK)
    (F : Val → Option Val) (w : Val → Val) (d : Nat) (toks : List Tok) (sf : Nat)
    (hst : MapVSt ts row es k kf vt (lo.length + 1 + mid.length) cck) (hcc : CfgV ts a crow vt cck)
    {un : Option Nat} (hw : Wr trs.u c lo row .map F w d un) (hd : d ≤ 3) (hsf : 17 ≤ sf) :
    Agree ts a trs it none un c sf be stk lo row F w
      (pump ts a trs it sf ⟨lo ++ row :: (mid ++ crow :: hi), stk, some c, be⟩ toks)
      (bindU (unmV ts a trs it n vt (zeroVal ts 64 vt) toks)
        (fun v r u => (unmMapEntries ts a trs it n kf vt (es ++ [(k, v)]) r).shift u)) := by
  obtain ⟨hph, htg, hkey, hkd, hvt, hvz, hvm⟩ := hst
  cases toks with
  | nil =>
    cases n with
    | zero => simp [unmV, bindU, Agree]
    | succ n => simp [unmV, bindU, Agree, pump]
  | cons t rest =>
    obtain ⟨g, rfl⟩ : ∃ g, sf = g + 1 + 1 + d + 1 := ⟨sf - d - 3, by omega⟩
    have hs : stepM ts a trs it (g + 1 + 1 + d) c
        ⟨lo ++ row :: (mid ++ crow :: hi), stk, some c, be⟩ t
        = recurse ts a trs it (g + 1)
            ⟨lo ++ rowMp row (mpVal row.map) :: (mid ++ crow :: hi), stk, some c, be⟩ t
            (zeroVal ts 64 vt) vt ⟨lo.length + 1 + mid.length, cck⟩ := by
      rw [hw.step, map_step_value hph hvm, mapDoneO_recurse, mapDone_recurse, finU_recurse, hvt, hvz]
    rw [pump_rec hs]
    have hR : lo ++ rowMp row (mpVal row.map) :: (mid ++ crow :: hi)
        = (lo ++ rowMp row (mpVal row.map) :: mid) ++ crow :: hi := by simp
    have hj : lo.length + 1 + mid.length = (lo ++ rowMp row (mpVal row.map) :: mid).length := by
      simp; omega
    rw [hR, hj]
    have hA := hV vt he (zeroVal ts 64 vt) (lo ++ rowMp row (mpVal row.map) :: mid) crow hi
      (c :: stk) be cck (t :: rest) g g (g + 1 + 1 + d + 1) hcc (by omega) (by omega) hsf
    revert hA
    generalize unmV ts a trs it n vt (zeroVal ts 64 vt) (t :: rest) = r
    generalize rtp ts a trs it g g (g + 1 + 1 + d + 1) _ _ be _ vt (zeroVal ts 64 vt) (t :: rest) = X
    intro hA
    cases r with
    | panic u => trivial
    | more u => exact hA
    | err u => exact hA
    | ok v r u =>
      obtain ⟨hu, crow', hi', fa, hc1, hfa, hX⟩ := hA
      obtain ⟨fa', rfl⟩ : ∃ f, fa = f + 1 + d := ⟨fa - 1 - d, by omega⟩
      have hw1 : Wr trs.u c lo (rowMp row (mpVal row.map)) .map F w d un := hw.congr rfl
      have hab : absorbM ts (fa' + 1 + d) c v
          ((lo ++ rowMp row (mpVal row.map) :: mid) ++ crow' :: hi')
          = .ok (lo ++ rowMp row (mpAbs (mpVal row.map) v) :: (mid ++ crow' :: hi')) := by
        rw [show (lo ++ rowMp row (mpVal row.map) :: mid) ++ crow' :: hi'
          = lo ++ rowMp row (mpVal row.map) :: (mid ++ crow' :: hi') by simp, hw1.absorb, map_absorb]
        rfl
      simp only [bindU]
      rw [hX]
      simp only [kontU, kont, id, hab]
      have hst2 : MapSt ts (rowMp row (mpAbs (mpVal row.map) v)) (es ++ [(k, v)]) kf vt
          (lo.length + 1 + mid.length) cck := by
        refine ⟨Or.inr rfl, ?_, hkd, hvt, hvz, hvm⟩
        simp [effRow, mpAbs, mpVal, mpCommit, htg, hkey, mapEntries]
      have hA2 := hM vt he kf (es ++ [(k, v)]) lo (rowMp row (mpAbs (mpVal row.map) v)) mid crow' hi' stk be c cck F w d r
        (g + 1 + 1 + d + 1) hst2 (CfgV.keep ts a hcc hc1) (hw.congr rfl) hd hsf
      have hA3 := hA2.shift (row := row) u (rowMp_same _ _)
      rw [shift_shift, show 1 + (u - 1) = u by omega]
      exact hA3

end Refmt.UMachU
