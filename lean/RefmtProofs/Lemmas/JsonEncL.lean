/-
  Encoder-machine lemmas for C03: `runOut` over a `cont` prefix with the bytes written, single steps of
  `JsonEnc.step` in each position, and the whitespace options against `stripWs`.
-/
import RefmtProofs.Lemmas.JsonText
set_option linter.unusedSimpArgs false
set_option linter.unusedVariables false
namespace Refmt.C03L
open Refmt Refmt.JsonEnc

/-- the encoder step with the model's float text -/
abbrev stp (c : Cfg) : St → Tok → EncOut St := step c FloatText.jsonFloat

/-- From `s`, the tokens `ts` are all answered `cont`, write the bytes `bs`, and leave the machine in `s'`. -/
def Runs (c : Cfg) (s : St) (ts : List Tok) (bs : Bytes) (s' : St) : Prop :=
  ∀ more, (runOut (stp c) s (ts ++ more)).1 = List.replicate ts.length Flag.cont ++ (runOut (stp c) s' more).1 ∧
    (runOut (stp c) s (ts ++ more)).2.flatten = bs ++ (runOut (stp c) s' more).2.flatten

theorem Runs.nil (c : Cfg) (s : St) : Runs c s [] [] s := by
  intro more; simp

theorem Runs.single {c : Cfg} {s s' : St} {t : Tok} {bs : Bytes}
    (hf : (stp c s t).ret.flag = .cont) (hs : (stp c s t).st = s') (hw : (stp c s t).writes.flatten = bs) :
    Runs c s [t] bs s' := by
  intro more
  simp only [List.singleton_append, runOut, hf, hs, List.length_cons, List.length_nil, List.flatten_append, hw]
  simp

theorem Runs.append {c : Cfg} {s s' s'' : St} {ts us : List Tok} {bs bs' : Bytes}
    (h1 : Runs c s ts bs s') (h2 : Runs c s' us bs' s'') : Runs c s (ts ++ us) (bs ++ bs') s'' := by
  intro more
  obtain ⟨a1, a2⟩ := h1 (us ++ more)
  obtain ⟨b1, b2⟩ := h2 more
  rw [List.append_assoc, a1, a2, b1, b2]
  simp only [List.length_append, List.append_assoc, ← List.replicate_append_replicate, and_self]

theorem Runs.finish {c : Cfg} {s s' : St} {ts : List Tok} {bs bs' : Bytes} {t : Tok}
    (h : Runs c s ts bs s') (hf : (stp c s' t).ret.flag = .done) (hw : (stp c s' t).writes.flatten = bs') :
    (runOut (stp c) s (ts ++ [t])).1 = List.replicate ts.length Flag.cont ++ [Flag.done] ∧
    (runOut (stp c) s (ts ++ [t])).2.flatten = bs ++ bs' := by
  obtain ⟨a1, a2⟩ := h [t]
  rw [a1, a2]
  simp [runOut, hf, hw]

/-! ### Writes -/

theorem entrySep_flat (c : Cfg) (s : St) : (entrySep c s).flatten = sep c s.stack.length s.some := by
  unfold entrySep sep
  cases s.some <;> simp [List.flatten_append]

theorem closeIndent_flat (c : Cfg) (s : St) : (closeIndent c s).flatten = closeSep c s.stack.length s.some := by
  unfold closeIndent closeSep
  cases s.some <;> simp [List.flatten_append]

theorem emitString_flat (s : Bytes) : (emitString s).flatten = 34 :: (esc s ++ [34]) := by
  simp [emitString, esc, List.flatten_append]

theorem flushValue_ok (b : Body) (h : encOk b = true) :
    ∃ ws, flushValue FloatText.jsonFloat b = .ok ws ∧ ws.flatten = scalarTxt b := by
  cases b <;> simp [encOk] at h
  · exact ⟨_, rfl, rfl⟩
  · exact ⟨_, rfl, emitString_flat _⟩
  · rename_i x; cases x <;> exact ⟨_, rfl, rfl⟩
  · exact ⟨_, rfl, by simp [scalarTxt]⟩
  · exact ⟨_, rfl, by simp [scalarTxt]⟩
  · rename_i x; exact ⟨[FloatText.jsonFloat x], by simp [flushValue, h], by simp [scalarTxt]⟩

/-! ### Value positions inside a container -/

def topPh (inArr : Bool) : Phase := if inArr then .arr else .mapKey
def vS (inArr : Bool) (r : List Phase) (sm : Bool) : St := if inArr then ⟨.arr :: r, .arr, sm⟩ else ⟨.mapKey :: r, .mapVal, true⟩
def vE (inArr : Bool) (r : List Phase) : St := ⟨topPh inArr :: r, topPh inArr, true⟩
def vPre (c : Cfg) (inArr : Bool) (r : List Phase) (sm : Bool) : Bytes := if inArr then sep c (r.length + 1) sm else []

theorem step_scalar (c : Cfg) (inArr : Bool) (r : List Phase) (sm : Bool) (t : Tok) (h : encOk t.body = true) :
    Runs c (vS inArr r sm) [t] (vPre c inArr r sm ++ scalarTxt t.body) (vE inArr r) := by
  obtain ⟨ws, hws, hflat⟩ := flushValue_ok t.body h
  cases inArr
  · apply Runs.single <;> cases hb : t.body <;> simp [hb, encOk] at h <;>
      simp [hb] at hws <;> simp [stp, step, vS, vE, vPre, topPh, stepMapVal, hb, hws, valueRet, Ret.flag, hflat]
  · apply Runs.single <;> cases hb : t.body <;> simp [hb, encOk] at h <;>
      simp [hb] at hws <;>
      simp [stp, step, vS, vE, vPre, topPh, stepArr, hb, hws, valueRet, Ret.flag, hflat, List.flatten_append, entrySep_flat]


theorem step_arrOpen (c : Cfg) (inArr : Bool) (r : List Phase) (sm : Bool) (len : Int) (tag : Option Int) :
    Runs c (vS inArr r sm) [⟨.arrOpen len, tag⟩] (vPre c inArr r sm ++ [91]) ⟨.arr :: topPh inArr :: r, .arr, false⟩ := by
  cases inArr <;> apply Runs.single <;>
    simp [stp, step, vS, vPre, topPh, stepArr, stepMapVal, push, Ret.flag, List.flatten_append, entrySep_flat]

theorem step_mapOpen (c : Cfg) (inArr : Bool) (r : List Phase) (sm : Bool) (len : Int) (tag : Option Int) :
    Runs c (vS inArr r sm) [⟨.mapOpen len, tag⟩] (vPre c inArr r sm ++ [123]) ⟨.mapKey :: topPh inArr :: r, .mapKey, false⟩ := by
  cases inArr <;> apply Runs.single <;>
    simp [stp, step, vS, vPre, topPh, stepArr, stepMapVal, push, Ret.flag, List.flatten_append, entrySep_flat]

theorem step_arrClose (c : Cfg) (p : Phase) (r : List Phase) (sm : Bool) :
    Runs c ⟨.arr :: p :: r, .arr, sm⟩ [⟨.arrClose, none⟩] (closeSep c (r.length + 2) sm ++ [93]) ⟨p :: r, p, true⟩ := by
  apply Runs.single <;> simp [stp, step, stepArr, pop, Ret.flag, List.flatten_append, closeIndent_flat]

theorem step_mapClose (c : Cfg) (p : Phase) (r : List Phase) (sm : Bool) :
    Runs c ⟨.mapKey :: p :: r, .mapKey, sm⟩ [⟨.mapClose, none⟩] (closeSep c (r.length + 2) sm ++ [125]) ⟨p :: r, p, true⟩ := by
  apply Runs.single <;> simp [stp, step, stepMapKey, pop, Ret.flag, List.flatten_append, closeIndent_flat]

theorem step_key (c : Cfg) (r : List Phase) (sm : Bool) (k : Bytes) (tag : Option Int) :
    Runs c ⟨.mapKey :: r, .mapKey, sm⟩ [⟨.str k, tag⟩]
      (sep c (r.length + 1) sm ++ ((34 :: (esc k ++ [34])) ++ colon c)) (vS false r true) := by
  apply Runs.single
  · simp [stp, step, stepMapKey, Ret.flag]
  · simp [stp, step, stepMapKey, vS]
  · simp only [stp, step, stepMapKey, List.flatten_append, entrySep_flat, emitString_flat, colon]
    cases c.line <;> simp

/-- top level -/
theorem top_scalar (c : Cfg) (t : Tok) (h : encOk t.body = true) :
    (stp c init t).ret.flag = .done ∧ (stp c init t).writes.flatten = scalarTxt t.body := by
  obtain ⟨ws, hws, hflat⟩ := flushValue_ok t.body h
  constructor <;> cases hb : t.body <;> simp [hb, encOk] at h <;>
    simp [hb] at hws <;> simp [stp, step, init, stepAny, hb, hws, valueRet, Ret.flag, hflat]

theorem top_arrOpen (c : Cfg) (len : Int) (tag : Option Int) :
    Runs c init [⟨.arrOpen len, tag⟩] [91] ⟨[.arr], .arr, false⟩ := by
  apply Runs.single <;> simp [stp, step, init, stepAny, push, Ret.flag]

theorem top_mapOpen (c : Cfg) (len : Int) (tag : Option Int) :
    Runs c init [⟨.mapOpen len, tag⟩] [123] ⟨[.mapKey], .mapKey, false⟩ := by
  apply Runs.single <;> simp [stp, step, init, stepAny, push, Ret.flag]

theorem top_arrClose (c : Cfg) (sm : Bool) :
    (stp c ⟨[.arr], .arr, sm⟩ ⟨.arrClose, none⟩).ret.flag = .done ∧
    (stp c ⟨[.arr], .arr, sm⟩ ⟨.arrClose, none⟩).writes.flatten = closeSep c 1 sm ++ [93] ++ c.lineBytes := by
  constructor <;> simp [stp, step, stepArr, pop, Ret.flag, List.flatten_append, closeIndent_flat]

theorem top_mapClose (c : Cfg) (sm : Bool) :
    (stp c ⟨[.mapKey], .mapKey, sm⟩ ⟨.mapClose, none⟩).ret.flag = .done ∧
    (stp c ⟨[.mapKey], .mapKey, sm⟩ ⟨.mapClose, none⟩).writes.flatten = closeSep c 1 sm ++ [125] ++ c.lineBytes := by
  constructor <;> simp [stp, step, stepMapKey, pop, Ret.flag, List.flatten_append, closeIndent_flat]


/-! ### Whitespace options -/

structure CfgWs (c : Cfg) : Prop where
  line : WsOnly c.lineBytes
  indent : WsOnly c.indent

theorem sep_tail_ws {c : Cfg} (h : CfgWs c) (d : Nat) : WsOnly (c.lineBytes ++ (List.replicate d c.indent).flatten) :=
  WsOnly.append h.line (WsOnly.replicate _ _ h.indent)

theorem closeSep_ws {c : Cfg} (h : CfgWs c) (d : Nat) (sm : Bool) : WsOnly (closeSep c d sm) := by
  unfold closeSep
  split
  · exact sep_tail_ws h _
  · exact WsOnly.nil

theorem replicate_nil_flat (n : Nat) : (List.replicate n ([] : Bytes)).flatten = [] := by
  induction n with
  | zero => rfl
  | succ n ih => simp [List.replicate_succ, ih]

theorem sep_compact (d : Nat) (sm : Bool) : sep ⟨none, []⟩ d sm = if sm then [44] else [] := by
  simp [sep, Cfg.lineBytes, replicate_nil_flat]

theorem closeSep_compact (d : Nat) (sm : Bool) : closeSep ⟨none, []⟩ d sm = [] := by
  simp [closeSep, Cfg.lineBytes, replicate_nil_flat]

theorem colon_compact : colon ⟨none, []⟩ = [58] := rfl

open Refmt.Spec.Json in
theorem stripWs_sep {c : Cfg} (h : CfgWs c) (d : Nat) (sm : Bool) (X : Bytes) :
    stripWs (sep c d sm ++ X) false false = sep ⟨none, []⟩ d sm ++ stripWs X false false := by
  rw [sep_compact]
  unfold sep
  cases sm
  · simp only [Bool.false_eq_true, if_false, List.nil_append]
    exact stripWs_ws _ _ (sep_tail_ws h d)
  · simp only [if_true, List.cons_append, List.nil_append, List.append_assoc]
    rw [← List.append_assoc]
    simp only [stripWs, Bool.false_eq_true, if_false]
    have : JsonDec.isWs 44 = false := by decide
    simp only [this, show ((44 : Nat) == 34) = false by decide, Bool.false_eq_true, if_false]
    rw [stripWs_ws _ _ (sep_tail_ws h d)]

open Refmt.Spec.Json in
theorem stripWs_close {c : Cfg} (h : CfgWs c) (d : Nat) (sm : Bool) (b : Nat) (hb : b = 93 ∨ b = 125) (X : Bytes) :
    stripWs (closeSep c d sm ++ (b :: X)) false false = b :: stripWs X false false := by
  rw [stripWs_ws _ _ (closeSep_ws h d sm)]
  rcases hb with rfl | rfl <;> simp [stripWs, JsonDec.isWs]

open Refmt.Spec.Json in
theorem stripWs_colon (c : Cfg) (X : Bytes) :
    stripWs (colon c ++ X) false false = 58 :: stripWs X false false := by
  unfold colon
  cases c.line <;> simp [stripWs, JsonDec.isWs]

open Refmt.Spec.Json in
theorem stripWs_open (b : Nat) (hb : b = 91 ∨ b = 123) (X : Bytes) :
    stripWs (b :: X) false false = b :: stripWs X false false := by
  rcases hb with rfl | rfl <;> simp [stripWs, JsonDec.isWs]

end Refmt.C03L
