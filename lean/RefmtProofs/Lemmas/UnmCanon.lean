/-
  Lemmas for C01: the unmarshal machines cannot tell a token list from its canonical CBOR re-reading.

  `canon'` is `C02.canonTok` restricted to the int64 range (`.int i` with `0 ≤ i < 2^63` becomes `.uint i`);
  for it the invariance holds with no hypothesis on the tokens, which makes the induction a plain rewrite.
-/
import RefmtModel
set_option linter.unusedSimpArgs false
set_option linter.unusedVariables false
namespace Refmt.C01L
open Refmt Refmt.Obj

def mapRest (f : List Tok → List Tok) : URes → URes
  | .ok v r k => .ok v (f r) k
  | x => x

@[simp] theorem mapRest_ok (f : List Tok → List Tok) (v : Val) (r : List Tok) (k : Nat) :
    mapRest f (.ok v r k) = .ok v (f r) k := rfl
@[simp] theorem mapRest_more (f : List Tok → List Tok) (k : Nat) : mapRest f (.more k) = .more k := rfl
@[simp] theorem mapRest_err (f : List Tok → List Tok) (k : Nat) : mapRest f (.err k) = .err k := rfl
@[simp] theorem mapRest_panic (f : List Tok → List Tok) (k : Nat) : mapRest f (.panic k) = .panic k := rfl

@[simp] theorem mapRest_shift (f : List Tok → List Tok) (x : URes) (k : Nat) :
    mapRest f (x.shift k) = (mapRest f x).shift k := by
  cases x <;> rfl

def canon' (t : Tok) : Tok :=
  match t.body with
  | .int i => if 0 ≤ i ∧ i < (two63 : Int) then { t with body := .uint i.toNat } else t
  | _ => t

theorem canon'_tag (t : Tok) : (canon' t).tag = t.tag := by
  unfold canon'; split
  · split <;> rfl
  · rfl

theorem canon'_cases (t : Tok) :
    canon' t = t ∨ ∃ i, 0 ≤ i ∧ i < (two63 : Int) ∧ t.body = .int i ∧ canon' t = ⟨.uint i.toNat, t.tag⟩ := by
  unfold canon'
  split
  · next i hb =>
    split
    · next h => exact Or.inr ⟨i, h.1, h.2, hb, rfl⟩
    · exact Or.inl rfl
  · exact Or.inl rfl

theorem storePrim_canon' (d : TyDesc) (t : Tok) : storePrim d (canon' t) = storePrim d t := by
  rcases canon'_cases t with h | ⟨i, h0, h1, hb, hc⟩
  · rw [h]
  · rw [hc]
    obtain ⟨body, tag⟩ := t
    simp only at hb
    subst hb
    have hi : ((i.toNat : Nat) : Int) = i := Int.toNat_of_nonneg h0
    cases d with
    | prim k b =>
      have e1 : -128 ≤ i := by omega
      have e2 : -32768 ≤ i := by omega
      have e3 : -2147483648 ≤ i := by omega
      have e4 : -(two63 : Int) ≤ i := by unfold two63; omega
      cases k <;> simp [storePrim, intRange, uintMax, hi, h0, e1, e2, e3, e4]
    | _ => simp [storePrim]

abbrev cl : List Tok → List Tok := List.map canon'

section
variable (ts : Types) (a : Atlas) (trs : Trs) (it : IfaceTys)

def CV (fuel : Nat) : Prop := ∀ id cur toks, unmV ts a trs it fuel id cur (cl toks) = mapRest cl (unmV ts a trs it fuel id cur toks)
def CB (fuel : Nat) : Prop := ∀ id m cur toks, unmBare ts a trs it fuel id m cur (cl toks) = mapRest cl (unmBare ts a trs it fuel id m cur toks)
def CW (fuel : Nat) : Prop := ∀ me t rest, unmWild ts a trs it fuel me (canon' t) (cl rest) = mapRest cl (unmWild ts a trs it fuel me t rest)
def CE (fuel : Nat) : Prop := ∀ e cap acc toks, unmElems ts a trs it fuel e cap acc (cl toks) = mapRest cl (unmElems ts a trs it fuel e cap acc toks)
def CM (fuel : Nat) : Prop := ∀ kf vt es toks, unmMapEntries ts a trs it fuel kf vt es (cl toks) = mapRest cl (unmMapEntries ts a trs it fuel kf vt es toks)
def CS (fuel : Nat) : Prop := ∀ id fields el idx cur toks, unmStruct ts a trs it fuel id fields el idx cur (cl toks) = mapRest cl (unmStruct ts a trs it fuel id fields el idx cur toks)

theorem cv_step (fuel : Nat) (hb : CB ts a trs it fuel) : CV ts a trs it (fuel+1) := by
  intro id cur toks
  cases toks with
  | nil => simp only [cl, List.map_nil, unmV]; rfl
  | cons t rest =>
    have hb' : ∀ id m cur, unmBare ts a trs it fuel id m cur (canon' t :: cl rest) = mapRest cl (unmBare ts a trs it fuel id m cur (t :: rest)) :=
      fun id m cur => hb id m cur (t :: rest)
    simp only [cl, List.map_cons, unmV]
    simp only [cl] at hb'
    split
    · exact hb' _ _ _
    · rw [hb']
      rcases canon'_cases t with h | ⟨i, h0, h1, hbd, hc⟩
      · rw [h]
        cases t.body <;> simp only [mapRest_ok] <;> cases unmBare ts a trs it fuel (peel ts 64 0 id).2 (upickBare ts a (peel ts 64 0 id).2) (innerCur ts (peel ts 64 0 id).1 id cur) (t :: rest) <;> rfl
      · rw [hc, hbd]
        simp only
        cases unmBare ts a trs it fuel (peel ts 64 0 id).2 (upickBare ts a (peel ts 64 0 id).2) (innerCur ts (peel ts 64 0 id).1 id cur) (t :: rest) <;> rfl

theorem mapRest_ite (f : List Tok → List Tok) (c : Prop) [Decidable c] (x y : URes) :
    mapRest f (if c then x else y) = if c then mapRest f x else mapRest f y := by
  split <;> rfl

theorem ce_step (fuel : Nat) (hv : CV ts a trs it fuel) (he : CE ts a trs it fuel) : CE ts a trs it (fuel+1) := by
  intro e cap acc toks
  cases toks with
  | nil => simp only [cl, List.map_nil, unmElems]; rfl
  | cons t rest =>
    have hv' : ∀ id cur, unmV ts a trs it fuel id cur (canon' t :: cl rest) = mapRest cl (unmV ts a trs it fuel id cur (t :: rest)) :=
      fun id cur => hv id cur (t :: rest)
    simp only [cl, List.map_cons]
    unfold unmElems
    simp only [cl] at hv'
    simp only [CE, cl] at he
    rw [hv']
    rcases canon'_cases t with h | ⟨i, h0, h1, hbd, hc⟩
    · rw [h]
      cases t.body <;> simp only [mapRest_ok, mapRest_err] <;>
        cases unmV ts a trs it fuel e (zeroVal ts 64 e) (t :: rest) <;>
        simp only [mapRest_ok, mapRest_err, mapRest_more, mapRest_panic, mapRest_shift, mapRest_ite, he]
    · rw [hc, hbd]
      simp only
      cases unmV ts a trs it fuel e (zeroVal ts 64 e) (t :: rest) <;>
        simp only [mapRest_ok, mapRest_err, mapRest_more, mapRest_panic, mapRest_shift, mapRest_ite, he]

theorem cm_step (fuel : Nat) (hv : CV ts a trs it fuel) (hm : CM ts a trs it fuel) : CM ts a trs it (fuel+1) := by
  intro kf vt es toks
  cases toks with
  | nil => simp only [cl, List.map_nil, unmMapEntries]; rfl
  | cons t rest =>
    simp only [cl, List.map_cons]
    unfold unmMapEntries
    simp only [CV, cl] at hv
    simp only [CM, cl] at hm
    rw [hv]
    rcases canon'_cases t with h | ⟨i, h0, h1, hbd, hc⟩
    · rw [h]
      cases t.body <;> simp only [mapRest_ok, mapRest_err]
      split
      · rfl
      · split
        · rfl
        · cases unmV ts a trs it fuel vt (zeroVal ts 64 vt) rest <;>
            simp only [mapRest_ok, mapRest_err, mapRest_more, mapRest_panic, mapRest_shift, mapRest_ite, hm]
    · rw [hc, hbd]
      rfl

theorem cs_step (fuel : Nat) (hv : CV ts a trs it fuel) (hw : CW ts a trs it fuel) (hs : CS ts a trs it fuel) : CS ts a trs it (fuel+1) := by
  intro id fields el idx cur toks
  cases toks with
  | nil => simp only [cl, List.map_nil, unmStruct]; rfl
  | cons t rest =>
    simp only [cl, List.map_cons]
    unfold unmStruct
    simp only [CV, cl] at hv
    simp only [CW, cl] at hw
    simp only [CS, cl] at hs
    rcases canon'_cases t with h | ⟨i, h0, h1, hbd, hc⟩
    · rw [h]
      cases t.body <;> simp only [mapRest_ok, mapRest_err, mapRest_ite]
      split
      · rfl
      · split
        · cases rest with
          | nil => rfl
          | cons v rest2 =>
            simp only [List.map_cons, hw]
            cases unmWild ts a trs it fuel false v rest2 <;>
              simp only [mapRest_ok, mapRest_err, mapRest_more, mapRest_panic, mapRest_shift, mapRest_ite, hs]
        · cases rest with
          | nil => rfl
          | cons v rest2 =>
            have hv' : ∀ id cur, unmV ts a trs it fuel id cur (canon' v :: List.map canon' rest2) =
                mapRest (List.map canon') (unmV ts a trs it fuel id cur (v :: rest2)) := fun id cur => hv id cur (v :: rest2)
            simp only [List.map_cons, hv']
            split
            · rfl
            · cases unmV ts a trs it fuel _ _ (v :: rest2) <;>
                simp only [mapRest_ok, mapRest_err, mapRest_more, mapRest_panic, mapRest_shift, mapRest_ite, hs]
              split <;> simp only [mapRest_ok, mapRest_err, mapRest_more, mapRest_panic, mapRest_shift, mapRest_ite, hs]
    · rw [hc, hbd]
      rfl

theorem cw_step (fuel : Nat) (hb : CB ts a trs it fuel) : CW ts a trs it (fuel+1) := by
  intro me t rest
  unfold unmWild
  have hb' : ∀ id m cur, unmBare ts a trs it fuel id m cur (canon' t :: List.map canon' rest) =
      mapRest (List.map canon') (unmBare ts a trs it fuel id m cur (t :: rest)) := fun id m cur => hb id m cur (t :: rest)
  simp only [cl, canon'_tag, hb']
  split
  · split
    · rfl
    · split
      · rfl
      · cases unmBare ts a trs it fuel _ _ _ (t :: rest) <;> rfl
  · rcases canon'_cases t with h | ⟨i, h0, h1, hbd, hc⟩
    · rw [h]
      cases t.body <;> simp only [mapRest_ok, mapRest_err, mapRest_ite] <;> (try rfl) <;>
        (split <;> (try rfl)) <;> cases unmBare ts a trs it fuel _ _ _ (t :: rest) <;> rfl
    · rw [hc, hbd]
      have hi : ((i.toNat : Nat) : Int) = i := Int.toNat_of_nonneg h0
      have hlt : i.toNat < two63 := by omega
      simp only [hlt, if_true, hi, mapRest_ite, mapRest_ok, mapRest_err]

theorem cb_step (fuel : Nat) (hv : CV ts a trs it fuel) (hb : CB ts a trs it fuel) (hw : CW ts a trs it fuel)
    (he : CE ts a trs it fuel) (hm : CM ts a trs it fuel) (hs : CS ts a trs it fuel) : CB ts a trs it (fuel+1) := by
  intro id m cur toks
  cases toks with
  | nil => simp only [cl, List.map_nil, unmBare]; rfl
  | cons t rest =>
    have hb' : ∀ id m cur, unmBare ts a trs it fuel id m cur (canon' t :: List.map canon' rest) =
        mapRest (List.map canon') (unmBare ts a trs it fuel id m cur (t :: rest)) := fun id m cur => hb id m cur (t :: rest)
    simp only [CV, cl] at hv
    simp only [CW, cl] at hw
    simp only [CE, cl] at he
    simp only [CM, cl] at hm
    simp only [CS, cl] at hs
    simp only [CB, cl] at hb
    simp only [cl, List.map_cons]
    cases m with
    | errThunk => unfold unmBare; rfl
    | panic => unfold unmBare; rfl
    | prim =>
      unfold unmBare; simp only [storePrim_canon']
      cases storePrim (ts.get id) t <;> rfl
    | wildcard => unfold unmBare; simp only [hw]
    | slice e =>
      unfold unmBare; simp only [he]
      rcases canon'_cases t with h | ⟨i, h0, h1, hbd, hc⟩
      · rw [h]; cases t.body <;> simp only [mapRest_ok, mapRest_err, mapRest_shift]
      · rw [hc, hbd]; rfl
    | array n e =>
      unfold unmBare; simp only [he]
      rcases canon'_cases t with h | ⟨i, h0, h1, hbd, hc⟩
      · rw [h]; cases t.body <;> simp only [mapRest_ok, mapRest_err, mapRest_shift]
        cases unmElems ts a trs it fuel e (some n) [] rest with
        | ok v r u => cases v <;> simp only [mapRest_ok, URes.shift] <;> (rename_i o; cases o <;> rfl)
        | _ => rfl
      · rw [hc, hbd]; rfl
    | map kt vt =>
      unfold unmBare; simp only [hm]
      split
      · rfl
      · rcases canon'_cases t with h | ⟨i, h0, h1, hbd, hc⟩
        · rw [h]; cases t.body <;> simp only [mapRest_ok, mapRest_err, mapRest_shift]
        · rw [hc, hbd]; rfl
    | structMap fields =>
      unfold unmBare; simp only [hs]
      rcases canon'_cases t with h | ⟨i, h0, h1, hbd, hc⟩
      · rw [h]; cases t.body <;> simp only [mapRest_ok, mapRest_err, mapRest_shift]
      · rw [hc, hbd]; rfl
    | transform fn uty =>
      unfold unmBare; simp only [hb']
      cases unmBare ts a trs it fuel uty _ _ (t :: rest) <;> simp only [mapRest_ok, mapRest_err, mapRest_more, mapRest_panic]
      split <;> rfl
    | union members =>
      unfold unmBare
      rcases canon'_cases t with h | ⟨i, h0, h1, hbd, hc⟩
      · rw [h]; cases t.body <;> simp only [mapRest_ok, mapRest_err, mapRest_shift, mapRest_ite]
        split
        · rfl
        · cases rest with
          | nil => rfl
          | cons k rest2 =>
            simp only [List.map_cons, hb]
            rcases canon'_cases k with h | ⟨i, h0, h1, hbd, hc⟩
            · rw [h]; cases k.body <;> simp only [mapRest_ok, mapRest_err, mapRest_shift, mapRest_ite]
              split
              · rfl
              · split
                · rfl
                · split
                  · rfl
                  · rfl
                  · cases unmBare ts a trs it fuel _ _ _ rest2 with
                    | ok v r u =>
                      cases r with
                      | nil => rfl
                      | cons c r' =>
                        simp only [mapRest_ok, List.map_cons]
                        rcases canon'_cases c with h | ⟨i, h0, h1, hbd, hc⟩
                        · rw [h]; cases c.body <;> rfl
                        · rw [hc, hbd]; rfl
                    | _ => rfl
            · rw [hc, hbd]; rfl
      · rw [hc, hbd]; rfl

theorem canon_all_fuel (fuel : Nat) :
    CV ts a trs it fuel ∧ CB ts a trs it fuel ∧ CW ts a trs it fuel ∧ CE ts a trs it fuel ∧
    CM ts a trs it fuel ∧ CS ts a trs it fuel := by
  induction fuel with
  | zero =>
    refine ⟨?_, ?_, ?_, ?_, ?_, ?_⟩
    · intro id cur toks; simp only [unmV]; rfl
    · intro id m cur toks; simp only [unmBare]; rfl
    · intro me t rest; simp only [unmWild]; rfl
    · intro e cap acc toks; simp only [unmElems]; rfl
    · intro kf vt es toks; simp only [unmMapEntries]; rfl
    · intro id fields el idx cur toks; simp only [unmStruct]; rfl
  | succ n ih =>
    obtain ⟨hv, hb, hw, he, hm, hs⟩ := ih
    exact ⟨cv_step ts a trs it n hb, cb_step ts a trs it n hv hb hw he hm hs, cw_step ts a trs it n hb,
      ce_step ts a trs it n hv he, cm_step ts a trs it n hv hm, cs_step ts a trs it n hv hw hs⟩

end

/-- no unmarshal machine can tell a token list from its `canon'` image -/
theorem unm_canon' (ts : Types) (a : Atlas) (trs : Trs) (it : IfaceTys) (fuel id : Nat) (cur : Val) (toks : List Tok) :
    unmV ts a trs it fuel id cur (toks.map canon') =
      mapRest (List.map canon') (unmV ts a trs it fuel id cur toks) :=
  (canon_all_fuel ts a trs it fuel).1 id cur toks

end Refmt.C01L
