import RefmtModel
set_option linter.unusedSimpArgs false
namespace Refmt.C03L
open Refmt Refmt.JsonEnc

structure MB (u : Bytes) (r : Nat) : Prop where
  len : 2 ≤ u.length
  dec : ∀ tl, decodeRune (u ++ tl) = (r, u.length)
  enc : encodeRune r = u
  hi : ∀ x ∈ u, 0x80 ≤ x ∧ x < 256
  big : 0x80 ≤ r

theorem decodeRune_size_pos (b : Nat) (rest : Bytes) : 1 ≤ (decodeRune (b :: rest)).2 := by
  simp only [decodeRune]
  repeat' split
  all_goals simp

theorem mb2 (p0 b1 : Nat) (h2 : ¬ p0 < 0xC2) (h3 : p0 < 0xE0) (hc : isCont b1 = true) :
    MB [p0, b1] ((p0 % 32) * 64 + b1 % 64) := by
  have h1 : ¬ p0 < 0x80 := by omega
  have hc' := hc
  simp only [isCont, Bool.and_eq_true, decide_eq_true_eq] at hc'
  refine ⟨by simp, ?_, ?_, ?_, by omega⟩
  · intro tl
    simp [decodeRune, h1, h2, h3, hc]
  · unfold encodeRune
    rw [if_neg (by omega), if_pos (by omega)]
    simp; omega
  · intro x hx; simp at hx; omega

theorem mb3 (p0 b1 b2 : Nat) (h3 : ¬ p0 < 0xE0) (h4 : p0 < 0xF0)
    (hc : ((if p0 == 0xE0 then 0xA0 else 0x80) ≤ b1 && b1 ≤ (if p0 == 0xED then 0x9F else 0xBF) && isCont b2) = true) :
    MB [p0, b1, b2] ((p0 % 16) * 4096 + (b1 % 64) * 64 + b2 % 64) := by
  have h1 : ¬ p0 < 0x80 := by omega
  have h2 : ¬ p0 < 0xC2 := by omega
  have hc' := hc
  simp only [isCont, Bool.and_eq_true, decide_eq_true_eq, beq_iff_eq] at hc'
  obtain ⟨⟨hlo, hhi⟩, hc2⟩ := hc'
  have hb1 : 0x80 ≤ b1 ∧ b1 ≤ 0xBF ∧ (p0 = 0xE0 → 0xA0 ≤ b1) ∧ (p0 = 0xED → b1 ≤ 0x9F) := by
    split at hlo <;> split at hhi <;> omega
  refine ⟨by simp, ?_, ?_, ?_, by omega⟩
  · intro tl
    simp [decodeRune, h1, h2, h3, h4]
    exact ⟨hlo, hhi, by simp [isCont]; omega⟩
  · unfold encodeRune
    rw [if_neg (by omega), if_neg (by omega), if_neg (by simp; omega), if_pos (by omega)]
    simp; omega
  · intro x hx; simp at hx; omega

theorem mb4 (p0 b1 b2 b3 : Nat) (h4 : ¬ p0 < 0xF0) (h5 : p0 < 0xF5)
    (hc : ((if p0 == 0xF0 then 0x90 else 0x80) ≤ b1 && b1 ≤ (if p0 == 0xF4 then 0x8F else 0xBF) && isCont b2 && isCont b3) = true) :
    MB [p0, b1, b2, b3] ((p0 % 8) * 262144 + (b1 % 64) * 4096 + (b2 % 64) * 64 + b3 % 64) := by
  have h1 : ¬ p0 < 0x80 := by omega
  have h2 : ¬ p0 < 0xC2 := by omega
  have h3 : ¬ p0 < 0xE0 := by omega
  have hc' := hc
  simp only [isCont, Bool.and_eq_true, decide_eq_true_eq, beq_iff_eq] at hc'
  obtain ⟨⟨⟨hlo, hhi⟩, hc2⟩, hc3⟩ := hc'
  have hb1 : 0x80 ≤ b1 ∧ b1 ≤ 0xBF ∧ (p0 = 0xF0 → 0x90 ≤ b1) ∧ (p0 = 0xF4 → b1 ≤ 0x8F) := by
    split at hlo <;> split at hhi <;> omega
  refine ⟨by simp, ?_, ?_, ?_, by omega⟩
  · intro tl
    simp [decodeRune, h1, h2, h3, h4, h5]
    exact ⟨hlo, hhi, by simp [isCont]; omega, by simp [isCont]; omega⟩
  · unfold encodeRune
    rw [if_neg (by omega), if_neg (by omega), if_neg (by simp; omega), if_neg (by omega)]
    simp; omega
  · intro x hx; simp at hx; omega

theorem decodeRune_mb (bs : Bytes) (h : 1 < (decodeRune bs).2) :
    MB (bs.take (decodeRune bs).2) (decodeRune bs).1 := by
  match bs, h with
  | [], h => simp [decodeRune] at h
  | p0 :: rest, h =>
    by_cases h1 : p0 < 0x80
    · simp [decodeRune, h1] at h
    by_cases h2 : p0 < 0xC2
    · simp [decodeRune, h1, h2] at h
    by_cases h3 : p0 < 0xE0
    · match rest, h with
      | [], h => simp [decodeRune, h1, h2, h3] at h
      | b1 :: r, h =>
        by_cases hc : isCont b1 = true
        · have e : decodeRune (p0 :: b1 :: r) = ((p0 % 32) * 64 + b1 % 64, 2) := by
            simp [decodeRune, h1, h2, h3, hc]
          rw [e]; exact mb2 p0 b1 h2 h3 hc
        · simp [decodeRune, h1, h2, h3, hc] at h
    by_cases h4 : p0 < 0xF0
    · match rest, h with
      | [], h => simp [decodeRune, h1, h2, h3, h4] at h
      | [_], h => simp [decodeRune, h1, h2, h3, h4] at h
      | b1 :: b2 :: r, h =>
        by_cases hc : ((if p0 == 0xE0 then 0xA0 else 0x80) ≤ b1 && b1 ≤ (if p0 == 0xED then 0x9F else 0xBF) && isCont b2) = true
        · have e : decodeRune (p0 :: b1 :: b2 :: r) = ((p0 % 16) * 4096 + (b1 % 64) * 64 + b2 % 64, 3) := by
            simp only [decodeRune, h1, h2, h3, h4, if_true, if_false, hc]
          rw [e]; exact mb3 p0 b1 b2 h3 h4 hc
        · have e : decodeRune (p0 :: b1 :: b2 :: r) = (runeError, 1) := by
            simp only [decodeRune, h1, h2, h3, h4, if_true, if_false, hc]; rfl
          rw [e] at h; simp at h
    by_cases h5 : p0 < 0xF5
    · match rest, h with
      | [], h => simp [decodeRune, h1, h2, h3, h4, h5] at h
      | [_], h => simp [decodeRune, h1, h2, h3, h4, h5] at h
      | [_, _], h => simp [decodeRune, h1, h2, h3, h4, h5] at h
      | b1 :: b2 :: b3 :: r, h =>
        by_cases hc : ((if p0 == 0xF0 then 0x90 else 0x80) ≤ b1 && b1 ≤ (if p0 == 0xF4 then 0x8F else 0xBF) && isCont b2 && isCont b3) = true
        · have e : decodeRune (p0 :: b1 :: b2 :: b3 :: r) = ((p0 % 8) * 262144 + (b1 % 64) * 4096 + (b2 % 64) * 64 + b3 % 64, 4) := by
            simp only [decodeRune, h1, h2, h3, h4, h5, if_true, if_false, hc]
          rw [e]; exact mb4 p0 b1 b2 b3 h4 h5 hc
        · have e : decodeRune (p0 :: b1 :: b2 :: b3 :: r) = (runeError, 1) := by
            simp only [decodeRune, h1, h2, h3, h4, h5, if_true, if_false, hc]; rfl
          rw [e] at h; simp at h
    · simp [decodeRune, h1, h2, h3, h4, h5] at h

end Refmt.C03L
