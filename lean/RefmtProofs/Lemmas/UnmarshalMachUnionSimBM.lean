/-
  Stateful object unmarshaller: the map machine from its `Reset`  ~  `unmBare … (.map kt vt)`.
-/
import RefmtProofs.Lemmas.UnmarshalMachUnionSimM2
set_option linter.unusedSimpArgs false
set_option linter.unusedVariables false
namespace Refmt.UMachU
open Refmt Refmt.Obj Refmt.Obj.UM Refmt.UMachL

variable {ts : Types} {a : Atlas} {trs : Trs} {it : IfaceTys}

theorem atlas_get_ty {id : Nat} {e : Entry} (h : a.get id = some e) : e.ty = id := by
  have := List.find?_some h
  simp at this
  exact this.2

theorem umachForEntry_map {e : Entry} {kt vt : Nat} (h : umachForEntry ts e = .map kt vt) :
    ts.get e.ty = .map kt vt := by
  unfold umachForEntry at h
  split at h <;> try cases h
  split at h
  · cases h; assumption
  · cases h

theorem upick_map {base kt vt : Nat} (h : upickBare ts a base = .map kt vt) : ts.get base = .map kt vt := by
  unfold upickBare at h
  split at h
  · cases h
  · cases h
  · split at h
    · rename_i e he
      have := umachForEntry_map h
      rwa [atlas_get_ty he] at this
    · split at h <;> simp_all

theorem mapEntries_eq (cur : Val) : (match cur with | .map (some es) => es | _ => []) = mapEntries cur := by
  unfold mapEntries; rfl

theorem unmBare_map {n base kt vt : Nat} {cur : Val} {t : Tok} {rest : List Tok} :
    unmBare ts a trs it (n+1) base (.map kt vt) cur (t :: rest) =
      match keyFnOfU ts a kt with
      | none => .err 0
      | some kf =>
        match t.body with
        | .null => .ok (.map none) rest 1
        | .mapOpen _ => (unmMapEntries ts a trs it n kf vt (mapEntries cur) rest).shift 1
        | _ => .err 0 := by
  rw [unmBare.eq_def]
  simp only [mapEntries_eq]
  rfl

theorem simB_map {S : List Nat} {wi : Option Nat} {n : Nat} (hS : Closed ts a S wi) (hE : SimM ts a trs it S n) {base kt vt : Nat}
    (hrt : ts.get base = .map kt vt) (he : vt ∈ S)
    (cur : Val) (lo : List URow) (row : URow) (hi : List URow) (stk : List URef) (be : Option XFail) (c : URef)
    (F : Val → Option Val) (w : Val → Val) (d : Nat) (toks : List Tok) (fr sf1 sf : Nat)
    {un : Option Nat} (hw : Wr trs.u c lo row .map F w d un) (hd : d ≤ 3) (hfr : 5 ≤ fr) (hsf1 : 10 ≤ sf1) (hsf : 17 ≤ sf) :
    Agree ts a trs it none un c sf be stk lo row F w
      (rtpB ts a trs it fr sf1 sf (lo ++ row :: hi) stk be c ⟨lo.length, .map⟩ base cur toks)
      (unmBare ts a trs it (n+1) base (.map kt vt) cur toks) := by
  cases toks with
  | nil => simp [rtpB, unmBare, Agree]
  | cons t rest =>
    obtain ⟨f, rfl⟩ : ∃ f, fr = f + 4 + 1 := ⟨fr - 5, by omega⟩
    obtain ⟨g, rfl⟩ : ∃ g, sf1 = g + 1 + d + 1 := ⟨sf1 - d - 2, by omega⟩
    obtain ⟨crow, cck, hreq, hcc⟩ := requisition_cov (f := f) (R := lo ++ row :: hi) hS he
    rw [unmBare_map]
    cases hkf : keyFnOfU ts a kt with
    | none =>
      simp only [rtpB, map_reset_err hrt hkf hreq]
      simp [Agree, XFail.toURes]
    | some kf =>
      simp only [rtpB, map_reset_ok hrt hkf hreq]
      have hw1 : Wr trs.u c lo (rowMp row (mpReset ts cur kt vt kf (lo ++ row :: hi).length cck)) .map F w d un := hw.congr rfl
      have hs := hw1.step (ts := ts) (a := a) (trs := trs) (it := it) (hi ++ [crow]) stk
        (some c) be t (g + 1)
      cases hb : t.body with
      | null =>
        exact Agree.fin1 hw1 (map_step_init_null rfl hb) (rowMp_same _ _) (by omega)
      | mapOpen len =>
        rw [map_step_init_open rfl hb] at hs
        rw [pump1_cont hs]
        have hst : MapSt ts (rowMp (rowMp row (mpReset ts cur kt vt kf (lo ++ row :: hi).length cck))
            (mpOpen (rowMp row (mpReset ts cur kt vt kf (lo ++ row :: hi).length cck)).map)) (mapEntries cur) kf vt
            (lo.length + 1 + hi.length) cck := by
          refine ⟨Or.inl rfl, rfl, rfl, rfl, rfl, ?_⟩
          show some (URef.mk (lo ++ row :: hi).length cck) = _
          simp; omega
        have hA := hE vt he kf (mapEntries cur) lo _ hi crow [] stk be c cck F w d rest sf hst hcc (hw.congr rfl) hd hsf
        exact hA.shift 1 ((rowMp_same _ _).trans (rowMp_same _ _))
      | _ =>
        rw [map_step_init_other rfl (by simp [hb]) (by simp [hb])] at hs
        rw [pump1_err hs]
        simp [Agree, XFail.toURes]

end Refmt.UMachU
