/-
  Stateful object unmarshaller: the wildcard machine from its `Reset`  ~  `unmBare … .wildcard`
  (atlases without tagged entries).
-/
import RefmtProofs.Lemmas.UnmarshalMachSimW
set_option linter.unusedSimpArgs false
set_option linter.unusedVariables false
namespace Refmt.UMachL
open Refmt Refmt.Obj Refmt.Obj.UM

variable {ts : Types} {a : Atlas} {trs : Trs} {it : IfaceTys}

/-- what the wildcard machine needs: the type ids of `map[string]interface{}` and `[]interface{}` denote these types,
    `interface{}` is a covered type, no atlas entry is found by tag -/
structure WildHyp (ts : Types) (a : Atlas) (it : IfaceTys) (S : List Nat) : Prop where
  mapSI : ts.get it.mapSI = .map it.str it.iface
  sliceI : ts.get it.sliceI = .slice it.iface
  str : keyFnOfU ts a it.str = some none
  ifc : it.iface ∈ S
  ifcPeel : peel ts 64 0 it.iface = (0, it.iface)
  ifcMach : upickBare ts a it.iface = .wildcard
  ifcMeth : hasMethods ts it.iface = false
  notag : ∀ g, a.getByTag g = none

theorem umachForEntry_not_wild (e : Entry) : umachForEntry ts e ≠ .wildcard := by
  unfold umachForEntry
  split <;> try simp
  split <;> simp

theorem WildHyp.cfg {S : List Nat} (h : WildHyp ts a it S) {crow : URow} {cck : MK}
    (hc : CfgV ts a crow it.iface cck) : cck = .wild := by
  obtain ⟨k, hb, hp⟩ := hc
  rw [h.ifcPeel] at hb hp
  simp only [h.ifcMach, CfgBare] at hb
  simp only [if_true] at hp
  rw [hp, hb]

theorem simB_wild {S : List Nat} {wi : Option Nat} {n : Nat} (hS : Closed ts a S wi) (hWd : WildHyp ts a it S)
    (hE : ∀ m, m + 2 = n → SimE ts a trs it S m) (hMp : ∀ m, m + 2 = n → SimM ts a trs it S m) {base : Nat}
    (cur : Val) (lo : List URow) (row : URow) (hi : List URow) (stk : List URef) (be : Option XFail) (c : URef)
    (w : Val → Val) (d : Nat) (toks : List Tok) (fr sf1 sf : Nat)
    (hw : WrP c lo row .wild w d) (hfr : 6 ≤ fr) (hsf1 : 8 ≤ sf1) (hsf : 14 ≤ sf) :
    Agree ts a trs it sf be stk lo row some w
      (rtpB ts a trs it fr sf1 sf (lo ++ row :: hi) stk be c ⟨lo.length, .wild⟩ base cur toks)
      (unmBare ts a trs it (n+1) base .wildcard cur toks) := by
  have hd := hw.le
  cases toks with
  | nil => simp [rtpB, unmBare, Agree]
  | cons t rest =>
    obtain ⟨f, rfl⟩ : ∃ f, fr = f + 1 := ⟨fr - 1, by omega⟩
    obtain ⟨g, rfl⟩ : ∃ g, sf1 = g + 1 + d + 1 := ⟨sf1 - d - 2, by omega⟩
    rw [unmBare_wild]
    simp only [rtpB, wild_reset]
    cases n with
    | zero => simp [unmWild, Agree]
    | succ n =>
    have hw1 : WrP c lo (rowWd row (wdReset row.wild cur base)) .wild w d := hw.congr rfl
    have hw1' : Wr trs.u c lo (rowWd row (wdReset row.wild cur base)) .wild some w d := hw1.toWr
    have hs := hw1'.step (ts := ts) (a := a) (it := it) hi stk (some c) be t (g + 1)
    have hsame : SameCfg row (rowWd row (wdReset row.wild cur base)) := rowWd_same _ _
    cases htag : t.tag with
    | some gt =>
      rw [wild_step_tag rfl htag (hWd.notag gt)] at hs
      rw [pump1_err hs, unmWild_tag htag (hWd.notag gt)]
      simp [Agree, XFail.toURes]
    | none =>
      by_cases hnull : t.body = .null
      · rw [unmWild_null htag hnull]
        exact Agree.fin1 hw1' (wild_step_null rfl htag hnull) hsame (by omega)
      · by_cases hclose : t.body = .mapClose ∨ t.body = .arrClose
        · rw [wild_step_close rfl htag hclose] at hs
          rw [pump1_err hs, unmWild_close htag hclose]
          simp [Agree, XFail.toURes]
        · have h2 : t.body ≠ .mapClose := fun h => hclose (Or.inl h)
          have h3 : t.body ≠ .arrClose := fun h => hclose (Or.inr h)
          cases hmeth : hasMethods ts base with
          | true =>
            rw [wild_step_meth rfl htag hmeth hnull h2 h3] at hs
            rw [pump1_err hs, unmWild_meth htag hnull h2 h3]
            simp [Agree, XFail.toURes]
          | false =>
            by_cases hmo : ∃ len, t.body = .mapOpen len
            · obtain ⟨len, hb⟩ := hmo
              rw [unmWild_mapOpen htag hb]
              cases n with
              | zero => simp [unmBare, mapV, Agree]
              | succ m =>
              obtain ⟨L, G, hR1, htip, hw2, hlow⟩ := wild_geom (ts := ts) (a := a) (trs := trs) (it := it) (sf := sf)
                (be := be) (stk := stk) (hi := hi) (k := .map) (g := fun v => .iface (some (it.mapSI, v))) hw1
                (fun dd => rowWd (rowWd row (wdReset row.wild cur base))
                  (wdMap it (rowWd row (wdReset row.wild cur base)).wild dd))
                (fun _ => rfl) (fun _ => rfl) (fun _ => rfl) (fun _ => rowWd_same _ _)
              have hstep : ∀ st, stepM ts a trs it (g+1) ⟨lo.length, .wild⟩
                  ⟨lo ++ rowWd row (wdReset row.wild cur base) :: hi, stk, st, be⟩ t
                  = match resetM ts a g ⟨L.length, .map⟩ it.mapSI (.map (some [])) (L ++ G :: []) with
                    | .error x => .error x
                    | .ok R2 => mapDone (fun v => .iface (some (it.mapSI, v)))
                        (stepM ts a trs it g ⟨L.length, .map⟩ ⟨R2, stk, st, be⟩ t) := by
                intro st
                rw [wild_step_mapOpen rfl htag hmeth hb, hR1, htip]
                cases resetM ts a g ⟨L.length, .map⟩ it.mapSI (.map (some [])) (L ++ G :: []) <;> rfl
              rw [wild_first hw1' (Or.inl rfl) hstep hw2]
              have hA := simB_map hS (hMp m rfl) hWd.mapSI hWd.ifc (.map (some [])) L G [] stk be c some _ (d + 1)
                (t :: rest) g (g + 1 + d + 1) sf hw2 (by omega) (by omega) hsf1 hsf
              exact ((hlow _ _ hA).mapV).same hsame
            · by_cases hao : ∃ len, t.body = .arrOpen len
              · obtain ⟨len, hb⟩ := hao
                rw [unmWild_arrOpen htag hb]
                cases n with
                | zero => simp [unmBare, mapV, Agree]
                | succ m =>
                obtain ⟨L, G, hR1, htip, hw2, hlow⟩ := wild_geom (ts := ts) (a := a) (trs := trs) (it := it) (sf := sf)
                  (be := be) (stk := stk) (hi := hi) (k := .slice) (g := fun v => .iface (some (it.sliceI, v))) hw1
                  (fun dd => rowWd (rowWd row (wdReset row.wild cur base))
                    (wdSlice it (rowWd row (wdReset row.wild cur base)).wild dd))
                  (fun _ => rfl) (fun _ => rfl) (fun _ => rfl) (fun _ => rowWd_same _ _)
                have hstep : ∀ st, stepM ts a trs it (g+1) ⟨lo.length, .wild⟩
                    ⟨lo ++ rowWd row (wdReset row.wild cur base) :: hi, stk, st, be⟩ t
                    = match resetM ts a g ⟨L.length, .slice⟩ it.sliceI (.slice (some [])) (L ++ G :: []) with
                      | .error x => .error x
                      | .ok R2 => mapDone (fun v => .iface (some (it.sliceI, v)))
                          (stepM ts a trs it g ⟨L.length, .slice⟩ ⟨R2, stk, st, be⟩ t) := by
                  intro st
                  rw [wild_step_arrOpen rfl htag hmeth hb, hR1, htip]
                  cases resetM ts a g ⟨L.length, .slice⟩ it.sliceI (.slice (some [])) (L ++ G :: []) <;> rfl
                rw [wild_first hw1' (Or.inr rfl) hstep hw2]
                have hA := simB_slice hS (hE m rfl) hWd.sliceI hWd.ifc (.slice (some [])) L G [] stk be c some _ (d + 1)
                  (t :: rest) g (g + 1 + d + 1) sf hw2 (by omega) (by omega) hsf1 hsf
                rw [unmBare_slice] at hA
                rw [unmBare_slice]
                exact ((hlow _ _ hA).mapV).same hsame
              · have h4 : ∀ len, t.body ≠ .mapOpen len := fun len h => hmo ⟨len, h⟩
                have h5 : ∀ len, t.body ≠ .arrOpen len := fun len h => hao ⟨len, h⟩
                obtain ⟨v, hv, hfun⟩ := unmWild_scalar (ts := ts) (a := a) (trs := trs) (it := it) (n := n)
                  (rest := rest) htag hnull h2 h3 h4 h5
                have hl := wild_step_scalar (ts := ts) (a := a) (trs := trs) (it := it) (f := g) (lo := lo) (hi := hi)
                  (row := rowWd row (wdReset row.wild cur base)) (stk := stk) (st := some c) (be := be) (t := t)
                  rfl htag hmeth hnull h2 h3 h4 h5
                rw [hv] at hl
                rw [hfun]
                exact Agree.fin1 hw1' hl hsame (by omega)

end Refmt.UMachL
