/-
  `C03.FloatTextOk` proved: for every finite binary64 bit pattern the text `FloatText.jsonFloat` writes is a
  complete RFC 8259 number for the scanner (`numberOk`) and `numTok` types it without a range error.

  Outline (details in `FloatSyntax`, `FloatArith`, `FloatShortest`, `FloatTok`, `FloatJson`):
    * syntax: only needs that `shortest` returns a non-empty digit string whose leading digit is non-zero,
      or the pair `("0", 1)` (also what comes out if `shortestAux` ran out of fuel);
    * no range error: the candidate `shortestAux` returns passed the `inside` test, so the decimal is at most
      the upper end `(m + 1/2) * 2^e` of the rounding interval (strictly below when `m` is odd), hence
      below `2^63` on the plain-digits path (bit pattern below `0x43e0…`) and below `2^1024 - 2^970` always;
      `roundRat` of a rational below `2^1024 - 2^970` does not set the overflow flag.
  The hypothesis `x < 2^64` of `FloatTextOk` is not needed (`floatOk_finite`).
-/
import RefmtProofs.Lemmas.FloatJson
import RefmtProofs.Props.C03
namespace Refmt.FloatL

theorem floatTextOk : Refmt.C03.FloatTextOk :=
  fun x _ hfin => floatOk_finite x hfin

/-- part 1 alone: the float text is a complete JSON number -/
theorem floatText_syntax (x : Nat) (hfin : Refmt.floatNonFinite x = false) :
    Refmt.C03L.numberOk (Refmt.FloatText.jsonFloat x) = true := (jsonFloat_ok x hfin).1

/-- part 2 alone: `numTok` types the float text -/
theorem floatText_numTok (x : Nat) (hfin : Refmt.floatNonFinite x = false) :
    ∃ b, Refmt.JsonDec.numTok (Refmt.FloatText.jsonFloat x) = .ok b := (jsonFloat_ok x hfin).2

end Refmt.FloatL
