/-
  Number texts: the scanner as a pure run (`numRun`), `natDigits` / `intDigits` are numbers and type back.
-/
import RefmtProofs.Lemmas.Escape
set_option linter.unusedSimpArgs false
set_option linter.unusedVariables false
namespace Refmt.C03L
open Refmt Refmt.JsonEnc Refmt.JsonDec Refmt.Spec.Json

/-! ### Number texts -/

/-- run the number scanner over a text; `none` = a byte was refused or ended the number early -/
def numRun : NS → Bytes → Option NS
  | st, [] => some st
  | st, b :: r =>
    match numStep st b with
    | .ok (some st') => numRun st' r
    | _ => none

def numStart (b0 : Nat) : NS := if b0 == 45 then .neg else if b0 == 48 then .s0 else .s1

def numAccept : NS → Bool
  | .s0 | .s1 | .dot0 | .e0 => true
  | _ => false

/-- `text` is a complete RFC 8259 number as the scanner reads it -/
def numberOk : Bytes → Bool
  | [] => false
  | b0 :: r =>
    (b0 == 45 || isDigit b0) &&
      (match numRun (numStart b0) r with | some st => numAccept st | none => false)

/-- a byte that cannot continue a number -/
def numEnd (b : Nat) : Bool := !(isDigit b || b == 46 || b == 101 || b == 69)

/-- what follows a number text ends it -/
def Stop : Bytes → Bool
  | [] => true
  | b :: _ => numEnd b

def numChar (b : Nat) : Bool := isDigit b || b == 45 || b == 43 || b == 46 || b == 101 || b == 69

theorem numStep_end (st : NS) (b : Nat) (ha : numAccept st = true) (hb : numEnd b = true) :
    numStep st b = .ok none := by
  simp only [numEnd, Bool.not_eq_true', Bool.or_eq_false_iff, beq_eq_false_iff_ne, ne_eq] at hb
  obtain ⟨⟨⟨h1, h2⟩, h3⟩, h4⟩ := hb
  cases st <;> simp [numAccept] at ha <;> simp [numStep, h1, h2, h3, h4]

theorem numStep_eof (st : NS) (ha : numAccept st = true) : numStep st 32 = .ok none :=
  numStep_end st 32 ha (by decide)

theorem numStep_char (st st' : NS) (b : Nat) (h : numStep st b = .ok (some st')) : numChar b = true := by
  cases st <;> simp only [numStep] at h <;> (repeat' split at h) <;> simp_all [numChar, isDigit]
  all_goals omega

theorem numRun_chars : ∀ (r : Bytes) (st st' : NS), numRun st r = some st' → ∀ x ∈ r, numChar x = true
  | [], _, _, _ => by simp
  | b :: r, st, st', h => by
    simp only [numRun] at h
    split at h
    · rename_i st1 hs
      intro x hx
      simp only [List.mem_cons] at hx
      rcases hx with rfl | hx
      · exact numStep_char _ _ _ hs
      · exact numRun_chars r st1 st' h x hx
    · simp at h

theorem numberOk_chars (t : Bytes) (h : numberOk t = true) : ∀ x ∈ t, numChar x = true := by
  cases t with
  | nil => simp
  | cons b0 r =>
    simp only [numberOk, Bool.and_eq_true] at h
    intro x hx
    simp only [List.mem_cons] at hx
    rcases hx with rfl | hx
    · have := h.1; simp only [numChar]; simp only [Bool.or_eq_true] at this ⊢; rcases this with h | h <;> simp [h]
    · have h2 := h.2
      split at h2
      · rename_i st hs; exact numRun_chars r _ st hs x hx
      · simp at h2

theorem lexNumber_run : ∀ (r : Bytes) (st st' : NS) (acc : Bytes) (fuel : Nat) (rest : Bytes),
    numRun st r = some st' → numAccept st' = true → Stop rest = true → r.length < fuel →
    lexNumber fuel st (r ++ rest) acc = some (acc.reverse ++ r, rest)
  | [], st, st', acc, fuel, rest, h, ha, hs, hf => by
    obtain ⟨k, rfl⟩ : ∃ k, fuel = k + 1 := ⟨fuel - 1, by simp at hf; omega⟩
    simp only [numRun, Option.some.injEq] at h
    subst h
    cases rest with
    | nil => simp [lexNumber, numStep_eof st ha]
    | cons b r' => simp [lexNumber, numStep_end st b ha (by simpa [Stop] using hs)]
  | b :: r, st, st', acc, fuel, rest, h, ha, hs, hf => by
    obtain ⟨k, rfl⟩ : ∃ k, fuel = k + 1 := ⟨fuel - 1, by simp at hf; omega⟩
    simp only [numRun] at h
    split at h
    · rename_i st1 hs1
      simp only [List.cons_append, lexNumber, hs1]
      rw [lexNumber_run r st1 st' (b :: acc) k rest h ha hs (by simp at hf; omega)]
      simp
    · simp at h


theorem natDigits_lt (n : Nat) (h : n < 10) : natDigits n = [48 + n] := by
  rw [natDigits]; simp [h]

theorem natDigits_ge (n : Nat) (h : ¬ n < 10) : natDigits n = natDigits (n / 10) ++ [48 + n % 10] := by
  rw [natDigits]; simp [h]

theorem natDigits_digits (n : Nat) : ∀ x ∈ natDigits n, isDigit x = true := by
  induction n using Nat.strongRecOn with
  | _ n ih =>
    by_cases h : n < 10
    · rw [natDigits_lt n h]; intro x hx; simp at hx; subst hx; simp [isDigit]; omega
    · rw [natDigits_ge n h]
      intro x hx
      simp only [List.mem_append, List.mem_cons, List.not_mem_nil, or_false] at hx
      rcases hx with hx | rfl
      · exact ih (n / 10) (by omega) x hx
      · simp [isDigit]; omega

/-- shape of `natDigits`: a leading digit that is zero only for `0`, then digits -/
theorem natDigits_form (n : Nat) : ∃ b r, natDigits n = b :: r ∧ (∀ x ∈ r, isDigit x = true) ∧
    (if n = 0 then b = 48 ∧ r = [] else 49 ≤ b ∧ b ≤ 57) := by
  induction n using Nat.strongRecOn with
  | _ n ih =>
    by_cases h : n < 10
    · refine ⟨48 + n, [], natDigits_lt n h, by simp, ?_⟩
      by_cases h0 : n = 0
      · simp [h0]
      · rw [if_neg h0]; omega
    · obtain ⟨b, r, e, hr, hb⟩ := ih (n / 10) (by omega)
      refine ⟨b, r ++ [48 + n % 10], by rw [natDigits_ge n h, e]; rfl, ?_, ?_⟩
      · intro x hx
        simp only [List.mem_append, List.mem_cons, List.not_mem_nil, or_false] at hx
        rcases hx with hx | rfl
        · exact hr x hx
        · simp [isDigit]; omega
      · have : n / 10 ≠ 0 := by omega
        rw [if_neg this] at hb
        rw [if_neg (by omega)]; exact hb

theorem digitsVal_snoc (l : Bytes) (d : Nat) : digitsVal (l ++ [d]) = digitsVal l * 10 + (d - 48) := by
  simp [digitsVal, List.foldl_append]

theorem digitsVal_natDigits (n : Nat) : digitsVal (natDigits n) = n := by
  induction n using Nat.strongRecOn with
  | _ n ih =>
    by_cases h : n < 10
    · rw [natDigits_lt n h]; simp [digitsVal]
    · rw [natDigits_ge n h, digitsVal_snoc, ih (n / 10) (by omega)]; omega

theorem numRun_digits : ∀ (r : Bytes), (∀ x ∈ r, isDigit x = true) → numRun .s1 r = some .s1
  | [], _ => rfl
  | b :: r, h => by
    have hb := h b (by simp)
    simp only [numRun, numStep, hb, if_true]
    exact numRun_digits r (fun x hx => h x (by simp [hx]))

theorem numberOk_nat (n : Nat) : numberOk (natDigits n) = true := by
  obtain ⟨b, r, e, hr, hb⟩ := natDigits_form n
  rw [e]
  by_cases h0 : n = 0
  · rw [if_pos h0] at hb; obtain ⟨rfl, rfl⟩ := hb; decide
  · rw [if_neg h0] at hb
    have h1 : isDigit b = true := by simp [isDigit]; omega
    have h2 : numStart b = .s1 := by
      have : b ≠ 45 := by omega
      have : b ≠ 48 := by omega
      simp [numStart, *]
    simp [numberOk, h1, h2, numRun_digits r hr, numAccept]

theorem numberOk_neg (m : Nat) (hm : m ≠ 0) : numberOk (45 :: natDigits m) = true := by
  obtain ⟨b, r, e, hr, hb⟩ := natDigits_form m
  rw [e]
  rw [if_neg hm] at hb
  have h1 : ¬ b = 48 := by omega
  have h2 : (49 ≤ b ∧ b ≤ 57) := hb
  simp [numberOk, numStart, numRun, numStep, h1, h2, numRun_digits r hr, numAccept]

theorem digits_noexp (l : Bytes) (h : ∀ x ∈ l, isDigit x = true) :
    l.any (fun c => c == 46 || c == 101 || c == 69) = false := by
  rw [List.any_eq_false]
  intro x hx
  have := h x hx
  simp [isDigit] at this ⊢
  omega

theorem numTok_nat (n : Nat) (h : n < two64) :
    numTok (natDigits n) = .ok (if n < two63 then .int n else .uint n) := by
  obtain ⟨b, r, e, hr, hb⟩ := natDigits_form n
  have hd := natDigits_digits n
  have hne : (natDigits n).head? ≠ some 45 := by
    rw [e]; simp
    have := hd b (by rw [e]; simp)
    simp [isDigit] at this; omega
  unfold numTok
  simp only [digits_noexp _ hd, Bool.not_false, if_true]
  have : ((natDigits n).head? == some 45) = false := by simpa using hne
  simp only [this, Bool.false_eq_true, if_false, digitsVal_natDigits]
  by_cases h1 : n < two63
  · simp [h1]
  · simp [h1, h]

theorem numTok_int (i : Int) (h1 : -(two63 : Int) ≤ i) (h2 : i < (two63 : Int)) :
    numTok (intDigits i) = .ok (.int i) := by
  unfold intDigits
  by_cases hneg : i < 0
  · simp only [hneg, if_true]
    have hd := natDigits_digits (-i).toNat
    unfold numTok
    have hany : (45 :: natDigits (-i).toNat).any (fun c => c == 46 || c == 101 || c == 69) = false := by
      simp [digits_noexp _ hd]
    simp only [hany, Bool.not_false, if_true, List.head?_cons, beq_self_eq_true, List.drop_one, List.tail_cons,
      digitsVal_natDigits]
    have : (-i).toNat ≤ two63 := by omega
    simp only [this, if_true]
    congr 2; omega
  · simp only [hneg, if_false]
    have := numTok_nat i.toNat (by unfold two64; unfold two63 at h2; omega)
    rw [this]
    have : i.toNat < two63 := by omega
    simp only [this, if_true]
    congr 2; omega

end Refmt.C03L
