/-
  Stateful object unmarshaller against the functional model: definitions for the simulation.
    * `pump1` : first token with its own fuel (as `Recurse` steps the driver), the rest with `pump`
    * `kont`  : what the driver does when the current machine reports done (pop + absorb, or done)
    * `rtp`   : Reset, then pump (what `Bind` + run and `Recurse` do)
    * `Wr`    : the chain of wrapping machines (pointer, wildcard, transform) between the driver's current machine and
                the leaf machine; the wildcard machine's delegate lives in `slab.tip()`, possibly another row
    * `CfgLeaf` / `CfgBare` / `CfgV` : a row is configured for a type (whatever else it holds)
    * `okMach` / `Closed` : a set of type ids closed under "element type of", all of whose machines are covered
  Files: Rows (driver lemmas), Wr (wrappers), Sim (statements `Agree`, `SimV`, `SimB`), SimA/SimR (Reset frames,
  requisition), SimP/SimV (pointer machine), Slice/SimE/SimBS, Array/SimAr/SimBA, Map/SimM/SimM2/SimBM,
  Wild/WildF/SimW/SimBW (untyped slots), Struct/SimS/SimS2/SimBSt, SimBP (primitive, error thunk),
  Main (transform machine, induction on the functional fuel, the run of a bound instance).
-/
import RefmtProofs.Lemmas.UnmarshalMachScalar
set_option linter.unusedSimpArgs false
set_option linter.unusedVariables false
namespace Refmt.UMachL
open Refmt Refmt.Obj Refmt.Obj.UM

@[simp] theorem shift_shift (x : URes) (i j : Nat) : (x.shift i).shift j = x.shift (i + j) := by
  cases x <;> simp [URes.shift, Nat.add_assoc]
@[simp] theorem shift_zero (x : URes) : x.shift 0 = x := by cases x <;> simp [URes.shift]

variable (ts : Types) (a : Atlas) (trs : Trs) (it : IfaceTys)

/-- first token with fuel `sf1` (a done report on a non-empty stack is dropped, as `Recurse` does), the others
    with `pump … sf` -/
def pump1 (sf1 sf : Nat) (s : UState) : List Tok → URes
  | [] => .more 0
  | t :: rest =>
    match ustep ts a trs it sf1 s t with
    | .error x => x.toURes
    | .ok res =>
      match res.done, s.stack with
      | some v, [] => .ok v rest 1
      | _, _ => (pump ts a trs it sf res.st rest).shift 1

/-- the driver after the current machine reported done with `v`, leaving rows `R` -/
def kont (fa sf : Nat) (be : Option XFail) : List URef → Val → List URow → List Tok → URes
  | [], v, _, rest => .ok v rest 1
  | p :: stk, v, R, rest =>
    match absorbM ts fa p v R with
    | .error x => x.toURes
    | .ok Rp => (pump ts a trs it sf ⟨Rp, stk, some p, be⟩ rest).shift 1

/-- Reset machine `c` for (`id`, `cur`), then pump -/
def rtp (fr sf1 sf : Nat) (R : List URow) (stk : List URef) (be : Option XFail) (c : URef) (id : Nat) (cur : Val) :
    List Tok → URes
  | [] => .more 0
  | t :: rest =>
    match resetM ts a fr c id cur R with
    | .error x => x.toURes
    | .ok R1 => pump1 ts a trs it sf1 sf ⟨R1, stk, some c, be⟩ (t :: rest)

/-- `done` mapped, as the wrapping machines do -/
def mapDone (w : Val → Val) : X SRes → X SRes
  | .error x => .error x
  | .ok res => .ok { res with done := res.done.map w }

/-- what the wildcard machine does to the content its delegate reports -/
def ifaceW (row : URow) (v : Val) : Val := .iface (some (row.wild.holder.getD row.wild.dyn, v))

/-- `done` through a partial function (the transform machine): a failure is an error -/
def mapDoneO (F : Val → Option Val) : X SRes → X SRes
  | .error x => .error x
  | .ok res =>
    match res.done with
    | none => .ok res
    | some v =>
      match F v with
      | some v' => .ok { res with done := some v' }
      | none => .error (.f .err)

/-- the wrapping machines from the driver's current machine `c` down to the leaf `⟨lo.length, mk⟩`, whose row is `row`
    (rows: `lo ++ row :: …`): pointer and wildcard machines, in the leaf's row (`ptrS`, `wildS`) or in a row of `lo`
    (`ptrX`, `wildX`: the wildcard machine puts its delegate into `slab.tip()`, which need not be its own row), and,
    directly above the leaf and in its row, the transform machine (`trS`); `F` is what the transform machine does
    to the content the leaf reports (`some` without one; `U` stands for `trs.u`), `w` what the others then do to it,
    `d` their number -/
inductive Wr (U : Nat → Val → Option Val) : URef → List URow → URow → MK → (Val → Option Val) → (Val → Val) → Nat → Prop
  | refl (lo : List URow) (row : URow) (k : MK) : Wr U ⟨lo.length, k⟩ lo row k some id 0
  | trS (lo : List URow) (row : URow) {k : MK} : row.transform.delegate = some k →
      Wr U ⟨lo.length, .transform⟩ lo row k (U row.transform.trFunc) id 1
  | ptrS {lo row k mk F w d} : row.ptr.mach = some k → row.ptr.firstStep = false → Wr U ⟨lo.length, k⟩ lo row mk F w d →
      Wr U ⟨lo.length, .ptr⟩ lo row mk F (wrapPtr row.ptr.peelCount ∘ w) (d + 1)
  | wildS {lo row dl mk F w d} : row.wild.delegate = some dl → Wr U dl lo row mk F w d →
      Wr U ⟨lo.length, .wild⟩ lo row mk F (ifaceW row ∘ w) (d + 1)
  | ptrX {lo row i r0 k mk F w d} : lo[i]? = some r0 → r0.ptr.mach = some k → r0.ptr.firstStep = false →
      Wr U ⟨i, k⟩ lo row mk F w d → Wr U ⟨i, .ptr⟩ lo row mk F (wrapPtr r0.ptr.peelCount ∘ w) (d + 1)
  | wildX {lo row i r0 dl mk F w d} : lo[i]? = some r0 → r0.wild.delegate = some dl → Wr U dl lo row mk F w d →
      Wr U ⟨i, .wild⟩ lo row mk F (ifaceW r0 ∘ w) (d + 1)

/-- the configuration fields of a row for the leaf machine `M` of type `base` -/
def CfgLeaf (row : URow) (base : Nat) (k : MK) : UMach → Prop
  | .prim => k = .prim ∧ row.prim.ty = base ∧ row.prim.anyKind = false
  | .errThunk => k = .errThunk ∧ row.err.err = some .err
  | .slice _ => k = .slice
  | .array _ _ => k = .array
  | .map _ _ => k = .map
  | .structMap fs => k = .struct ∧ row.struct.fields = fs
  | _ => False

/-- the configuration fields of a row for the bare machine `M` of type `base`: a leaf machine, the wildcard machine,
    or the transform machine with a leaf machine as delegate (same row) -/
def CfgBare (row : URow) (base : Nat) (k : MK) : UMach → Prop
  | .wildcard => k = .wild
  | .transform fn uty => k = .transform ∧ row.transform.trFunc = fn ∧ row.transform.recv_rt = uty ∧
      ∃ k', row.transform.delegate = some k' ∧ CfgLeaf row uty k' (upickBare ts a uty)
  | M => CfgLeaf row base k M

/-- a row configured (by `requisitionMachine`) for declared type `id`, machine kind `ck` -/
def CfgV (row : URow) (id : Nat) (ck : MK) : Prop :=
  ∃ k, CfgBare ts a row (peel ts 64 0 id).2 k (upickBare ts a (peel ts 64 0 id).2) ∧
    (if (peel ts 64 0 id).1 = 0 then ck = k
     else ck = .ptr ∧ row.ptr.mach = some k ∧ row.ptr.peelCount = (peel ts 64 0 id).1)

/-- untyped slots are covered when `wi = some ifc`, `ifc` (the type id of `interface{}`) a member of `S` -/
def wildIn (S : List Nat) : Option Nat → Prop
  | some ifc => ifc ∈ S
  | none => False

instance (S : List Nat) (wi : Option Nat) : Decidable (wildIn S wi) := by
  cases wi <;> simp only [wildIn] <;> infer_instance

/-- leaf machines covered, with their element types in `S` -/
def okLeaf (S : List Nat) (wi : Option Nat) : UMach → Prop
  | .prim | .errThunk => True
  | .slice e | .array _ e | .map _ e => e ∈ S
  | .structMap fs => ∀ f ∈ fs, if f.ignore then wildIn S wi else f.ty ∈ S
  | _ => False

instance (S : List Nat) (wi : Option Nat) (M : UMach) : Decidable (okLeaf S wi M) := by
  cases M <;> simp only [okLeaf] <;> infer_instance

/-- machines covered: leaf machines, the wildcard machine, the transform machine over a leaf machine (receive type not
    a pointer type) -/
def okMach (S : List Nat) (wi : Option Nat) : UMach → Prop
  | .wildcard => wildIn S wi
  | .transform _ uty => isPtrTy ts uty = false ∧ okLeaf S wi (upickBare ts a uty)
  | M => okLeaf S wi M

instance (S : List Nat) (wi : Option Nat) (M : UMach) : Decidable (okMach ts a S wi M) := by
  cases M <;> simp only [okMach] <;> infer_instance

/-- `S` is closed: every member's machine (pointers peeled) is covered and its element types are members -/
def Closed (S : List Nat) (wi : Option Nat) : Prop :=
  ∀ id ∈ S, okMach ts a S wi (upickBare ts a (peel ts 64 0 id).2)

instance (S : List Nat) (wi : Option Nat) : Decidable (Closed ts a S wi) := by unfold Closed; infer_instance

end Refmt.UMachL
