/-
  Order lemmas for the map-key comparators of the object marshaller
  (`bytesLt`, `bytesLe`, `keyLe` in RefmtModel/Model/Obj/Marshal.lean).
-/
import RefmtModel
set_option linter.unusedSimpArgs false
set_option linter.unusedVariables false
namespace Refmt.KeyOrder
open Refmt Refmt.Obj

theorem bytesLt_irrefl : ∀ a : Bytes, bytesLt a a = false := by
  intro a
  induction a with
  | nil => simp [bytesLt]
  | cons x xs ih => simp [bytesLt, ih]

theorem bytesLt_trichotomy : ∀ a b : Bytes, bytesLt a b = true ∨ a = b ∨ bytesLt b a = true := by
  intro a
  induction a with
  | nil => intro b; cases b <;> simp [bytesLt]
  | cons x xs ih =>
    intro b
    cases b with
    | nil => simp [bytesLt]
    | cons y ys =>
      simp only [bytesLt, Bool.or_eq_true, Bool.and_eq_true, decide_eq_true_eq, beq_iff_eq, List.cons.injEq]
      rcases Nat.lt_trichotomy x y with h | h | h
      · exact Or.inl (Or.inl h)
      · subst h
        rcases ih ys with h' | h' | h'
        · exact Or.inl (Or.inr ⟨rfl, h'⟩)
        · exact Or.inr (Or.inl ⟨rfl, h'⟩)
        · exact Or.inr (Or.inr (Or.inr ⟨rfl, h'⟩))
      · exact Or.inr (Or.inr (Or.inl h))

theorem bytesLt_asymm : ∀ a b : Bytes, bytesLt a b = true → bytesLt b a = false := by
  intro a
  induction a with
  | nil => intro b; cases b <;> simp [bytesLt]
  | cons x xs ih =>
    intro b
    cases b with
    | nil => simp [bytesLt]
    | cons y ys =>
      simp only [bytesLt, Bool.or_eq_true, Bool.and_eq_true, decide_eq_true_eq, beq_iff_eq,
        Bool.or_eq_false_iff, Bool.and_eq_false_imp, decide_eq_false_iff_not]
      rintro (h | ⟨rfl, h⟩)
      · exact ⟨by omega, by intro h'; omega⟩
      · exact ⟨by omega, fun _ => ih ys h⟩

theorem bytesLt_trans : ∀ a b c : Bytes, bytesLt a b = true → bytesLt b c = true → bytesLt a c = true := by
  intro a
  induction a with
  | nil => intro b c; cases b <;> cases c <;> simp [bytesLt]
  | cons x xs ih =>
    intro b c
    cases b with
    | nil => simp [bytesLt]
    | cons y ys =>
      cases c with
      | nil => simp [bytesLt]
      | cons z zs =>
        simp only [bytesLt, Bool.or_eq_true, Bool.and_eq_true, decide_eq_true_eq, beq_iff_eq]
        rintro (h1 | ⟨rfl, h1⟩) (h2 | ⟨rfl, h2⟩)
        · exact Or.inl (by omega)
        · exact Or.inl h1
        · exact Or.inl h2
        · exact Or.inr ⟨rfl, ih ys zs h1 h2⟩

theorem bytesLe_total (a b : Bytes) : bytesLe a b = true ∨ bytesLe b a = true := by
  unfold bytesLe
  cases h : bytesLt b a
  · simp
  · simp [bytesLt_asymm b a h]

theorem bytesLe_trans (a b c : Bytes) (h1 : bytesLe a b = true) (h2 : bytesLe b c = true) :
    bytesLe a c = true := by
  unfold bytesLe at *
  simp only [Bool.not_eq_true'] at *
  cases h : bytesLt c a
  · rfl
  · rcases bytesLt_trichotomy a b with h' | h' | h'
    · have := bytesLt_trans c a b h h'; simp_all
    · subst h'; simp_all
    · simp_all

theorem bytesLe_antisymm (a b : Bytes) (h1 : bytesLe a b = true) (h2 : bytesLe b a = true) : a = b := by
  unfold bytesLe at *
  simp only [Bool.not_eq_true'] at *
  rcases bytesLt_trichotomy a b with h' | h' | h'
  · simp_all
  · exact h'
  · simp_all

theorem bytesLe_refl (a : Bytes) : bytesLe a a = true := by
  simp [bytesLe, bytesLt_irrefl]

theorem keyLe_total (mode : KeySort) (a b : Bytes) : keyLe mode a b = true ∨ keyLe mode b a = true := by
  cases mode
  · exact bytesLe_total a b
  · exact bytesLe_total a b
  · simp only [keyLe]
    by_cases h : a.length = b.length
    · simp [h]; exact bytesLe_total a b
    · have h' : ¬ b.length = a.length := fun e => h e.symm
      simp [h, h']; omega

theorem keyLe_trans (mode : KeySort) (a b c : Bytes) (h1 : keyLe mode a b = true) (h2 : keyLe mode b c = true) :
    keyLe mode a c = true := by
  cases mode
  · exact bytesLe_trans a b c h1 h2
  · exact bytesLe_trans a b c h1 h2
  · simp only [keyLe] at *
    by_cases hab : a.length = b.length <;> by_cases hbc : b.length = c.length
    · have hac : a.length = c.length := by omega
      simp [hab, hbc, hac] at *
      exact bytesLe_trans a b c (by simpa [hab, hbc] using h1) h2
    · have hac : ¬ a.length = c.length := by omega
      simp [hab, hbc, hac] at *
      omega
    · have hac : ¬ a.length = c.length := by omega
      simp [hab, hbc, hac] at *
      omega
    · simp [hab, hbc] at h1 h2
      have hac : ¬ a.length = c.length := by omega
      simp [hac]; omega

theorem keyLe_antisymm (mode : KeySort) (a b : Bytes) (h1 : keyLe mode a b = true) (h2 : keyLe mode b a = true) :
    a = b := by
  cases mode
  · exact bytesLe_antisymm a b h1 h2
  · exact bytesLe_antisymm a b h1 h2
  · simp only [keyLe] at *
    by_cases hab : a.length = b.length
    · simp [hab] at h1 h2
      exact bytesLe_antisymm a b h1 h2
    · have hba : ¬ b.length = a.length := fun e => hab e.symm
      simp [hab, hba] at h1 h2
      omega

end Refmt.KeyOrder
