-- the round-trip induction over `fullTy`: untyped slots (see RefmtProofs/Props/C13Full.lean)
import RefmtProofs.Lemmas.FullRT3
set_option linter.unusedSimpArgs false
set_option linter.unusedVariables false
namespace Refmt.Obj
open Refmt Refmt.C13 Refmt.C11 Refmt.C12

variable {ts : Types} {a : Atlas} {trs : Trs} {it : IfaceTys}

theorem zeroVal_slice' {id e : Nat} (hd : ts.get id = .slice e) : zeroVal ts 64 id = .slice none := by
  show zeroVal ts (63+1) id = _
  rw [zeroVal.eq_def]
  simp [hd]

theorem zeroVal_map' {id k e : Nat} (hd : ts.get id = .map k e) : zeroVal ts 64 id = .map none := by
  show zeroVal ts (63+1) id = _
  rw [zeroVal.eq_def]
  simp [hd]

theorem unmBare_map_cur (F id kt vt : Nat) (cur cur' : Val) (toks : List Tok) (h : mapCur0 cur = mapCur0 cur') :
    unmBare ts a trs it F id (.map kt vt) cur toks = unmBare ts a trs it F id (.map kt vt) cur' toks := by
  cases F with
  | zero => simp [unmBare]
  | succ F =>
    cases toks with
    | nil => simp [unmBare]
    | cons t r => rw [unmBare_map, unmBare_map, h]

theorem get_ty {id : Nat} {e : Entry} (h : a.get id = some e) : e.ty = id := by
  have := List.find?_some h
  simp only [Bool.and_eq_true, beq_iff_eq] at this
  exact this.2

/-- the atlas entry behind a struct-map / transform machine of a `fullTy` type -/
theorem view_entry {p id : Nat} (hview : FullView ts a p id) :
    (∀ e fs, pickBare ts a id = .structMap e fs → a.get id = some e) ∧
    (∀ e fn mty, pickBare ts a id = .transform e fn mty → a.get id = some e) := by
  cases hview with
  | prim k b hd hn => rw [(pick_prim hd hn).1]; simp
  | bytes b hd hn => rw [(pick_bytes hd hn).1]; simp
  | byteArr n hd hn => rw [(pick_byteArr hd hn).1]; simp
  | slice e hd hn _ => rw [(pick_slice hd hn).1]; simp
  | arr n e hd hn _ => rw [(pick_arr hd hn).1]; simp
  | map kt vt bk hd hn _ _ => rw [(pick_map hd hn).1]; simp
  | wild hd hn => rw [(pick_wild hd hn).1]; simp
  | struct fds reg ty tag fields hd he _ _ _ =>
    rw [(pick_struct hd he).1]
    refine ⟨fun e fs h => ?_, by simp⟩
    cases h; exact he
  | transform reg ty tag fn mty hb he _ _ _ =>
    rw [(pick_transform hb he).1]
    refine ⟨by simp, fun e fn' mty' h => ?_⟩
    cases h; exact he
  | union m reg ty tag members hd he _ _ => rw [(pick_union hd he).1]; simp

/-- a value of a registered tagged type in an untyped slot: the first token carries the tag, the slot
    reconstructs the registered type -/
theorem rtf_wild_tagged {f} (hf : f + 1 ≤ 1000) (ih : RTF ts a trs it f) (h id dt : Nat) (dv : Val) (toks : List Tok) (g : Nat)
    (e : Entry) (tg : Int)
    (hmeth : ifaceMeth ts id = false) (hnp : ∀ x, ts.get dt ≠ .ptr x) (hfull : fullTy ts a 64 dt = true)
    (hvd : hasTy ts h dt dv = true) (hg : f ≤ g) (hsB : fullValB ts a trs it g dt (pickBare ts a dt) dv = true)
    (hm : marshalV ts a trs f dt dv = ⟨toks, none⟩) (hety : e.ty = dt) (hbt : a.getByTag tg = some e)
    (htag : ∀ t r, toks = t :: r → t.tag = some tg)
    (hrt : rtFB ts a trs it (g+1) id .wildcard (.iface (some (dt, dv))) =
      if isBareNullSer .pretty ts a trs dt dv then .iface none
      else .iface (some (dt, rtFB ts a trs it g dt (pickBare ts a dt) dv))) :
    HeadSpec toks ∧ ∀ F, f + 1 < F → ∀ rest,
      unmBare ts a trs it F id .wildcard (zeroVal ts 64 id) (toks ++ rest) =
        .ok (rtFB ts a trs it (g+1) id .wildcard (.iface (some (dt, dv)))) rest toks.length := by
  obtain ⟨hhs, hu⟩ := ih.v 64 h dt dv toks (g+1) (by omega) hfull hvd (by omega)
    (by rw [fullVal_nonptr ts a trs it hnp]; exact hsB) hm
  refine ⟨hhs, fun F hF rest => ?_⟩
  obtain ⟨F, rfl⟩ : ∃ F', F = F' + 2 := ⟨F - 2, by omega⟩
  obtain ⟨t, r, rfl, -, -⟩ := hhs.head
  have ht := htag t r rfl
  have hnull := isBareNullSer_false ts a trs hm (Or.inr (by rw [ht]; simp)) (by omega)
  have hu' := hu (F + 1) (by omega) rest
  rw [List.cons_append, unmV_nonptr ts a trs it hnp, rtF_nonptr ts a trs it hnp] at hu'
  rw [hrt, hnull]
  obtain ⟨tb, tt⟩ := t
  simp only at ht
  subst ht
  subst hety
  rw [List.cons_append, unmBare_wild, unmWild_eq]
  simp only [hbt, hmeth, Bool.false_eq_true, if_false, hu']
  simp

/-- what an untyped slot holds after reading the single token of a scalar -/
def wildScalar (it : IfaceTys) (dt : Nat) (pv : Val) : Val :=
  match pv with
  | .bool b => .iface (some (it.bool, .bool b))
  | .int i => .iface (some (it.int, .int i))
  | .uint u => if u < two63 then .iface (some (it.int, .int u)) else .iface (some (it.uint64, .uint u))
  | .float b => .iface (some (normFloatIface .pretty it b))
  | .str s => .iface (some (it.str, .str s))
  | .bytes (some b) => .iface (some (it.bytes, .bytes (some b)))
  | .byteArr b => .iface (some (it.bytes, .bytes (some b)))
  | x => .iface (some (dt, x))

theorem rtFB_wild_prim (g id dt : Nat) (dv : Val) (hnp : ∀ x, ts.get dt ≠ .ptr x) (hpkd : pickBare ts a dt = .prim)
    (hnull : isBareNullSer .pretty ts a trs dt dv = false) :
    rtFB ts a trs it (g+1) id .wildcard (.iface (some (dt, dv))) = wildScalar it dt dv := by
  rw [rtFB_wild_some, hnull, C12L.peel_nonptr ts 64 0 dt hnp]
  simp only [derefN, hpkd, Bool.false_eq_true, if_false]
  rfl

theorem rtf_b_wild {f} (hf : f + 1 ≤ 1000) (he : UEnv ts a it) (ih : RTF ts a trs it f) (h id : Nat) (v : Val) (toks : List Tok) (g : Nat)
    (hd : ts.get id = .iface false) (hn : a.get id = none)
    (hv : hasTy ts h id v = true) (hg : f + 1 ≤ g) (hs : fullValB ts a trs it g id (pickBare ts a id) v = true)
    (hm : marshalBare ts a trs (f+1) id (pickBare ts a id) v = ⟨toks, none⟩) :
    HeadSpec toks ∧ ∀ F, f + 1 < F → ∀ rest,
      unmBare ts a trs it F id (upickBare ts a id) (zeroVal ts 64 id) (toks ++ rest) =
        .ok (rtFB ts a trs it g id (pickBare ts a id) v) rest toks.length := by
  obtain ⟨g, rfl⟩ : ∃ g', g = g' + 1 := ⟨g - 1, by omega⟩
  obtain ⟨hpk, hupk⟩ := pick_wild hd hn
  rw [hpk] at hm hs ⊢; rw [hupk]
  rw [marshalBare_wild] at hm
  have hmeth : ifaceMeth ts id = false := by simp [ifaceMeth, hd]
  cases h with
  | zero => simp [hasTy] at hv
  | succ h =>
  cases v <;> try (simp [MOut.bad] at hm; done)
  rename_i o
  cases o with
  | none =>
    simp [MOut.ok] at hm; subst hm
    refine ⟨Or.inl ⟨none, rfl⟩, fun F hF rest => ?_⟩
    obtain ⟨F, rfl⟩ : ∃ F', F = F' + 2 := ⟨F - 2, by omega⟩
    rw [List.cons_append, unmBare_wild, unmWild_eq, rtFB_wild_none]
    simp [hmeth]
  | some q =>
    obtain ⟨dt, dv⟩ := q
    have hvd : hasTy ts h dt dv = true := by simpa [hasTy, hd] using hv
    simp only at hm
    rw [fullValB_wild] at hs
    simp only [Bool.and_eq_true] at hs
    obtain ⟨hdnp, hs⟩ := hs
    have hnp := (notPtrB_iff _).mp hdnp
    have hpl : peel ts 64 0 dt = (0, dt) := C12L.peel_nonptr ts 64 0 dt hnp
    obtain ⟨f, rfl⟩ : ∃ f', f = f' + 1 := by
      cases f with
      | zero => simp [marshalV, MOut.bad] at hm
      | succ f' => exact ⟨f', rfl⟩
    have hmB : marshalBare ts a trs f dt (pickBare ts a dt) dv = ⟨toks, none⟩ := by
      rwa [marshalV_nonptr ts a trs hnp] at hm
    split at hs
    · -- scalar kinds
      rename_i hpkd
      rw [hpkd] at hmB
      obtain ⟨f, rfl⟩ : ∃ f', f = f' + 1 := by
        cases f with
        | zero => simp [marshalBare, MOut.bad] at hmB
        | succ f' => exact ⟨f', rfl⟩
      rw [marshalBare_prim] at hmB
      cases dv <;> try (simp [primTok, MOut.bad] at hmB; done)
      case bytes ob =>
        cases ob with
        | none =>
          simp [primTok, MOut.ok] at hmB; subst hmB
          have hnull := isBareNullSer_null ts a trs hm (by omega)
          refine ⟨Or.inl ⟨none, rfl⟩, fun F hF rest => ?_⟩
          obtain ⟨F, rfl⟩ : ∃ F', F = F' + 2 := ⟨F - 2, by omega⟩
          rw [List.cons_append, unmBare_wild, unmWild_eq, rtFB_wild_some, hnull]
          simp [hmeth]
        | some bs =>
          simp [primTok, MOut.ok] at hmB; subst hmB
          have hnull := isBareNullSer_false ts a trs hm (Or.inl (by simp)) (by omega)
          refine ⟨Or.inr ⟨_, _, rfl, by simp, by simp, by simp⟩, fun F hF rest => ?_⟩
          obtain ⟨F, rfl⟩ : ∃ F', F = F' + 2 := ⟨F - 2, by omega⟩
          rw [List.cons_append, unmBare_wild, unmWild_eq, rtFB_wild_prim g id dt _ hnp hpkd hnull]
          simp [hmeth, wildScalar]
      all_goals
        simp [primTok, MOut.ok] at hmB; subst hmB
        have hnull := isBareNullSer_false ts a trs hm (Or.inl (by simp)) (by omega)
        refine ⟨Or.inr ⟨_, _, rfl, by simp, by simp, by simp⟩, fun F hF rest => ?_⟩
        obtain ⟨F, rfl⟩ : ∃ F', F = F' + 2 := ⟨F - 2, by omega⟩
        rw [List.cons_append, unmBare_wild, unmWild_eq, rtFB_wild_prim g id dt _ hnp hpkd hnull]
        simp [hmeth, normFloatIface, wildScalar]
        try (split <;> rfl)
    · -- native []interface{}
      rename_i e' hpkd
      simp only [Bool.and_eq_true, beq_iff_eq] at hs
      obtain ⟨rfl, hs⟩ := hs
      have he' : e' = it.iface := by
        have := C12.pick_sliceI he
        rw [hpkd] at this
        cases this; rfl
      subst he'
      cases dv <;> try (cases hs; done)
      rename_i o
      cases o with
      | none => cases hs
      | some vs =>
        simp only [List.all_eq_true] at hs
        have hupkd : upickBare ts a it.sliceI = .slice it.iface := by simp [upickBare, he.sliceI, he.noSlice]
        obtain ⟨hhs, hu⟩ := ih.v 2 h it.sliceI (.slice (some vs)) toks (g+2) (by omega) (fullTy_sliceI he 0) hvd (by omega)
          (by rw [fullVal_nonptr ts a trs it hnp, hpkd, fullValB_slice]; simpa using hs) hm
        rw [hpkd] at hmB
        obtain ⟨f, rfl⟩ : ∃ f', f = f' + 1 := by
          cases f with
          | zero => simp [marshalBare, MOut.bad] at hmB
          | succ f' => exact ⟨f', rfl⟩
        rw [marshalBare_slice] at hmB
        simp only at hmB
        obtain ⟨t1, t23, h1, h23, rfl⟩ := seq_ok hmB
        simp [MOut.ok] at h1; subst h1
        have hnull := isBareNullSer_false ts a trs hm (Or.inl (by simp)) (by omega)
        refine ⟨hhs, fun F hF rest => ?_⟩
        obtain ⟨F, rfl⟩ : ∃ F', F = F' + 2 := ⟨F - 2, by omega⟩
        have hu' := hu (F + 1) (by omega) rest
        rw [List.cons_append, List.nil_append, List.cons_append, unmV_nonptr ts a trs it hnp, rtF_nonptr ts a trs it hnp, hpkd, hupkd,
          zeroVal_slice' he.sliceI, rtFB_slice] at hu'
        rw [List.cons_append, List.nil_append, List.cons_append, unmBare_wild, unmWild_eq, rtFB_wild_some, hnull, hpl]
        simp only [derefN, hpkd, hmeth, wildRej_false, Bool.false_eq_true, if_false, hu', boxAs_iface he]
        simp
    · -- native map[string]interface{}
      rename_i k' vt' mode' hpkd
      simp only [Bool.and_eq_true, beq_iff_eq] at hs
      obtain ⟨rfl, hs⟩ := hs
      have he' : k' = it.str ∧ vt' = it.iface ∧ mode' = a.defaultSort := by
        have := C12.pick_mapSI he
        rw [hpkd] at this
        cases this; exact ⟨rfl, rfl, rfl⟩
      obtain ⟨rfl, rfl, rfl⟩ := he'
      cases dv <;> try (cases hs; done)
      rename_i o
      cases o with
      | none => cases hs
      | some es =>
        simp only [Bool.and_eq_true, List.all_eq_true] at hs
        obtain ⟨hkeys, hnd⟩ := strKeysB_inv hs.1
        have hupkd : upickBare ts a it.mapSI = .map it.str it.iface := by simp [upickBare, he.mapSI, he.noMap]
        obtain ⟨hhs, hu⟩ := ih.v 2 h it.mapSI (.map (some es)) toks (g+2) (by omega) (fullTy_mapSI he 0) hvd (by omega)
          (by
            rw [fullVal_nonptr ts a trs it hnp, hpkd, fullValB_map]
            simp only [Bool.and_eq_true, List.all_eq_true]
            exact hs) hm
        rw [hpkd] at hmB
        obtain ⟨f, rfl⟩ : ∃ f', f = f' + 1 := by
          cases f with
          | zero => simp [marshalBare, MOut.bad] at hmB
          | succ f' => exact ⟨f', rfl⟩
        have hmk : mkeyFn ts a it.str = some none := by simp [mkeyFn, he.str]
        rw [marshalBare_map, hmk] at hmB
        simp only [Option.getD_some, mapM_keys es hkeys, Option.isNone_some, Bool.false_eq_true, if_false] at hmB
        obtain ⟨t1, t23, h1, h23, rfl⟩ := seq_ok hmB
        simp [MOut.ok] at h1; subst h1
        have hnull := isBareNullSer_false ts a trs hm (Or.inl (by simp)) (by omega)
        refine ⟨hhs, fun F hF rest => ?_⟩
        obtain ⟨F, rfl⟩ : ∃ F', F = F' + 2 := ⟨F - 2, by omega⟩
        have hu' := hu (F + 1) (by omega) rest
        rw [List.cons_append, List.nil_append, List.cons_append, unmV_nonptr ts a trs it hnp, rtF_nonptr ts a trs it hnp, hpkd, hupkd,
          zeroVal_map' he.mapSI, rtFB_map,
          unmBare_map_cur F it.mapSI it.str it.iface (.map none) (.map (some [])) _ rfl] at hu'
        rw [List.cons_append, List.nil_append, List.cons_append, unmBare_wild, unmWild_eq, rtFB_wild_some, hnull, hpl]
        simp only [derefN, hpkd, hmeth, wildRej_false, Bool.false_eq_true, if_false, hu', boxAs_iface he]
        simp
    · -- tagged struct type
      rename_i e' fs' hpkd
      simp only [Bool.and_eq_true] at hs
      obtain ⟨⟨htg, hfull⟩, hsB⟩ := hs
      have hge := (view_entry (fullTy_view (p := 63) hfull hnp)).1 e' fs' hpkd
      unfold taggedB at htg
      split at htg
      · rename_i tg htag
        simp only [beq_iff_eq] at htg
        refine rtf_wild_tagged hf ih h id dt dv toks g e' tg hmeth hnp hfull hvd (by omega) hsB hm (get_ty hge) htg ?_ ?_
        · intro t r hh
          subst hh
          rw [hpkd] at hmB
          rw [(C20.struct_tag_first ts a trs f dt e' fs' dv t r none hmB).1, htag]
        · rw [rtFB_wild_some, hpl]
          simp only [derefN, hpkd]
      · cases htg
    · -- tagged transform type
      rename_i e' fn' mty' hpkd
      simp only [Bool.and_eq_true] at hs
      obtain ⟨⟨htg, hfull⟩, hsB⟩ := hs
      have hge := (view_entry (fullTy_view (p := 63) hfull hnp)).2 e' fn' mty' hpkd
      unfold taggedB at htg
      split at htg
      · rename_i tg htag
        simp only [beq_iff_eq] at htg
        refine rtf_wild_tagged hf ih h id dt dv toks g e' tg hmeth hnp hfull hvd (by omega) hsB hm (get_ty hge) htg ?_ ?_
        · intro t r hh
          subst hh
          rw [hpkd] at hmB
          exact C20.transform_tag_first ts a trs f dt fn' mty' e' tg dv t r none htag hmB
        · rw [rtFB_wild_some, hpl]
          simp only [derefN, hpkd]
      · cases htg
    · cases hs

end Refmt.Obj
