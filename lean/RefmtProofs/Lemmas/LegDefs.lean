/-
  C12, claim (ii) — definitions and generic combinators (see RefmtProofs/Props/C12Typed.lean).

  `UP N tk u tk2`  : the untyped pass on the token list `tk`: read into an untyped slot it gives `u`, and marshalling `u`
                     again emits `tk2` (at every fuel `≥ N`).
  `Rd F id tk r`   : reading `tk` (whatever follows it) into a zero value of type `id` at fuel `F` gives `r` and consumes
                     exactly `tk`.
  `Leg id tk r`    : the untyped pass turns `tk` into some `tk2` which reads into type `id` as `r`.
  Combinators: reading / marshalling lists of items and keyed items (`rd_elems`, `rd_entries`, `rd_struct`, `m_list`,
  `m_entries`), and the untyped pass on scalars, arrays and maps (`UP_*`).
-/
import RefmtProofs.Lemmas.FullRT5
set_option linter.unusedSimpArgs false
set_option linter.unusedVariables false
namespace Refmt.Obj
open Refmt Refmt.C13 Refmt.C11 Refmt.C12

/-- neither null nor a close token -/
def NC (t : Tok) : Prop := t.body ≠ .null ∧ t.body ≠ .arrClose ∧ t.body ≠ .mapClose

/-- the token list starts with a token that is not a close token -/
def HeadNC (tk : List Tok) : Prop := ∃ t r, tk = t :: r ∧ t.body ≠ .arrClose ∧ t.body ≠ .mapClose

/-- open tokens stay open tokens of the same kind -/
def SameOpen (b b' : Body) : Prop :=
  (∀ l, b = .arrOpen l → ∃ l', b' = .arrOpen l') ∧ (∀ l, b = .mapOpen l → ∃ l', b' = .mapOpen l')

/-- head shapes of a rendering `tk` and of its untyped re-rendering `tk2`: both a single untagged null, or both start
    with an untagged token that is neither null nor a close token (an open token stays one of the same kind) -/
def Hd2 (tk tk2 : List Tok) : Prop :=
  (tk = [⟨.null, none⟩] ∧ tk2 = [⟨.null, none⟩]) ∨
  (∃ t r t' r', tk = t :: r ∧ tk2 = t' :: r' ∧ t.tag = none ∧ t'.tag = none ∧ NC t ∧ NC t' ∧ SameOpen t.body t'.body)

theorem Hd2.head1 {tk tk2 : List Tok} (h : Hd2 tk tk2) : HeadNC tk := by
  rcases h with ⟨rfl, -⟩ | ⟨t, r, t', r', rfl, -, -, -, h1, -, -⟩
  · exact ⟨_, _, rfl, by simp, by simp⟩
  · exact ⟨t, r, rfl, h1.2.1, h1.2.2⟩

theorem Hd2.head2 {tk tk2 : List Tok} (h : Hd2 tk tk2) : HeadNC tk2 := by
  rcases h with ⟨-, rfl⟩ | ⟨t, r, t', r', -, rfl, -, -, -, h1, -⟩
  · exact ⟨_, _, rfl, by simp, by simp⟩
  · exact ⟨t', r', rfl, h1.2.1, h1.2.2⟩

section
variable (ts : Types) (a : Atlas) (trs : Trs) (it : IfaceTys)

def Rd (F id : Nat) (tk : List Tok) (r : Val) : Prop :=
  ∀ rest, unmV ts a trs it F id (zeroVal ts 64 id) (tk ++ rest) = .ok r rest tk.length

def RdB (F id : Nat) (tk : List Tok) (r : Val) : Prop :=
  ∀ rest, unmBare ts a trs it F id (upickBare ts a id) (zeroVal ts 64 id) (tk ++ rest) = .ok r rest tk.length

/-- the untyped pass: `tk` read into an untyped slot gives `u`; `u` marshalled again gives `tk2` -/
def UP (N : Nat) (tk : List Tok) (u : Val) (tk2 : List Tok) : Prop :=
  Hd2 tk tk2 ∧ ∀ F, N ≤ F → Rd ts a trs it F it.iface tk u ∧ marshalV ts a trs F it.iface u = ⟨tk2, none⟩

structure Item where
  tk : List Tok
  u : Val
  tk2 : List Tok
  r : Val

def GoodI (N id : Nat) (i : Item) : Prop :=
  UP ts a trs it N i.tk i.u i.tk2 ∧ ∀ F, N ≤ F → Rd ts a trs it F id i.tk2 i.r

def GoodB (N id : Nat) (i : Item) : Prop :=
  UP ts a trs it N i.tk i.u i.tk2 ∧ ∀ F, N ≤ F → RdB ts a trs it F id i.tk2 i.r

def Leg (id : Nat) (tk : List Tok) (r : Val) : Prop := ∃ u tk2 N, GoodI ts a trs it N id ⟨tk, u, tk2, r⟩
def LegB (id : Nat) (tk : List Tok) (r : Val) : Prop := ∃ u tk2 N, GoodB ts a trs it N id ⟨tk, u, tk2, r⟩

end

variable {ts : Types} {a : Atlas} {trs : Trs} {it : IfaceTys}

theorem UP.mono {N M : Nat} {tk : List Tok} {u : Val} {tk2 : List Tok} (h : UP ts a trs it N tk u tk2) (hle : N ≤ M) :
    UP ts a trs it M tk u tk2 :=
  ⟨h.1, fun F hF => h.2 F (by omega)⟩

theorem GoodI.mono {N M id : Nat} {i : Item} (h : GoodI ts a trs it N id i) (hle : N ≤ M) : GoodI ts a trs it M id i :=
  ⟨h.1.mono hle, fun F hF => h.2 F (by omega)⟩

theorem GoodB.mono {N M id : Nat} {i : Item} (h : GoodB ts a trs it N id i) (hle : N ≤ M) : GoodB ts a trs it M id i :=
  ⟨h.1.mono hle, fun F hF => h.2 F (by omega)⟩

/-! ### reading lists of items -/

theorem flatMap_cons_append {α : Type} (x : α) (l : List α) (f : α → List Tok) (more : List Tok) :
    (x :: l).flatMap f ++ more = f x ++ (l.flatMap f ++ more) := by
  simp [List.flatMap_cons, List.append_assoc]

/-- elements of a slice / array, one item after the other -/
theorem rd_elems {α : Type} (tkf : α → List Tok) (rf : α → Val) (e N : Nat) : ∀ (l : List α),
    (∀ x ∈ l, HeadNC (tkf x) ∧ ∀ F, N ≤ F → Rd ts a trs it F e (tkf x) (rf x)) →
    ∀ F, N + l.length + 1 ≤ F → ∀ cap acc rest, (∀ n, cap = some n → acc.length + l.length ≤ n) →
    unmElems ts a trs it F e cap acc (l.flatMap tkf ++ ⟨.arrClose, none⟩ :: rest) =
      .ok (.slice (some (acc.reverse ++ l.map rf))) rest ((l.flatMap tkf).length + 1) := by
  intro l
  induction l with
  | nil =>
    intro _ F hF cap acc rest _
    obtain ⟨F, rfl⟩ : ∃ F', F = F' + 1 := ⟨F - 1, by omega⟩
    simp [unmElems_cons]
  | cons x xs ih =>
    intro h F hF cap acc rest hcap
    obtain ⟨F, rfl⟩ : ∃ F', F = F' + 1 := ⟨F - 1, by omega⟩
    obtain ⟨⟨t, r, htk, hc1, hc2⟩, hx⟩ := h x (by simp)
    have hx := hx F (by simp at hF; omega) (xs.flatMap tkf ++ ⟨.arrClose, none⟩ :: rest)
    have hxs := ih (fun y hy => h y (by simp [hy])) F (by simp at hF; omega) cap (rf x :: acc) rest
      (fun n hn => by have := hcap n hn; simp at this ⊢; omega)
    have hcf : capFull cap acc = false := by
      unfold capFull
      cases cap with
      | none => rfl
      | some n => have := hcap n rfl; simp at this ⊢; omega
    rw [flatMap_cons_append]
    rw [htk] at hx ⊢
    rw [List.cons_append, unmElems_cons]
    rw [List.cons_append] at hx
    split
    · rename_i hb; exact absurd hb hc2
    · rename_i hb; exact absurd hb hc1
    · rw [hcf, hx]
      simp [hxs, List.flatMap_cons, htk]
      omega

/-- entries of a map with string keys, one keyed item after the other -/
theorem rd_entries {α : Type} (kf : α → Bytes) (tkf : α → List Tok) (rf : α → Val) (vt N : Nat) : ∀ (l : List α),
    (∀ x ∈ l, ∀ F, N ≤ F → Rd ts a trs it F vt (tkf x) (rf x)) → (l.map kf).Nodup →
    ∀ F, N + l.length + 1 ≤ F → ∀ es0 rest, (∀ x ∈ l, hasKey (.str (kf x)) es0 = false) →
    unmMapEntries ts a trs it F none vt es0 (l.flatMap (fun x => ⟨.str (kf x), none⟩ :: tkf x) ++ ⟨.mapClose, none⟩ :: rest) =
      .ok (.map (some (es0 ++ l.map fun x => (Val.str (kf x), rf x)))) rest
        ((l.flatMap (fun x => ⟨.str (kf x), none⟩ :: tkf x)).length + 1) := by
  intro l
  induction l with
  | nil =>
    intro _ _ F hF es0 rest _
    obtain ⟨F, rfl⟩ : ∃ F', F = F' + 1 := ⟨F - 1, by omega⟩
    simp [unmMapEntries_cons]
  | cons x xs ih =>
    intro h hnd F hF es0 rest hes
    obtain ⟨F, rfl⟩ : ∃ F', F = F' + 1 := ⟨F - 1, by omega⟩
    have hx := h x (by simp) F (by simp at hF; omega)
      (xs.flatMap (fun x => ⟨.str (kf x), none⟩ :: tkf x) ++ ⟨.mapClose, none⟩ :: rest)
    simp only [List.map_cons, List.nodup_cons] at hnd
    have hxs := ih (fun y hy => h y (by simp [hy])) hnd.2 F (by simp at hF; omega)
      (es0 ++ [(.str (kf x), rf x)]) rest (fun y hy => by
        rw [hasKey_append_str, hes y (by simp [hy])]
        simp only [Bool.false_or, beq_eq_false_iff_ne]
        intro he
        exact hnd.1 (by rw [he]; exact List.mem_map_of_mem hy))
    rw [flatMap_cons_append, List.cons_append, unmMapEntries_cons]
    simp only [mapKey, hes x (by simp), hx]
    simp [hxs, List.flatMap_cons]
    omega

/-! ### marshalling lists of items -/

theorem m_list {α : Type} (uf : α → Val) (tkf : α → List Tok) (e N : Nat) : ∀ (l : List α),
    (∀ x ∈ l, ∀ F, N ≤ F → marshalV ts a trs F e (uf x) = ⟨tkf x, none⟩) →
    ∀ F, N + l.length + 1 ≤ F → marshalList ts a trs F e (l.map uf) = ⟨l.flatMap tkf, none⟩ := by
  intro l
  induction l with
  | nil =>
    intro _ F hF
    obtain ⟨F, rfl⟩ : ∃ F', F = F' + 1 := ⟨F - 1, by omega⟩
    simp [marshalList_nil, MOut.ok]
  | cons x xs ih =>
    intro h F hF
    obtain ⟨F, rfl⟩ : ∃ F', F = F' + 1 := ⟨F - 1, by omega⟩
    rw [List.map_cons, marshalList_cons, h x (by simp) F (by simp at hF; omega),
      ih (fun y hy => h y (by simp [hy])) F (by simp at hF; omega)]
    simp [MOut.seq, List.flatMap_cons]

theorem m_entries {α : Type} (kf : α → Bytes) (uf : α → Val) (tkf : α → List Tok) (e N : Nat) : ∀ (l : List α),
    (∀ x ∈ l, ∀ F, N ≤ F → marshalV ts a trs F e (uf x) = ⟨tkf x, none⟩) →
    ∀ F, N + l.length + 1 ≤ F →
    marshalEntries ts a trs F e (l.map fun x => (kf x, uf x)) = ⟨l.flatMap (fun x => ⟨.str (kf x), none⟩ :: tkf x), none⟩ := by
  intro l
  induction l with
  | nil =>
    intro _ F hF
    obtain ⟨F, rfl⟩ : ∃ F', F = F' + 1 := ⟨F - 1, by omega⟩
    simp [marshalEntries_nil, MOut.ok]
  | cons x xs ih =>
    intro h F hF
    obtain ⟨F, rfl⟩ : ∃ F', F = F' + 1 := ⟨F - 1, by omega⟩
    rw [List.map_cons, marshalEntries_cons, h x (by simp) F (by simp at hF; omega),
      ih (fun y hy => h y (by simp [hy])) F (by simp at hF; omega)]
    simp [MOut.seq, MOut.ok, List.flatMap_cons]

end Refmt.Obj
