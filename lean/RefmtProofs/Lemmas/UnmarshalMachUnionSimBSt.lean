/-
  Stateful object unmarshaller: the struct machine from its `Reset`  ~  `unmBare … (.structMap fields)`.
-/
import RefmtProofs.Lemmas.UnmarshalMachUnionSimS2
set_option linter.unusedSimpArgs false
set_option linter.unusedVariables false
namespace Refmt.UMachU
open Refmt Refmt.Obj Refmt.Obj.UM Refmt.UMachL

variable {ts : Types} {a : Atlas} {trs : Trs} {it : IfaceTys}

theorem unmBare_struct {n base : Nat} {fields : List SMField} {cur : Val} {t : Tok} {rest : List Tok} :
    unmBare ts a trs it (n+1) base (.structMap fields) cur (t :: rest) =
      match t.body with
      | .null => .ok (zeroVal ts 64 base) rest 1
      | .mapOpen len => (unmStruct ts a trs it n base fields len 0 cur rest).shift 1
      | _ => .err 0 := by
  rw [unmBare.eq_def]
  simp only []
  cases t.body <;> rfl

theorem simB_struct {S : List Nat} {wi : Option Nat} {n : Nat} (hSt : SimSt ts a trs it S wi n) {base : Nat} {fields : List SMField}
    (hf : ∀ f ∈ fields, if f.ignore then wildIn S wi else f.ty ∈ S)
    (cur : Val) (lo : List URow) (row : URow) (hi : List URow) (stk : List URef) (be : Option XFail) (c : URef)
    (F : Val → Option Val) (w : Val → Val) (d : Nat) (toks : List Tok) (fr sf1 sf : Nat) (hfl : row.struct.fields = fields)
    {un : Option Nat} (hw : Wr trs.u c lo row .struct F w d un) (hd : d ≤ 3) (hfr : 6 ≤ fr) (hsf1 : 10 ≤ sf1) (hsf : 17 ≤ sf) :
    Agree ts a trs it none un c sf be stk lo row F w
      (rtpB ts a trs it fr sf1 sf (lo ++ row :: hi) stk be c ⟨lo.length, .struct⟩ base cur toks)
      (unmBare ts a trs it (n+1) base (.structMap fields) cur toks) := by
  cases toks with
  | nil => simp [rtpB, unmBare, Agree]
  | cons t rest =>
    obtain ⟨f, rfl⟩ : ∃ f, fr = f + 1 := ⟨fr - 1, by omega⟩
    obtain ⟨g, rfl⟩ : ∃ g, sf1 = g + 1 + d + 1 := ⟨sf1 - d - 2, by omega⟩
    rw [unmBare_struct]
    simp only [rtpB, struct_reset]
    have hw1 : Wr trs.u c lo (rowSt row (stReset row.struct cur base)) .struct F w d un := hw.congr rfl
    have hs := hw1.step (ts := ts) (a := a) (trs := trs) (it := it) hi stk (some c) be t (g + 1)
    have hneg : (rowSt row (stReset row.struct cur base)).struct.index < 0 := by
      show (-1 : Int) < 0
      omega
    cases hb : t.body with
    | null =>
      exact Agree.fin1 hw1 (struct_step_init_null hneg hb) (rowSt_same _ _ rfl) (by omega)
    | mapOpen len =>
      rw [struct_step_init_open hneg hb] at hs
      rw [pump1_cont hs]
      have hst : StKSt (rowSt (rowSt row (stReset row.struct cur base))
          (stOpen (rowSt row (stReset row.struct cur base)).struct len)) base fields len 0 cur :=
        ⟨hfl, rfl, rfl, rfl, rfl, rfl⟩
      have hA := hSt base fields hf len 0 cur lo _ hi stk be c F w d rest sf hst (by intro h; omega) (hw.congr rfl) hd hsf
      exact hA.shift 1 ((rowSt_same _ _ rfl).trans (rowSt_same _ _ rfl))
    | _ =>
      rw [struct_step_init_other hneg (by simp [hb]) (by simp [hb])] at hs
      rw [pump1_err hs]
      simp [Agree, XFail.toURes]

end Refmt.UMachU
