/-
  C12, claim (ii) with TAGGED atlas entries — definitions (see RefmtProofs/Props/C12Tagged.lean).

  `Hd2T`  : `Hd2` of LegDefs.lean with tags allowed on the first tokens (the same tag on both sides; a single null may
            be tagged: a tagged transform whose wire form is null).
  `UPT` / `GoodIT` / `GoodBT` / `LegT` / `LegBT` : `UP` / `GoodI` / `GoodB` / `Leg` / `LegB` with `Hd2T`.
  `IdmI` / `IdmBI` / `Idm` / `IdmB` : the re-marshal of the ROUND-TRIP value: marshalling `r` (at its own type) gives
            `tk2`, and `tk2` reads back as `r` ("idempotence of the round trip on reconstructed values").
  Hypotheses of the tagged theorem: `TagsOkA`, `TagStab` (`StabTy`; implied by `NoOmit` + `TrRetract`).
-/
import RefmtProofs.Lemmas.LegRT5
set_option linter.unusedSimpArgs false
set_option linter.unusedVariables false
namespace Refmt.Obj
open Refmt Refmt.C13 Refmt.C11 Refmt.C12 Refmt.C12L

/-- head shapes of a rendering `tk` and of its re-rendering `tk2`: neither first token is a close token, an untagged
    first token stays untagged (a tagged one keeps its tag wherever that matters: `C20.struct_tag_first`,
    `C20.transform_tag_first`; a tagged null behind a pointer comes back as a plain null), an open token stays one of
    the same kind, and either both are a single null or neither starts with a null -/
def Hd2T (tk tk2 : List Tok) : Prop :=
  ∃ t r t' r', tk = t :: r ∧ tk2 = t' :: r' ∧ (t.tag = none → t'.tag = none) ∧
    t.body ≠ .arrClose ∧ t.body ≠ .mapClose ∧ t'.body ≠ .arrClose ∧ t'.body ≠ .mapClose ∧
    SameOpen t.body t'.body ∧
    ((t.body = .null ∧ r = [] ∧ t'.body = .null ∧ r' = []) ∨ (t.body ≠ .null ∧ t'.body ≠ .null))

theorem Hd2.toT {tk tk2 : List Tok} (h : Hd2 tk tk2) : Hd2T tk tk2 := by
  rcases h with ⟨rfl, rfl⟩ | ⟨t, r, t', r', rfl, rfl, h1, h2, h3, h4, h5⟩
  · exact ⟨_, _, _, _, rfl, rfl, id, by simp, by simp, by simp, by simp, by simp [SameOpen], Or.inl ⟨rfl, rfl, rfl, rfl⟩⟩
  · exact ⟨t, r, t', r', rfl, rfl, fun _ => h2, h3.2.1, h3.2.2, h4.2.1, h4.2.2, h5, Or.inr ⟨h3.1, h4.1⟩⟩

theorem Hd2T.head1 {tk tk2 : List Tok} (h : Hd2T tk tk2) : HeadNC tk := by
  obtain ⟨t, r, t', r', rfl, -, -, h1, h2, -⟩ := h
  exact ⟨t, r, rfl, h1, h2⟩

theorem Hd2T.head2 {tk tk2 : List Tok} (h : Hd2T tk tk2) : HeadNC tk2 := by
  obtain ⟨t, r, t', r', -, rfl, -, -, -, h1, h2, -⟩ := h
  exact ⟨t', r', rfl, h1, h2⟩

theorem SameOpen.refl (b : Body) : SameOpen b b := ⟨fun l h => ⟨l, h⟩, fun l h => ⟨l, h⟩⟩

/-- a rendering against itself -/
theorem HeadSpec.hd2T {tk : List Tok} (h : HeadSpec tk) : Hd2T tk tk := by
  rcases h with ⟨tg, rfl⟩ | ⟨t, r, rfl, h1, h2, h3⟩
  · exact ⟨_, _, _, _, rfl, rfl, id, by simp, by simp, by simp, by simp, SameOpen.refl _, Or.inl ⟨rfl, rfl, rfl, rfl⟩⟩
  · exact ⟨t, r, t, r, rfl, rfl, id, h2, h3, h2, h3, SameOpen.refl _, Or.inr ⟨h1, h1⟩⟩

/-- both renderings get the same tag on their first token -/
theorem Hd2T.retag {tk tk2 : List Tok} (h : Hd2T tk tk2) (g : Option Int) :
    ∃ t r t' r', tk = t :: r ∧ tk2 = t' :: r' ∧ Hd2T (⟨t.body, g⟩ :: r) (⟨t'.body, g⟩ :: r') := by
  obtain ⟨t, r, t', r', rfl, rfl, h0, h1, h2, h3, h4, h5, h6⟩ := h
  exact ⟨t, r, t', r', rfl, rfl, _, _, _, _, rfl, rfl, id, h1, h2, h3, h4, h5, h6⟩

section
variable (ts : Types) (a : Atlas) (trs : Trs) (it : IfaceTys)

/-- the untyped pass (as `UP`), tags allowed -/
def UPT (N : Nat) (tk : List Tok) (u : Val) (tk2 : List Tok) : Prop :=
  Hd2T tk tk2 ∧ ∀ F, N ≤ F → Rd ts a trs it F it.iface tk u ∧ marshalV ts a trs F it.iface u = ⟨tk2, none⟩

def GoodIT (N id : Nat) (i : Item) : Prop :=
  UPT ts a trs it N i.tk i.u i.tk2 ∧ ∀ F, N ≤ F → Rd ts a trs it F id i.tk2 i.r

def GoodBT (N id : Nat) (i : Item) : Prop :=
  UPT ts a trs it N i.tk i.u i.tk2 ∧ ∀ F, N ≤ F → RdB ts a trs it F id i.tk2 i.r

def LegT (id : Nat) (tk : List Tok) (r : Val) : Prop := ∃ u tk2 N, GoodIT ts a trs it N id ⟨tk, u, tk2, r⟩
def LegBT (id : Nat) (tk : List Tok) (r : Val) : Prop := ∃ u tk2 N, GoodBT ts a trs it N id ⟨tk, u, tk2, r⟩

/-- the re-marshal of the round-trip value `i.r` at its own type `id` gives `i.tk2`, which reads back as `i.r`
    (`i.u` is not used) -/
def IdmI (N id : Nat) (i : Item) : Prop :=
  Hd2T i.tk i.tk2 ∧ ∀ F, N ≤ F → marshalV ts a trs F id i.r = ⟨i.tk2, none⟩ ∧ Rd ts a trs it F id i.tk2 i.r

def IdmBI (N id : Nat) (i : Item) : Prop :=
  Hd2T i.tk i.tk2 ∧ ∀ F, N ≤ F →
    marshalBare ts a trs F id (pickBare ts a id) i.r = ⟨i.tk2, none⟩ ∧ RdB ts a trs it F id i.tk2 i.r

def Idm (id : Nat) (tk : List Tok) (r : Val) : Prop := ∃ tk2 N, IdmI ts a trs it N id ⟨tk, r, tk2, r⟩
def IdmB (id : Nat) (tk : List Tok) (r : Val) : Prop := ∃ tk2 N, IdmBI ts a trs it N id ⟨tk, r, tk2, r⟩

end

/-- every registered tagged entry is found under its own tag (`C12Typed.TagsOk`) -/
def TagsOkA (a : Atlas) : Prop := ∀ e ∈ a.pool, e.registered = true → e.tag.isSome = true → taggedB a e = true

/-- the marshal transform of pair `fn` undoes its unmarshal transform -/
def RetractFn (trs : Trs) (fn : Nat) : Prop := ∀ (x w : Val), trs.u fn x = some w → trs.m fn w = some x

/-- field types whose round-trip value, when empty, is the zero value: pointers, and types without atlas entry
    (scalars, byte strings, slices, arrays, maps, untyped slots) or with a keyed-union entry.  Excluded: struct-map and
    transform entries (a struct can be empty without being zero: `{P: nil, S: []int{}}`). -/
def plainField (ts : Types) (a : Atlas) (ty : Nat) : Bool :=
  match ts.get ty with
  | .ptr _ => true
  | _ =>
    match a.get ty with
    | none => true
    | some e => (match e.k with | .union _ => true | _ => false)

/-- what a struct-map field must satisfy for the re-marshal of a reconstructed struct to reproduce it: `omitempty` only
    on a `plainField` type -/
def OmitOk (ts : Types) (a : Atlas) (f : SMField) : Prop := f.omitEmpty = true → plainField ts a f.ty = true

/-- "re-marshal stable" types (by the recursion of `fullTy`): every struct-map entry at or below the type has only
    `OmitOk` fields, every transform at or below it is a retraction.  (Untyped slots impose nothing here: what they
    may hold is covered by `TagStab`.) -/
def StabTy (ts : Types) (a : Atlas) (trs : Trs) : Nat → Nat → Prop
  | 0, _ => True
  | fuel+1, id =>
    match ts.get id with
    | .ptr e => StabTy ts a trs fuel e
    | d =>
      match a.get id with
      | none =>
        (match d with
         | .slice e => StabTy ts a trs fuel e
         | .arr _ e => StabTy ts a trs fuel e
         | .map _ e => StabTy ts a trs fuel e
         | _ => True)
      | some ⟨_, _, _, k⟩ =>
        (match k with
         | .structMap fields => ∀ f ∈ fields, OmitOk ts a f ∧ StabTy ts a trs fuel f.ty
         | .transform fn mty _ => RetractFn trs fn ∧ StabTy ts a trs fuel mty
         | .union members =>
           ∀ m ∈ members, (match a.pool[m.2]? with | some me => StabTy ts a trs fuel me.ty | none => True)
         | _ => True)

/-- every registered tagged entry is re-marshal stable -/
def TagStab (ts : Types) (a : Atlas) (trs : Trs) : Prop :=
  ∀ e ∈ a.pool, e.registered = true → e.tag.isSome = true → StabTy ts a trs 64 e.ty

/-- no struct-map entry has an `omitempty` field -/
def NoOmit (a : Atlas) : Prop :=
  ∀ e ∈ a.pool, ∀ fs, e.k = .structMap fs → ∀ f ∈ fs, f.omitEmpty = false

/-- the marshal transform undoes the unmarshal transform -/
def TrRetract (trs : Trs) : Prop := ∀ (fn : Nat) (x w : Val), trs.u fn x = some w → trs.m fn w = some x

variable {ts : Types} {a : Atlas} {trs : Trs} {it : IfaceTys}

theorem UP.toT {N : Nat} {tk : List Tok} {u : Val} {tk2 : List Tok} (h : UP ts a trs it N tk u tk2) :
    UPT ts a trs it N tk u tk2 := ⟨h.1.toT, h.2⟩

theorem UPT.mono {N M : Nat} {tk : List Tok} {u : Val} {tk2 : List Tok} (h : UPT ts a trs it N tk u tk2) (hle : N ≤ M) :
    UPT ts a trs it M tk u tk2 :=
  ⟨h.1, fun F hF => h.2 F (by omega)⟩

theorem GoodIT.mono {N M id : Nat} {i : Item} (h : GoodIT ts a trs it N id i) (hle : N ≤ M) : GoodIT ts a trs it M id i :=
  ⟨h.1.mono hle, fun F hF => h.2 F (by omega)⟩

theorem GoodBT.mono {N M id : Nat} {i : Item} (h : GoodBT ts a trs it N id i) (hle : N ≤ M) : GoodBT ts a trs it M id i :=
  ⟨h.1.mono hle, fun F hF => h.2 F (by omega)⟩

theorem IdmI.mono {N M id : Nat} {i : Item} (h : IdmI ts a trs it N id i) (hle : N ≤ M) : IdmI ts a trs it M id i :=
  ⟨h.1, fun F hF => h.2 F (by omega)⟩

theorem IdmBI.mono {N M id : Nat} {i : Item} (h : IdmBI ts a trs it N id i) (hle : N ≤ M) : IdmBI ts a trs it M id i :=
  ⟨h.1, fun F hF => h.2 F (by omega)⟩

theorem stabTy_ptr {p id e : Nat} (hd : ts.get id = .ptr e) : StabTy ts a trs (p+1) id = StabTy ts a trs p e := by
  rw [StabTy]; simp [hd]

theorem stabTy_slice {p id e : Nat} (hd : ts.get id = .slice e) (hn : a.get id = none) (h : StabTy ts a trs (p+1) id) :
    StabTy ts a trs p e := by
  rw [StabTy] at h; simpa [hd, hn] using h
theorem stabTy_arr {p id n e : Nat} (hd : ts.get id = .arr n e) (hn : a.get id = none) (h : StabTy ts a trs (p+1) id) :
    StabTy ts a trs p e := by
  rw [StabTy] at h; simpa [hd, hn] using h
theorem stabTy_map {p id k e : Nat} (hd : ts.get id = .map k e) (hn : a.get id = none) (h : StabTy ts a trs (p+1) id) :
    StabTy ts a trs p e := by
  rw [StabTy] at h; simpa [hd, hn] using h
theorem stabTy_struct {p id : Nat} {fds : List FieldDesc} {reg : Bool} {ty : Nat} {tag : Option Int} {fields : List SMField}
    (hd : ts.get id = .struct fds) (hg : a.get id = some ⟨reg, ty, tag, .structMap fields⟩) (h : StabTy ts a trs (p+1) id) :
    ∀ f ∈ fields, OmitOk ts a f ∧ StabTy ts a trs p f.ty := by
  rw [StabTy] at h; simpa [hd, hg] using h
theorem stabTy_transform {p id : Nat} {reg : Bool} {ty : Nat} {tag : Option Int} {fn mty uty : Nat}
    (hnp : ∀ e, ts.get id ≠ .ptr e) (hg : a.get id = some ⟨reg, ty, tag, .transform fn mty uty⟩) (h : StabTy ts a trs (p+1) id) :
    RetractFn trs fn ∧ StabTy ts a trs p mty := by
  rw [StabTy] at h
  cases hd : ts.get id with
  | ptr e => exact absurd hd (hnp e)
  | _ => simpa [hd, hg] using h
theorem stabTy_union {p id : Nat} {m : Bool} {reg : Bool} {ty : Nat} {tag : Option Int} {members : List (Bytes × Nat)}
    (hd : ts.get id = .iface m) (hg : a.get id = some ⟨reg, ty, tag, .union members⟩) (h : StabTy ts a trs (p+1) id) :
    ∀ mem ∈ members, ∀ me, a.pool[mem.2]? = some me → StabTy ts a trs p me.ty := by
  rw [StabTy] at h
  simp only [hd, hg] at h
  intro mem hmem me hme
  have := h mem hmem
  simpa [hme] using this
theorem stabTy_wild {p id : Nat} {m : Bool} (hd : ts.get id = .iface m) (hn : a.get id = none) : StabTy ts a trs p id := by
  cases p with
  | zero => simp [StabTy]
  | succ p => rw [StabTy]; simp [hd, hn]

theorem stabTy_nonptr {p id : Nat} (hnp : ∀ e, ts.get id ≠ .ptr e) : StabTy ts a trs (p+1) id =
    (match a.get id with
     | none =>
       (match ts.get id with
        | .slice e => StabTy ts a trs p e
        | .arr _ e => StabTy ts a trs p e
        | .map _ e => StabTy ts a trs p e
        | _ => True)
     | some ⟨_, _, _, k⟩ =>
       (match k with
        | .structMap fields => ∀ f ∈ fields, OmitOk ts a f ∧ StabTy ts a trs p f.ty
        | .transform fn mty _ => RetractFn trs fn ∧ StabTy ts a trs p mty
        | .union members =>
          ∀ m ∈ members, (match a.pool[m.2]? with | some me => StabTy ts a trs p me.ty | none => True)
        | _ => True)) := by
  rw [StabTy]
  cases hd : ts.get id with
  | ptr e => exact absurd hd (hnp e)
  | _ => rfl

/-- less fuel asks less -/
theorem stabTy_anti : ∀ (q p id : Nat), p ≤ q → StabTy ts a trs q id → StabTy ts a trs p id := by
  intro q
  induction q with
  | zero => intro p id hp h; obtain rfl : p = 0 := by omega
            exact h
  | succ q ih =>
    intro p id hp h
    cases p with
    | zero => simp [StabTy]
    | succ p =>
      have hpq : p ≤ q := by omega
      by_cases hptr : ∃ e, ts.get id = .ptr e
      · obtain ⟨e, hd⟩ := hptr
        rw [stabTy_ptr hd] at h ⊢
        exact ih p e hpq h
      · have hnp : ∀ e, ts.get id ≠ .ptr e := fun e he => hptr ⟨e, he⟩
        rw [stabTy_nonptr hnp] at h ⊢
        cases hg : a.get id with
        | none =>
          simp only [hg] at h ⊢
          cases hd : ts.get id <;> simp only [hd] at h ⊢ <;> first | trivial | exact ih p _ hpq h
        | some en =>
          obtain ⟨reg, ty, tag, k⟩ := en
          simp only [hg] at h ⊢
          cases k with
          | structMap fields =>
            simp only at h ⊢
            intro f hf
            exact ⟨(h f hf).1, ih p _ hpq (h f hf).2⟩
          | transform fn mty uty =>
            simp only at h ⊢
            exact ⟨h.1, ih p _ hpq h.2⟩
          | union members =>
            simp only at h ⊢
            intro m hm
            have := h m hm
            cases hme : a.pool[m.2]? with
            | none => trivial
            | some me =>
              simp only [hme] at this ⊢
              exact ih p _ hpq this
          | mapMorph mode => trivial
          | invalid => trivial

/-- `full_peel` with the stability of the base type -/
theorem stab_peel : ∀ (p k c id : Nat), fullTy ts a p id = true → StabTy ts a trs p id → p ≤ k →
    ∃ n base p', peel ts k c id = (c + n, base) ∧ fullTy ts a (p' + 1) base = true ∧ StabTy ts a trs (p' + 1) base ∧
      (∀ e, ts.get base ≠ .ptr e) ∧ chain ts n id base ∧ p' + 1 ≤ p := by
  intro p
  induction p with
  | zero => intro k c id h; simp [fullTy] at h
  | succ p ih =>
    intro k c id h hs hk
    obtain ⟨k, rfl⟩ : ∃ k', k = k' + 1 := ⟨k - 1, by omega⟩
    cases hd : ts.get id with
    | ptr e =>
      have he : fullTy ts a p e = true := by simpa [fullTy, hd] using h
      rw [stabTy_ptr hd] at hs
      obtain ⟨n, base, p', h1, h2, h2', h3, h4, h5⟩ := ih k (c + 1) e he hs (by omega)
      refine ⟨n + 1, base, p', ?_, h2, h2', h3, ⟨e, hd, h4⟩, by omega⟩
      simp [peel, hd, h1]; omega
    | _ =>
      refine ⟨0, id, p, ?_, h, hs, ?_, rfl, by omega⟩
      · simp [peel, hd]
      · simp [hd]

/-- the global hypotheses imply the stability of every type -/
theorem stabTy_of_global (hno : NoOmit a) (hret : TrRetract trs) : ∀ (p id : Nat), StabTy ts a trs p id := by
  intro p
  induction p with
  | zero => intro id; simp [StabTy]
  | succ p ih =>
    intro id
    by_cases hptr : ∃ e, ts.get id = .ptr e
    · obtain ⟨e, hd⟩ := hptr
      rw [stabTy_ptr hd]
      exact ih e
    · have hnp : ∀ e, ts.get id ≠ .ptr e := fun e he => hptr ⟨e, he⟩
      rw [stabTy_nonptr hnp]
      cases hg : a.get id with
      | none =>
        simp only
        cases hd : ts.get id <;> simp only <;> first | trivial | exact ih _
      | some en =>
        obtain ⟨reg, ty, tag, k⟩ := en
        cases k with
        | structMap fields =>
          simp only
          intro f hf
          have hof := hno _ (List.mem_of_find?_eq_some hg) fields rfl f hf
          exact ⟨fun h => by rw [hof] at h; exact absurd h (by simp), ih _⟩
        | transform fn mty uty => exact ⟨hret fn, ih _⟩
        | union members =>
          simp only
          intro m hm
          cases hme : a.pool[m.2]? with
          | none => trivial
          | some me => exact ih _
        | mapMorph mode => trivial
        | invalid => trivial

theorem tagStab_of_global (hno : NoOmit a) (hret : TrRetract trs) : TagStab ts a trs :=
  fun e _ _ _ => stabTy_of_global hno hret 64 e.ty

theorem TagStab.get (h : TagStab ts a trs) {id : Nat} {e : Entry} {tg : Int} (hg : a.get id = some e)
    (ht : e.tag = some tg) : StabTy ts a trs 64 id := by
  have hreg : e.registered = true ∧ e.ty = id := by
    have := List.find?_some hg
    simpa [Bool.and_eq_true] using this
  have := h e (List.mem_of_find?_eq_some hg) hreg.1 (by simp [ht])
  rwa [hreg.2] at this

theorem TagsOkA.get {a : Atlas} (h : TagsOkA a) {id : Nat} {e : Entry} {tg : Int} (hg : a.get id = some e)
    (ht : e.tag = some tg) : a.getByTag tg = some e := by
  have hreg : e.registered = true := by
    have := List.find?_some hg
    simp only [Bool.and_eq_true] at this
    exact this.1
  have := h e (List.mem_of_find?_eq_some hg) hreg (by simp [ht])
  simpa [taggedB, ht] using this

/-! ### a checker for `StabTy` / `TagStab` (`rfn fn = true`: the transform pair `fn` is known to be a retraction) -/

def omitOkB (ts : Types) (a : Atlas) (f : SMField) : Bool := !f.omitEmpty || plainField ts a f.ty

def stabTyB (ts : Types) (a : Atlas) (rfn : Nat → Bool) : Nat → Nat → Bool
  | 0, _ => true
  | fuel+1, id =>
    match ts.get id with
    | .ptr e => stabTyB ts a rfn fuel e
    | d =>
      match a.get id with
      | none =>
        (match d with
         | .slice e => stabTyB ts a rfn fuel e
         | .arr _ e => stabTyB ts a rfn fuel e
         | .map _ e => stabTyB ts a rfn fuel e
         | _ => true)
      | some ⟨_, _, _, k⟩ =>
        (match k with
         | .structMap fields => fields.all fun f => omitOkB ts a f && stabTyB ts a rfn fuel f.ty
         | .transform fn mty _ => rfn fn && stabTyB ts a rfn fuel mty
         | .union members =>
           members.all fun m => (match a.pool[m.2]? with | some me => stabTyB ts a rfn fuel me.ty | none => true)
         | _ => true)

def tagStabB (ts : Types) (a : Atlas) (rfn : Nat → Bool) : Bool :=
  a.pool.all fun e => !(e.registered && e.tag.isSome) || stabTyB ts a rfn 64 e.ty

theorem stabTy_of_check {rfn : Nat → Bool} (hr : ∀ fn, rfn fn = true → RetractFn trs fn) :
    ∀ (p id : Nat), stabTyB ts a rfn p id = true → StabTy ts a trs p id := by
  intro p
  induction p with
  | zero => intro id _; simp [StabTy]
  | succ p ih =>
    intro id h
    rw [stabTyB] at h
    by_cases hptr : ∃ e, ts.get id = .ptr e
    · obtain ⟨e, hd⟩ := hptr
      rw [stabTy_ptr hd]
      simp only [hd] at h
      exact ih e h
    · have hnp : ∀ e, ts.get id ≠ .ptr e := fun e he => hptr ⟨e, he⟩
      rw [stabTy_nonptr hnp]
      have h' : (match a.get id with
          | none =>
            (match ts.get id with
             | .slice e => stabTyB ts a rfn p e
             | .arr _ e => stabTyB ts a rfn p e
             | .map _ e => stabTyB ts a rfn p e
             | _ => true)
          | some ⟨_, _, _, k⟩ =>
            (match k with
             | .structMap fields => fields.all fun f => omitOkB ts a f && stabTyB ts a rfn p f.ty
             | .transform fn mty _ => rfn fn && stabTyB ts a rfn p mty
             | .union members =>
               members.all fun m => (match a.pool[m.2]? with | some me => stabTyB ts a rfn p me.ty | none => true)
             | _ => true)) = true := by
        cases hd : ts.get id with
        | ptr e => exact absurd hd (hnp e)
        | _ => simpa [hd] using h
      cases hg : a.get id with
      | none =>
        simp only [hg] at h' ⊢
        cases hd : ts.get id <;> simp only [hd] at h' ⊢ <;> first | trivial | exact ih _ h'
      | some en =>
        obtain ⟨reg, ty, tag, k⟩ := en
        simp only [hg] at h' ⊢
        cases k with
        | structMap fields =>
          simp only [List.all_eq_true, Bool.and_eq_true] at h' ⊢
          intro f hf
          refine ⟨fun ho => ?_, ih _ (h' f hf).2⟩
          have := (h' f hf).1
          simpa [omitOkB, ho] using this
        | transform fn mty uty =>
          simp only [Bool.and_eq_true] at h' ⊢
          exact ⟨hr fn h'.1, ih _ h'.2⟩
        | union members =>
          simp only [List.all_eq_true] at h' ⊢
          intro m hm
          have := h' m hm
          cases hme : a.pool[m.2]? with
          | none => trivial
          | some me =>
            simp only [hme] at this ⊢
            exact ih _ this
        | mapMorph mode => trivial
        | invalid => trivial

theorem tagStab_of_check {rfn : Nat → Bool} (hr : ∀ fn, rfn fn = true → RetractFn trs fn)
    (h : tagStabB ts a rfn = true) : TagStab ts a trs := by
  intro e he hreg htag
  have := List.all_eq_true.mp h e he
  simp only [hreg, htag, Bool.and_self, Bool.not_true, Bool.false_or] at this
  exact stabTy_of_check hr 64 e.ty this

/-! ### the untyped pass on arrays and maps (`UP_arr`, `UP_map` with tags allowed inside) -/

theorem UPT_arr (he : UEnv ts a it) (N : Nat) (l : Int) (items : List Item)
    (h : ∀ i ∈ items, UPT ts a trs it N i.tk i.u i.tk2) :
    UPT ts a trs it (N + items.length + 6)
      (⟨.arrOpen l, none⟩ :: (items.flatMap (·.tk) ++ [⟨.arrClose, none⟩]))
      (.iface (some (it.sliceI, .slice (some (items.map (·.u))))))
      (⟨.arrOpen items.length, none⟩ :: (items.flatMap (·.tk2) ++ [⟨.arrClose, none⟩])) := by
  refine ⟨⟨_, _, _, _, rfl, rfl, id, by simp, by simp, by simp, by simp, by simp [SameOpen], Or.inr ⟨by simp, by simp⟩⟩,
    fun F hF => ⟨fun rest => ?_, ?_⟩⟩
  · obtain ⟨F, rfl⟩ : ∃ F', F = F' + 4 := ⟨F - 4, by omega⟩
    have hr := rd_elems (ts := ts) (a := a) (trs := trs) (it := it) (·.tk) (·.u) it.iface N items
      (fun i hi => ⟨(h i hi).1.head1, fun F hF => ((h i hi).2 F hF).1⟩) F (by omega) none [] rest (by simp)
    have e1 : (⟨.arrOpen l, none⟩ :: (items.flatMap (·.tk) ++ [⟨.arrClose, none⟩])) ++ rest =
        ⟨.arrOpen l, none⟩ :: (items.flatMap (·.tk) ++ ⟨.arrClose, none⟩ :: rest) := by simp
    rw [e1, uV_iface trs he, uW_arr, hr]
    simp
  · obtain ⟨F, rfl⟩ : ∃ F', F = F' + 4 := ⟨F - 4, by omega⟩
    have hm := m_list (ts := ts) (a := a) (trs := trs) (·.u) (·.tk2) it.iface N items
      (fun i hi F hF => ((h i hi).2 F hF).2) F (by omega)
    rw [mV_some trs he, mV_slice trs he, hm]
    simp [MOut.seq, MOut.ok]

theorem UPT_map (he : UEnv ts a it) (N : Nat) (l : Int) (kitems : List (Bytes × Item))
    (hnd : (kitems.map (·.1)).Nodup) (h : ∀ p ∈ kitems, UPT ts a trs it N p.2.tk p.2.u p.2.tk2) :
    UPT ts a trs it (N + kitems.length + 6)
      (⟨.mapOpen l, none⟩ :: (kitems.flatMap (fun p => ⟨.str p.1, none⟩ :: p.2.tk) ++ [⟨.mapClose, none⟩]))
      (.iface (some (it.mapSI, .map (some (kitems.map fun p => (Val.str p.1, p.2.u))))))
      (⟨.mapOpen kitems.length, none⟩ ::
        ((sortI a.defaultSort kitems).flatMap (fun p => ⟨.str p.1, none⟩ :: p.2.tk2) ++ [⟨.mapClose, none⟩])) := by
  refine ⟨⟨_, _, _, _, rfl, rfl, id, by simp, by simp, by simp, by simp, by simp [SameOpen], Or.inr ⟨by simp, by simp⟩⟩,
    fun F hF => ⟨fun rest => ?_, ?_⟩⟩
  · obtain ⟨F, rfl⟩ : ∃ F', F = F' + 4 := ⟨F - 4, by omega⟩
    have hr := rd_entries (ts := ts) (a := a) (trs := trs) (it := it) (·.1) (·.2.tk) (·.2.u) it.iface N kitems
      (fun p hp F hF => ((h p hp).2 F hF).1) hnd F (by omega) [] rest (by intro x _; simp [hasKey])
    have e1 : (⟨.mapOpen l, none⟩ :: (kitems.flatMap (fun p => ⟨.str p.1, none⟩ :: p.2.tk) ++ [⟨.mapClose, none⟩])) ++ rest =
        ⟨.mapOpen l, none⟩ :: (kitems.flatMap (fun p => ⟨.str p.1, none⟩ :: p.2.tk) ++ ⟨.mapClose, none⟩ :: rest) := by simp
    rw [e1, uV_iface trs he, uW_map trs he, hr]
    simp
  · obtain ⟨F, rfl⟩ : ∃ F', F = F' + 4 := ⟨F - 4, by omega⟩
    have hlen : (sortI a.defaultSort kitems).length = kitems.length := (sortI_perm _ _).length_eq
    have hm := m_entries (ts := ts) (a := a) (trs := trs) (·.1) (·.2.u) (·.2.tk2) it.iface N (sortI a.defaultSort kitems)
      (fun p hp F hF => ((h p ((sortI_perm _ _).mem_iff.mp hp)).2 F hF).2) F (by omega)
    rw [mV_some trs he, mV_map trs he F _ (by
      intro p hp
      simp only [List.mem_map] at hp
      obtain ⟨q, _, rfl⟩ := hp
      exact ⟨_, rfl⟩)]
    have e2 : ((kitems.map fun p => (Val.str p.1, p.2.u)).map fun p => (keyOf p.1, p.2)) =
        kitems.map fun p => (p.1, (fun (i : Item) => i.u) p.2) := by
      simp [List.map_map, Function.comp_def, keyOf]
    rw [e2, sortKeys_map_sortI, hm]
    simp [MOut.seq, MOut.ok]

end Refmt.Obj
