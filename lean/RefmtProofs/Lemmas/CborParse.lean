import RefmtModel
set_option linter.unusedSimpArgs false
set_option linter.unusedVariables false
namespace Refmt.C04
open Refmt Refmt.Spec.Cbor

/-- `r` is what is left of `bs` after consuming at least `n` bytes. -/
def Rest (bs r : Bytes) (n : Nat) : Prop := r <:+ bs ∧ r.length + n ≤ bs.length

theorem Rest.refl (bs : Bytes) : Rest bs bs 0 := ⟨List.suffix_refl _, by simp⟩

theorem Rest.trans {a b c : Bytes} {n m : Nat} (h1 : Rest a b n) (h2 : Rest b c m) : Rest a c (n + m) :=
  ⟨h2.1.trans h1.1, by have := h1.2; have := h2.2; omega⟩

theorem Rest.weaken {a b : Bytes} {n m : Nat} (h1 : Rest a b n) (h : m ≤ n) : Rest a b m :=
  ⟨h1.1, by have := h1.2; omega⟩

theorem Rest.cons {b : Nat} {a c : Bytes} {n : Nat} (h : Rest a c n) : Rest (b :: a) c (n + 1) :=
  ⟨h.1.trans (List.suffix_cons _ _), by have := h.2; simp; omega⟩

theorem Rest.drop (bs : Bytes) (n : Nat) (h : n ≤ bs.length) : Rest bs (bs.drop n) n :=
  ⟨List.drop_suffix _ _, by simp; omega⟩

theorem arg_rest (ai : Nat) (bs : Bytes) (n : Nat) (r : Bytes) (h : arg ai bs = some (n, r)) : Rest bs r 0 := by
  unfold arg at h
  split at h
  · simp at h; rw [← h.2]; exact Rest.refl _
  split at h
  · split at h
    · simp at h; rw [← h.2]; exact (Rest.refl _).cons.weaken (by omega)
    · simp at h
  split at h
  · split at h
    · simp at h; rw [← h.2]; exact (Rest.drop _ _ (by omega)).weaken (by omega)
    · simp at h
  split at h
  · split at h
    · simp at h; rw [← h.2]; exact (Rest.drop _ _ (by omega)).weaken (by omega)
    · simp at h
  split at h
  · split at h
    · simp at h; rw [← h.2]; exact (Rest.drop _ _ (by omega)).weaken (by omega)
    · simp at h
  · simp at h

theorem chunks_rest (major : Nat) : ∀ (f : Nat) (bs acc s r : Bytes),
    chunks major f bs acc = some (s, r) → Rest bs r 1
  | 0, bs, acc, s, r, h => by simp [chunks] at h
  | f+1, [], acc, s, r, h => by simp [chunks] at h
  | f+1, b :: t, acc, s, r, h => by
    simp only [chunks] at h
    split at h
    · simp at h; rw [← h.2]; exact (Rest.refl _).cons
    split at h
    · simp at h
    split at h
    · simp at h
    · rename_i n r' ha
      split at h
      · simp at h
      · rename_i hc
        simp only [Bool.or_eq_true, decide_eq_true_eq, not_or, Nat.not_lt] at hc
        have h1 := arg_rest _ _ _ _ ha
        have h2 := chunks_rest major f _ _ _ _ h
        have h3 := Rest.drop r' n hc.2
        exact ((h1.trans h3).trans h2).cons.weaken (by omega)


/-! ### The head of an item, separated from the recursion -/

inductive Head
  | scalar (b : Body) (r : Bytes)
  | arrI (r : Bytes)
  | mapI (r : Bytes)
  | arrD (n : Nat) (r : Bytes)
  | mapD (n : Nat) (r : Bytes)
  | tag (n : Nat) (r : Bytes)

def Head.rest : Head → Bytes
  | .scalar _ r => r
  | .arrI r => r
  | .mapI r => r
  | .arrD _ r => r
  | .mapD _ r => r
  | .tag _ r => r

/-- The non-recursive part of `parseItem`: decode the head (and, for scalars, the payload). -/
def headOf (coerce : Bool) : Bytes → Option Head
  | [] => none
  | b :: r =>
    let mt := b / 32
    let ai := b % 32
    if mt == 7 then
      if b == 0xf4 then some (.scalar (.bool false) r)
      else if b == 0xf5 then some (.scalar (.bool true) r)
      else if b == 0xf6 then some (.scalar .null r)
      else if b == 0xf7 then (if coerce then some (.scalar .null r) else none)
      else if b == 0xf9 then (if r.length ≥ 2 then some (.scalar (.float (halfToF64 (beVal (r.take 2)))) (r.drop 2)) else none)
      else if b == 0xfa then (if r.length ≥ 4 then some (.scalar (.float (f32to64 (beVal (r.take 4)))) (r.drop 4)) else none)
      else if b == 0xfb then (if r.length ≥ 8 then some (.scalar (.float (beVal (r.take 8))) (r.drop 8)) else none)
      else none
    else if ai == 31 then
      if mt == 2 then (chunks 0x40 (r.length + 1) r []).map fun (s, r') => .scalar (.bytes s) r'
      else if mt == 3 then (chunks 0x60 (r.length + 1) r []).map fun (s, r') => .scalar (.str s) r'
      else if mt == 4 then some (.arrI r)
      else if mt == 5 then some (.mapI r)
      else none
    else
      match arg ai r with
      | none => none
      | some (n, r') =>
        if mt == 0 then some (.scalar (.uint n) r')
        else if mt == 1 then (if n < two63 then some (.scalar (.int (-1 - (n : Int))) r') else none)
        else if mt == 2 then
          (if n > maxInt || n > cap32M || r'.length < n then none else some (.scalar (.bytes (r'.take n)) (r'.drop n)))
        else if mt == 3 then
          (if n > maxInt || n > cap32M || r'.length < n then none else some (.scalar (.str (r'.take n)) (r'.drop n)))
        else if mt == 4 then (if n > maxInt then none else some (.arrD n r'))
        else if mt == 5 then (if n > maxInt then none else some (.mapD n r'))
        else (if n > maxInt then none else some (.tag n r'))

/-- `parseItem` in terms of `headOf`. -/
def itemOf (coerce : Bool) (f : Nat) (tag : Option Int) : Option Head → Option (TV × Bytes)
  | none => none
  | some (.scalar b r) => some (.scalar ⟨b, tag⟩, r)
  | some (.arrI r) => (parseUntilBreak coerce f r).map fun (vs, r') => (.arr tag (-1) vs, r')
  | some (.mapI r) => (parseEntriesUntilBreak coerce f r).map fun (es, r') => (.map tag (-1) es, r')
  | some (.arrD n r) => (parseN coerce f n r).map fun (vs, r') => (.arr tag n vs, r')
  | some (.mapD n r) => (parseEntriesN coerce f n r).map fun (es, r') => (.map tag n es, r')
  | some (.tag n r) =>
    match tag with
    | some _ => none
    | none => parseItem coerce f r (some (n : Int))

theorem parseItem_eq (coerce : Bool) (f : Nat) (bs : Bytes) (tag : Option Int) :
    parseItem coerce (f+1) bs tag = itemOf coerce f tag (headOf coerce bs) := by
  cases bs with
  | nil => simp [parseItem, headOf, itemOf]
  | cons b r =>
    simp only [parseItem, headOf]
    by_cases h7 : (b / 32 == 7) = true
    · rw [if_pos h7, if_pos h7]
      repeat' split
      all_goals rfl
    rw [if_neg h7, if_neg h7]
    by_cases h31 : (b % 32 == 31) = true
    · rw [if_pos h31, if_pos h31]
      repeat' split
      all_goals first | rfl | (cases chunks _ (r.length + 1) r [] <;> rfl)
    · rw [if_neg h31, if_neg h31]
      cases arg (b % 32) r with
      | none => rfl
      | some p =>
        obtain ⟨n, r'⟩ := p
        dsimp only
        repeat' split
        all_goals first | rfl | simp [itemOf]

theorem headOf_rest (coerce : Bool) (bs : Bytes) (h : Head) (hh : headOf coerce bs = some h) :
    Rest bs h.rest 1 := by
  cases bs with
  | nil => simp [headOf] at hh
  | cons b r =>
    simp only [headOf] at hh
    by_cases h7 : (b / 32 == 7) = true
    · rw [if_pos h7] at hh
      repeat' split at hh
      all_goals first
        | (simp at hh; done)
        | (simp at hh; subst hh; simp only [Head.rest]; exact (Rest.refl _).cons)
        | (simp at hh; subst hh; simp only [Head.rest]; exact (Rest.drop _ _ (by omega)).cons.weaken (by omega))
    rw [if_neg h7] at hh
    by_cases h31 : (b % 32 == 31) = true
    · rw [if_pos h31] at hh
      repeat' split at hh
      all_goals first
        | (simp at hh; done)
        | (simp at hh; subst hh; simp only [Head.rest]; exact (Rest.refl _).cons)
        | (simp only [Option.map_eq_some_iff] at hh
           obtain ⟨⟨s, r'⟩, hc, hh⟩ := hh
           subst hh; simp only [Head.rest]
           exact (chunks_rest _ _ _ _ _ _ hc).cons.weaken (by omega))
    · rw [if_neg h31] at hh
      cases ha : arg (b % 32) r with
      | none => rw [ha] at hh; simp at hh
      | some p =>
        obtain ⟨n, r'⟩ := p
        rw [ha] at hh
        dsimp only at hh
        have h1 := arg_rest _ _ _ _ ha
        repeat' split at hh
        all_goals first
          | (simp at hh; done)
          | (simp at hh; subst hh; simp only [Head.rest]; exact h1.cons)
          | (rename_i hc
             simp only [Bool.or_eq_true, decide_eq_true_eq, not_or, Nat.not_lt] at hc
             simp at hh; subst hh; simp only [Head.rest]
             exact (h1.trans (Rest.drop r' n hc.2)).cons.weaken (by omega))

def Shape (coerce : Bool) (f : Nat) : Prop :=
  (∀ bs tag v r, parseItem coerce f bs tag = some (v, r) → Rest bs r 1 ∧ v.flatten.length + 2 * r.length ≤ 2 * bs.length) ∧
  (∀ k bs vs r, parseN coerce f k bs = some (vs, r) → Rest bs r 0 ∧ (TV.flattenList vs).length + 2 * r.length ≤ 2 * bs.length) ∧
  (∀ k bs es r, parseEntriesN coerce f k bs = some (es, r) → Rest bs r 0 ∧ (TV.flattenEntries es).length + 2 * r.length ≤ 2 * bs.length) ∧
  (∀ bs vs r, parseUntilBreak coerce f bs = some (vs, r) → Rest bs r 1 ∧ (TV.flattenList vs).length + 2 + 2 * r.length ≤ 2 * bs.length) ∧
  (∀ bs es r, parseEntriesUntilBreak coerce f bs = some (es, r) → Rest bs r 1 ∧ (TV.flattenEntries es).length + 2 + 2 * r.length ≤ 2 * bs.length)

theorem map_some {α β : Type} {o : Option α} {g : α → β} {b : β} (h : o.map g = some b) :
    ∃ a, o = some a ∧ g a = b := by
  cases o with
  | none => simp at h
  | some a => exact ⟨a, rfl, by simpa using h⟩

theorem shape (coerce : Bool) : ∀ f, Shape coerce f := by
  intro f
  induction f with
  | zero =>
    refine ⟨?_, ?_, ?_, ?_, ?_⟩
    · intro bs tag v r h; simp [parseItem] at h
    · intro k bs vs r h; simp [parseN] at h
    · intro k bs vs r h; simp [parseEntriesN] at h
    · intro bs vs r h; simp [parseUntilBreak] at h
    · intro bs vs r h; simp [parseEntriesUntilBreak] at h
  | succ f ih =>
    obtain ⟨ihI, ihN, ihEN, ihUB, ihEUB⟩ := ih
    refine ⟨?_, ?_, ?_, ?_, ?_⟩
    · intro bs tag v r h
      rw [parseItem_eq] at h
      cases hh : headOf coerce bs with
      | none => rw [hh] at h; simp [itemOf] at h
      | some hd =>
        rw [hh] at h
        have h1 := headOf_rest _ _ _ hh
        cases hd with
        | scalar b r0 =>
          simp only [itemOf, Option.some.injEq, Prod.mk.injEq] at h
          obtain ⟨rfl, rfl⟩ := h
          simp only [Head.rest] at h1
          refine ⟨h1, ?_⟩
          have := h1.2
          simp [TV.flatten]; omega
        | arrI r0 =>
          simp only [itemOf] at h
          obtain ⟨⟨vs, r'⟩, hp, he⟩ := map_some h
          simp only [Prod.mk.injEq] at he
          obtain ⟨rfl, rfl⟩ := he
          simp only [Head.rest] at h1
          have h2 := ihUB _ _ _ hp
          refine ⟨(h1.trans h2.1).weaken (by omega), ?_⟩
          have := h1.2; have := h2.2
          simp [TV.flatten]; omega
        | mapI r0 =>
          simp only [itemOf] at h
          obtain ⟨⟨vs, r'⟩, hp, he⟩ := map_some h
          simp only [Prod.mk.injEq] at he
          obtain ⟨rfl, rfl⟩ := he
          simp only [Head.rest] at h1
          have h2 := ihEUB _ _ _ hp
          refine ⟨(h1.trans h2.1).weaken (by omega), ?_⟩
          have := h1.2; have := h2.2
          simp [TV.flatten]; omega
        | arrD n r0 =>
          simp only [itemOf] at h
          obtain ⟨⟨vs, r'⟩, hp, he⟩ := map_some h
          simp only [Prod.mk.injEq] at he
          obtain ⟨rfl, rfl⟩ := he
          simp only [Head.rest] at h1
          have h2 := ihN _ _ _ _ hp
          refine ⟨(h1.trans h2.1).weaken (by omega), ?_⟩
          have := h1.2; have := h2.2
          simp [TV.flatten]; omega
        | mapD n r0 =>
          simp only [itemOf] at h
          obtain ⟨⟨vs, r'⟩, hp, he⟩ := map_some h
          simp only [Prod.mk.injEq] at he
          obtain ⟨rfl, rfl⟩ := he
          simp only [Head.rest] at h1
          have h2 := ihEN _ _ _ _ hp
          refine ⟨(h1.trans h2.1).weaken (by omega), ?_⟩
          have := h1.2; have := h2.2
          simp [TV.flatten]; omega
        | tag n r0 =>
          simp only [itemOf] at h
          cases tag with
          | some t => simp at h
          | none =>
            dsimp only at h
            simp only [Head.rest] at h1
            have h2 := ihI _ _ _ _ h
            refine ⟨(h1.trans h2.1).weaken (by omega), ?_⟩
            have := h1.2; have := h2.2
            omega
    · intro k bs vs r h
      cases k with
      | zero => simp [parseN] at h; obtain ⟨rfl, rfl⟩ := h; exact ⟨Rest.refl _, by simp [TV.flattenList]⟩
      | succ k =>
        simp only [parseN] at h
        split at h
        · simp at h
        · rename_i v r1 hi
          obtain ⟨⟨vs', r'⟩, hp, he⟩ := map_some h
          simp only [Prod.mk.injEq] at he
          obtain ⟨rfl, rfl⟩ := he
          have h1 := ihI _ _ _ _ hi
          have h2 := ihN _ _ _ _ hp
          refine ⟨(h1.1.trans h2.1).weaken (by omega), ?_⟩
          have := h1.2; have := h2.2
          simp [TV.flattenList]; omega
    · intro k bs es r h
      cases k with
      | zero => simp [parseEntriesN] at h; obtain ⟨rfl, rfl⟩ := h; exact ⟨Rest.refl _, by simp [TV.flattenEntries]⟩
      | succ k =>
        simp only [parseEntriesN] at h
        split at h
        · simp at h
        · rename_i key r1 hi
          split at h
          · simp at h
          · rename_i v r2 hi2
            obtain ⟨⟨es', r'⟩, hp, he⟩ := map_some h
            simp only [Prod.mk.injEq] at he
            obtain ⟨rfl, rfl⟩ := he
            have h1 := ihI _ _ _ _ hi
            have h1' := ihI _ _ _ _ hi2
            have h2 := ihEN _ _ _ _ hp
            refine ⟨((h1.1.trans h1'.1).trans h2.1).weaken (by omega), ?_⟩
            have := h1.2; have := h2.2; have := h1'.2
            simp [TV.flattenEntries]; omega
    · intro bs vs r h
      simp only [parseUntilBreak] at h
      split at h
      · simp at h; obtain ⟨rfl, rfl⟩ := h; exact ⟨(Rest.refl _).cons, by simp [TV.flattenList]; omega⟩
      · split at h
        · simp at h
        · rename_i v r1 hi
          obtain ⟨⟨vs', r'⟩, hp, he⟩ := map_some h
          simp only [Prod.mk.injEq] at he
          obtain ⟨rfl, rfl⟩ := he
          have h1 := ihI _ _ _ _ hi
          have h2 := ihUB _ _ _ hp
          refine ⟨(h1.1.trans h2.1).weaken (by omega), ?_⟩
          have := h1.2; have := h2.2
          simp [TV.flattenList]; omega
    · intro bs es r h
      simp only [parseEntriesUntilBreak] at h
      split at h
      · simp at h; obtain ⟨rfl, rfl⟩ := h; exact ⟨(Rest.refl _).cons, by simp [TV.flattenEntries]; omega⟩
      · split at h
        · simp at h
        · rename_i key r1 hi
          split at h
          · simp at h
          · rename_i v r2 hi2
            obtain ⟨⟨es', r'⟩, hp, he⟩ := map_some h
            simp only [Prod.mk.injEq] at he
            obtain ⟨rfl, rfl⟩ := he
            have h1 := ihI _ _ _ _ hi
            have h1' := ihI _ _ _ _ hi2
            have h2 := ihEUB _ _ _ hp
            refine ⟨((h1.1.trans h1'.1).trans h2.1).weaken (by omega), ?_⟩
            have := h1.2; have := h2.2; have := h1'.2
            simp [TV.flattenEntries]; omega

theorem parse_consumes' (coerce : Bool) (bs : Bytes) (v : TV) (rest : Bytes)
    (h : parse coerce bs = some (v, rest)) : ∃ used, bs = used ++ rest ∧ used ≠ [] := by
  have h1 := ((shape coerce _).1 _ _ _ _ h).1
  obtain ⟨used, hu⟩ := h1.1
  refine ⟨used, hu.symm, ?_⟩
  intro he; subst he
  have := h1.2
  simp at hu; subst hu; omega

theorem arg_ext (ai : Nat) (bs x : Bytes) (n : Nat) (r : Bytes) (h : arg ai bs = some (n, r)) :
    arg ai (bs ++ x) = some (n, r ++ x) := by
  unfold arg at h ⊢
  split
  · rw [if_pos (by assumption)] at h; simp at h; simp [h]
  rw [if_neg (by assumption)] at h
  split
  · rw [if_pos (by assumption)] at h
    cases bs with
    | nil => simp at h
    | cons b t => simp at h; simp [h]
  rw [if_neg (by assumption)] at h
  split
  · rw [if_pos (by assumption)] at h
    split at h
    · rename_i hl
      simp at h
      have : (bs ++ x).length ≥ 2 := by simp; omega
      rw [if_pos this]
      simp [List.take_append_of_le_length hl, List.drop_append_of_le_length hl, h]
    · simp at h
  rw [if_neg (by assumption)] at h
  split
  · rw [if_pos (by assumption)] at h
    split at h
    · rename_i hl
      simp at h
      have : (bs ++ x).length ≥ 4 := by simp; omega
      rw [if_pos this]
      simp [List.take_append_of_le_length hl, List.drop_append_of_le_length hl, h]
    · simp at h
  rw [if_neg (by assumption)] at h
  split
  · rw [if_pos (by assumption)] at h
    split at h
    · rename_i hl
      simp at h
      have : (bs ++ x).length ≥ 8 := by simp; omega
      rw [if_pos this]
      simp [List.take_append_of_le_length hl, List.drop_append_of_le_length hl, h]
    · simp at h
  rw [if_neg (by assumption)] at h
  simp at h

theorem chunks_mono (major : Nat) : ∀ (f : Nat) (bs acc s r : Bytes),
    chunks major f bs acc = some (s, r) → chunks major (f+1) bs acc = some (s, r)
  | 0, bs, acc, s, r, h => by simp [chunks] at h
  | f+1, [], acc, s, r, h => by simp [chunks] at h
  | f+1, b :: t, acc, s, r, h => by
    rw [chunks] at h ⊢
    split
    · rw [if_pos (by assumption)] at h; exact h
    rw [if_neg (by assumption)] at h
    split
    · rw [if_pos (by assumption)] at h; exact h
    rw [if_neg (by assumption)] at h
    cases ha : arg (b % 32) t with
    | none => rw [ha] at h; simp at h
    | some p =>
      obtain ⟨n, r'⟩ := p
      rw [ha] at h
      dsimp only at h ⊢
      split
      · rw [if_pos (by assumption)] at h; exact h
      · rw [if_neg (by assumption)] at h
        exact chunks_mono major f _ _ _ _ h

theorem chunks_mono' (major : Nat) (f d : Nat) (bs acc s r : Bytes)
    (h : chunks major f bs acc = some (s, r)) : chunks major (f+d) bs acc = some (s, r) := by
  induction d with
  | zero => exact h
  | succ d ih => exact chunks_mono _ _ _ _ _ _ ih

theorem chunks_ext (major : Nat) (x : Bytes) : ∀ (f : Nat) (bs acc s r : Bytes),
    chunks major f bs acc = some (s, r) → chunks major f (bs ++ x) acc = some (s, r ++ x)
  | 0, bs, acc, s, r, h => by simp [chunks] at h
  | f+1, [], acc, s, r, h => by simp [chunks] at h
  | f+1, b :: t, acc, s, r, h => by
    rw [List.cons_append]
    rw [chunks] at h ⊢
    split
    · rw [if_pos (by assumption)] at h; simp at h; simp [h]
    rw [if_neg (by assumption)] at h
    split
    · rw [if_pos (by assumption)] at h; simp at h
    rw [if_neg (by assumption)] at h
    cases ha : arg (b % 32) t with
    | none => rw [ha] at h; simp at h
    | some p =>
      obtain ⟨n, r'⟩ := p
      rw [ha] at h
      rw [arg_ext _ _ x _ _ ha]
      dsimp only at h ⊢
      split at h
      · simp at h
      · rename_i hc
        simp only [Bool.or_eq_true, decide_eq_true_eq, not_or, Nat.not_lt] at hc
        have hc' : ¬ ((decide (n > maxInt) || decide (n > cap32M) || decide ((r' ++ x).length < n)) = true) := by
          simp only [Bool.or_eq_true, decide_eq_true_eq, not_or, Nat.not_lt, List.length_append]
          omega
        rw [if_neg hc']
        rw [List.take_append_of_le_length hc.2, List.drop_append_of_le_length hc.2]
        exact chunks_ext major x f _ _ _ _ h

def Head.ext (x : Bytes) : Head → Head
  | .scalar b r => .scalar b (r ++ x)
  | .arrI r => .arrI (r ++ x)
  | .mapI r => .mapI (r ++ x)
  | .arrD n r => .arrD n (r ++ x)
  | .mapD n r => .mapD n (r ++ x)
  | .tag n r => .tag n (r ++ x)

theorem headOf_ext (coerce : Bool) (bs x : Bytes) (h : Head) (hh : headOf coerce bs = some h) :
    headOf coerce (bs ++ x) = some (h.ext x) := by
  cases bs with
  | nil => simp [headOf] at hh
  | cons b r =>
    rw [List.cons_append]
    simp only [headOf] at hh ⊢
    by_cases h7 : (b / 32 == 7) = true
    · rw [if_pos h7] at hh ⊢
      repeat' split at hh
      all_goals first
        | (simp at hh; done)
        | (simp at hh; subst hh; simp [*, Head.ext]; done)
        | (rename_i hl
           simp at hh; subst hh
           simp [*, Head.ext, List.take_append_of_le_length hl, List.drop_append_of_le_length hl]
           omega)
    rw [if_neg h7] at hh ⊢
    by_cases h31 : (b % 32 == 31) = true
    · rw [if_pos h31] at hh ⊢
      repeat' split at hh
      all_goals first
        | (simp at hh; done)
        | (simp at hh; subst hh; simp [*, Head.ext]; done)
        | (obtain ⟨⟨s, r'⟩, hc, hh⟩ := map_some hh
           subst hh
           have h2 := chunks_ext _ x _ _ _ _ _ hc
           have h3 := chunks_mono' _ _ x.length _ _ _ _ h2
           have he : r.length + 1 + x.length = r.length + x.length + 1 := by omega
           rw [he] at h3
           simp [*, Head.ext])
    · rw [if_neg h31] at hh ⊢
      cases ha : arg (b % 32) r with
      | none => rw [ha] at hh; simp at hh
      | some p =>
        obtain ⟨n, r'⟩ := p
        rw [ha] at hh
        rw [arg_ext _ _ x _ _ ha]
        dsimp only at hh ⊢
        repeat' split at hh
        all_goals first
          | (simp at hh; done)
          | (simp at hh; subst hh; simp [*, Head.ext]; done)
          | (rename_i hc
             simp only [Bool.or_eq_true, decide_eq_true_eq, not_or, Nat.not_lt] at hc
             have hc' : ¬ ((decide (n > maxInt) || decide (n > cap32M) || decide ((r' ++ x).length < n)) = true) := by
               simp only [Bool.or_eq_true, decide_eq_true_eq, not_or, Nat.not_lt, List.length_append]
               omega
             simp at hh; subst hh
             simp only [*, Head.ext, if_true, if_false, List.take_append_of_le_length hc.2, List.drop_append_of_le_length hc.2]
             simp; done)
theorem parseUntilBreak_succ (coerce : Bool) (f : Nat) (bs : Bytes) :
    parseUntilBreak coerce (f+1) bs =
      (match bs with
      | 0xff :: r => some ([], r)
      | _ =>
        match parseItem coerce f bs none with
        | none => none
        | some (v, r) => (parseUntilBreak coerce f r).map fun (vs, r') => (v :: vs, r')) := by
  first | (simp only [parseUntilBreak]; done) | (simp only [parseUntilBreak]; rfl)

theorem parseEntriesUntilBreak_succ (coerce : Bool) (f : Nat) (bs : Bytes) :
    parseEntriesUntilBreak coerce (f+1) bs =
      (match bs with
      | 0xff :: r => some ([], r)
      | _ =>
        match parseItem coerce f bs none with
        | none => none
        | some (key, r) =>
          match parseItem coerce f r none with
          | none => none
          | some (v, r') => (parseEntriesUntilBreak coerce f r').map fun (es, r'') => ((key, v) :: es, r'')) := by
  first | (simp only [parseEntriesUntilBreak]; done) | (simp only [parseEntriesUntilBreak]; rfl)

theorem parseN_succ (coerce : Bool) (f k : Nat) (bs : Bytes) :
    parseN coerce (f+1) (k+1) bs =
      (match parseItem coerce f bs none with
      | none => none
      | some (v, r) => (parseN coerce f k r).map fun (vs, r') => (v :: vs, r')) := by
  first | (simp only [parseN]; done) | (simp only [parseN]; rfl)

theorem parseN_zero (coerce : Bool) (f : Nat) (bs : Bytes) :
    parseN coerce (f+1) 0 bs = some ([], bs) := by
  first | (simp only [parseN]; done) | (simp only [parseN]; rfl)

theorem parseEntriesN_succ (coerce : Bool) (f k : Nat) (bs : Bytes) :
    parseEntriesN coerce (f+1) (k+1) bs =
      (match parseItem coerce f bs none with
      | none => none
      | some (key, r) =>
        match parseItem coerce f r none with
        | none => none
        | some (v, r') => (parseEntriesN coerce f k r').map fun (es, r'') => ((key, v) :: es, r'')) := by
  first | (simp only [parseEntriesN]; done) | (simp only [parseEntriesN]; rfl)

theorem parseEntriesN_zero (coerce : Bool) (f : Nat) (bs : Bytes) :
    parseEntriesN coerce (f+1) 0 bs = some ([], bs) := by
  first | (simp only [parseEntriesN]; done) | (simp only [parseEntriesN]; rfl)
theorem UB_break (coerce : Bool) (f : Nat) (r : Bytes) :
    parseUntilBreak coerce (f+1) (0xff :: r) = some ([], r) := by
  rw [parseUntilBreak_succ]; rfl

theorem UB_nobreak (coerce : Bool) (f : Nat) (bs : Bytes) (hnb : ∀ r, bs ≠ 0xff :: r) :
    parseUntilBreak coerce (f+1) bs =
        match parseItem coerce f bs none with
        | none => none
        | some (v, r) => (parseUntilBreak coerce f r).map fun (vs, r') => (v :: vs, r') := by
  rw [parseUntilBreak_succ]
  split
  · rename_i r; exact absurd rfl (hnb r)
  · rfl

theorem EUB_break (coerce : Bool) (f : Nat) (r : Bytes) :
    parseEntriesUntilBreak coerce (f+1) (0xff :: r) = some ([], r) := by
  rw [parseEntriesUntilBreak_succ]; rfl

theorem EUB_nobreak (coerce : Bool) (f : Nat) (bs : Bytes) (hnb : ∀ r, bs ≠ 0xff :: r) :
    parseEntriesUntilBreak coerce (f+1) bs =
        match parseItem coerce f bs none with
        | none => none
        | some (key, r) =>
          match parseItem coerce f r none with
          | none => none
          | some (v, r') => (parseEntriesUntilBreak coerce f r').map fun (es, r'') => ((key, v) :: es, r'') := by
  rw [parseEntriesUntilBreak_succ]
  split
  · rename_i r; exact absurd rfl (hnb r)
  · rfl

theorem break_or (bs : Bytes) : (∃ r, bs = 0xff :: r) ∨ (∀ r, bs ≠ 0xff :: r) := by
  cases bs with
  | nil => right; intro r h; cases h
  | cons b t =>
    by_cases hb : b = 0xff
    · left; exact ⟨t, by rw [hb]⟩
    · right; intro r h; simp at h; exact hb h.1
/-- fuel monotonicity of successful parses -/
def Mono (coerce : Bool) (f : Nat) : Prop :=
  (∀ bs tag p, parseItem coerce f bs tag = some p → parseItem coerce (f+1) bs tag = some p) ∧
  (∀ k bs p, parseN coerce f k bs = some p → parseN coerce (f+1) k bs = some p) ∧
  (∀ k bs p, parseEntriesN coerce f k bs = some p → parseEntriesN coerce (f+1) k bs = some p) ∧
  (∀ bs p, parseUntilBreak coerce f bs = some p → parseUntilBreak coerce (f+1) bs = some p) ∧
  (∀ bs p, parseEntriesUntilBreak coerce f bs = some p → parseEntriesUntilBreak coerce (f+1) bs = some p)

theorem map_some' {α β : Type} {o o' : Option α} {g : α → β} {b : β} (h : o.map g = some b)
    (hm : ∀ a, o = some a → o' = some a) : o'.map g = some b := by
  cases o with
  | none => simp at h
  | some a => rw [hm a rfl]; exact h

theorem mono (coerce : Bool) : ∀ f, Mono coerce f := by
  intro f
  induction f with
  | zero =>
    refine ⟨?_, ?_, ?_, ?_, ?_⟩
    · intro bs tag p h; simp [parseItem] at h
    · intro k bs p h; simp [parseN] at h
    · intro k bs p h; simp [parseEntriesN] at h
    · intro bs p h; simp [parseUntilBreak] at h
    · intro bs p h; simp [parseEntriesUntilBreak] at h
  | succ f ih =>
    obtain ⟨ihI, ihN, ihEN, ihUB, ihEUB⟩ := ih
    refine ⟨?_, ?_, ?_, ?_, ?_⟩
    · intro bs tag p h
      rw [parseItem_eq] at h ⊢
      cases hh : headOf coerce bs with
      | none => rw [hh] at h; simp [itemOf] at h
      | some hd =>
        rw [hh] at h
        cases hd with
        | scalar b r0 => exact h
        | arrI r0 => simp only [itemOf] at h ⊢; exact map_some' h (fun a => ihUB _ a)
        | mapI r0 => simp only [itemOf] at h ⊢; exact map_some' h (fun a => ihEUB _ a)
        | arrD n r0 => simp only [itemOf] at h ⊢; exact map_some' h (fun a => ihN _ _ a)
        | mapD n r0 => simp only [itemOf] at h ⊢; exact map_some' h (fun a => ihEN _ _ a)
        | tag n r0 =>
          simp only [itemOf] at h ⊢
          cases tag with
          | some t => simp at h
          | none => exact ihI _ _ _ h
    · intro k bs p h
      cases k with
      | zero => simp [parseN] at h ⊢; exact h
      | succ k =>
        rw [parseN_succ] at h ⊢
        split at h
        · simp at h
        · rename_i v r1 hi
          rw [ihI _ _ _ hi]
          exact map_some' h (fun a => ihN _ _ a)
    · intro k bs p h
      cases k with
      | zero => simp [parseEntriesN] at h ⊢; exact h
      | succ k =>
        rw [parseEntriesN_succ] at h ⊢
        split at h
        · simp at h
        · rename_i key r1 hi
          rw [ihI _ _ _ hi]
          split at h
          · simp at h
          · rename_i v r2 hi2
            rw [ihI _ _ _ hi2]
            exact map_some' h (fun a => ihEN _ _ a)
    · intro bs p h
      rcases break_or bs with ⟨r, rfl⟩ | hnb
      · rw [UB_break] at h ⊢; exact h
      · rw [UB_nobreak _ _ _ hnb] at h ⊢
        split at h
        · simp at h
        · rename_i v r1 hi
          rw [ihI _ _ _ hi]
          exact map_some' h (fun a => ihUB _ a)
    · intro bs p h
      rcases break_or bs with ⟨r, rfl⟩ | hnb
      · rw [EUB_break] at h ⊢; exact h
      · rw [EUB_nobreak _ _ _ hnb] at h ⊢
        split at h
        · simp at h
        · rename_i key r1 hi
          rw [ihI _ _ _ hi]
          split at h
          · simp at h
          · rename_i v r2 hi2
            dsimp only
            rw [ihI _ _ _ hi2]
            exact map_some' h (fun a => ihEUB _ a)

theorem parseItem_mono (coerce : Bool) (f d : Nat) (bs : Bytes) (tag : Option Int) (p : TV × Bytes)
    (h : parseItem coerce f bs tag = some p) : parseItem coerce (f+d) bs tag = some p := by
  induction d with
  | zero => exact h
  | succ d ih => exact (mono coerce _).1 _ _ _ ih

theorem parseItem_nil (coerce : Bool) (f : Nat) (tag : Option Int) : parseItem coerce f [] tag = none := by
  cases f <;> simp [parseItem]

/-- appending bytes behind a successfully parsed input appends them to the rest -/
def Ext (coerce : Bool) (x : Bytes) (f : Nat) : Prop :=
  (∀ bs tag v r, parseItem coerce f bs tag = some (v, r) → parseItem coerce f (bs ++ x) tag = some (v, r ++ x)) ∧
  (∀ k bs v r, parseN coerce f k bs = some (v, r) → parseN coerce f k (bs ++ x) = some (v, r ++ x)) ∧
  (∀ k bs v r, parseEntriesN coerce f k bs = some (v, r) → parseEntriesN coerce f k (bs ++ x) = some (v, r ++ x)) ∧
  (∀ bs v r, parseUntilBreak coerce f bs = some (v, r) → parseUntilBreak coerce f (bs ++ x) = some (v, r ++ x)) ∧
  (∀ bs v r, parseEntriesUntilBreak coerce f bs = some (v, r) → parseEntriesUntilBreak coerce f (bs ++ x) = some (v, r ++ x))

theorem map_ext {α β : Type} {o o' : Option (α × Bytes)} {c : α → β} {v : β} {r : Bytes} (x : Bytes)
    (h : o.map (fun p => (c p.1, p.2)) = some (v, r))
    (hm : ∀ a r, o = some (a, r) → o' = some (a, r ++ x)) :
    o'.map (fun p => (c p.1, p.2)) = some (v, r ++ x) := by
  cases o with
  | none => simp at h
  | some a =>
    obtain ⟨a, r0⟩ := a
    rw [hm a r0 rfl]
    simp at h ⊢
    simp [h.1, h.2]

theorem nobreak_append (bs x : Bytes) (hne : bs ≠ []) (hnb : ∀ r, bs ≠ 0xff :: r) : ∀ r, bs ++ x ≠ 0xff :: r := by
  cases bs with
  | nil => exact absurd rfl hne
  | cons b t =>
    intro r h
    simp at h
    exact hnb t (by rw [h.1])

theorem ext (coerce : Bool) (x : Bytes) : ∀ f, Ext coerce x f := by
  intro f
  induction f with
  | zero =>
    refine ⟨?_, ?_, ?_, ?_, ?_⟩
    · intro bs tag v r h; simp [parseItem] at h
    · intro k bs v r h; simp [parseN] at h
    · intro k bs v r h; simp [parseEntriesN] at h
    · intro bs v r h; simp [parseUntilBreak] at h
    · intro bs v r h; simp [parseEntriesUntilBreak] at h
  | succ f ih =>
    obtain ⟨ihI, ihN, ihEN, ihUB, ihEUB⟩ := ih
    refine ⟨?_, ?_, ?_, ?_, ?_⟩
    · intro bs tag v r h
      rw [parseItem_eq] at h ⊢
      cases hh : headOf coerce bs with
      | none => rw [hh] at h; simp [itemOf] at h
      | some hd =>
        rw [hh] at h
        rw [headOf_ext _ _ x _ hh]
        cases hd with
        | scalar b r0 => simp only [itemOf, Head.ext] at h ⊢; simp at h ⊢; simp [h.1, h.2]
        | arrI r0 => simp only [itemOf, Head.ext] at h ⊢; exact map_ext x h (fun a r => ihUB _ a r)
        | mapI r0 => simp only [itemOf, Head.ext] at h ⊢; exact map_ext x h (fun a r => ihEUB _ a r)
        | arrD n r0 => simp only [itemOf, Head.ext] at h ⊢; exact map_ext x h (fun a r => ihN _ _ a r)
        | mapD n r0 => simp only [itemOf, Head.ext] at h ⊢; exact map_ext x h (fun a r => ihEN _ _ a r)
        | tag n r0 =>
          simp only [itemOf, Head.ext] at h ⊢
          cases tag with
          | some t => simp at h
          | none => exact ihI _ _ _ _ h
    · intro k bs v r h
      cases k with
      | zero => rw [parseN_zero] at h ⊢; simp at h ⊢; simp [h.1, h.2]
      | succ k =>
        rw [parseN_succ] at h ⊢
        split at h
        · simp at h
        · rename_i v1 r1 hi
          rw [ihI _ _ _ _ hi]
          exact map_ext x h (fun a r => ihN _ _ a r)
    · intro k bs v r h
      cases k with
      | zero => rw [parseEntriesN_zero] at h ⊢; simp at h ⊢; simp [h.1, h.2]
      | succ k =>
        rw [parseEntriesN_succ] at h ⊢
        split at h
        · simp at h
        · rename_i key r1 hi
          rw [ihI _ _ _ _ hi]
          split at h
          · simp at h
          · rename_i v2 r2 hi2
            dsimp only
            rw [ihI _ _ _ _ hi2]
            exact map_ext x h (fun a r => ihEN _ _ a r)
    · intro bs v r h
      rcases break_or bs with ⟨r0, rfl⟩ | hnb
      · rw [List.cons_append]
        rw [UB_break] at h ⊢; simp at h ⊢; simp [h.1, h.2]
      · rw [UB_nobreak _ _ _ hnb] at h
        split at h
        · simp at h
        · rename_i v1 r1 hi
          have hne : bs ≠ [] := by intro he; subst he; simp [parseItem_nil] at hi
          rw [UB_nobreak _ _ _ (nobreak_append _ x hne hnb)]
          rw [ihI _ _ _ _ hi]
          exact map_ext x h (fun a r => ihUB _ a r)
    · intro bs v r h
      rcases break_or bs with ⟨r0, rfl⟩ | hnb
      · rw [List.cons_append]
        rw [EUB_break] at h ⊢; simp at h ⊢; simp [h.1, h.2]
      · rw [EUB_nobreak _ _ _ hnb] at h
        split at h
        · simp at h
        · rename_i key r1 hi
          have hne : bs ≠ [] := by intro he; subst he; simp [parseItem_nil] at hi
          rw [EUB_nobreak _ _ _ (nobreak_append _ x hne hnb)]
          rw [ihI _ _ _ _ hi]
          split at h
          · simp at h
          · rename_i v2 r2 hi2
            dsimp only
            rw [ihI _ _ _ _ hi2]
            exact map_ext x h (fun a r => ihEUB _ a r)

theorem prefix_free' (coerce : Bool) (bs : Bytes) (v : TV)
    (h : parse coerce bs = some (v, [])) (p : Bytes) (hp : p <+: bs) (hne : p ≠ bs) :
    parse coerce p = none := by
  obtain ⟨x, hx⟩ := hp
  have hxne : x ≠ [] := by intro he; subst he; simp at hx; exact hne hx
  cases hpp : parse coerce p with
  | none => rfl
  | some q =>
    exfalso
    obtain ⟨v', r'⟩ := q
    unfold parse at hpp h
    have h1 := (ext coerce x _).1 _ _ _ _ hpp
    rw [hx] at h1
    have hl : 2 * bs.length + 2 = 2 * p.length + 2 + 2 * x.length := by
      rw [← hx]; simp; omega
    have h2 := parseItem_mono coerce _ (2 * x.length) _ _ _ h1
    rw [← hl, h] at h2
    simp at h2
    exact hxne h2.2.2

end Refmt.C04
