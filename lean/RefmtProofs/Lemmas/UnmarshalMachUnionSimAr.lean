/-
  Stateful object unmarshaller: the array machine between elements  ~  `unmElems … (some n)`.
-/
import RefmtProofs.Lemmas.UnmarshalMachUnionArray
set_option linter.unusedSimpArgs false
set_option linter.unusedVariables false
namespace Refmt.UMachU
open Refmt Refmt.Obj Refmt.Obj.UM Refmt.UMachL

variable {ts : Types} {a : Atlas} {trs : Trs} {it : IfaceTys}

/-- what the functional model's array case makes of the element list -/
def arrFin (n : Nat) (z : Val) : URes → URes
  | .ok (.slice (some vs)) r u => .ok (.arr (vs ++ List.replicate (n - vs.length) z)) r u
  | x => x

theorem arrFin_shift (n : Nat) (z : Val) (x : URes) (k : Nat) : arrFin n z (x.shift k) = (arrFin n z x).shift k := by
  cases x with
  | ok v r u =>
    cases v with
    | slice o => cases o <;> rfl
    | _ => rfl
  | _ => rfl

theorem set_repl (l : List Val) (k : Nat) (z v : Val) :
    (l ++ List.replicate (k+1) z).set l.length v = (l ++ [v]) ++ List.replicate k z := by
  induction l with
  | nil => simp [List.replicate_succ]
  | cons x l ih => simp [ih]

theorem get_repl (l : List Val) (k : Nat) (z : Val) : (l ++ List.replicate (k+1) z)[l.length]?.getD z = z := by
  simp [List.getElem?_append_right, List.replicate_succ]

theorem unmElems_cap_full {n e N : Nat} {acc : List Val} {t : Tok} {rest : List Tok}
    (h1 : t.body ≠ .mapClose) (h2 : t.body ≠ .arrClose) (hf : acc.length ≥ N) :
    unmElems ts a trs it (n+1) e (some N) acc (t :: rest) = .err 0 := by
  simp only [unmElems]
  split <;> simp_all

theorem unmElems_cap_elem {n e N : Nat} {acc : List Val} {t : Tok} {rest : List Tok}
    (h1 : t.body ≠ .mapClose) (h2 : t.body ≠ .arrClose) (hf : ¬ acc.length ≥ N) :
    unmElems ts a trs it (n+1) e (some N) acc (t :: rest)
      = bindU (unmV ts a trs it n e (zeroVal ts 64 e) (t :: rest))
          (fun v r u => (unmElems ts a trs it n e (some N) (v :: acc) r).shift u) := by
  have hd : decide (acc.length ≥ N) = false := by simpa using hf
  simp only [unmElems, bindU, hd]
  split
  · simp_all
  · cases unmV ts a trs it n e (zeroVal ts 64 e) (t :: rest) <;> rfl

variable (ts a trs it)

def ArrSt (row : URow) (e N : Nat) (acc : List Val) (j : Nat) (cck : MK) : Prop :=
  row.array.phase = .acceptValueOrClose ∧
  row.array.target_rv = .arr (acc.reverse ++ List.replicate (N - acc.length) (zeroVal ts 64 e)) ∧
  row.array.value_rt = e ∧ row.array.valueMach = some ⟨j, cck⟩ ∧ row.array.index = acc.length ∧
  row.array.maxLen = N

def SimAr (S : List Nat) (n : Nat) : Prop :=
  ∀ e ∈ S, ∀ (N : Nat) (acc : List Val) (lo : List URow) (row : URow) (mid : List URow) (crow : URow) (hi : List URow)
    (stk : List URef) (be : Option XFail) (c : URef) (cck : MK) (F : Val → Option Val) (w : Val → Val) (d : Nat) (toks : List Tok) (sf : Nat),
    ArrSt ts row e N acc (lo.length + 1 + mid.length) cck → CfgV ts a crow e cck → ∀ {un : Option Nat}, Wr trs.u c lo row .array F w d un → d ≤ 3 →
    17 ≤ sf →
    Agree ts a trs it none un c sf be stk lo row F w
      (pump ts a trs it sf ⟨lo ++ row :: (mid ++ crow :: hi), stk, some c, be⟩ toks)
      (arrFin N (zeroVal ts 64 e) (unmElems ts a trs it n e (some N) acc toks))

variable {ts a trs it}

theorem simAr_zero (S : List Nat) : SimAr ts a trs it S 0 := by
  intro e he N acc lo row mid crow hi stk be c cck F w d toks sf hst hcc un hw hd hsf
  simp [unmElems, Agree, arrFin]

theorem simAr_succ {S : List Nat} {n : Nat} (hV : SimV ts a trs it S n) (hE : SimAr ts a trs it S n) :
    SimAr ts a trs it S (n+1) := by
  intro e he N acc lo row mid crow hi stk be c cck F w d toks sf hst hcc un hw hd hsf
  obtain ⟨hph, htg, hvt, hvm, hix, hmx⟩ := hst
  cases toks with
  | nil => simp [pump, unmElems, Agree, arrFin]
  | cons t rest =>
    obtain ⟨g, rfl⟩ : ∃ g, sf = g + 1 + 1 + d + 1 := ⟨sf - d - 3, by omega⟩
    by_cases h1 : t.body = .mapClose
    · have hs : stepM ts a trs it (g + 1 + 1 + d) c
          ⟨lo ++ row :: (mid ++ crow :: hi), stk, some c, be⟩ t = .error (.f .err) := by
        rw [hw.step, array_step_mapClose hph h1]; rfl
      rw [pump_err hs]
      simp [unmElems, h1, Agree, XFail.toURes, arrFin]
    · by_cases h2 : t.body = .arrClose
      · obtain ⟨hi', x, hx⟩ := snoc_of_ne_nil (mid ++ crow :: hi) (by simp)
        have hl : stepM ts a trs it (g + 1 + 1) ⟨lo.length, .array⟩
            ⟨lo ++ row :: (mid ++ crow :: hi), stk, some c, be⟩ t
            = .ok ⟨some (.arr (acc.reverse ++ List.replicate (N - acc.reverse.length) (zeroVal ts 64 e))),
                ⟨lo ++ row :: hi', stk, some c, be⟩⟩ := by
          rw [array_step_arrClose hph h2, hx, dropLast_at, htg, List.length_reverse]
        simp only [unmElems, h2, arrFin]
        exact Agree.fin hw hl (SameCfg.refl _) (by omega)
      · by_cases hfull : acc.length ≥ N
        · have hs : stepM ts a trs it (g + 1 + 1 + d) c
              ⟨lo ++ row :: (mid ++ crow :: hi), stk, some c, be⟩ t = .error (.f .err) := by
            rw [hw.step, array_step_full hph h1 h2 (by rw [hix, hmx]; exact hfull)]; rfl
          rw [pump_err hs, unmElems_cap_full h1 h2 hfull]
          simp [Agree, XFail.toURes, arrFin]
        · obtain ⟨kk, hkk⟩ : ∃ kk, N - acc.length = kk + 1 := ⟨N - acc.length - 1, by omega⟩
          have hz : (arrElems row.array.target_rv)[row.array.index]?.getD (zeroVal ts 64 row.array.value_rt)
              = zeroVal ts 64 e := by
            rw [htg, hix, hvt, hkk]
            have := get_repl acc.reverse kk (zeroVal ts 64 e)
            rw [List.length_reverse] at this
            exact this
          have hs : stepM ts a trs it (g + 1 + 1 + d) c
              ⟨lo ++ row :: (mid ++ crow :: hi), stk, some c, be⟩ t
              = recurse ts a trs it (g + 1)
                  ⟨lo ++ rowAr row (arNext row.array) :: (mid ++ crow :: hi), stk, some c, be⟩ t
                  (zeroVal ts 64 e) e ⟨lo.length + 1 + mid.length, cck⟩ := by
            rw [hw.step, array_step_elem hph h1 h2 (by rw [hix, hmx]; exact hfull) hvm, mapDoneO_recurse, mapDone_recurse, finU_recurse, hz, hvt]
          rw [pump_rec hs, unmElems_cap_elem h1 h2 hfull]
          have hR : lo ++ rowAr row (arNext row.array) :: (mid ++ crow :: hi)
              = (lo ++ rowAr row (arNext row.array) :: mid) ++ crow :: hi := by simp
          have hj : lo.length + 1 + mid.length = (lo ++ rowAr row (arNext row.array) :: mid).length := by
            simp; omega
          rw [hR, hj]
          have hA := hV e he (zeroVal ts 64 e) (lo ++ rowAr row (arNext row.array) :: mid) crow hi
            (c :: stk) be cck (t :: rest) g g (g + 1 + 1 + d + 1) hcc (by omega) (by omega) hsf
          revert hA
          generalize unmV ts a trs it n e (zeroVal ts 64 e) (t :: rest) = r
          generalize rtp ts a trs it g g (g + 1 + 1 + d + 1) _ _ be _ e (zeroVal ts 64 e) (t :: rest) = X
          intro hA
          cases r with
          | panic u => trivial
          | more u => exact hA
          | err u => exact hA
          | ok v r u =>
            obtain ⟨hu, crow', hi', fa, hc1, hfa, hX⟩ := hA
            obtain ⟨fa', rfl⟩ : ∃ f, fa = f + 1 + d := ⟨fa - 1 - d, by omega⟩
            have hw1 : Wr trs.u c lo (rowAr row (arNext row.array)) .array F w d un := hw.congr rfl
            have hab : absorbM ts (fa' + 1 + d) c v
                ((lo ++ rowAr row (arNext row.array) :: mid) ++ crow' :: hi')
                = .ok (lo ++ rowAr row (arAbs (arNext row.array) v) :: (mid ++ crow' :: hi')) := by
              rw [show (lo ++ rowAr row (arNext row.array) :: mid) ++ crow' :: hi'
                = lo ++ rowAr row (arNext row.array) :: (mid ++ crow' :: hi') by simp, hw1.absorb, array_absorb]
              rfl
            simp only [bindU]
            rw [hX]
            simp only [kontU, kont, id, hab]
            have hst2 : ArrSt ts (rowAr row (arAbs (arNext row.array) v)) e N (v :: acc)
                (lo.length + 1 + mid.length) cck := by
              refine ⟨hph, ?_, hvt, hvm, ?_, hmx⟩
              · show Val.arr ((arrElems row.array.target_rv).set (row.array.index + 1 - 1) v) = _
                have h := set_repl acc.reverse kk (zeroVal ts 64 e) v
                rw [List.length_reverse] at h
                rw [htg, hix, Nat.add_sub_cancel, hkk]
                simp only [arrElems]
                rw [h, List.reverse_cons, List.length_cons, show N - (acc.length + 1) = kk by omega]
              · simp [arAbs, arNext, hix]
            have hA2 := hE e he N (v :: acc) lo (rowAr row (arAbs (arNext row.array) v)) mid crow' hi' stk be c cck F w d r
              (g + 1 + 1 + d + 1) hst2 (CfgV.keep ts a hcc hc1) (hw.congr rfl) hd hsf
            have hA3 := hA2.shift (row := row) u (rowAr_same _ _)
            rw [shift_shift, show 1 + (u - 1) = u by omega, arrFin_shift]
            exact hA3

end Refmt.UMachU
