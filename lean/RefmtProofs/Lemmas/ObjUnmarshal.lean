/-
  The streaming invariant (`Str`) holds for the six mutual functions of the object unmarshaller model,
  by induction on fuel (`allStr`).  Shapes: `TreeS` = one token tree, `ElemsS` = trees then an array close,
  `EntriesS` = (key token, tree) pairs then a map close; all modulo tags on close tokens (`nc`).
-/
import RefmtProofs.Lemmas.ObjUnmEq
set_option linter.unusedSimpArgs false
set_option linter.unusedVariables false
namespace Refmt.Obj
open Refmt
variable (ts : Types) (a : Atlas) (trs : Trs) (it : IfaceTys)

/-- close tokens carry no tag in `TV.flatten`; the unmarshaller ignores tags on close tokens -/
def nc (t : Tok) : Tok :=
  match t.body with
  | .arrClose => ⟨.arrClose, none⟩
  | .mapClose => ⟨.mapClose, none⟩
  | _ => t

def TreeS (c : List Tok) : Prop := ∃ tv : TV, c.map nc = tv.flatten
def ElemsS (c : List Tok) : Prop := ∃ items : List TV, c.map nc = TV.flattenList items ++ [⟨.arrClose, none⟩]
def EntriesS (c : List Tok) : Prop := ∃ es : List (TV × TV), c.map nc = TV.flattenEntries es ++ [⟨.mapClose, none⟩]

theorem TreeS.single (t : Tok) : TreeS [t] := ⟨.scalar (nc t), by simp [TV.flatten]⟩

theorem TreeS.arr {t : Tok} {c : List Tok} {len : Int} (ht : t.body = .arrOpen len) (h : ElemsS c) : TreeS (t :: c) := by
  obtain ⟨items, hi⟩ := h
  obtain ⟨body, tag⟩ := t
  simp at ht; subst ht
  exact ⟨.arr tag len items, by simp [TV.flatten, hi, nc]⟩

theorem TreeS.map {t : Tok} {c : List Tok} {len : Int} (ht : t.body = .mapOpen len) (h : EntriesS c) : TreeS (t :: c) := by
  obtain ⟨es, hi⟩ := h
  obtain ⟨body, tag⟩ := t
  simp at ht; subst ht
  exact ⟨.map tag len es, by simp [TV.flatten, hi, nc]⟩

theorem ElemsS.close {t : Tok} (ht : t.body = .arrClose) : ElemsS [t] :=
  ⟨[], by simp [TV.flattenList, nc, ht]⟩

theorem ElemsS.cons {c1 c2 : List Tok} (h1 : TreeS c1) (h2 : ElemsS c2) : ElemsS (c1 ++ c2) := by
  obtain ⟨tv, h1⟩ := h1
  obtain ⟨items, h2⟩ := h2
  exact ⟨tv :: items, by simp [TV.flattenList, h1, h2]⟩

theorem EntriesS.close {t : Tok} (ht : t.body = .mapClose) : EntriesS [t] :=
  ⟨[], by simp [TV.flattenEntries, nc, ht]⟩

theorem EntriesS.cons (k : Tok) {c1 c2 : List Tok} (h1 : TreeS c1) (h2 : EntriesS c2) : EntriesS (k :: (c1 ++ c2)) := by
  obtain ⟨tv, h1⟩ := h1
  obtain ⟨es, h2⟩ := h2
  exact ⟨(.scalar (nc k), tv) :: es, by simp [TV.flattenEntries, TV.flatten, h1, h2]⟩

theorem Str.off {o o' g S} (h : Str o g S) (e : o = o') : Str o' g S := e ▸ h

theorem Str.shift {off g S} (h : Str off g S) (k : Nat) : Str (off + k) (fun r => (g r).shift k) S := by
  intro toks v rest used hg
  cases hx : g toks with
  | ok v1 r1 u1 =>
    simp only [hx, URes.shift_ok, URes.ok.injEq] at hg
    obtain ⟨rfl, rfl, rfl⟩ := hg
    obtain ⟨c, h1, h2, h3, h4, h5⟩ := h toks v1 r1 u1 hx
    refine ⟨c, h1, by omega, h3, fun m => by simp [h4], fun j hj => ?_⟩
    obtain ⟨u, hu⟩ := h5 j hj
    exact ⟨u + k, by simp [hu]⟩
  | more u => simp [hx] at hg
  | err u => simp [hx] at hg
  | panic u => simp [hx] at hg

theorem Str.post {off g S} (h : Str off g S) (K : Val → List Tok → Nat → URes)
    (hK : ∀ v u, (∃ v', ∀ r, K v r u = .ok v' r u) ∨ (∀ r v' r' u', K v r u ≠ .ok v' r' u')) :
    Str off (fun toks => (g toks).bind' K 0) S := by
  refine Str.mono (Str.seq h (S2 := (· = [])) (fun v u => ?_)) ?_
  · rcases hK v u with ⟨v', hv⟩ | hn
    · exact Str.congr (Str.unit (u + 0) v') (fun r => hv r)
    · exact Str.never hn
  · rintro c ⟨c1, c2, rfl, h1, rfl⟩; simpa using h1

theorem Str.postOk {off g S} (h : Str off g S) (F : Val → Val) :
    Str off (fun toks => (g toks).bind' (fun v r u => .ok (F v) r u) 0) S :=
  Str.post h _ (fun v u => Or.inl ⟨F v, fun r => rfl⟩)

theorem unmV_nil (fuel id cur v r u) : unmV ts a trs it fuel id cur [] ≠ .ok v r u := by
  cases fuel <;> simp [unmV]
theorem unmBare_nil (fuel id m cur v r u) : unmBare ts a trs it fuel id m cur [] ≠ .ok v r u := by
  cases fuel <;> simp [unmBare]

/-- the invariants of the six functions at a given fuel -/
structure AllStr (fuel : Nat) : Prop where
  v : ∀ id cur, Str 0 (unmV ts a trs it fuel id cur) TreeS
  b : ∀ id m cur, Str 0 (unmBare ts a trs it fuel id m cur) TreeS
  w : ∀ meth t, Str 1 (fun r => unmWild ts a trs it fuel meth t r) (fun c => TreeS (t :: c))
  e : ∀ e cap acc, Str 0 (unmElems ts a trs it fuel e cap acc) ElemsS
  m : ∀ kf vt es, Str 0 (unmMapEntries ts a trs it fuel kf vt es) EntriesS
  s : ∀ id fields len idx cur, Str 0 (unmStruct ts a trs it fuel id fields len idx cur) EntriesS

theorem allStr_zero : AllStr ts a trs it 0 where
  v := fun _ _ => Str.never (by intros; simp [unmV])
  b := fun _ _ _ => Str.never (by intros; simp [unmBare])
  w := fun _ _ => Str.never (by intros; simp [unmWild])
  e := fun _ _ _ => Str.never (by intros; simp [unmElems])
  m := fun _ _ _ => Str.never (by intros; simp [unmMapEntries])
  s := fun _ _ _ _ _ => Str.never (by intros; simp [unmStruct])

theorem step_v {fuel} (ih : AllStr ts a trs it fuel) (id cur) : Str 0 (unmV ts a trs it (fuel+1) id cur) TreeS := by
  refine Str.cons ⟨0, by simp [unmV]⟩ (fun t => ?_)
  by_cases hn : ((peel ts 64 0 id).1 == 0) = true
  · exact Str.congr (Str.tail (ih.b (peel ts 64 0 id).2 (upickBare ts a (peel ts 64 0 id).2) cur) (unmBare_nil ts a trs it _ _ _ _) t) (fun r => by simp only [unmV_cons, hn, if_true])
  · have hgen : Str 1 (fun r => (unmBare ts a trs it fuel (peel ts 64 0 id).2 (upickBare ts a (peel ts 64 0 id).2)
                (innerCur ts (peel ts 64 0 id).1 id cur) (t :: r)).bind'
                (fun v r u => .ok (wrapPtr (peel ts 64 0 id).1 v) r u) 0) (fun c => TreeS (t :: c)) :=
      Str.postOk (Str.tail (ih.b _ _ _) (unmBare_nil ts a trs it _ _ _ _) t) _
    obtain ⟨body, tag⟩ := t
    cases body
    case null =>
      exact Str.mono (Str.congr (Str.unit 1 (.ptr none)) (fun r => by simp only [unmV_cons, hn]; rfl))
        (by rintro c rfl; exact TreeS.single _)
    all_goals exact Str.congr hgen (fun r => by simp only [unmV_cons, hn]; rfl)

theorem step_e {fuel} (ih : AllStr ts a trs it fuel) (e cap acc) :
    Str 0 (unmElems ts a trs it (fuel+1) e cap acc) ElemsS := by
  refine Str.cons ⟨0, by simp [unmElems]⟩ (fun t => ?_)
  cases hc : capFull cap acc
  · have hgen : Str 1 (fun r => (unmV ts a trs it fuel e (zeroVal ts 64 e) (t :: r)).bind'
          (fun v r u => (unmElems ts a trs it fuel e cap (v :: acc) r).shift u) 0) (fun c => ElemsS (t :: c)) := by
      refine Str.mono (Str.seq (Str.tail (ih.v e (zeroVal ts 64 e)) (unmV_nil ts a trs it _ _ _) t)
        (fun v u => Str.off (Str.shift (ih.e e cap (v :: acc)) u) (by omega))) ?_
      rintro c ⟨c1, c2, rfl, h1, h2⟩
      exact ElemsS.cons (c1 := t :: c1) h1 h2
    obtain ⟨body, tag⟩ := t
    cases body
    case mapClose => exact Str.never (fun toks v r u => by simp [unmElems_cons])
    case arrClose =>
      exact Str.mono (Str.congr (Str.unit 1 (.slice (some acc.reverse))) (fun r => by simp only [unmElems_cons]))
        (by rintro c rfl; exact ElemsS.close rfl)
    all_goals exact Str.congr hgen (fun r => by simp only [unmElems_cons, hc]; rfl)
  · obtain ⟨body, tag⟩ := t
    cases body
    case arrClose =>
      exact Str.mono (Str.congr (Str.unit 1 (.slice (some acc.reverse))) (fun r => by simp only [unmElems_cons]))
        (by rintro c rfl; exact ElemsS.close rfl)
    all_goals exact Str.never (fun toks v r u => by simp [unmElems_cons, hc])


theorem step_m {fuel} (ih : AllStr ts a trs it fuel) (kf vt es) :
    Str 0 (unmMapEntries ts a trs it (fuel+1) kf vt es) EntriesS := by
  refine Str.cons ⟨0, by simp [unmMapEntries]⟩ (fun t => ?_)
  obtain ⟨body, tag⟩ := t
  cases body
  case mapClose =>
    exact Str.mono (Str.congr (Str.unit 1 (.map (some es))) (fun r => by simp only [unmMapEntries_cons]))
      (by rintro c rfl; exact EntriesS.close rfl)
  case str s =>
    cases hk : mapKey trs kf s with
    | none => exact Str.never (fun toks v r u => by simp [unmMapEntries_cons, hk])
    | some k =>
      cases hh : hasKey k es
      · refine Str.congr (g' := fun r => (unmV ts a trs it fuel vt (zeroVal ts 64 vt) r).bind'
                  (fun v r u => (unmMapEntries ts a trs it fuel kf vt (es ++ [(k, v)]) r).shift (u + 1)) 1) ?_
          (fun r => by simp only [unmMapEntries_cons, hk, hh]; rfl)
        refine Str.mono (Str.off (Str.seq (ih.v vt (zeroVal ts 64 vt))
          (fun v u => Str.off (Str.shift (ih.m kf vt (es ++ [(k, v)])) (u + 1)) (by omega))) (by omega)) ?_
        rintro c ⟨c1, c2, rfl, h1, h2⟩
        exact EntriesS.cons _ h1 h2
      · exact Str.never (fun toks v r u => by simp [unmMapEntries_cons, hk, hh])
  all_goals exact Str.never (fun toks v r u => by simp [unmMapEntries_cons])

theorem step_s {fuel} (ih : AllStr ts a trs it fuel) (id fields len idx cur) :
    Str 0 (unmStruct ts a trs it (fuel+1) id fields len idx cur) EntriesS := by
  refine Str.cons ⟨0, by simp [unmStruct]⟩ (fun t => ?_)
  obtain ⟨body, tag⟩ := t
  cases body
  case mapClose =>
    cases hl : (decide (len ≥ 0) && len != (idx : Int))
    · exact Str.mono (Str.congr (Str.unit 1 cur) (fun r => by simp only [unmStruct_cons, hl]; rfl))
        (by rintro c rfl; exact EntriesS.close rfl)
    · exact Str.never (fun toks v r u => by simp only [unmStruct_cons, hl]; simp)
  case str name =>
    cases hf : fields.find? (fun f => f.name == name) with
    | none => exact Str.never (fun toks v r u => by simp [unmStruct_cons, hf])
    | some f =>
      cases hi : f.ignore
      · -- regular field
        cases hg : getRoute ts 64 id f.route cur with
        | none =>
          refine Str.never (fun toks v r u => ?_)
          simp only [unmStruct_cons, hf, hi, hg]
          cases toks <;> simp
        | some fcur =>
          refine Str.congr_ne (g' := fun r => (unmV ts a trs it fuel f.ty fcur r).bind'
              (structCont ts a trs it fuel id fields len idx cur f.route) 1) ?_ ?_ ⟨1, ?_⟩ ?_
          · refine Str.mono (Str.off (Str.seq (ih.v f.ty fcur) (S2 := EntriesS) (fun v u => ?_)) (by omega)) ?_
            · unfold structCont
              cases setRoute ts 64 id f.route cur (fun _ => v) with
              | none => exact Str.never (by intros; simp)
              | some cur' => exact Str.off (Str.shift (ih.s id fields len (idx + 1) cur') (u + 1)) (by omega)
            · rintro c ⟨c1, c2, rfl, h1, h2⟩
              exact EntriesS.cons _ h1 h2
          · intro toks hne
            simp only [unmStruct_cons, hf, hi, hg]
            cases toks with
            | nil => exact absurd rfl hne
            | cons x xs => rfl
          · simp only [unmStruct_cons, hf, hi]; rfl
          · intro v r u
            cases fuel <;> simp [unmV]
      · -- ignored field: the value goes to a dummy untyped slot
        refine Str.congr (g' := fun r => match r with
            | [] => .more 1
            | v :: rest2 => (unmWild ts a trs it fuel false v rest2).bind'
                  (fun _ r u => (unmStruct ts a trs it fuel id fields len (idx + 1) cur r).shift (u + 1)) 1) ?_
          (fun r => by simp only [unmStruct_cons, hf, hi]; rfl)
        refine Str.cons ⟨1, rfl⟩ (fun v => ?_)
        refine Str.mono (Str.seq (ih.w false v) (S2 := EntriesS)
          (fun x u => Str.off (Str.shift (ih.s id fields len (idx + 1) cur) (u + 1)) (by omega))) ?_
        rintro c ⟨c1, c2, rfl, h1, h2⟩
        exact EntriesS.cons (c1 := v :: c1) _ h1 h2
  all_goals exact Str.never (fun toks v r u => by simp [unmStruct_cons])


theorem step_w {fuel} (ih : AllStr ts a trs it fuel) (meth t) :
    Str 1 (fun r => unmWild ts a trs it (fuel+1) meth t r) (fun c => TreeS (t :: c)) := by
  have unit1 : ∀ v : Val, Str 1 (fun r => URes.ok v r 1) (fun c => TreeS (t :: c)) := fun v =>
    Str.mono (Str.unit 1 v) (by rintro c rfl; exact TreeS.single _)
  have deleg : ∀ id m cur ty, Str 1 (fun r => (unmBare ts a trs it fuel id m cur (t :: r)).bind'
      (fun v r u => .ok (.iface (some (ty, v))) r u) 0) (fun c => TreeS (t :: c)) := fun id m cur ty =>
    Str.postOk (Str.tail (ih.b id m cur) (unmBare_nil ts a trs it _ _ _ _) t) _
  obtain ⟨body, tag⟩ := t
  cases tag with
  | some g =>
    cases hg : a.getByTag g with
    | none => exact Str.never (fun toks v r u => by simp [unmWild_eq, hg])
    | some e =>
      cases meth
      · exact Str.congr (deleg e.ty (upickBare ts a e.ty) (zeroVal ts 64 e.ty) e.ty) (fun r => by simp only [unmWild_eq, hg]; rfl)
      · exact Str.never (fun toks v r u => by simp [unmWild_eq, hg])
  | none =>
    have hfalse : Str 1 (fun r => unmWild ts a trs it (fuel+1) false ⟨body, none⟩ r) (fun c => TreeS (⟨body, none⟩ :: c)) := by
      cases body
      case mapOpen len =>
        exact Str.congr (deleg it.mapSI (.map it.str it.iface) (.map (some [])) it.mapSI)
          (fun r => by simp only [unmWild_eq]; rfl)
      case arrOpen len =>
        exact Str.congr (deleg it.sliceI (.slice it.iface) (.slice none) it.sliceI)
          (fun r => by simp only [unmWild_eq]; rfl)
      case mapClose => exact Str.never (fun toks v r u => by simp [unmWild_eq])
      case arrClose => exact Str.never (fun toks v r u => by simp [unmWild_eq])
      case uint n =>
        by_cases hn : n < two63
        · exact Str.congr (unit1 _) (fun r => by simp only [unmWild_eq]; simp [hn]; rfl)
        · exact Str.congr (unit1 _) (fun r => by simp only [unmWild_eq]; simp [hn]; rfl)
      all_goals exact Str.congr (unit1 _) (fun r => by simp only [unmWild_eq]; rfl)
    cases meth
    · exact hfalse
    · cases hb : wildRej true body
      · exact Str.congr hfalse (fun r => by simp only [unmWild_eq, hb, wildRej_false]; rfl)
      · exact Str.never (fun toks v r u => by simp only [unmWild_eq, hb]; simp)


theorem TreeS.union {t k cl : Tok} {c : List Tok} {len : Int} (ht : t.body = .mapOpen len) (hc : cl.body = .mapClose)
    (h : TreeS c) : TreeS (t :: k :: (c ++ [cl])) := by
  refine TreeS.map ht ?_
  have := EntriesS.cons k h (EntriesS.close hc)
  simpa using this

theorem step_b {fuel} (ih : AllStr ts a trs it fuel) (id m cur) :
    Str 0 (unmBare ts a trs it (fuel+1) id m cur) TreeS := by
  have hnil : ∃ u, unmBare ts a trs it (fuel+1) id m cur [] = .more u := ⟨0, by simp [unmBare]⟩
  have unit1 : ∀ (t : Tok) (v : Val), Str 1 (fun r => URes.ok v r 1) (fun c => TreeS (t :: c)) := fun t v =>
    Str.mono (Str.unit 1 v) (by rintro c rfl; exact TreeS.single _)
  cases m with
  | errThunk => exact Str.cons hnil (fun t => Str.never (fun toks v r u => by simp [unmBare_errThunk]))
  | panic => exact Str.cons hnil (fun t => Str.never (fun toks v r u => by simp [unmBare_panic]))
  | prim =>
    refine Str.cons hnil (fun t => ?_)
    cases hs : storePrim (ts.get id) t with
    | none => exact Str.never (fun toks v r u => by simp [unmBare_prim, hs])
    | some v => exact Str.congr (unit1 t v) (fun r => by simp only [unmBare_prim, hs])
  | wildcard =>
    exact Str.cons hnil (fun t => Str.congr (ih.w (ifaceMeth ts id) t) (fun r => by rw [unmBare_wild]))
  | slice e =>
    refine Str.cons hnil (fun t => ?_)
    obtain ⟨body, tag⟩ := t
    cases body
    case null => exact Str.congr (unit1 _ (.slice none)) (fun r => by simp only [unmBare_slice])
    case arrOpen len =>
      exact Str.mono (Str.congr (Str.shift (ih.e e none []) 1) (fun r => by simp only [unmBare_slice]))
        (fun c hc => TreeS.arr rfl hc)
    all_goals exact Str.never (fun toks v r u => by simp [unmBare_slice])
  | array n e =>
    refine Str.cons hnil (fun t => ?_)
    obtain ⟨body, tag⟩ := t
    cases body
    case null => exact Str.congr (unit1 _ (zeroVal ts 64 id)) (fun r => by simp only [unmBare_array])
    case arrOpen len =>
      refine Str.mono (Str.congr (Str.seq (ih.e e (some n) []) (S2 := (· = []))
        (fun v u => Str.unit (u + 1) (arrFix ts n e v))) (fun r => by simp only [unmBare_array])) ?_
      rintro c ⟨c1, c2, rfl, h1, rfl⟩
      exact TreeS.arr rfl (by simpa using h1)
    all_goals exact Str.never (fun toks v r u => by simp [unmBare_array])
  | map kt vt =>
    refine Str.cons hnil (fun t => ?_)
    cases hk : ukeyFn ts a kt with
    | none => exact Str.never (fun toks v r u => by simp [unmBare_map, hk])
    | some kf =>
      obtain ⟨body, tag⟩ := t
      cases body
      case null => exact Str.congr (unit1 _ (.map none)) (fun r => by simp only [unmBare_map, hk])
      case mapOpen len =>
        exact Str.mono (Str.congr (Str.shift (ih.m kf vt (mapCur0 cur)) 1) (fun r => by simp only [unmBare_map, hk]))
          (fun c hc => TreeS.map rfl hc)
      all_goals exact Str.never (fun toks v r u => by simp [unmBare_map, hk])
  | structMap fields =>
    refine Str.cons hnil (fun t => ?_)
    obtain ⟨body, tag⟩ := t
    cases body
    case null => exact Str.congr (unit1 _ (zeroVal ts 64 id)) (fun r => by simp only [unmBare_structMap])
    case mapOpen len =>
      exact Str.mono (Str.congr (Str.shift (ih.s id fields len 0 cur) 1) (fun r => by simp only [unmBare_structMap]))
        (fun c hc => TreeS.map rfl hc)
    all_goals exact Str.never (fun toks v r u => by simp [unmBare_structMap])
  | transform fn uty =>
    refine Str.congr_ne (g' := fun toks => (unmBare ts a trs it fuel uty (upickBare ts a uty) (zeroVal ts 64 uty) toks).bind'
      (trPost trs fn) 0) ?_ ?_ hnil ?_
    · refine Str.post (ih.b _ _ _) _ (fun v u => ?_)
      unfold trPost
      cases trs.u fn v with
      | none => exact Or.inr (by intros; simp)
      | some v' => exact Or.inl ⟨v', fun r => rfl⟩
    · intro toks hne
      cases toks with
      | nil => exact absurd rfl hne
      | cons t r => simp only [unmBare_transform]
    · intro v r u
      cases fuel <;> simp [unmBare]
  | union members =>
    refine Str.cons hnil (fun t => ?_)
    obtain ⟨body, tag⟩ := t
    cases body
    case mapOpen len =>
      cases hl : (len != -1 && len != 1)
      · refine Str.congr (g' := fun rest => match rest with
            | [] => .more 1
            | k :: rest2 =>
              (match k.body with
               | .str name =>
                 (match members.find? fun (nm, _) => nm == name with
                  | none => .err 1
                  | some (_, idx) =>
                    (match a.pool[idx]? with
                     | none => .panic 1
                     | some me =>
                       (match umachForEntry ts me with
                        | .errThunk => .err 1
                        | .panic => .panic 1
                        | dm => (unmBare ts a trs it fuel me.ty dm (zeroVal ts 64 me.ty) rest2).bind' (unionClose me.ty) 2)))
               | _ => .err 1)) ?_ (fun r => by simp only [unmBare_union, hl]; rfl)
        refine Str.cons ⟨1, rfl⟩ (fun k => ?_)
        obtain ⟨kbody, ktag⟩ := k
        cases kbody
        case str name =>
          simp only
          cases hf : members.find? (fun (x : Bytes × Nat) => x.1 == name) with
          | none => exact Str.never (fun toks v r u => by simp)
          | some p =>
            obtain ⟨nm, idx⟩ := p
            simp only
            cases hp : a.pool[idx]? with
            | none => exact Str.never (fun toks v r u => by simp)
            | some me =>
              simp only
              have hgen : ∀ dm, Str 2 (fun rest2 => (unmBare ts a trs it fuel me.ty dm (zeroVal ts 64 me.ty) rest2).bind' (unionClose me.ty) 2)
                  (fun c => TreeS (⟨.mapOpen len, tag⟩ :: ⟨.str name, ktag⟩ :: c)) := by
                intro dm
                refine Str.mono (Str.off (Str.seq (ih.b me.ty dm (zeroVal ts 64 me.ty))
                  (S2 := fun c => ∃ cl : Tok, cl.body = .mapClose ∧ c = [cl]) (fun v u => ?_)) (by omega)) ?_
                · refine Str.cons ⟨u + 2, rfl⟩ (fun cl => ?_)
                  obtain ⟨cbody, ctag⟩ := cl
                  cases cbody
                  case mapClose =>
                    exact Str.mono (Str.congr (Str.unit (u + 2 + 1) (.iface (some (me.ty, v)))) (fun r => by simp only [unionClose]))
                      (by rintro c rfl; exact ⟨_, rfl, rfl⟩)
                  all_goals exact Str.never (fun toks v r u => by simp [unionClose])
                · rintro c ⟨c1, c2, rfl, h1, ⟨cl, hcl, rfl⟩⟩
                  exact TreeS.union rfl hcl h1
              cases hm : umachForEntry ts me
              case errThunk => exact Str.never (fun toks v r u => by simp)
              case panic => exact Str.never (fun toks v r u => by simp)
              all_goals exact hgen _
        all_goals exact Str.never (fun toks v r u => by simp)
      · exact Str.never (fun toks v r u => by simp only [unmBare_union, hl]; simp)
    all_goals exact Str.never (fun toks v r u => by simp [unmBare_union])

theorem allStr (fuel : Nat) : AllStr ts a trs it fuel := by
  induction fuel with
  | zero => exact allStr_zero ts a trs it
  | succ n ih =>
    exact ⟨step_v ts a trs it ih, step_b ts a trs it ih, step_w ts a trs it ih, step_e ts a trs it ih,
      step_m ts a trs it ih, step_s ts a trs it ih⟩

end Refmt.Obj
