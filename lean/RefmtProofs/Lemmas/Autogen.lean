/-
  Order and grouping lemmas for the struct-mapping autogeneration model
  (RefmtModel/Model/Obj/Autogen.lean): `routeLt`, `byNameLe`, `rfcLe` are total preorders,
  `groupByName` on a name-sorted list, `dominantField` vs `selectName`.
-/
import RefmtModel
import RefmtProofs.Lemmas.KeyOrder
set_option linter.unusedSimpArgs false
set_option linter.unusedVariables false
namespace Refmt.Autogen
open Refmt Refmt.Obj Refmt.KeyOrder

/-! ### `routeLt` is a strict total order -/

theorem routeLt_irrefl : ∀ a : List Nat, routeLt a a = false := by
  intro a
  induction a with
  | nil => rfl
  | cons x xs ih => simp [routeLt, ih]

theorem routeLt_trichotomy : ∀ a b : List Nat, routeLt a b = true ∨ a = b ∨ routeLt b a = true := by
  intro a
  induction a with
  | nil => intro b; cases b <;> simp [routeLt]
  | cons x xs ih =>
    intro b
    cases b with
    | nil => simp [routeLt]
    | cons y ys =>
      simp only [routeLt, List.cons.injEq]
      rcases Nat.lt_trichotomy x y with h | h | h
      · have h1 : (x != y) = true := by simp; omega
        simp [h1, h]
      · subst h
        simpa using ih ys
      · have h1 : (x != y) = true := by simp; omega
        have h2 : (y != x) = true := by simp; omega
        simp [h1, h2, h]

theorem routeLt_asymm : ∀ a b : List Nat, routeLt a b = true → routeLt b a = false := by
  intro a
  induction a with
  | nil => intro b; cases b <;> simp [routeLt]
  | cons x xs ih =>
    intro b
    cases b with
    | nil => simp [routeLt]
    | cons y ys =>
      simp only [routeLt]
      by_cases hxy : x = y
      · subst hxy
        simpa using ih ys
      · have h1 : (x != y) = true := by simp [hxy]
        have h2 : (y != x) = true := by simp; omega
        simp only [h1, h2, if_true, decide_eq_true_eq, decide_eq_false_iff_not]
        omega

theorem routeLt_trans : ∀ a b c : List Nat, routeLt a b = true → routeLt b c = true → routeLt a c = true := by
  intro a
  induction a with
  | nil => intro b c; cases b <;> cases c <;> simp [routeLt]
  | cons x xs ih =>
    intro b c
    cases b with
    | nil => simp [routeLt]
    | cons y ys =>
      cases c with
      | nil => simp [routeLt]
      | cons z zs =>
        simp only [routeLt]
        by_cases hxy : x = y
        · subst hxy
          by_cases hxz : x = z
          · subst hxz
            simpa using ih ys zs
          · have h1 : (x != z) = true := by simp [hxz]
            have h0 : (x != x) = false := by simp
            simp only [h1, h0, Bool.false_eq_true, if_true, if_false]
            intro _ h3; exact h3
        · have h1 : (x != y) = true := by simp [hxy]
          by_cases hyz : y = z
          · subst hyz
            have h0 : (y != y) = false := by simp
            simp only [h1, h0, Bool.false_eq_true, if_true, if_false]
            intro h3 _; exact h3
          · have h2 : (y != z) = true := by simp [hyz]
            simp only [h1, h2, if_true, decide_eq_true_eq]
            intro h3 h4
            have h5 : (x != z) = true := by simp; omega
            simp only [h5, if_true, decide_eq_true_eq]
            omega

/-- `routeLe x y := !routeLt y x` -/
theorem routeLe_total (a b : List Nat) : (!routeLt b a) = true ∨ (!routeLt a b) = true := by
  cases h : routeLt b a
  · simp
  · simp [routeLt_asymm b a h]

theorem routeLe_trans (a b c : List Nat) (h1 : (!routeLt b a) = true) (h2 : (!routeLt c b) = true) :
    (!routeLt c a) = true := by
  simp only [Bool.not_eq_true'] at *
  cases h : routeLt c a
  · rfl
  · rcases routeLt_trichotomy a b with h' | h' | h'
    · have := routeLt_trans c a b h h'; simp_all
    · subst h'; simp_all
    · simp_all

/-! ### `byNameLe` is a total preorder -/

theorem byNameLe_total (x y : AField) : byNameLe x y = true ∨ byNameLe y x = true := by
  unfold byNameLe
  by_cases hn : x.name = y.name
  · have hn1 : (x.name != y.name) = false := by simp [hn]
    have hn2 : (y.name != x.name) = false := by simp [hn]
    simp only [hn1, hn2, Bool.false_eq_true, if_false]
    by_cases hl : x.route.length = y.route.length
    · have hl1 : (x.route.length != y.route.length) = false := by simp [hl]
      have hl2 : (y.route.length != x.route.length) = false := by simp [hl]
      simp only [hl1, hl2, Bool.false_eq_true, if_false]
      by_cases ht : x.tagged = y.tagged
      · have ht1 : (x.tagged != y.tagged) = false := by simp [ht]
        have ht2 : (y.tagged != x.tagged) = false := by simp [ht]
        simp only [ht1, ht2, Bool.false_eq_true, if_false]
        exact routeLe_total _ _
      · have ht1 : (x.tagged != y.tagged) = true := by simp [ht]
        have ht2 : (y.tagged != x.tagged) = true := by simp; exact fun e => ht e.symm
        simp only [ht1, ht2, if_true]
        cases hx : x.tagged <;> cases hy : y.tagged <;> simp_all
    · have hl1 : (x.route.length != y.route.length) = true := by simp [hl]
      have hl2 : (y.route.length != x.route.length) = true := by simp; omega
      simp only [hl1, hl2, if_true, decide_eq_true_eq]
      omega
  · have hn1 : (x.name != y.name) = true := by simp [hn]
    have hn2 : (y.name != x.name) = true := by simp; exact fun e => hn e.symm
    simp only [hn1, hn2, if_true]
    rcases bytesLt_trichotomy x.name y.name with h | h | h
    · exact Or.inl h
    · exact absurd h hn
    · exact Or.inr h

/-- an explicit lexicographic reading of `byNameLe` -/
theorem byNameLe_iff (x y : AField) : byNameLe x y = true ↔
    bytesLt x.name y.name = true ∨ (x.name = y.name ∧
      (x.route.length < y.route.length ∨ (x.route.length = y.route.length ∧
        ((x.tagged = true ∧ y.tagged = false) ∨ (x.tagged = y.tagged ∧ routeLt y.route x.route = false))))) := by
  obtain ⟨xn, xr, xty, xt, xo⟩ := x
  obtain ⟨yn, yr, yty, yt, yo⟩ := y
  unfold byNameLe
  simp only
  by_cases hn : xn = yn
  · subst hn
    have hn1 : (xn != xn) = false := by simp
    simp only [hn1, Bool.false_eq_true, if_false, bytesLt_irrefl, false_or, true_and]
    by_cases hl : xr.length = yr.length
    · have hl1 : (xr.length != yr.length) = false := by simp [hl]
      simp only [hl1, Bool.false_eq_true, if_false, hl, Nat.lt_irrefl, false_or, true_and]
      cases xt <;> cases yt <;> simp
    · have hl1 : (xr.length != yr.length) = true := by simp [hl]
      simp only [hl1, if_true, decide_eq_true_eq, hl, false_and, or_false]
  · have hn1 : (xn != yn) = true := by simp [hn]
    simp [hn1, hn]

theorem byNameLe_trans (x y z : AField) (h1 : byNameLe x y = true) (h2 : byNameLe y z = true) :
    byNameLe x z = true := by
  rw [byNameLe_iff] at *
  rcases h1 with h1 | ⟨e1, h1⟩
  · rcases h2 with h2 | ⟨e2, h2⟩
    · exact Or.inl (bytesLt_trans _ _ _ h1 h2)
    · exact Or.inl (e2 ▸ h1)
  · rcases h2 with h2 | ⟨e2, h2⟩
    · exact Or.inl (e1 ▸ h2)
    · refine Or.inr ⟨e1.trans e2, ?_⟩
      rcases h1 with h1 | ⟨l1, h1⟩
      · rcases h2 with h2 | ⟨l2, h2⟩
        · exact Or.inl (by omega)
        · exact Or.inl (by omega)
      · rcases h2 with h2 | ⟨l2, h2⟩
        · exact Or.inl (by omega)
        · refine Or.inr ⟨l1.trans l2, ?_⟩
          rcases h1 with ⟨t1, t1'⟩ | ⟨t1, r1⟩
          · rcases h2 with ⟨t2, t2'⟩ | ⟨t2, r2⟩
            · simp_all
            · exact Or.inl ⟨t1, by rw [← t2]; exact t1'⟩
          · rcases h2 with ⟨t2, t2'⟩ | ⟨t2, r2⟩
            · exact Or.inl ⟨by rw [t1]; exact t2, t2'⟩
            · refine Or.inr ⟨t1.trans t2, ?_⟩
              have := routeLe_trans x.route y.route z.route (by simp [r1]) (by simp [r2])
              simpa using this

/-- `byNameLe` refines the byte order on names -/
theorem byNameLe_name (x y : AField) (h : byNameLe x y = true) : bytesLe x.name y.name = true := by
  rw [byNameLe_iff] at h
  rcases h with h | ⟨e, _⟩
  · simp [bytesLe, bytesLt_asymm _ _ h]
  · rw [e]; exact bytesLe_refl _

theorem byNameLe_depth (x y : AField) (hn : x.name = y.name) (h : byNameLe x y = true) :
    x.route.length ≤ y.route.length := by
  rw [byNameLe_iff] at h
  rcases h with h | ⟨e, h⟩
  · rw [hn, bytesLt_irrefl] at h; cases h
  · rcases h with h | ⟨h, _⟩ <;> omega

/-! ### `rfcLe` is a total preorder -/

theorem rfcLe_total (x y : AField) : rfcLe x y = true ∨ rfcLe y x = true := by
  unfold rfcLe
  by_cases h : x.name.length = y.name.length
  · simp [h]; exact bytesLe_total _ _
  · have h' : ¬ y.name.length = x.name.length := fun e => h e.symm
    simp [h, h']; omega

theorem rfcLe_trans (x y z : AField) (h1 : rfcLe x y = true) (h2 : rfcLe y z = true) : rfcLe x z = true := by
  unfold rfcLe at *
  by_cases hab : x.name.length = y.name.length <;> by_cases hbc : y.name.length = z.name.length
  · have hac : x.name.length = z.name.length := by omega
    simp [hab, hbc, hac] at *
    exact bytesLe_trans _ _ _ (by simpa [hab, hbc] using h1) h2
  · have hac : ¬ x.name.length = z.name.length := by omega
    simp [hab, hbc, hac] at *
    omega
  · have hac : ¬ x.name.length = z.name.length := by omega
    simp [hab, hbc, hac] at *
    omega
  · simp [hab, hbc] at h1 h2
    have hac : ¬ x.name.length = z.name.length := by omega
    simp [hac]; omega

/-! ### `dominantField` is the promotion rule on a sorted same-name group -/

theorem foldl_min_eq (d : Nat) : ∀ (ds : List Nat), (∀ x ∈ ds, d ≤ x) → ds.foldl min d = d := by
  intro ds
  induction ds with
  | nil => intro _; rfl
  | cons a ds ih =>
    intro h
    have ha := h a (by simp)
    simp only [List.foldl_cons]
    rw [Nat.min_eq_left ha]
    exact ih (fun x hx => h x (by simp [hx]))

theorem takeWhile_eq_filter_depth (d : Nat) : ∀ (l : List AField), (∀ x ∈ l, d ≤ x.route.length) →
    l.Pairwise (fun x y => x.route.length ≤ y.route.length) →
    l.takeWhile (fun f => f.route.length == d) = l.filter (fun f => f.route.length == d) := by
  intro l
  induction l with
  | nil => intro _ _; rfl
  | cons a l ih =>
    intro hd hp
    rw [List.pairwise_cons] at hp
    by_cases ha : a.route.length = d
    · have ha' : (a.route.length == d) = true := by simp [ha]
      rw [List.takeWhile_cons, List.filter_cons]
      simp only [ha', if_true]
      rw [ih (fun x hx => hd x (by simp [hx])) hp.2]
    · have ha' : (a.route.length == d) = false := by simp [ha]
      rw [List.takeWhile_cons, List.filter_cons]
      simp only [ha', Bool.false_eq_true, if_false]
      symm
      rw [List.filter_eq_nil_iff]
      intro x hx
      have h1 := hp.1 x hx
      have h2 := hd a (by simp)
      simp only [beq_iff_eq]
      omega

theorem dominant_is_select (g : List AField) (name : Bytes) (hn : ∀ f ∈ g, f.name = name) (hne : g ≠ [])
    (hs : g.Pairwise (fun x y => byNameLe x y = true)) :
    dominantField g = selectName g name := by
  cases g with
  | nil => exact absurd rfl hne
  | cons f0 tl =>
    have hfilt : (f0 :: tl).filter (fun f => f.name == name) = f0 :: tl := by
      rw [List.filter_eq_self]
      intro a ha
      simp [hn a ha]
    have hdepth : (f0 :: tl).Pairwise (fun x y => x.route.length ≤ y.route.length) := by
      refine List.Pairwise.imp_of_mem ?_ hs
      intro a b ha hb hab
      exact byNameLe_depth a b ((hn a ha).trans (hn b hb).symm) hab
    have hmin : ∀ x ∈ f0 :: tl, f0.route.length ≤ x.route.length := by
      intro x hx
      rw [List.mem_cons] at hx
      rcases hx with rfl | hx
      · exact Nat.le_refl _
      · exact (List.pairwise_cons.mp hdepth).1 x hx
    have hfold : (tl.map (·.route.length)).foldl min f0.route.length = f0.route.length := by
      apply foldl_min_eq
      intro x hx
      rw [List.mem_map] at hx
      obtain ⟨a, ha, rfl⟩ := hx
      exact hmin a (by simp [ha])
    unfold dominantField selectName
    simp only [hfilt, List.map_cons, hfold]
    rw [takeWhile_eq_filter_depth f0.route.length (f0 :: tl) hmin hdepth]

/-! ### `groupByName` on a name-sorted list -/

/-- the selection applied to each group in `exploreFields` -/
def pick (g : List AField) : Option AField :=
  match g with
  | [x] => some x
  | _ => dominantField g

/-- sorted by name (what `mergeSort byNameLe` guarantees, forgetting the secondary keys) -/
def NameSorted (l : List AField) : Prop := l.Pairwise (fun x y => bytesLe x.name y.name = true)

theorem NameSorted.of_byNameLe {l : List AField} (h : l.Pairwise (fun x y => byNameLe x y = true)) : NameSorted l :=
  List.Pairwise.imp (fun {a b} hab => byNameLe_name a b hab) h

theorem NameSorted.sublist {l l' : List AField} (hs : l'.Sublist l) (h : NameSorted l) : NameSorted l' :=
  List.Pairwise.sublist hs h

theorem dominantField_mem (g : List AField) (x : AField) (h : dominantField g = some x) : x ∈ g := by
  cases g with
  | nil => simp [dominantField] at h
  | cons f0 tl =>
    unfold dominantField at h
    simp only at h
    split at h
    · rename_i t ht
      simp only [Option.some.injEq] at h
      subst h
      have : t ∈ List.filter (·.tagged) (List.takeWhile (fun f => f.route.length == f0.route.length) (f0 :: tl)) := by
        rw [ht]; simp
      exact (List.takeWhile_sublist _).subset (List.mem_filter.mp this).1
    · cases h
    · split at h
      · rename_i y hy
        simp only [Option.some.injEq] at h
        subst h
        have : y ∈ List.takeWhile (fun f => f.route.length == f0.route.length) (f0 :: tl) := by
          rw [hy]; simp
        exact (List.takeWhile_sublist _).subset this
      · cases h

theorem pick_eq_dominant (g : List AField) : pick g = dominantField g := by
  unfold pick
  split
  · rename_i x
    unfold dominantField
    cases hx : x.tagged <;> simp [hx]
  · rfl

theorem pick_mem (g : List AField) (x : AField) (h : pick g = some x) : x ∈ g := by
  rw [pick_eq_dominant] at h
  exact dominantField_mem g x h

theorem mem_takeWhile_imp {α : Type} {p : α → Bool} {l : List α} {x : α} (h : x ∈ l.takeWhile p) : p x = true := by
  have := List.all_takeWhile (p := p) (l := l)
  rw [List.all_eq_true] at this
  exact this x h

theorem groupByName_mem : ∀ (fuel : Nat) (l g : List AField), g ∈ groupByName fuel l → ∀ x ∈ g, x ∈ l := by
  intro fuel
  induction fuel with
  | zero => intro l g h; simp [groupByName] at h
  | succ fuel ih =>
    intro l g h x hx
    cases l with
    | nil => simp [groupByName] at h
    | cons f rest =>
      simp only [groupByName, List.mem_cons] at h
      rcases h with rfl | h
      · rw [List.mem_cons] at hx
        rcases hx with rfl | hx
        · simp
        · exact List.mem_cons_of_mem _ ((List.takeWhile_sublist _).subset hx)
      · exact List.mem_cons_of_mem _ ((List.dropWhile_sublist _).subset (ih _ g h x hx))

theorem picks_mem (fuel : Nat) (l : List AField) (x : AField)
    (h : x ∈ (groupByName fuel l).filterMap pick) : x ∈ l := by
  rw [List.mem_filterMap] at h
  obtain ⟨g, hg, hp⟩ := h
  exact groupByName_mem fuel l g hg x (pick_mem g x hp)

theorem sorted_between (f a : AField) (r : List AField) (hs : NameSorted (f :: a :: r)) (z : AField) (hz : z ∈ r)
    (hzn : z.name = f.name) : a.name = f.name := by
  unfold NameSorted at hs
  rw [List.pairwise_cons, List.pairwise_cons] at hs
  have h1 := hs.1 a (by simp)
  have h2 := hs.2.1 z hz
  rw [hzn] at h2
  exact bytesLe_antisymm _ _ h2 h1

theorem NameSorted.skip {f a : AField} {r : List AField} (hs : NameSorted (f :: a :: r)) : NameSorted (f :: r) :=
  hs.sublist (List.Sublist.cons_cons f (List.sublist_cons_self a r))

theorem takeWhile_eq_filter_name (f : AField) : ∀ (rest : List AField), NameSorted (f :: rest) →
    rest.takeWhile (fun x => x.name == f.name) = rest.filter (fun x => x.name == f.name) := by
  intro rest
  induction rest with
  | nil => intro _; rfl
  | cons a r ih =>
    intro hs
    rw [List.takeWhile_cons, List.filter_cons]
    by_cases ha : a.name = f.name
    · have ha' : (a.name == f.name) = true := by simp [ha]
      simp only [ha', if_true]
      rw [ih hs.skip]
    · have ha' : (a.name == f.name) = false := by simp [ha]
      simp only [ha', Bool.false_eq_true, if_false]
      symm
      rw [List.filter_eq_nil_iff]
      intro z hz
      simp only [beq_iff_eq]
      intro hzn
      exact ha (sorted_between f a r hs z hz hzn)

theorem dropWhile_ne (f : AField) : ∀ (rest : List AField), NameSorted (f :: rest) →
    ∀ z ∈ rest.dropWhile (fun x => x.name == f.name), z.name ≠ f.name := by
  intro rest
  induction rest with
  | nil => intro _ z hz; simp at hz
  | cons a r ih =>
    intro hs z hz
    rw [List.dropWhile_cons] at hz
    by_cases ha : a.name = f.name
    · have ha' : (a.name == f.name) = true := by simp [ha]
      simp only [ha', if_true] at hz
      exact ih hs.skip z hz
    · have ha' : (a.name == f.name) = false := by simp [ha]
      simp only [ha', Bool.false_eq_true, if_false, List.mem_cons] at hz
      rcases hz with rfl | hz
      · exact ha
      · intro hzn
        exact ha (sorted_between f a r hs z hz hzn)

theorem NameSorted.dropWhile {f : AField} {rest : List AField} (hs : NameSorted (f :: rest)) (p : AField → Bool) :
    NameSorted (rest.dropWhile p) :=
  hs.sublist ((List.dropWhile_sublist p).trans (List.sublist_cons_self f rest))

/-- the picked entries are strictly increasing by name -/
theorem picks_strict : ∀ (fuel : Nat) (l : List AField), NameSorted l →
    ((groupByName fuel l).filterMap pick).Pairwise
      (fun x y => bytesLe x.name y.name = true ∧ x.name ≠ y.name) := by
  intro fuel
  induction fuel with
  | zero => intro l _; simp [groupByName]
  | succ fuel ih =>
    intro l hs
    cases l with
    | nil => simp [groupByName]
    | cons f rest =>
      simp only [groupByName, List.filterMap_cons]
      have hrec := ih _ (hs.dropWhile (fun x => x.name == f.name))
      split
      · exact hrec
      · rename_i x hx
        rw [List.pairwise_cons]
        refine ⟨?_, hrec⟩
        intro y hy
        have hy' := picks_mem _ _ y hy
        have hxm := pick_mem _ x hx
        have hxn : x.name = f.name := by
          rw [List.mem_cons] at hxm
          rcases hxm with rfl | hxm
          · rfl
          · have := (mem_takeWhile_imp hxm)
            simpa using this
        have hyn := dropWhile_ne f rest hs y hy'
        have hyr : y ∈ rest := (List.dropWhile_sublist _).subset hy'
        have hle := (List.pairwise_cons.mp hs).1 y hyr
        rw [hxn]
        exact ⟨hle, fun e => hyn e.symm⟩

/-- on a name-sorted list the groups are exactly the non-empty name classes -/
theorem groups_iff : ∀ (fuel : Nat) (l : List AField), NameSorted l → l.length < fuel → ∀ g,
    (g ∈ groupByName fuel l ↔ g ≠ [] ∧ ∃ n, g = l.filter (fun x => x.name == n)) := by
  intro fuel
  induction fuel with
  | zero => intro l _ h; omega
  | succ fuel ih =>
    intro l hs hlen g
    cases l with
    | nil =>
      simp only [groupByName, List.not_mem_nil, List.filter_nil, false_iff, not_and, not_exists]
      intro h n; exact h
    | cons f rest =>
      have hdrop : (rest.dropWhile (fun x => x.name == f.name)).length < fuel := by
        have := (List.dropWhile_sublist (fun x : AField => x.name == f.name) (l := rest)).length_le
        simp only [List.length_cons] at hlen
        omega
      have hrec := ih _ (hs.dropWhile (fun x => x.name == f.name)) hdrop g
      have htake := takeWhile_eq_filter_name f rest hs
      have hsplit : ∀ n, n ≠ f.name → (f :: rest).filter (fun x => x.name == n) =
          (rest.dropWhile (fun x => x.name == f.name)).filter (fun x => x.name == n) := by
        intro n hn
        have hf : (f.name == n) = false := by simp; exact fun e => hn e.symm
        rw [List.filter_cons]
        simp only [hf, Bool.false_eq_true, if_false]
        conv => lhs; rw [← List.takeWhile_append_dropWhile (p := fun x => x.name == f.name) (l := rest)]
        rw [List.filter_append]
        have : (rest.takeWhile (fun x => x.name == f.name)).filter (fun x => x.name == n) = [] := by
          rw [List.filter_eq_nil_iff]
          intro z hz
          have := mem_takeWhile_imp hz
          simp only [beq_iff_eq] at this ⊢
          rw [this]; exact fun e => hn e.symm
        rw [this, List.nil_append]
      simp only [groupByName, List.mem_cons]
      constructor
      · rintro (rfl | h)
        · refine ⟨by simp, f.name, ?_⟩
          rw [List.filter_cons]
          simp [htake]
        · obtain ⟨hne, n, hg⟩ := hrec.mp h
          refine ⟨hne, n, ?_⟩
          have hn : n ≠ f.name := by
            cases g with
            | nil => exact absurd rfl hne
            | cons z g' =>
              have hz : z ∈ (rest.dropWhile (fun x => x.name == f.name)).filter (fun x => x.name == n) := by
                rw [← hg]; simp
              rw [List.mem_filter] at hz
              have := dropWhile_ne f rest hs z hz.1
              have h2 : z.name = n := by simpa using hz.2
              rw [← h2]; exact this
          rw [hsplit n hn]; exact hg
      · rintro ⟨hne, n, hg⟩
        by_cases hn : n = f.name
        · left
          subst hn
          rw [hg, List.filter_cons]
          simp [htake]
        · right
          rw [hsplit n hn] at hg
          exact hrec.mpr ⟨hne, n, hg⟩

theorem selectName_filter (l : List AField) (n : Bytes) :
    selectName (l.filter (fun x => x.name == n)) n = selectName l n := by
  unfold selectName
  simp only [List.filter_filter, Bool.and_self]

theorem selectName_some_ne (l : List AField) (n : Bytes) (f : AField) (h : selectName l n = some f) :
    l.filter (fun x => x.name == n) ≠ [] := by
  intro he
  unfold selectName at h
  simp [he] at h

/-- on a `byNameLe`-sorted list, group-and-pick is the promotion rule applied to every name -/
theorem mem_picks_iff (l : List AField) (hs : l.Pairwise (fun x y => byNameLe x y = true)) (f : AField) :
    f ∈ (groupByName (l.length + 1) l).filterMap pick ↔ ∃ n, selectName l n = some f := by
  rw [List.mem_filterMap]
  constructor
  · rintro ⟨g, hg, hp⟩
    obtain ⟨hne, n, rfl⟩ := (groups_iff _ l (NameSorted.of_byNameLe hs) (Nat.lt_succ_self _) g).mp hg
    refine ⟨n, ?_⟩
    rw [pick_eq_dominant, dominant_is_select _ n (by intro a ha; simpa using (List.mem_filter.mp ha).2) hne
      (List.Pairwise.sublist List.filter_sublist hs), selectName_filter] at hp
    exact hp
  · rintro ⟨n, hn⟩
    have hne := selectName_some_ne l n f hn
    refine ⟨l.filter (fun x => x.name == n), ?_, ?_⟩
    · exact (groups_iff _ l (NameSorted.of_byNameLe hs) (Nat.lt_succ_self _) _).mpr ⟨hne, n, rfl⟩
    · rw [pick_eq_dominant, dominant_is_select _ n (by intro a ha; simpa using (List.mem_filter.mp ha).2) hne
        (List.Pairwise.sublist List.filter_sublist hs), selectName_filter]
      exact hn

/-! ### `selectName` only depends on the multiset of candidates -/

def sel (tg top : List AField) : Option AField :=
  match tg with
  | [t] => some t
  | _ :: _ :: _ => none
  | [] => (match top with | [x] => some x | _ => none)

theorem selectName_eq_sel (cands : List AField) (name : Bytes) :
    selectName cands name =
      match (cands.filter (·.name == name)).map (·.route.length) with
      | [] => none
      | d :: ds =>
        sel (((cands.filter (·.name == name)).filter (·.route.length == ds.foldl min d)).filter (·.tagged))
          ((cands.filter (·.name == name)).filter (·.route.length == ds.foldl min d)) := by
  unfold selectName sel
  rfl

theorem sel_perm {tg tg' top top' : List AField} (h1 : tg.Perm tg') (h2 : top.Perm top') : sel tg top = sel tg' top' := by
  match tg, h1 with
  | [], h1 =>
    have := h1.nil_eq; subst this
    match top, h2 with
    | [], h2 => have := h2.nil_eq; subst this; rfl
    | [x], h2 => have := h2.singleton_eq; subst this; rfl
    | x :: y :: r, h2 =>
      have hl := h2.length_eq
      match top', hl with
      | a :: b :: r', _ => rfl
  | [t], h1 => have := h1.singleton_eq; subst this; rfl
  | x :: y :: r, h1 =>
    have hl := h1.length_eq
    match tg', hl with
    | a :: b :: r', _ => rfl

theorem foldl_min_spec : ∀ (ds : List Nat) (d : Nat), (∀ x ∈ d :: ds, ds.foldl min d ≤ x) ∧ ds.foldl min d ∈ d :: ds := by
  intro ds
  induction ds with
  | nil => intro d; simp
  | cons a ds ih =>
    intro d
    obtain ⟨h1, h2⟩ := ih (min d a)
    simp only [List.foldl_cons]
    constructor
    · intro x hx
      simp only [List.mem_cons] at hx
      have hm := h1 (min d a) (by simp)
      rcases hx with rfl | rfl | hx
      · exact Nat.le_trans hm (Nat.min_le_left _ _)
      · exact Nat.le_trans hm (Nat.min_le_right _ _)
      · exact h1 x (by simp [hx])
    · simp only [List.mem_cons] at h2 ⊢
      rcases h2 with h2 | h2
      · rw [h2]
        rcases Nat.le_total d a with h | h
        · left; exact Nat.min_eq_left h
        · right; left; exact Nat.min_eq_right h
      · right; right; exact h2

theorem foldl_min_perm (d d' : Nat) (ds ds' : List Nat) (h : (d :: ds).Perm (d' :: ds')) :
    ds.foldl min d = ds'.foldl min d' := by
  obtain ⟨h1, h2⟩ := foldl_min_spec ds d
  obtain ⟨h1', h2'⟩ := foldl_min_spec ds' d'
  have a := h1 _ (h.mem_iff.mpr h2')
  have b := h1' _ (h.mem_iff.mp h2)
  omega

theorem selectName_perm {l l' : List AField} (h : l.Perm l') (n : Bytes) : selectName l n = selectName l' n := by
  rw [selectName_eq_sel, selectName_eq_sel]
  have hcs := h.filter (fun x => x.name == n)
  have hmap := hcs.map (fun x => x.route.length)
  match h1 : (l.filter (fun x => x.name == n)).map (fun x => x.route.length),
        h2 : (l'.filter (fun x => x.name == n)).map (fun x => x.route.length) with
  | [], [] => rw [h1, h2]
  | [], _ :: _ => rw [h1, h2] at hmap; exact absurd hmap.nil_eq (by simp)
  | _ :: _, [] => rw [h1, h2] at hmap; exact absurd hmap.eq_nil (by simp)
  | d :: ds, d' :: ds' =>
    rw [h1, h2] at hmap ⊢
    simp only
    rw [foldl_min_perm d d' ds ds' hmap]
    exact sel_perm ((hcs.filter _).filter _) (hcs.filter _)

theorem sel_mem (tg top : List AField) (hsub : ∀ x ∈ tg, x ∈ top) (f : AField) (h : sel tg top = some f) : f ∈ top := by
  unfold sel at h
  split at h
  · simp only [Option.some.injEq] at h; subst h; exact hsub _ (by simp)
  · cases h
  · split at h
    · simp only [Option.some.injEq] at h; subst h; simp
    · cases h

theorem selectName_some (l : List AField) (n : Bytes) (f : AField) (h : selectName l n = some f) :
    f ∈ l ∧ f.name = n := by
  rw [selectName_eq_sel] at h
  split at h
  · cases h
  · have := sel_mem _ _ (fun x hx => (List.mem_filter.mp hx).1) f h
    have h2 := (List.mem_filter.mp this).1
    rw [List.mem_filter] at h2
    exact ⟨h2.1, by simpa using h2.2⟩

/-! ### the stages of `exploreFields` -/

def rawFields (ts : Types) (u : UTab) (root : Nat) : List AField := bfs ts u 64 [([], root)] [] [] []

def sortedFields (ts : Types) (u : UTab) (root : Nat) : List AField := (rawFields ts u root).mergeSort byNameLe

def pickedFields (ts : Types) (u : UTab) (root : Nat) : List AField :=
  (groupByName ((sortedFields ts u root).length + 1) (sortedFields ts u root)).filterMap pick

theorem exploreFields_eq (ts : Types) (u : UTab) (root : Nat) (mode : KeySort) :
    exploreFields ts u root mode =
      match mode with
      | .default => (pickedFields ts u root).mergeSort fun x y => !routeLt y.route x.route
      | .strings => pickedFields ts u root
      | .rfc7049 => (pickedFields ts u root).mergeSort rfcLe := by
  cases mode <;> rfl

theorem exploreFields_perm (ts : Types) (u : UTab) (root : Nat) (mode : KeySort) :
    (exploreFields ts u root mode).Perm (pickedFields ts u root) := by
  rw [exploreFields_eq]
  cases mode
  · exact List.mergeSort_perm _ _
  · exact List.Perm.refl _
  · exact List.mergeSort_perm _ _

theorem sortedFields_sorted (ts : Types) (u : UTab) (root : Nat) :
    (sortedFields ts u root).Pairwise (fun x y => byNameLe x y = true) :=
  List.pairwise_mergeSort (le := byNameLe) byNameLe_trans (fun x y => by simpa using byNameLe_total x y) _

theorem mem_exploreFields_raw (ts : Types) (u : UTab) (root : Nat) (mode : KeySort) (f : AField)
    (h : f ∈ exploreFields ts u root mode) : f ∈ rawFields ts u root := by
  have h1 := (exploreFields_perm ts u root mode).mem_iff.mp h
  have h2 := picks_mem _ _ f h1
  exact (List.mergeSort_perm _ _).mem_iff.mp h2

/-- `exploreFields` (any mode) is the promotion rule applied, name by name, to the raw BFS output -/
theorem mem_exploreFields_iff (ts : Types) (u : UTab) (root : Nat) (mode : KeySort) (f : AField) :
    f ∈ exploreFields ts u root mode ↔ ∃ n, selectName (rawFields ts u root) n = some f := by
  rw [(exploreFields_perm ts u root mode).mem_iff]
  unfold pickedFields
  rw [mem_picks_iff _ (sortedFields_sorted ts u root)]
  have hp : (sortedFields ts u root).Perm (rawFields ts u root) := List.mergeSort_perm _ _
  constructor
  · rintro ⟨n, hn⟩; exact ⟨n, by rw [← selectName_perm hp]; exact hn⟩
  · rintro ⟨n, hn⟩; exact ⟨n, by rw [selectName_perm hp]; exact hn⟩

theorem mem_promoted_iff (ts : Types) (u : UTab) (root : Nat) (f : AField) :
    f ∈ promoted ts u root ↔ ∃ n, selectName (candidates ts u 64 [] [] root) n = some f := by
  unfold promoted
  simp only [List.mem_filterMap]
  constructor
  · rintro ⟨n, _, hn⟩; exact ⟨n, hn⟩
  · rintro ⟨n, hn⟩
    refine ⟨n, ?_, hn⟩
    obtain ⟨hm, hname⟩ := selectName_some _ n f hn
    rw [List.mem_mergeSort, List.mem_eraseDups, List.mem_map]
    exact ⟨f, hm, hname⟩

end Refmt.Autogen
