-- unfolding lemmas and inversion of `fullTy` for the full-domain completeness theorem (RefmtProofs/Props/C13Full.lean)
import RefmtProofs.Lemmas.FullDefs
set_option linter.unusedSimpArgs false
set_option linter.unusedVariables false
namespace Refmt.Obj
open Refmt Refmt.C13 Refmt.C11

variable (ts : Types) (a : Atlas) (trs : Trs) (it : IfaceTys)

/-! ### one-level unfoldings -/

theorem rtF_succ (fuel id v) : rtF ts a trs it (fuel+1) id v =
    if (peel ts 64 0 id).1 == 0 then rtFB ts a trs it fuel (peel ts 64 0 id).2 (pickBare ts a (peel ts 64 0 id).2) v
    else match derefN (peel ts 64 0 id).1 v with
      | none => .ptr none
      | some inner =>
        if isNullSer ts a trs (peel ts 64 0 id).2 inner then .ptr none
        else wrapPtr (peel ts 64 0 id).1 (rtFB ts a trs it fuel (peel ts 64 0 id).2 (pickBare ts a (peel ts 64 0 id).2) inner) := by
  rw [rtF.eq_def] <;> rfl

theorem rtFB_prim (fuel id v) : rtFB ts a trs it (fuel+1) id .prim v = v := by
  rw [rtFB.eq_def]
  simp only
  rw [normBare.eq_def]
  simp only
  cases v <;> rfl

theorem rtFB_slice (fuel id e v) : rtFB ts a trs it (fuel+1) id (.slice e) v =
    (match v with | .slice (some vs) => .slice (some (vs.map (rtF ts a trs it fuel e))) | x => x) := by
  rw [rtFB.eq_def] <;> rfl
theorem rtFB_array (fuel id e v) : rtFB ts a trs it (fuel+1) id (.array e) v =
    (match v with | .arr vs => .arr (vs.map (rtF ts a trs it fuel e)) | x => x) := by
  rw [rtFB.eq_def] <;> rfl
theorem rtFB_map (fuel id kt vt mode v) : rtFB ts a trs it (fuel+1) id (.map kt vt mode) v =
    (match v with
     | .map (some es) =>
       .map (some ((sortKeys mode (es.map fun (k, x) => (keyStr k, x))).map fun (s, x) => (Val.str s, rtF ts a trs it fuel vt x)))
     | x => x) := by
  rw [rtFB.eq_def] <;> rfl
theorem rtFB_structMap (fuel id e fields v) : rtFB ts a trs it (fuel+1) id (.structMap e fields) v =
    structFold ts id fields v (rtF ts a trs it fuel) := by
  rw [rtFB.eq_def] <;> rfl
theorem rtFB_transform (fuel id e fn mty v) : rtFB ts a trs it (fuel+1) id (.transform e fn mty) v =
    (match trs.m fn v with
     | some tv => (trs.u fn (rtF ts a trs it fuel mty tv)).getD v
     | none => v) := by
  rw [rtFB.eq_def] <;> rfl
theorem rtFB_union (fuel id e members v) : rtFB ts a trs it (fuel+1) id (.union e members) v =
    (match v with
     | .iface (some (dt, dv)) =>
       (match members.find? fun (_, idx) => (a.pool[idx]?.map (·.ty)) == some dt with
        | some (_, idx) =>
          (match a.pool[idx]? with
           | some me => .iface (some (dt, rtFB ts a trs it fuel dt (machForEntry ts me) dv))
           | none => v)
        | none => v)
     | x => x) := by
  rw [rtFB.eq_def] <;> rfl
theorem rtFB_wild_none (fuel id) : rtFB ts a trs it (fuel+1) id .wildcard (.iface none) = .iface none := by
  rw [rtFB.eq_def] <;> rfl
theorem rtFB_wild_some (fuel id dt dv) : rtFB ts a trs it (fuel+1) id .wildcard (.iface (some (dt, dv))) =
    if isBareNullSer .pretty ts a trs dt dv then .iface none else
    (match pickBare ts a (peel ts 64 0 dt).2, derefN (peel ts 64 0 dt).1 dv with
     | .prim, some pv =>
       (match pv with
        | .bool b => .iface (some (it.bool, .bool b))
        | .int i => .iface (some (it.int, .int i))
        | .uint u => if u < two63 then .iface (some (it.int, .int u)) else .iface (some (it.uint64, .uint u))
        | .float b => .iface (some (normFloatIface .pretty it b))
        | .str s => .iface (some (it.str, .str s))
        | .bytes (some b) => .iface (some (it.bytes, .bytes (some b)))
        | .byteArr b => .iface (some (it.bytes, .bytes (some b)))
        | x => .iface (some (dt, x)))
     | .slice e, some (.slice (some vs)) =>
       .iface (some (it.sliceI, .slice (some (vs.map fun x => rtF ts a trs it fuel it.iface (boxAs ts e x)))))
     | .array e, some (.arr vs) =>
       .iface (some (it.sliceI, .slice (some (vs.map fun x => rtF ts a trs it fuel it.iface (boxAs ts e x)))))
     | .map _ vt mode, some (.map (some es)) =>
       .iface (some (it.mapSI, .map (some ((sortKeys mode (es.map fun (k, x) => (keyStr k, x))).map fun (s, x) =>
         (Val.str s, rtF ts a trs it fuel it.iface (boxAs ts vt x))))))
     | _, some pv =>
       .iface (some ((peel ts 64 0 dt).2, rtFB ts a trs it fuel (peel ts 64 0 dt).2 (pickBare ts a (peel ts 64 0 dt).2) pv))
     | _, none => .iface none) := by
  rw [rtFB.eq_def] <;> rfl

theorem normBare_transform (fuel id e fn mty v) : normBare .pretty ts a trs it (fuel+1) id (.transform e fn mty) v =
    (match trs.m fn v with
     | some tv => (trs.u fn (normV .pretty ts a trs it fuel mty tv)).getD v
     | none => v) := by
  rw [normBare.eq_def] <;> rfl
theorem normBare_union (fuel id e members v) : normBare .pretty ts a trs it (fuel+1) id (.union e members) v =
    (match v with
     | .iface (some (dt, dv)) =>
       (match members.find? fun (_, idx) => (a.pool[idx]?.map (·.ty)) == some dt with
        | some (_, idx) =>
          (match a.pool[idx]? with
           | some me => .iface (some (dt, normBare .pretty ts a trs it fuel dt (machForEntry ts me) dv))
           | none => v)
        | none => v)
     | x => x) := by
  rw [normBare.eq_def] <;> rfl
theorem normBare_wild_none (fuel id) : normBare .pretty ts a trs it (fuel+1) id .wildcard (.iface none) = .iface none := by
  rw [normBare.eq_def] <;> rfl
theorem normBare_wild_some (fuel id dt dv) : normBare .pretty ts a trs it (fuel+1) id .wildcard (.iface (some (dt, dv))) =
    if isBareNullSer .pretty ts a trs dt dv then .iface none else
    (match pickBare ts a (peel ts 64 0 dt).2, derefN (peel ts 64 0 dt).1 dv with
     | .prim, some pv =>
       (match pv with
        | .bool b => .iface (some (it.bool, .bool b))
        | .int i => .iface (some (it.int, .int i))
        | .uint u => if u < two63 then .iface (some (it.int, .int u)) else .iface (some (it.uint64, .uint u))
        | .float b => .iface (some (normFloatIface .pretty it b))
        | .str s => .iface (some (it.str, .str s))
        | .bytes (some b) => .iface (some (it.bytes, .bytes (some b)))
        | .byteArr b => .iface (some (it.bytes, .bytes (some b)))
        | x => .iface (some (dt, x)))
     | .slice e, some (.slice (some vs)) =>
       .iface (some (it.sliceI, .slice (some (vs.map fun x => normV .pretty ts a trs it fuel it.iface (boxAs ts e x)))))
     | .array e, some (.arr vs) =>
       .iface (some (it.sliceI, .slice (some (vs.map fun x => normV .pretty ts a trs it fuel it.iface (boxAs ts e x)))))
     | .map _ vt _, some (.map (some es)) =>
       .iface (some (it.mapSI, .map (some (es.map fun (k, x) => (k, normV .pretty ts a trs it fuel it.iface (boxAs ts vt x))))))
     | _, some pv =>
       .iface (some ((peel ts 64 0 dt).2, normBare .pretty ts a trs it fuel (peel ts 64 0 dt).2 (pickBare ts a (peel ts 64 0 dt).2) pv))
     | _, none => .iface none) := by
  rw [normBare.eq_def] <;> rfl

theorem fullVal_succ (g id v) : fullVal ts a trs it (g+1) id v =
    if (peel ts 64 0 id).1 == 0 then fullValB ts a trs it g (peel ts 64 0 id).2 (pickBare ts a (peel ts 64 0 id).2) v
    else match derefN (peel ts 64 0 id).1 v with
      | none => true
      | some inner => fullValB ts a trs it g (peel ts 64 0 id).2 (pickBare ts a (peel ts 64 0 id).2) inner := by
  rw [fullVal.eq_def] <;> rfl

theorem fullValB_slice (g id e v) : fullValB ts a trs it (g+1) id (.slice e) v =
    (match v with | .slice (some vs) => vs.all (fullVal ts a trs it g e) | _ => true) := by
  rw [fullValB.eq_def] <;> rfl
theorem fullValB_array (g id e v) : fullValB ts a trs it (g+1) id (.array e) v =
    (match v with | .arr vs => vs.all (fullVal ts a trs it g e) | _ => true) := by
  rw [fullValB.eq_def] <;> rfl
theorem fullValB_map (g id kt vt mode v) : fullValB ts a trs it (g+1) id (.map kt vt mode) v =
    (match v with
     | .map (some es) => strKeysB es && es.all (fun p => fullVal ts a trs it g vt p.2)
     | _ => true) := by
  rw [fullValB.eq_def] <;> rfl
theorem fullValB_structMap (g id e fields v) : fullValB ts a trs it (g+1) id (.structMap e fields) v =
    fields.all fun f =>
      !emitP v f || (match traverse f.route v with | some fv => fullVal ts a trs it g f.ty fv | none => true) := by
  rw [fullValB.eq_def] <;> rfl
theorem fullValB_transform (g id e fn mty v) : fullValB ts a trs it (g+1) id (.transform e fn mty) v =
    (match trs.m fn v with
     | some tv =>
       hasTy ts 1000 mty tv && fullVal ts a trs it g mty tv &&
       (trs.u fn (normV .pretty ts a trs it g mty tv)).isSome
     | none => true) := by
  rw [fullValB.eq_def] <;> rfl
theorem fullValB_union (g id e members v) : fullValB ts a trs it (g+1) id (.union e members) v =
    (match v with
     | .iface (some (dt, dv)) =>
       (match members.find? fun (_, idx) => (a.pool[idx]?.map (·.ty)) == some dt with
        | some (_, idx) =>
          (match a.pool[idx]? with
           | some me => fullValB ts a trs it g dt (machForEntry ts me) dv
           | none => true)
        | none => true)
     | _ => true) := by
  rw [fullValB.eq_def] <;> rfl
theorem fullValB_wild (g id dt dv) : fullValB ts a trs it (g+1) id .wildcard (.iface (some (dt, dv))) =
    (notPtrB (ts.get dt) &&
     (match pickBare ts a dt with
      | .prim => true
      | .slice _ =>
        dt == it.sliceI &&
        (match dv with | .slice (some vs) => vs.all (fullVal ts a trs it g it.iface) | _ => false)
      | .map _ _ _ =>
        dt == it.mapSI &&
        (match dv with
         | .map (some es) => strKeysB es && es.all (fun p => fullVal ts a trs it g it.iface p.2)
         | _ => false)
      | .structMap e _ =>
        taggedB a e && fullTy ts a 64 dt && fullValB ts a trs it g dt (pickBare ts a dt) dv
      | .transform e _ _ =>
        taggedB a e && fullTy ts a 64 dt && fullValB ts a trs it g dt (pickBare ts a dt) dv
      | _ => false)) := by
  rw [fullValB.eq_def] <;> rfl

/-! ### the marshaller's new machines -/

theorem marshalBare_transform (fuel id e fn mty v) : marshalBare ts a trs (fuel+1) id (.transform e fn mty) v =
    (match trs.m fn v with
     | none => .bad .err
     | some tv => retagFirst e.tag (marshalV ts a trs fuel mty tv)) := by
  rw [marshalBare.eq_def] <;> rfl

theorem marshalBare_wild (fuel id v) : marshalBare ts a trs (fuel+1) id .wildcard v =
    (match v with
     | .iface none => .ok [⟨.null, none⟩]
     | .iface (some (dt, dv)) => marshalV ts a trs fuel dt dv
     | _ => .bad .panic) := by
  rw [marshalBare.eq_def] <;> rfl

theorem marshalBare_union (fuel id e members v) : marshalBare ts a trs (fuel+1) id (.union e members) v =
    (match v with
     | .iface none => .bad .err
     | .iface (some (dt, dv)) =>
       (match members.find? fun (_, idx) => (a.pool[idx]?.map (·.ty)) == some dt with
        | none => .bad .err
        | some (name, idx) =>
          (match a.pool[idx]? with
           | none => .bad .panic
           | some me =>
             (match (marshalBare ts a trs fuel dt (machForEntry ts me) dv).toks, (marshalBare ts a trs fuel dt (machForEntry ts me) dv).fail with
              | [], some f => .bad f
              | _, _ =>
                (MOut.ok [⟨.mapOpen 1, none⟩, ⟨.str name, none⟩]).seq fun _ =>
                (marshalBare ts a trs fuel dt (machForEntry ts me) dv).seq fun _ => .ok [⟨.mapClose, none⟩])))
     | _ => .bad .panic) := by
  rw [marshalBare.eq_def] <;> rfl

/-! ### pointer chains -/

theorem full_peel : ∀ (p k c id : Nat), fullTy ts a p id = true → p ≤ k →
    ∃ n base p', peel ts k c id = (c + n, base) ∧ fullTy ts a (p' + 1) base = true ∧ (∀ e, ts.get base ≠ .ptr e) ∧ chain ts n id base ∧ p' + 1 ≤ p := by
  intro p
  induction p with
  | zero => intro k c id h; simp [fullTy] at h
  | succ p ih =>
    intro k c id h hk
    obtain ⟨k, rfl⟩ : ∃ k', k = k' + 1 := ⟨k - 1, by omega⟩
    cases hd : ts.get id with
    | ptr e =>
      have he : fullTy ts a p e = true := by simpa [fullTy, hd] using h
      obtain ⟨n, base, p', h1, h2, h3, h4, h5⟩ := ih k (c + 1) e he (by omega)
      refine ⟨n + 1, base, p', ?_, h2, h3, ⟨e, hd, h4⟩, by omega⟩
      simp [peel, hd, h1]; omega
    | _ =>
      refine ⟨0, id, p, ?_, h, ?_, rfl, by omega⟩
      · simp [peel, hd]
      · simp [hd]

theorem fullTy_mono : ∀ (p q id : Nat), fullTy ts a p id = true → p ≤ q → fullTy ts a q id = true := by
  intro p
  induction p with
  | zero => intro q id h; simp [fullTy] at h
  | succ p ih =>
    intro q id h hq
    obtain ⟨q, rfl⟩ : ∃ q', q = q' + 1 := ⟨q - 1, by omega⟩
    have hpq : p ≤ q := by omega
    rw [fullTy] at h ⊢
    split at h
    · exact ih q _ h hpq
    · rename_i d hnp
      split at h
      · split at h <;> first | exact h | (exact ih q _ h hpq) | skip
        · simp only [Bool.and_eq_true] at h ⊢
          exact ⟨h.1, ih q _ h.2 hpq⟩
      · rename_i reg ty tag k hg
        split at h
        · split at h
          · simp only [Bool.and_eq_true, List.all_eq_true] at h ⊢
            exact ⟨h.1, fun f hf => ⟨(h.2 f hf).1, ih q _ (h.2 f hf).2 hpq⟩⟩
          · exact h
        · simp only [Bool.and_eq_true] at h ⊢
          exact ⟨h.1, ih q _ h.2 hpq⟩
        · split at h
          · simp only [Bool.and_eq_true, List.all_eq_true] at h ⊢
            refine ⟨h.1, fun m hm => ?_⟩
            have := h.2 m hm
            split at this
            · simp only [Bool.and_eq_true] at this ⊢
              exact ⟨this.1, ih q _ this.2 hpq⟩
            · exact this
          · exact h
        · exact h


/-! ### inversion of `fullTy` -/

variable {ts a}

/-- what `fullTy` says about one field of a struct-map entry -/
def FOKF (ts : Types) (a : Atlas) (p : Nat) (fds : List FieldDesc) (fld : SMField) : Prop :=
  fld.ignore = false ∧ ∃ i fd, fld.route = [i] ∧ fds[i]? = some fd ∧ fd.ty = fld.ty ∧ fullTy ts a p fld.ty = true

/-- what `fullTy` says about one member of a keyed union -/
def MOKF (ts : Types) (a : Atlas) (p : Nat) (m : Bytes × Nat) : Prop :=
  ∃ me fs fds, a.pool[m.2]? = some me ∧ a.get me.ty = some me ∧ me.k = .structMap fs ∧ ts.get me.ty = .struct fds ∧
    fullTy ts a p me.ty = true

inductive FullView (ts : Types) (a : Atlas) (p id : Nat) : Prop
  | prim (k : Kind) (b : Bool) (hd : ts.get id = .prim k b) (hn : a.get id = none)
  | bytes (b : Bool) (hd : ts.get id = .bytes b) (hn : a.get id = none)
  | byteArr (n : Nat) (hd : ts.get id = .byteArr n) (hn : a.get id = none)
  | slice (e : Nat) (hd : ts.get id = .slice e) (hn : a.get id = none) (he : fullTy ts a p e = true)
  | arr (n e : Nat) (hd : ts.get id = .arr n e) (hn : a.get id = none) (he : fullTy ts a p e = true)
  | map (kt vt : Nat) (bk : Bool) (hd : ts.get id = .map kt vt) (hn : a.get id = none) (hkt : ts.get kt = .prim .string bk)
      (he : fullTy ts a p vt = true)
  | wild (hd : ts.get id = .iface false) (hn : a.get id = none)
  | struct (fds : List FieldDesc) (reg : Bool) (ty : Nat) (tag : Option Int) (fields : List SMField)
      (hd : ts.get id = .struct fds) (he : a.get id = some ⟨reg, ty, tag, .structMap fields⟩)
      (hnames : (fields.map (·.name)).Nodup) (hroutes : (fields.map (·.route)).Nodup)
      (hf : ∀ fld ∈ fields, FOKF ts a p fds fld)
  | transform (reg : Bool) (ty : Nat) (tag : Option Int) (fn mty : Nat)
      (hb : isBuiltin (ts.get id) = false) (he : a.get id = some ⟨reg, ty, tag, .transform fn mty mty⟩)
      (hmp : ∀ e, ts.get mty ≠ .ptr e) (htb : tag = none ∨ tagBlind ts a mty = true) (hm : fullTy ts a p mty = true)
  | union (m : Bool) (reg : Bool) (ty : Nat) (tag : Option Int) (members : List (Bytes × Nat))
      (hd : ts.get id = .iface m) (he : a.get id = some ⟨reg, ty, tag, .union members⟩)
      (hnames : (members.map (·.1)).Nodup) (hm : ∀ mem ∈ members, MOKF ts a p mem)

theorem notPtrB_iff (d : TyDesc) : notPtrB d = true ↔ ∀ e, d ≠ .ptr e := by
  cases d <;> simp [notPtrB]

theorem fullTy_view_none {p id : Nat} (hp : fullTy ts a (p+1) id = true) (hnp : ∀ e, ts.get id ≠ .ptr e)
    (hg : a.get id = none) : FullView ts a p id := by
  cases hd : ts.get id with
  | ptr e => exact absurd hd (hnp e)
  | prim k b => exact .prim k b hd hg
  | bytes b => exact .bytes b hd hg
  | byteArr n => exact .byteArr n hd hg
  | slice e => exact .slice e hd hg (by simpa [fullTy, hd, hg] using hp)
  | arr n e => exact .arr n e hd hg (by simpa [fullTy, hd, hg] using hp)
  | map kt vt =>
    simp only [fullTy, hd, hg, Bool.and_eq_true] at hp
    obtain ⟨hkt, hv⟩ := hp
    split at hkt
    · rename_i bk hh; exact .map kt vt bk hd hg hh hv
    · cases hkt
  | iface m =>
    simp only [fullTy, hd, hg] at hp
    cases m with
    | false => exact .wild hd hg
    | true => simp at hp
  | struct fds => simp [fullTy, hd, hg] at hp
  | other => simp [fullTy, hd, hg] at hp

theorem fieldOkB_inv {fds : List FieldDesc} {f : SMField} (h : fieldOkB fds f = true) :
    f.ignore = false ∧ ∃ i fd, f.route = [i] ∧ fds[i]? = some fd ∧ fd.ty = f.ty := by
  unfold fieldOkB at h
  simp only [Bool.and_eq_true] at h
  obtain ⟨hi, hr⟩ := h
  split at hr
  · rename_i i hroute
    split at hr
    · rename_i fd hfd
      simp only [Bool.and_eq_true, beq_iff_eq] at hr
      exact ⟨by simpa using hi, i, fd, hroute, hfd, hr.2⟩
    · cases hr
  · cases hr

theorem fullTy_view_struct {p id : Nat} {reg : Bool} {ty : Nat} {tag : Option Int} {fields : List SMField}
    (hp : fullTy ts a (p+1) id = true) (hnp : ∀ e, ts.get id ≠ .ptr e)
    (hg : a.get id = some ⟨reg, ty, tag, .structMap fields⟩) : FullView ts a p id := by
  cases hd : ts.get id with
  | ptr e => exact absurd hd (hnp e)
  | struct fds =>
    simp only [fullTy, hd, hg, Bool.and_eq_true, decide_eq_true_eq, List.all_eq_true] at hp
    obtain ⟨⟨h1, h2⟩, h3⟩ := hp
    refine .struct fds reg ty tag fields hd hg h1 h2 (fun fld hf => ?_)
    obtain ⟨hi, i, fd, hr, hfd, hty⟩ := fieldOkB_inv (h3 fld hf).1
    exact ⟨hi, i, fd, hr, hfd, hty, (h3 fld hf).2⟩
  | _ => simp [fullTy, hd, hg] at hp

theorem fullTy_view_transform {p id : Nat} {reg : Bool} {ty : Nat} {tag : Option Int} {fn mty uty : Nat}
    (hp : fullTy ts a (p+1) id = true) (hnp : ∀ e, ts.get id ≠ .ptr e)
    (hg : a.get id = some ⟨reg, ty, tag, .transform fn mty uty⟩) : uty = mty ∧ FullView ts a p id := by
  have key : (!isBuiltin (ts.get id) && mty == uty && notPtrB (ts.get mty) && (tag.isNone || tagBlind ts a mty) &&
      fullTy ts a p mty) = true := by
    cases hd : ts.get id with
    | ptr e => exact absurd hd (hnp e)
    | _ => simpa [fullTy, hd, hg] using hp
  simp only [Bool.and_eq_true, Bool.not_eq_true', beq_iff_eq, Bool.or_eq_true, Option.isNone_iff_eq_none] at key
  obtain ⟨⟨⟨⟨h1, h2⟩, h3⟩, h4⟩, h5⟩ := key
  subst h2
  exact ⟨rfl, .transform reg ty tag fn mty h1 hg ((notPtrB_iff _).mp h3) h4 h5⟩

theorem fullTy_view_union {p id : Nat} {reg : Bool} {ty : Nat} {tag : Option Int} {members : List (Bytes × Nat)}
    (hp : fullTy ts a (p+1) id = true) (hnp : ∀ e, ts.get id ≠ .ptr e)
    (hg : a.get id = some ⟨reg, ty, tag, .union members⟩) : FullView ts a p id := by
  cases hd : ts.get id with
  | ptr e => exact absurd hd (hnp e)
  | iface m =>
    simp only [fullTy, hd, hg, Bool.and_eq_true, decide_eq_true_eq, List.all_eq_true] at hp
    obtain ⟨h1, h2⟩ := hp
    refine .union m reg ty tag members hd hg h1 (fun mem hmem => ?_)
    have := h2 mem hmem
    split at this
    · rename_i me hme
      simp only [Bool.and_eq_true, beq_iff_eq] at this
      obtain ⟨⟨⟨ha, hk⟩, hs⟩, hf⟩ := this
      split at hk
      · rename_i fs hfs
        split at hs
        · rename_i fds hfds
          exact ⟨me, fs, fds, hme, ha, hfs, hfds, hf⟩
        · cases hs
      · cases hk
    · cases this
  | _ => simp [fullTy, hd, hg] at hp

theorem fullTy_view {p id : Nat} (hp : fullTy ts a (p+1) id = true) (hnp : ∀ e, ts.get id ≠ .ptr e) :
    FullView ts a p id := by
  cases hg : a.get id with
  | none => exact fullTy_view_none hp hnp hg
  | some e =>
    obtain ⟨reg, ty, tag, k⟩ := e
    cases k with
    | structMap fields => exact fullTy_view_struct hp hnp hg
    | transform fn mty uty =>
      obtain ⟨rfl, h⟩ := fullTy_view_transform hp hnp hg
      exact h
    | union members => exact fullTy_view_union hp hnp hg
    | mapMorph mode =>
      exfalso
      cases hd : ts.get id with
      | ptr e => exact absurd hd (hnp e)
      | _ => simp [fullTy, hd, hg] at hp
    | invalid =>
      exfalso
      cases hd : ts.get id with
      | ptr e => exact absurd hd (hnp e)
      | _ => simp [fullTy, hd, hg] at hp

end Refmt.Obj
