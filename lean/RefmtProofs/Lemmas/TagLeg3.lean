/-
  C12, claim (ii) with tags — the induction over `fullTy`: scalars (LegRT3.lean with `Hd2T`), untyped slots, and TAGGED
  entries.  See RefmtProofs/Props/C12Tagged.lean.

  An untyped slot reads its own rendering exactly as the untyped pass does, so for a slot the claim is the re-marshal
  property of the round-trip value (`IDM`, TagIdm*.lean).  For a tagged entry the untyped pass reconstructs the
  registered type (`unmWild`, `getByTag`): the value read is `(e.ty, rtF v)`, and re-marshalling it is again `IDM`.
-/
import RefmtProofs.Lemmas.TagLeg2
set_option linter.unusedSimpArgs false
set_option linter.unusedVariables false
namespace Refmt.Obj
open Refmt Refmt.C13 Refmt.C11 Refmt.C12 Refmt.C12L Refmt.C01L

variable {ts : Types} {a : Atlas} {trs : Trs} {it : IfaceTys}

/-! ### scalar tokens -/

theorem legt_b_prim {f} (he : UEnv ts a it) (h id : Nat) (v : Val) (toks : List Tok) (g : Nat) (hv : hasTy ts h id v = true)
    (hd : (∃ k b, ts.get id = .prim k b) ∨ (∃ b, ts.get id = .bytes b) ∨ (∃ n, ts.get id = .byteArr n))
    (hpick : pickBare ts a id = .prim ∧ upickBare ts a id = .prim) (hg : f + 1 ≤ g)
    (hm : marshalBare ts a trs (f+1) id (pickBare ts a id) v = ⟨toks, none⟩) :
    LegBT ts a trs it id toks (rtFB ts a trs it g id (pickBare ts a id) v) := by
  obtain ⟨g, rfl⟩ : ∃ g', g = g' + 1 := ⟨g - 1, by omega⟩
  rw [hpick.1, marshalBare_prim] at hm
  obtain ⟨tok, htok, hs, -, -, -⟩ := prim_rt ts h id v toks hv hd hm
  obtain ⟨b, rfl, hb⟩ := primTok_tok it hm
  cases htok
  rw [hpick.1, rtFB_prim]
  rcases hb with rfl | ⟨u, b', hsc⟩
  · refine ⟨_, _, 3, (UP_null he).toT, fun F hF rest => ?_⟩
    obtain ⟨F, rfl⟩ : ∃ F', F = F' + 1 := ⟨F - 1, by omega⟩
    rw [hpick.2]
    simp [unmBare_prim, hs]
  · refine ⟨_, _, 5, (UP_scalar he b b' u hsc).toT, fun F hF rest => ?_⟩
    obtain ⟨F, rfl⟩ : ∃ F', F = F' + 1 := ⟨F - 1, by omega⟩
    rw [hpick.2]
    simp [unmBare_prim, storePrim_scalU (it := it) _ hsc, hs]

/-! ### untyped slots -/

/-- an untyped slot reads its own rendering as the untyped pass does: the claim for the slot is the re-marshal property
    of its round-trip value -/
theorem legt_b_wild {f : Nat} (he : UEnv ts a it) {id : Nat} {toks : List Tok} {w : Val}
    (hd : ts.get id = .iface false) (hn : a.get id = none)
    (hR : RBare ts a trs it f id toks w) (hI : IdmB ts a trs it id toks w) : LegBT ts a trs it id toks w := by
  obtain ⟨tk2, N, hhd, hgood⟩ := hI
  dsimp only at hhd hgood
  obtain ⟨hpk, hupk⟩ := pick_wild hd hn
  have hmeth : ifaceMeth ts id = false := by simp [ifaceMeth, hd]
  have hmethI : ifaceMeth ts it.iface = false := by simp [ifaceMeth, he.iface]
  refine ⟨w, tk2, max N (f + 2) + 2, ⟨hhd, fun F hF => ⟨fun rest => ?_, ?_⟩⟩, fun F hF => (hgood F (by omega)).2⟩
  · obtain ⟨F, rfl⟩ : ∃ F', F = F' + 2 := ⟨F - 2, by omega⟩
    obtain ⟨t, r, rfl, -, -⟩ := hR.1.head
    have h1 := hR.2 (F + 1) (by omega) rest
    rw [hupk, List.cons_append, unmBare_wild, hmeth] at h1
    rw [List.cons_append, unmV_nonptr ts a trs it (by simp [he.iface]), C12.upick_iface he, unmBare_wild, hmethI]
    exact h1
  · obtain ⟨F, rfl⟩ : ∃ F', F = F' + 1 := ⟨F - 1, by omega⟩
    have h2 := (hgood F (by omega)).1
    rw [hpk] at h2
    rw [marshalV_nonptr ts a trs (by simp [he.iface]), C12.pick_iface he, mB_wild_id F it.iface id]
    exact h2

/-! ### tagged entries -/

/-- the untyped pass on the rendering of a registered tagged type: the slot reconstructs the type (`getByTag`), the
    re-marshal writes the reconstructed value at that type -/
theorem upt_tagged (he : UEnv ts a it) {dt : Nat} {tg : Int} {e : Entry} (hbt : a.getByTag tg = some e) (hety : e.ty = dt)
    (hnp : ∀ x, ts.get dt ≠ .ptr x) {tk tk2 : List Tok} {R : Val} {N : Nat} (hhd : Hd2T tk tk2)
    (htag : ∀ t r, tk = t :: r → t.tag = some tg)
    (hrd : ∀ F, N ≤ F → RdB ts a trs it F dt tk R)
    (hm : ∀ F, N ≤ F → marshalBare ts a trs F dt (pickBare ts a dt) R = ⟨tk2, none⟩) :
    UPT ts a trs it (N + 3) tk (.iface (some (dt, R))) tk2 := by
  subst hety
  have hmethI : ifaceMeth ts it.iface = false := by simp [ifaceMeth, he.iface]
  refine ⟨hhd, fun F hF => ⟨fun rest => ?_, ?_⟩⟩
  · obtain ⟨F, rfl⟩ : ∃ F', F = F' + 3 := ⟨F - 3, by omega⟩
    obtain ⟨t, r, rfl, -, -⟩ := hhd.head1
    have ht := htag t r rfl
    obtain ⟨tb, tt⟩ := t
    simp only at ht
    subst ht
    have h1 := hrd F (by omega) rest
    unfold RdB at h1
    rw [List.cons_append, ← unmV_nonptr ts a trs it hnp] at h1
    rw [List.cons_append, unmV_nonptr ts a trs it (by simp [he.iface]), C12.upick_iface he, zeroVal_iface he]
    have := wild_tagged (ts := ts) (a := a) (trs := trs) (it := it) it.iface hmethI tg e hbt hnp tb r R F _ rest
      (by rw [List.cons_append]; exact h1) (.iface none)
    rw [List.cons_append] at this
    exact this
  · obtain ⟨F, rfl⟩ : ∃ F', F = F' + 3 := ⟨F - 3, by omega⟩
    rw [mV_some trs he, marshalV_nonptr ts a trs hnp]
    exact hm F (by omega)

/-- a registered tagged type at a typed position -/
theorem legt_b_tagged {f : Nat} (he : UEnv ts a it) {id : Nat} {tg : Int} {e : Entry} (hbt : a.getByTag tg = some e)
    (hety : e.ty = id) (hnp : ∀ x, ts.get id ≠ .ptr x) {toks : List Tok} {w : Val}
    (htag : ∀ t r, toks = t :: r → t.tag = some tg)
    (hR : RBare ts a trs it f id toks w) (hI : IdmB ts a trs it id toks w) : LegBT ts a trs it id toks w := by
  obtain ⟨tk2, N, hhd, hgood⟩ := hI
  dsimp only at hhd hgood
  have hup := upt_tagged (trs := trs) he hbt hety hnp (N := max N (f + 2)) hhd htag
    (fun F hF rest => hR.2 F (by omega) rest) (fun F hF => (hgood F (by omega)).1)
  exact ⟨_, tk2, max N (f + 2) + 3, ⟨hup, fun F hF => (hgood F (by omega)).2⟩⟩

end Refmt.Obj
