/-
  Simulation lemmas for the map machine.
-/
import RefmtProofs.Lemmas.MarshalMachSimB
open Refmt Refmt.Obj Refmt.Obj.MM
set_option linter.unusedVariables false
set_option linter.unusedSimpArgs false

namespace Refmt.MachL

variable {ts : Types} {a : Atlas} {trs : Trs}

/-- the map machine's row after Reset and some steps -/
def mrow (row : Row) (v : Val) (vt : Nat) (d : MRef) (kf : Option Nat) (keys : List (Bytes × Val)) (i : Int) (b : Bool) :
    Row :=
  { row with map := { morphism := row.map.morphism, target_rv := v, value_rt := vt, keyStringer := kf,
                      valueMach := some d, keys := keys, index := i, value := b } }

theorem mrow_ptr (row v vt d kf keys i b) : (mrow row v vt d kf keys i b).ptr = row.ptr := rfl
theorem agreeW_mrow (mk : Mask) (row v vt d kf keys i b) : agreeW mk row (mrow row v vt d kf keys i b) :=
  ⟨fun _ => rfl, fun _ => rfl, fun _ => rfl⟩

theorem stepM_map_at {n lo row hi st cur be} :
    stepM ts a trs (n+1) ⟨lo.length, .map⟩ ⟨lo ++ row :: hi, st, cur, be⟩ =
      stepMap (recurse ts a trs n) ⟨lo.length, .map⟩ row ⟨lo ++ row :: hi, st, cur, be⟩ := by
  simp only [stepM_at, stepBody, getRow]

theorem stepMap_open {rc : RecurseF} {lo row hi es vt d kf keys b st cur be} :
    stepMap rc ⟨lo.length, .map⟩ (mrow row (.map (some es)) vt d kf keys (-1) b)
        ⟨lo ++ mrow row (.map (some es)) vt d kf keys (-1) b :: hi, st, cur, be⟩ =
      .ok ⟨⟨.mapOpen es.length, none⟩, false,
        ⟨lo ++ mrow row (.map (some es)) vt d kf keys (0 : Nat) b :: hi, st, cur, be⟩⟩ := by
  simp [stepMap, mrow, upd_at, MapM.incr, tk]

theorem stepMap_nil {rc : RecurseF} {lo row hi vt d kf keys b st cur be} :
    stepMap rc ⟨lo.length, .map⟩ (mrow row (.map none) vt d kf keys (-1) b)
        ⟨lo ++ mrow row (.map none) vt d kf keys (-1) b :: hi, st, cur, be⟩ =
      .ok ⟨⟨.null, none⟩, true, ⟨lo ++ mrow row (.map none) vt d kf keys (0 : Nat) b :: hi, st, cur, be⟩⟩ := by
  simp [stepMap, mrow, upd_at, MapM.incr, tk]

theorem stepMap_key {rc : RecurseF} {lo row hi v vt d kf keys st cur be k x} {i : Nat}
    (hk : keys[i]? = some (k, x)) :
    stepMap rc ⟨lo.length, .map⟩ (mrow row v vt d kf keys i false)
        ⟨lo ++ mrow row v vt d kf keys i false :: hi, st, cur, be⟩ =
      .ok ⟨⟨.str k, none⟩, false, ⟨lo ++ mrow row v vt d kf keys i true :: hi, st, cur, be⟩⟩ := by
  have hlt : i < keys.length := by
    rcases Nat.lt_or_ge i keys.length with h | h
    · exact h
    · simp [List.getElem?_eq_none_iff.mpr h] at hk
  have h1 : ¬ ((i : Int) < 0) := by omega
  have h2 : ¬ ((i : Int) = (keys.length : Int)) := by omega
  have h3 : ¬ ((i : Int) > (keys.length : Int)) := by omega
  simp only [stepMap, mrow, h1, h2, h3, if_false]
  simp [hk, upd_at, tk]

theorem stepMap_value {rc : RecurseF} {lo row hi v vt d kf keys st cur be k x} {i : Nat}
    (hk : keys[i]? = some (k, x)) :
    stepMap rc ⟨lo.length, .map⟩ (mrow row v vt d kf keys i true)
        ⟨lo ++ mrow row v vt d kf keys i true :: hi, st, cur, be⟩ =
      rc ⟨lo ++ mrow row v vt d kf keys (i + 1 : Nat) false :: hi, st, cur, be⟩ x vt d := by
  have hlt : i < keys.length := by
    rcases Nat.lt_or_ge i keys.length with h | h
    · exact h
    · simp [List.getElem?_eq_none_iff.mpr h] at hk
  have h1 : ¬ ((i : Int) < 0) := by omega
  have h2 : ¬ ((i : Int) = (keys.length : Int)) := by omega
  have h3 : ¬ ((i : Int) > (keys.length : Int)) := by omega
  simp only [stepMap, mrow, h1, h2, h3, if_false]
  simp [hk, upd_at]

theorem stepMap_close {rc : RecurseF} {lo row hi v vt d kf keys st cur be} (hhi : hi ≠ []) :
    stepMap rc ⟨lo.length, .map⟩ (mrow row v vt d kf keys (keys.length : Nat) false)
        ⟨lo ++ mrow row v vt d kf keys (keys.length : Nat) false :: hi, st, cur, be⟩ =
      .ok ⟨⟨.mapClose, none⟩, true,
        ⟨lo ++ mrow row v vt d kf keys ((keys.length : Nat) + 1) false :: hi.dropLast, st, cur, be⟩⟩ := by
  have h1 : ¬ ((keys.length : Int) < 0) := by omega
  simp only [stepMap, mrow, h1, if_false, if_true]
  simp [updRow_at, MapM.incr, tk, release_at _ _ _ hhi]

/-- the state predicate at the end of the map machine's entry loop (`i` entries done) -/
def MapEnd (ts : Types) (a : Atlas) (lo : List Row) (row : Row) (hi : List Row) (v : Val) (vt : Nat) (kd : MK)
    (kf : Option Nat) (keys : List (Bytes × Val)) (st : List MRef) (cur : MRef) (be : Option XFail) (i : Nat)
    (s' : MState) : Prop :=
  ∃ drow' dhi', s' = ⟨lo ++ mrow row v vt ⟨lo.length + 1 + hi.length, kd⟩ kf keys i false :: (hi ++ drow' :: dhi'),
      st, some cur, be⟩ ∧ CfgV ts a vt kd drow' ∧ Clean (drow' :: dhi')

theorem map_loop {mk : Mask} {r0 : Row} {lo row hi v vt kd kf keys st cur be}
    (hp : Pass ts a trs cur ⟨lo.length, .map⟩ lo mk r0) (hag : agreeW mk r0 row) :
    ∀ (xs : List (Bytes × Val)) (f i : Nat) (drow : Row) (dhi : List Row), (∀ f', f' < f → IHV ts a trs f') →
      i ≤ keys.length → keys.drop i = xs → CfgV ts a vt kd drow → Clean (drow :: dhi) →
      (marshalEntries ts a trs f vt xs).fail ≠ some .panic →
      Seg ts a trs ⟨lo ++ mrow row v vt ⟨lo.length + 1 + hi.length, kd⟩ kf keys i false :: (hi ++ drow :: dhi),
          st, some cur, be⟩
        (marshalEntries ts a trs f vt xs) (MapEnd ts a lo row hi v vt kd kf keys st cur be keys.length) := by
  intro xs
  induction xs with
  | nil =>
    intro f i drow dhi hih hle hdrop hcfg hcl hnp
    cases f with
    | zero => simp [marshalEntries_zero, MOut.bad] at hnp
    | succ f =>
      have hi_n : i = keys.length := by
        have := congrArg List.length hdrop
        simp at this; omega
      subst hi_n
      rw [marshalEntries_nil]
      exact Seg.nil ⟨drow, dhi, rfl, hcfg, hcl⟩
  | cons kx xs ih =>
    intro f i drow dhi hih hle hdrop hcfg hcl hnp
    obtain ⟨k, x⟩ := kx
    cases f with
    | zero => simp [marshalEntries_zero, MOut.bad] at hnp
    | succ f =>
      rw [marshalEntries_cons] at hnp ⊢
      have hx : keys[i]? = some (k, x) := by
        have := congrArg (·[0]?) hdrop
        simpa using this
      have hlt : i < keys.length := by
        have := congrArg List.length hdrop
        simp at this; omega
      refine Seg.seq (P1 := fun s' => s' = ⟨lo ++ mrow row v vt ⟨lo.length + 1 + hi.length, kd⟩ kf keys i true ::
          (hi ++ drow :: dhi), st, some cur, be⟩) ?_ ?_
      · refine Seg.tok (hp.cs_tok (hag.trans (agreeW_mrow ..)) (hag.trans (agreeW_mrow ..)) (n := 1) ?_).toDS_tok rfl
        rw [stepM_map_at, stepMap_key hx]
      · rintro - s' rfl
        have hnp2 := seq_fail_right hnp rfl
        refine Seg.seq (P1 := MapEnd ts a lo row hi v vt kd kf keys st cur be (i + 1)) ?_ ?_
        · have hsim := hih f (Nat.lt_succ_self f) vt x (lo.length + 1 + hi.length) drow dhi kd hcfg hcl
            (seq_fail_left hnp2)
          have hl := Pass.link (hiP := hi ++ drow :: dhi) (hi0 := hi) (drow := drow) (dhi := dhi) (st := st) (be := be)
            (x := x) (rt := vt) (d := ⟨lo.length + 1 + hi.length, kd⟩) hp
            (hag.trans (agreeW_mrow mk row v vt ⟨lo.length + 1 + hi.length, kd⟩ kf keys i true))
            (hag.trans (agreeW_mrow mk row v vt ⟨lo.length + 1 + hi.length, kd⟩ kf keys (i + 1 : Nat) false)) ?_
          · refine (seg_recurse hsim (len_at ..) hl.1 hl.2).mono ?_
            rintro s' ⟨drow2, dhi2, rfl, hq, hc⟩
            exact ⟨drow2, dhi2, by simp [reassoc], hq, hc⟩
          · intro n' res hrec hns
            refine ⟨n' + 1, ?_⟩
            rw [← hrec, stepM_map_at, stepMap_value hx, reassoc]
        · rintro hnone s' ⟨drow2, dhi2, rfl, hq, hc⟩
          refine ih f (i + 1) drow2 dhi2 (fun f' hf' => hih f' (Nat.lt_succ_of_lt hf')) hlt ?_ hq hc ?_
          · rw [← List.drop_drop, hdrop]; rfl
          · exact seq_fail_right hnp2 hnone

theorem resetM_map_at {n lo row hi rt v} :
    resetM ts a trs (n+1) ⟨lo.length, .map⟩ rt v (lo ++ row :: hi) =
      resetMap ts a trs n ⟨lo.length, .map⟩ rt v (lo ++ row :: hi) := by
  simp only [resetM_at, resetBody, getRow]

theorem resetMap_ok {n lo row hi rt es kt vt kf kvs drow kd} (hty : ts.get rt = .map kt vt)
    (hy : yieldM ts a n Row.zero vt = .ok (drow, kd)) (hkf : keyFnOf ts a kt = some kf)
    (hs : stringify trs kf (es.getD []) = some kvs) (hval : row.map.value = false) :
    resetM ts a trs (n+1) ⟨lo.length, .map⟩ rt (.map es) (lo ++ row :: hi) =
      .ok (lo ++ mrow row (.map es) vt ⟨lo.length + 1 + hi.length, kd⟩ kf (sortKeys row.map.morphism kvs) (-1) false ::
        (hi ++ [drow])) := by
  rw [resetM_map_at]
  simp only [resetMap, hty, requisition_at hy, hkf, hs, reassoc, updRow_at, len_at, mrow, hval]

/-- `mach.index++` from -1 -/
def mapAt0 (r : Row) : Row := { r with map := { r.map with index := (0 : Nat) } }

theorem sim_map {mk vm : Mask} {Q : Row → Prop} {L row hi rt v kt vt mode f id ny drow kd}
    (hty : ts.get rt = .map kt vt) (hmode : row.map.morphism = mode)
    (hy : yieldM ts a ny Row.zero vt = .ok (drow, kd)) (hcfgd : CfgV ts a vt kd drow) (hdcl : drow.map.value = false)
    (hcl : Clean (row :: hi)) (hih : ∀ f', f' < f → IHV ts a trs f')
    (hQ : ∀ r : Row, r.map.morphism = row.map.morphism → Q r)
    (hnp : (marshalBare ts a trs (f+1) id (.map kt vt mode) v).fail ≠ some .panic) :
    Sim ts a trs mk vm Q L row hi ⟨L, .map⟩ rt v (marshalBare ts a trs (f+1) id (.map kt vt mode) v) := by
  rw [marshalBare_map] at hnp ⊢
  cases hkf : keyFnOf ts a kt with
  | none =>
    simp only [hkf]
    refine ⟨fun e _ he => ⟨ny+1, fun lo hl => ?_⟩, fun h => absurd ⟨rfl, by simp [MOut.bad]⟩ h⟩
    cases he
    subst hl
    rw [resetM_map_at]
    simp only [resetMap, hty, requisition_at hy, hkf]
  | some kf =>
    cases v with
    | map es =>
      simp only [hkf] at hnp ⊢
      cases hs : stringify trs kf (es.getD []) with
      | none =>
        simp only [hs]
        refine ⟨fun e _ he => ⟨ny+1, fun lo hl => ?_⟩, fun h => absurd ⟨rfl, by simp [MOut.bad]⟩ h⟩
        cases he
        subst hl
        rw [resetM_map_at]
        simp only [resetMap, hty, requisition_at hy, hkf, hs]
      | some kvs =>
        simp only [hs] at hnp ⊢
        have hdc : Clean [drow] := Clean.cons hdcl (fun _ h => by cases h)
        cases es with
        | none =>
          simp only [Option.isNone_none, if_true]
          refine ⟨fun e' h => by simp [MOut.ok] at h, fun _ => ?_⟩
          refine ⟨ny+1, mrow row (.map none) vt ⟨L + 1 + hi.length, kd⟩ kf (sortKeys row.map.morphism kvs) (-1) false,
            hi ++ [drow], fun lo hl => by subst hl; exact resetMap_ok hty hy hkf hs hcl.head, agreeW_mrow .., hQ _ rfl,
            Clean.cons rfl (Clean.append hcl.tail hdc), fun lo hl => ?_⟩
          subst hl
          refine runsAs_single (n := 1) (f := mapAt0) (hi2 := hi ++ [drow]) ?_
            (fun _ => ⟨fun _ => rfl, fun _ => rfl, fun _ => rfl⟩) (fun _ => hQ _ rfl)
            (fun _ => Clean.cons rfl (Clean.append hcl.tail hdc))
          intro w st be cur
          show stepM ts a trs 1 ⟨lo.length, .map⟩
            ⟨lo ++ mrow (setWm vm w row) (.map none) vt ⟨lo.length + 1 + hi.length, kd⟩ kf
              (sortKeys row.map.morphism kvs) (-1) false :: (hi ++ [drow]), st, some cur, be⟩ = _
          rw [stepM_map_at, stepMap_nil]
          rfl
        | some es' =>
          simp only [Option.isNone_some, Bool.false_eq_true, if_false, Option.getD_some] at hnp ⊢
          refine ⟨fun e' h => by simp [MOut.seq, MOut.ok] at h, fun _ => ?_⟩
          refine ⟨ny+1, mrow row (.map (some es')) vt ⟨L + 1 + hi.length, kd⟩ kf (sortKeys row.map.morphism kvs) (-1) false,
            hi ++ [drow], fun lo hl => by subst hl; exact resetMap_ok hty hy hkf hs hcl.head, agreeW_mrow .., hQ _ rfl,
            Clean.cons rfl (Clean.append hcl.tail hdc), fun lo hl => ?_⟩
          subst hl
          rw [hmode]
          refine runsAs_container (fA := mapAt0) (hiA := hi ++ [drow])
            (PE := fun rowB st cur be s' => rowB.map.morphism = row.map.morphism ∧
              MapEnd ts a lo rowB hi (.map (some es')) vt kd kf (sortKeys mode kvs) st cur be
                (sortKeys mode kvs).length s') ?_ (fun _ => ⟨fun _ => rfl, fun _ => rfl, fun _ => rfl⟩) ?_ ?_
          · intro w st be cur
            refine ⟨1, ?_⟩
            show stepM ts a trs 1 ⟨lo.length, .map⟩
              ⟨lo ++ mrow (setWm vm w row) (.map (some es')) vt ⟨lo.length + 1 + hi.length, kd⟩ kf
                (sortKeys mode kvs) (-1) false :: (hi ++ [drow]), st, some cur, be⟩ = _
            rw [stepM_map_at, stepMap_open]
            rfl
          · intro w w' cur st be hp
            refine (map_loop (row := setWm vm w' (mapAt0 (setWm vm w (mrow row (.map (some es')) vt
                ⟨lo.length + 1 + hi.length, kd⟩ kf (sortKeys mode kvs) (-1) false))))
              hp (agreeW.refl _ _) _ f 0 drow [] hih (Nat.zero_le _) rfl hcfgd hdc
              (seq_fail_left (seq_fail_right hnp rfl))).mono (fun s' h => ⟨rfl, h⟩)
          · rintro rowB cur st be s' ⟨hmor, drow', dhi', rfl, hq, hc⟩
            refine ⟨_, _, mrow rowB (.map (some es')) vt ⟨lo.length + 1 + hi.length, kd⟩ kf (sortKeys mode kvs)
              (((sortKeys mode kvs).length : Nat) + 1) false,
              (hi ++ drow' :: dhi').dropLast, 1, rfl, agreeW_mrow .., ?_, agreeW_mrow .., hQ _ ?_,
              Clean.cons rfl (Clean.dropLast (Clean.append hcl.tail hc))⟩
            · rw [stepM_map_at, stepMap_close (by simp)]
            · exact hmor
    | _ => simp [hkf, MOut.bad] at hnp
