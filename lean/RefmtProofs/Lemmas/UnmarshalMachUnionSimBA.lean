/-
  Stateful object unmarshaller: the array machine from its `Reset`  ~  `unmBare … (.array n e)`.
-/
import RefmtProofs.Lemmas.UnmarshalMachUnionSimAr
set_option linter.unusedSimpArgs false
set_option linter.unusedVariables false
namespace Refmt.UMachU
open Refmt Refmt.Obj Refmt.Obj.UM Refmt.UMachL

variable {ts : Types} {a : Atlas} {trs : Trs} {it : IfaceTys}

theorem umachForEntry_not_array (e : Entry) (n x : Nat) : umachForEntry ts e ≠ .array n x := by
  unfold umachForEntry
  split <;> try simp
  split <;> simp

theorem upick_array {base n e : Nat} (h : upickBare ts a base = .array n e) : ts.get base = .arr n e := by
  unfold upickBare at h
  split at h
  · cases h
  · cases h
  · split at h
    · exact absurd h (umachForEntry_not_array _ _ _)
    · split at h <;> simp_all

theorem unmBare_array {n base N e : Nat} {cur : Val} {t : Tok} {rest : List Tok} :
    unmBare ts a trs it (n+1) base (.array N e) cur (t :: rest) =
      match t.body with
      | .null => .ok (zeroVal ts 64 base) rest 1
      | .arrOpen _ => (arrFin N (zeroVal ts 64 e) (unmElems ts a trs it n e (some N) [] rest)).shift 1
      | _ => .err 0 := by
  simp only [unmBare]
  cases t.body <;> try rfl
  simp only []
  cases unmElems ts a trs it n e (some N) [] rest with
  | ok v r u =>
    cases v with
    | slice o => cases o <;> rfl
    | _ => rfl
  | _ => rfl

theorem simB_array {S : List Nat} {wi : Option Nat} {n : Nat} (hS : Closed ts a S wi) (hE : SimAr ts a trs it S n) {base N e : Nat}
    (hM : upickBare ts a base = .array N e) (he : e ∈ S)
    (cur : Val) (lo : List URow) (row : URow) (hi : List URow) (stk : List URef) (be : Option XFail) (c : URef)
    (F : Val → Option Val) (w : Val → Val) (d : Nat) (toks : List Tok) (fr sf1 sf : Nat)
    {un : Option Nat} (hw : Wr trs.u c lo row .array F w d un) (hd : d ≤ 3) (hfr : 5 ≤ fr) (hsf1 : 10 ≤ sf1) (hsf : 17 ≤ sf) :
    Agree ts a trs it none un c sf be stk lo row F w
      (rtpB ts a trs it fr sf1 sf (lo ++ row :: hi) stk be c ⟨lo.length, .array⟩ base cur toks)
      (unmBare ts a trs it (n+1) base (.array N e) cur toks) := by
  cases toks with
  | nil => simp [rtpB, unmBare, Agree]
  | cons t rest =>
    obtain ⟨f, rfl⟩ : ∃ f, fr = f + 4 + 1 := ⟨fr - 5, by omega⟩
    obtain ⟨g, rfl⟩ : ∃ g, sf1 = g + 1 + d + 1 := ⟨sf1 - d - 2, by omega⟩
    obtain ⟨crow, cck, hreq, hcc⟩ := requisition_cov (f := f) (R := lo ++ row :: hi) hS he
    rw [unmBare_array]
    simp only [rtpB, array_reset (upick_array hM) hreq]
    have hw1 : Wr trs.u c lo (rowAr row (arReset cur base e N (lo ++ row :: hi).length cck)) .array F w d un := hw.congr rfl
    have hs := hw1.step (ts := ts) (a := a) (trs := trs) (it := it) (hi ++ [crow]) stk
      (some c) be t (g + 1)
    cases hb : t.body with
    | null =>
      exact Agree.fin1 hw1 (array_step_init_null rfl hb) (rowAr_same _ _) (by omega)
    | arrOpen len =>
      rw [array_step_init_open rfl hb] at hs
      rw [pump1_cont hs]
      have hst : ArrSt ts (rowAr (rowAr row (arReset cur base e N (lo ++ row :: hi).length cck))
          (arOpen ts (rowAr row (arReset cur base e N (lo ++ row :: hi).length cck)).array)) e N []
          (lo.length + 1 + hi.length) cck := by
        refine ⟨rfl, ?_, rfl, ?_, rfl, rfl⟩
        · simp [arOpen, arReset]
        · show some (URef.mk (lo ++ row :: hi).length cck) = _
          simp; omega
      have hA := hE e he N [] lo _ hi crow [] stk be c cck F w d rest sf hst hcc (hw.congr rfl) hd hsf
      exact hA.shift 1 ((rowAr_same _ _).trans (rowAr_same _ _))
    | _ =>
      rw [array_step_init_other rfl (by simp [hb]) (by simp [hb])] at hs
      rw [pump1_err hs]
      simp [Agree, XFail.toURes]

end Refmt.UMachU
