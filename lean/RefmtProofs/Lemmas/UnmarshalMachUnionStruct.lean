/-
  Stateful object unmarshaller: the struct machine's `Reset`, `Step` and `absorb`, one equation per case.
-/
import RefmtProofs.Lemmas.UnmarshalMachUnionSimBW
set_option linter.unusedSimpArgs false
set_option linter.unusedVariables false
namespace Refmt.UMachU
open Refmt Refmt.Obj Refmt.Obj.UM Refmt.UMachL

variable {ts : Types} {a : Atlas} {trs : Trs} {it : IfaceTys}

/-- a row with its struct machine replaced -/
def rowSt (row : URow) (sm : StructM) : URow := { row with struct := sm }

@[simp] theorem rowSt_ptr (row sm) : (rowSt row sm).ptr = row.ptr := rfl
@[simp] theorem rowSt_struct (row sm) : (rowSt row sm).struct = sm := rfl
theorem rowSt_same (row : URow) (sm : StructM) (h : sm.fields = row.struct.fields) : SameCfg row (rowSt row sm) :=
  ⟨rfl, rfl, rfl, rfl, rfl, h, rfl, rfl, rfl, rfl, rfl, rfl⟩

def stReset (sm : StructM) (v : Val) (rt : Nat) : StructM := { sm with rv := v, rt := rt, index := -1, value := false }
def stOpen (sm : StructM) (len : Int) : StructM := { sm with expectLen := len, index := sm.index + 1 }
def stKey (sm : StructM) (f : SMField) : StructM := { sm with fieldEntry := f, value := true }
def stVal (sm : StructM) : StructM := { sm with index := sm.index + 1, value := false }
def stAbs (sm : StructM) (rv' : Val) : StructM := { sm with rv := rv' }

theorem struct_reset {f : Nat} {lo hi : List URow} {row : URow} {rt : Nat} {v : Val} :
    resetM ts a (f+1) ⟨lo.length, .struct⟩ rt v (lo ++ row :: hi)
      = .ok (lo ++ rowSt row (stReset row.struct v rt) :: hi) := by
  simp only [resetM, resetBody, getRow, resetStruct, updRow_at]
  rfl

theorem struct_step_init_open {f : Nat} {lo hi : List URow} {row : URow} {stk st be} {t : Tok} {len : Int}
    (hix : row.struct.index < 0) (ht : t.body = .mapOpen len) :
    stepM ts a trs it (f+1) ⟨lo.length, .struct⟩ ⟨lo ++ row :: hi, stk, st, be⟩ t
      = .ok ⟨none, ⟨lo ++ rowSt row (stOpen row.struct len) :: hi, stk, st, be⟩⟩ := by
  simp only [stepM, stepBody, getRow, stepStruct, hix, if_true, ht, cont, UState.upd, updRow_at]
  rfl

theorem struct_step_init_null {f : Nat} {lo hi : List URow} {row : URow} {stk st be} {t : Tok}
    (hix : row.struct.index < 0) (ht : t.body = .null) :
    stepM ts a trs it (f+1) ⟨lo.length, .struct⟩ ⟨lo ++ row :: hi, stk, st, be⟩ t
      = .ok ⟨some (zeroVal ts 64 row.struct.rt), ⟨lo ++ row :: hi, stk, st, be⟩⟩ := by
  simp only [stepM, stepBody, getRow, stepStruct, hix, if_true, ht, fin]

theorem struct_step_init_other {f : Nat} {lo hi : List URow} {row : URow} {stk st be} {t : Tok}
    (hix : row.struct.index < 0) (h1 : ∀ len, t.body ≠ .mapOpen len) (h2 : t.body ≠ .null) :
    stepM ts a trs it (f+1) ⟨lo.length, .struct⟩ ⟨lo ++ row :: hi, stk, st, be⟩ t = .error (.f .err) := by
  simp only [stepM, stepBody, getRow, stepStruct, hix, if_true]
  rfl

theorem struct_absorb {f : Nat} {lo hi : List URow} {row : URow} {v rv' : Val}
    (hig : row.struct.fieldEntry.ignore = false)
    (hset : setRoute ts 64 row.struct.rt row.struct.fieldEntry.route row.struct.rv (fun _ => v) = some rv') :
    absorbM ts (f+1) ⟨lo.length, .struct⟩ v (lo ++ row :: hi) = .ok (lo ++ rowSt row (stAbs row.struct rv') :: hi) := by
  simp only [absorbM, absorbBody, getRow, hig, hset, updRow_at]
  rfl

theorem struct_absorb_fail {f : Nat} {lo hi : List URow} {row : URow} {v : Val}
    (hig : row.struct.fieldEntry.ignore = false)
    (hset : setRoute ts 64 row.struct.rt row.struct.fieldEntry.route row.struct.rv (fun _ => v) = none) :
    absorbM ts (f+1) ⟨lo.length, .struct⟩ v (lo ++ row :: hi) = .error (.f .panic) := by
  simp only [absorbM, absorbBody, getRow, hig, hset]
  rfl

theorem ite_state (c : Prop) [Decidable c] (R A : List URow) (stk : List URef) (st : Option URef) (be : Option XFail) :
    (if c then UState.mk A stk st be else UState.mk R stk st be)
      = ⟨if c then A else R, stk, st, be⟩ := by
  split <;> rfl

theorem struct_step_close {f : Nat} {lo hi hi1 : List URow} {row : URow} {stk st be} {t : Tok}
    (hix : ¬ row.struct.index < 0) (hv : row.struct.value = false) (ht : t.body = .mapClose)
    (hR1 : (if row.struct.index > 0 then release (lo ++ row :: hi) else lo ++ row :: hi) = lo ++ row :: hi1) :
    stepM ts a trs it (f+1) ⟨lo.length, .struct⟩ ⟨lo ++ row :: hi, stk, st, be⟩ t
      = if (row.struct.expectLen ≥ 0 && row.struct.expectLen != row.struct.index) = true then .error (.f .err)
        else .ok ⟨some row.struct.rv, ⟨lo ++ row :: hi1, stk, st, be⟩⟩ := by
  simp only [stepM, stepBody, getRow, stepStruct, hix, if_false, hv, Bool.false_eq_true, ↓reduceIte, ht, ite_state, hR1]
  split <;> rfl

theorem struct_step_key {f : Nat} {lo hi hi1 : List URow} {row : URow} {stk st be} {t : Tok} {name : Bytes}
    (hix : ¬ row.struct.index < 0) (hv : row.struct.value = false) (ht : t.body = .str name)
    (hR1 : (if row.struct.index > 0 then release (lo ++ row :: hi) else lo ++ row :: hi) = lo ++ row :: hi1) :
    stepM ts a trs it (f+1) ⟨lo.length, .struct⟩ ⟨lo ++ row :: hi, stk, st, be⟩ t
      = match row.struct.fields.find? fun f => f.name == name with
        | none => .error (.f .err)
        | some fe => .ok ⟨none, ⟨lo ++ rowSt row (stKey row.struct fe) :: hi1, stk, st, be⟩⟩ := by
  simp only [stepM, stepBody, getRow, stepStruct, hix, if_false, hv, Bool.false_eq_true, ↓reduceIte, ht, ite_state, hR1]
  cases row.struct.fields.find? fun f => f.name == name with
  | none => rfl
  | some fe => simp only [cont, UState.upd, hR1, updRow_at]; rfl

theorem struct_step_keyother {f : Nat} {lo hi : List URow} {row : URow} {stk st be} {t : Tok}
    (hix : ¬ row.struct.index < 0) (hv : row.struct.value = false) (h1 : t.body ≠ .mapClose)
    (h2 : ∀ x, t.body ≠ .str x) :
    stepM ts a trs it (f+1) ⟨lo.length, .struct⟩ ⟨lo ++ row :: hi, stk, st, be⟩ t = .error (.f .err) := by
  simp only [stepM, stepBody, getRow, stepStruct, hix, if_false, hv, Bool.false_eq_true, ↓reduceIte]
  rfl

theorem struct_step_noroute {f : Nat} {lo hi : List URow} {row : URow} {stk st be} {t : Tok}
    (hix : ¬ row.struct.index < 0) (hv : row.struct.value = true) (hig : row.struct.fieldEntry.ignore = false)
    (hg : getRoute ts 64 row.struct.rt row.struct.fieldEntry.route row.struct.rv = none) :
    stepM ts a trs it (f+1) ⟨lo.length, .struct⟩ ⟨lo ++ row :: hi, stk, st, be⟩ t = .error (.f .err) := by
  simp only [stepM, stepBody, getRow, stepStruct, hix, if_false, hv, Bool.false_eq_true, ↓reduceIte, if_true, hig, hg, Option.map]
  rfl

theorem struct_step_value {f : Nat} {lo hi : List URow} {row : URow} {stk st be} {t : Tok} {fcur : Val} {crow : URow}
    {d : URef}
    (hix : ¬ row.struct.index < 0) (hv : row.struct.value = true) (hig : row.struct.fieldEntry.ignore = false)
    (hg : getRoute ts 64 row.struct.rt row.struct.fieldEntry.route row.struct.rv = some fcur)
    (hreq : requisition ts a f (lo ++ rowSt row (stVal row.struct) :: hi) row.struct.fieldEntry.ty
      = .ok ((lo ++ rowSt row (stVal row.struct) :: hi) ++ [crow], d)) :
    stepM ts a trs it (f+1) ⟨lo.length, .struct⟩ ⟨lo ++ row :: hi, stk, st, be⟩ t
      = recurse ts a trs it f ⟨(lo ++ rowSt row (stVal row.struct) :: hi) ++ [crow], stk, st, be⟩ t fcur
          row.struct.fieldEntry.ty d := by
  simp only [rowSt, stVal] at hreq
  simp only [stepM, stepBody, getRow, stepStruct, hix, if_false, hv, if_true, hig, hg, Option.map, UState.upd,
    updRow_at, Bool.false_eq_true, ↓reduceIte, hreq]
  rfl

theorem struct_step_value_ign {f : Nat} {lo hi : List URow} {row : URow} {stk st be} {t : Tok} {crow : URow} {d : URef}
    (hix : ¬ row.struct.index < 0) (hv : row.struct.value = true) (hig : row.struct.fieldEntry.ignore = true)
    (hreq : requisition ts a f (lo ++ rowSt row (stVal row.struct) :: hi) it.iface
      = .ok ((lo ++ rowSt row (stVal row.struct) :: hi) ++ [crow], d)) :
    stepM ts a trs it (f+1) ⟨lo.length, .struct⟩ ⟨lo ++ row :: hi, stk, st, be⟩ t
      = recurse ts a trs it f ⟨(lo ++ rowSt row (stVal row.struct) :: hi) ++ [crow], stk, st, be⟩ t (.iface none)
          it.iface d := by
  simp only [rowSt, stVal] at hreq
  simp only [stepM, stepBody, getRow, stepStruct, hix, if_false, hv, if_true, hig, UState.upd,
    updRow_at, Bool.false_eq_true, ↓reduceIte, hreq]
  rfl

theorem struct_absorb_ign {f : Nat} {lo hi : List URow} {row : URow} {v : Val}
    (hig : row.struct.fieldEntry.ignore = true) :
    absorbM ts (f+1) ⟨lo.length, .struct⟩ v (lo ++ row :: hi) = .ok (lo ++ row :: hi) := by
  simp only [absorbM, absorbBody, getRow, hig, if_true]

end Refmt.UMachU
