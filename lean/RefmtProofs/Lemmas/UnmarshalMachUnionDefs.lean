/-
  Stateful object unmarshaller against the functional model: definitions for the simulation.
    * `pump1` : first token with its own fuel (as `Recurse` steps the driver), the rest with `pump`
    * `kont`  : what the driver does when the current machine reports done (pop + absorb, or done)
    * `rtp`   : Reset, then pump (what `Bind` + run and `Recurse` do)
    * `Wr`    : the chain of wrapping machines (pointer, wildcard, transform) between the driver's current machine and
                the leaf machine; the wildcard machine's delegate lives in `slab.tip()`, possibly another row
    * `CfgLeaf` / `CfgBare` / `CfgV` : a row is configured for a type (whatever else it holds)
    * `okMach` / `Closed` : a set of type ids closed under "element type of", all of whose machines are covered
  Files: Rows (driver lemmas), Wr (wrappers), Sim (statements `Agree`, `SimV`, `SimB`), SimA/SimR (Reset frames,
  requisition), SimP/SimV (pointer machine), Slice/SimE/SimBS, Array/SimAr/SimBA, Map/SimM/SimM2/SimBM,
  Wild/WildF/SimW/SimBW (untyped slots), Struct/SimS/SimS2/SimBSt, SimBP (primitive, error thunk),
  Main (transform machine, induction on the functional fuel, the run of a bound instance).
-/
import RefmtProofs.Lemmas.UnmarshalMachScalar
set_option linter.unusedSimpArgs false
set_option linter.unusedVariables false
namespace Refmt.UMachU
open Refmt Refmt.Obj Refmt.Obj.UM Refmt.UMachL

@[simp] theorem shift_shift (x : URes) (i j : Nat) : (x.shift i).shift j = x.shift (i + j) := by
  cases x <;> simp [URes.shift, Nat.add_assoc]
@[simp] theorem shift_zero (x : URes) : x.shift 0 = x := by cases x <;> simp [URes.shift]

variable (ts : Types) (a : Atlas) (trs : Trs) (it : IfaceTys)

/-- first token with fuel `sf1` (a done report on a non-empty stack is dropped, as `Recurse` does), the others
    with `pump … sf` -/
def pump1 (sf1 sf : Nat) (s : UState) : List Tok → URes
  | [] => .more 0
  | t :: rest =>
    match ustep ts a trs it sf1 s t with
    | .error x => x.toURes
    | .ok res =>
      match res.done, s.stack with
      | some v, [] => .ok v rest 1
      | _, _ => (pump ts a trs it sf res.st rest).shift 1

/-- the driver after the current machine reported done with `v`, leaving rows `R` -/
def kont (fa sf : Nat) (be : Option XFail) : List URef → Val → List URow → List Tok → URes
  | [], v, _, rest => .ok v rest 1
  | p :: stk, v, R, rest =>
    match absorbM ts fa p v R with
    | .error x => x.toURes
    | .ok Rp => (pump ts a trs it sf ⟨Rp, stk, some p, be⟩ rest).shift 1

/-- Reset machine `c` for (`id`, `cur`), then pump -/
def rtp (fr sf1 sf : Nat) (R : List URow) (stk : List URef) (be : Option XFail) (c : URef) (id : Nat) (cur : Val) :
    List Tok → URes
  | [] => .more 0
  | t :: rest =>
    match resetM ts a fr c id cur R with
    | .error x => x.toURes
    | .ok R1 => pump1 ts a trs it sf1 sf ⟨R1, stk, some c, be⟩ (t :: rest)

/-- `done` mapped, as the wrapping machines do -/
def mapDone (w : Val → Val) : X SRes → X SRes
  | .error x => .error x
  | .ok res => .ok { res with done := res.done.map w }

/-- what the wildcard machine does to the content its delegate reports -/
def ifaceW (row : URow) (v : Val) : Val := .iface (some (row.wild.holder.getD row.wild.dyn, v))

/-- `done` through a partial function (the transform machine): a failure is an error -/
def mapDoneO (F : Val → Option Val) : X SRes → X SRes
  | .error x => .error x
  | .ok res =>
    match res.done with
    | none => .ok res
    | some v =>
      match F v with
      | some v' => .ok { res with done := some v' }
      | none => .error (.f .err)

/-- the wrapping machines from the driver's current machine `c` down to the leaf `⟨lo.length, mk⟩`, whose row is `row`
    (rows: `lo ++ row :: …`): pointer and wildcard machines, in the leaf's row (`ptrS`, `wildS`) or in a row of `lo`
    (`ptrX`, `wildX`: the wildcard machine puts its delegate into `slab.tip()`, which need not be its own row), and,
    directly above the leaf and in its row, the transform machine (`trS`); `F` is what the transform machine does
    to the content the leaf reports (`some` without one; `U` stands for `trs.u`), `w` what the others then do to it,
    `d` their number -/
inductive Wr (U : Nat → Val → Option Val) : URef → List URow → URow → MK → (Val → Option Val) → (Val → Val) → Nat → Option Nat → Prop
  | refl (lo : List URow) (row : URow) (k : MK) : Wr U ⟨lo.length, k⟩ lo row k some id 0 none
  | trS (lo : List URow) (row : URow) {k : MK} : row.transform.delegate = some k →
      Wr U ⟨lo.length, .transform⟩ lo row k (U row.transform.trFunc) id 1 none
  | ptrS {lo row k mk F w d} : row.ptr.mach = some k → row.ptr.firstStep = false → Wr U ⟨lo.length, k⟩ lo row mk F w d none →
      Wr U ⟨lo.length, .ptr⟩ lo row mk F (wrapPtr row.ptr.peelCount ∘ w) (d + 1) none
  | wildS {lo row dl mk F w d} : row.wild.delegate = some dl → Wr U dl lo row mk F w d none →
      Wr U ⟨lo.length, .wild⟩ lo row mk F (ifaceW row ∘ w) (d + 1) none
  | ptrX {lo row i r0 k mk F w d} : lo[i]? = some r0 → r0.ptr.mach = some k → r0.ptr.firstStep = false →
      Wr U ⟨i, k⟩ lo row mk F w d none → Wr U ⟨i, .ptr⟩ lo row mk F (wrapPtr r0.ptr.peelCount ∘ w) (d + 1) none
  | wildX {lo row i r0 dl mk F w d} : lo[i]? = some r0 → r0.wild.delegate = some dl → Wr U dl lo row mk F w d none →
      Wr U ⟨i, .wild⟩ lo row mk F (ifaceW r0 ∘ w) (d + 1) none
  | unionS {lo row dl mk F w d} : row.union.phase = .delegate → row.union.delegate = some dl →
      Wr U dl lo row mk F w d none → Wr U ⟨lo.length, .union⟩ lo row mk F w (d + 1) (some lo.length)
  | unionX {lo row i r0 dl mk F w d} : lo[i]? = some r0 → r0.union.phase = .delegate → r0.union.delegate = some dl →
      Wr U dl lo row mk F w d none → Wr U ⟨i, .union⟩ lo row mk F w (d + 1) (some i)
  | ptrUS {lo row mk F w d} : row.ptr.mach = some .union → row.ptr.firstStep = false →
      Wr U ⟨lo.length, .union⟩ lo row mk F w d (some lo.length) → Wr U ⟨lo.length, .ptr⟩ lo row mk F w (d + 1) (some lo.length)
  | ptrUX {lo row i r0 mk F w d} : lo[i]? = some r0 → r0.ptr.mach = some .union → r0.ptr.firstStep = false →
      Wr U ⟨i, .union⟩ lo row mk F w d (some i) → Wr U ⟨i, .ptr⟩ lo row mk F w (d + 1) (some i)

/-- what the union machine in its delegate phase does when its delegate reports done with `v` -/
def closeU (v : Val) (r : URow) : URow := { r with union := { r.union with tmp_rv := v, phase := .acceptMapClose } }

/-- the effect of a union machine (row `i`) in the chain on a step's result: done becomes not done -/
def finU (un : Option Nat) : X SRes → X SRes
  | .error e => .error e
  | .ok ⟨none, st⟩ => .ok ⟨none, st⟩
  | .ok ⟨some v, st⟩ =>
    match un with
    | some i => .ok ⟨none, st.upd i (closeU v)⟩
    | none => .ok ⟨some v, st⟩

/-- the configuration fields of a row for the leaf machine `M` of type `base` -/
def CfgLeaf (row : URow) (base : Nat) (k : MK) : UMach → Prop
  | .prim => k = .prim ∧ row.prim.ty = base ∧ row.prim.anyKind = false
  | .errThunk => k = .errThunk ∧ row.err.err = some .err
  | .slice _ => k = .slice
  | .array _ _ => k = .array
  | .map _ _ => k = .map
  | .structMap fs => k = .struct ∧ row.struct.fields = fs
  | _ => False

/-- the configuration fields of a row for the bare machine `M` of type `base`: a leaf machine, the wildcard machine,
    or the transform machine with a leaf machine as delegate (same row) -/
def CfgBare (row : URow) (base : Nat) (k : MK) : UMach → Prop
  | .wildcard => k = .wild
  | .transform fn uty => k = .transform ∧ row.transform.trFunc = fn ∧ row.transform.recv_rt = uty ∧
      ∃ k', row.transform.delegate = some k' ∧ CfgLeaf row uty k' (upickBare ts a uty)
  | .union ms => k = .union ∧ row.union.members = ms
  | M => CfgLeaf row base k M

/-- a row configured (by `requisitionMachine`) for declared type `id`, machine kind `ck` -/
def CfgV (row : URow) (id : Nat) (ck : MK) : Prop :=
  ∃ k, CfgBare ts a row (peel ts 64 0 id).2 k (upickBare ts a (peel ts 64 0 id).2) ∧
    (if (peel ts 64 0 id).1 = 0 then ck = k
     else ck = .ptr ∧ row.ptr.mach = some k ∧ row.ptr.peelCount = (peel ts 64 0 id).1)

/-- untyped slots are covered when `wi = some ifc`, `ifc` (the type id of `interface{}`) a member of `S` -/
def wildIn (S : List Nat) : Option Nat → Prop
  | some ifc => ifc ∈ S
  | none => False

instance (S : List Nat) (wi : Option Nat) : Decidable (wildIn S wi) := by
  cases wi <;> simp only [wildIn] <;> infer_instance

/-- leaf machines covered, with their element types in `S` -/
def okLeaf (S : List Nat) (wi : Option Nat) : UMach → Prop
  | .prim | .errThunk => True
  | .slice e | .array _ e | .map _ e => e ∈ S
  | .structMap fs => ∀ f ∈ fs, if f.ignore then wildIn S wi else f.ty ∈ S
  | _ => False

instance (S : List Nat) (wi : Option Nat) (M : UMach) : Decidable (okLeaf S wi M) := by
  cases M <;> simp only [okLeaf] <;> infer_instance

/-- what a transform that is a union member may delegate to: the machine lives in a BORROWED row (`slab.tip()`), whose
    `anyKind` flag is not under control, hence no primitive machine; the map machine's key type must be accepted
    (`clash_union_reset`) -/
def okSub (S : List Nat) (wi : Option Nat) : UMach → Prop
  | .structMap fs => ∀ f ∈ fs, if f.ignore then wildIn S wi else f.ty ∈ S
  | .slice e | .array _ e => e ∈ S
  | .map kt e => e ∈ S ∧ (keyFnOfU ts a kt).isSome = true
  | _ => False

instance (S : List Nat) (wi : Option Nat) (M : UMach) : Decidable (okSub ts a S wi M) := by
  cases M <;> simp only [okSub] <;> infer_instance

/-- a union member with machine `M` (that of its atlas entry): struct map, map with an accepted key type, transform (receive type not a pointer type) over `okSub` -/
def okMember (S : List Nat) (wi : Option Nat) (M : UMach) : Prop :=
  match M with
  | .structMap fs => ∀ f ∈ fs, if f.ignore then wildIn S wi else f.ty ∈ S
  | .map kt e => e ∈ S ∧ (keyFnOfU ts a kt).isSome = true
  | .transform _ uty => isPtrTy ts uty = false ∧ okSub ts a S wi (upickBare ts a uty)
  | _ => False

instance (S : List Nat) (wi : Option Nat) (M : UMach) : Decidable (okMember ts a S wi M) := by
  unfold okMember; cases M <;> simp only [] <;> infer_instance

/-- the member registered under pool index `idx` (a dangling index panics in both models) -/
def okMemIdx (S : List Nat) (wi : Option Nat) (idx : Nat) : Prop :=
  match a.pool[idx]? with
  | none => True
  | some me => okMember ts a S wi (umachForEntry ts me)

instance (S : List Nat) (wi : Option Nat) (idx : Nat) : Decidable (okMemIdx ts a S wi idx) := by
  unfold okMemIdx; split <;> infer_instance

/-- machines covered: leaf machines, the wildcard machine, the transform machine over a leaf machine (receive type not
    a pointer type), the keyed union machine over covered members -/
def okMach (S : List Nat) (wi : Option Nat) : UMach → Prop
  | .wildcard => wildIn S wi
  | .transform _ uty => isPtrTy ts uty = false ∧ okLeaf S wi (upickBare ts a uty)
  | .union ms => ∀ m ∈ ms, okMemIdx ts a S wi m.2
  | M => okLeaf S wi M

instance (S : List Nat) (wi : Option Nat) (M : UMach) : Decidable (okMach ts a S wi M) := by
  cases M <;> simp only [okMach] <;> infer_instance

/-- `S` is closed: every member's machine (pointers peeled) is covered and its element types are members -/
def Closed (S : List Nat) (wi : Option Nat) : Prop :=
  ∀ id ∈ S, okMach ts a S wi (upickBare ts a (peel ts 64 0 id).2)

instance (S : List Nat) (wi : Option Nat) : Decidable (Closed ts a S wi) := by unfold Closed; infer_instance

end Refmt.UMachU
