/-
  Stateful object unmarshaller: the struct machine between entries  ~  `unmStruct` (no ignored fields).
-/
import RefmtProofs.Lemmas.UnmarshalMachUnionStruct
set_option linter.unusedSimpArgs false
set_option linter.unusedVariables false
namespace Refmt.UMachU
open Refmt Refmt.Obj Refmt.Obj.UM Refmt.UMachL

variable {ts : Types} {a : Atlas} {trs : Trs} {it : IfaceTys}

/-- the functional model after a key naming field `fe`, seen from the first token of the value -/
def stSpecVal (ts : Types) (a : Atlas) (trs : Trs) (it : IfaceTys) (n id : Nat) (fields : List SMField) (el : Int)
    (idx : Nat) (cur : Val) (fe : SMField) (toks : List Tok) : URes :=
  match toks with
  | [] => .more 0
  | _ :: _ =>
    match getRoute ts 64 id fe.route cur with
    | none => .err 0
    | some fcur =>
      bindU (unmV ts a trs it n fe.ty fcur toks) (fun v r u =>
        match setRoute ts 64 id fe.route cur (fun _ => v) with
        | none => .panic 0
        | some cur' => (unmStruct ts a trs it n id fields el (idx + 1) cur' r).shift u)

theorem unmStruct_close {n id : Nat} {fields : List SMField} {el : Int} {idx : Nat} {cur : Val} {t : Tok}
    {rest : List Tok} (ht : t.body = .mapClose) :
    unmStruct ts a trs it (n+1) id fields el idx cur (t :: rest)
      = if (el ≥ 0 && el != (idx : Int)) = true then .err 0 else .ok cur rest 1 := by
  rw [unmStruct.eq_def]
  simp only [ht]

theorem unmStruct_other {n id : Nat} {fields : List SMField} {el : Int} {idx : Nat} {cur : Val} {t : Tok}
    {rest : List Tok} (h1 : t.body ≠ .mapClose) (h2 : ∀ x, t.body ≠ .str x) :
    unmStruct ts a trs it (n+1) id fields el idx cur (t :: rest) = .err 0 := by
  rw [unmStruct.eq_def]
  simp only []

theorem unmStruct_nofield {n id : Nat} {fields : List SMField} {el : Int} {idx : Nat} {cur : Val} {t : Tok}
    {rest : List Tok} {name : Bytes} (ht : t.body = .str name)
    (hfind : (fields.find? fun f => f.name == name) = none) :
    unmStruct ts a trs it (n+1) id fields el idx cur (t :: rest) = .err 0 := by
  rw [unmStruct.eq_def]
  simp only [ht, hfind]

theorem unmStruct_str {n id : Nat} {fields : List SMField} {el : Int} {idx : Nat} {cur : Val} {t : Tok}
    {rest : List Tok} {name : Bytes} {fe : SMField} (ht : t.body = .str name)
    (hfind : (fields.find? fun f => f.name == name) = some fe) (hig : fe.ignore = false) :
    unmStruct ts a trs it (n+1) id fields el idx cur (t :: rest)
      = (stSpecVal ts a trs it n id fields el idx cur fe rest).shift 1 := by
  rw [unmStruct.eq_def]
  simp only [ht, hfind, hig, stSpecVal]
  cases rest with
  | nil => rfl
  | cons t2 rest2 =>
    simp only [Bool.false_eq_true, if_false]
    cases getRoute ts 64 id fe.route cur with
    | none => rfl
    | some fcur =>
      simp only [bindU]
      cases unmV ts a trs it n fe.ty fcur (t2 :: rest2) with
      | ok v r u =>
        simp only []
        cases setRoute ts 64 id fe.route cur (fun _ => v) with
        | none => rfl
        | some c' => simp only []; rw [shift_shift]
      | _ => rfl

/-- the functional model after a key naming an ignored field, seen from the first token of the value -/
def stSpecIgn (ts : Types) (a : Atlas) (trs : Trs) (it : IfaceTys) (n id : Nat) (fields : List SMField) (el : Int)
    (idx : Nat) (cur : Val) (toks : List Tok) : URes :=
  match toks with
  | [] => .more 0
  | v :: rest2 =>
    bindU (unmWild ts a trs it n false v rest2) (fun _ r u =>
      (unmStruct ts a trs it n id fields el (idx + 1) cur r).shift u)

theorem unmStruct_ign {n id : Nat} {fields : List SMField} {el : Int} {idx : Nat} {cur : Val} {t : Tok}
    {rest : List Tok} {name : Bytes} {fe : SMField} (ht : t.body = .str name)
    (hfind : (fields.find? fun f => f.name == name) = some fe) (hig : fe.ignore = true) :
    unmStruct ts a trs it (n+1) id fields el idx cur (t :: rest)
      = (stSpecIgn ts a trs it n id fields el idx cur rest).shift 1 := by
  rw [unmStruct.eq_def]
  simp only [ht, hfind, hig, stSpecIgn, if_true]
  cases rest with
  | nil => rfl
  | cons t2 rest2 =>
    simp only [bindU]
    cases unmWild ts a trs it n false t2 rest2 with
    | ok v r u => simp only []; rw [shift_shift]
    | _ => rfl

variable (ts a trs it)

/-- the struct machine's row when it expects a key or the close token -/
def StKSt (row : URow) (id : Nat) (fields : List SMField) (el : Int) (idx : Nat) (cur : Val) : Prop :=
  row.struct.fields = fields ∧ row.struct.rt = id ∧ row.struct.rv = cur ∧ row.struct.expectLen = el ∧
  row.struct.index = (idx : Int) ∧ row.struct.value = false

def SimSt (S : List Nat) (wi : Option Nat) (n : Nat) : Prop :=
  ∀ (id : Nat) (fields : List SMField), (∀ f ∈ fields, if f.ignore then wildIn S wi else f.ty ∈ S) →
    ∀ (el : Int) (idx : Nat) (cur : Val) (lo : List URow) (row : URow) (hi : List URow)
    (stk : List URef) (be : Option XFail) (c : URef) (F : Val → Option Val) (w : Val → Val) (d : Nat) (toks : List Tok) (sf : Nat),
    StKSt row id fields el idx cur → (0 < idx → hi ≠ []) → ∀ {un : Option Nat}, Wr trs.u c lo row .struct F w d un → d ≤ 3 → 17 ≤ sf →
    Agree ts a trs it none un c sf be stk lo row F w
      (pump ts a trs it sf ⟨lo ++ row :: hi, stk, some c, be⟩ toks)
      (unmStruct ts a trs it n id fields el idx cur toks)

variable {ts a trs it}

theorem simSt_zero (S : List Nat) (wi : Option Nat) : SimSt ts a trs it S wi 0 := by
  intro id fields hf el idx cur lo row hi stk be c F w d toks sf hst hne un hw hd hsf
  simp [unmStruct, Agree]

theorem struct_hR1 {lo hi : List URow} {row : URow} {idx : Nat} (hix : row.struct.index = (idx : Int))
    (hne : 0 < idx → hi ≠ []) :
    ∃ hi1, (if row.struct.index > 0 then release (lo ++ row :: hi) else lo ++ row :: hi) = lo ++ row :: hi1 := by
  by_cases h : 0 < idx
  · obtain ⟨hi', x, rfl⟩ := snoc_of_ne_nil hi (hne h)
    refine ⟨hi', ?_⟩
    rw [if_pos (by rw [hix]; exact_mod_cast h), dropLast_at]
  · exact ⟨hi, by rw [if_neg (by rw [hix]; omega)]⟩

end Refmt.UMachU
