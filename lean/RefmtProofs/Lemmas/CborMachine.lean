import RefmtProofs.Lemmas.CborBasic
import RefmtProofs.Lemmas.CborParse
import RefmtProofs.Lemmas.HalfTable
set_option linter.unusedSimpArgs false
set_option linter.unusedVariables false
namespace Refmt.C04
open Refmt Refmt.CborDec Refmt.Spec.Cbor
open Refmt.CborEnc (majUint majNeg majBytes majStr majArr majMap majTag sigFalse sigTrue sigNil sigUndef sigF16 sigF32 sigF64 sigIndefBytes sigIndefStr sigIndefArr sigIndefMap sigBreak)

/-! ### Terminals -/

theorem decUint_some (b : Nat) (r : Bytes) (n : Nat) (r' : Bytes) (h : arg (b % 32) r = some (n, r')) :
    decUint ⟨r, none, 0⟩ b = ⟨.ok n, ⟨r', none, 0⟩, 0⟩ := by
  unfold arg at h
  unfold decUint
  dsimp only
  split at h
  · rename_i h1
    simp at h
    rw [if_pos (by omega)]; simp [h.1, h.2]
  rename_i h1
  rw [if_neg (by omega)]
  split at h
  · rename_i h2
    rw [if_pos h2]
    cases r with
    | nil => simp at h
    | cons x t => simp at h; simp [h.1, h.2]
  rename_i h2
  rw [if_neg h2]
  split at h
  · rename_i h3
    rw [if_pos h3]
    split at h
    · rename_i hl
      simp at h
      rw [readN_ok _ _ hl]; simp [h.1, h.2]
    · simp at h
  rename_i h3
  rw [if_neg h3]
  split at h
  · rename_i h4
    rw [if_pos h4]
    split at h
    · rename_i hl
      simp at h
      rw [readN_ok _ _ hl]; simp [h.1, h.2]
    · simp at h
  rename_i h4
  rw [if_neg h4]
  split at h
  · rename_i h5
    rw [if_pos h5]
    split at h
    · rename_i hl
      simp at h
      rw [readN_ok _ _ hl]; simp [h.1, h.2]
    · simp at h
  · simp at h

theorem decUint_none (b : Nat) (r : Bytes) (h : arg (b % 32) r = none) :
    ∃ e rd', decUint ⟨r, none, 0⟩ b = ⟨.error e, rd', 0⟩ := by
  unfold arg at h
  unfold decUint
  dsimp only
  split at h
  · simp at h
  rename_i h1
  rw [if_neg (by omega)]
  split at h
  · rename_i h2
    rw [if_pos h2]
    cases r with
    | nil => rw [read1_nil]; exact ⟨_, _, rfl⟩
    | cons x t => simp at h
  rename_i h2
  rw [if_neg h2]
  split at h
  · rename_i h3
    rw [if_pos h3]
    split at h
    · simp at h
    · rename_i hl
      obtain ⟨e, he⟩ := readN_err r 2 (by omega)
      rw [he]; exact ⟨_, _, rfl⟩
  rename_i h3
  rw [if_neg h3]
  split at h
  · rename_i h4
    rw [if_pos h4]
    split at h
    · simp at h
    · rename_i hl
      obtain ⟨e, he⟩ := readN_err r 4 (by omega)
      rw [he]; exact ⟨_, _, rfl⟩
  rename_i h4
  rw [if_neg h4]
  split at h
  · rename_i h5
    rw [if_pos h5]
    split at h
    · simp at h
    · rename_i hl
      obtain ⟨e, he⟩ := readN_err r 8 (by omega)
      rw [he]; exact ⟨_, _, rfl⟩
  · rename_i h5
    rw [if_neg h5]
    exact ⟨_, _, rfl⟩

theorem decLen_some (b : Nat) (r : Bytes) (n : Nat) (r' : Bytes) (h : arg (b % 32) r = some (n, r'))
    (hn : ¬ n > Spec.Cbor.maxInt) : decLen ⟨r, none, 0⟩ b = ⟨.ok n, ⟨r', none, 0⟩, 0⟩ := by
  unfold decLen
  rw [decUint_some _ _ _ _ h]
  dsimp only
  have : ¬ n > CborDec.maxInt := hn
  rw [if_neg this]

theorem decLen_big (b : Nat) (r : Bytes) (n : Nat) (r' : Bytes) (h : arg (b % 32) r = some (n, r'))
    (hn : n > Spec.Cbor.maxInt) : decLen ⟨r, none, 0⟩ b = ⟨.error .range, ⟨r', none, 0⟩, 0⟩ := by
  unfold decLen
  rw [decUint_some _ _ _ _ h]
  dsimp only
  have : n > CborDec.maxInt := hn
  rw [if_pos this]

theorem decLen_none (b : Nat) (r : Bytes) (h : arg (b % 32) r = none) :
    ∃ e rd', decLen ⟨r, none, 0⟩ b = ⟨.error e, rd', 0⟩ := by
  obtain ⟨e, rd', he⟩ := decUint_none _ _ h
  unfold decLen
  rw [he]
  exact ⟨_, _, rfl⟩

def ChunkRel (o : Option (Bytes × Bytes)) (res : R Bytes) : Prop :=
  match o with
  | some (s, r) => res.res = .ok s ∧ res.rd = ⟨r, none, 0⟩
  | none => ∃ e, res.res = .error e

theorem decChunks_chunks (maj : Nat) : ∀ (f : Nat) (bs acc : Bytes) (cap al : Nat),
    ChunkRel (chunks maj f bs acc) (decChunks f ⟨bs, none, 0⟩ maj acc cap al)
  | 0, bs, acc, cap, al => by simp [chunks, decChunks, ChunkRel]
  | f+1, [], acc, cap, al => by simp [chunks, decChunks, ChunkRel]
  | f+1, b :: t, acc, cap, al => by
    rw [chunks, decChunks, read1_cons]
    dsimp only
    by_cases h1 : (b == 0xff) = true
    · have h1' : (b == sigBreak) = true := h1
      rw [if_pos h1, if_pos h1']
      simp [ChunkRel]
    have h1' : ¬ (b == sigBreak) = true := h1
    rw [if_neg h1, if_neg h1']
    by_cases h2 : (b / 32 * 32 != maj) = true
    · rw [if_pos h2, if_pos h2]; simp [ChunkRel]
    rw [if_neg h2, if_neg h2]
    cases ha : arg (b % 32) t with
    | none =>
      obtain ⟨e, rd', he⟩ := decLen_none _ _ ha
      rw [he]; simp [ChunkRel]
    | some p =>
      obtain ⟨n, r'⟩ := p
      dsimp only
      by_cases hn : n > Spec.Cbor.maxInt
      · rw [decLen_big _ _ _ _ ha hn]
        simp [hn, ChunkRel]
      rw [decLen_some _ _ _ _ ha hn]
      dsimp only
      by_cases hc : n > Spec.Cbor.cap32M
      · have hc' : n > CborDec.cap32M := hc
        rw [if_pos hc']
        simp [hc, ChunkRel]
      have hc' : ¬ n > CborDec.cap32M := hc
      rw [if_neg hc']
      by_cases hl : r'.length < n
      · obtain ⟨e, he⟩ := readN_err r' n hl
        rw [he]
        simp [hl, ChunkRel]
      · have hcond : ¬ ((decide (n > Spec.Cbor.maxInt) || decide (n > Spec.Cbor.cap32M) || decide (r'.length < n)) = true) := by
          simp only [Bool.or_eq_true, decide_eq_true_eq, not_or]
          exact ⟨⟨hn, hc⟩, hl⟩
        rw [if_neg hcond]
        rw [readN_ok _ _ (by omega)]
        dsimp only
        exact decChunks_chunks maj f _ _ _ _
theorem scalarOut_ok {α : Type} (s : St) (r : R α) (mk : α → Body) (tag : Option Int) (v : α)
    (h : r.res = .ok v) : scalarOut s r mk tag = ⟨s, r.rd, .tok ⟨mk v, tag⟩ true, r.alloc⟩ := by
  unfold scalarOut; rw [h]

theorem scalarOut_err {α : Type} (s : St) (r : R α) (mk : α → Body) (tag : Option Int) (e : Err)
    (h : r.res = .error e) : (scalarOut s r mk tag).ret = .err e := by
  unfold scalarOut; rw [h]

theorem scalarOut_mk_ok {α : Type} (s : St) (res : Except Err α) (rd : Rd) (al : Nat) (mk : α → Body)
    (tag : Option Int) (v : α) (h : res = .ok v) :
    scalarOut s ⟨res, rd, al⟩ mk tag = ⟨s, rd, .tok ⟨mk v, tag⟩ true, al⟩ := by
  unfold scalarOut; subst h; rfl

theorem scalarOut_mk_err {α : Type} (s : St) (res : Except Err α) (rd : Rd) (al : Nat) (mk : α → Body)
    (tag : Option Int) (e : Err) (h : res = .error e) :
    (scalarOut s ⟨res, rd, al⟩ mk tag).ret = .err e := by
  unfold scalarOut; subst h; rfl

/-- What `acceptValue` does, by the head of the input. -/
def AcceptRel (coerce : Bool) (s : St) (tag : Option Int) (fuel : Nat) (o : Out) : Option Head → Prop
  | none => ∃ e, o.ret = .err e
  | some (.scalar body r') => ∃ al, o = ⟨s, ⟨r', none, 0⟩, .tok ⟨body, tag⟩ true, al⟩
  | some (.arrI r') => o = ⟨push s .arrIndef, ⟨r', none, 0⟩, .tok ⟨.arrOpen (-1), tag⟩ false, 0⟩
  | some (.mapI r') => o = ⟨push s .mapIndefKey, ⟨r', none, 0⟩, .tok ⟨.mapOpen (-1), tag⟩ false, 0⟩
  | some (.arrD n r') => o = ⟨push { s with left := n :: s.left } .arrDef, ⟨r', none, 0⟩, .tok ⟨.arrOpen n, tag⟩ false, 0⟩
  | some (.mapD n r') => o = ⟨push { s with left := n :: s.left } .mapDefKey, ⟨r', none, 0⟩, .tok ⟨.mapOpen n, tag⟩ false, 0⟩
  | some (.tag n r') =>
    match tag with
    | some _ => ∃ e, o.ret = .err e
    | none =>
      match r' with
      | [] => ∃ e, o.ret = .err e
      | mb :: r1 =>
        match fuel with
        | 0 => ∃ e, o.ret = .err e
        | fuel+1 => o = acceptValue coerce s ⟨r1, none, 0⟩ mb (some (n : Int)) fuel

theorem beVal_lt : ∀ (l : Bytes), (∀ x ∈ l, x < 256) → beVal l < 256 ^ l.length
  | [], _ => by simp [beVal]
  | b :: t, h => by
    have h1 : b < 256 := h b (by simp)
    have h2 := beVal_lt t (fun x hx => h x (by simp [hx]))
    simp only [beVal, List.length_cons, Nat.pow_succ]
    have : b * 256 ^ t.length ≤ 255 * 256 ^ t.length := Nat.mul_le_mul_right _ (by omega)
    omega

theorem take_bytes (l : Bytes) (n : Nat) (h : ∀ x ∈ l, x < 256) : ∀ x ∈ l.take n, x < 256 :=
  fun x hx => h x (List.mem_of_mem_take hx)

theorem decFloat16 (r : Bytes) (hr : ∀ x ∈ r, x < 256) (hl : r.length ≥ 2) :
    decFloat ⟨r, none, 0⟩ 0xf9 = ⟨.ok (halfToF64 (beVal (r.take 2))), ⟨r.drop 2, none, 0⟩, 0⟩ := by
  have hlt : beVal (r.take 2) < 65536 := by
    have := beVal_lt (r.take 2) (take_bytes _ _ hr)
    have h2 : (r.take 2).length = 2 := by simp; omega
    rw [h2] at this; simpa using this
  unfold decFloat
  rw [if_pos (by decide), readN_ok _ _ hl]
  simp [HalfTable.half_exact _ hlt]

theorem decFloat32 (r : Bytes) (hl : r.length ≥ 4) :
    decFloat ⟨r, none, 0⟩ 0xfa = ⟨.ok (f32to64 (beVal (r.take 4))), ⟨r.drop 4, none, 0⟩, 0⟩ := by
  unfold decFloat
  rw [if_neg (by decide), if_pos (by decide), readN_ok _ _ hl]

theorem decFloat64 (r : Bytes) (hl : r.length ≥ 8) :
    decFloat ⟨r, none, 0⟩ 0xfb = ⟨.ok (beVal (r.take 8)), ⟨r.drop 8, none, 0⟩, 0⟩ := by
  unfold decFloat
  rw [if_neg (by decide), if_neg (by decide), readN_ok _ _ hl]

theorem decFloat_short (b : Nat) (r : Bytes) (hl : r.length < 2) :
    ∃ e, (decFloat ⟨r, none, 0⟩ b).res = .error e := by
  unfold decFloat
  obtain ⟨e2, h2⟩ := readN_err r 2 (by omega)
  obtain ⟨e4, h4⟩ := readN_err r 4 (by omega)
  obtain ⟨e8, h8⟩ := readN_err r 8 (by omega)
  rw [h2, h4, h8]
  split
  · exact ⟨_, rfl⟩
  split <;> exact ⟨_, rfl⟩

def StrRel (o : Option (Nat × Bytes)) (res : R Bytes) : Prop :=
  match o with
  | none => ∃ e, res.res = .error e
  | some (n, r') =>
    if (decide (n > Spec.Cbor.maxInt) || decide (n > Spec.Cbor.cap32M) || decide (r'.length < n)) = true then ∃ e, res.res = .error e
    else res.res = .ok (r'.take n) ∧ res.rd = ⟨r'.drop n, none, 0⟩

theorem decBytes_spec (b : Nat) (r : Bytes) : StrRel (arg (b % 32) r) (decBytes ⟨r, none, 0⟩ b) := by
  unfold decBytes
  cases ha : arg (b % 32) r with
  | none =>
    obtain ⟨e, rd', he⟩ := decLen_none _ _ ha
    rw [he]; simp [StrRel]
  | some p =>
    obtain ⟨n, r'⟩ := p
    by_cases hn : n > Spec.Cbor.maxInt
    · rw [decLen_big _ _ _ _ ha hn]
      simp [hn, StrRel]
    rw [decLen_some _ _ _ _ ha hn]
    dsimp only
    by_cases hc : n > Spec.Cbor.cap32M
    · have hc' : n > CborDec.cap32M := hc
      rw [if_pos hc']
      simp [hc, StrRel]
    have hc' : ¬ n > CborDec.cap32M := hc
    rw [if_neg hc']
    by_cases hl : r'.length < n
    · obtain ⟨e, he⟩ := readN_err r' n hl
      rw [he]
      simp [hl, StrRel]
    · rw [readN_ok _ _ (by omega)]
      simp [StrRel, hn, hc, hl]

theorem decString_spec (b : Nat) (r : Bytes) : StrRel (arg (b % 32) r) (decString ⟨r, none, 0⟩ b) := by
  unfold decString
  cases ha : arg (b % 32) r with
  | none =>
    obtain ⟨e, rd', he⟩ := decLen_none _ _ ha
    rw [he]; simp [StrRel]
  | some p =>
    obtain ⟨n, r'⟩ := p
    by_cases hn : n > Spec.Cbor.maxInt
    · rw [decLen_big _ _ _ _ ha hn]
      simp [hn, StrRel]
    rw [decLen_some _ _ _ _ ha hn]
    dsimp only
    by_cases hc : n > Spec.Cbor.cap32M
    · have hc' : n > CborDec.cap32M := hc
      rw [if_pos hc']
      simp [hc, StrRel]
    have hc' : ¬ n > CborDec.cap32M := hc
    rw [if_neg hc']
    by_cases hl : r'.length < n
    · obtain ⟨e, he⟩ := readN_err r' n hl
      rw [he]
      simp [hl, StrRel]
    · rw [readN_ok _ _ (by omega)]
      simp [StrRel, hn, hc, hl]

theorem accept_head (coerce : Bool) (s : St) (b : Nat) (hb : b < 256) (r : Bytes) (hr : ∀ x ∈ r, x < 256)
    (tag : Option Int) (fuel : Nat) :
    AcceptRel coerce s tag fuel (acceptValue coerce s ⟨r, none, 0⟩ b tag fuel) (headOf coerce (b :: r)) := by
  unfold acceptValue
  by_cases h1 : (b == sigNil) = true
  · rw [if_pos h1]
    have : b = 0xf6 := by simpa [sigNil] using h1
    subst this
    simp [headOf, AcceptRel]
  rw [if_neg h1]
  by_cases h2 : (b == sigUndef) = true
  · rw [if_pos h2]
    have : b = 0xf7 := by simpa [sigUndef] using h2
    subst this
    cases coerce <;> simp [headOf, AcceptRel]
  rw [if_neg h2]
  by_cases h3 : (b == sigFalse) = true
  · rw [if_pos h3]
    have : b = 0xf4 := by simpa [sigFalse] using h3
    subst this
    simp [headOf, AcceptRel]
  rw [if_neg h3]
  by_cases h4 : (b == sigTrue) = true
  · rw [if_pos h4]
    have : b = 0xf5 := by simpa [sigTrue] using h4
    subst this
    simp [headOf, AcceptRel]
  rw [if_neg h4]
  by_cases h5 : (b == sigF16 || b == sigF32 || b == sigF64) = true
  · rw [if_pos h5]
    simp only [Bool.or_eq_true, beq_iff_eq, sigF16, sigF32, sigF64] at h5
    rcases h5 with (h5 | h5) | h5
    · subst h5
      by_cases hl : r.length ≥ 2
      · rw [decFloat16 r hr hl, scalarOut_ok _ _ _ _ _ rfl]
        simp [headOf, hl, AcceptRel]
      · obtain ⟨e, he⟩ := decFloat_short 0xf9 r (by omega)
        have := scalarOut_err s _ Body.float tag e he
        simp [headOf, hl, AcceptRel, this]
    · subst h5
      by_cases hl : r.length ≥ 4
      · rw [decFloat32 r hl, scalarOut_ok _ _ _ _ _ rfl]
        simp [headOf, hl, AcceptRel]
      · obtain ⟨e, he⟩ : ∃ e, (decFloat ⟨r, none, 0⟩ 0xfa).res = .error e := by
          unfold decFloat
          obtain ⟨e4, h4⟩ := readN_err r 4 (by omega)
          rw [if_neg (by decide), if_pos (by decide), h4]; exact ⟨_, rfl⟩
        have := scalarOut_err s _ Body.float tag e he
        simp [headOf, hl, AcceptRel, this]
    · subst h5
      by_cases hl : r.length ≥ 8
      · rw [decFloat64 r hl, scalarOut_ok _ _ _ _ _ rfl]
        simp [headOf, hl, AcceptRel]
      · obtain ⟨e, he⟩ : ∃ e, (decFloat ⟨r, none, 0⟩ 0xfb).res = .error e := by
          unfold decFloat
          obtain ⟨e4, h4⟩ := readN_err r 8 (by omega)
          rw [if_neg (by decide), if_neg (by decide), h4]; exact ⟨_, rfl⟩
        have := scalarOut_err s _ Body.float tag e he
        simp [headOf, hl, AcceptRel, this]
  rw [if_neg h5]
  by_cases h6 : (b == sigIndefBytes) = true
  · rw [if_pos h6]
    have : b = 0x5f := by simpa [sigIndefBytes] using h6
    subst this
    have hc := decChunks_chunks 0x40 (r.length + 1) r [] 16 16
    simp only [majBytes]
    cases hch : chunks 0x40 (r.length + 1) r [] with
    | none =>
      rw [hch] at hc
      obtain ⟨e, he⟩ := hc
      have := scalarOut_err s _ Body.bytes tag e he
      simp [headOf, hch, AcceptRel, this]
    | some p =>
      obtain ⟨sres, r'⟩ := p
      rw [hch] at hc
      have h1 := scalarOut_ok s _ Body.bytes tag sres hc.1
      rw [h1, hc.2]
      simp [headOf, hch, AcceptRel]
  rw [if_neg h6]
  by_cases h7 : (b == sigIndefStr) = true
  · rw [if_pos h7]
    have : b = 0x7f := by simpa [sigIndefStr] using h7
    subst this
    have hc := decChunks_chunks 0x60 (r.length + 1) r [] 16 16
    simp only [majStr]
    cases hch : chunks 0x60 (r.length + 1) r [] with
    | none =>
      rw [hch] at hc
      obtain ⟨e, he⟩ := hc
      have key : ∀ R' : R Bytes, R'.res = .error e →
          AcceptRel coerce s tag fuel (scalarOut s R' Body.str tag) (headOf coerce (127 :: r)) := by
        intro R' h'
        have := scalarOut_err s R' Body.str tag e h'
        simp [headOf, hch, AcceptRel, this]
      refine key _ ?_
      exact he
    | some p =>
      obtain ⟨sres, r'⟩ := p
      rw [hch] at hc
      have key : ∀ R' : R Bytes, R'.res = .ok sres → R'.rd = ⟨r', none, 0⟩ →
          AcceptRel coerce s tag fuel (scalarOut s R' Body.str tag) (headOf coerce (127 :: r)) := by
        intro R' h' h''
        rw [scalarOut_ok s R' Body.str tag sres h', h'']
        simp [headOf, hch, AcceptRel]
      refine key _ ?_ ?_
      · exact hc.1
      · exact hc.2
  rw [if_neg h7]
  by_cases h8 : (b == sigIndefArr) = true
  · rw [if_pos h8]
    have : b = 0x9f := by simpa [sigIndefArr] using h8
    subst this
    simp [headOf, AcceptRel]
  rw [if_neg h8]
  by_cases h9 : (b == sigIndefMap) = true
  · rw [if_pos h9]
    have : b = 0xbf := by simpa [sigIndefMap] using h9
    subst this
    simp [headOf, AcceptRel]
  rw [if_neg h9]
  have n1 : b ≠ 0xf6 := by simpa [sigNil] using h1
  have n2 : b ≠ 0xf7 := by simpa [sigUndef] using h2
  have n3 : b ≠ 0xf4 := by simpa [sigFalse] using h3
  have n4 : b ≠ 0xf5 := by simpa [sigTrue] using h4
  have n5 : b ≠ 0xf9 ∧ b ≠ 0xfa ∧ b ≠ 0xfb := by simpa [sigF16, sigF32, sigF64, not_or, and_assoc] using h5
  have n6 : b ≠ 0x5f := by simpa [sigIndefBytes] using h6
  have n7 : b ≠ 0x7f := by simpa [sigIndefStr] using h7
  have n8 : b ≠ 0x9f := by simpa [sigIndefArr] using h8
  have n9 : b ≠ 0xbf := by simpa [sigIndefMap] using h9
  -- the head for a definite-length form
  have hdef : b / 32 ≠ 7 → b % 32 ≠ 31 → headOf coerce (b :: r) =
      (match arg (b % 32) r with
      | none => none
      | some (n, r') =>
        if b / 32 = 0 then some (.scalar (.uint n) r')
        else if b / 32 = 1 then (if n < two63 then some (.scalar (.int (-1 - (n : Int))) r') else none)
        else if b / 32 = 2 then
          (if n > Spec.Cbor.maxInt || n > Spec.Cbor.cap32M || r'.length < n then none else some (.scalar (.bytes (r'.take n)) (r'.drop n)))
        else if b / 32 = 3 then
          (if n > Spec.Cbor.maxInt || n > Spec.Cbor.cap32M || r'.length < n then none else some (.scalar (.str (r'.take n)) (r'.drop n)))
        else if b / 32 = 4 then (if n > Spec.Cbor.maxInt then none else some (.arrD n r'))
        else if b / 32 = 5 then (if n > Spec.Cbor.maxInt then none else some (.mapD n r'))
        else (if n > Spec.Cbor.maxInt then none else some (.tag n r'))) := by
    intro g7 g31
    simp only [headOf, beq_iff_eq, g7, g31, if_false]
    cases arg (b % 32) r with
    | none => rfl
    | some p => rfl
  have hindef : b / 32 ≠ 7 → b % 32 = 31 → b / 32 ≠ 2 → b / 32 ≠ 3 → b / 32 ≠ 4 → b / 32 ≠ 5 →
      headOf coerce (b :: r) = none := by
    intro g7 g31 g2 g3 g4 g5
    simp only [headOf, beq_iff_eq, g7, g31, g2, g3, g4, g5, if_false, if_true]
  by_cases c0 : b < majNeg
  · rw [if_pos c0]
    simp only [majNeg] at c0
    have hmt : b / 32 = 0 := by omega
    by_cases h31 : b % 32 = 31
    · rw [hindef (by omega) h31 (by omega) (by omega) (by omega) (by omega)]
      have : b = 31 := by omega
      subst this
      simp [AcceptRel, decUint, scalarOut]
    rw [hdef (by omega) h31]
    cases ha : arg (b % 32) r with
    | none =>
      obtain ⟨e, rd', he⟩ := decUint_none _ _ ha
      rw [he]
      simp [AcceptRel, scalarOut]
    | some p =>
      obtain ⟨n, r'⟩ := p
      rw [decUint_some _ _ _ _ ha]
      simp [AcceptRel, scalarOut, hmt]
  rw [if_neg c0]
  by_cases c1 : b < majBytes
  · rw [if_pos c1]
    simp only [majNeg, majBytes] at c0 c1
    have hmt : b / 32 = 1 := by omega
    by_cases h31 : b % 32 = 31
    · rw [hindef (by omega) h31 (by omega) (by omega) (by omega) (by omega)]
      have : b = 63 := by omega
      subst this
      simp [AcceptRel, decNegInt, decUint, scalarOut]
    rw [hdef (by omega) h31]
    unfold decNegInt
    cases ha : arg (b % 32) r with
    | none =>
      obtain ⟨e, rd', he⟩ := decUint_none _ _ ha
      rw [he]
      simp [AcceptRel, scalarOut]
    | some p =>
      obtain ⟨n, r'⟩ := p
      rw [decUint_some _ _ _ _ ha]
      by_cases hn : n < two63
      · have : ¬ n > CborDec.maxInt := by simp only [CborDec.maxInt]; simp only [two63] at hn; omega
        simp [AcceptRel, scalarOut, hmt, hn, this]
      · have : n > CborDec.maxInt := by simp only [CborDec.maxInt]; simp only [two63] at hn; omega
        simp [AcceptRel, scalarOut, hmt, hn, this]
  rw [if_neg c1]
  by_cases c2 : b < majStr
  · rw [if_pos c2]
    simp only [majNeg, majBytes, majStr] at c0 c1 c2
    have hmt : b / 32 = 2 := by omega
    have h31 : b % 32 ≠ 31 := by omega
    rw [hdef (by omega) h31]
    have hs := decBytes_spec b r
    cases ha : arg (b % 32) r with
    | none =>
      rw [ha] at hs
      obtain ⟨e, he⟩ := hs
      have := scalarOut_err s _ Body.bytes tag e he
      simp [AcceptRel, this]
    | some p =>
      obtain ⟨n, r'⟩ := p
      rw [ha] at hs
      simp only [StrRel] at hs
      dsimp only
      rw [if_neg (by omega), if_neg (by omega), if_pos hmt]
      split at hs
      · rename_i hc
        obtain ⟨e, he⟩ := hs
        have := scalarOut_err s _ Body.bytes tag e he
        rw [if_pos hc]
        simp [AcceptRel, this]
      · rename_i hc
        rw [if_neg hc]
        rw [scalarOut_ok s _ Body.bytes tag _ hs.1, hs.2]
        simp [AcceptRel]
  rw [if_neg c2]
  by_cases c3 : b < majArr
  · rw [if_pos c3]
    simp only [majNeg, majBytes, majStr, majArr] at c0 c1 c2 c3
    have hmt : b / 32 = 3 := by omega
    have h31 : b % 32 ≠ 31 := by omega
    rw [hdef (by omega) h31]
    have hs := decString_spec b r
    cases ha : arg (b % 32) r with
    | none =>
      rw [ha] at hs
      obtain ⟨e, he⟩ := hs
      have := scalarOut_err s _ Body.str tag e he
      simp [AcceptRel, this]
    | some p =>
      obtain ⟨n, r'⟩ := p
      rw [ha] at hs
      simp only [StrRel] at hs
      dsimp only
      rw [if_neg (by omega), if_neg (by omega), if_neg (by omega), if_pos hmt]
      split at hs
      · rename_i hc
        obtain ⟨e, he⟩ := hs
        have := scalarOut_err s _ Body.str tag e he
        rw [if_pos hc]
        simp [AcceptRel, this]
      · rename_i hc
        rw [if_neg hc]
        rw [scalarOut_ok s _ Body.str tag _ hs.1, hs.2]
        simp [AcceptRel]
  rw [if_neg c3]
  by_cases c4 : b < majMap
  · rw [if_pos c4]
    simp only [majNeg, majBytes, majStr, majArr, majMap] at c0 c1 c2 c3 c4
    have hmt : b / 32 = 4 := by omega
    have h31 : b % 32 ≠ 31 := by omega
    rw [hdef (by omega) h31]
    cases ha : arg (b % 32) r with
    | none =>
      obtain ⟨e, rd', he⟩ := decLen_none _ _ ha
      rw [he]
      simp [AcceptRel]
    | some p =>
      obtain ⟨n, r'⟩ := p
      dsimp only
      rw [if_neg (by omega), if_neg (by omega), if_neg (by omega), if_neg (by omega), if_pos hmt]
      by_cases hn : n > Spec.Cbor.maxInt
      · rw [decLen_big _ _ _ _ ha hn, if_pos hn]
        simp [AcceptRel]
      · rw [decLen_some _ _ _ _ ha hn, if_neg hn]
        simp [AcceptRel]
  rw [if_neg c4]
  by_cases c5 : b < majTag
  · rw [if_pos c5]
    simp only [majNeg, majBytes, majStr, majArr, majMap, majTag] at c0 c1 c2 c3 c4 c5
    have hmt : b / 32 = 5 := by omega
    have h31 : b % 32 ≠ 31 := by omega
    rw [hdef (by omega) h31]
    cases ha : arg (b % 32) r with
    | none =>
      obtain ⟨e, rd', he⟩ := decLen_none _ _ ha
      rw [he]
      simp [AcceptRel]
    | some p =>
      obtain ⟨n, r'⟩ := p
      dsimp only
      rw [if_neg (by omega), if_neg (by omega), if_neg (by omega), if_neg (by omega), if_neg (by omega), if_pos hmt]
      by_cases hn : n > Spec.Cbor.maxInt
      · rw [decLen_big _ _ _ _ ha hn, if_pos hn]
        simp [AcceptRel]
      · rw [decLen_some _ _ _ _ ha hn, if_neg hn]
        simp [AcceptRel]
  rw [if_neg c5]
  by_cases c6 : b < 0xe0
  · rw [if_pos c6]
    simp only [majNeg, majBytes, majStr, majArr, majMap, majTag] at c0 c1 c2 c3 c4 c5
    have hmt : b / 32 = 6 := by omega
    by_cases h31 : b % 32 = 31
    · rw [hindef (by omega) h31 (by omega) (by omega) (by omega) (by omega)]
      have : b = 223 := by omega
      subst this
      cases tag <;> simp [AcceptRel, decLen, decUint]
    rw [hdef (by omega) h31]
    cases ha : arg (b % 32) r with
    | none =>
      obtain ⟨e, rd', he⟩ := decLen_none _ _ ha
      rw [he]
      cases tag <;> simp [AcceptRel]
    | some p =>
      obtain ⟨n, r'⟩ := p
      dsimp only
      rw [if_neg (by omega), if_neg (by omega), if_neg (by omega), if_neg (by omega), if_neg (by omega), if_neg (by omega)]
      by_cases hn : n > Spec.Cbor.maxInt
      · rw [decLen_big _ _ _ _ ha hn, if_pos hn]
        cases tag <;> simp [AcceptRel]
      · rw [decLen_some _ _ _ _ ha hn, if_neg hn]
        cases tag with
        | some t => simp [AcceptRel]
        | none =>
          cases r' with
          | nil => simp [AcceptRel]
          | cons mb r1 =>
            cases fuel with
            | zero => simp [AcceptRel]
            | succ fuel => simp [AcceptRel]
  rw [if_neg c6]
  have hmt : b / 32 = 7 := by omega
  have : headOf coerce (b :: r) = none := by
    simp only [headOf, beq_iff_eq, hmt, n1, n2, n3, n4, n5.1, n5.2.1, n5.2.2, if_false, if_true]
  rw [this]
  simp [AcceptRel]
end Refmt.C04
