/-
  Stateful object unmarshaller: the wildcard machine from its `Reset`  ~  `unmBare … .wildcard`
  (atlases without tagged entries).
-/
import RefmtProofs.Lemmas.UnmarshalMachUnionSimW
set_option linter.unusedSimpArgs false
set_option linter.unusedVariables false
namespace Refmt.UMachU
open Refmt Refmt.Obj Refmt.Obj.UM Refmt.UMachL

variable {ts : Types} {a : Atlas} {trs : Trs} {it : IfaceTys}

/-- what the wildcard machine needs: the type ids of `map[string]interface{}` and `[]interface{}` denote these types,
    `interface{}` is a covered type, the machines of the atlas entries found by tag are covered (struct map, map,
    transform over struct map / slice / array / map) -/
structure WildHyp (ts : Types) (a : Atlas) (it : IfaceTys) (S : List Nat) : Prop where
  mapSI : ts.get it.mapSI = .map it.str it.iface
  sliceI : ts.get it.sliceI = .slice it.iface
  str : keyFnOfU ts a it.str = some none
  ifc : it.iface ∈ S
  ifcPeel : peel ts 64 0 it.iface = (0, it.iface)
  ifcMach : upickBare ts a it.iface = .wildcard
  ifcMeth : hasMethods ts it.iface = false
  tags : ∀ g e, a.getByTag g = some e → okMember ts a S (some it.iface) (upickBare ts a e.ty)

theorem umachForEntry_not_wild (e : Entry) : umachForEntry ts e ≠ .wildcard := by
  unfold umachForEntry
  split <;> try simp
  split <;> simp

theorem WildHyp.cfg {S : List Nat} (h : WildHyp ts a it S) {crow : URow} {cck : MK}
    (hc : CfgV ts a crow it.iface cck) : cck = .wild := by
  obtain ⟨k, hb, hp⟩ := hc
  rw [h.ifcPeel] at hb hp
  simp only [h.ifcMach, CfgBare] at hb
  simp only [if_true] at hp
  rw [hp, hb]

/-- what the wildcard machine makes of a tagged value -/
def tagW (ty : Nat) (v : Val) : Val := .iface (some (ty, v))

/-- a tagged token, entry found, the tip row being the wildcard machine's own -/
theorem wild_tag_S {S : List Nat} {n : Nat} (hWd : WildHyp ts a it S)
    (hT : TagSim (ts := ts) (a := a) (trs := trs) (it := it) S n)
    {c : URef} {lo : List URow} {row1 : URow} {w : Val → Val} {d : Nat} (hw1 : WrP c lo row1 .wild w d)
    (hdl : row1.wild.delegate = none) (hm : hasMethods ts row1.wild.target_rt = false)
    (stk : List URef) (be : Option XFail) (t : Tok) (rest : List Tok) {gt : Int} {e : Entry}
    (htag : t.tag = some gt) (hg : a.getByTag gt = some e) (g sf : Nat) (hg4 : 4 ≤ g + d) (hsf : 17 ≤ sf) :
    Agree ts a trs it (some true) none c sf be stk lo row1 some w
      (pump1 ts a trs it (g + 4 + 1 + d + 1) sf ⟨lo ++ row1 :: [], stk, some c, be⟩ (t :: rest))
      (mapV (tagW e.ty) (unmBare ts a trs it n e.ty (upickBare ts a e.ty) (zeroVal ts 64 e.ty) (t :: rest))) := by
  have hd := hw1.le
  have hokm := hWd.tags gt e hg
  obtain ⟨T', k, hcfgU, hTp, hTu, hcfg, hku, hkp, hktr, hTw⟩ := cfgMember (f := g) row1 e.ty hokm
  have htipix : tipIx (lo ++ row1 :: []) = lo.length := by simp [tipIx]
  generalize hG : rowWd T' (wdTag T'.wild e.ty ⟨lo.length, k⟩) = G
  have hGp : G.ptr = row1.ptr := by subst hG; exact hTp
  have hGu : G.union = row1.union := by subst hG; exact hTu
  have hGd : G.wild.delegate = some ⟨lo.length, k⟩ := by subst hG; rfl
  have hGi : ifaceW G = tagW e.ty := by subst hG; rfl
  have hGc : CfgBare ts a G e.ty k (upickBare ts a e.ty) := by
    subst hG; exact hcfg.sameC ⟨rfl, rfl, rfl, rfl, rfl, rfl, rfl, rfl, rfl, rfl⟩
  have hstep : ∀ st, stepM ts a trs it (g + 4 + 1) ⟨lo.length, .wild⟩ ⟨lo ++ row1 :: [], stk, st, be⟩ t
      = match resetM ts a (g + 4) ⟨lo.length, k⟩ e.ty (zeroVal ts 64 e.ty) (lo ++ G :: []) with
        | .error x => .error x
        | .ok R2 => mapDone (tagW e.ty) (stepM ts a trs it (g + 4) ⟨lo.length, k⟩ ⟨R2, stk, st, be⟩ t) := by
    intro st
    rw [wild_step_tag_found (trow := row1) (trow' := T') (k := k) hdl htag hg hm (by rw [htipix]; simp)
      (by simp only [yieldBare]; exact hcfgU)]
    rw [htipix]
    have : updRow ((lo ++ row1 :: []).set lo.length T') lo.length
        (fun r => rowWd r (wdTag r.wild e.ty ⟨lo.length, k⟩)) = lo ++ G :: [] := by
      rw [show (lo ++ row1 :: []).set lo.length T' = lo ++ T' :: [] by simp, updRow_at, hG]
    rw [this]; rfl
  have hwW : ∀ T'' : URow, T''.ptr = G.ptr → T''.wild = G.wild → ∀ {kk F w' dd},
      Wr trs.u ⟨lo.length, k⟩ lo T'' kk F w' dd none →
      Wr trs.u c lo T'' kk F ((w ∘ tagW e.ty) ∘ w') (dd + (1 + d)) none := by
    intro T'' hp hwl kk F w' dd h
    have h1 := (hw1.congr (row' := T'') (by rw [hp, hGp])).trans (U := trs.u)
      (Wr.wildS (by rw [hwl]; exact hGd) h)
    have hi : ifaceW T'' = tagW e.ty := by rw [← hGi]; funext v; simp [ifaceW, hwl]
    rw [hi, show dd + 1 + d = dd + (1 + d) by omega] at h1
    exact h1
  have hw2 : Wr trs.u c lo G k some (w ∘ tagW e.ty) (d + 1) none := by
    have := hwW G rfl rfl (Wr.refl lo G k)
    rw [show 0 + (1 + d) = d + 1 by omega] at this
    exact this
  have hfr := fun R2 hr => tag_frame hokm hGc (L := lo) (g + 4) e.ty (zeroVal ts 64 e.ty) G [] R2 rfl hr
  rw [wild_firstT (hw1.toWr (U := trs.u)) hfr hstep hw2]
  have hA := hT gt e hg lo G stk be c (w ∘ tagW e.ty) (1 + d) k hGc
    (fun T'' hp _ hwl => hwW T'' hp hwl) (by omega) (zeroVal ts 64 e.ty) (t :: rest) (g + 4) (g + 4 + 1 + d + 1) sf
    (by omega) (by omega) hsf
  have hA2 := hA.mapV
  have := hA2.rekeep (b' := some true) (row := row1) (fun r' hk' => by
    have hk'' : SameCfg G r' := hk'
    exact ⟨hk''.1.trans (by rw [hGp]), hk''.2.1.trans (by rw [hGp]),
      hk''.2.2.2.2.2.2.2.2.2.1.trans (by rw [hGu])⟩)
  exact this

/-- a tagged token, entry found, the tip row being a row further up -/
theorem wild_tag_X {S : List Nat} {n : Nat} (hWd : WildHyp ts a it S)
    (hT : TagSim (ts := ts) (a := a) (trs := trs) (it := it) S n)
    {c : URef} {lo : List URow} {row1 : URow} {w : Val → Val} {d : Nat} (hw1 : WrP c lo row1 .wild w d)
    (hdl : row1.wild.delegate = none) (hm : hasMethods ts row1.wild.target_rt = false)
    (mid : List URow) (grow : URow) (stk : List URef) (be : Option XFail) (t : Tok) (rest : List Tok) {gt : Int}
    {e : Entry} (htag : t.tag = some gt) (hg : a.getByTag gt = some e) (g sf : Nat) (hg4 : 4 ≤ g + d) (hsf : 17 ≤ sf) :
    Agree ts a trs it (some true) none c sf be stk lo row1 some w
      (pump1 ts a trs it (g + 4 + 1 + d + 1) sf ⟨lo ++ row1 :: (mid ++ [grow]), stk, some c, be⟩ (t :: rest))
      (mapV (tagW e.ty) (unmBare ts a trs it n e.ty (upickBare ts a e.ty) (zeroVal ts 64 e.ty) (t :: rest))) := by
  have hd := hw1.le
  have hokm := hWd.tags gt e hg
  obtain ⟨T', k, hcfgU, hTp, hTu, hcfg, hku, hkp, hktr, hTw⟩ := cfgMember (f := g) grow e.ty hokm
  generalize hN : lo.length + 1 + mid.length = N
  have htipix : tipIx (lo ++ row1 :: (mid ++ [grow])) = N := by simp [tipIx]; omega
  generalize hGw : rowWd row1 (wdTag row1.wild e.ty ⟨N, k⟩) = Gw
  have hGwp : Gw.ptr = row1.ptr := by subst hGw; rfl
  have hGwd : Gw.wild.delegate = some ⟨N, k⟩ := by subst hGw; rfl
  have hGwi : ifaceW Gw = tagW e.ty := by subst hGw; rfl
  have hGws : SameCfg row1 Gw := by subst hGw; exact rowWd_same _ _
  have hLlen : (lo ++ Gw :: mid).length = N := by simp; omega
  have hstep : ∀ st, stepM ts a trs it (g + 4 + 1) ⟨lo.length, .wild⟩ ⟨lo ++ row1 :: (mid ++ [grow]), stk, st, be⟩ t
      = match resetM ts a (g + 4) ⟨(lo ++ Gw :: mid).length, k⟩ e.ty (zeroVal ts 64 e.ty) ((lo ++ Gw :: mid) ++ T' :: []) with
        | .error x => .error x
        | .ok R2 => mapDone (tagW e.ty)
            (stepM ts a trs it (g + 4) ⟨(lo ++ Gw :: mid).length, k⟩ ⟨R2, stk, st, be⟩ t) := by
    intro st
    rw [wild_step_tag_found (trow := grow) (trow' := T') (k := k) hdl htag hg hm
      (by rw [htipix, ← hN, show lo ++ row1 :: (mid ++ [grow]) = (lo ++ row1 :: mid) ++ [grow] by simp,
            show lo.length + 1 + mid.length = (lo ++ row1 :: mid).length by simp; omega]; simp)
      (by simp only [yieldBare]; exact hcfgU)]
    rw [htipix, hLlen]
    have : updRow ((lo ++ row1 :: (mid ++ [grow])).set N T') lo.length
        (fun r => rowWd r (wdTag r.wild e.ty ⟨N, k⟩)) = (lo ++ Gw :: mid) ++ T' :: [] := by
      have h1 : (lo ++ row1 :: (mid ++ [grow])).set N T' = lo ++ row1 :: (mid ++ [T']) := by
        rw [← hN, show lo ++ row1 :: (mid ++ [grow]) = (lo ++ row1 :: mid) ++ [grow] by simp,
          show lo.length + 1 + mid.length = (lo ++ row1 :: mid).length by simp; omega,
          List.set_append_right _ _ (Nat.le_refl _)]
        simp
      rw [h1, updRow_at, hGw]; simp
    rw [this]; rfl
  have hwW : ∀ T'' : URow, ∀ {kk F w' dd},
      Wr trs.u ⟨(lo ++ Gw :: mid).length, k⟩ (lo ++ Gw :: mid) T'' kk F w' dd none →
      Wr trs.u c (lo ++ Gw :: mid) T'' kk F ((w ∘ tagW e.ty) ∘ w') (dd + (1 + d)) none := by
    intro T'' kk F w' dd h
    have hb : Wr trs.u ⟨lo.length, .wild⟩ (lo ++ Gw :: mid) T'' kk F (ifaceW Gw ∘ w') (dd + 1) none :=
      Wr.wildX (r0 := Gw) (by simp) (by rw [hGwd, hLlen]) h
    have h1 := (hw1.congr (row' := Gw) hGwp).lift mid T'' hb
    rw [hGwi, show dd + 1 + d = dd + (1 + d) by omega] at h1
    exact h1
  have hw2 : Wr trs.u c (lo ++ Gw :: mid) T' k some (w ∘ tagW e.ty) (d + 1) none := by
    have := hwW T' (Wr.refl (lo ++ Gw :: mid) T' k)
    rw [show 0 + (1 + d) = d + 1 by omega] at this
    exact this
  have hfr := fun R2 hr => tag_frame hokm hcfg (L := lo ++ Gw :: mid) (g + 4) e.ty (zeroVal ts 64 e.ty) T' [] R2 rfl hr
  rw [wild_firstT (hw1.toWr (U := trs.u)) hfr hstep hw2]
  have hA := hT gt e hg (lo ++ Gw :: mid) T' stk be c (w ∘ tagW e.ty) (1 + d) k hcfg
    (fun T'' _ _ _ => hwW T'') (by omega) (zeroVal ts 64 e.ty) (t :: rest) (g + 4) (g + 4 + 1 + d + 1) sf
    (by omega) (by omega) hsf
  exact (hA.mapV.lower hGws).weakB

theorem simB_wild {S : List Nat} {wi : Option Nat} {n : Nat} (hS : Closed ts a S wi) (hWd : WildHyp ts a it S)
    (hE : ∀ m, m + 2 = n → SimE ts a trs it S m) (hMp : ∀ m, m + 2 = n → SimM ts a trs it S m) {base : Nat}
    (cur : Val) (lo : List URow) (row : URow) (hi : List URow) (stk : List URef) (be : Option XFail) (c : URef)
    (w : Val → Val) (d : Nat) (toks : List Tok) (fr sf1 sf : Nat)
    (hT : ∀ m, m + 1 = n → TagSim (ts := ts) (a := a) (trs := trs) (it := it) S m)
    (hw : WrP c lo row .wild w d) (hfr : 6 ≤ fr) (hsf1 : 10 ≤ sf1) (hsf : 17 ≤ sf) :
    Agree ts a trs it (some true) none c sf be stk lo row some w
      (rtpB ts a trs it fr sf1 sf (lo ++ row :: hi) stk be c ⟨lo.length, .wild⟩ base cur toks)
      (unmBare ts a trs it (n+1) base .wildcard cur toks) := by
  have hd := hw.le
  cases toks with
  | nil => simp [rtpB, unmBare, Agree]
  | cons t rest =>
    obtain ⟨f, rfl⟩ : ∃ f, fr = f + 1 := ⟨fr - 1, by omega⟩
    obtain ⟨g, rfl⟩ : ∃ g, sf1 = g + 1 + d + 1 := ⟨sf1 - d - 2, by omega⟩
    rw [unmBare_wild]
    simp only [rtpB, wild_reset]
    cases n with
    | zero => simp [unmWild, Agree]
    | succ n =>
    by_cases htf : ∃ gt e, t.tag = some gt ∧ a.getByTag gt = some e ∧ hasMethods ts base = false
    · obtain ⟨gt, e, htag, hg, hmeth⟩ := htf
      rw [hmeth, unmWild_tag_found htag hg]
      obtain ⟨g', rfl⟩ : ∃ g', g = g' + 4 := ⟨g - 4, by omega⟩
      have hw1 : WrP c lo (rowWd row (wdReset row.wild cur base)) .wild w d := hw.congr rfl
      have hkeep : ∀ r', Keep (some true) (rowWd row (wdReset row.wild cur base)) r' → Keep (some true) row r' :=
        fun r' hk' => SameCfgW.trans ⟨rfl, rfl, rfl⟩ hk'
      by_cases hh : hi = []
      · subst hh
        exact (wild_tag_S hWd (hT n rfl) hw1 rfl hmeth stk be t rest htag hg g' sf (by omega) hsf).rekeep hkeep
      · obtain ⟨mid, grow, rfl⟩ := snoc_of_ne_nil hi hh
        exact (wild_tag_X hWd (hT n rfl) hw1 rfl hmeth mid grow stk be t rest htag hg g' sf (by omega) hsf).rekeep hkeep
    · apply Agree.weakB
      have hw1 : WrP c lo (rowWd row (wdReset row.wild cur base)) .wild w d := hw.congr rfl
      have hw1' : Wr trs.u c lo (rowWd row (wdReset row.wild cur base)) .wild some w d none := hw1.toWr
      have hs := hw1'.step (ts := ts) (a := a) (it := it) hi stk (some c) be t (g + 1)
      have hsame : SameCfg row (rowWd row (wdReset row.wild cur base)) := rowWd_same _ _
      cases htag : t.tag with
      | some gt =>
        cases hg : a.getByTag gt with
        | none =>
          rw [wild_step_tag rfl htag hg] at hs
          rw [pump1_err hs, unmWild_tag htag hg]
          simp [Agree, XFail.toURes]
        | some e =>
          cases hmeth : hasMethods ts base with
          | false => exact absurd ⟨gt, e, htag, hg, hmeth⟩ htf
          | true =>
            rw [wild_step_tag_meth rfl htag hg hmeth] at hs
            rw [pump1_err hs, unmWild_tag_meth htag hg]
            simp [Agree, XFail.toURes]
      | none =>
        by_cases hnull : t.body = .null
        · rw [unmWild_null htag hnull]
          exact Agree.fin1 hw1' (wild_step_null rfl htag hnull) hsame (by omega)
        · by_cases hclose : t.body = .mapClose ∨ t.body = .arrClose
          · rw [wild_step_close rfl htag hclose] at hs
            rw [pump1_err hs, unmWild_close htag hclose]
            simp [Agree, XFail.toURes]
          · have h2 : t.body ≠ .mapClose := fun h => hclose (Or.inl h)
            have h3 : t.body ≠ .arrClose := fun h => hclose (Or.inr h)
            cases hmeth : hasMethods ts base with
            | true =>
              rw [wild_step_meth rfl htag hmeth hnull h2 h3] at hs
              rw [pump1_err hs, unmWild_meth htag hnull h2 h3]
              simp [Agree, XFail.toURes]
            | false =>
              by_cases hmo : ∃ len, t.body = .mapOpen len
              · obtain ⟨len, hb⟩ := hmo
                rw [unmWild_mapOpen htag hb]
                cases n with
                | zero => simp [unmBare, mapV, Agree]
                | succ m =>
                obtain ⟨L, G, hR1, htip, hw2, hlow⟩ := wild_geom (ts := ts) (a := a) (trs := trs) (it := it) (sf := sf)
                  (be := be) (stk := stk) (hi := hi) (k := .map) (g := fun v => .iface (some (it.mapSI, v))) hw1
                  (fun dd => rowWd (rowWd row (wdReset row.wild cur base))
                    (wdMap it (rowWd row (wdReset row.wild cur base)).wild dd))
                  (fun _ => rfl) (fun _ => rfl) (fun _ => rfl) (fun _ => rowWd_same _ _)
                have hstep : ∀ st, stepM ts a trs it (g+1) ⟨lo.length, .wild⟩
                    ⟨lo ++ rowWd row (wdReset row.wild cur base) :: hi, stk, st, be⟩ t
                    = match resetM ts a g ⟨L.length, .map⟩ it.mapSI (.map (some [])) (L ++ G :: []) with
                      | .error x => .error x
                      | .ok R2 => mapDone (fun v => .iface (some (it.mapSI, v)))
                          (stepM ts a trs it g ⟨L.length, .map⟩ ⟨R2, stk, st, be⟩ t) := by
                  intro st
                  rw [wild_step_mapOpen rfl htag hmeth hb, hR1, htip]
                  cases resetM ts a g ⟨L.length, .map⟩ it.mapSI (.map (some [])) (L ++ G :: []) <;> rfl
                rw [wild_first hw1' (Or.inl rfl) hstep hw2]
                have hA := simB_map hS (hMp m rfl) hWd.mapSI hWd.ifc (.map (some [])) L G [] stk be c some _ (d + 1)
                  (t :: rest) g (g + 1 + d + 1) sf hw2 (by omega) (by omega) hsf1 hsf
                exact ((hlow _ _ hA).mapV).same hsame
              · by_cases hao : ∃ len, t.body = .arrOpen len
                · obtain ⟨len, hb⟩ := hao
                  rw [unmWild_arrOpen htag hb]
                  cases n with
                  | zero => simp [unmBare, mapV, Agree]
                  | succ m =>
                  obtain ⟨L, G, hR1, htip, hw2, hlow⟩ := wild_geom (ts := ts) (a := a) (trs := trs) (it := it) (sf := sf)
                    (be := be) (stk := stk) (hi := hi) (k := .slice) (g := fun v => .iface (some (it.sliceI, v))) hw1
                    (fun dd => rowWd (rowWd row (wdReset row.wild cur base))
                      (wdSlice it (rowWd row (wdReset row.wild cur base)).wild dd))
                    (fun _ => rfl) (fun _ => rfl) (fun _ => rfl) (fun _ => rowWd_same _ _)
                  have hstep : ∀ st, stepM ts a trs it (g+1) ⟨lo.length, .wild⟩
                      ⟨lo ++ rowWd row (wdReset row.wild cur base) :: hi, stk, st, be⟩ t
                      = match resetM ts a g ⟨L.length, .slice⟩ it.sliceI (.slice (some [])) (L ++ G :: []) with
                        | .error x => .error x
                        | .ok R2 => mapDone (fun v => .iface (some (it.sliceI, v)))
                            (stepM ts a trs it g ⟨L.length, .slice⟩ ⟨R2, stk, st, be⟩ t) := by
                    intro st
                    rw [wild_step_arrOpen rfl htag hmeth hb, hR1, htip]
                    cases resetM ts a g ⟨L.length, .slice⟩ it.sliceI (.slice (some [])) (L ++ G :: []) <;> rfl
                  rw [wild_first hw1' (Or.inr rfl) hstep hw2]
                  have hA := simB_slice hS (hE m rfl) hWd.sliceI hWd.ifc (.slice (some [])) L G [] stk be c some _ (d + 1)
                    (t :: rest) g (g + 1 + d + 1) sf hw2 (by omega) (by omega) hsf1 hsf
                  rw [unmBare_slice] at hA
                  rw [unmBare_slice]
                  exact ((hlow _ _ hA).mapV).same hsame
                · have h4 : ∀ len, t.body ≠ .mapOpen len := fun len h => hmo ⟨len, h⟩
                  have h5 : ∀ len, t.body ≠ .arrOpen len := fun len h => hao ⟨len, h⟩
                  obtain ⟨v, hv, hfun⟩ := unmWild_scalar (ts := ts) (a := a) (trs := trs) (it := it) (n := n)
                    (rest := rest) htag hnull h2 h3 h4 h5
                  have hl := wild_step_scalar (ts := ts) (a := a) (trs := trs) (it := it) (f := g) (lo := lo) (hi := hi)
                    (row := rowWd row (wdReset row.wild cur base)) (stk := stk) (st := some c) (be := be) (t := t)
                    rfl htag hmeth hnull h2 h3 h4 h5
                  rw [hv] at hl
                  rw [hfun]
                  exact Agree.fin1 hw1' hl hsame (by omega)

end Refmt.UMachU
