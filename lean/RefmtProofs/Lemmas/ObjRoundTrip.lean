-- auxiliary equation lemmas / definitions for the C13 proofs (object unmarshaller model); see RefmtProofs/Props/C13.lean
import RefmtProofs.Lemmas.ObjMarEq
set_option linter.unusedSimpArgs false
set_option linter.unusedVariables false
namespace Refmt.Obj
open Refmt

def keyStr : Val → Bytes
  | .str s => s
  | _ => []

mutual
  /-- the value the token-level round trip returns on plain types: `normV` with map entries in marshalling order -/
  def rtV (ts : Types) (a : Atlas) (trs : Trs) (it : IfaceTys) : Nat → Nat → Val → Val
    | 0, _, v => v
    | fuel+1, id, v =>
      let (n, base) := peel ts 64 0 id
      if n == 0 then rtBare ts a trs it fuel base (pickBare ts a base) v
      else
        match derefN n v with
        | none => .ptr none
        | some inner =>
          if isNullSer ts a trs base inner then .ptr none
          else wrapPtr n (rtBare ts a trs it fuel base (pickBare ts a base) inner)
  def rtBare (ts : Types) (a : Atlas) (trs : Trs) (it : IfaceTys) : Nat → Nat → Mach → Val → Val
    | 0, _, _, v => v
    | fuel+1, id, m, v =>
      match m with
      | .slice e => (match v with | .slice (some vs) => .slice (some (vs.map (rtV ts a trs it fuel e))) | x => x)
      | .array e => (match v with | .arr vs => .arr (vs.map (rtV ts a trs it fuel e)) | x => x)
      | .map _ vt mode =>
        (match v with
         | .map (some es) =>
           .map (some ((sortKeys mode (es.map fun (k, x) => (keyStr k, x))).map fun (s, x) => (Val.str s, rtV ts a trs it fuel vt x)))
         | x => x)
      | m => normBare .pretty ts a trs it (fuel+1) id m v
end

/-- map keys are pairwise distinct strings, at every level (fuel-bounded like `hasTy`) -/
def distinctKeys : Nat → Val → Prop
  | 0, _ => False
  | fuel+1, v =>
    match v with
    | .slice (some vs) => ∀ x ∈ vs, distinctKeys fuel x
    | .arr vs => ∀ x ∈ vs, distinctKeys fuel x
    | .map (some es) =>
      (∀ p ∈ es, ∃ s, p.1 = Val.str s) ∧ (es.map fun p => keyStr p.1).Nodup ∧ ∀ p ∈ es, distinctKeys fuel p.2
    | .ptr (some x) => distinctKeys fuel x
    | _ => True

/-- map entries are listed in the marshaller's key order `mode`, at every level -/
def mapsSorted (mode : KeySort) : Nat → Val → Prop
  | 0, _ => False
  | fuel+1, v =>
    match v with
    | .slice (some vs) => ∀ x ∈ vs, mapsSorted mode fuel x
    | .arr vs => ∀ x ∈ vs, mapsSorted mode fuel x
    | .map (some es) =>
      (es.map fun p => (keyStr p.1, p.2)).Pairwise (fun x y => keyLe mode x.1 y.1 = true) ∧
      (∀ p ∈ es, ∃ s, p.1 = Val.str s) ∧ ∀ p ∈ es, mapsSorted mode fuel p.2
    | .ptr (some x) => mapsSorted mode fuel x
    | _ => True

/-- equality of values up to the order of map entries (at every level) -/
inductive ValEqv : Val → Val → Prop
  | refl (v : Val) : ValEqv v v
  | slice {xs ys : List Val} : xs.length = ys.length → (∀ p ∈ xs.zip ys, ValEqv p.1 p.2) →
      ValEqv (.slice (some xs)) (.slice (some ys))
  | arr {xs ys : List Val} : xs.length = ys.length → (∀ p ∈ xs.zip ys, ValEqv p.1 p.2) →
      ValEqv (.arr xs) (.arr ys)
  | ptr {x y : Val} : ValEqv x y → ValEqv (.ptr (some x)) (.ptr (some y))
  | map {es zs es' : List (Val × Val)} : es.Perm zs → zs.length = es'.length →
      (∀ p ∈ zs.zip es', p.1.1 = p.2.1) → (∀ p ∈ zs.zip es', ValEqv p.1.2 p.2.2) →
      ValEqv (.map (some es)) (.map (some es'))

variable (ts : Types) (a : Atlas) (trs : Trs) (it : IfaceTys)

theorem rtV_succ (fuel id v) : rtV ts a trs it (fuel+1) id v =
    if (peel ts 64 0 id).1 == 0 then rtBare ts a trs it fuel (peel ts 64 0 id).2 (pickBare ts a (peel ts 64 0 id).2) v
    else match derefN (peel ts 64 0 id).1 v with
      | none => .ptr none
      | some inner =>
        if isNullSer ts a trs (peel ts 64 0 id).2 inner then .ptr none
        else wrapPtr (peel ts 64 0 id).1 (rtBare ts a trs it fuel (peel ts 64 0 id).2 (pickBare ts a (peel ts 64 0 id).2) inner) := by
  rw [rtV.eq_def]

theorem rtBare_prim (fuel id v) : rtBare ts a trs it (fuel+1) id .prim v = v := by
  rw [rtBare.eq_def]
  simp only
  rw [normBare.eq_def]
  simp only
  cases v <;> rfl

theorem rtBare_slice (fuel id e v) : rtBare ts a trs it (fuel+1) id (.slice e) v =
    (match v with | .slice (some vs) => .slice (some (vs.map (rtV ts a trs it fuel e))) | x => x) := by
  rw [rtBare.eq_def]
theorem rtBare_array (fuel id e v) : rtBare ts a trs it (fuel+1) id (.array e) v =
    (match v with | .arr vs => .arr (vs.map (rtV ts a trs it fuel e)) | x => x) := by
  rw [rtBare.eq_def]
theorem rtBare_map (fuel id kt vt mode v) : rtBare ts a trs it (fuel+1) id (.map kt vt mode) v =
    (match v with
     | .map (some es) =>
       .map (some ((sortKeys mode (es.map fun (k, x) => (keyStr k, x))).map fun (s, x) => (Val.str s, rtV ts a trs it fuel vt x)))
     | x => x) := by
  rw [rtBare.eq_def]

/-- `n` pointer levels lead from `id` to `base` -/
def chain (ts : Types) : Nat → Nat → Nat → Prop
  | 0, id, base => id = base
  | n+1, id, base => ∃ e, ts.get id = .ptr e ∧ chain ts n e base

end Refmt.Obj
