/-
  C15 support: the CBOR decoder model (RefmtModel/Model/CborDec.lean) as a client program (`Prog`) of the
  reader interface.  One `Prog`-valued mirror per model function, in continuation-passing style, and one
  lemma per mirror: running the mirror over a cursor and continuing = continuing from the model function's
  result and the reader it leaves.
-/
import RefmtModel
import RefmtProofs.Props.C15
import RefmtProofs.Lemmas.Bounds
import RefmtProofs.Lemmas.C15Base
set_option linter.unusedSimpArgs false
set_option linter.unusedVariables false
namespace Refmt.C15Prog.Cbor
open Refmt Refmt.C15 Refmt.C15Prog Refmt.CborDec
open Refmt.CborEnc (majUint majNeg majBytes majStr majArr majMap majTag sigFalse sigTrue sigNil sigUndef sigF16 sigF32 sigF64 sigIndefBytes sigIndefStr sigIndefArr sigIndefMap sigBreak)

variable {β : Type}

/-! ### terminals -/

/-- continuation of an n-byte read that maps the bytes through `f` -/
def readMap (n : Nat) (f : Bytes → Nat) (k : Except Err Nat → Prog β) : Prog β :=
  .readN n fun r => match r with
    | .ok bs => k (.ok (f bs))
    | .error e => k (.error e)

theorem run_readMap (n : Nat) (f : Bytes → Nat) (k : Except Err Nat → Prog β) (rd : Rd) :
    runCursor (readMap n f k) rd =
      match rd.readN n with
      | (.ok bs, rd') => runCursor (k (.ok (f bs))) rd'
      | (.error e, rd') => runCursor (k (.error e)) rd' := by
  unfold readMap
  rw [run_readN]
  rcases rd.readN n with ⟨e | bs, rd'⟩ <;> rfl

def decUintP (major : Nat) (k : Except Err Nat → Prog β) : Prog β :=
  let v := major % 32
  if v ≤ 0x17 then k (.ok v)
  else if v == 0x18 then rd1 k
  else if v == 0x19 then readMap 2 beVal k
  else if v == 0x1a then readMap 4 beVal k
  else if v == 0x1b then readMap 8 beVal k
  else k (.error .syntax)

theorem decUintP_spec (major : Nat) (k : Except Err Nat → Prog β) (rd : Rd) :
    runCursor (decUintP major k) rd = runCursor (k (decUint rd major).res) (decUint rd major).rd := by
  unfold decUintP decUint
  dsimp only
  split
  · rfl
  split
  · rw [run_rd1]
    rcases rd.read1 with ⟨e | ⟨b, rd1⟩, rd'⟩ <;> rfl
  split
  · rw [run_readMap]
    rcases rd.readN 2 with ⟨e | bs, rd'⟩ <;> rfl
  split
  · rw [run_readMap]
    rcases rd.readN 4 with ⟨e | bs, rd'⟩ <;> rfl
  split
  · rw [run_readMap]
    rcases rd.readN 8 with ⟨e | bs, rd'⟩ <;> rfl
  · rfl


theorem decUint_alloc (rd : Rd) (m : Nat) : (decUint rd m).alloc = 0 := (C06.Cbor.decUint_len rd m).2
theorem decLen_alloc (rd : Rd) (m : Nat) : (decLen rd m).alloc = 0 := (C06.Cbor.decLen_len rd m).2
theorem decNegInt_alloc (rd : Rd) (m : Nat) : (decNegInt rd m).alloc = 0 := (C06.Cbor.decNegInt_len rd m).2
theorem decFloat_alloc (rd : Rd) (m : Nat) : (decFloat rd m).alloc = 0 := (C06.Cbor.decFloat_len rd m).2

def decNegIntP (major : Nat) (k : Except Err Int → Prog β) : Prog β :=
  decUintP major fun r => match r with
    | .error e => k (.error e)
    | .ok ui => if ui > maxInt then k (.error .range) else k (.ok (-1 - (ui : Int)))

theorem decNegIntP_spec (major : Nat) (k : Except Err Int → Prog β) (rd : Rd) :
    runCursor (decNegIntP major k) rd = runCursor (k (decNegInt rd major).res) (decNegInt rd major).rd := by
  unfold decNegIntP decNegInt
  rw [decUintP_spec]
  dsimp only
  generalize decUint rd major = u
  rcases u with ⟨e | ui, rd', al⟩
  · rfl
  · dsimp only
    split <;> rfl

def decLenP (major : Nat) (k : Except Err Nat → Prog β) : Prog β :=
  decUintP major fun r => match r with
    | .error e => k (.error e)
    | .ok ui => if ui > maxInt then k (.error .range) else k (.ok ui)

theorem decLenP_spec (major : Nat) (k : Except Err Nat → Prog β) (rd : Rd) :
    runCursor (decLenP major k) rd = runCursor (k (decLen rd major).res) (decLen rd major).rd := by
  unfold decLenP decLen
  rw [decUintP_spec]
  dsimp only
  generalize decUint rd major = u
  rcases u with ⟨e | ui, rd', al⟩
  · rfl
  · dsimp only
    split <;> rfl

def decBytesP (major : Nat) (k : Except Err Bytes → Nat → Prog β) : Prog β :=
  decLenP major fun r => match r with
    | .error e => k (.error e) 0
    | .ok n =>
      if n > cap32M then k (.error .range) 0
      else .readN n fun r => k r n

theorem decBytesP_spec (major : Nat) (k : Except Err Bytes → Nat → Prog β) (rd : Rd) :
    runCursor (decBytesP major k) rd =
      runCursor (k (decBytes rd major).res (decBytes rd major).alloc) (decBytes rd major).rd := by
  unfold decBytesP decBytes
  rw [decLenP_spec]
  dsimp only
  generalize decLen rd major = u
  rcases u with ⟨e | n, rd', al⟩
  · rfl
  · dsimp only
    split
    · rfl
    · rw [run_readN]
      rcases rd'.readN n with ⟨e | bs, rd''⟩ <;> rfl

def decStringP (major : Nat) (k : Except Err Bytes → Nat → Prog β) : Prog β :=
  decLenP major fun r => match r with
    | .error e => k (.error e) 0
    | .ok n =>
      if n > cap32M then k (.error .range) 0
      else .readN n fun r => match r with
        | .ok bs => k (.ok bs) ((if n < 32 then 0 else n) + n)
        | .error e => k (.error e) (if n < 32 then 0 else n)

theorem decStringP_spec (major : Nat) (k : Except Err Bytes → Nat → Prog β) (rd : Rd) :
    runCursor (decStringP major k) rd =
      runCursor (k (decString rd major).res (decString rd major).alloc) (decString rd major).rd := by
  unfold decStringP decString
  rw [decLenP_spec]
  dsimp only
  generalize decLen rd major = u
  rcases u with ⟨e | n, rd', al⟩
  · rfl
  · dsimp only
    split
    · rfl
    · rw [run_readN]
      rcases rd'.readN n with ⟨e | bs, rd''⟩ <;> rfl

def decFloatP (major : Nat) (k : Except Err Nat → Prog β) : Prog β :=
  if major == sigF16 then readMap 2 (fun bs => f32to64 (halfToFloatBits (beVal bs))) k
  else if major == sigF32 then readMap 4 (fun bs => f32to64 (beVal bs)) k
  else readMap 8 beVal k

theorem decFloatP_spec (major : Nat) (k : Except Err Nat → Prog β) (rd : Rd) :
    runCursor (decFloatP major k) rd = runCursor (k (decFloat rd major).res) (decFloat rd major).rd := by
  unfold decFloatP decFloat
  split
  · rw [run_readMap]
    rcases rd.readN 2 with ⟨e | bs, rd'⟩ <;> rfl
  split
  · rw [run_readMap]
    rcases rd.readN 4 with ⟨e | bs, rd'⟩ <;> rfl
  · rw [run_readMap]
    rcases rd.readN 8 with ⟨e | bs, rd'⟩ <;> rfl

/-- the chunk loop -/
def decChunksP : Nat → Nat → Bytes → Nat → Nat → (Except Err Bytes → Nat → Prog β) → Prog β
  | 0, _, _, _, alloc, k => k (.error .other) alloc
  | fuel+1, majorWanted, acc, cap, alloc, k =>
    rd1 fun r => match r with
      | .error e => k (.error e) alloc
      | .ok mb =>
        if mb == sigBreak then k (.ok acc) alloc
        else if mb / 32 * 32 != majorWanted then k (.error .syntax) alloc
        else
          decLenP mb fun r => match r with
            | .error e => k (.error e) alloc
            | .ok n =>
              if n > cap32M then k (.error .range) alloc
              else
                let newLen := acc.length + n
                let ca : Nat × Nat := if newLen > cap then (2 * cap + n, alloc + 2 * cap + n) else (cap, alloc)
                .readN n fun r => match r with
                  | .ok bs => decChunksP fuel majorWanted (acc ++ bs) ca.1 ca.2 k
                  | .error e => k (.error e) ca.2

theorem decChunksP_spec (majorWanted : Nat) (k : Except Err Bytes → Nat → Prog β) :
    ∀ (fuel : Nat) (acc : Bytes) (cap alloc : Nat) (rd : Rd),
    runCursor (decChunksP fuel majorWanted acc cap alloc k) rd =
      runCursor (k (decChunks fuel rd majorWanted acc cap alloc).res (decChunks fuel rd majorWanted acc cap alloc).alloc)
        (decChunks fuel rd majorWanted acc cap alloc).rd := by
  intro fuel
  induction fuel with
  | zero => intro acc cap alloc rd; rfl
  | succ fuel ih =>
    intro acc cap alloc rd
    rw [decChunksP, decChunks, run_rd1]
    rcases rd.read1 with ⟨e | ⟨mb, rd1⟩, rd'⟩
    · rfl
    · dsimp only
      split
      · rfl
      split
      · rfl
      rw [decLenP_spec]
      generalize decLen rd1 mb = u
      rcases u with ⟨e | n, rd2, al⟩
      · rfl
      · dsimp only
        split
        · rfl
        · rw [run_readN]
          rcases rd2.readN n with ⟨e | bs, rd''⟩
          · rfl
          · exact ih _ _ _ _


/-- the chunk loop's fuel is irrelevant once it exceeds the number of undelivered bytes -/
theorem decChunks_fuel (mw : Nat) : ∀ (f g : Nat) (rd : Rd) (acc : Bytes) (cap alloc : Nat),
    rd.data.length < f → rd.data.length < g →
    decChunks f rd mw acc cap alloc = decChunks g rd mw acc cap alloc := by
  intro f
  induction f with
  | zero => intro g rd acc cap alloc h; omega
  | succ f ih =>
    intro g rd acc cap alloc hf hg
    cases g with
    | zero => omega
    | succ g =>
      rw [decChunks, decChunks]
      rcases h : rd.read1 with ⟨e | ⟨mb, rd1⟩, rd'⟩
      · rfl
      · have h1 := C06.read1_ok_len h
        dsimp only
        split
        · rfl
        split
        · rfl
        have hl := (C06.Cbor.decLen_len rd1 mb).1
        generalize decLen rd1 mb = u at hl
        rcases u with ⟨e | n, rd2, al⟩
        · rfl
        · dsimp only at hl ⊢
          split
          · rfl
          · rcases h2 : rd2.readN n with ⟨e | bs, rd''⟩
            · rfl
            · have h3 := (C06.readN_ok_len h2).1
              exact ih _ _ _ _ _ (by omega) (by omega)

/-! ### the step machine -/

/-- `Out` without the reader -/
structure O where
  st : St
  ret : CborDec.Ret
  alloc : Nat := 0

def strip (o : Out) : O := ⟨o.st, o.ret, o.alloc⟩

def scalarO {α : Type} (s : St) (res : Except Err α) (alloc : Nat) (mk : α → Body) (tag : Option Int) : O :=
  match res with
  | .ok v => ⟨s, .tok ⟨mk v, tag⟩ true, alloc⟩
  | .error e => ⟨s, .err e, alloc⟩

theorem strip_scalarOut {α : Type} (s : St) (r : R α) (mk : α → Body) (tag : Option Int) :
    strip (scalarOut s r mk tag) = scalarO s r.res r.alloc mk tag := by
  rcases r with ⟨e | v, rd, al⟩ <;> rfl

theorem scalarOut_rd {α : Type} (s : St) (r : R α) (mk : α → Body) (tag : Option Int) :
    (scalarOut s r mk tag).rd = r.rd := by
  unfold scalarOut
  split <;> rfl

/-- continue with a step result: the program gets everything but the reader -/
def contO (k : O → Prog β) (o : Out) : Option β := runCursor (k (strip o)) o.rd

theorem ite_step {c : Prop} [Decidable c] {A B : Prog β} {X Y : Out} {rd : Rd} {k : O → Prog β}
    (h1 : c → runCursor A rd = contO k X) (h2 : ¬ c → runCursor B rd = contO k Y) :
    runCursor (if c then A else B) rd = contO k (if c then X else Y) := by
  by_cases h : c
  · rw [if_pos h, if_pos h]; exact h1 h
  · rw [if_neg h, if_neg h]; exact h2 h

/-- the body of `acceptValue`, with the recursive call (after a tag) abstracted as `rec mb t` -/
def acceptValueB (coerce : Bool) (N : Nat) (s : St) (major : Nat) (tag : Option Int)
    (k : O → Prog β) (rec : Nat → Int → Prog β) : Prog β :=
  if major == sigNil then k ⟨s, .tok ⟨.null, tag⟩ true, 0⟩
  else if major == sigUndef then
    if coerce then k ⟨s, .tok ⟨.null, tag⟩ true, 0⟩ else k ⟨s, .err .syntax, 0⟩
  else if major == sigFalse then k ⟨s, .tok ⟨.bool false, tag⟩ true, 0⟩
  else if major == sigTrue then k ⟨s, .tok ⟨.bool true, tag⟩ true, 0⟩
  else if major == sigF16 || major == sigF32 || major == sigF64 then
    decFloatP major fun r => k (scalarO s r 0 Body.float tag)
  else if major == sigIndefBytes then
    decChunksP N majBytes [] 16 16 fun r al => k (scalarO s r al Body.bytes tag)
  else if major == sigIndefStr then
    decChunksP N majStr [] 16 16 fun r al =>
      k (scalarO s r (al + (match r with | .ok bs => bs.length | _ => 0)) Body.str tag)
  else if major == sigIndefArr then k ⟨push s .arrIndef, .tok ⟨.arrOpen (-1), tag⟩ false, 0⟩
  else if major == sigIndefMap then k ⟨push s .mapIndefKey, .tok ⟨.mapOpen (-1), tag⟩ false, 0⟩
  else if major < majNeg then decUintP major fun r => k (scalarO s r 0 Body.uint tag)
  else if major < majBytes then decNegIntP major fun r => k (scalarO s r 0 Body.int tag)
  else if major < majStr then decBytesP major fun r al => k (scalarO s r al Body.bytes tag)
  else if major < majArr then decStringP major fun r al => k (scalarO s r al Body.str tag)
  else if major < majMap then
    decLenP major fun r => match r with
      | .ok n => k ⟨push { s with left := n :: s.left } .arrDef, .tok ⟨.arrOpen n, tag⟩ false, 0⟩
      | .error e => k ⟨s, .err e, 0⟩
  else if major < majTag then
    decLenP major fun r => match r with
      | .ok n => k ⟨push { s with left := n :: s.left } .mapDefKey, .tok ⟨.mapOpen n, tag⟩ false, 0⟩
      | .error e => k ⟨s, .err e, 0⟩
  else if major < 0xe0 then
    match tag with
    | some _ => k ⟨s, .err .syntax, 0⟩
    | none =>
      decLenP major fun r => match r with
        | .error e => k ⟨s, .err e, 0⟩
        | .ok t =>
          rd1 fun r => match r with
            | .error e => k ⟨s, .err e, 0⟩
            | .ok mb => rec mb (t : Int)
  else k ⟨s, .err .syntax, 0⟩

/-- `stepHelper_acceptValue` as a client program -/
def acceptValueP (coerce : Bool) (N : Nat) : Nat → St → Nat → Option Int → (O → Prog β) → Prog β
  | 0, s, major, tag, k => acceptValueB coerce N s major tag k fun _ _ => k ⟨s, .err .other, 0⟩
  | fuel+1, s, major, tag, k =>
    acceptValueB coerce N s major tag k fun mb t => acceptValueP coerce N fuel s mb (some t) k

theorem acceptValueB_spec (coerce : Bool) (N : Nat) (k : O → Prog β) (rec : Nat → Int → Prog β) (fuel : Nat)
    (s : St)
    (hrec : ∀ (mb : Nat) (t : Nat) (rd1 : Rd), rd1.data.length < N →
      runCursor (rec mb (t : Int)) rd1 =
        match fuel with
        | 0 => runCursor (k ⟨s, .err .other, 0⟩) rd1
        | f+1 => runCursor (k (strip (acceptValue coerce s rd1 mb (some (t : Int)) f)))
            (acceptValue coerce s rd1 mb (some (t : Int)) f).rd)
    (rd : Rd) (major : Nat) (tag : Option Int) (hN : rd.data.length < N) :
    runCursor (acceptValueB coerce N s major tag k rec) rd =
      runCursor (k (strip (acceptValue coerce s rd major tag fuel))) (acceptValue coerce s rd major tag fuel).rd := by
  show _ = contO k (acceptValue coerce s rd major tag fuel)
  unfold acceptValueB acceptValue
  apply ite_step
  · intro _; rfl
  intro _
  apply ite_step
  · intro _; cases coerce <;> rfl
  intro _
  apply ite_step
  · intro _; rfl
  intro _
  apply ite_step
  · intro _; rfl
  intro _
  apply ite_step
  · intro _; unfold contO; rw [decFloatP_spec, strip_scalarOut, scalarOut_rd, decFloat_alloc]
  intro _
  apply ite_step
  · intro _; unfold contO
    rw [decChunksP_spec, strip_scalarOut, scalarOut_rd, decChunks_fuel majBytes N (rd.data.length + 1) rd _ _ _ hN (by omega)]
  intro _
  apply ite_step
  · intro _; unfold contO
    rw [decChunksP_spec, strip_scalarOut, scalarOut_rd, decChunks_fuel majStr N (rd.data.length + 1) rd _ _ _ hN (by omega)]
    generalize decChunks (rd.data.length + 1) rd majStr [] 16 16 = u
    rcases u with ⟨e | bs, rd', al⟩ <;> rfl
  intro _
  apply ite_step
  · intro _; rfl
  intro _
  apply ite_step
  · intro _; rfl
  intro _
  apply ite_step
  · intro _; unfold contO; rw [decUintP_spec, strip_scalarOut, scalarOut_rd, decUint_alloc]
  intro _
  apply ite_step
  · intro _; unfold contO; rw [decNegIntP_spec, strip_scalarOut, scalarOut_rd, decNegInt_alloc]
  intro _
  apply ite_step
  · intro _; unfold contO; rw [decBytesP_spec, strip_scalarOut, scalarOut_rd]
  intro _
  apply ite_step
  · intro _; unfold contO; rw [decStringP_spec, strip_scalarOut, scalarOut_rd]
  intro _
  apply ite_step
  · intro _
    rw [decLenP_spec]
    dsimp only
    generalize decLen rd major = u
    rcases u with ⟨e | n, rd', al⟩ <;> rfl
  intro _
  apply ite_step
  · intro _
    rw [decLenP_spec]
    dsimp only
    generalize decLen rd major = u
    rcases u with ⟨e | n, rd', al⟩ <;> rfl
  intro _
  apply ite_step
  · intro _
    cases tag with
    | some _ => rfl
    | none =>
      dsimp only
      rw [decLenP_spec]
      have hl := (C06.Cbor.decLen_len rd major).1
      generalize decLen rd major = u at hl
      rcases u with ⟨e | t, rd', al⟩
      · rfl
      · dsimp only at hl ⊢
        rw [run_rd1]
        rcases h : rd'.read1 with ⟨e | ⟨mb, rd1⟩, rd''⟩
        · rfl
        · have h1 := C06.read1_ok_len h
          dsimp only
          rw [hrec mb t rd1 (by omega)]
          cases fuel <;> rfl
  · intro _; rfl

theorem acceptValueP_spec (coerce : Bool) (N : Nat) (k : O → Prog β) :
    ∀ (fuel : Nat) (s : St) (rd : Rd) (major : Nat) (tag : Option Int), rd.data.length < N →
    runCursor (acceptValueP coerce N fuel s major tag k) rd =
      runCursor (k (strip (acceptValue coerce s rd major tag fuel))) (acceptValue coerce s rd major tag fuel).rd := by
  intro fuel
  induction fuel with
  | zero =>
    intro s rd major tag hN
    rw [acceptValueP]
    exact acceptValueB_spec coerce N k _ 0 s (fun _ _ _ _ => rfl) rd major tag hN
  | succ fuel ih =>
    intro s rd major tag hN
    rw [acceptValueP]
    exact acceptValueB_spec coerce N k _ (fuel + 1) s (fun mb t rd1 h1 => ih s rd1 mb (some (t : Int)) h1) rd major tag hN


def inContainerO (o : O) : O :=
  match o.ret with
  | .tok t _ => { o with ret := .tok t false }
  | .err _ => o

theorem strip_inContainer (o : Out) : strip (inContainer o) = inContainerO (strip o) := by
  rcases o with ⟨st, rd, ret | e, al⟩ <;> rfl

theorem inContainer_rd (o : Out) : (inContainer o).rd = o.rd := (C06.Cbor.inContainer_st o).2.1

theorem contO_inContainer (k : O → Prog β) (o : Out) :
    contO (fun o => k (inContainerO o)) o = contO k (inContainer o) := by
  unfold contO
  rw [strip_inContainer, inContainer_rd]

/-- `acceptValue` inside a container -/
theorem acceptValueP_in (coerce : Bool) (N : Nat) (k : O → Prog β) (s : St) (rd : Rd) (mb : Nat)
    (hN : rd.data.length < N) :
    runCursor (acceptValueP coerce N 1 s mb none fun o => k (inContainerO o)) rd =
      contO k (inContainer (acceptValue coerce s rd mb none 1)) := by
  rw [acceptValueP_spec coerce N _ 1 s rd mb none hN]
  exact contO_inContainer k _

theorem acceptValueP_top (coerce : Bool) (N : Nat) (k : O → Prog β) (s : St) (rd : Rd) (mb : Nat)
    (hN : rd.data.length < N) :
    runCursor (acceptValueP coerce N 1 s mb none k) rd = contO k (acceptValue coerce s rd mb none 1) :=
  acceptValueP_spec coerce N _ 1 s rd mb none hN

/-- read the next major byte, or fail -/
def withMajorP (s : St) (k : O → Prog β) (f : Nat → Prog β) : Prog β :=
  rd1 fun r => match r with
    | .error e => k ⟨s, .err e, 0⟩
    | .ok mb => f mb

theorem withMajorP_spec (s : St) (k : O → Prog β) (f : Nat → Prog β) (g : Nat → Rd → Out) (rd : Rd)
    (h : ∀ mb rd1, rd1.data.length + 1 = rd.data.length → runCursor (f mb) rd1 = contO k (g mb rd1)) :
    runCursor (withMajorP s k f) rd = contO k (withMajor s rd g) := by
  unfold withMajorP withMajor
  rw [run_rd1]
  rcases h1 : rd.read1 with ⟨e | ⟨mb, rd1⟩, rd'⟩
  · rfl
  · exact h mb rd1 (C06.read1_ok_len h1)

/-- the per-phase sub-step -/
def subStepP (coerce : Bool) (N : Nat) (s : St) (k : O → Prog β) : Prog β :=
  match s.phase with
  | .acceptValue => withMajorP s k fun mb => acceptValueP coerce N 1 s mb none k
  | .arrIndef => withMajorP s k fun mb =>
      if mb == sigBreak then k ⟨s, .tok ⟨.arrClose, none⟩ true, 0⟩
      else acceptValueP coerce N 1 s mb none fun o => k (inContainerO o)
  | .mapIndefKey => withMajorP s k fun mb =>
      if mb == sigBreak then k ⟨s, .tok ⟨.mapClose, none⟩ true, 0⟩
      else acceptValueP coerce N 1 { s with phase := .mapIndefVal } mb none fun o => k (inContainerO o)
  | .mapIndefVal => withMajorP s k fun mb =>
      if mb == sigBreak then k ⟨s, .err .syntax, 0⟩
      else acceptValueP coerce N 1 { s with phase := .mapIndefKey } mb none fun o => k (inContainerO o)
  | .arrDef =>
    match s.left with
    | [] => k ⟨s, .err .other, 0⟩
    | 0 :: l => k ⟨{ s with left := l }, .tok ⟨.arrClose, none⟩ true, 0⟩
    | (n+1) :: l =>
      withMajorP { s with left := n :: l } k fun mb =>
        acceptValueP coerce N 1 { s with left := n :: l } mb none fun o => k (inContainerO o)
  | .mapDefKey =>
    match s.left with
    | [] => k ⟨s, .err .other, 0⟩
    | 0 :: l => k ⟨{ s with left := l }, .tok ⟨.mapClose, none⟩ true, 0⟩
    | (n+1) :: l =>
      withMajorP { s with left := n :: l } k fun mb =>
        acceptValueP coerce N 1 { s with left := n :: l, phase := .mapDefVal } mb none fun o => k (inContainerO o)
  | .mapDefVal => withMajorP s k fun mb =>
      acceptValueP coerce N 1 { s with phase := .mapDefKey } mb none fun o => k (inContainerO o)

theorem subStepP_spec (coerce : Bool) (N : Nat) (k : O → Prog β) (s : St) (rd : Rd) (hN : rd.data.length < N) :
    runCursor (subStepP coerce N s k) rd = contO k (subStep coerce s rd) := by
  rcases s with ⟨stack, ph, left⟩
  unfold subStepP subStep
  cases ph <;> dsimp only
  · apply withMajorP_spec
    intro mb rd1 h1
    exact acceptValueP_top coerce N k _ rd1 mb (by omega)
  · apply withMajorP_spec
    intro mb rd1 h1
    apply ite_step
    · intro _; rfl
    · intro _; exact acceptValueP_in coerce N k _ rd1 mb (by omega)
  · apply withMajorP_spec
    intro mb rd1 h1
    apply ite_step
    · intro _; rfl
    · intro _; exact acceptValueP_in coerce N k _ rd1 mb (by omega)
  · apply withMajorP_spec
    intro mb rd1 h1
    apply ite_step
    · intro _; rfl
    · intro _; exact acceptValueP_in coerce N k _ rd1 mb (by omega)
  · rcases left with _ | ⟨_ | n, l⟩ <;> dsimp only
    · rfl
    · rfl
    · apply withMajorP_spec
      intro mb rd1 h1
      exact acceptValueP_in coerce N k _ rd1 mb (by omega)
  · rcases left with _ | ⟨_ | n, l⟩ <;> dsimp only
    · rfl
    · rfl
    · apply withMajorP_spec
      intro mb rd1 h1
      exact acceptValueP_in coerce N k _ rd1 mb (by omega)
  · apply withMajorP_spec
    intro mb rd1 h1
    exact acceptValueP_in coerce N k _ rd1 mb (by omega)

/-- the stack handling of `Step` after the sub-step -/
def postO (o : O) : O :=
  match o.ret with
  | .err _ => o
  | .tok _ false => o
  | .tok t true =>
    match o.st.stack with
    | [] => o
    | [_] => o
    | p :: rest => { o with st := { o.st with phase := p, stack := rest }, ret := .tok t false }

theorem strip_step (coerce : Bool) (s : St) (rd : Rd) :
    strip (step coerce s rd) = postO (strip (subStep coerce s rd)) ∧
      (step coerce s rd).rd = (subStep coerce s rd).rd := by
  unfold step
  dsimp only
  generalize subStep coerce s rd = o
  rcases o with ⟨⟨stack, ph, left⟩, rd', (⟨t, _ | _⟩ | e), al⟩
  · exact ⟨rfl, rfl⟩
  · rcases stack with _ | ⟨p, _ | ⟨q, rest⟩⟩ <;> exact ⟨rfl, rfl⟩
  · exact ⟨rfl, rfl⟩

/-- `Decoder.Step` -/
def stepP (coerce : Bool) (N : Nat) (s : St) (k : O → Prog β) : Prog β :=
  subStepP coerce N s fun o => k (postO o)

theorem stepP_spec (coerce : Bool) (N : Nat) (k : O → Prog β) (s : St) (rd : Rd) (hN : rd.data.length < N) :
    runCursor (stepP coerce N s k) rd = contO k (step coerce s rd) := by
  unfold stepP
  rw [subStepP_spec coerce N _ s rd hN]
  unfold contO
  rw [(strip_step coerce s rd).1, (strip_step coerce s rd).2]

/-- what a client gets out of a decode: tokens, outcome, steps, allocation -/
abbrev Res := List Tok × Except Err Unit × Nat × Nat

def proj (r : RunOut) : Res := (r.toks, r.res, r.steps, r.alloc)

/-- iterate `step` until done or error -/
def runP (coerce : Bool) (N : Nat) : Nat → St → List Tok → Nat → Nat → Prog Res
  | 0, _, acc, steps, alloc => .ret (acc.reverse, .error .other, steps, alloc)
  | fuel+1, s, acc, steps, alloc =>
    stepP coerce N s fun o => match o.ret with
      | .err e => .ret (acc.reverse, .error e, steps + 1, alloc + o.alloc)
      | .tok t true => .ret ((t :: acc).reverse, .ok (), steps + 1, alloc + o.alloc)
      | .tok t false => runP coerce N fuel o.st (t :: acc) (steps + 1) (alloc + o.alloc)

theorem runP_spec (coerce : Bool) (N : Nat) : ∀ (fuel : Nat) (s : St) (rd : Rd) (acc : List Tok) (steps alloc : Nat),
    rd.data.length < N →
    runCursor (runP coerce N fuel s acc steps alloc) rd = some (proj (run coerce fuel s rd acc steps alloc)) := by
  intro fuel
  induction fuel with
  | zero => intro s rd acc steps alloc hN; rfl
  | succ fuel ih =>
    intro s rd acc steps alloc hN
    rw [runP, run, stepP_spec coerce N _ s rd hN]
    have hl := (C06.Cbor.step_ok coerce s rd).len
    unfold contO
    dsimp only
    generalize step coerce s rd = o at hl
    rcases o with ⟨st, rd', (⟨t, _ | _⟩ | e), al⟩
    · dsimp only at hl
      exact ih _ _ _ _ _ (by show rd'.data.length < N; omega)
    · rfl
    · rfl

end Refmt.C15Prog.Cbor
