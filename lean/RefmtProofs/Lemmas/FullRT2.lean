-- the round-trip induction over `fullTy`: bare machines of the plain kinds and of struct maps
-- (see RefmtProofs/Props/C13Full.lean)
import RefmtProofs.Lemmas.FullRT1
set_option linter.unusedSimpArgs false
set_option linter.unusedVariables false
namespace Refmt.Obj
open Refmt Refmt.C13 Refmt.C11 Refmt.C12

variable {ts : Types} {a : Atlas} {trs : Trs} {it : IfaceTys}

theorem rtf_b_prim {f} (h id : Nat) (v : Val) (toks : List Tok) (g : Nat) (hv : hasTy ts h id v = true)
    (hd : (∃ k b, ts.get id = .prim k b) ∨ (∃ b, ts.get id = .bytes b) ∨ (∃ n, ts.get id = .byteArr n))
    (hpick : pickBare ts a id = .prim ∧ upickBare ts a id = .prim) (hg : f + 1 ≤ g)
    (hm : marshalBare ts a trs (f+1) id (pickBare ts a id) v = ⟨toks, none⟩) :
    HeadSpec toks ∧ ∀ F, f + 1 < F → ∀ rest,
      unmBare ts a trs it F id (upickBare ts a id) (zeroVal ts 64 id) (toks ++ rest) =
        .ok (rtFB ts a trs it g id (pickBare ts a id) v) rest toks.length := by
  obtain ⟨g, rfl⟩ : ∃ g', g = g' + 1 := ⟨g - 1, by omega⟩
  rw [hpick.1, marshalBare_prim] at hm
  obtain ⟨tok, rfl, hs, hc1, hc2, hnull⟩ := prim_rt ts h id v toks hv hd hm
  rw [hpick.1, hpick.2, rtFB_prim]
  refine ⟨?_, fun F hF rest => ?_⟩
  · rcases hnull with rfl | hnn
    · exact Or.inl ⟨none, rfl⟩
    · exact Or.inr ⟨tok, [], rfl, hnn, hc1, hc2⟩
  · obtain ⟨F, rfl⟩ : ∃ F', F = F' + 1 := ⟨F - 1, by omega⟩
    simp [unmBare_prim, hs]

theorem rtf_b_slice {f} (ih : RTF ts a trs it f) (p h id e : Nat) (v : Val) (toks : List Tok) (g : Nat) (hp64 : p + 1 ≤ 64)
    (hd : ts.get id = .slice e) (hn : a.get id = none) (hpe : fullTy ts a p e = true)
    (hv : hasTy ts h id v = true) (hg : f + 1 ≤ g) (hs : fullValB ts a trs it g id (pickBare ts a id) v = true)
    (hm : marshalBare ts a trs (f+1) id (pickBare ts a id) v = ⟨toks, none⟩) :
    HeadSpec toks ∧ ∀ F, f + 1 < F → ∀ rest,
      unmBare ts a trs it F id (upickBare ts a id) (zeroVal ts 64 id) (toks ++ rest) =
        .ok (rtFB ts a trs it g id (pickBare ts a id) v) rest toks.length := by
  obtain ⟨g, rfl⟩ : ∃ g', g = g' + 1 := ⟨g - 1, by omega⟩
  obtain ⟨hpk, hupk⟩ := pick_slice hd hn
  rw [hpk] at hm hs ⊢; rw [hupk]
  rw [fullValB_slice] at hs
  cases h with
  | zero => simp [hasTy] at hv
  | succ h =>
  cases v <;> simp only [hasTy, hd] at hv <;> try (cases hv; done)
  rename_i o
  cases o with
  | none =>
    rw [marshalBare_slice] at hm
    simp [MOut.ok] at hm; subst hm
    refine ⟨Or.inl ⟨none, rfl⟩, fun F hF rest => ?_⟩
    obtain ⟨F, rfl⟩ : ∃ F', F = F' + 1 := ⟨F - 1, by omega⟩
    simp [unmBare_slice, rtFB_slice]
  | some es =>
    rw [marshalBare_slice] at hm
    simp only at hm
    obtain ⟨t1, t23, h1, h23, rfl⟩ := seq_ok hm
    obtain ⟨tl, tc, h2, h3, rfl⟩ := seq_ok h23
    simp [MOut.ok] at h1 h3; subst h1 h3
    have hv' : ∀ x ∈ es, hasTy ts h e x = true := by simpa [hasTy, hd] using hv
    have hs' : ∀ x ∈ es, fullVal ts a trs it g e x = true := by simpa using hs
    refine ⟨Or.inr ⟨⟨.arrOpen es.length, none⟩, tl ++ [⟨.arrClose, none⟩], rfl, by simp, by simp, by simp⟩, fun F hF rest => ?_⟩
    obtain ⟨F, rfl⟩ : ∃ F', F = F' + 1 := ⟨F - 1, by omega⟩
    have hl := ih.l p h e es tl g (by omega) hpe hv' (by omega) hs' h2 F (by omega) none [] rest (by simp)
    have e1 : ([⟨.arrOpen es.length, none⟩] ++ (tl ++ [⟨.arrClose, none⟩])) ++ rest =
        ⟨.arrOpen es.length, none⟩ :: (tl ++ ⟨.arrClose, none⟩ :: rest) := by simp
    rw [e1, unmBare_slice, rtFB_slice]
    simp [hl]

theorem rtf_b_arr {f} (ih : RTF ts a trs it f) (p h id n e : Nat) (v : Val) (toks : List Tok) (g : Nat) (hp64 : p + 1 ≤ 64)
    (hd : ts.get id = .arr n e) (hn : a.get id = none) (hpe : fullTy ts a p e = true)
    (hv : hasTy ts h id v = true) (hg : f + 1 ≤ g) (hs : fullValB ts a trs it g id (pickBare ts a id) v = true)
    (hm : marshalBare ts a trs (f+1) id (pickBare ts a id) v = ⟨toks, none⟩) :
    HeadSpec toks ∧ ∀ F, f + 1 < F → ∀ rest,
      unmBare ts a trs it F id (upickBare ts a id) (zeroVal ts 64 id) (toks ++ rest) =
        .ok (rtFB ts a trs it g id (pickBare ts a id) v) rest toks.length := by
  obtain ⟨g, rfl⟩ : ∃ g', g = g' + 1 := ⟨g - 1, by omega⟩
  obtain ⟨hpk, hupk⟩ := pick_arr hd hn
  rw [hpk] at hm hs ⊢; rw [hupk]
  rw [fullValB_array] at hs
  cases h with
  | zero => simp [hasTy] at hv
  | succ h =>
  cases v <;> simp only [hasTy, hd] at hv <;> try (cases hv; done)
  rename_i es
  rw [marshalBare_array] at hm
  simp only at hm
  obtain ⟨t1, t23, h1, h23, rfl⟩ := seq_ok hm
  obtain ⟨tl, tc, h2, h3, rfl⟩ := seq_ok h23
  simp [MOut.ok] at h1 h3; subst h1 h3
  have hv' : es.length = n ∧ ∀ x ∈ es, hasTy ts h e x = true := by simpa [hasTy, hd] using hv
  have hs' : ∀ x ∈ es, fullVal ts a trs it g e x = true := by simpa using hs
  refine ⟨Or.inr ⟨⟨.arrOpen es.length, none⟩, tl ++ [⟨.arrClose, none⟩], rfl, by simp, by simp, by simp⟩, fun F hF rest => ?_⟩
  obtain ⟨F, rfl⟩ : ∃ F', F = F' + 1 := ⟨F - 1, by omega⟩
  have hl := ih.l p h e es tl g (by omega) hpe hv'.2 (by omega) hs' h2 F (by omega) (some n) [] rest (by simp [hv'.1])
  have e1 : ([⟨.arrOpen es.length, none⟩] ++ (tl ++ [⟨.arrClose, none⟩])) ++ rest =
      ⟨.arrOpen es.length, none⟩ :: (tl ++ ⟨.arrClose, none⟩ :: rest) := by simp
  rw [e1, unmBare_array, rtFB_array]
  simp [hl, arrFix, hv'.1]

/-- the map machine on string keys: the unmarshaller's current value only matters through its entries -/
theorem rtf_b_map_gen {f} (ih : RTF ts a trs it f) (p h id kt vt : Nat) (bk : Bool) (mode : KeySort) (v : Val) (toks : List Tok) (g : Nat)
    (hp64 : p + 1 ≤ 64) (hkt : ts.get kt = .prim .string bk) (hpe : fullTy ts a p vt = true)
    (hvv : ∀ es, v = .map (some es) → ∀ q ∈ es, hasTy ts h vt q.2 = true) (hvm : ∃ o, v = .map o)
    (hg : f + 1 ≤ g) (hs : fullValB ts a trs it g id (.map kt vt mode) v = true)
    (hm : marshalBare ts a trs (f+1) id (.map kt vt mode) v = ⟨toks, none⟩) :
    HeadSpec toks ∧ ∀ F, f + 1 < F → ∀ cur rest, mapCur0 cur = [] →
      unmBare ts a trs it F id (.map kt vt) cur (toks ++ rest) =
        .ok (rtFB ts a trs it g id (.map kt vt mode) v) rest toks.length := by
  obtain ⟨g, rfl⟩ : ∃ g', g = g' + 1 := ⟨g - 1, by omega⟩
  have hmk : mkeyFn ts a kt = some none := by simp [mkeyFn, hkt]
  have huk : ukeyFn ts a kt = some none := by simp [ukeyFn, hkt]
  rw [fullValB_map] at hs
  obtain ⟨o, rfl⟩ := hvm
  cases o with
  | none =>
    rw [marshalBare_map, hmk] at hm
    simp [MOut.ok] at hm; subst hm
    refine ⟨Or.inl ⟨none, rfl⟩, fun F hF cur rest hcur => ?_⟩
    obtain ⟨F, rfl⟩ : ∃ F', F = F' + 1 := ⟨F - 1, by omega⟩
    simp [unmBare_map, huk, rtFB_map]
  | some es =>
    simp only [Bool.and_eq_true, List.all_eq_true] at hs
    obtain ⟨hkeys, hnd⟩ := strKeysB_inv hs.1
    have hv' := hvv es rfl
    rw [marshalBare_map, hmk] at hm
    simp only [Option.getD_some, mapM_keys es hkeys, Option.isNone_some, Bool.false_eq_true, if_false] at hm
    obtain ⟨t1, t23, h1, h23, rfl⟩ := seq_ok hm
    obtain ⟨tl, tc, h2, h3, rfl⟩ := seq_ok h23
    simp [MOut.ok] at h1 h3; subst h1 h3
    refine ⟨Or.inr ⟨⟨.mapOpen es.length, none⟩, tl ++ [⟨.mapClose, none⟩], rfl, by simp, by simp, by simp⟩, fun F hF cur rest hcur => ?_⟩
    obtain ⟨F, rfl⟩ : ∃ F', F = F' + 1 := ⟨F - 1, by omega⟩
    let kvs := es.map fun (q : Val × Val) => (keyStr q.1, q.2)
    have hperm := List.mergeSort_perm kvs (fun x y => keyLe mode x.1 y.1)
    have hmem : ∀ q ∈ sortKeys mode kvs, ∃ q' ∈ es, q.2 = q'.2 := by
      intro q hq
      have : q ∈ kvs := hperm.mem_iff.mp hq
      simp only [kvs, List.mem_map] at this
      obtain ⟨q', hq', rfl⟩ := this
      exact ⟨q', hq', rfl⟩
    have hm' := ih.m p h vt (sortKeys mode kvs) tl g (by omega) hpe
      (fun q hq => by obtain ⟨q', hq', he⟩ := hmem q hq; rw [he]; exact hv' q' hq') (by omega)
      (fun q hq => by obtain ⟨q', hq', he⟩ := hmem q hq; rw [he]; exact hs.2 q' hq')
      (by
        have : ((sortKeys mode kvs).map (·.1)).Perm (kvs.map (·.1)) := hperm.map _
        rw [this.nodup_iff]
        simpa [kvs, List.map_map, Function.comp_def] using hnd)
      h2 F (by omega) [] rest (by intro q hq; simp [hasKey])
    have e1 : ([⟨.mapOpen es.length, none⟩] ++ (tl ++ [⟨.mapClose, none⟩])) ++ rest =
        ⟨.mapOpen es.length, none⟩ :: (tl ++ ⟨.mapClose, none⟩ :: rest) := by simp
    rw [e1, unmBare_map, huk, rtFB_map]
    simp only [hcur]
    simp [hm', kvs]

theorem rtf_b_map {f} (ih : RTF ts a trs it f) (p h id kt vt : Nat) (bk : Bool) (v : Val) (toks : List Tok) (g : Nat) (hp64 : p + 1 ≤ 64)
    (hd : ts.get id = .map kt vt) (hn : a.get id = none) (hkt : ts.get kt = .prim .string bk) (hpe : fullTy ts a p vt = true)
    (hv : hasTy ts h id v = true) (hg : f + 1 ≤ g) (hs : fullValB ts a trs it g id (pickBare ts a id) v = true)
    (hm : marshalBare ts a trs (f+1) id (pickBare ts a id) v = ⟨toks, none⟩) :
    HeadSpec toks ∧ ∀ F, f + 1 < F → ∀ rest,
      unmBare ts a trs it F id (upickBare ts a id) (zeroVal ts 64 id) (toks ++ rest) =
        .ok (rtFB ts a trs it g id (pickBare ts a id) v) rest toks.length := by
  obtain ⟨hpk, hupk⟩ := pick_map hd hn
  rw [hpk] at hm hs ⊢; rw [hupk]
  cases h with
  | zero => simp [hasTy] at hv
  | succ h =>
  have hvm : ∃ o, v = .map o := by
    cases v <;> simp only [hasTy, hd] at hv <;> try (cases hv; done)
    exact ⟨_, rfl⟩
  have hvv : ∀ es, v = .map (some es) → ∀ q ∈ es, hasTy ts h vt q.2 = true := by
    intro es hes q hq
    subst hes
    obtain ⟨q1, q2⟩ := q
    have := hv
    simp [hasTy, hd] at this
    exact (this q1 q2 hq).2
  obtain ⟨h1, h2⟩ := rtf_b_map_gen ih p h id kt vt bk a.defaultSort v toks g hp64 hkt hpe hvv hvm hg hs hm
  exact ⟨h1, fun F hF rest => h2 F hF _ rest (zeroVal_mapCur0 ts 64 id)⟩

theorem rtf_b_struct {f} (hz : ZeroStable ts) (ih : RTF ts a trs it f) (p h id : Nat) (fds : List FieldDesc) (reg : Bool) (ty : Nat)
    (tag : Option Int) (fields : List SMField) (v : Val) (toks : List Tok) (g : Nat) (hp64 : p + 1 ≤ 64)
    (hd : ts.get id = .struct fds) (he : a.get id = some ⟨reg, ty, tag, .structMap fields⟩)
    (hnames : (fields.map (·.name)).Nodup) (hroutes : (fields.map (·.route)).Nodup) (hfok : ∀ fld ∈ fields, FOKF ts a p fds fld)
    (hv : hasTy ts h id v = true) (hg : f + 1 ≤ g) (hs : fullValB ts a trs it g id (pickBare ts a id) v = true)
    (hm : marshalBare ts a trs (f+1) id (pickBare ts a id) v = ⟨toks, none⟩) :
    HeadSpec toks ∧ ∀ F, f + 1 < F → ∀ rest,
      unmBare ts a trs it F id (upickBare ts a id) (zeroVal ts 64 id) (toks ++ rest) =
        .ok (rtFB ts a trs it g id (pickBare ts a id) v) rest toks.length := by
  obtain ⟨g, rfl⟩ : ∃ g', g = g' + 1 := ⟨g - 1, by omega⟩
  obtain ⟨hpk, hupk⟩ := pick_struct hd he
  rw [hpk] at hm hs ⊢; rw [hupk]
  rw [fullValB_structMap] at hs
  simp only [List.all_eq_true] at hs
  cases h with
  | zero => simp [hasTy] at hv
  | succ h =>
  cases v <;> simp only [hasTy, hd] at hv <;> try (cases hv; done)
  rename_i vs
  simp only [Bool.and_eq_true, beq_iff_eq, List.all_eq_true] at hv
  obtain ⟨hvl, hvall⟩ := hv
  have hv' : ∀ (i : Nat) fd x, fds[i]? = some fd → vs[i]? = some x → hasTy ts h fd.ty x = true := by
    intro i fd x h1 h2
    have : (fd, x) ∈ fds.zip vs := by
      apply List.mem_of_getElem? (i := i)
      simp [List.getElem?_zip_eq_some, h1, h2]
    exact hvall (fd, x) this
  rw [marshalBare_structMap] at hm
  simp only at hm
  obtain ⟨t1, t23, h1, h23, rfl⟩ := seq_ok hm
  obtain ⟨tl, tc, h2, h3, rfl⟩ := seq_ok h23
  simp [MOut.ok] at h1 h3; subst h1 h3
  refine ⟨Or.inr ⟨⟨.mapOpen (fields.filter (emitP (.struct vs))).length, tag⟩, tl ++ [⟨.mapClose, none⟩], rfl, by simp, by simp, by simp⟩,
    fun F hF rest => ?_⟩
  obtain ⟨F, rfl⟩ : ∃ F', F = F' + 1 := ⟨F - 1, by omega⟩
  have hs' := ih.s p h id fds fields (fields.filter (emitP (.struct vs))) vs tl g (by omega) hd hnames
    ((List.filter_sublist.map _).nodup hroutes)
    (fun fld hf => ⟨(List.mem_filter.mp hf).1, hfok fld (List.mem_filter.mp hf).1⟩) hv' (by omega)
    (fun fld hf fv ht => by
      have := hs fld (List.mem_filter.mp hf).1
      simpa [(List.mem_filter.mp hf).2, ht] using this)
    h2 F (by omega)
    (fds.map fun fd => zeroVal ts 63 fd.ty) 0 ((fields.filter (emitP (.struct vs))).length : Nat) rest (by simp)
    (fun fld hf i hi => by
      obtain ⟨_, j, fd, hroute, hfd, hty, _⟩ := hfok fld (List.mem_filter.mp hf).1
      rw [hroute] at hi
      cases hi
      rw [List.getElem?_map, hfd, ← hty, ← hz fd.ty]; rfl)
    (by simp)
  have e1 : ([⟨.mapOpen (fields.filter (emitP (.struct vs))).length, tag⟩] ++ (tl ++ [⟨.mapClose, none⟩])) ++ rest =
      ⟨.mapOpen (fields.filter (emitP (.struct vs))).length, tag⟩ :: (tl ++ ⟨.mapClose, none⟩ :: rest) := by simp
  rw [e1, unmBare_structMap, rtFB_structMap, structFold_eq_filter, zeroVal_struct ts hd]
  simp only [hs', URes.shift_ok]
  simp

end Refmt.Obj
