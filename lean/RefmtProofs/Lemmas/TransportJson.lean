/-
  Lemmas for C01 (JSON transport): from "every token of the marshaller's output is carriable by JSON" plus the
  tree facts of C07 to the hypotheses of C03 (`JWF`, `FloatsOk`).
-/
import RefmtModel
import RefmtProofs.Props.C03
import RefmtProofs.Props.C07
set_option linter.unusedSimpArgs false
set_option linter.unusedVariables false
namespace Refmt.C01L
open Refmt Refmt.Obj

/-- same body as `C01.carryJson` -/
def jsonOk (t : Tok) : Bool :=
  t.tag.isNone &&
  (match t.body with
   | .uint n => decide (n < two64)
   | .int i => decide (-(two63 : Int) ≤ i) && decide (i < (two63 : Int))
   | .float b => decide (b < two64) && !floatNonFinite b && C03L.floatOk b
   | .str s => s.all (· < 256)
   | .bytes _ => false
   | _ => true)

theorem jsonOk_scalar {t : Tok} (h : jsonOk t = true) (hs : t.body.isScalar = true) : C03.jsonScalarOk t = true := by
  obtain ⟨body, tag⟩ := t
  unfold jsonOk at h
  unfold C03.jsonScalarOk
  simp only [Bool.and_eq_true] at h
  cases body <;> simp_all [Body.isScalar]

mutual
  theorem jwf_of_flat : ∀ (tv : TV), tv.flatten.all jsonOk = true → C07.Leaves tv = true → C07.KeysStr tv = true →
      C03.JWF tv = true
    | .scalar t, h, hl, _ => by
      simp only [TV.flatten, List.all_cons, List.all_nil, Bool.and_true] at h
      simp only [C07.Leaves] at hl
      simpa [C03.JWF] using jsonOk_scalar h hl
    | .arr tag len items, h, hl, hk => by
      simp only [TV.flatten, List.all_cons, List.all_append, Bool.and_eq_true] at h
      simp only [C07.Leaves] at hl
      simp only [C07.KeysStr] at hk
      simp only [C03.JWF]
      exact jwfl_of_flat items h.2.1 hl hk
    | .map tag len es, h, hl, hk => by
      simp only [TV.flatten, List.all_cons, List.all_append, Bool.and_eq_true] at h
      simp only [C07.Leaves] at hl
      simp only [C07.KeysStr] at hk
      simp only [C03.JWF]
      exact jwfe_of_flat es h.2.1 hl hk
  theorem jwfl_of_flat : ∀ (vs : List TV), (TV.flattenList vs).all jsonOk = true → C07.LeavesL vs = true →
      C07.KeysStrL vs = true → C03.JWFl vs = true
    | [], _, _, _ => rfl
    | v :: vs, h, hl, hk => by
      simp only [TV.flattenList, List.all_append, Bool.and_eq_true] at h
      simp only [C07.LeavesL, Bool.and_eq_true] at hl
      simp only [C07.KeysStrL, Bool.and_eq_true] at hk
      simp only [C03.JWFl, Bool.and_eq_true]
      exact ⟨jwf_of_flat v h.1 hl.1 hk.1, jwfl_of_flat vs h.2 hl.2 hk.2⟩
  theorem jwfe_of_flat : ∀ (es : List (TV × TV)), (TV.flattenEntries es).all jsonOk = true → C07.LeavesE es = true →
      C07.KeysStrE es = true → C03.JWFe es = true
    | [], _, _, _ => rfl
    | (k, v) :: es, h, hl, hk => by
      simp only [TV.flattenEntries, List.all_append, Bool.and_eq_true] at h
      simp only [C07.LeavesE, Bool.and_eq_true] at hl
      simp only [C07.KeysStrE, Bool.and_eq_true] at hk
      simp only [C03.JWFe, Bool.and_eq_true]
      refine ⟨⟨?_, jwf_of_flat v h.2.1 hl.1.2 hk.1.2⟩, jwfe_of_flat es h.2.2 hl.2 hk.2⟩
      cases k with
      | scalar t =>
        obtain ⟨body, tag⟩ := t
        have h1 := h.1
        simp only [TV.flatten, List.all_cons, List.all_nil, Bool.and_true] at h1
        unfold jsonOk at h1
        cases body <;> simp_all
      | arr _ _ _ => simp at hk
      | map _ _ _ => simp at hk
end

theorem floatsOk_of_flat (tv : TV) (h : tv.flatten.all jsonOk = true) : C03.FloatsOk tv := by
  intro t ht x hb
  have := List.all_eq_true.mp h t ht
  unfold jsonOk at this
  rw [hb] at this
  simp only [Bool.and_eq_true] at this
  exact this.2.2

/-- JSON transport of a token tree whose flattening is carriable -/
theorem transport_tree_json (c : JsonEnc.Cfg) (hcfg : C03.cfgOk c = true) (tv : TV) (hc : tv.flatten.all jsonOk = true)
    (hk : C07.KeysStr tv = true) (hv : C07.Leaves tv = true) :
    (runOut (JsonEnc.step c FloatText.jsonFloat) JsonEnc.init tv.flatten).1.getLast? = some Flag.done ∧
    (let o := JsonDec.decode (Rd.ofBytes (runOut (JsonEnc.step c FloatText.jsonFloat) JsonEnc.init tv.flatten).2.flatten)
     o.toks = tv.flatten.map Spec.Json.retypeTok ∧ o.res = .ok ()) := by
  have hj := jwf_of_flat tv hc hv hk
  refine ⟨by rw [C03.enc_accepts c tv hj]; simp, ?_⟩
  exact C03.roundtrip_partial c tv hj hcfg (floatsOk_of_flat tv hc)

end Refmt.C01L
