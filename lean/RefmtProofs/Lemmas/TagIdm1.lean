/-
  C12, claim (ii) with tags — the re-marshal of the round-trip value: statement of the induction (`IDM`) and its
  list / map-entry / struct-field steps.  See RefmtProofs/Props/C12Tagged.lean.
-/
import RefmtProofs.Lemmas.TagDefs
set_option linter.unusedSimpArgs false
set_option linter.unusedVariables false
namespace Refmt.Obj
open Refmt Refmt.C13 Refmt.C11 Refmt.C12 Refmt.C12L

section
variable (ts : Types) (a : Atlas) (trs : Trs) (it : IfaceTys)

/-- the induction: for whatever the marshaller (at fuel `f`) writes for a value `v` of a `fullTy` type, the round-trip
    value `rtF v` marshals again (at its own type) to a rendering with the same head shape, which reads back as `rtF v` -/
structure IDM (f : Nat) : Prop where
  v : ∀ p h id v toks g, p ≤ 64 → fullTy ts a p id = true → StabTy ts a trs p id → hasTy ts h id v = true → f ≤ g → fullVal ts a trs it g id v = true →
      marshalV ts a trs f id v = ⟨toks, none⟩ → Idm ts a trs it id toks (rtF ts a trs it g id v)
  b : ∀ p h id v toks g, p + 1 ≤ 64 → fullTy ts a (p + 1) id = true → StabTy ts a trs (p + 1) id → (∀ e, ts.get id ≠ .ptr e) → hasTy ts h id v = true → f ≤ g →
      fullValB ts a trs it g id (pickBare ts a id) v = true →
      marshalBare ts a trs f id (pickBare ts a id) v = ⟨toks, none⟩ →
      IdmB ts a trs it id toks (rtFB ts a trs it g id (pickBare ts a id) v)

theorem idm_zero : IDM ts a trs it 0 where
  v := by intro p h id v toks g _ _ _ _ _ _ hm; simp [marshalV, MOut.bad] at hm
  b := by intro p h id v toks g _ _ _ _ _ _ _ hm; simp [marshalBare, MOut.bad] at hm

end

variable {ts : Types} {a : Atlas} {trs : Trs} {it : IfaceTys}

theorem idm_list {f} (ih : IDM ts a trs it f) (p h e g : Nat) (hp64 : p ≤ 64) (hp : fullTy ts a p e = true)
    (hst : StabTy ts a trs p e) (hg : f ≤ g) :
    ∀ (vs : List Val) (f' : Nat) (toks : List Tok), f' ≤ f + 1 → (∀ x ∈ vs, hasTy ts h e x = true) →
    (∀ x ∈ vs, fullVal ts a trs it g e x = true) → marshalList ts a trs f' e vs = ⟨toks, none⟩ →
    ∃ (items : List Item) (N : Nat), toks = items.flatMap (·.tk) ∧ items.map (·.r) = vs.map (rtF ts a trs it g e) ∧
      ∀ i ∈ items, IdmI ts a trs it N e i := by
  intro vs
  induction vs with
  | nil =>
    intro f' toks _ _ _ hm
    cases f' with
    | zero => simp [marshalList, MOut.bad] at hm
    | succ f' =>
      rw [marshalList_nil] at hm
      simp [MOut.ok] at hm; subst hm
      exact ⟨[], 0, rfl, rfl, by simp⟩
  | cons x xs ihl =>
    intro f' toks hf' hv hfv hm
    cases f' with
    | zero => simp [marshalList, MOut.bad] at hm
    | succ f' =>
      rw [marshalList_cons] at hm
      obtain ⟨tx, txs, h1, h2, rfl⟩ := seq_ok hm
      have h1' := C07.marshal_fuel_mono_le ts a trs f' f e x _ h1 (by simp) (by omega)
      obtain ⟨tk2, N1, hgood⟩ := ih.v p h e x tx g hp64 hp hst (hv x (by simp)) hg (hfv x (by simp)) h1'
      obtain ⟨items, N2, rfl, hr, hall⟩ := ihl f' txs (by omega) (fun y hy => hv y (by simp [hy]))
        (fun y hy => hfv y (by simp [hy])) h2
      refine ⟨⟨tx, rtF ts a trs it g e x, tk2, rtF ts a trs it g e x⟩ :: items, max N1 N2, by simp [List.flatMap_cons], by simp [hr], ?_⟩
      intro i hi
      rcases List.mem_cons.mp hi with rfl | hi
      · exact hgood.mono (Nat.le_max_left _ _)
      · exact (hall i hi).mono (Nat.le_max_right _ _)

theorem idm_entries {f} (ih : IDM ts a trs it f) (p h vt g : Nat) (hp64 : p ≤ 64) (hp : fullTy ts a p vt = true)
    (hst : StabTy ts a trs p vt) (hg : f ≤ g) :
    ∀ (kvs : List (Bytes × Val)) (f' : Nat) (toks : List Tok), f' ≤ f + 1 → (∀ q ∈ kvs, hasTy ts h vt q.2 = true) →
    (∀ q ∈ kvs, fullVal ts a trs it g vt q.2 = true) → marshalEntries ts a trs f' vt kvs = ⟨toks, none⟩ →
    ∃ (kitems : List (Bytes × Item)) (N : Nat), toks = kitems.flatMap (fun q => ⟨.str q.1, none⟩ :: q.2.tk) ∧
      (kitems.map fun q => (q.1, q.2.r)) = (kvs.map fun q => (q.1, rtF ts a trs it g vt q.2)) ∧
      ∀ q ∈ kitems, IdmI ts a trs it N vt q.2 := by
  intro kvs
  induction kvs with
  | nil =>
    intro f' toks _ _ _ hm
    cases f' with
    | zero => simp [marshalEntries, MOut.bad] at hm
    | succ f' =>
      rw [marshalEntries_nil] at hm
      simp [MOut.ok] at hm; subst hm
      exact ⟨[], 0, rfl, rfl, by simp⟩
  | cons q qs ihl =>
    intro f' toks hf' hv hfv hm
    obtain ⟨s, x⟩ := q
    cases f' with
    | zero => simp [marshalEntries, MOut.bad] at hm
    | succ f' =>
      rw [marshalEntries_cons] at hm
      obtain ⟨t1, t23, h1, h23, rfl⟩ := seq_ok hm
      obtain ⟨tx, txs, h2, h3, rfl⟩ := seq_ok h23
      simp [MOut.ok] at h1; subst h1
      have h2' := C07.marshal_fuel_mono_le ts a trs f' f vt x _ h2 (by simp) (by omega)
      obtain ⟨tk2, N1, hgood⟩ := ih.v p h vt x tx g hp64 hp hst (hv (s, x) (by simp)) hg (hfv (s, x) (by simp)) h2'
      obtain ⟨kitems, N2, rfl, hr, hall⟩ := ihl f' txs (by omega) (fun y hy => hv y (by simp [hy]))
        (fun y hy => hfv y (by simp [hy])) h3
      refine ⟨(s, ⟨tx, rtF ts a trs it g vt x, tk2, rtF ts a trs it g vt x⟩) :: kitems, max N1 N2, by simp [List.flatMap_cons], by simp [hr], ?_⟩
      intro i hi
      rcases List.mem_cons.mp hi with rfl | hi
      · exact hgood.mono (Nat.le_max_left _ _)
      · exact (hall i hi).mono (Nat.le_max_right _ _)

theorem idm_fields {f} (ih : IDM ts a trs it f) (p h g : Nat) (fds : List FieldDesc) (vs : List Val) (hp64 : p ≤ 64) (hg : f ≤ g)
    (hv : ∀ (i : Nat) fd x, fds[i]? = some fd → vs[i]? = some x → hasTy ts h fd.ty x = true) :
    ∀ (fl : List SMField) (f' : Nat) (toks : List Tok), f' ≤ f + 1 → (∀ fld ∈ fl, FOKF ts a p fds fld) →
    (∀ fld ∈ fl, StabTy ts a trs p fld.ty) →
    (∀ fld ∈ fl, ∀ fv, traverse fld.route (.struct vs) = some fv → fullVal ts a trs it g fld.ty fv = true) →
    marshalFields ts a trs f' fl (.struct vs) = ⟨toks, none⟩ →
    ∃ (fitems : List (SMField × Item)) (N : Nat), toks = fitems.flatMap (fun q => ⟨.str q.1.name, none⟩ :: q.2.tk) ∧
      fitems.map (·.1) = fl ∧
      ∀ q ∈ fitems, IdmI ts a trs it N q.1.ty q.2 ∧
        ∃ i fd fv, q.1.route = [i] ∧ fds[i]? = some fd ∧ vs[i]? = some fv ∧ q.2.r = rtF ts a trs it g q.1.ty fv := by
  intro fl
  induction fl with
  | nil =>
    intro f' toks _ _ _ _ hm
    cases f' with
    | zero => simp [marshalFields, MOut.bad] at hm
    | succ f' =>
      rw [marshalFields_nil] at hm
      simp [MOut.ok] at hm; subst hm
      exact ⟨[], 0, rfl, rfl, by simp⟩
  | cons fld fl' ihl =>
    intro f' toks hf' hfl hstl hfv hm
    cases f' with
    | zero => simp [marshalFields, MOut.bad] at hm
    | succ f' =>
      obtain ⟨hign, i, fd, hroute, hfd, hty, hst⟩ := hfl fld (by simp)
      have hfvx := hfv fld (by simp)
      rw [marshalFields_cons, hroute, traverse_one] at hm
      rw [hroute, traverse_one] at hfvx
      cases hvi : vs[i]? with
      | none => rw [hvi] at hm; simp [MOut.bad] at hm
      | some fv =>
        rw [hvi] at hm
        simp only at hm
        obtain ⟨t1, t23, h1, h23, rfl⟩ := seq_ok hm
        obtain ⟨tx, txs, h2, h3, rfl⟩ := seq_ok h23
        simp [MOut.ok] at h1; subst h1
        have hvfv : hasTy ts h fld.ty fv = true := by rw [← hty]; exact hv i fd fv hfd hvi
        have h2' := C07.marshal_fuel_mono_le ts a trs f' f fld.ty fv _ h2 (by simp) (by omega)
        obtain ⟨tk2, N1, hgood⟩ := ih.v p h fld.ty fv tx g hp64 hst (hstl fld (by simp)) hvfv hg (hfvx fv hvi) h2'
        obtain ⟨fitems, N2, rfl, hr, hall⟩ := ihl f' txs (by omega) (fun y hy => hfl y (by simp [hy]))
          (fun y hy => hstl y (by simp [hy])) (fun y hy => hfv y (by simp [hy])) h3
        refine ⟨(fld, ⟨tx, rtF ts a trs it g fld.ty fv, tk2, rtF ts a trs it g fld.ty fv⟩) :: fitems, max N1 N2,
          by simp [List.flatMap_cons], by simp [hr], ?_⟩
        intro q hq
        rcases List.mem_cons.mp hq with rfl | hq
        · exact ⟨hgood.mono (Nat.le_max_left _ _), i, fd, fv, hroute, hfd, hvi, rfl⟩
        · exact ⟨(hall q hq).1.mono (Nat.le_max_right _ _), (hall q hq).2⟩

/-- marshalling the fields of a struct whose values are the items' round-trip values -/
theorem m_fields (N : Nat) (ws : List Val) : ∀ (l : List (SMField × Item)),
    (∀ q ∈ l, traverse q.1.route (.struct ws) = some q.2.r ∧ ∀ F, N ≤ F → marshalV ts a trs F q.1.ty q.2.r = ⟨q.2.tk2, none⟩) →
    ∀ F, N + l.length + 1 ≤ F →
    marshalFields ts a trs F (l.map (·.1)) (.struct ws) = ⟨l.flatMap (fun q => ⟨.str q.1.name, none⟩ :: q.2.tk2), none⟩ := by
  intro l
  induction l with
  | nil =>
    intro _ F hF
    obtain ⟨F, rfl⟩ : ∃ F', F = F' + 1 := ⟨F - 1, by omega⟩
    simp [marshalFields_nil, MOut.ok]
  | cons x xs ih =>
    intro h F hF
    obtain ⟨F, rfl⟩ : ∃ F', F = F' + 1 := ⟨F - 1, by omega⟩
    obtain ⟨ht, hmx⟩ := h x (by simp)
    rw [List.map_cons, marshalFields_cons, ht]
    simp only
    rw [hmx F (by simp at hF; omega), ih (fun y hy => h y (by simp [hy])) F (by simp at hF; omega)]
    simp [MOut.seq, MOut.ok, List.flatMap_cons]

end Refmt.Obj
