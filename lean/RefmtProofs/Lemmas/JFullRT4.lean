-- the JSON round-trip induction over `fullTy`: untyped slots holding native values, and the assembly
-- (see RefmtProofs/Props/C01JsonFull.lean; mirrors RefmtProofs/Lemmas/FullRT4.lean / FullRT5.lean)
import RefmtProofs.Lemmas.JFullRT3
set_option linter.unusedSimpArgs false
set_option linter.unusedVariables false
set_option linter.unusedTactic false
set_option linter.unreachableTactic false
namespace Refmt.Obj
open Refmt Refmt.C13 Refmt.C11 Refmt.C12

local notation "rt" => Spec.Json.retypeTok

variable {ts : Types} {a : Atlas} {trs : Trs} {it : IfaceTys}

/-- what an untyped slot holds after reading the re-typed single token of a scalar -/
def wildScalarJ (it : IfaceTys) (dt : Nat) (pv : Val) : Val :=
  match pv with
  | .bool b => .iface (some (it.bool, .bool b))
  | .int i => .iface (some (it.int, .int i))
  | .uint u => if u < two63 then .iface (some (it.int, .int u)) else .iface (some (it.uint64, .uint u))
  | .float b => .iface (some (normFloatIface .json it b))
  | .str s => .iface (some (it.str, .str s))
  | .bytes (some b) => .iface (some (it.bytes, .bytes (some b)))
  | .byteArr b => .iface (some (it.bytes, .bytes (some b)))
  | x => .iface (some (dt, x))

theorem rtJB_wild_prim (g id dt : Nat) (dv : Val) (hnp : ∀ x, ts.get dt ≠ .ptr x) (hpkd : pickBare ts a dt = .prim)
    (hnull : isBareNullSer .json ts a trs dt dv = false) :
    rtJB ts a trs it (g+1) id .wildcard (.iface (some (dt, dv))) = wildScalarJ it dt dv := by
  rw [rtJB_wild_some, hnull, C12L.peel_nonptr ts 64 0 dt hnp]
  simp only [derefN, hpkd, Bool.false_eq_true, if_false]
  rfl

/-- the untyped slot reading the re-typed token of a finite float: `normFloatIface .json` by definition -/
theorem wild_float (b : Nat) (hb : b < two64) (hfin : floatNonFinite b = false) (F : Nat) (rest : List Tok) :
    unmWild ts a trs it (F+1) false (rt ⟨.float b, none⟩) rest = .ok (.iface (some (normFloatIface .json it b))) rest 1 := by
  rcases C03Sem.numTok_jsonFloat_kinds b hb hfin with h | ⟨i, h, -⟩
  · have h1 : rt ⟨.float b, none⟩ = ⟨.float b, none⟩ := by simp only [Spec.Json.retypeTok, h]
    rw [h1, unmWild_eq]
    simp [normFloatIface, h]
  · have h1 : rt ⟨.float b, none⟩ = ⟨.int i, none⟩ := by simp only [Spec.Json.retypeTok, h]
    rw [h1, unmWild_eq]
    simp [normFloatIface, h]

theorem rtj_b_wild {f} (hf : f + 1 ≤ 1000) (he : UEnv ts a it) (ih : RTJ ts a trs it f) (h id : Nat) (v : Val) (toks : List Tok) (g : Nat)
    (hd : ts.get id = .iface false) (hn : a.get id = none)
    (hv : hasTy ts h id v = true) (hg : f + 1 ≤ g) (hs : fullValJB ts a trs it g id (pickBare ts a id) v = true)
    (hm : marshalBare ts a trs (f+1) id (pickBare ts a id) v = ⟨toks, none⟩) :
    HeadSpec toks ∧ ∀ F, f + 1 < F → ∀ rest,
      unmBare ts a trs it F id (upickBare ts a id) (zeroVal ts 64 id) (toks.map rt ++ rest) =
        .ok (rtJB ts a trs it g id (pickBare ts a id) v) rest toks.length := by
  obtain ⟨g, rfl⟩ : ∃ g', g = g' + 1 := ⟨g - 1, by omega⟩
  obtain ⟨hpk, hupk⟩ := pick_wild hd hn
  rw [hpk] at hm hs ⊢; rw [hupk]
  rw [marshalBare_wild] at hm
  have hmeth : ifaceMeth ts id = false := by simp [ifaceMeth, hd]
  cases h with
  | zero => simp [hasTy] at hv
  | succ h =>
  cases v <;> try (simp [MOut.bad] at hm; done)
  rename_i o
  cases o with
  | none =>
    simp [MOut.ok] at hm; subst hm
    refine ⟨Or.inl ⟨none, rfl⟩, fun F hF rest => ?_⟩
    obtain ⟨F, rfl⟩ : ∃ F', F = F' + 2 := ⟨F - 2, by omega⟩
    rw [List.map_cons, List.cons_append, rt_null, unmBare_wild, unmWild_eq, rtJB_wild_none]
    simp [hmeth]
  | some q =>
    obtain ⟨dt, dv⟩ := q
    have hvd : hasTy ts h dt dv = true := by simpa [hasTy, hd] using hv
    simp only at hm
    rw [fullValJB_wild] at hs
    simp only [Bool.and_eq_true] at hs
    obtain ⟨hdnp, hs⟩ := hs
    have hnp := (notPtrB_iff _).mp hdnp
    have hpl : peel ts 64 0 dt = (0, dt) := C12L.peel_nonptr ts 64 0 dt hnp
    obtain ⟨f, rfl⟩ : ∃ f', f = f' + 1 := by
      cases f with
      | zero => simp [marshalV, MOut.bad] at hm
      | succ f' => exact ⟨f', rfl⟩
    have hmB : marshalBare ts a trs f dt (pickBare ts a dt) dv = ⟨toks, none⟩ := by
      rwa [marshalV_nonptr ts a trs hnp] at hm
    split at hs
    · -- scalar kinds
      rename_i hpkd
      rw [hpkd] at hmB
      obtain ⟨f, rfl⟩ : ∃ f', f = f' + 1 := by
        cases f with
        | zero => simp [marshalBare, MOut.bad] at hmB
        | succ f' => exact ⟨f', rfl⟩
      rw [marshalBare_prim] at hmB
      cases dv <;> try (simp [primTok, MOut.bad] at hmB; done)
      case bytes ob =>
        cases ob with
        | none =>
          simp [primTok, MOut.ok] at hmB; subst hmB
          have hnull := isBareNullSerJ_null ts a trs hm (by omega)
          refine ⟨Or.inl ⟨none, rfl⟩, fun F hF rest => ?_⟩
          obtain ⟨F, rfl⟩ : ∃ F', F = F' + 2 := ⟨F - 2, by omega⟩
          rw [List.map_cons, List.cons_append, rt_null, unmBare_wild, unmWild_eq, rtJB_wild_some, hnull]
          simp [hmeth]
        | some bs => simp [jsonScalar] at hs
      case byteArr bs => simp [jsonScalar] at hs
      case float b =>
        simp [primTok, MOut.ok] at hmB; subst hmB
        have hnull := isBareNullSerJ_false ts a trs hm (by simp) (by omega)
        have hfin : floatNonFinite b = false := by simpa [jsonScalar] using hs
        have hb : b < two64 := by
          cases h with
          | zero => simp [hasTy] at hvd
          | succ h =>
            cases hdd : ts.get dt with
            | prim k bi => cases k <;> simp [hasTy, hdd] at hvd <;> first | exact hvd | exact hvd.1
            | _ => simp [hasTy, hdd] at hvd
        refine ⟨Or.inr ⟨_, _, rfl, by simp, by simp, by simp⟩, fun F hF rest => ?_⟩
        obtain ⟨F, rfl⟩ : ∃ F', F = F' + 2 := ⟨F - 2, by omega⟩
        rw [List.map_cons, List.cons_append, unmBare_wild, hmeth, wild_float b hb hfin,
          rtJB_wild_prim g id dt _ hnp hpkd hnull]
        simp [wildScalarJ]
      case str s =>
        simp [primTok, MOut.ok] at hmB; subst hmB
        have hnull := isBareNullSerJ_false ts a trs hm (by simp) (by omega)
        have hs' : toValidUtf8 s = s := by simpa [jsonScalar] using hs
        refine ⟨Or.inr ⟨_, _, rfl, by simp, by simp, by simp⟩, fun F hF rest => ?_⟩
        obtain ⟨F, rfl⟩ : ∃ F', F = F' + 2 := ⟨F - 2, by omega⟩
        rw [List.map_cons, List.cons_append, rt_str hs', unmBare_wild, unmWild_eq, rtJB_wild_prim g id dt _ hnp hpkd hnull]
        simp [hmeth, wildScalarJ]
      case uint u =>
        simp [primTok, MOut.ok] at hmB; subst hmB
        have hnull := isBareNullSerJ_false ts a trs hm (by simp) (by omega)
        refine ⟨Or.inr ⟨_, _, rfl, by simp, by simp, by simp⟩, fun F hF rest => ?_⟩
        obtain ⟨F, rfl⟩ : ∃ F', F = F' + 2 := ⟨F - 2, by omega⟩
        rw [List.map_cons, List.cons_append, unmBare_wild, unmWild_eq, rtJB_wild_prim g id dt _ hnp hpkd hnull]
        by_cases hu : u < two63
        · simp [hmeth, wildScalarJ, Spec.Json.retypeTok, hu]
        · simp [hmeth, wildScalarJ, Spec.Json.retypeTok, hu]
      all_goals
        simp [primTok, MOut.ok] at hmB; subst hmB
        have hnull := isBareNullSerJ_false ts a trs hm (by simp) (by omega)
        refine ⟨Or.inr ⟨_, _, rfl, by simp, by simp, by simp⟩, fun F hF rest => ?_⟩
        obtain ⟨F, rfl⟩ : ∃ F', F = F' + 2 := ⟨F - 2, by omega⟩
        rw [List.map_cons, List.cons_append, unmBare_wild, unmWild_eq, rtJB_wild_prim g id dt _ hnp hpkd hnull]
        simp [hmeth, wildScalarJ]
    · -- native []interface{}
      rename_i e' hpkd
      simp only [Bool.and_eq_true, beq_iff_eq] at hs
      obtain ⟨rfl, hs⟩ := hs
      have he' : e' = it.iface := by
        have := C12.pick_sliceI he
        rw [hpkd] at this
        cases this; rfl
      subst he'
      cases dv <;> try (cases hs; done)
      rename_i o
      cases o with
      | none => cases hs
      | some vs =>
        simp only [List.all_eq_true] at hs
        have hupkd : upickBare ts a it.sliceI = .slice it.iface := by simp [upickBare, he.sliceI, he.noSlice]
        obtain ⟨hhs, hu⟩ := ih.v 2 h it.sliceI (.slice (some vs)) toks (g+2) (by omega) (fullTy_sliceI he 0) hvd (by omega)
          (by rw [fullValJ_nonptr ts a trs it hnp, hpkd, fullValJB_slice]; simpa using hs) hm
        rw [hpkd] at hmB
        obtain ⟨f, rfl⟩ : ∃ f', f = f' + 1 := by
          cases f with
          | zero => simp [marshalBare, MOut.bad] at hmB
          | succ f' => exact ⟨f', rfl⟩
        rw [marshalBare_slice] at hmB
        simp only at hmB
        obtain ⟨t1, t23, h1, h23, rfl⟩ := seq_ok hmB
        simp [MOut.ok] at h1; subst h1
        have hnull := isBareNullSerJ_false ts a trs hm (by simp) (by omega)
        refine ⟨hhs, fun F hF rest => ?_⟩
        obtain ⟨F, rfl⟩ : ∃ F', F = F' + 2 := ⟨F - 2, by omega⟩
        have hu' := hu (F + 1) (by omega) rest
        rw [List.cons_append, List.nil_append, List.map_cons, List.cons_append, rt_arrOpen, unmV_nonptr ts a trs it hnp,
          rtJ_nonptr ts a trs it hnp, hpkd, hupkd, zeroVal_slice' he.sliceI, rtJB_slice] at hu'
        rw [List.cons_append, List.nil_append, List.map_cons, List.cons_append, rt_arrOpen, unmBare_wild, unmWild_eq,
          rtJB_wild_some, hnull, hpl]
        simp only [derefN, hpkd, hmeth, wildRej_false, Bool.false_eq_true, if_false, hu', boxAs_iface he]
        simp
    · -- native map[string]interface{}
      rename_i k' vt' mode' hpkd
      simp only [Bool.and_eq_true, beq_iff_eq] at hs
      obtain ⟨rfl, hs⟩ := hs
      have he' : k' = it.str ∧ vt' = it.iface ∧ mode' = a.defaultSort := by
        have := C12.pick_mapSI he
        rw [hpkd] at this
        cases this; exact ⟨rfl, rfl, rfl⟩
      obtain ⟨rfl, rfl, rfl⟩ := he'
      cases dv <;> try (cases hs; done)
      rename_i o
      cases o with
      | none => cases hs
      | some es =>
        simp only [Bool.and_eq_true, List.all_eq_true] at hs
        obtain ⟨hkeys, hnd⟩ := strKeysB_inv hs.1.1
        have hupkd : upickBare ts a it.mapSI = .map it.str it.iface := by simp [upickBare, he.mapSI, he.noMap]
        obtain ⟨hhs, hu⟩ := ih.v 2 h it.mapSI (.map (some es)) toks (g+2) (by omega) (fullTy_mapSI he 0) hvd (by omega)
          (by
            rw [fullValJ_nonptr ts a trs it hnp, hpkd, fullValJB_map]
            simp only [Bool.and_eq_true, List.all_eq_true]
            exact hs) hm
        rw [hpkd] at hmB
        obtain ⟨f, rfl⟩ : ∃ f', f = f' + 1 := by
          cases f with
          | zero => simp [marshalBare, MOut.bad] at hmB
          | succ f' => exact ⟨f', rfl⟩
        have hmk : mkeyFn ts a it.str = some none := by simp [mkeyFn, he.str]
        rw [marshalBare_map, hmk] at hmB
        simp only [Option.getD_some, mapM_keys es hkeys, Option.isNone_some, Bool.false_eq_true, if_false] at hmB
        obtain ⟨t1, t23, h1, h23, rfl⟩ := seq_ok hmB
        simp [MOut.ok] at h1; subst h1
        have hnull := isBareNullSerJ_false ts a trs hm (by simp) (by omega)
        refine ⟨hhs, fun F hF rest => ?_⟩
        obtain ⟨F, rfl⟩ : ∃ F', F = F' + 2 := ⟨F - 2, by omega⟩
        have hu' := hu (F + 1) (by omega) rest
        rw [List.cons_append, List.nil_append, List.map_cons, List.cons_append, rt_mapOpen, unmV_nonptr ts a trs it hnp,
          rtJ_nonptr ts a trs it hnp, hpkd, hupkd,
          zeroVal_map' he.mapSI, rtJB_map,
          unmBare_map_cur F it.mapSI it.str it.iface (.map none) (.map (some [])) _ rfl] at hu'
        rw [List.cons_append, List.nil_append, List.map_cons, List.cons_append, rt_mapOpen, unmBare_wild, unmWild_eq,
          rtJB_wild_some, hnull, hpl]
        simp only [derefN, hpkd, hmeth, wildRej_false, Bool.false_eq_true, if_false, hu', boxAs_iface he]
        simp
    · cases hs

/-! ### assembly -/

theorem rtj_b {f} (hf : f + 1 ≤ 1000) (he : UEnv ts a it) (hz : ZeroStable ts) (htr : TrsEqv trs) (hnm : namesUtf8 a = true)
    (ih : RTJ ts a trs it f) :
    ∀ p h id v toks g, p + 1 ≤ 64 → fullTy ts a (p + 1) id = true → (∀ e, ts.get id ≠ .ptr e) → hasTy ts h id v = true → f + 1 ≤ g →
      fullValJB ts a trs it g id (pickBare ts a id) v = true →
      marshalBare ts a trs (f+1) id (pickBare ts a id) v = ⟨toks, none⟩ → HeadSpec toks ∧ ∀ F, f + 1 < F → ∀ rest,
      unmBare ts a trs it F id (upickBare ts a id) (zeroVal ts 64 id) (toks.map rt ++ rest) =
        .ok (rtJB ts a trs it g id (pickBare ts a id) v) rest toks.length := by
  intro p h id v toks g hp64 hp hnp hv hg hs hm
  cases fullTy_view hp hnp with
  | prim k b hd hn => exact rtj_b_prim h id v toks g hv (Or.inl ⟨k, b, hd⟩) (pick_prim hd hn) hg hs hm
  | bytes b hd hn => exact rtj_b_prim h id v toks g hv (Or.inr (Or.inl ⟨b, hd⟩)) (pick_bytes hd hn) hg hs hm
  | byteArr n hd hn => exact rtj_b_prim h id v toks g hv (Or.inr (Or.inr ⟨n, hd⟩)) (pick_byteArr hd hn) hg hs hm
  | slice e hd hn hpe => exact rtj_b_slice ih p h id e v toks g hp64 hd hn hpe hv hg hs hm
  | arr n e hd hn hpe => exact rtj_b_arr ih p h id n e v toks g hp64 hd hn hpe hv hg hs hm
  | map kt vt bk hd hn hkt hpe => exact rtj_b_map ih p h id kt vt bk v toks g hp64 hd hn hkt hpe hv hg hs hm
  | wild hd hn => exact rtj_b_wild hf he ih h id v toks g hd hn hv hg hs hm
  | struct fds reg ty tag fields hd hent hnames hroutes hfok =>
    exact rtj_b_struct hz hnm ih p h id fds reg ty tag fields v toks g hp64 hd hent hnames hroutes hfok hv hg hs hm
  | transform reg ty tag fn mty hb hent hmp htb hfm =>
    exact rtj_b_transform htr he ih p h id reg ty tag fn mty v toks g hp64 hb hent hmp hfm hg hs hm
  | union m reg ty tag members hd hent hnames hmem =>
    exact rtj_b_union hnm ih p h id m reg ty tag members v toks g hp64 hd hent hnames hmem hv hg hs hm

theorem rtj_all (he : UEnv ts a it) (hz : ZeroStable ts) (htr : TrsEqv trs) (hnm : namesUtf8 a = true) :
    ∀ f, f ≤ 1000 → RTJ ts a trs it f := by
  intro f
  induction f with
  | zero => intro _; exact rtj_zero ts a trs it
  | succ n ih =>
    intro hf
    have ih := ih (by omega)
    exact ⟨rtj_v hf ih, rtj_b hf he hz htr hnm ih, rtj_l ih, rtj_m ih, rtj_s ih⟩

end Refmt.Obj
