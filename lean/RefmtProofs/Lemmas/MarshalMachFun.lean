/-
  Unfolding lemmas for the functional marshaller model, in the form the refinement proof uses.
-/
import RefmtModel.Model.Obj.MarshalMach
open Refmt Refmt.Obj Refmt.Obj.MM
set_option linter.unusedVariables false

namespace Refmt.MachL

variable {ts : Types} {a : Atlas} {trs : Trs}

theorem marshalList_zero (e xs) : marshalList ts a trs 0 e xs = .bad .panic := by
  rw [marshalList]
theorem marshalList_nil (f e) : marshalList ts a trs (f+1) e [] = .ok [] := by
  rw [marshalList]; simp
theorem marshalList_cons (f e x xs) : marshalList ts a trs (f+1) e (x :: xs) =
    (marshalV ts a trs f e x).seq fun _ => marshalList ts a trs f e xs := by
  rw [marshalList]

theorem marshalV_zero (id v) : marshalV ts a trs 0 id v = .bad .panic := by
  rw [marshalV]
theorem marshalV_succ (f id v) : marshalV ts a trs (f+1) id v =
    (if (peel ts 64 0 id).1 = 0 then marshalBare ts a trs f (peel ts 64 0 id).2 (pickBare ts a (peel ts 64 0 id).2) v
     else match derefN (peel ts 64 0 id).1 v with
       | none => .ok [⟨.null, none⟩]
       | some inner => marshalBare ts a trs f (peel ts 64 0 id).2 (pickBare ts a (peel ts 64 0 id).2) inner) := by
  rw [marshalV]
  cases peel ts 64 0 id with
  | mk n base =>
    simp only [beq_iff_eq]
    split
    · rfl
    · cases derefN n v <;> rfl

theorem bad_fail (f : Fail) : (MOut.bad f).fail = some f := rfl
theorem ok_fail (t : List Tok) : (MOut.ok t).fail = none := rfl
theorem ok_toks (t : List Tok) : (MOut.ok t).toks = t := rfl

theorem marshalBare_zero (id m v) : marshalBare ts a trs 0 id m v = .bad .panic := by
  rw [marshalBare]

theorem marshalBare_map (f id kt vt mode v) : marshalBare ts a trs (f+1) id (.map kt vt mode) v =
    (match keyFnOf ts a kt, v with
     | none, _ => .bad .err
     | some kf, .map es =>
       (match stringify trs kf (es.getD []) with
        | none => .bad .err
        | some kvs =>
          if es.isNone then .ok [⟨.null, none⟩]
          else
            (MOut.ok [⟨.mapOpen (es.getD []).length, none⟩]).seq fun _ =>
            (marshalEntries ts a trs f vt (sortKeys mode kvs)).seq fun _ => .ok [⟨.mapClose, none⟩])
     | _, _ => .bad .panic) := by
  rw [marshalBare.eq_def]
  rfl

theorem marshalBare_prim (f id v) : marshalBare ts a trs (f+1) id .prim v = primTok ts id v := by
  rw [marshalBare.eq_def]
theorem marshalBare_errThunk (f id v) : marshalBare ts a trs (f+1) id .errThunk v = .bad .err := by
  rw [marshalBare.eq_def]
theorem marshalBare_wild (f id v) : marshalBare ts a trs (f+1) id .wildcard v =
    (match v with
     | .iface none => .ok [⟨.null, none⟩]
     | .iface (some (dt, dv)) => marshalV ts a trs f dt dv
     | _ => .bad .panic) := by
  rw [marshalBare.eq_def]
  rfl
theorem marshalBare_slice (f id e v) : marshalBare ts a trs (f+1) id (.slice e) v =
    (match v with
     | .slice none => .ok [⟨.null, none⟩]
     | .slice (some es) =>
       (MOut.ok [⟨.arrOpen es.length, none⟩]).seq fun _ =>
       (marshalList ts a trs f e es).seq fun _ => .ok [⟨.arrClose, none⟩]
     | _ => .bad .panic) := by
  rw [marshalBare.eq_def]
  rfl
theorem marshalBare_array (f id e v) : marshalBare ts a trs (f+1) id (.array e) v =
    (match v with
     | .arr es =>
       (MOut.ok [⟨.arrOpen es.length, none⟩]).seq fun _ =>
       (marshalList ts a trs f e es).seq fun _ => .ok [⟨.arrClose, none⟩]
     | _ => .bad .panic) := by
  rw [marshalBare.eq_def]
  rfl
theorem marshalBare_struct (f id e fields v) : marshalBare ts a trs (f+1) id (.structMap e fields) v =
    ((MOut.ok [⟨.mapOpen (fields.filter (emittable v)).length, e.tag⟩]).seq fun _ =>
      (marshalFields ts a trs f (fields.filter (emittable v)) v).seq fun _ => .ok [⟨.mapClose, none⟩]) := by
  rw [marshalBare.eq_def]
  rfl

theorem marshalBare_transform (f id e fn mty v) : marshalBare ts a trs (f+1) id (.transform e fn mty) v =
    (match trs.m fn v with
     | none => .bad .err
     | some tv => retagFirst e.tag (marshalV ts a trs f mty tv)) := by
  rw [marshalBare.eq_def]
  rfl

theorem marshalBare_union (f id e ms v) : marshalBare ts a trs (f+1) id (.union e ms) v =
    (match v with
     | .iface none => .bad .err
     | .iface (some (dt, dv)) =>
       (match ms.find? fun x => (a.pool[x.2]?.map (·.ty)) == some dt with
        | none => .bad .err
        | some (name, idx) =>
          (match a.pool[idx]? with
           | none => .bad .panic
           | some me =>
             let inner := marshalBare ts a trs f dt (machForEntry ts me) dv
             (match inner.toks, inner.fail with
              | [], some f => .bad f
              | _, _ =>
                (MOut.ok [⟨.mapOpen 1, none⟩, ⟨.str name, none⟩]).seq fun _ =>
                inner.seq fun _ => .ok [⟨.mapClose, none⟩])))
     | _ => .bad .panic) := by
  rw [marshalBare.eq_def]
  rfl

theorem marshalEntries_zero (vt xs) : marshalEntries ts a trs 0 vt xs = .bad .panic := by
  rw [marshalEntries]
theorem marshalEntries_nil (f vt) : marshalEntries ts a trs (f+1) vt [] = .ok [] := by
  rw [marshalEntries]; simp
theorem marshalEntries_cons (f vt k x rest) : marshalEntries ts a trs (f+1) vt ((k, x) :: rest) =
    ((MOut.ok [⟨.str k, none⟩]).seq fun _ =>
      (marshalV ts a trs f vt x).seq fun _ => marshalEntries ts a trs f vt rest) := by
  rw [marshalEntries]

theorem marshalFields_zero (fs v) : marshalFields ts a trs 0 fs v = .bad .panic := by
  rw [marshalFields]
theorem marshalFields_nil (f v) : marshalFields ts a trs (f+1) [] v = .ok [] := by
  rw [marshalFields]; simp
theorem marshalFields_cons (f fe rest v) : marshalFields ts a trs (f+1) (fe :: rest) v =
    (match traverse fe.route v with
     | none => .bad .panic
     | some fv =>
       (MOut.ok [⟨.str fe.name, none⟩]).seq fun _ =>
       (marshalV ts a trs f fe.ty fv).seq fun _ => marshalFields ts a trs f rest v) := by
  rw [marshalFields]
  cases traverse fe.route v <;> rfl

end Refmt.MachL
