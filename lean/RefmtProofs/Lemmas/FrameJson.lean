/-
  Framing of JSON items (C17): `decTop` of Lemmas/JsonDecL.lean again, this time from a reader with any
  push-back mark, behind leading whitespace, and with the reader that is left behind made explicit.
-/
import RefmtModel
import RefmtProofs.Lemmas.JsonDecL
set_option linter.unusedSimpArgs false
set_option linter.unusedVariables false
namespace Refmt.PumpL
open Refmt Refmt.JsonDec Refmt.Spec.Json Refmt.C03L
open Refmt.JsonEnc (Cfg)

/-- A non-final prefix followed by one step that signals done: the whole result. -/
theorem DRuns_finish' {P P' : Bytes → Prop} {s s' st : St} {bs bs' : Bytes} {ts : List Tok} {t : Tok}
    (h : DRuns P' s bs ts s')
    (hstep : ∀ rest pb, P rest → step s' (rdOf (bs' ++ rest) pb) = ⟨st, rdOf rest 0, .tok t true⟩)
    (hp : ∀ rest, P rest → P' (bs' ++ rest))
    (fuel : Nat) (rest : Bytes) (pb : Nat) (hr : P rest) (hf : ts.length + 1 ≤ fuel) :
    run fuel s (rdOf ((bs ++ bs') ++ rest) pb) [] 0 = ⟨ts ++ [t], .ok (), rdOf rest 0, ts.length + 1⟩ := by
  obtain ⟨k, rfl⟩ : ∃ k, fuel = ts.length + (k + 1) := ⟨fuel - ts.length - 1, by omega⟩
  obtain ⟨p1, e1⟩ := h (k + 1) (bs' ++ rest) [] 0 pb (hp rest hr)
  have e2 := hstep rest p1 hr
  rw [List.append_assoc, e1, run]
  simp [e2]

theorem step_top_arrOpen_ws (w rest : Bytes) (pb : Nat) (hw : WsOnly w) :
    step JsonDec.init (rdOf (w ++ 91 :: rest) pb) =
      ⟨⟨[⟨.value, false⟩], ⟨.arr, false⟩⟩, rdOf rest 0, .tok ⟨.arrOpen (-1), none⟩ false⟩ := by
  have := subStep_skip JsonDec.init w 91 rest pb hw (by decide)
  simp only [step, this]
  simp [JsonDec.init, av_arrOpen, push]

theorem step_top_mapOpen_ws (w rest : Bytes) (pb : Nat) (hw : WsOnly w) :
    step JsonDec.init (rdOf (w ++ 123 :: rest) pb) =
      ⟨⟨[⟨.value, false⟩], ⟨.mapKey, false⟩⟩, rdOf rest 0, .tok ⟨.mapOpen (-1), none⟩ false⟩ := by
  have := subStep_skip JsonDec.init w 123 rest pb hw (by decide)
  simp only [step, this]
  simp [JsonDec.init, av_mapOpen, push]

theorem step_top_scalar_ws (b : Body) (h : decOk b = true) (w rest : Bytes) (hw : WsOnly w) (hs : Stop rest = true)
    (pb : Nat) :
    ∃ pb', step JsonDec.init (rdOf (w ++ (scalarTxt b ++ rest)) pb) =
      ⟨JsonDec.init, rdOf rest pb', .tok (retypeTok ⟨b, none⟩) true⟩ := by
  obtain ⟨hd, tl, e, hav⟩ := av_scalar b h JsonDec.init rest hs
  obtain ⟨hd', tl', e', hv⟩ := scalarTxt_head b h
  rw [e] at e'
  obtain ⟨rfl, rfl⟩ := List.cons.inj e'
  obtain ⟨pb', ha⟩ := hav 0
  refine ⟨pb', ?_⟩
  have := subStep_skip JsonDec.init w hd (tl ++ rest) pb hw hv.1
  rw [e, List.cons_append]
  simp only [step, this]
  simp only [JsonDec.init] at ha ⊢
  simp [ha]

/-- one value from the initial state, behind whitespace, from any push-back state -/
theorem decTop' (c : Cfg) (hc : CfgWs c) (v : TV) (h : DOk v = true) (fuel : Nat) (w rest : Bytes) (pb : Nat)
    (hw : WsOnly w) (hs : Stop rest = true) (hf : v.flatten.length ≤ fuel) :
    ∃ pb', run fuel JsonDec.init (rdOf (w ++ (txtV c 0 v ++ rest)) pb) [] 0 =
      ⟨v.flatten.map retypeTok, .ok (), rdOf rest pb', v.flatten.length⟩ := by
  cases v with
  | scalar t =>
    obtain ⟨k, rfl⟩ : ∃ k, fuel = k + 1 := ⟨fuel - 1, by simp [TV.flatten] at hf; omega⟩
    obtain ⟨pb', e⟩ := step_top_scalar_ws t.body (by simpa [DOk] using h) w rest hw hs pb
    rw [retypeTok_none] at e
    exact ⟨pb', by simp [txtV, run, e, TV.flatten]⟩
  | arr tag len items =>
    have h1 : DRuns AnyRest JsonDec.init (w ++ [91]) [⟨.arrOpen (-1), none⟩] ⟨[⟨.value, false⟩], ⟨.arr, false⟩⟩ :=
      DRuns.single (fun rest pb _ => ⟨0, by simpa [List.append_assoc] using step_top_arrOpen_ws w rest pb hw⟩)
    have h2 := decL c hc items (by simpa [DOk] using h) 1 false ⟨.value, false⟩ []
    have h12 := h1.append h2 (fun _ _ => trivial)
    have := DRuns_finish' (P := StopRest) (bs' := closeSep c 1 (!items.isEmpty) ++ [93]) (t := ⟨.arrClose, none⟩) h12
      (fun rest pb _ => by
        simpa [List.append_assoc] using dstep_arrClose_top hc 1 (!items.isEmpty) ⟨.value, false⟩ _ rest pb)
      (fun rest _ => by
        show Stop _ = true
        simpa [List.append_assoc] using Stop_ws_cons _ 93 rest (closeSep_ws hc 1 (!items.isEmpty)) (by decide))
      fuel rest pb hs (by simp [TV.flatten] at hf ⊢; omega)
    refine ⟨0, ?_⟩
    simpa [TV.flatten, txtV, List.append_assoc, retypeTok] using this
  | map tag len es =>
    have h1 : DRuns AnyRest JsonDec.init (w ++ [123]) [⟨.mapOpen (-1), none⟩] ⟨[⟨.value, false⟩], ⟨.mapKey, false⟩⟩ :=
      DRuns.single (fun rest pb _ => ⟨0, by simpa [List.append_assoc] using step_top_mapOpen_ws w rest pb hw⟩)
    have h2 := decE c hc es (by simpa [DOk] using h) 1 false ⟨.value, false⟩ []
    have h12 := h1.append h2 (fun _ _ => trivial)
    have := DRuns_finish' (P := StopRest) (bs' := closeSep c 1 (!es.isEmpty) ++ [125]) (t := ⟨.mapClose, none⟩) h12
      (fun rest pb _ => by
        simpa [List.append_assoc] using dstep_mapClose_top hc 1 (!es.isEmpty) ⟨.value, false⟩ _ rest pb)
      (fun rest _ => by
        show Stop _ = true
        simpa [List.append_assoc] using Stop_ws_cons _ 125 rest (closeSep_ws hc 1 (!es.isEmpty)) (by decide))
      fuel rest pb hs (by simp [TV.flatten] at hf ⊢; omega)
    refine ⟨0, ?_⟩
    simpa [TV.flatten, txtV, List.append_assoc, retypeTok] using this

end Refmt.PumpL
