/-
  C12, claim (ii) with tags — the re-marshal of the round-trip value: bare machines of the plain kinds and of struct
  maps.  See RefmtProofs/Props/C12Tagged.lean.
-/
import RefmtProofs.Lemmas.TagOmit
set_option linter.unusedSimpArgs false
set_option linter.unusedVariables false
namespace Refmt.Obj
open Refmt Refmt.C13 Refmt.C11 Refmt.C12 Refmt.C12L

variable {ts : Types} {a : Atlas} {trs : Trs} {it : IfaceTys}

/-- what `RTF` says about one bare rendering -/
def RBare (ts : Types) (a : Atlas) (trs : Trs) (it : IfaceTys) (f id : Nat) (toks : List Tok) (r : Val) : Prop :=
  HeadSpec toks ∧ ∀ F, f + 1 < F → ∀ rest,
    unmBare ts a trs it F id (upickBare ts a id) (zeroVal ts 64 id) (toks ++ rest) = .ok r rest toks.length

/-- a value the round trip does not change: the rendering itself is the re-rendering -/
theorem idm_b_fix {f id : Nat} {v : Val} {toks : List Tok} {r : Val} (hR : RBare ts a trs it f id toks r)
    (hm : marshalBare ts a trs (f+1) id (pickBare ts a id) v = ⟨toks, none⟩) (hfix : r = v) :
    IdmB ts a trs it id toks r := by
  subst hfix
  refine ⟨toks, f + 2, hR.1.hd2T, fun F hF => ⟨?_, fun rest => hR.2 F (by omega) rest⟩⟩
  exact marshalBare_mono_le ts a trs (f+1) F id _ r _ hm (by simp) (by omega)

theorem idm_b_prim {f} (id : Nat) (v : Val) (toks : List Tok) (g : Nat)
    (hpick : pickBare ts a id = .prim) (hg : f + 1 ≤ g)
    (hR : RBare ts a trs it f id toks (rtFB ts a trs it g id (pickBare ts a id) v))
    (hm : marshalBare ts a trs (f+1) id (pickBare ts a id) v = ⟨toks, none⟩) :
    IdmB ts a trs it id toks (rtFB ts a trs it g id (pickBare ts a id) v) := by
  obtain ⟨g, rfl⟩ : ∃ g', g = g' + 1 := ⟨g - 1, by omega⟩
  exact idm_b_fix hR hm (by rw [hpick, rtFB_prim])

theorem idm_b_slice {f} (ih : IDM ts a trs it f) (p h id e : Nat) (v : Val) (toks : List Tok) (g : Nat)
    (hp64 : p + 1 ≤ 64) (hd : ts.get id = .slice e) (hn : a.get id = none) (hpe : fullTy ts a p e = true) (hst : StabTy ts a trs p e)
    (hv : hasTy ts h id v = true) (hg : f + 1 ≤ g) (hs : fullValB ts a trs it g id (pickBare ts a id) v = true)
    (hR : RBare ts a trs it f id toks (rtFB ts a trs it g id (pickBare ts a id) v))
    (hm : marshalBare ts a trs (f+1) id (pickBare ts a id) v = ⟨toks, none⟩) :
    IdmB ts a trs it id toks (rtFB ts a trs it g id (pickBare ts a id) v) := by
  obtain ⟨g, rfl⟩ : ∃ g', g = g' + 1 := ⟨g - 1, by omega⟩
  obtain ⟨hpk, hupk⟩ := pick_slice hd hn
  cases h with
  | zero => simp [hasTy] at hv
  | succ h =>
  cases v <;> simp only [hasTy, hd] at hv <;> try (cases hv; done)
  rename_i o
  cases o with
  | none => exact idm_b_fix hR hm (by rw [hpk, rtFB_slice])
  | some es =>
    rw [hpk] at hm hs ⊢
    rw [fullValB_slice] at hs
    rw [marshalBare_slice] at hm
    simp only at hm
    obtain ⟨t1, t23, h1, h23, rfl⟩ := seq_ok hm
    obtain ⟨tl, tc, h2, h3, rfl⟩ := seq_ok h23
    simp [MOut.ok] at h1 h3; subst h1 h3
    have hv' : ∀ x ∈ es, hasTy ts h e x = true := by simpa [hasTy, hd] using hv
    have hs' : ∀ x ∈ es, fullVal ts a trs it g e x = true := by simpa using hs
    obtain ⟨items, N, rfl, hr, hall⟩ := idm_list ih p h e g (by omega) hpe hst (by omega) es f tl (by omega) hv' hs' h2
    have hlen : items.length = es.length := by simpa using congrArg List.length hr
    rw [rtFB_slice]
    simp only [← hr]
    refine ⟨⟨.arrOpen es.length, none⟩ :: (items.flatMap (·.tk2) ++ [⟨.arrClose, none⟩]), N + es.length + 3,
      ⟨_, _, _, _, rfl, rfl, fun h => h, by simp, by simp, by simp, by simp, by simp [SameOpen], Or.inr ⟨by simp, by simp⟩⟩,
      fun F hF => ⟨?_, fun rest => ?_⟩⟩
    · obtain ⟨F, rfl⟩ : ∃ F', F = F' + 1 := ⟨F - 1, by omega⟩
      have hml := m_list (ts := ts) (a := a) (trs := trs) (·.r) (·.tk2) e N items
        (fun i hi F hF => ((hall i hi).2 F hF).1) F (by omega)
      dsimp only
      rw [hpk, marshalBare_slice]
      simp only [hml]
      simp [MOut.seq, MOut.ok, hlen]
    · obtain ⟨F, rfl⟩ : ∃ F', F = F' + 1 := ⟨F - 1, by omega⟩
      have hl := rd_elems (ts := ts) (a := a) (trs := trs) (it := it) (·.tk2) (·.r) e N items
        (fun i hi => ⟨(hall i hi).1.head2, fun F hF => ((hall i hi).2 F hF).2⟩) F (by omega) none [] rest (by simp)
      dsimp only
      rw [hupk, List.cons_append, List.append_assoc, List.singleton_append, unmBare_slice]
      simp [hl]

theorem idm_b_arr {f} (ih : IDM ts a trs it f) (p h id n e : Nat) (v : Val) (toks : List Tok) (g : Nat)
    (hp64 : p + 1 ≤ 64) (hd : ts.get id = .arr n e) (hn : a.get id = none) (hpe : fullTy ts a p e = true) (hst : StabTy ts a trs p e)
    (hv : hasTy ts h id v = true) (hg : f + 1 ≤ g) (hs : fullValB ts a trs it g id (pickBare ts a id) v = true)
    (hm : marshalBare ts a trs (f+1) id (pickBare ts a id) v = ⟨toks, none⟩) :
    IdmB ts a trs it id toks (rtFB ts a trs it g id (pickBare ts a id) v) := by
  obtain ⟨g, rfl⟩ : ∃ g', g = g' + 1 := ⟨g - 1, by omega⟩
  obtain ⟨hpk, hupk⟩ := pick_arr hd hn
  rw [hpk] at hm hs ⊢
  rw [fullValB_array] at hs
  cases h with
  | zero => simp [hasTy] at hv
  | succ h =>
  cases v <;> simp only [hasTy, hd] at hv <;> try (cases hv; done)
  rename_i es
  rw [marshalBare_array] at hm
  simp only at hm
  obtain ⟨t1, t23, h1, h23, rfl⟩ := seq_ok hm
  obtain ⟨tl, tc, h2, h3, rfl⟩ := seq_ok h23
  simp [MOut.ok] at h1 h3; subst h1 h3
  have hv' : es.length = n ∧ ∀ x ∈ es, hasTy ts h e x = true := by simpa [hasTy, hd] using hv
  have hs' : ∀ x ∈ es, fullVal ts a trs it g e x = true := by simpa using hs
  obtain ⟨items, N, rfl, hr, hall⟩ := idm_list ih p h e g (by omega) hpe hst (by omega) es f tl (by omega) hv'.2 hs' h2
  have hlen : items.length = es.length := by simpa using congrArg List.length hr
  rw [rtFB_array]
  simp only [← hr]
  refine ⟨⟨.arrOpen es.length, none⟩ :: (items.flatMap (·.tk2) ++ [⟨.arrClose, none⟩]), N + es.length + 3,
    ⟨_, _, _, _, rfl, rfl, fun h => h, by simp, by simp, by simp, by simp, by simp [SameOpen], Or.inr ⟨by simp, by simp⟩⟩,
    fun F hF => ⟨?_, fun rest => ?_⟩⟩
  · obtain ⟨F, rfl⟩ : ∃ F', F = F' + 1 := ⟨F - 1, by omega⟩
    have hml := m_list (ts := ts) (a := a) (trs := trs) (·.r) (·.tk2) e N items
      (fun i hi F hF => ((hall i hi).2 F hF).1) F (by omega)
    dsimp only
    rw [hpk, marshalBare_array]
    simp only [hml]
    simp [MOut.seq, MOut.ok, hlen]
  · obtain ⟨F, rfl⟩ : ∃ F', F = F' + 1 := ⟨F - 1, by omega⟩
    have hl := rd_elems (ts := ts) (a := a) (trs := trs) (it := it) (·.tk2) (·.r) e N items
      (fun i hi => ⟨(hall i hi).1.head2, fun F hF => ((hall i hi).2 F hF).2⟩) F (by omega) (some n) [] rest (by simp [hlen, hv'.1])
    dsimp only
    rw [hupk, List.cons_append, List.append_assoc, List.singleton_append, unmBare_array]
    simp [hl, arrFix, hv'.1, hlen]

theorem idm_b_map {f} (ih : IDM ts a trs it f) (p h id kt vt : Nat) (bk : Bool) (v : Val) (toks : List Tok) (g : Nat)
    (hp64 : p + 1 ≤ 64) (hd : ts.get id = .map kt vt) (hn : a.get id = none) (hkt : ts.get kt = .prim .string bk)
    (hpe : fullTy ts a p vt = true) (hst : StabTy ts a trs p vt)
    (hv : hasTy ts h id v = true) (hg : f + 1 ≤ g) (hs : fullValB ts a trs it g id (pickBare ts a id) v = true)
    (hR : RBare ts a trs it f id toks (rtFB ts a trs it g id (pickBare ts a id) v))
    (hm : marshalBare ts a trs (f+1) id (pickBare ts a id) v = ⟨toks, none⟩) :
    IdmB ts a trs it id toks (rtFB ts a trs it g id (pickBare ts a id) v) := by
  obtain ⟨g, rfl⟩ : ∃ g', g = g' + 1 := ⟨g - 1, by omega⟩
  obtain ⟨hpk, hupk⟩ := pick_map hd hn
  have hmk : mkeyFn ts a kt = some none := by simp [mkeyFn, hkt]
  have huk : ukeyFn ts a kt = some none := by simp [ukeyFn, hkt]
  cases h with
  | zero => simp [hasTy] at hv
  | succ h =>
  cases v <;> simp only [hasTy, hd] at hv <;> try (cases hv; done)
  rename_i o
  cases o with
  | none => exact idm_b_fix hR hm (by rw [hpk, rtFB_map])
  | some es =>
    rw [hpk] at hm hs ⊢
    rw [fullValB_map] at hs
    simp only [Bool.and_eq_true, List.all_eq_true] at hs
    obtain ⟨hkeys, hnd⟩ := strKeysB_inv hs.1
    have hv' : ∀ q ∈ es, hasTy ts h vt q.2 = true := by
      intro q hq
      obtain ⟨q1, q2⟩ := q
      have := hv
      simp [hasTy, hd] at this
      exact (this q1 q2 hq).2
    rw [marshalBare_map, hmk] at hm
    simp only [Option.getD_some, mapM_keys es hkeys, Option.isNone_some, Bool.false_eq_true, if_false] at hm
    obtain ⟨t1, t23, h1, h23, rfl⟩ := seq_ok hm
    obtain ⟨tl, tc, h2, h3, rfl⟩ := seq_ok h23
    simp [MOut.ok] at h1 h3; subst h1 h3
    let kvs := es.map fun (q : Val × Val) => (keyStr q.1, q.2)
    have hperm := List.mergeSort_perm kvs (fun x y => keyLe a.defaultSort x.1 y.1)
    have hmem : ∀ q ∈ sortKeys a.defaultSort kvs, ∃ q' ∈ es, q.2 = q'.2 := by
      intro q hq
      have : q ∈ kvs := hperm.mem_iff.mp hq
      simp only [kvs, List.mem_map] at this
      obtain ⟨q', hq', rfl⟩ := this
      exact ⟨q', hq', rfl⟩
    obtain ⟨kitems, N, rfl, hr, hall⟩ := idm_entries ih p h vt g (by omega) hpe hst (by omega) (sortKeys a.defaultSort kvs) f tl (by omega)
      (fun q hq => by obtain ⟨q', hq', he⟩ := hmem q hq; rw [he]; exact hv' q' hq')
      (fun q hq => by obtain ⟨q', hq', he⟩ := hmem q hq; rw [he]; exact hs.2 q' hq') h2
    have hkeysEq : kitems.map (·.1) = (sortKeys a.defaultSort kvs).map (·.1) := by
      have := congrArg (List.map (·.1)) hr
      simpa [List.map_map, Function.comp_def] using this
    have hnd' : (kitems.map (·.1)).Nodup := by
      rw [hkeysEq]
      have : ((sortKeys a.defaultSort kvs).map (·.1)).Perm (kvs.map (·.1)) := hperm.map _
      rw [this.nodup_iff]
      simpa [kvs, List.map_map, Function.comp_def] using hnd
    have hsorted : sortI a.defaultSort kitems = kitems := by
      apply sortI_of_sorted
      rw [hkeysEq, List.pairwise_map]
      exact C08.sortKeys_sorted a.defaultSort kvs
    have hlen : kitems.length = es.length := by
      have := congrArg List.length hkeysEq
      simpa [kvs, ObjL.sortKeys_length] using this
    have hres : (sortKeys a.defaultSort kvs).map (fun (q : Bytes × Val) => (Val.str q.1, rtF ts a trs it g vt q.2)) =
        (kitems.map fun x => (Val.str x.1, x.2.r)) := by
      have := congrArg (List.map fun (q : Bytes × Val) => (Val.str q.1, q.2)) hr
      simpa [List.map_map, Function.comp_def] using this.symm
    have hw : rtFB ts a trs it (g+1) id (.map kt vt a.defaultSort) (.map (some es)) =
        .map (some (kitems.map fun x => (Val.str x.1, x.2.r))) := by
      rw [rtFB_map]
      simp only
      rw [← hres]
    rw [hw]
    refine ⟨⟨.mapOpen es.length, none⟩ :: (kitems.flatMap (fun q => ⟨.str q.1, none⟩ :: q.2.tk2) ++ [⟨.mapClose, none⟩]), N + es.length + 3,
      ⟨_, _, _, _, rfl, rfl, fun h => h, by simp, by simp, by simp, by simp, by simp [SameOpen], Or.inr ⟨by simp, by simp⟩⟩,
      fun F hF => ⟨?_, fun rest => ?_⟩⟩
    · obtain ⟨F, rfl⟩ : ∃ F', F = F' + 1 := ⟨F - 1, by omega⟩
      have hme := m_entries (ts := ts) (a := a) (trs := trs) (·.1) (·.2.r) (·.2.tk2) vt N kitems
        (fun q hq F hF => ((hall q hq).2 F hF).1) F (by omega)
      have hk2 : ∀ q ∈ (kitems.map fun x => (Val.str x.1, x.2.r)), ∃ s, q.1 = Val.str s := by
        intro q hq
        simp only [List.mem_map] at hq
        obtain ⟨x, _, rfl⟩ := hq
        exact ⟨_, rfl⟩
      have e2 : ((kitems.map fun x => (Val.str x.1, x.2.r)).map fun (q : Val × Val) => (keyStr q.1, q.2)) =
          kitems.map fun p => (p.1, (fun (i : Item) => i.r) p.2) := by
        simp [List.map_map, Function.comp_def, keyStr]
      dsimp only
      rw [hpk, marshalBare_map, hmk]
      simp only [Option.getD_some, mapM_keys _ hk2, Option.isNone_some, Bool.false_eq_true, if_false]
      rw [e2, sortKeys_map_sortI, hsorted, hme]
      simp [MOut.seq, MOut.ok, hlen]
    · obtain ⟨F, rfl⟩ : ∃ F', F = F' + 1 := ⟨F - 1, by omega⟩
      have hl := rd_entries (ts := ts) (a := a) (trs := trs) (it := it) (·.1) (·.2.tk2) (·.2.r) vt N kitems
        (fun q hq F hF => ((hall q hq).2 F hF).2) hnd' F (by omega) [] rest (by intro x _; simp [hasKey])
      dsimp only
      rw [hupk, List.cons_append, List.append_assoc, List.singleton_append, unmBare_map, huk, zeroVal_mapCur0]
      simp only [hl]
      simp

/-! ### structs -/

theorem foldl_setStep_get_other : ∀ (l : List (SMField × Item)) (cs : List Val) (j : Nat),
    (∀ q ∈ l, routeIdx q.1 ≠ j) → (l.foldl setStep cs)[j]? = cs[j]? := by
  intro l
  induction l with
  | nil => intro cs j _; rfl
  | cons q qs ih =>
    intro cs j h
    simp only [List.foldl_cons]
    rw [ih _ j (fun y hy => h y (by simp [hy]))]
    simp only [setStep]
    exact List.getElem?_set_ne (h q (by simp))

/-- after writing the items at pairwise distinct indices, every item's value sits at its index -/
theorem foldl_setStep_get : ∀ (l : List (SMField × Item)) (cs : List Val),
    (l.map fun p => routeIdx p.1).Nodup → (∀ q ∈ l, routeIdx q.1 < cs.length) →
    ∀ q ∈ l, (l.foldl setStep cs)[routeIdx q.1]? = some q.2.r := by
  intro l
  induction l with
  | nil => intro cs _ _ q hq; cases hq
  | cons x xs ih =>
    intro cs hnd hlt q hq
    simp only [List.map_cons, List.nodup_cons] at hnd
    simp only [List.foldl_cons]
    rcases List.mem_cons.mp hq with rfl | hq'
    · rw [foldl_setStep_get_other xs _ _ (fun y hy he => hnd.1 (by
        rw [← he]; exact List.mem_map_of_mem (f := fun p => routeIdx p.1) hy))]
      simp only [setStep]
      rw [List.getElem?_set_self (hlt q (by simp))]
    · exact ih _ hnd.2 (fun y hy => by simp only [setStep, List.length_set]; exact hlt y (by simp [hy])) q hq'

/-- the emission test of a one-step field whose value is `x` -/
theorem emitP_at {fld : SMField} {i : Nat} {xs : List Val} {x : Val} (hign : fld.ignore = false) (hroute : fld.route = [i])
    (hx : xs[i]? = some x) : emitP (.struct xs) fld = !(fld.omitEmpty && isEmpty 1000 x) := by
  unfold emitP
  rw [hroute, traverse_one, hx]
  simp [hign]

theorem idm_b_struct {f} (hz : ZeroStable ts) (ih : IDM ts a trs it f) (p h id : Nat)
    (fds : List FieldDesc) (reg : Bool) (ty : Nat)
    (tag : Option Int) (fields : List SMField) (v : Val) (toks : List Tok) (g : Nat) (hp64 : p + 1 ≤ 64)
    (hd : ts.get id = .struct fds) (hent : a.get id = some ⟨reg, ty, tag, .structMap fields⟩)
    (hnames : (fields.map (·.name)).Nodup) (hroutes : (fields.map (·.route)).Nodup) (hfok : ∀ fld ∈ fields, FOKF ts a p fds fld)
    (hstf : ∀ fld ∈ fields, OmitOk ts a fld ∧ StabTy ts a trs p fld.ty)
    (hv : hasTy ts h id v = true) (hg : f + 1 ≤ g) (hs : fullValB ts a trs it g id (pickBare ts a id) v = true)
    (hm : marshalBare ts a trs (f+1) id (pickBare ts a id) v = ⟨toks, none⟩) :
    IdmB ts a trs it id toks (rtFB ts a trs it g id (pickBare ts a id) v) := by
  obtain ⟨g, rfl⟩ : ∃ g', g = g' + 1 := ⟨g - 1, by omega⟩
  obtain ⟨hpk, hupk⟩ := pick_struct hd hent
  rw [hpk] at hm hs ⊢
  rw [fullValB_structMap] at hs
  simp only [List.all_eq_true] at hs
  cases h with
  | zero => simp [hasTy] at hv
  | succ h =>
  cases v <;> simp only [hasTy, hd] at hv <;> try (cases hv; done)
  rename_i vs
  simp only [Bool.and_eq_true, beq_iff_eq, List.all_eq_true] at hv
  obtain ⟨hvl, hvall⟩ := hv
  have hv' : ∀ (i : Nat) fd x, fds[i]? = some fd → vs[i]? = some x → hasTy ts h fd.ty x = true := by
    intro i fd x h1 h2
    have : (fd, x) ∈ fds.zip vs := by
      apply List.mem_of_getElem? (i := i)
      simp [List.getElem?_zip_eq_some, h1, h2]
    exact hvall (fd, x) this
  rw [marshalBare_structMap] at hm
  simp only at hm
  obtain ⟨t1, t23, h1, h23, rfl⟩ := seq_ok hm
  obtain ⟨tl, tc, h2, h3, rfl⟩ := seq_ok h23
  simp [MOut.ok] at h1 h3; subst h1 h3
  obtain ⟨fitems, N, rfl, hfl, hall⟩ := idm_fields ih p h g fds vs (by omega) (by omega) hv'
    (fields.filter (emitP (.struct vs))) f tl (by omega)
    (fun fld hf => hfok fld (List.mem_filter.mp hf).1)
    (fun fld hf => (hstf fld (List.mem_filter.mp hf).1).2)
    (fun fld hf fv ht => by
      have := hs fld (List.mem_filter.mp hf).1
      simpa [(List.mem_filter.mp hf).2, ht] using this) h2
  have hmemF : ∀ q ∈ fitems, q.1 ∈ fields := by
    intro q hq
    have : q.1 ∈ fitems.map (·.1) := List.mem_map_of_mem hq
    rw [hfl] at this
    exact (List.mem_filter.mp this).1
  have hlen : fitems.length = (fields.filter (emitP (.struct vs))).length := by
    rw [← hfl]; simp
  have hidx : ∀ q ∈ fitems, ∀ i, q.1.route = [i] → routeIdx q.1 = i := by
    intro q _ i hi; simp [routeIdx, hi]
  have hrnd : (fitems.map fun q => routeIdx q.1).Nodup := by
    have hr0 : ((fitems.map (·.1)).map (·.route)).Nodup := by
      rw [hfl]; exact (List.filter_sublist.map _).nodup hroutes
    rw [List.map_map] at hr0
    unfold List.Nodup at hr0 ⊢
    rw [List.pairwise_map] at hr0 ⊢
    refine hr0.imp_of_mem ?_
    intro q q' hq hq' hne heq
    apply hne
    obtain ⟨_, i, _, _, hroute, _⟩ := hall q hq
    obtain ⟨_, i', _, _, hroute', _⟩ := hall q' hq'
    simp only [routeIdx, hroute, hroute', List.headD_cons] at heq
    simp [hroute, hroute', heq]
  -- the round-trip value
  let ws := fitems.foldl setStep (fds.map fun fd => zeroVal ts 63 fd.ty)
  have hwsl : ws.length = fds.length := by simp [ws, setStep_length]
  have hfold : rtFB ts a trs it (g+1) id (.structMap ⟨reg, ty, tag, .structMap fields⟩ fields) (.struct vs) = .struct ws := by
    rw [rtFB_structMap, structFold_eq_filter, zeroVal_struct ts hd, ← hfl,
      fold_fieldStep id fds vs (rtF ts a trs it g) hd fitems _ (by simp)
        (fun q hq => by
          obtain ⟨_, i, fd, fv, hroute, hfd, hvi, hr⟩ := hall q hq
          exact ⟨i, fd, fv, hroute, hfd, hvi, hr⟩)]
  have hget : ∀ q ∈ fitems, traverse q.1.route (.struct ws) = some q.2.r := by
    intro q hq
    obtain ⟨_, i, fd, fv, hroute, hfd, hvi, hr⟩ := hall q hq
    rw [hroute, traverse_one, ← hidx q hq i hroute]
    exact foldl_setStep_get fitems _ hrnd (fun y hy => by
      obtain ⟨_, j, fd', _, hroute', hfd', _, _⟩ := hall y hy
      rw [hidx y hy j hroute']
      simp
      exact (List.getElem?_eq_some_iff.mp hfd').1) q hq
  -- the fields emitted for the round-trip value: those emitted for `v` whose round-trip value is not omitted
  let P : SMField × Item → Bool := fun q => emitP (.struct ws) q.1
  have hzero : ∀ (i : Nat) fd, fds[i]? = some fd → (fds.map fun fd => zeroVal ts 63 fd.ty)[i]? = some (zeroVal ts 63 fd.ty) := by
    intro i fd hfd
    rw [List.getElem?_map, hfd]; rfl
  have hc1 : ∀ fld ∈ fields, emitP (.struct vs) fld = false → emitP (.struct ws) fld = false := by
    intro fld hfld hev
    obtain ⟨hign, i, fd, hroute, hfd, hty, hst⟩ := hfok fld hfld
    have hi : i < fds.length := (List.getElem?_eq_some_iff.mp hfd).1
    have hxi : vs[i]? = some vs[i] := List.getElem?_eq_getElem (by omega)
    rw [emitP_at hign hroute hxi] at hev
    simp only [Bool.not_eq_false', Bool.and_eq_true] at hev
    have hwi : ws[i]? = some (zeroVal ts 63 fd.ty) := by
      rw [← hzero i fd hfd]
      apply foldl_setStep_get_other
      intro q hq heq
      obtain ⟨_, i', _, _, hroute', _⟩ := hall q hq
      rw [hidx q hq i' hroute'] at heq
      subst heq
      have : q.1 = fld := inj_of_nodup_map (·.route) fields hroutes _ (hmemF q hq) _ hfld (by rw [hroute, hroute'])
      have hmem : fld ∈ fitems.map (·.1) := by rw [← this]; exact List.mem_map_of_mem hq
      rw [hfl] at hmem
      have := (List.mem_filter.mp hmem).2
      rw [emitP_at hign hroute hxi] at this
      simp [hev.1, hev.2] at this
    rw [emitP_at hign hroute hwi, hev.1, hty]
    have hze := isEmpty_zero_of_plain hst ((hstf fld hfld).1 hev.1) (by rw [← hty]; exact hv' i fd _ hfd hxi) hev.2
    simp [hze]
  have hemit : fields.filter (emitP (.struct ws)) = (fitems.filter P).map (·.1) := by
    have e1 : fields.filter (emitP (.struct ws)) = fields.filter (fun f => emitP (.struct ws) f && emitP (.struct vs) f) := by
      apply List.filter_congr
      intro fld hfld
      cases hev : emitP (.struct vs) fld with
      | false => simp [hc1 fld hfld hev]
      | true => simp
    rw [e1, ← List.filter_filter, ← hfl, List.filter_map]
    rfl
  have hc2 : ∀ q ∈ fitems, P q = false → (fds.map fun fd => zeroVal ts 63 fd.ty)[routeIdx q.1]? = some q.2.r := by
    intro q hq hPq
    obtain ⟨_, i, fd, fv, hroute, hfd, hvi, hr⟩ := hall q hq
    obtain ⟨hign, j, fd', hroute', hfd', hty, hst⟩ := hfok q.1 (hmemF q hq)
    rw [hroute] at hroute'
    cases hroute'
    rw [hfd] at hfd'
    cases hfd'
    have hwi : ws[i]? = some q.2.r := by
      have := hget q hq
      rwa [hroute, traverse_one] at this
    have hev : emitP (.struct vs) q.1 = true := by
      have : q.1 ∈ fitems.map (·.1) := List.mem_map_of_mem hq
      rw [hfl] at this
      exact (List.mem_filter.mp this).2
    rw [emitP_at hign hroute hvi] at hev
    have hPq' : emitP (.struct ws) q.1 = false := hPq
    rw [emitP_at hign hroute hwi] at hPq'
    simp only [Bool.not_eq_false', Bool.and_eq_true] at hPq'
    simp only [hPq'.1, Bool.true_and, Bool.not_eq_true'] at hev
    have hrz := rtF_empty_zero (trs := trs) (it := it) (g := g) hst (by omega) ((hstf q.1 (hmemF q hq)).1 hPq'.1)
      (by rw [← hty]; exact hv' i fd _ hfd hvi) hev (by rw [← hr]; exact hPq'.2)
    rw [hidx q hq i hroute, hzero i fd hfd, hr, hrz, hty]
  have hws : ws = (fitems.filter P).foldl setStep (fds.map fun fd => zeroVal ts 63 fd.ty) :=
    foldl_setStep_filter P fitems _ hrnd hc2
  have hsub : ∀ q ∈ fitems.filter P, q ∈ fitems := fun q hq => (List.mem_filter.mp hq).1
  have hlen' : (fitems.filter P).length ≤ fitems.length := List.length_filter_le _ _
  have hrnd' : ((fitems.filter P).map fun q => routeIdx q.1).Nodup := (List.filter_sublist.map _).nodup hrnd
  rw [hfold]
  refine ⟨⟨.mapOpen (fitems.filter P).length, tag⟩ ::
      ((fitems.filter P).flatMap (fun q => ⟨.str q.1.name, none⟩ :: q.2.tk2) ++ [⟨.mapClose, none⟩]), N + fitems.length + 3,
    ⟨_, _, _, _, rfl, rfl, fun h => h, by simp, by simp, by simp, by simp, by simp [SameOpen], Or.inr ⟨by simp, by simp⟩⟩,
    fun F hF => ⟨?_, fun rest => ?_⟩⟩
  · obtain ⟨F, rfl⟩ : ∃ F', F = F' + 1 := ⟨F - 1, by omega⟩
    have hmf := m_fields (ts := ts) (a := a) (trs := trs) N ws (fitems.filter P)
      (fun q hq => ⟨hget q (hsub q hq), fun F hF => (((hall q (hsub q hq)).1).2 F hF).1⟩) F (by omega)
    dsimp only
    rw [hpk, marshalBare_structMap, hemit, hmf]
    simp [MOut.seq, MOut.ok]
  · obtain ⟨F, rfl⟩ : ∃ F', F = F' + 1 := ⟨F - 1, by omega⟩
    have hst := rd_struct (ts := ts) (a := a) (trs := trs) (it := it) id fds fields N hd hnames (fitems.filter P)
      (fun q hq' => by
        have hq := hsub q hq'
        obtain ⟨hgood, i, fd, fv, hroute, hfd, _, _⟩ := hall q hq
        exact ⟨hmemF q hq, (hfok q.1 (hmemF q hq)).1, hgood.1.head2, i, fd, hroute, hfd, fun F hF => (hgood.2 F hF).2⟩)
      hrnd' F (by omega)
      (fds.map fun fd => zeroVal ts 63 fd.ty) 0 ((fitems.filter P).length : Nat) rest (by simp)
      (fun q hq' => by
        have hq := hsub q hq'
        obtain ⟨_, i, fd, fv, hroute, hfd, _, _⟩ := hall q hq
        obtain ⟨_, j, fd', hroute', hfd', hty', _⟩ := hfok q.1 (hmemF q hq)
        rw [hroute] at hroute'
        cases hroute'
        rw [hidx q hq i hroute, List.getElem?_map, hfd', ← hty', ← hz fd'.ty]; rfl)
      (by simp)
    dsimp only
    rw [hupk, List.cons_append, List.append_assoc, List.singleton_append, unmBare_structMap, zeroVal_struct ts hd]
    simp only [hst, URes.shift_ok]
    rw [← hws]
    simp

end Refmt.Obj
