-- auxiliary equation lemmas / definitions for the C13 proofs (object unmarshaller model); see RefmtProofs/Props/C13.lean
import RefmtProofs.Lemmas.ObjStream
set_option linter.unusedSimpArgs false
set_option linter.unusedVariables false
namespace Refmt.Obj
open Refmt
variable (ts : Types) (a : Atlas) (trs : Trs) (it : IfaceTys)

def capFull (cap : Option Nat) (acc : List Val) : Bool :=
  match cap with | some n => decide (acc.length ≥ n) | none => false

theorem bind'_zero_eq (x : URes) (K) : x.bind' K 0 = (match x with | .ok v r u => K v r u | y => y) := by
  cases x <;> simp [URes.bind']

theorem unmV_cons (fuel id cur t rest) : unmV ts a trs it (fuel+1) id cur (t :: rest) =
    if (peel ts 64 0 id).1 == 0 then
      unmBare ts a trs it fuel (peel ts 64 0 id).2 (upickBare ts a (peel ts 64 0 id).2) cur (t :: rest)
    else match t.body with
      | .null => .ok (.ptr none) rest 1
      | _ => (unmBare ts a trs it fuel (peel ts 64 0 id).2 (upickBare ts a (peel ts 64 0 id).2)
                (innerCur ts (peel ts 64 0 id).1 id cur) (t :: rest)).bind'
                (fun v r u => .ok (wrapPtr (peel ts 64 0 id).1 v) r u) 0 := by
  rw [unmV.eq_def, bind'_zero_eq]
  rfl

theorem unmBare_prim (fuel id cur t rest) : unmBare ts a trs it (fuel+1) id .prim cur (t :: rest) =
    (match storePrim (ts.get id) t with | some v => .ok v rest 1 | none => .err 0) := by
  rw [unmBare.eq_def]
  rfl

theorem unmBare_errThunk (fuel id cur t rest) : unmBare ts a trs it (fuel+1) id .errThunk cur (t :: rest) = .err 0 := by
  rw [unmBare.eq_def]
theorem unmBare_panic (fuel id cur t rest) : unmBare ts a trs it (fuel+1) id .panic cur (t :: rest) = .panic 0 := by
  rw [unmBare.eq_def]

def ifaceMeth (ts : Types) (id : Nat) : Bool := match ts.get id with | .iface m => m | _ => false

theorem unmBare_wild (fuel id cur t rest) : unmBare ts a trs it (fuel+1) id .wildcard cur (t :: rest) =
    unmWild ts a trs it fuel (ifaceMeth ts id) t rest := by
  rw [unmBare.eq_def]
  rfl

theorem unmBare_slice (fuel id e cur t rest) : unmBare ts a trs it (fuel+1) id (.slice e) cur (t :: rest) =
    (match t.body with
     | .null => .ok (.slice none) rest 1
     | .arrOpen _ => (unmElems ts a trs it fuel e none [] rest).shift 1
     | _ => .err 0) := by
  rw [unmBare.eq_def]
  rfl

def arrFix (ts : Types) (n e : Nat) (v : Val) : Val :=
  match v with
  | .slice (some vs) => .arr (vs ++ List.replicate (n - vs.length) (zeroVal ts 64 e))
  | v => v

theorem arr_match_eq (n e : Nat) (x : URes) :
    (match x with
     | .ok (.slice (some vs)) r u => URes.ok (.arr (vs ++ List.replicate (n - vs.length) (zeroVal ts 64 e))) r (u + 1)
     | x => x.shift 1) = x.bind' (fun v r u => .ok (arrFix ts n e v) r (u + 1)) 1 := by
  cases x with
  | ok v r u =>
    cases v <;> try rfl
    rename_i o; cases o <;> rfl
  | _ => rfl

theorem unmBare_array (fuel id n e cur t rest) : unmBare ts a trs it (fuel+1) id (.array n e) cur (t :: rest) =
    (match t.body with
     | .null => .ok (zeroVal ts 64 id) rest 1
     | .arrOpen _ => (unmElems ts a trs it fuel e (some n) [] rest).bind' (fun v r u => .ok (arrFix ts n e v) r (u + 1)) 1
     | _ => .err 0) := by
  rw [unmBare.eq_def, ← arr_match_eq]
  rfl

def ukeyFn (ts : Types) (a : Atlas) (kt : Nat) : Option (Option Nat) :=
  match ts.get kt with
  | .prim .string _ => some none
  | _ =>
    (match a.get kt with
     | some ⟨_, _, _, .transform fn _ uty⟩ =>
       (match ts.get uty with | .prim .string _ => some (some fn) | _ => none)
     | _ => none)

def mapCur0 (cur : Val) : List (Val × Val) := match cur with | .map (some es) => es | _ => []

theorem unmBare_map (fuel id kt vt cur t rest) : unmBare ts a trs it (fuel+1) id (.map kt vt) cur (t :: rest) =
    (match ukeyFn ts a kt with
     | none => .err 0
     | some kf =>
       (match t.body with
        | .null => .ok (.map none) rest 1
        | .mapOpen _ => (unmMapEntries ts a trs it fuel kf vt (mapCur0 cur) rest).shift 1
        | _ => .err 0)) := by
  rw [unmBare.eq_def]
  rfl

theorem unmBare_structMap (fuel id fields cur t rest) : unmBare ts a trs it (fuel+1) id (.structMap fields) cur (t :: rest) =
    (match t.body with
     | .null => .ok (zeroVal ts 64 id) rest 1
     | .mapOpen len => (unmStruct ts a trs it fuel id fields len 0 cur rest).shift 1
     | _ => .err 0) := by
  rw [unmBare.eq_def]
  rfl

def trPost (trs : Trs) (fn : Nat) : Val → List Tok → Nat → URes := fun rv r u =>
  match trs.u fn rv with
  | some v => .ok v r u
  | none => .err (u - 1)

theorem unmBare_transform (fuel id fn uty cur t rest) : unmBare ts a trs it (fuel+1) id (.transform fn uty) cur (t :: rest) =
    (unmBare ts a trs it fuel uty (upickBare ts a uty) (zeroVal ts 64 uty) (t :: rest)).bind' (trPost trs fn) 0 := by
  rw [unmBare.eq_def, bind'_zero_eq]
  rfl

def unionClose (ty : Nat) : Val → List Tok → Nat → URes := fun v r u =>
  match r with
  | [] => .more (u + 2)
  | c :: r' =>
    (match c.body with
     | .mapClose => .ok (.iface (some (ty, v))) r' (u + 3)
     | _ => .err (u + 2))

theorem unmBare_union (fuel id members cur t rest) : unmBare ts a trs it (fuel+1) id (.union members) cur (t :: rest) =
        (match t.body with
         | .mapOpen len =>
           if len != -1 && len != 1 then .err 0 else
           (match rest with
            | [] => .more 1
            | k :: rest2 =>
              (match k.body with
               | .str name =>
                 (match members.find? fun (nm, _) => nm == name with
                  | none => .err 1
                  | some (_, idx) =>
                    (match a.pool[idx]? with
                     | none => .panic 1
                     | some me =>
                       (match umachForEntry ts me with
                        | .errThunk => .err 1
                        | .panic => .panic 1
                        | dm => (unmBare ts a trs it fuel me.ty dm (zeroVal ts 64 me.ty) rest2).bind' (unionClose me.ty) 2)))
               | _ => .err 1))
         | _ => .err 0) := by
  rw [unmBare.eq_def]
  rfl

def wildRej (methods : Bool) (b : Body) : Bool :=
  methods && (match b with | .null | .mapClose | .arrClose => false | _ => true)

@[simp] theorem wildRej_false (b : Body) : wildRej false b = false := rfl

theorem unmWild_eq (fuel methods t rest) : unmWild ts a trs it (fuel+1) methods t rest =
      match t.tag with
      | some g =>
        (match a.getByTag g with
         | none => .err 0
         | some e =>
           if methods then .err 0 else
           (unmBare ts a trs it fuel e.ty (upickBare ts a e.ty) (zeroVal ts 64 e.ty) (t :: rest)).bind'
             (fun v r u => .ok (.iface (some (e.ty, v))) r u) 0)
      | none =>
        if wildRej methods t.body then .err 0 else
        match t.body with
        | .mapOpen _ =>
          (unmBare ts a trs it fuel it.mapSI (.map it.str it.iface) (.map (some [])) (t :: rest)).bind'
             (fun v r u => .ok (.iface (some (it.mapSI, v))) r u) 0
        | .arrOpen _ =>
          (unmBare ts a trs it fuel it.sliceI (.slice it.iface) (.slice none) (t :: rest)).bind'
             (fun v r u => .ok (.iface (some (it.sliceI, v))) r u) 0
        | .mapClose => .err 0
        | .arrClose => .err 0
        | .null => .ok (.iface none) rest 1
        | .str s => .ok (.iface (some (it.str, .str s))) rest 1
        | .bytes b => .ok (.iface (some (it.bytes, .bytes (some b)))) rest 1
        | .bool b => .ok (.iface (some (it.bool, .bool b))) rest 1
        | .int i => .ok (.iface (some (it.int, .int i))) rest 1
        | .uint n =>
          if n < two63 then .ok (.iface (some (it.int, .int n))) rest 1
          else .ok (.iface (some (it.uint64, .uint n))) rest 1
        | .float f => .ok (.iface (some (it.f64, .float f))) rest 1 := by
  rw [unmWild.eq_def]
  simp only [bind'_zero_eq]
  rfl

theorem unmElems_cons (fuel e cap acc t rest) : unmElems ts a trs it (fuel+1) e cap acc (t :: rest) =
      match t.body with
      | .mapClose => .err 0
      | .arrClose => .ok (.slice (some acc.reverse)) rest 1
      | _ =>
        if capFull cap acc then .err 0
        else (unmV ts a trs it fuel e (zeroVal ts 64 e) (t :: rest)).bind' (fun v r u => (unmElems ts a trs it fuel e cap (v :: acc) r).shift u) 0 := by
  rw [unmElems.eq_def, bind'_zero_eq]
  rfl

def mapKey (trs : Trs) (kf : Option Nat) (s : Bytes) : Option Val :=
  match kf with
  | none => some (.str s)
  | some fn => trs.u fn (.str s)

theorem unmMapEntries_cons (fuel kf vt es t rest) : unmMapEntries ts a trs it (fuel+1) kf vt es (t :: rest) =
      match t.body with
      | .mapClose => .ok (.map (some es)) rest 1
      | .str s =>
        (match mapKey trs kf s with
         | none => .err 0
         | some k =>
           if hasKey k es then .err 0
           else (unmV ts a trs it fuel vt (zeroVal ts 64 vt) rest).bind'
                  (fun v r u => (unmMapEntries ts a trs it fuel kf vt (es ++ [(k, v)]) r).shift (u + 1)) 1)
      | _ => .err 0 := by
  rw [unmMapEntries.eq_def]
  rfl

def structCont (ts : Types) (a : Atlas) (trs : Trs) (it : IfaceTys) (fuel id : Nat) (fields : List SMField) (expectLen : Int) (idx : Nat)
    (cur : Val) (route : List Nat) : Val → List Tok → Nat → URes := fun v r u =>
  match setRoute ts 64 id route cur (fun _ => v) with
  | none => .panic 1
  | some cur' => (unmStruct ts a trs it fuel id fields expectLen (idx + 1) cur' r).shift (u + 1)

theorem unmStruct_cons (fuel id fields expectLen idx cur t rest) :
    unmStruct ts a trs it (fuel+1) id fields expectLen idx cur (t :: rest) =
      match t.body with
      | .mapClose => if expectLen ≥ 0 && expectLen != idx then .err 0 else .ok cur rest 1
      | .str name =>
        (match fields.find? fun f => f.name == name with
         | none => .err 0
         | some f =>
           if f.ignore then
             (match rest with
              | [] => .more 1
              | v :: rest2 =>
                (unmWild ts a trs it fuel false v rest2).bind'
                  (fun _ r u => (unmStruct ts a trs it fuel id fields expectLen (idx + 1) cur r).shift (u + 1)) 1)
           else
             (match rest with
              | [] => .more 1
              | _ =>
                (match getRoute ts 64 id f.route cur with
                 | none => .err 1
                 | some fcur =>
                   (unmV ts a trs it fuel f.ty fcur rest).bind' (structCont ts a trs it fuel id fields expectLen idx cur f.route) 1)))
      | _ => .err 0 := by
  rw [unmStruct.eq_def]
  rfl
end Refmt.Obj
