/-
  Stateful object unmarshaller: `SimB n → SimV (n+1)` (no pointer: the bare machine; pointers: `ptrDeref`).
-/
import RefmtProofs.Lemmas.UnmarshalMachUnionSimP
set_option linter.unusedSimpArgs false
set_option linter.unusedVariables false
namespace Refmt.UMachU
open Refmt Refmt.Obj Refmt.Obj.UM Refmt.UMachL

variable {ts : Types} {a : Atlas} {trs : Trs} {it : IfaceTys}

theorem unmV_succ (n id : Nat) (cur : Val) (t : Tok) (rest : List Tok) :
    unmV ts a trs it (n+1) id cur (t :: rest) =
      if (peel ts 64 0 id).1 = 0 then
        unmBare ts a trs it n (peel ts 64 0 id).2 (upickBare ts a (peel ts 64 0 id).2) cur (t :: rest)
      else
        match t.body with
        | .null => .ok (.ptr none) rest 1
        | _ =>
          mapV (wrapPtr (peel ts 64 0 id).1) (unmBare ts a trs it n (peel ts 64 0 id).2
              (upickBare ts a (peel ts 64 0 id).2) (innerCur ts (peel ts 64 0 id).1 id cur) (t :: rest)) := by
  rcases hpe : peel ts 64 0 id with ⟨p, base⟩
  by_cases h0 : p = 0
  · simp [unmV, hpe, h0]
  · simp only [unmV, hpe, h0]
    cases t.body <;> simp [h0, mapV] <;>
      cases unmBare ts a trs it n base (upickBare ts a base) (innerCur ts p id cur) (t :: rest) <;> rfl

theorem CfgLeaf.leaf {row : URow} {base : Nat} {k : MK} {M : UMach} (h : CfgLeaf row base k M) :
    k ≠ .ptr ∧ k ≠ .transform := by
  cases M <;> simp_all [CfgLeaf]

/-- `Reset` of a configured bare machine keeps the rows below its own and the pointer machine of its row -/
theorem cfg_frame {row : URow} {base : Nat} {k : MK} {M : UMach} {lo : List URow} (h : CfgBare ts a row base k M) :
    ∀ f rt v (rowx : URow) hi R1, rowx.transform = row.transform →
      resetM ts a f ⟨lo.length, k⟩ rt v (lo ++ rowx :: hi) = .ok R1 →
      ∃ row3 hi3, R1 = lo ++ row3 :: hi3 ∧ row3.ptr = rowx.ptr := by
  intro f rt v rowx hi R1 htr hr
  cases M with
  | wildcard =>
    obtain rfl : k = .wild := h
    obtain ⟨r3, h3, e1, e2, _⟩ := reset_frame (by simp) (by simp) hr
    exact ⟨r3, h3, e1, e2⟩
  | transform fn uty =>
    obtain ⟨rfl, _, _, k', hdl, hl⟩ := h
    obtain ⟨hk, hk2⟩ := hl.leaf
    obtain ⟨r3, h3, e1, e2, _⟩ := reset_frame_tr (by rw [htr]; exact hdl) hk hk2 hr
    exact ⟨r3, h3, e1, e2⟩
  | union ms =>
    obtain ⟨rfl, _⟩ := h
    obtain ⟨r3, h3, e1, e2, _⟩ := reset_frame (by simp) (by simp) hr
    exact ⟨r3, h3, e1, e2⟩
  | _ =>
    simp only [CfgBare] at h
    obtain ⟨hk, hk2⟩ := h.leaf
    obtain ⟨r3, h3, e1, e2, _⟩ := reset_frame hk hk2 hr
    exact ⟨r3, h3, e1, e2⟩

/-- the row after the pointer machine's Reset (`b = true`) and after its first step (`b = false`) -/
def rowP (row : URow) (cur : Val) (id : Nat) (b : Bool) : URow :=
  { row with ptr := { row.ptr with ptr_rv := cur, ptr_rt := id, firstStep := b } }

theorem rtp_ptr {fr sf1 sf : Nat} {lo hi : List URow} {row : URow} {stk be} {id : Nat} {cur : Val} {t : Tok}
    {rest : List Tok} :
    rtp ts a trs it (fr+1) sf1 sf (lo ++ row :: hi) stk be ⟨lo.length, .ptr⟩ id cur (t :: rest)
    = pump1 ts a trs it sf1 sf
        ⟨lo ++ rowP row cur id true :: hi, stk, some ⟨lo.length, .ptr⟩, be⟩ (t :: rest) := by
  simp only [rtp, resetM, resetBody, getRow, resetPtr, updRow_at, rowP]

theorem ptr_first' {g sf : Nat} {lo hi : List URow} {row1 row2 : URow} {stk be} {k : MK} {t : Tok} {rest : List Tok}
    {id pc : Nat} {cur : Val}
    (hm : row1.ptr.mach = some k) (hf : row1.ptr.firstStep = true)
    (hframe : ∀ f rt v (rowx : URow) hi R1, rowx.transform = row1.transform →
      resetM ts a f ⟨lo.length, k⟩ rt v (lo ++ rowx :: hi) = .ok R1 →
      ∃ row3 hi3, R1 = lo ++ row3 :: hi3 ∧ row3.ptr = rowx.ptr)
    (hnull : t.body ≠ .null) (h1 : row1.ptr.ptr_rt = id) (h2 : row1.ptr.ptr_rv = cur) (h3 : row1.ptr.peelCount = pc)
    (h4 : row2 = { row1 with ptr := { row1.ptr with firstStep := false } }) :
    pump1 ts a trs it (g+3) sf ⟨lo ++ row1 :: hi, stk, some ⟨lo.length, .ptr⟩, be⟩ (t :: rest)
    = rtpB ts a trs it (g+1) (g+3) sf (lo ++ row2 :: hi) stk be
        ⟨lo.length, .ptr⟩ ⟨lo.length, k⟩ (peel ts 64 0 id).2 (innerCur ts pc id cur) (t :: rest) := by
  subst h1 h2 h3 h4
  exact ptr_first hm hf hframe hnull

theorem ptr_null {g sf : Nat} {lo hi : List URow} {row1 : URow} {stk be} {k : MK} {t : Tok} {rest : List Tok}
    (hm : row1.ptr.mach = some k) (hf : row1.ptr.firstStep = true) (hnull : t.body = .null) :
    pump1 ts a trs it (g+3) sf ⟨lo ++ row1 :: hi, stk, some ⟨lo.length, .ptr⟩, be⟩ (t :: rest)
    = kont ts a trs it (g+2) sf be stk (.ptr none)
        (lo ++ { row1 with ptr := { row1.ptr with firstStep := false } } :: hi) rest := by
  apply pump1_done (c' := some ⟨lo.length, .ptr⟩)
  show stepBody ts a trs it (g+1) (stepM ts a trs it (g+1)) (recurse ts a trs it (g+1)) _ _ t = _
  simp only [stepBody, getRow, stepPtr, hm, hf, if_true, UState.upd, updRow_at, hnull, fin]

theorem simV_succ {S : List Nat} {wi : Option Nat} {n : Nat} (hS : Closed ts a S wi) (hB : SimB ts a trs it S wi n) :
    SimV ts a trs it S (n+1) := by
  intro id hid cur lo row hi stk be ck toks fr sf1 sf hcfg hfr hsf1 hsf
  cases toks with
  | nil => simp [unmV, rtp, Agree]
  | cons t rest =>
    obtain ⟨k, hb, hp⟩ := hcfg
    have hok := hS id hid
    rw [unmV_succ]
    by_cases h0 : (peel ts 64 0 id).1 = 0
    · have hbase := peel_zero h0
      simp only [h0, if_true] at hp ⊢
      subst hp
      rw [hbase] at hb hok ⊢
      rw [rtp_eq]
      exact hB id hok cur lo row hi stk be ⟨lo.length, ck⟩ ck _root_.id 0 (t :: rest) fr sf1 sf hb (WrP.refl lo row ck) (by omega)
        (by omega) hsf
    · simp only [h0, if_false] at hp ⊢
      obtain ⟨rfl, hm, hpc⟩ := hp
      obtain ⟨fr', rfl⟩ : ∃ f, fr = f + 1 := ⟨fr - 1, by omega⟩
      obtain ⟨g, rfl⟩ : ∃ g, sf1 = g + 3 := ⟨sf1 - 3, by omega⟩
      rw [rtp_ptr]
      have hsame : SameCfgC row (rowP row cur id false) := ⟨rfl, rfl, rfl, rfl, rfl, rfl, rfl, rfl, rfl, rfl⟩
      by_cases hnull : t.body = .null
      · rw [ptr_null (row1 := rowP row cur id true) hm rfl hnull]
        simp only [hnull]
        exact ⟨Nat.le_refl 1, rowP row cur id false, hi, g + 2, Keep.ofC hsame, by omega, by simp; rfl⟩
      · rw [ptr_first' (row1 := rowP row cur id true) (row2 := rowP row cur id false)
          hm rfl (cfg_frame hb) hnull rfl rfl hpc rfl]
        have hw : WrP ⟨lo.length, .ptr⟩ lo (rowP row cur id false) k (wrapPtr (peel ts 64 0 id).1 ∘ _root_.id) 1 := by
          have := WrP.ptrS (lo := lo) (row := rowP row cur id false) hm rfl
          rw [show (rowP row cur id false).ptr.peelCount = (peel ts 64 0 id).1 from hpc] at this
          exact this
        have hA := hB _ hok (innerCur ts (peel ts 64 0 id).1 id cur) lo (rowP row cur id false) hi stk be ⟨lo.length, .ptr⟩ k _ 1
          (t :: rest) (g + 1) (g + 3) sf (hb.sameC hsame) hw (by omega) (by omega) hsf
        have hA' := hA.toV (row0 := row) hsame
        have hnb : ∀ (A B : URes), (match t.body with | .null => A | _ => B) = B := by
          intro A B; split <;> simp_all
        rw [hnb]
        exact hA'

end Refmt.UMachU
