/-
  C06 support: reader consumption facts, per-step consumption / allocation bounds of the CBOR decoder
  machine, per-step consumption of the JSON decoder machine, fuel monotonicity of both `run`s.
-/
import RefmtModel
set_option linter.unusedSimpArgs false
set_option linter.unusedVariables false
namespace Refmt.C06
open Refmt

/-! ### Reader: the number of undelivered bytes never grows on reads -/

theorem afterFault_data (r : Rd) : r.afterFault.data = r.data := by
  unfold Rd.afterFault
  split <;> rfl

theorem read1_ok_len {r : Rd} {b : Nat} {r1 r2 : Rd} (h : r.read1 = (.ok (b, r1), r2)) :
    r1.data.length + 1 = r.data.length := by
  unfold Rd.read1 at h
  split at h
  · simp at h
  · split at h
    · simp at h
    · rename_i b' rest hd
      simp only [Prod.mk.injEq, Except.ok.injEq] at h
      obtain ⟨⟨_, h1⟩, _⟩ := h
      subst h1
      simp [hd]

theorem read1_err_len {r : Rd} {e : Err} {r' : Rd} (h : r.read1 = (.error e, r')) :
    r'.data.length ≤ r.data.length := by
  unfold Rd.read1 at h
  split at h
  · simp only [Prod.mk.injEq] at h
    rw [← h.2, afterFault_data]; exact Nat.le_refl _
  · split at h
    · simp only [Prod.mk.injEq] at h
      rw [← h.2]; exact Nat.le_refl _
    · simp at h

theorem readN_ok_len {r : Rd} {n : Nat} {bs : Bytes} {r' : Rd} (h : r.readN n = (.ok bs, r')) :
    r'.data.length + n = r.data.length ∧ bs.length = n := by
  unfold Rd.readN at h
  by_cases h0 : n = 0
  · rw [if_pos h0] at h
    simp only [Prod.mk.injEq, Except.ok.injEq] at h
    obtain ⟨h1, h2⟩ := h
    subst h0 h1 h2
    simp
  · rw [if_neg h0] at h
    dsimp only at h
    cases hf : r.fault with
    | none =>
      rw [hf] at h
      dsimp only at h
      by_cases hle : n ≤ r.data.length
      · rw [if_pos hle] at h
        simp only [Prod.mk.injEq, Except.ok.injEq] at h
        obtain ⟨h1, h2⟩ := h
        subst h1 h2
        simp only [List.length_drop, List.length_take]
        omega
      · rw [if_neg hle] at h
        simp at h
    | some p =>
      obtain ⟨k, s⟩ := p
      rw [hf] at h
      dsimp only at h
      by_cases hle : n ≤ min k r.data.length
      · rw [if_pos hle] at h
        simp only [Prod.mk.injEq, Except.ok.injEq] at h
        obtain ⟨h1, h2⟩ := h
        subst h1 h2
        have : n ≤ r.data.length := Nat.le_trans hle (Nat.min_le_right _ _)
        simp only [List.length_drop, List.length_take]
        omega
      · rw [if_neg hle] at h
        split at h <;> simp at h

theorem readN_err_len {r : Rd} {n : Nat} {e : Err} {r' : Rd} (h : r.readN n = (.error e, r')) :
    r'.data.length ≤ r.data.length := by
  unfold Rd.readN at h
  by_cases h0 : n = 0
  · rw [if_pos h0] at h
    simp at h
  · rw [if_neg h0] at h
    dsimp only at h
    cases hf : r.fault with
    | none =>
      rw [hf] at h
      dsimp only at h
      by_cases hle : n ≤ r.data.length
      · rw [if_pos hle] at h
        simp at h
      · rw [if_neg hle] at h
        simp only [Prod.mk.injEq] at h
        rw [← h.2]; simp
    | some p =>
      obtain ⟨k, s⟩ := p
      rw [hf] at h
      dsimp only at h
      by_cases hle : n ≤ min k r.data.length
      · rw [if_pos hle] at h
        simp at h
      · rw [if_neg hle] at h
        split at h
        · simp only [Prod.mk.injEq] at h
          rw [← h.2, afterFault_data]
          simp only [List.length_drop]; omega
        · simp only [Prod.mk.injEq] at h
          rw [← h.2]; simp

/-- use the last (anonymous) hypothesis as a reader equation, if it is one -/
macro "rdfact" : tactic => `(tactic|
  (rename_i hrd
   first
   | have hrd1 := read1_ok_len hrd
   | have hrd1 := read1_err_len hrd
   | have hrd1 := readN_ok_len hrd
   | have hrd1 := readN_err_len hrd
   | skip))

namespace Cbor
open Refmt.CborDec
open Refmt.CborEnc (majUint majNeg majBytes majStr majArr majMap majTag sigFalse sigTrue sigNil sigUndef sigF16 sigF32 sigF64 sigIndefBytes sigIndefStr sigIndefArr sigIndefMap sigBreak)

theorem decUint_len (rd : Rd) (m : Nat) :
    (decUint rd m).rd.data.length ≤ rd.data.length ∧ (decUint rd m).alloc = 0 := by
  unfold decUint
  dsimp only
  split
  · exact ⟨Nat.le_refl _, rfl⟩
  split
  · split <;> rdfact <;> (refine ⟨?_, rfl⟩; dsimp only; omega)
  split
  · split <;> rdfact <;> (refine ⟨?_, rfl⟩; dsimp only; omega)
  split
  · split <;> rdfact <;> (refine ⟨?_, rfl⟩; dsimp only; omega)
  split
  · split <;> rdfact <;> (refine ⟨?_, rfl⟩; dsimp only; omega)
  · exact ⟨Nat.le_refl _, rfl⟩

theorem decLen_len (rd : Rd) (m : Nat) :
    (decLen rd m).rd.data.length ≤ rd.data.length ∧ (decLen rd m).alloc = 0 := by
  have := decUint_len rd m
  unfold decLen
  dsimp only
  split
  · exact ⟨this.1, rfl⟩
  · split <;> exact ⟨this.1, rfl⟩

theorem decNegInt_len (rd : Rd) (m : Nat) :
    (decNegInt rd m).rd.data.length ≤ rd.data.length ∧ (decNegInt rd m).alloc = 0 := by
  have := decUint_len rd m
  unfold decNegInt
  dsimp only
  split
  · exact ⟨this.1, rfl⟩
  · split <;> exact ⟨this.1, rfl⟩

theorem decFloat_len (rd : Rd) (m : Nat) :
    (decFloat rd m).rd.data.length ≤ rd.data.length ∧ (decFloat rd m).alloc = 0 := by
  unfold decFloat
  split
  · split <;> rdfact <;> (refine ⟨?_, rfl⟩; dsimp only; omega)
  split
  · split <;> rdfact <;> (refine ⟨?_, rfl⟩; dsimp only; omega)
  · split <;> rdfact <;> (refine ⟨?_, rfl⟩; dsimp only; omega)

theorem decBytes_len (rd : Rd) (m : Nat) :
    let r := decBytes rd m
    r.rd.data.length ≤ rd.data.length ∧
    (∀ bs, r.res = .ok bs → r.alloc + r.rd.data.length ≤ rd.data.length) ∧
    r.alloc ≤ cap32M := by
  have hl := decLen_len rd m
  unfold decBytes
  dsimp only
  split
  · exact ⟨hl.1, by intro bs h; simp at h, Nat.zero_le _⟩
  · split
    · exact ⟨hl.1, by intro bs h; simp at h, Nat.zero_le _⟩
    · split <;> rdfact
      · refine ⟨by dsimp only; omega, ?_, by dsimp only; omega⟩
        intro bs h; dsimp only; omega
      · refine ⟨by dsimp only; omega, ?_, by dsimp only; omega⟩
        intro bs h; simp at h

theorem decString_len (rd : Rd) (m : Nat) :
    let r := decString rd m
    r.rd.data.length ≤ rd.data.length ∧
    (∀ bs, r.res = .ok bs → r.alloc + 2 * r.rd.data.length ≤ 2 * rd.data.length) ∧
    (∀ e, r.res = .error e → r.alloc ≤ cap32M) := by
  have hl := decLen_len rd m
  unfold decString
  dsimp only
  split
  · exact ⟨hl.1, by intro bs h; simp at h, by intro e h; exact Nat.zero_le _⟩
  · split
    · exact ⟨hl.1, by intro bs h; simp at h, by intro e h; exact Nat.zero_le _⟩
    · split <;> rdfact
      · refine ⟨by dsimp only; omega, ?_, ?_⟩
        · intro bs h; dsimp only; split <;> omega
        · intro e h; simp at h
      · refine ⟨by dsimp only; omega, ?_, ?_⟩
        · intro bs h; simp at h
        · intro e h; dsimp only; split <;> omega

/-- the chunk loop after at least one growth of the buffer.  Ghost parameters: the buffer had capacity `c1`
    and total allocation `a1` when, holding `l1` bytes, a chunk of `n1` bytes made it grow. -/
theorem chunks2 (major : Nat) : ∀ (fuel : Nat) (rd : Rd) (acc : Bytes) (cap alloc k c1 n1 l1 a1 : Nat),
    a1 + 16 ≤ 2 * c1 → a1 ≤ c1 + 2 * l1 → cap = 2 * c1 + n1 → alloc = a1 + cap → l1 + n1 ≤ acc.length →
    c1 < l1 + n1 → n1 ≤ cap32M → acc.length ≤ k →
    (decChunks fuel rd major acc cap alloc).rd.data.length ≤ rd.data.length ∧
    (∀ bs, (decChunks fuel rd major acc cap alloc).res = .ok bs →
      (decChunks fuel rd major acc cap alloc).alloc + bs.length + 8 * (decChunks fuel rd major acc cap alloc).rd.data.length
        ≤ 8 * (rd.data.length + k)) ∧
    ((decChunks fuel rd major acc cap alloc).alloc + 8 * (decChunks fuel rd major acc cap alloc).rd.data.length
        ≤ 8 * (rd.data.length + k) + 2 * cap32M + 64)
  | 0, rd, acc, cap, alloc, k, c1, n1, l1, a1, h1, h2, h3, h4, h5, h6, h7, h8 => by
    simp only [decChunks]
    refine ⟨Nat.le_refl _, by intro bs h; simp at h, ?_⟩
    simp only [cap32M] at *; omega
  | fuel+1, rd, acc, cap, alloc, k, c1, n1, l1, a1, h1, h2, h3, h4, h5, h6, h7, h8 => by
    have ih := chunks2 major fuel
    rw [decChunks]
    split
    · rdfact
      refine ⟨by dsimp only; omega, by intro bs h; simp at h, ?_⟩
      dsimp only; simp only [cap32M] at *; omega
    · rdfact
      split
      · refine ⟨by dsimp only; omega, ?_, ?_⟩
        · intro bs h
          dsimp only at h ⊢
          simp only [Except.ok.injEq] at h
          subst h
          omega
        · dsimp only; simp only [cap32M] at *; omega
      split
      · refine ⟨by dsimp only; omega, by intro bs h; simp at h, ?_⟩
        dsimp only; simp only [cap32M] at *; omega
      dsimp only
      rename_i mb rd1 rdw _ _ _ _
      have hl := (decLen_len rd1 mb).1
      split
      · refine ⟨by dsimp only; omega, by intro bs h; simp at h, ?_⟩
        dsimp only; simp only [cap32M] at *; omega
      split
      · refine ⟨by dsimp only; omega, by intro bs h; simp at h, ?_⟩
        dsimp only; simp only [cap32M] at *; omega
      rename_i n _ hn
      by_cases hg : acc.length + n > cap
      · simp only [hg, if_true]
        split
        · rdfact
          rename_i bs rd' hrd hrd1
          have := ih rd' (acc ++ bs) (2 * cap + n) (alloc + 2 * cap + n) (rd.data.length + k - rd'.data.length)
            cap n acc.length alloc (by omega) (by omega) rfl (by omega) (by simp only [List.length_append]; omega)
            (by omega) (by omega) (by simp only [List.length_append]; omega)
          refine ⟨by omega, ?_, ?_⟩
          · intro bs' h'; have := this.2.1 bs' h'; omega
          · have := this.2.2; omega
        · rdfact
          refine ⟨by dsimp only; omega, by intro bs h; simp at h, ?_⟩
          dsimp only; simp only [cap32M] at *; omega
      · simp only [hg, if_false]
        split
        · rdfact
          rename_i bs rd' hrd hrd1
          have := ih rd' (acc ++ bs) cap alloc (rd.data.length + k - rd'.data.length)
            c1 n1 l1 a1 h1 h2 h3 h4 (by simp only [List.length_append]; omega)
            h6 h7 (by simp only [List.length_append]; omega)
          refine ⟨by omega, ?_, ?_⟩
          · intro bs' h'; have := this.2.1 bs' h'; omega
          · have := this.2.2; omega
        · rdfact
          refine ⟨by dsimp only; omega, by intro bs h; simp at h, ?_⟩
          dsimp only; simp only [cap32M] at *; omega

/-- the chunk loop from its initial 16-byte buffer -/
theorem chunks1 (major : Nat) : ∀ (fuel : Nat) (rd : Rd) (acc : Bytes) (k : Nat), acc.length ≤ k →
    (decChunks fuel rd major acc 16 16).rd.data.length ≤ rd.data.length ∧
    (∀ bs, (decChunks fuel rd major acc 16 16).res = .ok bs →
      (decChunks fuel rd major acc 16 16).alloc + bs.length + 8 * (decChunks fuel rd major acc 16 16).rd.data.length
        ≤ 8 * (rd.data.length + k) + 8) ∧
    ((decChunks fuel rd major acc 16 16).alloc + 8 * (decChunks fuel rd major acc 16 16).rd.data.length
        ≤ 8 * (rd.data.length + k) + 2 * cap32M + 64)
  | 0, rd, acc, k, h8 => by
    simp only [decChunks]
    refine ⟨Nat.le_refl _, by intro bs h; simp at h, ?_⟩
    simp only [cap32M] at *; omega
  | fuel+1, rd, acc, k, h8 => by
    have ih := chunks1 major fuel
    rw [decChunks]
    split
    · rdfact
      refine ⟨by dsimp only; omega, by intro bs h; simp at h, ?_⟩
      dsimp only; simp only [cap32M] at *; omega
    · rdfact
      split
      · refine ⟨by dsimp only; omega, ?_, ?_⟩
        · intro bs h
          dsimp only at h ⊢
          simp only [Except.ok.injEq] at h
          subst h
          omega
        · dsimp only; simp only [cap32M] at *; omega
      split
      · refine ⟨by dsimp only; omega, by intro bs h; simp at h, ?_⟩
        dsimp only; simp only [cap32M] at *; omega
      dsimp only
      rename_i mb rd1 rdw _ _ _ _
      have hl := (decLen_len rd1 mb).1
      split
      · refine ⟨by dsimp only; omega, by intro bs h; simp at h, ?_⟩
        dsimp only; simp only [cap32M] at *; omega
      split
      · refine ⟨by dsimp only; omega, by intro bs h; simp at h, ?_⟩
        dsimp only; simp only [cap32M] at *; omega
      rename_i n _ hn
      by_cases hg : acc.length + n > 16
      · simp only [hg, if_true]
        split
        · rdfact
          rename_i bs rd' hrd hrd1
          have := chunks2 major fuel rd' (acc ++ bs) (2 * 16 + n) (16 + 2 * 16 + n) (rd.data.length + k - rd'.data.length)
            16 n acc.length 16 (by omega) (by omega) rfl (by omega) (by simp only [List.length_append]; omega)
            (by omega) (by omega) (by simp only [List.length_append]; omega)
          refine ⟨by omega, ?_, ?_⟩
          · intro bs' h'; have := this.2.1 bs' h'; omega
          · have := this.2.2; omega
        · rdfact
          refine ⟨by dsimp only; omega, by intro bs h; simp at h, ?_⟩
          dsimp only; simp only [cap32M] at *; omega
      · simp only [hg, if_false]
        split
        · rdfact
          rename_i bs rd' hrd hrd1
          have := ih rd' (acc ++ bs) (rd.data.length + k - rd'.data.length)
            (by simp only [List.length_append]; omega)
          refine ⟨by omega, ?_, ?_⟩
          · intro bs' h'; have := this.2.1 bs' h'; omega
          · have := this.2.2; omega
        · rdfact
          refine ⟨by dsimp only; omega, by intro bs h; simp at h, ?_⟩
          dsimp only; simp only [cap32M] at *; omega

/-- What one helper call may do, relative to the state `s` and reader `rd` it was given:
    it never un-consumes input, opens at most one definite container, and its allocation is paid for by
    the bytes it consumed (`8` per byte, plus `slack`) unless it fails, in which case twice the cap is added. -/
structure OutOK (s : St) (rd : Rd) (o : Out) (slack : Nat) : Prop where
  len : o.rd.data.length ≤ rd.data.length
  left : o.st.left.length ≤ s.left.length + 1
  okAlloc : ∀ t d, o.ret = .tok t d → o.alloc + 8 * o.rd.data.length ≤ 8 * rd.data.length + slack
  alloc : o.alloc + 8 * o.rd.data.length ≤ 8 * rd.data.length + 2 * cap32M + 64 + slack

theorem scalarOut_ok {α : Type} (s : St) (rd : Rd) (r : R α) (mk : α → Body) (tag : Option Int) (slack : Nat)
    (h1 : r.rd.data.length ≤ rd.data.length)
    (h2 : ∀ v, r.res = .ok v → r.alloc + 8 * r.rd.data.length ≤ 8 * rd.data.length + slack)
    (h3 : r.alloc + 8 * r.rd.data.length ≤ 8 * rd.data.length + 2 * cap32M + 64 + slack) :
    OutOK s rd (scalarOut s r mk tag) slack := by
  unfold scalarOut
  split
  · rename_i v hv
    exact ⟨h1, by dsimp only; omega, fun t d _ => h2 v hv, h3⟩
  · exact ⟨h1, by dsimp only; omega, by intro t d h; simp at h, h3⟩

theorem plain_ok (s s' : St) (rd : Rd) (ret : CborDec.Ret) (slack : Nat) (h : s'.left.length ≤ s.left.length + 1) :
    OutOK s rd ⟨s', rd, ret, 0⟩ slack :=
  ⟨Nat.le_refl _, h, by intro t d _; dsimp only; omega, by dsimp only; omega⟩

theorem OutOK.weaken {s : St} {rd rd1 : Rd} {o : Out} (h : OutOK s rd1 o 8)
    (hl : rd1.data.length + 1 ≤ rd.data.length) : OutOK s rd o 8 :=
  ⟨by have := h.len; omega, h.left, by intro t d ht; have := h.okAlloc t d ht; omega, by have := h.alloc; omega⟩

theorem acceptValue_ok_step (coerce : Bool) (fuel : Nat)
    (hrec : ∀ f, fuel = f + 1 → ∀ (s : St) (rd : Rd) (major : Nat) (tag : Option Int),
      OutOK s rd (acceptValue coerce s rd major tag f) 8)
    (s : St) (rd : Rd) (major : Nat) (tag : Option Int) :
    OutOK s rd (acceptValue coerce s rd major tag fuel) 8 := by
  unfold acceptValue
  by_cases c0 : (major == sigNil) = true
  · rw [if_pos c0]
    exact plain_ok _ _ _ _ _ (by omega)
  rw [if_neg c0]
  by_cases c1 : (major == sigUndef) = true
  · rw [if_pos c1]
    split <;> exact plain_ok _ _ _ _ _ (by omega)
  rw [if_neg c1]
  by_cases c2 : (major == sigFalse) = true
  · rw [if_pos c2]
    exact plain_ok _ _ _ _ _ (by omega)
  rw [if_neg c2]
  by_cases c3 : (major == sigTrue) = true
  · rw [if_pos c3]
    exact plain_ok _ _ _ _ _ (by omega)
  rw [if_neg c3]
  by_cases c4 : (major == sigF16 || major == sigF32 || major == sigF64) = true
  · rw [if_pos c4]
    have h := decFloat_len rd major
    exact scalarOut_ok _ _ _ _ _ _ h.1 (by intro v _; omega) (by omega)
  rw [if_neg c4]
  by_cases c5 : (major == sigIndefBytes) = true
  · rw [if_pos c5]
    have h := chunks1 majBytes (rd.data.length + 1) rd [] 0 (Nat.le_refl _)
    refine scalarOut_ok _ _ _ _ _ _ h.1 ?_ (by have := h.2.2; omega)
    intro v hv; have := h.2.1 v hv; omega
  rw [if_neg c5]
  by_cases c6 : (major == sigIndefStr) = true
  · rw [if_pos c6]
    have h := chunks1 majStr (rd.data.length + 1) rd [] 0 (Nat.le_refl _)
    dsimp only
    refine scalarOut_ok _ _ _ _ _ _ h.1 ?_ ?_
    · intro v hv
      dsimp only at hv ⊢
      rw [hv]
      have := h.2.1 v hv
      dsimp only; omega
    · dsimp only
      split
      · rename_i bs hv
        have := h.2.1 bs hv
        omega
      · have := h.2.2; omega
  rw [if_neg c6]
  by_cases c7 : (major == sigIndefArr) = true
  · rw [if_pos c7]
    exact plain_ok _ _ _ _ _ (by simp [push])
  rw [if_neg c7]
  by_cases c8 : (major == sigIndefMap) = true
  · rw [if_pos c8]
    exact plain_ok _ _ _ _ _ (by simp [push])
  rw [if_neg c8]
  by_cases c9 : major < majNeg
  · rw [if_pos c9]
    have h := decUint_len rd major
    exact scalarOut_ok _ _ _ _ _ _ h.1 (by intro v _; omega) (by omega)
  rw [if_neg c9]
  by_cases c10 : major < majBytes
  · rw [if_pos c10]
    have h := decNegInt_len rd major
    exact scalarOut_ok _ _ _ _ _ _ h.1 (by intro v _; omega) (by omega)
  rw [if_neg c10]
  by_cases c11 : major < majStr
  · rw [if_pos c11]
    have h := decBytes_len rd major
    refine scalarOut_ok _ _ _ _ _ _ h.1 ?_ (by have := h.2.2; omega)
    intro v hv; have := h.2.1 v hv; omega
  rw [if_neg c11]
  by_cases c12 : major < majArr
  · rw [if_pos c12]
    have h := decString_len rd major
    refine scalarOut_ok _ _ _ _ _ _ h.1 ?_ ?_
    · intro v hv; have := h.2.1 v hv; omega
    · cases hr : (decString rd major).res with
      | ok v => have := h.2.1 v hr; omega
      | error e => have := h.2.2 e hr; have := h.1; omega
  rw [if_neg c12]
  by_cases c13 : major < majMap
  · rw [if_pos c13]
    have h := decLen_len rd major
    dsimp only
    split
    · exact ⟨h.1, by simp [push], by intro t d _; dsimp only; omega, by dsimp only; omega⟩
    · exact ⟨h.1, by dsimp only; omega, by intro t d _; dsimp only; omega, by dsimp only; omega⟩
  rw [if_neg c13]
  by_cases c14 : major < majTag
  · rw [if_pos c14]
    have h := decLen_len rd major
    dsimp only
    split
    · exact ⟨h.1, by simp [push], by intro t d _; dsimp only; omega, by dsimp only; omega⟩
    · exact ⟨h.1, by dsimp only; omega, by intro t d _; dsimp only; omega, by dsimp only; omega⟩
  rw [if_neg c14]
  by_cases c15 : major < 224
  · rw [if_pos c15]
    split
    · exact plain_ok _ _ _ _ _ (by omega)
    · have h := decLen_len rd major
      dsimp only
      split
      · exact ⟨h.1, by dsimp only; omega, by intro t d _; dsimp only; omega, by dsimp only; omega⟩
      · split
        · rdfact
          exact ⟨by dsimp only; omega, by dsimp only; omega, by intro t d _; dsimp only; omega, by dsimp only; omega⟩
        · rdfact
          split
          · exact ⟨by dsimp only; omega, by dsimp only; omega, by intro t d _; dsimp only; omega, by dsimp only; omega⟩
          · rename_i f
            exact OutOK.weaken (hrec f rfl _ _ _ _) (by omega)
  · rw [if_neg c15]
    exact plain_ok _ _ _ _ _ (by omega)

theorem acceptValue_ok (coerce : Bool) : ∀ (fuel : Nat) (s : St) (rd : Rd) (major : Nat) (tag : Option Int),
    OutOK s rd (acceptValue coerce s rd major tag fuel) 8 := by
  intro fuel
  induction fuel with
  | zero => exact acceptValue_ok_step coerce 0 (by intro f h; omega)
  | succ fuel ih =>
    refine acceptValue_ok_step coerce (fuel + 1) ?_
    intro f h
    have : fuel = f := by omega
    subst this
    exact ih

/-- What one `Step` does: a step that yields a token strictly decreases `2·|undelivered| + |left|`
    and its allocation is paid for by the bytes it consumed; a failing step allocates at most
    twice the cap (+64) beyond that. -/
structure StepOK (s : St) (rd : Rd) (o : Out) : Prop where
  len : o.rd.data.length ≤ rd.data.length
  dec : ∀ t d, o.ret = .tok t d → 2 * o.rd.data.length + o.st.left.length + 1 ≤ 2 * rd.data.length + s.left.length
  okAlloc : ∀ t d, o.ret = .tok t d → o.alloc + 8 * o.rd.data.length ≤ 8 * rd.data.length
  alloc : o.alloc + 8 * o.rd.data.length ≤ 8 * rd.data.length + 2 * cap32M + 64

theorem inContainer_tok (o : Out) (t : Tok) (d : Bool) (h : (inContainer o).ret = .tok t d) :
    ∃ d', o.ret = .tok t d' := by
  unfold inContainer at h
  split at h
  · rename_i t' d' ht
    simp only [Ret.tok.injEq] at h
    exact ⟨d', by rw [ht, h.1]⟩
  · rename_i e he
    rw [he] at h; simp at h

theorem inContainer_st (o : Out) : (inContainer o).st = o.st ∧ (inContainer o).rd = o.rd ∧ (inContainer o).alloc = o.alloc := by
  unfold inContainer
  split <;> exact ⟨rfl, rfl, rfl⟩

theorem av_step (coerce : Bool) (s s' : St) (rd rd1 : Rd) (mb : Nat) (hs : s'.left.length ≤ s.left.length)
    (h1 : rd1.data.length + 1 = rd.data.length) :
    StepOK s rd (acceptValue coerce s' rd1 mb none 1) ∧ StepOK s rd (inContainer (acceptValue coerce s' rd1 mb none 1)) := by
  have h := acceptValue_ok coerce 1 s' rd1 mb none
  have h0 : StepOK s rd (acceptValue coerce s' rd1 mb none 1) :=
    ⟨by have := h.len; omega, by intro t d _; have := h.len; have := h.left; omega,
     by intro t d ht; have := h.okAlloc t d ht; omega, by have := h.alloc; omega⟩
  refine ⟨h0, ?_⟩
  obtain ⟨e1, e2, e3⟩ := inContainer_st (acceptValue coerce s' rd1 mb none 1)
  refine ⟨by rw [e2]; exact h0.len, ?_, ?_, by rw [e2, e3]; exact h0.alloc⟩
  · intro t d ht
    obtain ⟨d', hd'⟩ := inContainer_tok _ _ _ ht
    rw [e1, e2]; exact h0.dec t d' hd'
  · intro t d ht
    obtain ⟨d', hd'⟩ := inContainer_tok _ _ _ ht
    rw [e2, e3]; exact h0.okAlloc t d' hd'

theorem err_step (s s' : St) (rd rd' : Rd) (e : Err) (h : rd'.data.length ≤ rd.data.length) :
    StepOK s rd ⟨s', rd', .err e, 0⟩ :=
  ⟨h, by intro t d ht; simp at ht, by intro t d ht; simp at ht, by dsimp only; omega⟩

theorem tok_step (s s' : St) (rd rd' : Rd) (t : Tok) (d : Bool)
    (h : 2 * rd'.data.length + s'.left.length + 1 ≤ 2 * rd.data.length + s.left.length)
    (h' : rd'.data.length ≤ rd.data.length) :
    StepOK s rd ⟨s', rd', .tok t d, 0⟩ :=
  ⟨h', by intro _ _ _; exact h, by intro _ _ _; dsimp only; omega, by dsimp only; omega⟩

theorem subStep_ok (coerce : Bool) (s : St) (rd : Rd) : StepOK s rd (subStep coerce s rd) := by
  unfold subStep
  split
  · unfold withMajor
    split <;> rdfact
    · exact err_step _ _ _ _ _ (by omega)
    · exact (av_step coerce s s rd _ _ (Nat.le_refl _) (by omega)).1
  · unfold withMajor
    split <;> rdfact
    · exact err_step _ _ _ _ _ (by omega)
    · dsimp only
      split
      · exact tok_step _ _ _ _ _ _ (by omega) (by omega)
      · exact (av_step coerce s s rd _ _ (Nat.le_refl _) (by omega)).2
  · unfold withMajor
    split <;> rdfact
    · exact err_step _ _ _ _ _ (by omega)
    · dsimp only
      split
      · exact tok_step _ _ _ _ _ _ (by omega) (by omega)
      · exact (av_step coerce s _ rd _ _ (by exact Nat.le_refl _) (by omega)).2
  · unfold withMajor
    split <;> rdfact
    · exact err_step _ _ _ _ _ (by omega)
    · dsimp only
      split
      · exact err_step _ _ _ _ _ (by omega)
      · exact (av_step coerce s _ rd _ _ (by exact Nat.le_refl _) (by omega)).2
  · split
    · exact err_step _ _ _ _ _ (Nat.le_refl _)
    · rename_i l hl
      exact tok_step _ _ _ _ _ _ (by rw [hl]; simp only [List.length_cons]; omega) (Nat.le_refl _)
    · rename_i n l hl
      unfold withMajor
      dsimp only
      split <;> rdfact
      · exact err_step _ _ _ _ _ (by omega)
      · exact (av_step coerce s _ rd _ _ (by rw [hl]; simp) (by omega)).2
  · split
    · exact err_step _ _ _ _ _ (Nat.le_refl _)
    · rename_i l hl
      exact tok_step _ _ _ _ _ _ (by rw [hl]; simp only [List.length_cons]; omega) (Nat.le_refl _)
    · rename_i n l hl
      unfold withMajor
      dsimp only
      split <;> rdfact
      · exact err_step _ _ _ _ _ (by omega)
      · exact (av_step coerce s _ rd _ _ (by rw [hl]; simp) (by omega)).2
  · unfold withMajor
    split <;> rdfact
    · exact err_step _ _ _ _ _ (by omega)
    · dsimp only
      exact (av_step coerce s _ rd _ _ (by exact Nat.le_refl _) (by omega)).2

theorem step_ok (coerce : Bool) (s : St) (rd : Rd) : StepOK s rd (step coerce s rd) := by
  have h := subStep_ok coerce s rd
  unfold step
  dsimp only
  split
  · exact h
  · exact h
  · rename_i t ht
    split
    · exact h
    · exact h
    · refine ⟨h.len, ?_, ?_, h.alloc⟩
      · intro t' d' _; exact h.dec t true ht
      · intro t' d' _; exact h.okAlloc t true ht

/-- one step per unit of fuel -/
theorem run_steps (coerce : Bool) : ∀ (fuel : Nat) (s : St) (rd : Rd) (acc : List Tok) (steps alloc : Nat),
    (run coerce fuel s rd acc steps alloc).steps ≤ steps + fuel
  | 0, s, rd, acc, steps, alloc => by simp [run]
  | fuel+1, s, rd, acc, steps, alloc => by
    rw [run]
    split
    · dsimp only; omega
    · dsimp only; omega
    · rename_i t ht
      have := run_steps coerce fuel (step coerce s rd).st (step coerce s rd).rd (t :: acc) (steps + 1)
        (alloc + (step coerce s rd).alloc)
      omega

/-- allocation of a whole run -/
theorem run_alloc (coerce : Bool) : ∀ (fuel : Nat) (s : St) (rd : Rd) (acc : List Tok) (steps alloc : Nat),
    (run coerce fuel s rd acc steps alloc).alloc + 8 * (run coerce fuel s rd acc steps alloc).rd.data.length
      ≤ alloc + 8 * rd.data.length + 2 * cap32M + 64
  | 0, s, rd, acc, steps, alloc => by simp [run]; omega
  | fuel+1, s, rd, acc, steps, alloc => by
    have h := step_ok coerce s rd
    rw [run]
    split
    · have := h.alloc; dsimp only; omega
    · have := h.alloc; dsimp only; omega
    · rename_i t ht
      have h1 := h.okAlloc t false ht
      have := run_alloc coerce fuel (step coerce s rd).st (step coerce s rd).rd (t :: acc) (steps + 1)
        (alloc + (step coerce s rd).alloc)
      omega

/-- once the fuel exceeds the measure `2·|undelivered| + |left|`, more fuel changes nothing -/
theorem run_fuel (coerce : Bool) (k : Nat) : ∀ (fuel : Nat) (s : St) (rd : Rd) (acc : List Tok) (steps alloc : Nat),
    2 * rd.data.length + s.left.length < fuel →
    run coerce (fuel + k) s rd acc steps alloc = run coerce fuel s rd acc steps alloc
  | 0, s, rd, acc, steps, alloc, hm => by omega
  | fuel+1, s, rd, acc, steps, alloc, hm => by
    have h := step_ok coerce s rd
    rw [show fuel + 1 + k = (fuel + k) + 1 by omega, run, run]
    split
    · rfl
    · rfl
    · rename_i t ht
      have h1 := h.dec t false ht
      exact run_fuel coerce k fuel _ _ _ _ _ (by omega)

end Cbor

/-- like `rdfact`, finding the reader equation by its shape -/
macro "rdfind" : tactic => `(tactic|
  first
   | have hrd1 := read1_ok_len ‹Rd.read1 _ = (Except.ok (_, _), _)›
   | have hrd1 := read1_err_len ‹Rd.read1 _ = (Except.error _, _)›
   | have hrd1 := readN_ok_len ‹Rd.readN _ _ = (Except.ok _, _)›
   | have hrd1 := readN_err_len ‹Rd.readN _ _ = (Except.error _, _)›)

namespace Json
open Refmt.JsonDec

theorem skipWs_ok : ∀ (fuel : Nat) (rd : Rd) (b : Nat) (rd1 r2 : Rd),
    skipWs fuel rd = (.ok (b, rd1), r2) → rd1.data.length + 1 ≤ rd.data.length := by
  intro fuel
  induction fuel with
  | zero => intro rd b rd1 r2 h; simp [skipWs] at h
  | succ fuel skipWs_ok =>
    intro rd b rd1 r2 h
    rw [skipWs] at h
    split at h
    · simp at h
    · rdfind
      split at h
      · have := skipWs_ok _ _ _ _ h; omega
      · simp only [Prod.mk.injEq, Except.ok.injEq] at h
        obtain ⟨⟨_, h2⟩, _⟩ := h
        subst h2; omega

theorem scanString_ok : ∀ (fuel : Nat) (st : SS) (rd : Rd) (acc raw : Bytes) (rd1 r2 : Rd),
    scanString fuel st rd acc = (.ok (raw, rd1), r2) → rd1.data.length ≤ rd.data.length := by
  intro fuel
  induction fuel with
  | zero => intro st rd acc raw rd1 r2 h; simp [scanString] at h
  | succ fuel scanString_ok =>
    intro st rd acc raw rd1 r2 h
    rw [scanString] at h
    split at h
    · simp at h
    · rdfind
      split at h
      · simp at h
      · simp only [Prod.mk.injEq, Except.ok.injEq] at h
        obtain ⟨⟨_, h2⟩, _⟩ := h
        subst h2; omega
      · have := scanString_ok _ _ _ _ _ _ h; omega

theorem decString_ok (rd : Rd) (str : Bytes) (rd1 r2 : Rd) (h : decString rd = (.ok (str, rd1), r2)) :
    rd1.data.length ≤ rd.data.length := by
  unfold decString at h
  split at h
  · simp at h
  · rename_i raw rd1' _ hs
    have := scanString_ok _ _ _ _ _ _ _ hs
    simp only [Prod.mk.injEq, Except.ok.injEq] at h
    obtain ⟨⟨_, h2⟩, _⟩ := h
    subst h2; exact this

theorem scanNumber_ok : ∀ (fuel : Nat) (st : NS) (rd : Rd) (acc text : Bytes) (rd1 r2 : Rd),
    scanNumber fuel st rd acc = (.ok (text, rd1), r2) → rd1.data.length ≤ rd.data.length := by
  intro fuel
  induction fuel with
  | zero => intro st rd acc text rd1 r2 h; simp [scanNumber] at h
  | succ fuel scanNumber_ok =>
    intro st rd acc text rd1 r2 h
    rw [scanNumber] at h
    split at h
    · rdfind
      split at h
      · simp at h
      · simp only [Prod.mk.injEq, Except.ok.injEq] at h
        obtain ⟨⟨_, h2⟩, _⟩ := h
        subst h2; omega
    · simp at h
    · rdfind
      split at h
      · simp at h
      · simp only [Prod.mk.injEq, Except.ok.injEq] at h
        obtain ⟨⟨_, h2⟩, _⟩ := h
        subst h2
        simp only [Rd.unread1, List.length_cons]; omega
      · have := scanNumber_ok _ _ _ _ _ _ h; omega

theorem decNumber_ok (rd : Rd) (b0 : Nat) (b : Body) (rd1 r2 : Rd) (h : decNumber rd b0 = (.ok (b, rd1), r2)) :
    rd1.data.length ≤ rd.data.length := by
  unfold decNumber at h
  dsimp only at h
  split at h
  · simp at h
  · rename_i text rd1' _ hs
    have := scanNumber_ok _ _ _ _ _ _ _ hs
    split at h
    · simp only [Prod.mk.injEq, Except.ok.injEq] at h
      obtain ⟨⟨_, h2⟩, _⟩ := h
      subst h2; exact this
    · simp at h

/-- a helper that yields a token has not un-consumed input -/
def TokLe (rd : Rd) (o : Out) : Prop := ∀ t d, o.ret = .tok t d → o.rd.data.length ≤ rd.data.length

theorem tokLe_err (rd : Rd) (s : St) (rd' : Rd) (e : Err) : TokLe rd ⟨s, rd', .err e⟩ := by
  intro t d h; simp at h

theorem literal_ok (s : St) (rd : Rd) (rest : Bytes) (b : Body) : TokLe rd (literal s rd rest b) := by
  unfold literal
  split
  · exact tokLe_err _ _ _ _
  · exact tokLe_err _ _ _ _
  · rdfind
    split
    · intro t d _; dsimp only; omega
    · exact tokLe_err _ _ _ _

theorem acceptValue_ok (s : St) (rd : Rd) (mb : Nat) : TokLe rd (acceptValue s rd mb) := by
  unfold acceptValue
  split
  · intro t d _; exact Nat.le_refl _
  split
  · intro t d _; exact Nat.le_refl _
  split
  · exact literal_ok _ _ _ _
  split
  · split
    · rename_i h
      have := decString_ok _ _ _ _ h
      intro t d _; exact this
    · exact tokLe_err _ _ _ _
  split
  · exact literal_ok _ _ _ _
  split
  · exact literal_ok _ _ _ _
  split
  · split
    · rename_i h
      have := decNumber_ok _ _ _ _ _ h
      intro t d _; exact this
    · exact tokLe_err _ _ _ _
  · exact tokLe_err _ _ _ _

theorem inContainer_ok (rd : Rd) (o : Out) (h : TokLe rd o) : TokLe rd (inContainer o) := by
  unfold inContainer
  split
  · rename_i t d ht
    intro t' d' _; exact h t d ht
  · exact h

theorem arrEntry_ok (s : St) (rd : Rd) (mb : Nat) : TokLe rd (arrEntry s rd mb) := by
  unfold arrEntry
  split
  · intro t d _; exact Nat.le_refl _
  · exact inContainer_ok _ _ (acceptValue_ok _ _ _)

theorem mapEntry_ok (s : St) (rd : Rd) (mb : Nat) : TokLe rd (mapEntry s rd mb) := by
  unfold mapEntry
  split
  · intro t d _; exact Nat.le_refl _
  split
  · exact tokLe_err _ _ _ _
  split
  · exact tokLe_err _ _ _ _
  · rename_i h
    have h1 := decString_ok _ _ _ _ h
    split
    · exact tokLe_err _ _ _ _
    · rename_i h'
      have h2 := skipWs_ok _ _ _ _ _ h'
      split
      · exact tokLe_err _ _ _ _
      · intro t d _; dsimp only; omega

theorem afterSome_ok (s : St) (rd : Rd) (mb close : Nat) (ct : Body) (entry : St → Rd → Nat → Out)
    (he : ∀ s rd mb, TokLe rd (entry s rd mb)) : TokLe rd (afterSome s rd mb close ct entry) := by
  unfold afterSome
  split
  · split
    · intro t d _; exact Nat.le_refl _
    split
    · split
      · exact tokLe_err _ _ _ _
      · rename_i h'
        have h2 := skipWs_ok _ _ _ _ _ h'
        intro t d ht
        have := he _ _ _ t d ht
        omega
    · exact tokLe_err _ _ _ _
  · exact he _ _ _

/-- every step that yields a token consumes at least one byte -/
theorem subStep_ok (s : St) (rd : Rd) (t : Tok) (d : Bool) (h : (subStep s rd).ret = .tok t d) :
    (subStep s rd).rd.data.length + 1 ≤ rd.data.length := by
  unfold subStep at h ⊢
  split at h
  · simp at h
  · rename_i mb rd1 _ hs
    have h1 := skipWs_ok _ _ _ _ _ hs
    split at h
    · have := acceptValue_ok _ _ _ t d h; omega
    · have := afterSome_ok _ _ _ _ _ _ arrEntry_ok t d h; omega
    · have := afterSome_ok _ _ _ _ _ _ mapEntry_ok t d h; omega
    · have := inContainer_ok _ _ (acceptValue_ok _ _ _) t d h; omega

theorem step_ok (s : St) (rd : Rd) (t : Tok) (d : Bool) (h : (step s rd).ret = .tok t d) :
    (step s rd).rd.data.length + 1 ≤ rd.data.length := by
  unfold step at h ⊢
  dsimp only at h ⊢
  split at h
  · rename_i e he
    rw [he] at h; simp at h
  · rename_i t' ht
    exact subStep_ok s rd t' false ht
  · rename_i t' ht
    have := subStep_ok s rd t' true ht
    split <;> exact this

/-- one step per unit of fuel -/
theorem run_steps : ∀ (fuel : Nat) (s : St) (rd : Rd) (acc : List Tok) (steps : Nat),
    (run fuel s rd acc steps).steps ≤ steps + fuel
  | 0, s, rd, acc, steps => by simp [run]
  | fuel+1, s, rd, acc, steps => by
    rw [run]
    split
    · dsimp only; omega
    · dsimp only; omega
    · rename_i t ht
      have := run_steps fuel (step s rd).st (step s rd).rd (t :: acc) (steps + 1)
      omega

/-- once the fuel exceeds the number of undelivered bytes, more fuel changes nothing -/
theorem run_fuel (k : Nat) : ∀ (fuel : Nat) (s : St) (rd : Rd) (acc : List Tok) (steps : Nat),
    rd.data.length < fuel → run (fuel + k) s rd acc steps = run fuel s rd acc steps
  | 0, s, rd, acc, steps, hm => by omega
  | fuel+1, s, rd, acc, steps, hm => by
    rw [show fuel + 1 + k = (fuel + k) + 1 by omega, run, run]
    split
    · rfl
    · rfl
    · rename_i t ht
      have h1 := step_ok s rd t false ht
      exact run_fuel k fuel _ _ _ _ (by omega)

end Json

end Refmt.C06
