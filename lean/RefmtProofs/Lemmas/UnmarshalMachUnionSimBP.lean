/-
  Stateful object unmarshaller: the primitive machine and the error thunk  ~  `unmBare … .prim / .errThunk`.
-/
import RefmtProofs.Lemmas.UnmarshalMachUnionSimBS
set_option linter.unusedSimpArgs false
set_option linter.unusedVariables false
namespace Refmt.UMachU
open Refmt Refmt.Obj Refmt.Obj.UM Refmt.UMachL

variable {ts : Types} {a : Atlas} {trs : Trs} {it : IfaceTys}

/-- the row after the primitive machine's `Reset` -/
def rowPr (row : URow) (cur : Val) : URow := { row with prim := { row.prim with rv := cur } }

theorem prim_reset {f : Nat} {lo hi : List URow} {row : URow} {rt : Nat} {v : Val} :
    resetM ts a (f+1) ⟨lo.length, .prim⟩ rt v (lo ++ row :: hi) = .ok (lo ++ rowPr row v :: hi) := by
  simp only [resetM, resetBody, getRow, resetPrim, updRow_at]
  rfl

theorem prim_step {f : Nat} {lo hi : List URow} {row : URow} {stk st be} {t : Tok}
    (hk : row.prim.anyKind = false) :
    stepM ts a trs it (f+1) ⟨lo.length, .prim⟩ ⟨lo ++ row :: hi, stk, st, be⟩ t
      = match storePrim (ts.get row.prim.ty) t with
        | some v => .ok ⟨some v, ⟨lo ++ row :: hi, stk, st, be⟩⟩
        | none => .error (.f .err) := by
  simp only [stepM, stepBody, getRow, stepPrim, hk]
  cases storePrim (ts.get row.prim.ty) t <;> rfl

theorem simB_prim {n : Nat} {base : Nat}
    (cur : Val) (lo : List URow) (row : URow) (hi : List URow) (stk : List URef) (be : Option XFail) (c : URef)
    (F : Val → Option Val) (w : Val → Val) (d : Nat) (toks : List Tok) (fr sf1 sf : Nat) (hty : row.prim.ty = base)
    (hak : row.prim.anyKind = false)
    {un : Option Nat} (hw : Wr trs.u c lo row .prim F w d un) (hd : d ≤ 3) (hfr : 6 ≤ fr) (hsf1 : 10 ≤ sf1) (hsf : 17 ≤ sf) :
    Agree ts a trs it none un c sf be stk lo row F w
      (rtpB ts a trs it fr sf1 sf (lo ++ row :: hi) stk be c ⟨lo.length, .prim⟩ base cur toks)
      (unmBare ts a trs it (n+1) base .prim cur toks) := by
  cases toks with
  | nil => simp [rtpB, unmBare, Agree]
  | cons t rest =>
    obtain ⟨f, rfl⟩ : ∃ f, fr = f + 1 := ⟨fr - 1, by omega⟩
    obtain ⟨g, rfl⟩ : ∃ g, sf1 = g + 1 + d + 1 := ⟨sf1 - d - 2, by omega⟩
    simp only [rtpB, prim_reset]
    have hw1 : Wr trs.u c lo (rowPr row cur) .prim F w d un := hw.congr rfl
    have hs := hw1.step (ts := ts) (a := a) (trs := trs) (it := it) hi stk (some c) be t (g + 1)
    rw [prim_step (show (rowPr row cur).prim.anyKind = false from hak),
      show (rowPr row cur).prim.ty = base from hty] at hs
    simp only [unmBare]
    cases hsp : storePrim (ts.get base) t with
    | none =>
      rw [hsp] at hs
      rw [pump1_err hs]
      simp [Agree, XFail.toURes]
    | some v =>
      have hl := prim_step (ts := ts) (a := a) (trs := trs) (it := it) (f := g) (lo := lo) (hi := hi) (stk := stk)
        (st := some c) (be := be) (t := t) (show (rowPr row cur).prim.anyKind = false from hak)
      rw [show (rowPr row cur).prim.ty = base from hty, hsp] at hl
      exact Agree.fin1 hw1 hl ⟨rfl, rfl, rfl, rfl, rfl, rfl, rfl, rfl, rfl, rfl, rfl, rfl⟩ (by omega)

theorem simB_err {n : Nat} {base : Nat}
    (cur : Val) (lo : List URow) (row : URow) (hi : List URow) (stk : List URef) (be : Option XFail) (c : URef)
    (F : Val → Option Val) (w : Val → Val) (toks : List Tok) (fr sf1 sf : Nat) (he : row.err.err = some .err) (hfr : 6 ≤ fr) :
    Agree ts a trs it none un c sf be stk lo row F w
      (rtpB ts a trs it fr sf1 sf (lo ++ row :: hi) stk be c ⟨lo.length, .errThunk⟩ base cur toks)
      (unmBare ts a trs it (n+1) base .errThunk cur toks) := by
  cases toks with
  | nil => simp [rtpB, unmBare, Agree]
  | cons t rest =>
    obtain ⟨f, rfl⟩ : ∃ f, fr = f + 1 := ⟨fr - 1, by omega⟩
    simp [rtpB, resetM, resetBody, getRow, resetErr, he, unmBare, Agree, XFail.toURes]

end Refmt.UMachU
