/-
  Definitions for the JSON full-domain round-trip theorem (RefmtProofs/Props/C01JsonFull.lean):

  * `namesUtf8`  : every struct-map field name / union member name of the atlas is valid UTF-8 (JSON replaces invalid
                   bytes of a string by U+FFFD, so any other name would not be found again by the unmarshaller);
  * `fullTyJ`    : `fullTy` (RefmtProofs/Lemmas/FullDefs.lean) on an atlas with `namesUtf8`;
  * `fullValJ`   : the value side conditions of `fullVal` restricted to what JSON can carry:
                   scalars are finite floats, valid UTF-8 strings, no byte string / byte array (a nil `[]byte`, which is
                   written as `null`, is fine); map keys are distinct valid UTF-8 strings; an untyped slot holds nil, a
                   scalar, or a native `[]interface{}` / `map[string]interface{}` of such (NO tagged registered types:
                   JSON drops the tag, the slot cannot reconstruct them); a transform's unmarshal function succeeds on
                   the value specified for JSON (`normV .json`);
  * `rtJ`        : the value the JSON round trip really returns (`normV .json` with every map in marshalling order);
  * `rt` facts   : what `Spec.Json.retypeTok` does to the tokens the marshaller emits.
-/
import RefmtProofs.Lemmas.FullRT5
import RefmtProofs.Props.C03Sem
set_option linter.unusedSimpArgs false
set_option linter.unusedVariables false
namespace Refmt.Obj
open Refmt Refmt.C13 Refmt.C11 Refmt.C12

/-- every struct-map field name and every union member name of the atlas is valid UTF-8 -/
def namesUtf8 (a : Atlas) : Bool :=
  a.pool.all fun e =>
    match e.k with
    | .structMap fs => fs.all (fun f => toValidUtf8 f.name == f.name)
    | .union ms => ms.all (fun m => toValidUtf8 m.1 == m.1)
    | _ => true

/-- the type class of the JSON theorem: `fullTy`, on an atlas whose field / member names are valid UTF-8 -/
def fullTyJ (ts : Types) (a : Atlas) (p id : Nat) : Bool := fullTy ts a p id && namesUtf8 a

/-- a scalar JSON can carry and give back: finite float, valid UTF-8 string, no byte string / byte array -/
def jsonScalar : Val → Bool
  | .float b => !floatNonFinite b
  | .str s => toValidUtf8 s == s
  | .bytes (some _) => false
  | .byteArr _ => false
  | _ => true

def utf8Keys (es : List (Val × Val)) : Bool := es.all fun p => toValidUtf8 (keyStr p.1) == keyStr p.1

mutual
  /-- Value side conditions for JSON, by the recursion of `normV` (so `fullValJ … g id v` talks about `normV .json … g id v`). -/
  def fullValJ (ts : Types) (a : Atlas) (trs : Trs) (it : IfaceTys) : Nat → Nat → Val → Bool
    | 0, _, _ => true
    | g+1, id, v =>
      let (n, base) := peel ts 64 0 id
      if n == 0 then fullValJB ts a trs it g base (pickBare ts a base) v
      else
        match derefN n v with
        | none => true
        | some inner => fullValJB ts a trs it g base (pickBare ts a base) inner
  def fullValJB (ts : Types) (a : Atlas) (trs : Trs) (it : IfaceTys) : Nat → Nat → Mach → Val → Bool
    | 0, _, _, _ => true
    | g+1, id, m, v =>
      match m with
      | .prim => jsonScalar v
      | .slice e => (match v with | .slice (some vs) => vs.all (fullValJ ts a trs it g e) | _ => true)
      | .array e => (match v with | .arr vs => vs.all (fullValJ ts a trs it g e) | _ => true)
      | .map _ vt _ =>
        (match v with
         | .map (some es) => strKeysB es && utf8Keys es && es.all (fun p => fullValJ ts a trs it g vt p.2)
         | _ => true)
      | .structMap _ fields =>
        fields.all fun f =>
          !emitP v f || (match traverse f.route v with | some fv => fullValJ ts a trs it g f.ty fv | none => true)
      | .transform _ fn mty =>
        (match trs.m fn v with
         | some tv =>
           hasTy ts 1000 mty tv && fullValJ ts a trs it g mty tv &&
           (trs.u fn (normV .json ts a trs it g mty tv)).isSome
         | none => true)
      | .union _ members =>
        (match v with
         | .iface (some (dt, dv)) =>
           (match members.find? fun (_, idx) => (a.pool[idx]?.map (·.ty)) == some dt with
            | some (_, idx) =>
              (match a.pool[idx]? with
               | some me => fullValJB ts a trs it g dt (machForEntry ts me) dv
               | none => true)
            | none => true)
         | _ => true)
      | .wildcard =>
        (match v with
         | .iface (some (dt, dv)) =>
           notPtrB (ts.get dt) &&
           (match pickBare ts a dt with
            | .prim => jsonScalar dv
            | .slice _ =>
              dt == it.sliceI &&
              (match dv with | .slice (some vs) => vs.all (fullValJ ts a trs it g it.iface) | _ => false)
            | .map _ _ _ =>
              dt == it.mapSI &&
              (match dv with
               | .map (some es) => strKeysB es && utf8Keys es && es.all (fun p => fullValJ ts a trs it g it.iface p.2)
               | _ => false)
            | _ => false)
         | _ => true)
      | _ => true
end

mutual
  /-- the value the JSON round trip returns: `normV .json` with the entries of every map in marshalling (key) order -/
  def rtJ (ts : Types) (a : Atlas) (trs : Trs) (it : IfaceTys) : Nat → Nat → Val → Val
    | 0, _, v => v
    | fuel+1, id, v =>
      let (n, base) := peel ts 64 0 id
      if n == 0 then rtJB ts a trs it fuel base (pickBare ts a base) v
      else
        match derefN n v with
        | none => .ptr none
        | some inner =>
          if isNullSer ts a trs base inner then .ptr none
          else wrapPtr n (rtJB ts a trs it fuel base (pickBare ts a base) inner)
  def rtJB (ts : Types) (a : Atlas) (trs : Trs) (it : IfaceTys) : Nat → Nat → Mach → Val → Val
    | 0, _, _, v => v
    | fuel+1, id, m, v =>
      match m with
      | .slice e => (match v with | .slice (some vs) => .slice (some (vs.map (rtJ ts a trs it fuel e))) | x => x)
      | .array e => (match v with | .arr vs => .arr (vs.map (rtJ ts a trs it fuel e)) | x => x)
      | .map _ vt mode =>
        (match v with
         | .map (some es) =>
           .map (some ((sortKeys mode (es.map fun (k, x) => (keyStr k, x))).map fun (s, x) => (Val.str s, rtJ ts a trs it fuel vt x)))
         | x => x)
      | .structMap _ fields => structFold ts id fields v (fun t x => rtJ ts a trs it fuel t x)
      | .transform _ fn mty =>
        (match trs.m fn v with
         | some tv => (trs.u fn (rtJ ts a trs it fuel mty tv)).getD v
         | none => v)
      | .union _ members =>
        (match v with
         | .iface (some (dt, dv)) =>
           (match members.find? fun (_, idx) => (a.pool[idx]?.map (·.ty)) == some dt with
            | some (_, idx) =>
              (match a.pool[idx]? with
               | some me => .iface (some (dt, rtJB ts a trs it fuel dt (machForEntry ts me) dv))
               | none => v)
            | none => v)
         | x => x)
      | .wildcard =>
        (match v with
         | .iface (some (dt, dv)) =>
           if isBareNullSer .json ts a trs dt dv then .iface none else
           (match pickBare ts a (peel ts 64 0 dt).2, derefN (peel ts 64 0 dt).1 dv with
            | .prim, some pv =>
              (match pv with
               | .bool b => .iface (some (it.bool, .bool b))
               | .int i => .iface (some (it.int, .int i))
               | .uint u => if u < two63 then .iface (some (it.int, .int u)) else .iface (some (it.uint64, .uint u))
               | .float b => .iface (some (normFloatIface .json it b))
               | .str s => .iface (some (it.str, .str s))
               | .bytes (some b) => .iface (some (it.bytes, .bytes (some b)))
               | .byteArr b => .iface (some (it.bytes, .bytes (some b)))
               | x => .iface (some (dt, x)))
            | .slice e, some (.slice (some vs)) =>
              .iface (some (it.sliceI, .slice (some (vs.map fun x => rtJ ts a trs it fuel it.iface (boxAs ts e x)))))
            | .array e, some (.arr vs) =>
              .iface (some (it.sliceI, .slice (some (vs.map fun x => rtJ ts a trs it fuel it.iface (boxAs ts e x)))))
            | .map _ vt mode, some (.map (some es)) =>
              .iface (some (it.mapSI, .map (some ((sortKeys mode (es.map fun (k, x) => (keyStr k, x))).map fun (s, x) =>
                (Val.str s, rtJ ts a trs it fuel it.iface (boxAs ts vt x))))))
            | _, some pv =>
              .iface (some ((peel ts 64 0 dt).2, rtJB ts a trs it fuel (peel ts 64 0 dt).2 (pickBare ts a (peel ts 64 0 dt).2) pv))
            | _, none => .iface none)
         | x => x)
      | m => normBare .json ts a trs it (fuel+1) id m v
end

variable (ts : Types) (a : Atlas) (trs : Trs) (it : IfaceTys)

/-! ### one-level unfoldings -/

/-- what a scalar target holds after a JSON round trip: `-0` is re-read as `0` -/
def jprim : Val → Val
  | .float b => .float (normFloat .json b)
  | x => x

theorem rtJ_succ (fuel id v) : rtJ ts a trs it (fuel+1) id v =
    if (peel ts 64 0 id).1 == 0 then rtJB ts a trs it fuel (peel ts 64 0 id).2 (pickBare ts a (peel ts 64 0 id).2) v
    else match derefN (peel ts 64 0 id).1 v with
      | none => .ptr none
      | some inner =>
        if isNullSer ts a trs (peel ts 64 0 id).2 inner then .ptr none
        else wrapPtr (peel ts 64 0 id).1 (rtJB ts a trs it fuel (peel ts 64 0 id).2 (pickBare ts a (peel ts 64 0 id).2) inner) := by
  rw [rtJ.eq_def] <;> rfl

theorem normBareJ_prim (fuel id v) : normBare .json ts a trs it (fuel+1) id .prim v = jprim v := by
  rw [normBare.eq_def]
  simp only
  cases v <;> rfl

theorem rtJB_prim (fuel id v) : rtJB ts a trs it (fuel+1) id .prim v = jprim v := by
  rw [rtJB.eq_def]
  simp only
  exact normBareJ_prim ts a trs it fuel id v

theorem rtJB_slice (fuel id e v) : rtJB ts a trs it (fuel+1) id (.slice e) v =
    (match v with | .slice (some vs) => .slice (some (vs.map (rtJ ts a trs it fuel e))) | x => x) := by
  rw [rtJB.eq_def] <;> rfl
theorem rtJB_array (fuel id e v) : rtJB ts a trs it (fuel+1) id (.array e) v =
    (match v with | .arr vs => .arr (vs.map (rtJ ts a trs it fuel e)) | x => x) := by
  rw [rtJB.eq_def] <;> rfl
theorem rtJB_map (fuel id kt vt mode v) : rtJB ts a trs it (fuel+1) id (.map kt vt mode) v =
    (match v with
     | .map (some es) =>
       .map (some ((sortKeys mode (es.map fun (k, x) => (keyStr k, x))).map fun (s, x) => (Val.str s, rtJ ts a trs it fuel vt x)))
     | x => x) := by
  rw [rtJB.eq_def] <;> rfl
theorem rtJB_structMap (fuel id e fields v) : rtJB ts a trs it (fuel+1) id (.structMap e fields) v =
    structFold ts id fields v (rtJ ts a trs it fuel) := by
  rw [rtJB.eq_def] <;> rfl
theorem rtJB_transform (fuel id e fn mty v) : rtJB ts a trs it (fuel+1) id (.transform e fn mty) v =
    (match trs.m fn v with
     | some tv => (trs.u fn (rtJ ts a trs it fuel mty tv)).getD v
     | none => v) := by
  rw [rtJB.eq_def] <;> rfl
theorem rtJB_union (fuel id e members v) : rtJB ts a trs it (fuel+1) id (.union e members) v =
    (match v with
     | .iface (some (dt, dv)) =>
       (match members.find? fun (_, idx) => (a.pool[idx]?.map (·.ty)) == some dt with
        | some (_, idx) =>
          (match a.pool[idx]? with
           | some me => .iface (some (dt, rtJB ts a trs it fuel dt (machForEntry ts me) dv))
           | none => v)
        | none => v)
     | x => x) := by
  rw [rtJB.eq_def] <;> rfl
theorem rtJB_wild_none (fuel id) : rtJB ts a trs it (fuel+1) id .wildcard (.iface none) = .iface none := by
  rw [rtJB.eq_def] <;> rfl
theorem rtJB_wild_some (fuel id dt dv) : rtJB ts a trs it (fuel+1) id .wildcard (.iface (some (dt, dv))) =
    if isBareNullSer .json ts a trs dt dv then .iface none else
    (match pickBare ts a (peel ts 64 0 dt).2, derefN (peel ts 64 0 dt).1 dv with
     | .prim, some pv =>
       (match pv with
        | .bool b => .iface (some (it.bool, .bool b))
        | .int i => .iface (some (it.int, .int i))
        | .uint u => if u < two63 then .iface (some (it.int, .int u)) else .iface (some (it.uint64, .uint u))
        | .float b => .iface (some (normFloatIface .json it b))
        | .str s => .iface (some (it.str, .str s))
        | .bytes (some b) => .iface (some (it.bytes, .bytes (some b)))
        | .byteArr b => .iface (some (it.bytes, .bytes (some b)))
        | x => .iface (some (dt, x)))
     | .slice e, some (.slice (some vs)) =>
       .iface (some (it.sliceI, .slice (some (vs.map fun x => rtJ ts a trs it fuel it.iface (boxAs ts e x)))))
     | .array e, some (.arr vs) =>
       .iface (some (it.sliceI, .slice (some (vs.map fun x => rtJ ts a trs it fuel it.iface (boxAs ts e x)))))
     | .map _ vt mode, some (.map (some es)) =>
       .iface (some (it.mapSI, .map (some ((sortKeys mode (es.map fun (k, x) => (keyStr k, x))).map fun (s, x) =>
         (Val.str s, rtJ ts a trs it fuel it.iface (boxAs ts vt x))))))
     | _, some pv =>
       .iface (some ((peel ts 64 0 dt).2, rtJB ts a trs it fuel (peel ts 64 0 dt).2 (pickBare ts a (peel ts 64 0 dt).2) pv))
     | _, none => .iface none) := by
  rw [rtJB.eq_def] <;> rfl

theorem normVJ_succ (fuel id v) : normV .json ts a trs it (fuel+1) id v =
    if (peel ts 64 0 id).1 == 0 then normBare .json ts a trs it fuel (peel ts 64 0 id).2 (pickBare ts a (peel ts 64 0 id).2) v
    else match derefN (peel ts 64 0 id).1 v with
      | none => .ptr none
      | some inner =>
        if isNullSer ts a trs (peel ts 64 0 id).2 inner then .ptr none
        else wrapPtr (peel ts 64 0 id).1 (normBare .json ts a trs it fuel (peel ts 64 0 id).2 (pickBare ts a (peel ts 64 0 id).2) inner) := by
  rw [normV.eq_def]
  try rfl

theorem normBareJ_slice (fuel id e v) : normBare .json ts a trs it (fuel+1) id (.slice e) v =
    (match v with | .slice (some vs) => .slice (some (vs.map (normV .json ts a trs it fuel e))) | x => x) := by
  rw [normBare.eq_def] <;> rfl
theorem normBareJ_array (fuel id e v) : normBare .json ts a trs it (fuel+1) id (.array e) v =
    (match v with | .arr vs => .arr (vs.map (normV .json ts a trs it fuel e)) | x => x) := by
  rw [normBare.eq_def] <;> rfl
theorem normBareJ_map (fuel id kt vt mode v) : normBare .json ts a trs it (fuel+1) id (.map kt vt mode) v =
    (match v with
     | .map (some es) => .map (some (es.map fun (k, x) => (k, normV .json ts a trs it fuel vt x)))
     | x => x) := by
  rw [normBare.eq_def] <;> rfl
theorem normBareJ_structMap (fuel id e fields v) :
    normBare .json ts a trs it (fuel+1) id (.structMap e fields) v =
      structFold ts id fields v (normV .json ts a trs it fuel) := by
  rw [normBare.eq_def]
  rfl
theorem normBareJ_transform (fuel id e fn mty v) : normBare .json ts a trs it (fuel+1) id (.transform e fn mty) v =
    (match trs.m fn v with
     | some tv => (trs.u fn (normV .json ts a trs it fuel mty tv)).getD v
     | none => v) := by
  rw [normBare.eq_def] <;> rfl
theorem normBareJ_union (fuel id e members v) : normBare .json ts a trs it (fuel+1) id (.union e members) v =
    (match v with
     | .iface (some (dt, dv)) =>
       (match members.find? fun (_, idx) => (a.pool[idx]?.map (·.ty)) == some dt with
        | some (_, idx) =>
          (match a.pool[idx]? with
           | some me => .iface (some (dt, normBare .json ts a trs it fuel dt (machForEntry ts me) dv))
           | none => v)
        | none => v)
     | x => x) := by
  rw [normBare.eq_def] <;> rfl
theorem normBareJ_wild_none (fuel id) : normBare .json ts a trs it (fuel+1) id .wildcard (.iface none) = .iface none := by
  rw [normBare.eq_def] <;> rfl
theorem normBareJ_wild_some (fuel id dt dv) : normBare .json ts a trs it (fuel+1) id .wildcard (.iface (some (dt, dv))) =
    if isBareNullSer .json ts a trs dt dv then .iface none else
    (match pickBare ts a (peel ts 64 0 dt).2, derefN (peel ts 64 0 dt).1 dv with
     | .prim, some pv =>
       (match pv with
        | .bool b => .iface (some (it.bool, .bool b))
        | .int i => .iface (some (it.int, .int i))
        | .uint u => if u < two63 then .iface (some (it.int, .int u)) else .iface (some (it.uint64, .uint u))
        | .float b => .iface (some (normFloatIface .json it b))
        | .str s => .iface (some (it.str, .str s))
        | .bytes (some b) => .iface (some (it.bytes, .bytes (some b)))
        | .byteArr b => .iface (some (it.bytes, .bytes (some b)))
        | x => .iface (some (dt, x)))
     | .slice e, some (.slice (some vs)) =>
       .iface (some (it.sliceI, .slice (some (vs.map fun x => normV .json ts a trs it fuel it.iface (boxAs ts e x)))))
     | .array e, some (.arr vs) =>
       .iface (some (it.sliceI, .slice (some (vs.map fun x => normV .json ts a trs it fuel it.iface (boxAs ts e x)))))
     | .map _ vt _, some (.map (some es)) =>
       .iface (some (it.mapSI, .map (some (es.map fun (k, x) => (k, normV .json ts a trs it fuel it.iface (boxAs ts vt x))))))
     | _, some pv =>
       .iface (some ((peel ts 64 0 dt).2, normBare .json ts a trs it fuel (peel ts 64 0 dt).2 (pickBare ts a (peel ts 64 0 dt).2) pv))
     | _, none => .iface none) := by
  rw [normBare.eq_def] <;> rfl

theorem fullValJ_succ (g id v) : fullValJ ts a trs it (g+1) id v =
    if (peel ts 64 0 id).1 == 0 then fullValJB ts a trs it g (peel ts 64 0 id).2 (pickBare ts a (peel ts 64 0 id).2) v
    else match derefN (peel ts 64 0 id).1 v with
      | none => true
      | some inner => fullValJB ts a trs it g (peel ts 64 0 id).2 (pickBare ts a (peel ts 64 0 id).2) inner := by
  rw [fullValJ.eq_def] <;> rfl

theorem fullValJB_prim (g id v) : fullValJB ts a trs it (g+1) id .prim v = jsonScalar v := by
  rw [fullValJB.eq_def] <;> rfl
theorem fullValJB_slice (g id e v) : fullValJB ts a trs it (g+1) id (.slice e) v =
    (match v with | .slice (some vs) => vs.all (fullValJ ts a trs it g e) | _ => true) := by
  rw [fullValJB.eq_def] <;> rfl
theorem fullValJB_array (g id e v) : fullValJB ts a trs it (g+1) id (.array e) v =
    (match v with | .arr vs => vs.all (fullValJ ts a trs it g e) | _ => true) := by
  rw [fullValJB.eq_def] <;> rfl
theorem fullValJB_map (g id kt vt mode v) : fullValJB ts a trs it (g+1) id (.map kt vt mode) v =
    (match v with
     | .map (some es) => strKeysB es && utf8Keys es && es.all (fun p => fullValJ ts a trs it g vt p.2)
     | _ => true) := by
  rw [fullValJB.eq_def] <;> rfl
theorem fullValJB_structMap (g id e fields v) : fullValJB ts a trs it (g+1) id (.structMap e fields) v =
    fields.all fun f =>
      !emitP v f || (match traverse f.route v with | some fv => fullValJ ts a trs it g f.ty fv | none => true) := by
  rw [fullValJB.eq_def] <;> rfl
theorem fullValJB_transform (g id e fn mty v) : fullValJB ts a trs it (g+1) id (.transform e fn mty) v =
    (match trs.m fn v with
     | some tv =>
       hasTy ts 1000 mty tv && fullValJ ts a trs it g mty tv &&
       (trs.u fn (normV .json ts a trs it g mty tv)).isSome
     | none => true) := by
  rw [fullValJB.eq_def] <;> rfl
theorem fullValJB_union (g id e members v) : fullValJB ts a trs it (g+1) id (.union e members) v =
    (match v with
     | .iface (some (dt, dv)) =>
       (match members.find? fun (_, idx) => (a.pool[idx]?.map (·.ty)) == some dt with
        | some (_, idx) =>
          (match a.pool[idx]? with
           | some me => fullValJB ts a trs it g dt (machForEntry ts me) dv
           | none => true)
        | none => true)
     | _ => true) := by
  rw [fullValJB.eq_def] <;> rfl
theorem fullValJB_wild (g id dt dv) : fullValJB ts a trs it (g+1) id .wildcard (.iface (some (dt, dv))) =
    (notPtrB (ts.get dt) &&
     (match pickBare ts a dt with
      | .prim => jsonScalar dv
      | .slice _ =>
        dt == it.sliceI &&
        (match dv with | .slice (some vs) => vs.all (fullValJ ts a trs it g it.iface) | _ => false)
      | .map _ _ _ =>
        dt == it.mapSI &&
        (match dv with
         | .map (some es) => strKeysB es && utf8Keys es && es.all (fun p => fullValJ ts a trs it g it.iface p.2)
         | _ => false)
      | _ => false)) := by
  rw [fullValJB.eq_def] <;> rfl

theorem rtJ_nonptr {id : Nat} (hnp : ∀ e, ts.get id ≠ .ptr e) (g : Nat) (v : Val) :
    rtJ ts a trs it (g+1) id v = rtJB ts a trs it g id (pickBare ts a id) v := by
  rw [rtJ_succ, C13.peel_nonptr ts id hnp 63 0]
  simp

theorem fullValJ_nonptr {id : Nat} (hnp : ∀ e, ts.get id ≠ .ptr e) (g : Nat) (v : Val) :
    fullValJ ts a trs it (g+1) id v = fullValJB ts a trs it g id (pickBare ts a id) v := by
  rw [fullValJ_succ, C13.peel_nonptr ts id hnp 63 0]
  simp

end Refmt.Obj
