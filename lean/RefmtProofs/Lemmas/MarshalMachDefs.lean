/-
  The simulation statement between the stateful marshaller model and the functional model, and the generic
  lemmas about `Recurse`.
-/
import RefmtProofs.Lemmas.MarshalMachRows
open Refmt Refmt.Obj Refmt.Obj.MM
set_option linter.unusedVariables false
set_option linter.unusedSimpArgs false

namespace Refmt.MachL

/-- no map machine in these rows was left between a key and its value -/
def Clean (rows : List Row) : Prop := ∀ r ∈ rows, r.map.value = false

theorem Clean.cons {r : Row} {rows : List Row} (h : r.map.value = false) (hr : Clean rows) : Clean (r :: rows) := by
  intro x hx; cases hx with
  | head => exact h
  | tail _ hx => exact hr x hx
theorem Clean.head {r : Row} {rows : List Row} (h : Clean (r :: rows)) : r.map.value = false := h r (by simp)
theorem Clean.tail {r : Row} {rows : List Row} (h : Clean (r :: rows)) : Clean rows := fun x hx => h x (by simp [hx])
theorem Clean.append {r1 r2 : List Row} (h1 : Clean r1) (h2 : Clean r2) : Clean (r1 ++ r2) := by
  intro x hx; rcases List.mem_append.mp hx with h | h
  · exact h1 x h
  · exact h2 x h
theorem Clean.left {r1 r2 : List Row} (h : Clean (r1 ++ r2)) : Clean r1 := fun x hx => h x (by simp [hx])
theorem Clean.right {r1 r2 : List Row} (h : Clean (r1 ++ r2)) : Clean r2 := fun x hx => h x (by simp [hx])
theorem Clean.dropLast {r : List Row} (h : Clean r) : Clean r.dropLast :=
  fun x hx => h x (List.dropLast_subset _ hx)
theorem Clean.zero : Row.zero.map.value = false := rfl

/-- the row is configured for the bare machine `m`, handed out as kind `k`
    (fragment of the proof: no transform, no union) -/
def CfgBare (m : Mach) (k : MK) (row : Row) : Prop :=
  match m with
  | .prim => k = .prim
  | .slice _ => k = .slice
  | .array _ => k = .array
  | .map _ _ mode => k = .map ∧ row.map.morphism = mode
  | .wildcard => k = .wild
  | .structMap e fs => k = .struct ∧ row.struct.cfg = e ∧ row.struct.fields = fs
  | .errThunk => k = .errThunk ∧ row.err.err = some .err
  | _ => False

/-- configured for the bare machine `m`, and the row's ptrDeref machine is `P` -/
def QB (m : Mach) (k : MK) (P : PtrM) (r : Row) : Prop := CfgBare m k r ∧ r.ptr = P

/-- the row is configured for the bare machine `m` (a plain machine, or a transform machine whose delegate, in the
    same row, is a plain machine) -/
def CfgM (ts : Types) (a : Atlas) (m : Mach) (k : MK) (row : Row) : Prop :=
  match m with
  | .transform e fn mty =>
    k = .transform ∧ row.transform.trFunc = fn ∧ row.transform.mty = mty ∧ row.transform.tag = e.tag ∧
      ∃ kd, row.transform.delegate = some kd ∧ CfgBare (pickBare ts a mty) kd row
  | .union e ms => k = .union ∧ row.union.cfg = e ∧ row.union.members = ms
  | m => CfgBare m k row

/-- the row is configured for type `id`, handed out as kind `k` -/
def CfgV (ts : Types) (a : Atlas) (id : Nat) (k : MK) (row : Row) : Prop :=
  if (peel ts 64 0 id).1 = 0 then CfgM ts a (pickBare ts a (peel ts 64 0 id).2) k row
  else k = .ptr ∧ row.ptr.peelCount = (peel ts 64 0 id).1 ∧
    ∃ k', row.ptr.mach = some k' ∧ k' ≠ .ptr ∧ CfgM ts a (pickBare ts a (peel ts 64 0 id).2) k' row

/-- the type `id` has the shape the machine `m` expects -/
def MachTy (ts : Types) (id : Nat) (m : Mach) : Prop :=
  match m with
  | .slice e => elemOf ts id = some e
  | .array e => elemOf ts id = some e
  | .map kt vt _ => ts.get id = .map kt vt
  | _ => True


/-- the sub-structs of a row that belong to the wrapper machines (ptrDeref, transform, union) -/
abbrev WVal := PtrM × TransM × UnionM
/-- which of the three are foreign to the machine under consideration (it neither reads nor writes them) -/
abbrev Mask := Bool × Bool × Bool

def getW (r : Row) : WVal := (r.ptr, r.transform, r.union)

/-- overwrite the foreign wrapper sub-structs -/
def setWm (mk : Mask) (w : WVal) (r : Row) : Row :=
  { r with ptr := if mk.1 then w.1 else r.ptr,
           transform := if mk.2.1 then w.2.1 else r.transform,
           union := if mk.2.2 then w.2.2 else r.union }

/-- `r'` has the same foreign wrapper sub-structs as `r` -/
def agreeW (mk : Mask) (r r' : Row) : Prop :=
  (mk.1 = true → r'.ptr = r.ptr) ∧ (mk.2.1 = true → r'.transform = r.transform) ∧
  (mk.2.2 = true → r'.union = r.union)

theorem agreeW.refl (mk : Mask) (r : Row) : agreeW mk r r := ⟨fun _ => rfl, fun _ => rfl, fun _ => rfl⟩
theorem agreeW.trans {mk : Mask} {r1 r2 r3 : Row} (h1 : agreeW mk r1 r2) (h2 : agreeW mk r2 r3) : agreeW mk r1 r3 :=
  ⟨fun h => (h2.1 h).trans (h1.1 h), fun h => (h2.2.1 h).trans (h1.2.1 h), fun h => (h2.2.2 h).trans (h1.2.2 h)⟩
theorem agreeW.symm {mk : Mask} {r1 r2 : Row} (h : agreeW mk r1 r2) : agreeW mk r2 r1 :=
  ⟨fun x => (h.1 x).symm, fun x => (h.2.1 x).symm, fun x => (h.2.2 x).symm⟩
theorem agreeW.of_le {mk mk' : Mask} {r r' : Row} (h : agreeW mk r r')
    (hle : (mk'.1 = true → mk.1 = true) ∧ (mk'.2.1 = true → mk.2.1 = true) ∧ (mk'.2.2 = true → mk.2.2 = true)) :
    agreeW mk' r r' :=
  ⟨fun x => h.1 (hle.1 x), fun x => h.2.1 (hle.2.1 x), fun x => h.2.2 (hle.2.2 x)⟩

variable (ts : Types) (a : Atlas) (trs : Trs)

/-- `cur`'s Step is `c`'s Step, for every step of `c` that does not report done, as long as the rows below `c`'s
    are `lo` and the foreign wrapper sub-structs of `c`'s row are those of `r0` (before and after the step).
    The wrappers between `cur` and `c` are ptrDeref machines, wildcard machines, transform machines past their
    first step and union machines in their delegate phase. -/
def Pass (cur c : MRef) (lo : List Row) (mk : Mask) (r0 : Row) : Prop :=
  (∀ row' hi' st be n res, agreeW mk r0 row' →
    stepM ts a trs n c ⟨lo ++ row' :: hi', st, some cur, be⟩ = .ok res → res.done = false →
    (∃ row'' hi'', res.st.rows = lo ++ row'' :: hi'' ∧ agreeW mk r0 row'') →
    ∃ n', stepM ts a trs n' cur ⟨lo ++ row' :: hi', st, some cur, be⟩ = .ok res) ∧
  (∀ row' hi' st be n e, agreeW mk r0 row' →
    stepM ts a trs n c ⟨lo ++ row' :: hi', st, some cur, be⟩ = .error (.f e) →
    ∃ n', stepM ts a trs n' cur ⟨lo ++ row' :: hi', st, some cur, be⟩ = .error (.f e))

/-- the run of machine `c` after its first step (rows `lo ++ rowB :: hiB`): the remaining tokens `rest`, the last
    of them with `c`'s Step reporting done, or the failure -/
def Rest (mk : Mask) (Q : Row → Prop) (lo : List Row) (rowB : Row) (hiB : List Row) (c cur : MRef)
    (st : List MRef) (be : Option XFail) (rest : List Tok) (fail : Option Fail) : Prop :=
  match fail with
  | none =>
    ∃ mid last rowM hiM row2 hi2 n2, rest = mid ++ [last] ∧
      Emits ts a trs ⟨lo ++ rowB :: hiB, st, some cur, be⟩ mid ⟨lo ++ rowM :: hiM, st, some cur, be⟩ ∧
      agreeW mk rowB rowM ∧
      stepM ts a trs n2 c ⟨lo ++ rowM :: hiM, st, some cur, be⟩ =
        .ok ⟨last, true, ⟨lo ++ row2 :: hi2, st, some cur, be⟩⟩ ∧
      agreeW mk rowB row2 ∧ Q row2 ∧ Clean (row2 :: hi2)
  | some e =>
    ∃ smid, Emits ts a trs ⟨lo ++ rowB :: hiB, st, some cur, be⟩ rest smid ∧ DS ts a trs smid (.error (.f e))

/-- after a successful Reset that left rows `lo ++ row1 :: hi1`: what the machine `c` (in `row1`) does when the
    functional model says `r`.  Its first Step (which never recurses) is described at machine level, for every
    current machine and stack; the rest for every current machine that passes through to `c`.  `mk`: the wrapper
    sub-structs of `c`'s row that `c` does not modify; `vm`: those that may moreover be changed from outside, at
    will, before the first step and after it. -/
def RunsAs (mk vm : Mask) (Q : Row → Prop) (lo : List Row) (row1 : Row) (hi1 : List Row) (c : MRef) (r : MOut) : Prop :=
  ∀ w cur st be,
    ∃ n1 t1 done1 rowA hiA,
      stepM ts a trs n1 c ⟨lo ++ setWm vm w row1 :: hi1, st, some cur, be⟩ =
        .ok ⟨t1, done1, ⟨lo ++ rowA :: hiA, st, some cur, be⟩⟩ ∧
      agreeW mk (setWm vm w row1) rowA ∧
      (done1 = true → r = ⟨[t1], none⟩ ∧ Q rowA ∧ Clean (rowA :: hiA)) ∧
      (done1 = false → ∃ rest, r.toks = t1 :: rest ∧
        ∀ w', Pass ts a trs cur c lo mk (setWm vm w' rowA) →
          Rest ts a trs mk Q lo (setWm vm w' rowA) hiA c cur st be rest r.fail)

/-- the simulation statement for one machine `c`, configured in `row` of `lo ++ row :: hi` for ANY rows `lo` of
    length `L` below it, Reset with (`rt`, `v`): a functional result without tokens is a failing Reset; otherwise
    Reset succeeds, touches nothing in `lo` and no foreign wrapper sub-struct, leaves the same rows above `lo`
    whatever `lo` is, and the machine then runs as the functional result says -/
def Sim (mk vm : Mask) (Q : Row → Prop) (L : Nat) (row : Row) (hi : List Row) (c : MRef) (rt : Nat) (v : Val)
    (r : MOut) : Prop :=
  (∀ e, r.toks = [] → r.fail = some e →
    ∃ n, ∀ lo : List Row, lo.length = L → resetM ts a trs n c rt v (lo ++ row :: hi) = .error (.f e)) ∧
  (¬ (r.toks = [] ∧ r.fail ≠ none) →
    ∃ n row1 hi1, (∀ lo : List Row, lo.length = L →
        resetM ts a trs n c rt v (lo ++ row :: hi) = .ok (lo ++ row1 :: hi1)) ∧
      agreeW mk row row1 ∧ Q row1 ∧ Clean (row1 :: hi1) ∧
      ∀ lo : List Row, lo.length = L → RunsAs ts a trs mk vm Q lo row1 hi1 c r)

variable {ts a trs}

theorem Pass.refl (c : MRef) (lo : List Row) (mk : Mask) (r0 : Row) : Pass ts a trs c c lo mk r0 :=
  ⟨fun _ _ _ _ n _ _ h _ _ => ⟨n, h⟩, fun _ _ _ _ n _ _ h => ⟨n, h⟩⟩


theorem setWm_self (mk : Mask) (r : Row) : setWm mk (getW r) r = r := by
  obtain ⟨b1, b2, b3⟩ := mk
  cases b1 <;> cases b2 <;> cases b3 <;> rfl

theorem agreeW_setWm (mk : Mask) (w : WVal) (r : Row) : agreeW mk (setWm mk w r) (setWm mk w r) := agreeW.refl _ _

theorem recurse_first {s' : MState} {cur d x rt n0 R1 t1 rest s_end}
    (hcur : s'.step = some cur) (hr : resetM ts a trs n0 d rt x s'.rows = .ok R1)
    (he : Emits ts a trs ⟨R1, cur :: s'.stack, some d, s'.bindErr⟩ (t1 :: rest) s_end) :
    ∃ n s1, recurse ts a trs n s' x rt d = .ok ⟨t1, false, s1⟩ ∧ Emits ts a trs s1 rest s_end := by
  obtain ⟨s1, ⟨n1, hm, _⟩, hrest⟩ := he
  refine ⟨max n0 n1 + 1, s1, ?_, hrest⟩
  have h1 : resetM ts a trs (max n0 n1) d rt x s'.rows = .ok R1 := by
    rw [resetM_mono (Nat.le_max_left _ _) (hr ▸ NS.ok), hr]
  have h2 : mstep ts a trs (max n0 n1) ⟨R1, cur :: s'.stack, some d, s'.bindErr⟩ = .ok ⟨t1, false, s1⟩ := by
    rw [mstep_mono (Nat.le_max_right _ _) (hm ▸ NS.ok), hm]
  simp [recurse, recurseBody, hcur, h1, h2]

theorem recurse_resetfail {s' : MState} {cur d x rt n0 e}
    (hcur : s'.step = some cur) (hr : resetM ts a trs n0 d rt x s'.rows = .error (.f e)) :
    recurse ts a trs (n0 + 1) s' x rt d = .error (.f e) := by
  simp [recurse, recurseBody, hcur, hr]

theorem recurse_stepfail {s' : MState} {cur d x rt n0 R1 e}
    (hcur : s'.step = some cur) (hr : resetM ts a trs n0 d rt x s'.rows = .ok R1)
    (hd : DS ts a trs ⟨R1, cur :: s'.stack, some d, s'.bindErr⟩ (.error (.f e))) :
    ∃ n, recurse ts a trs n s' x rt d = .error (.f e) := by
  obtain ⟨n1, hm, _⟩ := hd
  refine ⟨max n0 n1 + 1, ?_⟩
  have h1 : resetM ts a trs (max n0 n1) d rt x s'.rows = .ok R1 := by
    rw [resetM_mono (Nat.le_max_left _ _) (hr ▸ NS.ok), hr]
  have h2 : mstep ts a trs (max n0 n1) ⟨R1, cur :: s'.stack, some d, s'.bindErr⟩ = .error (.f e) := by
    rw [mstep_mono (Nat.le_max_right _ _) (hm ▸ NS.f), hm]
  simp [recurse, recurseBody, hcur, h1, h2]

variable (ts a trs) in
/-- a segment of the run that follows the functional result `r`: all its tokens, then either a state satisfying
    `P` or the failing step -/
def Seg (s : MState) (r : MOut) (P : MState → Prop) : Prop :=
  match r.fail with
  | none => ∃ s', Emits ts a trs s r.toks s' ∧ P s'
  | some e => ∃ smid, Emits ts a trs s r.toks smid ∧ DS ts a trs smid (.error (.f e))

theorem Seg.seq {s : MState} {r1 : MOut} {r2 : Unit → MOut} {P1 P2 : MState → Prop}
    (h1 : Seg ts a trs s r1 P1) (h2 : r1.fail = none → ∀ s', P1 s' → Seg ts a trs s' (r2 ()) P2) :
    Seg ts a trs s (r1.seq r2) P2 := by
  unfold MOut.seq
  cases hf : r1.fail with
  | some e =>
    simp only [hf]
    simp only [Seg, hf] at h1 ⊢
    exact h1
  | none =>
    simp only [hf]
    simp only [Seg, hf] at h1
    obtain ⟨s', he, hp⟩ := h1
    have := h2 hf s' hp
    unfold Seg at this ⊢
    cases hf2 : (r2 ()).fail with
    | none =>
      simp only [hf2] at this ⊢
      obtain ⟨s'', he2, hp2⟩ := this
      exact ⟨s'', Emits.append he he2, hp2⟩
    | some e =>
      simp only [hf2] at this ⊢
      obtain ⟨smid, he2, hd⟩ := this
      exact ⟨smid, Emits.append he he2, hd⟩

theorem Seg.tok {s s1 : MState} {t : Tok} {P : MState → Prop}
    (h : DS ts a trs s (.ok ⟨t, false, s1⟩)) (hp : P s1) : Seg ts a trs s (MOut.ok [t]) P :=
  ⟨s1, Emits.one h, hp⟩

theorem Seg.nil {s : MState} {P : MState → Prop} (hp : P s) : Seg ts a trs s (MOut.ok []) P :=
  ⟨s, rfl, hp⟩

theorem Seg.mono {s : MState} {r : MOut} {P P' : MState → Prop} (h : Seg ts a trs s r P) (hpp : ∀ s', P s' → P' s') :
    Seg ts a trs s r P' := by
  unfold Seg at h ⊢
  cases hf : r.fail with
  | none => simp only [hf] at h ⊢; obtain ⟨s', he, hp⟩ := h; exact ⟨s', he, hpp _ hp⟩
  | some e => simp only [hf] at h ⊢; exact h


theorem recurse_of_mstep {s' : MState} {cur d x rt n0 n1 R1 res}
    (hcur : s'.step = some cur) (hr : resetM ts a trs n0 d rt x s'.rows = .ok R1)
    (hm : mstep ts a trs n1 ⟨R1, cur :: s'.stack, some d, s'.bindErr⟩ = .ok res) :
    recurse ts a trs (max n0 n1 + 1) s' x rt d = .ok { res with done := false } := by
  have h1 : resetM ts a trs (max n0 n1) d rt x s'.rows = .ok R1 := by
    rw [resetM_mono (Nat.le_max_left _ _) (hr ▸ NS.ok), hr]
  have h2 : mstep ts a trs (max n0 n1) ⟨R1, cur :: s'.stack, some d, s'.bindErr⟩ = .ok res := by
    rw [mstep_mono (Nat.le_max_right _ _) (hm ▸ NS.ok), hm]
  simp [recurse, recurseBody, hcur, h1, h2]

/-- the driver's step on a child that has just been pushed, from the child's machine-level step -/
theorem mstep_child {R R' : List Row} {p d : MRef} {st be n t done1}
    (h : stepM ts a trs n d ⟨R, p :: st, some d, be⟩ = .ok ⟨t, done1, ⟨R', p :: st, some d, be⟩⟩) :
    mstep ts a trs (n+1) ⟨R, p :: st, some d, be⟩ =
      .ok ⟨t, false, if done1 then ⟨R', st, some p, be⟩ else ⟨R', p :: st, some d, be⟩⟩ := by
  cases done1 <;> simp [mstep, mstepBody, h]

/-- the parent's view of a child: if the parent's step at `sp` is `Recurse` into the machine `d` (rows
    `lo_d ++ drow :: dhi`), the run from `sp` follows the child's functional result and ends with the parent current
    again, the child's row still configured, and everything from the child's row on clean -/
theorem seg_recurse {mkd vmd : Mask} {Qd : Row → Prop} {L lo_d drow dhi d rt x r sp st cur be}
    (hsim : Sim ts a trs mkd vmd Qd L drow dhi d rt x r) (hL : lo_d.length = L)
    (hlink : ∀ n res, recurse ts a trs n ⟨lo_d ++ drow :: dhi, st, some cur, be⟩ x rt d = .ok res →
      res.done = false → (∃ rowA hiA, res.st.rows = lo_d ++ rowA :: hiA) → CS ts a trs sp (.ok res))
    (hlinke : ∀ n e, recurse ts a trs n ⟨lo_d ++ drow :: dhi, st, some cur, be⟩ x rt d = .error (.f e) →
      CS ts a trs sp (.error (.f e))) :
    Seg ts a trs sp r (fun s_end => ∃ drow2 dhi2,
      s_end = ⟨lo_d ++ drow2 :: dhi2, st, some cur, be⟩ ∧ Qd drow2 ∧ Clean (drow2 :: dhi2)) := by
  obtain ⟨hs1, hs2⟩ := hsim
  by_cases hrf : r.toks = [] ∧ r.fail ≠ none
  · obtain ⟨htk, hf⟩ := hrf
    cases hfe : r.fail with
    | none => exact absurd hfe hf
    | some e =>
      obtain ⟨n0, hr⟩ := hs1 e htk hfe
      have := recurse_resetfail (s' := ⟨lo_d ++ drow :: dhi, st, some cur, be⟩) rfl (hr lo_d hL)
      simp only [Seg, hfe, htk]
      exact ⟨sp, rfl, (hlinke _ _ this).toDS_err⟩
  · obtain ⟨n0, row1, hi1, hr, _, hq, hc, hrun⟩ := hs2 hrf
    have hr := hr lo_d hL
    obtain ⟨n1, t1, done1, rowA, hiA, hstep, _, hdone, hnd⟩ := hrun lo_d hL (getW row1) d (cur :: st) be
    rw [setWm_self] at hstep
    have hm := mstep_child hstep
    have hrec := recurse_of_mstep (s' := ⟨lo_d ++ drow :: dhi, st, some cur, be⟩) rfl hr hm
    cases done1 with
    | true =>
      obtain ⟨hreq, hqA, hcA⟩ := hdone rfl
      simp only [if_true] at hrec
      have hcs := hlink _ _ hrec rfl ⟨rowA, hiA, rfl⟩
      rw [hreq]
      exact ⟨_, Emits.one hcs.toDS_tok, rowA, hiA, rfl, hqA, hcA⟩
    | false =>
      obtain ⟨rest, htoks, hrest⟩ := hnd rfl
      simp only [Bool.false_eq_true, if_false] at hrec
      have hcs := hlink _ _ hrec rfl ⟨rowA, hiA, rfl⟩
      have hR := hrest (getW rowA) (Pass.refl _ _ _ _)
      rw [setWm_self] at hR
      unfold Rest at hR
      unfold Seg
      cases hfe : r.fail with
      | none =>
        simp only [hfe] at hR ⊢
        obtain ⟨mid, last, rowM, hiM, row2, hi2, n2, hre, hem, _, hfin, _, hq2, hc2⟩ := hR
        have hpop : DS ts a trs ⟨lo_d ++ rowM :: hiM, cur :: st, some d, be⟩
            (.ok ⟨last, false, ⟨lo_d ++ row2 :: hi2, st, some cur, be⟩⟩) :=
          CS.toDS_pop ⟨n2, d, rfl, hfin, NS.ok⟩
        refine ⟨_, ?_, row2, hi2, rfl, hq2, hc2⟩
        rw [htoks, hre]
        exact ⟨_, hcs.toDS_tok, Emits.append hem (Emits.one hpop)⟩
      | some e =>
        simp only [hfe] at hR ⊢
        obtain ⟨smid, hem, hd⟩ := hR
        rw [htoks]
        exact ⟨smid, ⟨_, hcs.toDS_tok, hem⟩, hd⟩

theorem setWm_map (mk : Mask) (w : WVal) (r : Row) : (setWm mk w r).map = r.map := rfl
theorem setWm_prim (mk : Mask) (w : WVal) (r : Row) : (setWm mk w r).prim = r.prim := rfl
theorem setWm_wild (mk : Mask) (w : WVal) (r : Row) : (setWm mk w r).wild = r.wild := rfl
theorem setWm_slice (mk : Mask) (w : WVal) (r : Row) : (setWm mk w r).slice = r.slice := rfl
theorem setWm_struct (mk : Mask) (w : WVal) (r : Row) : (setWm mk w r).struct = r.struct := rfl
theorem setWm_err (mk : Mask) (w : WVal) (r : Row) : (setWm mk w r).err = r.err := rfl

theorem Clean.setWm {mk : Mask} {w : WVal} {r : Row} {rows : List Row} (h : Clean (r :: rows)) :
    Clean (setWm mk w r :: rows) := Clean.cons h.head h.tail

theorem cfgBare_setWm {m : Mach} {k : MK} {r : Row} (mk : Mask) (w : WVal) (h : CfgBare m k r) :
    CfgBare m k (setWm mk w r) := by
  cases m <;> exact h

theorem RunsAs.monoQ {mk vm : Mask} {Q Q' : Row → Prop} {lo row1 hi1 c r} (h : RunsAs ts a trs mk vm Q lo row1 hi1 c r)
    (hq : ∀ x, Q x → Q' x) : RunsAs ts a trs mk vm Q' lo row1 hi1 c r := by
  intro w cur st be
  obtain ⟨n1, t1, done1, rowA, hiA, h1, h2, h3, h4⟩ := h w cur st be
  refine ⟨n1, t1, done1, rowA, hiA, h1, h2, fun hd => ?_, fun hd => ?_⟩
  · obtain ⟨x1, x2, x3⟩ := h3 hd
    exact ⟨x1, hq _ x2, x3⟩
  · obtain ⟨rest, x1, x2⟩ := h4 hd
    refine ⟨rest, x1, fun w' hp => ?_⟩
    have := x2 w' hp
    unfold Rest at this ⊢
    cases hf : r.fail with
    | some e => simp only [hf] at this ⊢; exact this
    | none =>
      simp only [hf] at this ⊢
      obtain ⟨mid, last, rowM, hiM, row2, hi2, n2, y1, y2, y3, y4, y5, y6, y7⟩ := this
      exact ⟨mid, last, rowM, hiM, row2, hi2, n2, y1, y2, y3, y4, y5, hq _ y6, y7⟩

theorem Sim.monoQ {mk vm : Mask} {Q Q' : Row → Prop} {L row hi c rt v r} (h : Sim ts a trs mk vm Q L row hi c rt v r)
    (hq : ∀ x, Q x → Q' x) : Sim ts a trs mk vm Q' L row hi c rt v r := by
  refine ⟨h.1, fun hne => ?_⟩
  obtain ⟨n, row1, hi1, h1, h2, h3, h4, h5⟩ := h.2 hne
  exact ⟨n, row1, hi1, h1, h2, hq _ h3, h4, fun lo hl => (h5 lo hl).monoQ hq⟩
