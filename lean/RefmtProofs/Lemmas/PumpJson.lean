/-
  The JSON decoder machine: an input that `decode` rejects is rejected with every amount of fuel
  (from the refinement proof of C05: the rejection lemmas `VF/EF/MF` hold for every fuel of the machine).
-/
import RefmtModel
import RefmtProofs.Lemmas.JsonDec
import RefmtProofs.Lemmas.PumpL
set_option linter.unusedSimpArgs false
set_option linter.unusedVariables false
namespace Refmt.PumpL
open Refmt Refmt.JsonDec Refmt.Spec.Json Refmt.C05L

theorem json_err_any_fuel (bs : Bytes) (e : Err) (hdec : (JsonDec.decode (Rd.ofBytes bs)).res = .error e) (F : Nat) :
    IsErr (JsonDec.run F JsonDec.init ⟨bs, none, 0⟩ [] 0) := by
  obtain ⟨hV, _, _, hVF, _, _⟩ := all_fuel (2 * bs.length + 2)
  cases hs : skip bs with
  | nil =>
    obtain ⟨rd', e', hsub⟩ := sub_eof JsonDec.init bs 0 hs
    exact run_of_sub_err _ _ _ [] 0 _ _ _ hsub
  | cons b r =>
    have hstep : step JsonDec.init ⟨bs, none, 0⟩ = entryOut JsonDec.init ⟨r, none, 0⟩ b := by
      rw [step_eq]
      have := sub_value [] false bs 0 b r hs
      simp only [JsonDec.init] at this ⊢
      rw [this]
      simp [entryOut]
    cases hp : parseValue (2 * bs.length + 2) bs with
    | none =>
      cases F with
      | zero => exact ⟨_, rfl⟩
      | succ F =>
        have := hVF bs b r hp (by omega) hs JsonDec.init 0 F [] 0
        rw [← hstep, ← run_succ] at this
        exact this
    | some pr =>
      exfalso
      have href := decode_refines bs
      simp only at href
      have hpp : Spec.Json.parse bs = some pr := hp
      rw [hpp] at href
      obtain ⟨v, r'⟩ := pr
      simp only at href
      rw [href.2.1] at hdec
      cases hdec

theorem json_srcRun_err (bs : Bytes) (e : Err) (hdec : (JsonDec.decode (Rd.ofBytes bs)).res = .error e) (F : Nat) :
    (srcRun Pump.jsonSrc F JsonDec.init ⟨bs, none, 0⟩).2.1 = false := by
  obtain ⟨e', he⟩ := json_err_any_fuel bs e hdec F
  have := (json_run_eq F JsonDec.init ⟨bs, none, 0⟩ [] 0).2.1
  rw [he] at this
  simpa [isOk] using this.symm

end Refmt.PumpL
