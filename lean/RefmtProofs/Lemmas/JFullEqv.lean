-- the JSON round-trip value `rtJ` against the specified value `normV .json`, on the class `fullTy`
-- (see RefmtProofs/Props/C01JsonFull.lean; mirrors RefmtProofs/Lemmas/FullEqv.lean)
import RefmtProofs.Lemmas.JFullDefs
set_option linter.unusedSimpArgs false
set_option linter.unusedVariables false
set_option linter.unusedTactic false
set_option linter.unreachableTactic false
namespace Refmt.Obj
open Refmt Refmt.C13 Refmt.C11 Refmt.C12

variable {ts : Types} {a : Atlas} {trs : Trs} {it : IfaceTys}

/-! ### the round-trip value is the specified value up to the order of map entries -/

theorem rtj_eqv_norm (htr : TrsEqv trs) (he : UEnv ts a it) (g : Nat) :
    (∀ p id v, p ≤ 64 → fullTy ts a p id = true → fullValJ ts a trs it g id v = true →
      ValEqv'' (rtJ ts a trs it g id v) (normV .json ts a trs it g id v)) ∧
    (∀ p id v, p + 1 ≤ 64 → fullTy ts a (p + 1) id = true → (∀ e, ts.get id ≠ .ptr e) →
      fullValJB ts a trs it g id (pickBare ts a id) v = true →
      ValEqv'' (rtJB ts a trs it g id (pickBare ts a id) v) (normBare .json ts a trs it g id (pickBare ts a id) v)) := by
  induction g with
  | zero =>
    exact ⟨fun _ _ v _ _ _ => by simp only [rtJ, normV]; exact ValEqv''.refl v,
           fun _ _ v _ _ _ _ => by simp only [rtJB, normBare]; exact ValEqv''.refl v⟩
  | succ g ih =>
    constructor
    · intro p id v hp64 hp hs
      obtain ⟨n, base, p', hpeel, hpb, hnp, hch, hp'p⟩ := full_peel ts a p 64 0 id hp hp64
      simp only [Nat.zero_add] at hpeel
      rw [fullValJ_succ, hpeel] at hs
      rw [rtJ_succ, normVJ_succ, hpeel]
      simp only at hs ⊢
      split
      · rename_i hn0
        rw [if_pos hn0] at hs
        exact ih.2 p' base v (by omega) hpb hnp hs
      · rename_i hn0
        rw [if_neg hn0] at hs
        cases hdn : derefN n v with
        | none => exact ValEqv''.refl _
        | some inner =>
          rw [hdn] at hs
          simp only at hs ⊢
          split
          · exact ValEqv''.refl _
          · exact ValEqv''.wrap (ih.2 p' base inner (by omega) hpb hnp hs) n
    · intro p id v hp64 hp hnp hs
      cases fullTy_view hp hnp with
      | prim kk b hd hn => rw [(pick_prim hd hn).1, rtJB_prim, normBareJ_prim]; exact ValEqv''.refl _
      | bytes b hd hn => rw [(pick_bytes hd hn).1, rtJB_prim, normBareJ_prim]; exact ValEqv''.refl _
      | byteArr n hd hn => rw [(pick_byteArr hd hn).1, rtJB_prim, normBareJ_prim]; exact ValEqv''.refl _
      | slice e hd hn hpe =>
        rw [(pick_slice hd hn).1] at hs ⊢
        rw [rtJB_slice, normBareJ_slice]
        rw [fullValJB_slice] at hs
        cases v <;> try exact ValEqv''.refl _
        rename_i o
        cases o with
        | none => exact ValEqv''.refl _
        | some vs =>
          simp only [List.all_eq_true] at hs
          refine ValEqv''.slice (by simp) (fun q hq => ?_)
          obtain ⟨x, hx, rfl⟩ := zip_map_mem _ _ vs q hq
          exact ih.1 p e x (by omega) hpe (hs x hx)
      | arr n e hd hn hpe =>
        rw [(pick_arr hd hn).1] at hs ⊢
        rw [rtJB_array, normBareJ_array]
        rw [fullValJB_array] at hs
        cases v <;> try exact ValEqv''.refl _
        rename_i vs
        simp only [List.all_eq_true] at hs
        refine ValEqv''.arr (by simp) (fun q hq => ?_)
        obtain ⟨x, hx, rfl⟩ := zip_map_mem _ _ vs q hq
        exact ih.1 p e x (by omega) hpe (hs x hx)
      | map kt vt bk hd hn hkt hpe =>
        rw [(pick_map hd hn).1] at hs ⊢
        rw [rtJB_map, normBareJ_map]
        rw [fullValJB_map] at hs
        cases v <;> try exact ValEqv''.refl _
        rename_i o
        cases o with
        | none => exact ValEqv''.refl _
        | some es =>
          simp only [Bool.and_eq_true, List.all_eq_true] at hs
          obtain ⟨hstr, -⟩ := strKeysB_inv hs.1.1
          exact map_eqv a.defaultSort es _ _ hstr (fun q hq => ih.1 p vt q.2 (by omega) hpe (hs.2 q hq))
      | wild hd hn =>
        rw [(pick_wild hd hn).1] at hs ⊢
        cases v <;> try (rw [rtJB.eq_def, normBare.eq_def]; exact ValEqv''.refl _)
        rename_i o
        cases o with
        | none => rw [rtJB_wild_none, normBareJ_wild_none]; exact ValEqv''.refl _
        | some q =>
          obtain ⟨dt, dv⟩ := q
          rw [fullValJB_wild] at hs
          simp only [Bool.and_eq_true] at hs
          obtain ⟨hdnp, hs⟩ := hs
          have hdnp' := (notPtrB_iff _).mp hdnp
          have hpl : peel ts 64 0 dt = (0, dt) := C12L.peel_nonptr ts 64 0 dt hdnp'
          rw [rtJB_wild_some, normBareJ_wild_some, hpl]
          simp only [derefN]
          cases hc : isBareNullSer .json ts a trs dt dv with
          | true => simp only [if_true]; exact ValEqv''.refl _
          | false =>
            simp only [Bool.false_eq_true, if_false]
            split at hs
            · rename_i hpk
              simp only [hpk]
              exact ValEqv''.refl _
            · rename_i e' hpk
              simp only [Bool.and_eq_true, beq_iff_eq] at hs
              obtain ⟨rfl, hs⟩ := hs
              have he' : e' = it.iface := by
                have := C12.pick_sliceI he
                rw [hpk] at this
                cases this; rfl
              subst he'
              cases dv <;> try (cases hs; done)
              rename_i o
              cases o with
              | none => cases hs
              | some vs =>
                simp only [hpk, List.all_eq_true] at hs ⊢
                refine ValEqv''.iface (ValEqv''.slice (by simp) (fun q hq => ?_))
                obtain ⟨x, hx, rfl⟩ := zip_map_mem _ _ vs q hq
                simp only [boxAs_iface he]
                exact ih.1 1 it.iface x (by omega) (fullTy_iface he 0) (hs x hx)
            · rename_i k' vt' mode' hpk
              simp only [Bool.and_eq_true, beq_iff_eq] at hs
              obtain ⟨rfl, hs⟩ := hs
              have he' : vt' = it.iface ∧ mode' = a.defaultSort := by
                have := C12.pick_mapSI he
                rw [hpk] at this
                cases this; exact ⟨rfl, rfl⟩
              obtain ⟨rfl, rfl⟩ := he'
              cases dv <;> try (cases hs; done)
              rename_i o
              cases o with
              | none => cases hs
              | some es =>
                simp only [hpk, Bool.and_eq_true, List.all_eq_true] at hs ⊢
                obtain ⟨hstr, -⟩ := strKeysB_inv hs.1.1
                refine ValEqv''.iface ?_
                simp only [boxAs_iface he]
                exact map_eqv a.defaultSort es _ _ hstr (fun q hq => ih.1 1 it.iface q.2 (by omega) (fullTy_iface he 0) (hs.2 q hq))
            · cases hs
      | struct fds reg ty tag fields hd hent hnames hroutes hfok =>
        rw [(pick_struct hd hent).1] at hs ⊢
        rw [rtJB_structMap, normBareJ_structMap]
        rw [fullValJB_structMap] at hs
        simp only [List.all_eq_true] at hs
        unfold structFold
        rw [zeroVal_struct ts hd]
        refine fold_eqvF hd v _ _ p fields hfok (fun fld hf hemit fv ht => ?_) _ _ (by simp) (by simp)
          (fun j x y hx hy => by rw [hx] at hy; cases hy; exact ValEqv''.refl _)
        have := hs fld hf
        simp only [hemit, Bool.not_true, Bool.false_or, ht] at this
        obtain ⟨_, i, fd, hroute, _, _, hst⟩ := hfok fld hf
        exact ih.1 p fld.ty fv (by omega) hst this
      | transform reg ty tag fn mty hb hent hmp htb hm =>
        rw [(pick_transform hb hent).1] at hs ⊢
        rw [rtJB_transform, normBareJ_transform]
        rw [fullValJB_transform] at hs
        cases htm : trs.m fn v with
        | none => exact ValEqv''.refl _
        | some tv =>
          simp only [htm, Bool.and_eq_true] at hs ⊢
          obtain ⟨⟨_, hfv⟩, hu⟩ := hs
          obtain ⟨b, hb'⟩ := Option.isSome_iff_exists.mp hu
          obtain ⟨a', ha', hab⟩ := htr fn _ _ b (ih.1 p mty tv (by omega) hm hfv) hb'
          rw [ha', hb']
          exact hab
      | union m reg ty tag members hd hent hnames hmem =>
        rw [(pick_union hd hent).1] at hs ⊢
        rw [rtJB_union, normBareJ_union]
        rw [fullValJB_union] at hs
        cases v <;> try exact ValEqv''.refl _
        rename_i o
        cases o with
        | none => exact ValEqv''.refl _
        | some q =>
          obtain ⟨dt, dv⟩ := q
          simp only at hs ⊢
          cases hfind : (members.find? fun (x : Bytes × Nat) => (a.pool[x.2]?.map (·.ty)) == some dt) with
          | none => simp only [hfind]; exact ValEqv''.refl _
          | some q =>
            obtain ⟨nm, idx⟩ := q
            simp only [hfind] at hs ⊢
            cases hme : a.pool[idx]? with
            | none => simp only [hme]; exact ValEqv''.refl _
            | some me =>
              simp only [hme] at hs ⊢
              obtain ⟨hin, hty⟩ := find_member_ty hfind hme
              obtain ⟨me', fs, fds, hme', hk, hds, hmach, -, -, -, hfull⟩ := member_mach (hmem _ hin)
              simp only at hme'
              rw [hme] at hme'
              cases hme'
              subst hty
              rw [hmach] at hs ⊢
              obtain ⟨p', rfl⟩ : ∃ p', p = p' + 1 := by
                cases p with
                | zero => simp [fullTy] at hfull
                | succ p' => exact ⟨p', rfl⟩
              exact ValEqv''.iface (ih.2 p' me.ty dv (by omega) hfull (by simp [hds]) hs)

end Refmt.Obj
