/-
  Stateful object unmarshaller (UnmarshalMach.lean) against the functional model: the SCALAR fragment
  (primitive machine incl. range checks, byte strings / byte arrays, error thunks; directly or behind pointers of
  any depth).  One token per value: the whole run is one `Step`.
-/
import RefmtModel.Model.Obj.UnmarshalMach
set_option linter.unusedSimpArgs false
set_option linter.unusedVariables false
namespace Refmt.UMachL
open Refmt Refmt.Obj Refmt.Obj.UM

variable {ts : Types} {a : Atlas} {trs : Trs} {it : IfaceTys}

/-- the machine selected for `id` (pointers peeled) is the primitive machine or an error thunk -/
def Scalar (ts : Types) (a : Atlas) (id : Nat) : Prop :=
  upickBare ts a (peel ts 64 0 id).2 = .prim ∨ upickBare ts a (peel ts 64 0 id).2 = .errThunk

theorem yieldBare_prim {f : Nat} (row : URow) (id : Nat) (h : upickBare ts a id = .prim) :
    yieldBare ts a (f+2) row id = .ok ({ row with prim := { row.prim with ty := id } }, .prim) := by
  simp [yieldBare, cfgU, h]

theorem yieldBare_err {f : Nat} (row : URow) (id : Nat) (h : upickBare ts a id = .errThunk) :
    yieldBare ts a (f+2) row id = .ok ({ row with err := { err := some .err } }, .errThunk) := by
  simp [yieldBare, cfgU, h]

@[simp] theorem zero_anyKind : URow.zero.prim.anyKind = false := rfl

theorem refines_scalar_prim {n sf id : Nat} (h : upickBare ts a (peel ts 64 0 id).2 = .prim)
    (dirty : UState) (cur : Val) (toks : List Tok) :
    urun ts a trs it (sf+4) (UM.bind ts a (sf+4) dirty id cur) toks = unmV ts a trs it (n+2) id cur toks := by
  cases toks with
  | nil => simp [urun, unmV]
  | cons t rest =>
    rcases hp : peel ts 64 0 id with ⟨p, base⟩
    rw [hp] at h
    simp only at h
    by_cases hp0 : p = 0
    · subst hp0
      simp [urun, UM.bind, requisition, yieldU, hp, yieldBare_prim _ _ h, resetM, resetBody, resetPrim, updRow,
        pump, ustep, ustepBody, stepM, stepBody, stepPrim, unmV, unmBare, h, fin, xerr]
      cases storePrim (ts.get base) t <;> simp [XFail.toURes, xerr, fin]
    · have hb : (p == 0) = false := by simp [hp0]
      by_cases hnull : t.body = .null
      · simp [urun, UM.bind, requisition, yieldU, hp, hb, yieldBare_prim _ _ h, resetM, resetBody, resetPtr, updRow,
          pump, ustep, ustepBody, stepM, stepBody, stepPtr, UState.upd, unmV, hnull, fin]
      · have hu : unmV ts a trs it (n+2) id cur (t :: rest) =
            match unmBare ts a trs it (n+1) base .prim (innerCur ts p id cur) (t :: rest) with
            | .ok v r u => .ok (wrapPtr p v) r u
            | x => x := by
          simp only [unmV, hp, hb, h]
          split
          · simp_all
          · rfl
        rw [hu]
        have hnb : ∀ (A B : X SRes), (match t.body with | .null => A | _ => B) = B := by
          intro A B; split <;> simp_all
        cases hs : storePrim (ts.get base) t <;>
        simp [urun, UM.bind, requisition, yieldU, hp, hb, yieldBare_prim _ _ h, resetM, resetBody, resetPtr, updRow,
          pump, ustep, ustepBody, stepM, stepBody, stepPtr, UState.upd, resetPrim, stepPrim, unmBare, hnb, hs,
          XFail.toURes, xerr, fin]

theorem refines_scalar_err {n sf id : Nat} (h : upickBare ts a (peel ts 64 0 id).2 = .errThunk)
    (dirty : UState) (cur : Val) (toks : List Tok) :
    urun ts a trs it (sf+4) (UM.bind ts a (sf+4) dirty id cur) toks = unmV ts a trs it (n+2) id cur toks := by
  cases toks with
  | nil => simp [urun, unmV]
  | cons t rest =>
    rcases hp : peel ts 64 0 id with ⟨p, base⟩
    rw [hp] at h
    simp only at h
    by_cases hp0 : p = 0
    · subst hp0
      simp [urun, UM.bind, requisition, yieldU, hp, yieldBare_err _ _ h, resetM, resetBody, resetErr, updRow,
        unmV, unmBare, h, XFail.toURes]
    · have hb : (p == 0) = false := by simp [hp0]
      by_cases hnull : t.body = .null
      · simp [urun, UM.bind, requisition, yieldU, hp, hb, yieldBare_err _ _ h, resetM, resetBody, resetPtr, updRow,
          pump, ustep, ustepBody, stepM, stepBody, stepPtr, UState.upd, unmV, hnull, fin]
      · have hu : unmV ts a trs it (n+2) id cur (t :: rest) = .err 0 := by
          simp only [unmV, hp, hb, h]
          split
          · simp_all
          · simp [unmBare]
        rw [hu]
        have hnb : ∀ (A B : X SRes), (match t.body with | .null => A | _ => B) = B := by
          intro A B; split <;> simp_all
        simp [urun, UM.bind, requisition, yieldU, hp, hb, yieldBare_err _ _ h, resetM, resetBody, resetPtr, updRow,
          pump, ustep, ustepBody, stepM, stepBody, stepPtr, UState.upd, resetErr, hnb, XFail.toURes]

/-- the scalar fragment: any dirty state, any current content of the target, any token list, enough fuel -/
theorem refines_scalar {n sf id : Nat} (hn : 2 ≤ n) (hsf : 4 ≤ sf) (h : Scalar ts a id)
    (dirty : UState) (cur : Val) (toks : List Tok) :
    urun ts a trs it sf (UM.bind ts a sf dirty id cur) toks = unmV ts a trs it n id cur toks := by
  obtain ⟨n', rfl⟩ : ∃ n', n = n' + 2 := ⟨n - 2, by omega⟩
  obtain ⟨sf', rfl⟩ : ∃ s', sf = s' + 4 := ⟨sf - 4, by omega⟩
  rcases h with h | h
  · exact refines_scalar_prim h dirty cur toks
  · exact refines_scalar_err h dirty cur toks

end Refmt.UMachL
