/-
  Decoder-machine lemmas for C03: the fault-free reader with any push-back mark, the string and number
  scanners on the encoder's texts, `acceptValue` per token, value positions (`VCtx`), single steps,
  `run` over a prefix (`DRuns`, with a condition on what follows for numbers), and the mutual induction
  `decV / decL / decE` with the top-level `decTop`.
-/
import RefmtProofs.Lemmas.JsonParseL
set_option linter.unusedSimpArgs false
set_option linter.unusedVariables false
namespace Refmt.C03L
open Refmt Refmt.JsonDec Refmt.Spec.Json
open Refmt.JsonEnc (Cfg)

/-! ### Reader without faults (any push-back mark) -/

/-- a fault-free reader over `bs` whose push-back mark is `pb` -/
abbrev rdOf (bs : Bytes) (pb : Nat) : Rd := ⟨bs, none, pb⟩

theorem read1_cons (b : Nat) (r : Bytes) (pb : Nat) :
    Rd.read1 (rdOf (b :: r) pb) = (.ok (b, rdOf r 0), rdOf r 0) := by
  simp [Rd.read1, rdOf]

theorem read1_nil (pb : Nat) : Rd.read1 (rdOf [] pb) = (.error .eof, rdOf [] pb) := by
  simp [Rd.read1, rdOf]

theorem skipWs_ws : ∀ (w : Bytes) (fuel b : Nat) (r : Bytes) (pb : Nat), WsOnly w → isWs b = false → w.length < fuel →
    skipWs fuel (rdOf (w ++ b :: r) pb) = (.ok (b, rdOf r 0), rdOf r 0)
  | [], fuel, b, r, pb, _, hb, hf => by
    obtain ⟨k, rfl⟩ : ∃ k, fuel = k + 1 := ⟨fuel - 1, by simp at hf; omega⟩
    simp [skipWs, read1_cons, hb]
  | x :: w, fuel, b, r, pb, hw, hb, hf => by
    obtain ⟨k, rfl⟩ : ∃ k, fuel = k + 1 := ⟨fuel - 1, by simp at hf; omega⟩
    simp only [List.cons_append, skipWs, read1_cons, hw x (by simp), if_true]
    exact skipWs_ws w k b r 0 (fun y hy => hw y (by simp [hy])) hb (by simp at hf; omega)

theorem scanString_step (fuel : Nat) (st st' : SS) (b : Nat) (r acc : Bytes) (pb : Nat)
    (h : strStep st b = .ok (some st')) :
    scanString (fuel + 1) st (rdOf (b :: r) pb) acc = scanString fuel st' (rdOf r 0) (b :: acc) := by
  simp [scanString, read1_cons, h]

theorem scanString_body {body : Bytes} (h : SBody body) : ∀ (fuel : Nat) (acc rest : Bytes) (pb : Nat), body.length < fuel →
    scanString fuel .normal (rdOf (body ++ 34 :: rest) pb) acc = (.ok (acc.reverse ++ body, rdOf rest 0), rdOf rest 0) := by
  induction h with
  | nil =>
    intro fuel acc rest pb hf
    obtain ⟨k, rfl⟩ : ∃ k, fuel = k + 1 := ⟨fuel - 1, by omega⟩
    simp [scanString, read1_cons, strStep_quote]
  | plain c r h1 h2 h3 _ ih =>
    intro fuel acc rest pb hf
    obtain ⟨k, rfl⟩ : ∃ k, fuel = k + 1 := ⟨fuel - 1, by omega⟩
    rw [List.cons_append, scanString_step _ _ _ _ _ _ _ (strStep_plain c h1 h2 h3),
      ih k (c :: acc) rest 0 (by simp at hf; omega)]
    simp
  | esc x r hx _ ih =>
    intro fuel acc rest pb hf
    obtain ⟨k, rfl⟩ : ∃ k, fuel = k + 2 := ⟨fuel - 2, by simp at hf; omega⟩
    simp only [List.cons_append]
    rw [scanString_step _ _ _ _ _ _ _ strStep_bs, scanString_step _ _ _ _ _ _ _ (strStep_esc x hx),
      ih k _ rest 0 (by simp at hf; omega)]
    simp
  | uni a b c d r ha hb hc hd _ ih =>
    intro fuel acc rest pb hf
    obtain ⟨k, rfl⟩ : ∃ k, fuel = k + 6 := ⟨fuel - 6, by simp at hf; omega⟩
    simp only [List.cons_append]
    rw [scanString_step _ _ _ _ _ _ _ strStep_bs, scanString_step _ _ _ _ _ _ _ strStep_u,
      scanString_step _ _ _ _ _ _ _ (strStep_u0 a ha), scanString_step _ _ _ _ _ _ _ (strStep_u1 b hb),
      scanString_step _ _ _ _ _ _ _ (strStep_u2 c hc), scanString_step _ _ _ _ _ _ _ (strStep_u3 d hd),
      ih k _ rest 0 (by simp at hf; omega)]
    simp

theorem decString_esc (s rest : Bytes) (pb : Nat) :
    decString (rdOf (esc s ++ 34 :: rest) pb) = (.ok (toValidUtf8 s, rdOf rest 0), rdOf rest 0) := by
  have hE := esc_Esc s
  have hscan := scanString_body hE.body ((esc s ++ 34 :: rest).length + 1) [] rest pb (by simp; omega)
  have hu := hE.unquote ((esc s).length + 1) (by omega)
  simp only [List.reverse_nil, List.nil_append] at hscan
  simp only [decString, hscan, hu, Option.getD_some]

theorem scanNumber_run : ∀ (r : Bytes) (st st' : NS) (acc : Bytes) (fuel : Nat) (rest : Bytes) (pb : Nat),
    numRun st r = some st' → numAccept st' = true → Stop rest = true → r.length < fuel →
    ∃ pb', scanNumber fuel st (rdOf (r ++ rest) pb) acc = (.ok (acc.reverse ++ r, rdOf rest pb'), rdOf rest pb')
  | [], st, st', acc, fuel, rest, pb, h, ha, hs, hf => by
    obtain ⟨k, rfl⟩ : ∃ k, fuel = k + 1 := ⟨fuel - 1, by simp at hf; omega⟩
    simp only [numRun, Option.some.injEq] at h
    subst h
    cases rest with
    | nil => exact ⟨pb, by simp [scanNumber, read1_nil, numStep_eof st ha]⟩
    | cons b r' =>
      refine ⟨1, ?_⟩
      simp [scanNumber, read1_cons, numStep_end st b ha (by simpa [Stop] using hs), Rd.unread1, rdOf]
  | b :: r, st, st', acc, fuel, rest, pb, h, ha, hs, hf => by
    obtain ⟨k, rfl⟩ : ∃ k, fuel = k + 1 := ⟨fuel - 1, by simp at hf; omega⟩
    simp only [numRun] at h
    split at h
    · rename_i st1 hs1
      obtain ⟨pb', e⟩ := scanNumber_run r st1 st' (b :: acc) k rest 0 h ha hs (by simp at hf; omega)
      refine ⟨pb', ?_⟩
      simp only [List.cons_append, scanNumber, read1_cons, hs1]
      rw [e]; simp
    · simp at h

theorem decNumber_ok (T : Bytes) (b' : Body) (hok : numberOk T = true) (ht : numTok T = .ok b')
    (rest : Bytes) (hs : Stop rest = true) :
    ∃ b0 r, T = b0 :: r ∧ (b0 = 45 ∨ isDigit b0 = true) ∧
      ∀ pb, ∃ pb', decNumber (rdOf (r ++ rest) pb) b0 = (.ok (b', rdOf rest pb'), rdOf rest pb') := by
  obtain ⟨b0, r, st, rfl, hb0, hrun, hacc⟩ := numberOk_head T hok
  refine ⟨b0, r, rfl, hb0, ?_⟩
  intro pb
  obtain ⟨pb', e⟩ := scanNumber_run r (numStart b0) st [b0] ((r ++ rest).length + 2) rest pb hrun hacc hs (by simp; omega)
  refine ⟨pb', ?_⟩
  simp only [numStart] at e
  simp only [decNumber]
  rw [e]
  simp [ht]

theorem literal_ok (s : St) (lit rest : Bytes) (pb : Nat) (body : Body) (hl : lit ≠ []) :
    literal s (rdOf (lit ++ rest) pb) lit body = ⟨s, rdOf rest 0, .tok ⟨body, none⟩ true⟩ := by
  have h0 : lit.length ≠ 0 := by cases lit <;> simp_all
  simp [literal, Rd.readN, h0, rdOf]


/-! ### `acceptValue` on the text of one token -/

theorem av_arrOpen (s : St) (rd : Rd) :
    acceptValue s rd 91 = ⟨push s .arr, rd, .tok ⟨.arrOpen (-1), none⟩ false⟩ := by
  simp [acceptValue]

theorem av_mapOpen (s : St) (rd : Rd) :
    acceptValue s rd 123 = ⟨push s .mapKey, rd, .tok ⟨.mapOpen (-1), none⟩ false⟩ := by
  simp [acceptValue]

theorem av_num (T : Bytes) (b' : Body) (hok : numberOk T = true) (ht : numTok T = .ok b') (s : St)
    (rest : Bytes) (hs : Stop rest = true) :
    ∃ b0 r, T = b0 :: r ∧ ∀ pb, ∃ pb', acceptValue s (rdOf (r ++ rest) pb) b0 = ⟨s, rdOf rest pb', .tok ⟨b', none⟩ true⟩ := by
  obtain ⟨b0, r, rfl, hb0, hdec⟩ := decNumber_ok T b' hok ht rest hs
  refine ⟨b0, r, rfl, ?_⟩
  intro pb
  obtain ⟨pb', e⟩ := hdec pb
  refine ⟨pb', ?_⟩
  have hd : (b0 == 45 || isDigit b0) = true := by
    rcases hb0 with rfl | h <;> simp [*]
  have h1 : b0 ≠ 123 ∧ b0 ≠ 91 ∧ b0 ≠ 34 ∧ b0 ≠ 110 ∧ b0 ≠ 116 ∧ b0 ≠ 102 := by
    simp only [isDigit, Bool.and_eq_true, decide_eq_true_eq] at hb0; omega
  simp only [acceptValue, beq_iff_eq, h1, if_false, hd, if_true, e]

theorem av_scalar (b : Body) (h : decOk b = true) (s : St) (rest : Bytes) (hs : Stop rest = true) :
    ∃ hd tl, scalarTxt b = hd :: tl ∧
      ∀ pb, ∃ pb', acceptValue s (rdOf (tl ++ rest) pb) hd = ⟨s, rdOf rest pb', .tok (retypeTok ⟨b, none⟩) true⟩ := by
  by_cases hn : isNumBody b = true
  · obtain ⟨h1, h2⟩ := num_facts b h hn
    exact av_num _ _ h1 h2 s rest hs
  · cases b <;> simp [isNumBody] at hn <;> simp [decOk] at h
    · refine ⟨110, [117, 108, 108], rfl, fun pb => ⟨0, ?_⟩⟩
      have := literal_ok s [117, 108, 108] rest pb .null (by simp)
      simp only [List.cons_append, List.nil_append] at this
      simp [acceptValue, this, retypeTok]
    · rename_i x
      refine ⟨34, esc x ++ [34], rfl, fun pb => ⟨0, ?_⟩⟩
      have := decString_esc x rest pb
      simp only [List.append_assoc, List.cons_append, List.nil_append]
      simp [acceptValue, this, retypeTok]
    · rename_i x
      cases x
      · refine ⟨102, [97, 108, 115, 101], rfl, fun pb => ⟨0, ?_⟩⟩
        have := literal_ok s [97, 108, 115, 101] rest pb (.bool false) (by simp)
        simp only [List.cons_append, List.nil_append] at this
        simp [acceptValue, this, retypeTok]
      · refine ⟨116, [114, 117, 101], rfl, fun pb => ⟨0, ?_⟩⟩
        have := literal_ok s [114, 117, 101] rest pb (.bool true) (by simp)
        simp only [List.cons_append, List.nil_append] at this
        simp [acceptValue, this, retypeTok]

/-! ### Value positions of the decoder machine -/

/-- In state `s`, after the bytes `pre`, the next step reads one value with `acceptValue` in state `sIn`
    (inside a container, so the helper's done flag is dropped), and `sIn` has a frame to return to. -/
def VCtx (s sIn : St) (pre : Bytes) : Prop :=
  (∃ g stk, sIn.stack = g :: stk) ∧
  ∀ b r pb, vStartByte b → subStep s (rdOf (pre ++ b :: r) pb) = inContainer (acceptValue sIn (rdOf r 0) b)

theorem VCtx_arr {c : Cfg} (hc : CfgWs c) (d : Nat) (q : JsonDec.Frame) (stk : List JsonDec.Frame) (sm : Bool) :
    VCtx ⟨q :: stk, ⟨.arr, sm⟩⟩ ⟨q :: stk, ⟨.arr, true⟩⟩ (sep c d sm) := by
  refine ⟨⟨q, stk, rfl⟩, ?_⟩
  intro b r pb hv
  have hws := sep_tail_ws hc d
  cases sm
  · have := skipWs_ws _ ((sep c d false ++ b :: r).length + 1) b r pb hws hv.1 (by simp [sep]; omega)
    simp only [sep, Bool.false_eq_true, if_false, List.nil_append] at this ⊢
    simp only [subStep, rdOf, this, afterSome, arrEntry, beq_iff_eq, hv.2.1, if_false, Bool.false_eq_true]
  · have h1 := skipWs_ws [] ((sep c d true ++ b :: r).length + 1) 44
      ((c.lineBytes ++ (List.replicate d c.indent).flatten) ++ b :: r) pb WsOnly.nil (by decide) (by simp)
    have h2 := skipWs_ws _ (((c.lineBytes ++ (List.replicate d c.indent).flatten) ++ b :: r).length + 1) b r 0 hws hv.1
      (by simp; omega)
    simp only [sep, if_true, List.nil_append, List.cons_append, List.append_assoc] at h1 h2 ⊢
    simp only [subStep, rdOf, h1, afterSome, if_true, show ((44 : Nat) == 93) = false by decide, Bool.false_eq_true,
      if_false, beq_self_eq_true, h2, arrEntry, beq_iff_eq, hv.2.1]

def colonWs (c : Cfg) : Bytes := if c.line.isSome then [32] else []

theorem colon_eq (c : Cfg) : colon c = 58 :: colonWs c := rfl

theorem colonWs_ws (c : Cfg) : WsOnly (colonWs c) := by
  unfold colonWs
  split
  · intro x hx; simp at hx; subst hx; decide
  · exact WsOnly.nil

theorem VCtx_mapVal (q : JsonDec.Frame) (stk : List JsonDec.Frame) (w : Bytes) (hw : WsOnly w) :
    VCtx ⟨q :: stk, ⟨.mapVal, false⟩⟩ ⟨q :: stk, ⟨.mapKey, true⟩⟩ w := by
  refine ⟨⟨q, stk, rfl⟩, ?_⟩
  intro b r pb hv
  have := skipWs_ws w ((w ++ b :: r).length + 1) b r pb hw hv.1 (by simp; omega)
  simp only [subStep, rdOf, this]


/-! ### Single steps -/

theorem subStep_skip (s : St) (w : Bytes) (b : Nat) (r : Bytes) (pb : Nat) (hw : WsOnly w) (hb : isWs b = false) :
    subStep s (rdOf (w ++ b :: r) pb) =
      match s.frame.k with
      | .value => acceptValue s (rdOf r 0) b
      | .arr => afterSome s (rdOf r 0) b 93 .arrClose arrEntry
      | .mapKey => afterSome s (rdOf r 0) b 125 .mapClose mapEntry
      | .mapVal => inContainer (acceptValue { s with frame := ⟨.mapKey, true⟩ } (rdOf r 0) b) := by
  have := skipWs_ws w ((w ++ b :: r).length + 1) b r pb hw hb (by simp; omega)
  simp only [subStep, rdOf, this]
  rfl

theorem dstep_value {s sIn : St} {pre : Bytes} (hc : VCtx s sIn pre) (b : Body) (h : decOk b = true)
    (rest : Bytes) (hs : Stop rest = true) (pb : Nat) :
    ∃ pb', step s (rdOf (pre ++ (scalarTxt b ++ rest)) pb) = ⟨sIn, rdOf rest pb', .tok (retypeTok ⟨b, none⟩) false⟩ := by
  obtain ⟨hd, tl, e, hav⟩ := av_scalar b h sIn rest hs
  obtain ⟨hd', tl', e', hv⟩ := scalarTxt_head b h
  rw [e] at e'
  obtain ⟨rfl, rfl⟩ := List.cons.inj e'
  obtain ⟨pb', ha⟩ := hav 0
  refine ⟨pb', ?_⟩
  have := hc.2 hd (tl ++ rest) pb hv
  rw [e, List.cons_append]
  simp only [step, this, ha, inContainer]

theorem dstep_open_arr {s sIn : St} {pre : Bytes} (hc : VCtx s sIn pre) (rest : Bytes) (pb : Nat) :
    step s (rdOf (pre ++ 91 :: rest) pb) = ⟨push sIn .arr, rdOf rest 0, .tok ⟨.arrOpen (-1), none⟩ false⟩ := by
  have := hc.2 91 rest pb (by unfold vStartByte; decide)
  simp only [step, this, av_arrOpen, inContainer]

theorem dstep_open_map {s sIn : St} {pre : Bytes} (hc : VCtx s sIn pre) (rest : Bytes) (pb : Nat) :
    step s (rdOf (pre ++ 123 :: rest) pb) = ⟨push sIn .mapKey, rdOf rest 0, .tok ⟨.mapOpen (-1), none⟩ false⟩ := by
  have := hc.2 123 rest pb (by unfold vStartByte; decide)
  simp only [step, this, av_mapOpen, inContainer]

theorem mapEntry_key (s : St) (k rest : Bytes) :
    mapEntry s (rdOf (esc k ++ 34 :: 58 :: rest) 0) 34 =
      ⟨{ s with frame := ⟨.mapVal, false⟩ }, rdOf rest 0, .tok ⟨.str (toValidUtf8 k), none⟩ false⟩ := by
  have hds := decString_esc k (58 :: rest) 0
  have h58 := skipWs_ws [] ((58 :: rest).length + 1) 58 rest 0 WsOnly.nil (by decide) (by simp)
  simp only [List.nil_append] at h58
  simp only [mapEntry, hds, rdOf] at h58 ⊢
  simp only [h58]
  simp

theorem dstep_key {c : Cfg} (hc : CfgWs c) (d : Nat) (q : JsonDec.Frame) (stk : List JsonDec.Frame) (sm : Bool)
    (k rest : Bytes) (pb : Nat) :
    step ⟨q :: stk, ⟨.mapKey, sm⟩⟩ (rdOf (sep c d sm ++ 34 :: (esc k ++ 34 :: 58 :: rest)) pb) =
      ⟨⟨q :: stk, ⟨.mapVal, false⟩⟩, rdOf rest 0, .tok ⟨.str (toValidUtf8 k), none⟩ false⟩ := by
  have hws := sep_tail_ws hc d
  cases sm
  · have := subStep_skip ⟨q :: stk, ⟨.mapKey, false⟩⟩ _ 34 (esc k ++ 34 :: 58 :: rest) pb hws (by decide)
    simp only [sep, Bool.false_eq_true, if_false, List.nil_append]
    simp only [step, this, afterSome, Bool.false_eq_true, if_false, mapEntry_key]
  · have h1 := subStep_skip ⟨q :: stk, ⟨.mapKey, true⟩⟩ [] 44
      ((c.lineBytes ++ (List.replicate d c.indent).flatten) ++ 34 :: (esc k ++ 34 :: 58 :: rest)) pb WsOnly.nil (by decide)
    have h2 := skipWs_ws _ (((c.lineBytes ++ (List.replicate d c.indent).flatten) ++ 34 :: (esc k ++ 34 :: 58 :: rest)).length + 1)
      34 (esc k ++ 34 :: 58 :: rest) 0 hws (by decide) (by simp; omega)
    simp only [sep, if_true, List.nil_append, List.cons_append, List.append_assoc] at h1 h2 ⊢
    simp only [step, h1, afterSome, if_true, show ((44 : Nat) == 125) = false by decide,
      Bool.false_eq_true, if_false, beq_self_eq_true, rdOf, h2]
    have := mapEntry_key ⟨q :: stk, ⟨.mapKey, true⟩⟩ k rest
    simp only [rdOf] at this
    simp only [this]

theorem dstep_arrClose_nested {c : Cfg} (hc : CfgWs c) (d : Nat) (sm' : Bool) (f g : JsonDec.Frame)
    (stk : List JsonDec.Frame) (sm : Bool) (rest : Bytes) (pb : Nat) :
    step ⟨f :: g :: stk, ⟨.arr, sm⟩⟩ (rdOf (closeSep c d sm' ++ 93 :: rest) pb) =
      ⟨⟨g :: stk, f⟩, rdOf rest 0, .tok ⟨.arrClose, none⟩ false⟩ := by
  have := subStep_skip ⟨f :: g :: stk, ⟨.arr, sm⟩⟩ _ 93 rest pb (closeSep_ws hc d sm') (by decide)
  cases sm <;> simp [step, this, afterSome, arrEntry]

theorem dstep_arrClose_top {c : Cfg} (hc : CfgWs c) (d : Nat) (sm' : Bool) (f : JsonDec.Frame) (sm : Bool)
    (rest : Bytes) (pb : Nat) :
    step ⟨[f], ⟨.arr, sm⟩⟩ (rdOf (closeSep c d sm' ++ 93 :: rest) pb) =
      ⟨⟨[f], ⟨.arr, sm⟩⟩, rdOf rest 0, .tok ⟨.arrClose, none⟩ true⟩ := by
  have := subStep_skip ⟨[f], ⟨.arr, sm⟩⟩ _ 93 rest pb (closeSep_ws hc d sm') (by decide)
  cases sm <;> simp [step, this, afterSome, arrEntry]

theorem dstep_mapClose_nested {c : Cfg} (hc : CfgWs c) (d : Nat) (sm' : Bool) (f g : JsonDec.Frame)
    (stk : List JsonDec.Frame) (sm : Bool) (rest : Bytes) (pb : Nat) :
    step ⟨f :: g :: stk, ⟨.mapKey, sm⟩⟩ (rdOf (closeSep c d sm' ++ 125 :: rest) pb) =
      ⟨⟨g :: stk, f⟩, rdOf rest 0, .tok ⟨.mapClose, none⟩ false⟩ := by
  have := subStep_skip ⟨f :: g :: stk, ⟨.mapKey, sm⟩⟩ _ 125 rest pb (closeSep_ws hc d sm') (by decide)
  cases sm <;> simp [step, this, afterSome, mapEntry]

theorem dstep_mapClose_top {c : Cfg} (hc : CfgWs c) (d : Nat) (sm' : Bool) (f : JsonDec.Frame) (sm : Bool)
    (rest : Bytes) (pb : Nat) :
    step ⟨[f], ⟨.mapKey, sm⟩⟩ (rdOf (closeSep c d sm' ++ 125 :: rest) pb) =
      ⟨⟨[f], ⟨.mapKey, sm⟩⟩, rdOf rest 0, .tok ⟨.mapClose, none⟩ true⟩ := by
  have := subStep_skip ⟨[f], ⟨.mapKey, sm⟩⟩ _ 125 rest pb (closeSep_ws hc d sm') (by decide)
  cases sm <;> simp [step, this, afterSome, mapEntry]

/-- top level -/
theorem dstep_top_scalar (b : Body) (h : decOk b = true) (rest : Bytes) (hs : Stop rest = true) (pb : Nat) :
    ∃ pb', step JsonDec.init (rdOf (scalarTxt b ++ rest) pb) = ⟨JsonDec.init, rdOf rest pb', .tok (retypeTok ⟨b, none⟩) true⟩ := by
  obtain ⟨hd, tl, e, hav⟩ := av_scalar b h JsonDec.init rest hs
  obtain ⟨hd', tl', e', hv⟩ := scalarTxt_head b h
  rw [e] at e'
  obtain ⟨rfl, rfl⟩ := List.cons.inj e'
  obtain ⟨pb', ha⟩ := hav 0
  refine ⟨pb', ?_⟩
  have := subStep_skip JsonDec.init [] hd (tl ++ rest) pb WsOnly.nil hv.1
  rw [e, List.cons_append]
  simp only [List.nil_append] at this
  simp only [step, this]
  simp only [JsonDec.init] at ha ⊢
  simp [ha]

theorem dstep_top_arrOpen (rest : Bytes) (pb : Nat) :
    step JsonDec.init (rdOf (91 :: rest) pb) =
      ⟨⟨[⟨.value, false⟩], ⟨.arr, false⟩⟩, rdOf rest 0, .tok ⟨.arrOpen (-1), none⟩ false⟩ := by
  have := subStep_skip JsonDec.init [] 91 rest pb WsOnly.nil (by decide)
  simp only [List.nil_append] at this
  simp only [step, this]
  simp [JsonDec.init, av_arrOpen, push]

theorem dstep_top_mapOpen (rest : Bytes) (pb : Nat) :
    step JsonDec.init (rdOf (123 :: rest) pb) =
      ⟨⟨[⟨.value, false⟩], ⟨.mapKey, false⟩⟩, rdOf rest 0, .tok ⟨.mapOpen (-1), none⟩ false⟩ := by
  have := subStep_skip JsonDec.init [] 123 rest pb WsOnly.nil (by decide)
  simp only [List.nil_append] at this
  simp only [step, this]
  simp [JsonDec.init, av_mapOpen, push]


/-! ### `run` over a prefix -/

/-- From `s`, reading `bs` (followed by any `rest` satisfying `P`) yields the tokens `ts`, none of them
    final, and leaves the machine in `s'` in front of `rest`. -/
def DRuns (P : Bytes → Prop) (s : St) (bs : Bytes) (ts : List Tok) (s' : St) : Prop :=
  ∀ (fuel : Nat) (rest : Bytes) (acc : List Tok) (steps pb : Nat), P rest →
    ∃ pb', run (ts.length + fuel) s (rdOf (bs ++ rest) pb) acc steps =
      run fuel s' (rdOf rest pb') (ts.reverse ++ acc) (steps + ts.length)

def AnyRest : Bytes → Prop := fun _ => True
def StopRest : Bytes → Prop := fun r => Stop r = true

theorem DRuns.nil (P : Bytes → Prop) (s : St) : DRuns P s [] [] s := by
  intro fuel rest acc steps pb _
  exact ⟨pb, by simp⟩

theorem DRuns.single {P : Bytes → Prop} {s s' : St} {bs : Bytes} {t : Tok}
    (h : ∀ rest pb, P rest → ∃ pb', step s (rdOf (bs ++ rest) pb) = ⟨s', rdOf rest pb', .tok t false⟩) :
    DRuns P s bs [t] s' := by
  intro fuel rest acc steps pb hp
  obtain ⟨pb', e⟩ := h rest pb hp
  refine ⟨pb', ?_⟩
  have : [t].length + fuel = fuel + 1 := by simp [Nat.add_comm]
  rw [this, run]
  simp [e]

theorem DRuns.mono {P Q : Bytes → Prop} {s s' : St} {bs : Bytes} {ts : List Tok}
    (h : DRuns P s bs ts s') (hpq : ∀ r, Q r → P r) : DRuns Q s bs ts s' :=
  fun fuel rest acc steps pb hq => h fuel rest acc steps pb (hpq rest hq)

theorem DRuns.append {P P' : Bytes → Prop} {s s' s'' : St} {bs bs' : Bytes} {ts ts' : List Tok}
    (h1 : DRuns P' s bs ts s') (h2 : DRuns P s' bs' ts' s'') (hp : ∀ rest, P rest → P' (bs' ++ rest)) :
    DRuns P s (bs ++ bs') (ts ++ ts') s'' := by
  intro fuel rest acc steps pb hr
  obtain ⟨p1, e1⟩ := h1 (ts'.length + fuel) (bs' ++ rest) acc steps pb (hp rest hr)
  obtain ⟨p2, e2⟩ := h2 fuel rest (ts.reverse ++ acc) (steps + ts.length) p1 hr
  refine ⟨p2, ?_⟩
  have : (ts ++ ts').length + fuel = ts.length + (ts'.length + fuel) := by simp [Nat.add_assoc]
  rw [this, List.append_assoc, e1, e2]
  simp [Nat.add_assoc]

/-- A non-final prefix followed by one step that signals done. -/
theorem DRuns.finish {P P' : Bytes → Prop} {s s' : St} {bs bs' : Bytes} {ts : List Tok} {t : Tok}
    (h : DRuns P' s bs ts s')
    (hstep : ∀ rest pb, P rest → ∃ st rd', step s' (rdOf (bs' ++ rest) pb) = ⟨st, rd', .tok t true⟩)
    (hp : ∀ rest, P rest → P' (bs' ++ rest))
    (fuel : Nat) (rest : Bytes) (hr : P rest) (hf : ts.length + 1 ≤ fuel) :
    (run fuel s (rdOf ((bs ++ bs') ++ rest) 0) [] 0).toks = ts ++ [t] ∧
    (run fuel s (rdOf ((bs ++ bs') ++ rest) 0) [] 0).res = .ok () := by
  obtain ⟨k, rfl⟩ : ∃ k, fuel = ts.length + (k + 1) := ⟨fuel - ts.length - 1, by omega⟩
  obtain ⟨p1, e1⟩ := h (k + 1) (bs' ++ rest) [] 0 0 (hp rest hr)
  obtain ⟨st, rd', e2⟩ := hstep rest p1 hr
  rw [List.append_assoc, e1, run]
  simp [e2]


/-! ### The decoder on the text of a tree -/

theorem Stop_txtL' (c : Cfg) (d : Nat) (vs : List TV) (rest : Bytes) (hs : Stop rest = true) :
    Stop (txtL c d true vs ++ rest) = true := by
  cases vs with
  | nil => simpa [txtL] using hs
  | cons v vs => simp [txtL, sep, Stop]; decide

theorem Stop_txtE' (c : Cfg) (d : Nat) (es : List (TV × TV)) (rest : Bytes) (hs : Stop rest = true) :
    Stop (txtE c d true es ++ rest) = true := by
  cases es with
  | nil => simpa [txtE] using hs
  | cons e es => obtain ⟨k, v⟩ := e; simp [txtE, sep, Stop]; decide

theorem retypeTok_none (t : Tok) : retypeTok ⟨t.body, none⟩ = retypeTok t := rfl

mutual
  theorem decV (c : Cfg) (hc : CfgWs c) : ∀ (v : TV), DOk v = true → ∀ (d : Nat) (s sIn : St) (pre : Bytes),
      VCtx s sIn pre → DRuns StopRest s (pre ++ txtV c d v) (v.flatten.map retypeTok) sIn
    | .scalar t, h, d, s, sIn, pre, hctx => by
      have : DRuns StopRest s (pre ++ scalarTxt t.body) [retypeTok t] sIn :=
        DRuns.single (fun rest pb hs => by
          obtain ⟨pb', e⟩ := dstep_value hctx t.body (by simpa [DOk] using h) rest hs pb
          rw [retypeTok_none] at e
          exact ⟨pb', by simpa [List.append_assoc] using e⟩)
      simpa [TV.flatten, txtV] using this
    | .arr tag len items, h, d, s, sIn, pre, hctx => by
      obtain ⟨g, stk, hstk⟩ := hctx.1
      obtain ⟨stack, frame⟩ := sIn
      simp only at hstk
      subst hstk
      have h1 : DRuns AnyRest s (pre ++ [91]) [⟨.arrOpen (-1), none⟩] ⟨frame :: g :: stk, ⟨.arr, false⟩⟩ :=
        DRuns.single (fun rest pb _ => ⟨0, by simpa [List.append_assoc, push] using dstep_open_arr hctx rest pb⟩)
      have h2 := decL c hc items (by simpa [DOk] using h) (d + 1) false frame (g :: stk)
      have h3 : DRuns AnyRest ⟨frame :: g :: stk, ⟨.arr, false || !items.isEmpty⟩⟩
          (closeSep c (d + 1) (!items.isEmpty) ++ [93]) [⟨.arrClose, none⟩] ⟨g :: stk, frame⟩ :=
        DRuns.single (fun rest pb _ => ⟨0, by
          simpa [List.append_assoc] using dstep_arrClose_nested hc (d + 1) (!items.isEmpty) frame g stk _ rest pb⟩)
      have h12 := h1.append h2 (fun _ _ => trivial)
      have h123 := h12.append h3 (fun rest _ => by
        show Stop _ = true
        simpa [List.append_assoc] using Stop_ws_cons _ 93 rest (closeSep_ws hc (d + 1) (!items.isEmpty)) (by decide))
      have := h123.mono (Q := StopRest) (fun _ _ => trivial)
      simpa [TV.flatten, txtV, List.append_assoc, retypeTok] using this
    | .map tag len es, h, d, s, sIn, pre, hctx => by
      obtain ⟨g, stk, hstk⟩ := hctx.1
      obtain ⟨stack, frame⟩ := sIn
      simp only at hstk
      subst hstk
      have h1 : DRuns AnyRest s (pre ++ [123]) [⟨.mapOpen (-1), none⟩] ⟨frame :: g :: stk, ⟨.mapKey, false⟩⟩ :=
        DRuns.single (fun rest pb _ => ⟨0, by simpa [List.append_assoc, push] using dstep_open_map hctx rest pb⟩)
      have h2 := decE c hc es (by simpa [DOk] using h) (d + 1) false frame (g :: stk)
      have h3 : DRuns AnyRest ⟨frame :: g :: stk, ⟨.mapKey, false || !es.isEmpty⟩⟩
          (closeSep c (d + 1) (!es.isEmpty) ++ [125]) [⟨.mapClose, none⟩] ⟨g :: stk, frame⟩ :=
        DRuns.single (fun rest pb _ => ⟨0, by
          simpa [List.append_assoc] using dstep_mapClose_nested hc (d + 1) (!es.isEmpty) frame g stk _ rest pb⟩)
      have h12 := h1.append h2 (fun _ _ => trivial)
      have h123 := h12.append h3 (fun rest _ => by
        show Stop _ = true
        simpa [List.append_assoc] using Stop_ws_cons _ 125 rest (closeSep_ws hc (d + 1) (!es.isEmpty)) (by decide))
      have := h123.mono (Q := StopRest) (fun _ _ => trivial)
      simpa [TV.flatten, txtV, List.append_assoc, retypeTok] using this
  theorem decL (c : Cfg) (hc : CfgWs c) : ∀ (vs : List TV), DOkL vs = true → ∀ (d : Nat) (sm : Bool)
      (q : JsonDec.Frame) (stk : List JsonDec.Frame),
      DRuns StopRest ⟨q :: stk, ⟨.arr, sm⟩⟩ (txtL c d sm vs) ((TV.flattenList vs).map retypeTok)
        ⟨q :: stk, ⟨.arr, sm || !vs.isEmpty⟩⟩
    | [], _, d, sm, q, stk => by simpa [TV.flattenList, txtL] using DRuns.nil StopRest _
    | v :: vs, h, d, sm, q, stk => by
      simp only [DOkL, Bool.and_eq_true] at h
      have h1 := decV c hc v h.1 d _ _ _ (VCtx_arr hc d q stk sm)
      have h2 := decL c hc vs h.2 d true q stk
      have := h1.append h2 (fun rest hr => Stop_txtL' c d vs rest hr)
      simpa [TV.flattenList, txtL, List.append_assoc] using this
  theorem decE (c : Cfg) (hc : CfgWs c) : ∀ (es : List (TV × TV)), DOkE es = true → ∀ (d : Nat) (sm : Bool)
      (q : JsonDec.Frame) (stk : List JsonDec.Frame),
      DRuns StopRest ⟨q :: stk, ⟨.mapKey, sm⟩⟩ (txtE c d sm es) ((TV.flattenEntries es).map retypeTok)
        ⟨q :: stk, ⟨.mapKey, sm || !es.isEmpty⟩⟩
    | [], _, d, sm, q, stk => by simpa [TV.flattenEntries, txtE] using DRuns.nil StopRest _
    | (k, v) :: es, h, d, sm, q, stk => by
      simp only [DOkE, Bool.and_eq_true] at h
      obtain ⟨⟨hk, hv⟩, hes⟩ := h
      obtain ⟨ks, tag, rfl⟩ := dkey_form hk
      have h1 : DRuns AnyRest ⟨q :: stk, ⟨.mapKey, sm⟩⟩ (sep c d sm ++ ((34 :: (esc ks ++ [34])) ++ [58]))
          [⟨.str (toValidUtf8 ks), none⟩] ⟨q :: stk, ⟨.mapVal, false⟩⟩ :=
        DRuns.single (fun rest pb _ => ⟨0, by
          simpa [List.append_assoc] using dstep_key hc d q stk sm ks rest pb⟩)
      have h2 := decV c hc v hv d _ _ _ (VCtx_mapVal q stk (colonWs c) (colonWs_ws c))
      have h3 := decE c hc es hes d true q stk
      have h12 := h1.append h2 (fun _ _ => trivial)
      have := h12.append h3 (fun rest hr => Stop_txtE' c d es rest hr)
      simpa [TV.flattenEntries, TV.flatten, txtE, keyTxt, scalarTxt, colon_eq, List.append_assoc, retypeTok] using this
end


/-- one value from the initial state -/
theorem decTop (c : Cfg) (hc : CfgWs c) (v : TV) (h : DOk v = true) (fuel : Nat) (rest : Bytes)
    (hs : Stop rest = true) (hf : v.flatten.length ≤ fuel) :
    (run fuel JsonDec.init (rdOf (txtV c 0 v ++ rest) 0) [] 0).toks = v.flatten.map retypeTok ∧
    (run fuel JsonDec.init (rdOf (txtV c 0 v ++ rest) 0) [] 0).res = .ok () := by
  cases v with
  | scalar t =>
    obtain ⟨k, rfl⟩ : ∃ k, fuel = k + 1 := ⟨fuel - 1, by simp [TV.flatten] at hf; omega⟩
    obtain ⟨pb', e⟩ := dstep_top_scalar t.body (by simpa [DOk] using h) rest hs 0
    rw [retypeTok_none] at e
    simp [txtV, run, e, TV.flatten]
  | arr tag len items =>
    have h1 : DRuns AnyRest JsonDec.init [91] [⟨.arrOpen (-1), none⟩] ⟨[⟨.value, false⟩], ⟨.arr, false⟩⟩ :=
      DRuns.single (fun rest pb _ => ⟨0, by simpa using dstep_top_arrOpen rest pb⟩)
    have h2 := decL c hc items (by simpa [DOk] using h) 1 false ⟨.value, false⟩ []
    have h12 := h1.append h2 (fun _ _ => trivial)
    have := h12.finish (P := StopRest) (bs' := closeSep c 1 (!items.isEmpty) ++ [93]) (t := ⟨.arrClose, none⟩)
      (fun rest pb _ => ⟨_, _, by
        simpa [List.append_assoc] using dstep_arrClose_top hc 1 (!items.isEmpty) ⟨.value, false⟩ _ rest pb⟩)
      (fun rest _ => by
        show Stop _ = true
        simpa [List.append_assoc] using Stop_ws_cons _ 93 rest (closeSep_ws hc 1 (!items.isEmpty)) (by decide))
      fuel rest hs (by simp [TV.flatten] at hf ⊢; omega)
    simpa [TV.flatten, txtV, List.append_assoc, retypeTok] using this
  | map tag len es =>
    have h1 : DRuns AnyRest JsonDec.init [123] [⟨.mapOpen (-1), none⟩] ⟨[⟨.value, false⟩], ⟨.mapKey, false⟩⟩ :=
      DRuns.single (fun rest pb _ => ⟨0, by simpa using dstep_top_mapOpen rest pb⟩)
    have h2 := decE c hc es (by simpa [DOk] using h) 1 false ⟨.value, false⟩ []
    have h12 := h1.append h2 (fun _ _ => trivial)
    have := h12.finish (P := StopRest) (bs' := closeSep c 1 (!es.isEmpty) ++ [125]) (t := ⟨.mapClose, none⟩)
      (fun rest pb _ => ⟨_, _, by
        simpa [List.append_assoc] using dstep_mapClose_top hc 1 (!es.isEmpty) ⟨.value, false⟩ _ rest pb⟩)
      (fun rest _ => by
        show Stop _ = true
        simpa [List.append_assoc] using Stop_ws_cons _ 125 rest (closeSep_ws hc 1 (!es.isEmpty)) (by decide))
      fuel rest hs (by simp [TV.flatten] at hf ⊢; omega)
    simpa [TV.flatten, txtV, List.append_assoc, retypeTok] using this

end Refmt.C03L
