/-
  C12, claim (ii) with tags — the induction over `fullTy`: pointer chains and the induction itself (LegRT5.lean with
  `Hd2T`).  See RefmtProofs/Props/C12Tagged.lean.
-/
import RefmtProofs.Lemmas.TagLeg4
set_option linter.unusedSimpArgs false
set_option linter.unusedVariables false
namespace Refmt.Obj
open Refmt Refmt.C13 Refmt.C11 Refmt.C12 Refmt.C12L

variable {ts : Types} {a : Atlas} {trs : Trs} {it : IfaceTys}

theorem legt_v {f} (hf : f + 1 ≤ 1000) (he : UEnv ts a it) (ih : LEGT ts a trs it f) :
    ∀ p h id v toks g, p ≤ 64 → fullTy ts a p id = true → hasTy ts h id v = true →
      f + 1 ≤ g → fullVal ts a trs it g id v = true →
      marshalV ts a trs (f+1) id v = ⟨toks, none⟩ → LegT ts a trs it id toks (rtF ts a trs it g id v) := by
  intro p h id v toks g hp64 hp hv hg hfv hm
  obtain ⟨g, rfl⟩ : ∃ g', g = g' + 1 := ⟨g - 1, by omega⟩
  obtain ⟨n, base, p', hpeel, hpb, hnp, hch, hp'p⟩ := full_peel ts a p 64 0 id hp hp64
  simp only [Nat.zero_add] at hpeel
  have hp'64 : p' + 1 ≤ 64 := by omega
  rw [marshalV_succ, hpeel] at hm
  rw [fullVal_succ, hpeel] at hfv
  rw [rtF_succ, hpeel]
  simp only at hm hfv ⊢
  cases n with
  | zero =>
    cases hch
    simp only [beq_self_eq_true, if_true] at hm hfv ⊢
    obtain ⟨u, tk2, N, hgood⟩ := ih.b p' h id v toks g hp'64 hpb hnp hv (by omega) hfv hm
    refine ⟨u, tk2, N + 1, hgood.1.mono (by omega), fun F hF rest => ?_⟩
    obtain ⟨F, rfl⟩ : ∃ F', F = F' + 1 := ⟨F - 1, by omega⟩
    obtain ⟨t, r, htk2, -, -⟩ := hgood.1.1.head2
    have hu := hgood.2 F (by omega) rest
    dsimp only at hu htk2 ⊢
    rw [htk2] at hu ⊢
    rw [List.cons_append] at hu ⊢
    rw [unmV_cons, hpeel]
    simpa using hu
  | succ n =>
    have hn0 : ((n + 1 == 0) = false) := by simp
    simp only [hn0] at hm hfv ⊢
    have hnullRd : ∀ F, 2 ≤ F → Rd ts a trs it F id [⟨.null, none⟩] (.ptr none) := by
      intro F hF rest
      obtain ⟨F, rfl⟩ : ∃ F', F = F' + 1 := ⟨F - 1, by omega⟩
      rw [List.cons_append, unmV_cons, hpeel]
      simp
    rcases chain_hasTy ts (n + 1) id base h v hch hv with hdn | ⟨inner, h', hdn, hvi⟩
    · rw [hdn] at hm ⊢
      simp [MOut.ok] at hm; subst hm
      exact ⟨_, _, 3, (UP_null he).toT, fun F hF => hnullRd F (by omega)⟩
    · rw [hdn] at hm hfv ⊢
      simp only [Bool.false_eq_true, if_false] at hm hfv ⊢
      obtain ⟨u, tk2, N, hgood⟩ := ih.b p' h' base inner toks g hp'64 hpb hnp hvi (by omega) hfv hm
      have hic := innerCur_zeroVal ts (n + 1) id base hch
      obtain ⟨t, r, t', r', h0, h2, -, -, -, -, -, -, hnl⟩ := hgood.1.1
      dsimp only at h0 h2
      subst h0 h2
      rcases hnl with ⟨hb0, rfl, hb0', rfl⟩ | ⟨hnn, hnn'⟩
      · obtain ⟨tb, tt⟩ := t
        obtain ⟨tb', tt'⟩ := t'
        simp only at hb0 hb0'
        subst hb0 hb0'
        have hnull := isNullSer_null ts a trs hnp hm (by omega)
        simp only [hnull, if_true]
        refine ⟨u, _, N + 2, hgood.1.mono (by omega), fun F hF rest => ?_⟩
        obtain ⟨F, rfl⟩ : ∃ F', F = F' + 1 := ⟨F - 1, by omega⟩
        dsimp only
        rw [List.cons_append, unmV_cons, hpeel]
        simp
      · have hnull := isNullSer_nonnull ts a trs hnp hm hnn (by omega)
        simp only [hnull, Bool.false_eq_true, if_false]
        refine ⟨u, _, N + 1, hgood.1.mono (by omega), fun F hF rest => ?_⟩
        obtain ⟨F, rfl⟩ : ∃ F', F = F' + 1 := ⟨F - 1, by omega⟩
        have hu := hgood.2 F (by omega) rest
        unfold RdB at hu
        dsimp only at hu ⊢
        rw [List.cons_append] at hu ⊢
        rw [unmV_cons, hpeel]
        simp only [hn0, Bool.false_eq_true, if_false, hic]
        first
          | (rw [hu]; rfl)
          | (split
             · rename_i hb; exact absurd hb hnn'
             · rw [hu]; rfl)

/-- the induction with tagged entries: `TagsOkA` (every registered tagged entry is found under its tag) and `TagStab`
    (the re-marshal of a reconstructed value of a tagged type reproduces what was read) in place of `NoTags` -/
theorem legt_all (he : UEnv ts a it) (hz : ZeroStable ts) (htr : TrsEqv trs) (hto : TagsOkA a) (hts : TagStab ts a trs) :
    ∀ f, f ≤ 1000 → LEGT ts a trs it f := by
  intro f
  induction f with
  | zero => intro _; exact legt_zero ts a trs it
  | succ n ih =>
    intro hf
    have ih := ih (by omega)
    exact ⟨legt_v hf he ih, legt_b hf he hz htr hto hts ih⟩

end Refmt.Obj
