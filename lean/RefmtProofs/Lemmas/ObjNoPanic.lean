/-
  No-panic invariant of the object unmarshaller model: under a consistent context (`Ctx`: machines picked are
  valid, pointer peeling reaches a non-pointer, same-list delegation chains are bounded by `D`) and with
  fuel ≥ (2D+3)·|toks| + 2D+2 no call of the six mutual functions returns `.panic`.
-/
import RefmtProofs.Lemmas.ObjUnmarshal
set_option linter.unusedSimpArgs false
set_option linter.unusedVariables false
namespace Refmt.Obj
open Refmt
variable (ts : Types) (a : Atlas) (trs : Trs) (it : IfaceTys)

/-- no panic -/
def NP (x : URes) : Prop := ∀ u, x ≠ .panic u

theorem NP.ok {v r u} : NP (.ok v r u) := fun _ h => by cases h
theorem NP.more {u} : NP (.more u) := fun _ h => by cases h
theorem NP.err {u} : NP (.err u) := fun _ h => by cases h
theorem NP.shift {x} (h : NP x) (k : Nat) : NP (x.shift k) := by
  cases x <;> simp [NP, URes.shift] at *
theorem NP.bind' {x K s} (h : NP x) (hK : ∀ v r u, x = .ok v r u → NP (K v r u)) : NP (x.bind' K s) := by
  cases x with
  | ok v r u => exact hK v r u rfl
  | more u => exact NP.more
  | err u => exact NP.err
  | panic u => exact absurd rfl (h u)

theorem unmV_ok_len {fuel id cur toks v r u} (h : unmV ts a trs it fuel id cur toks = .ok v r u) :
    r.length < toks.length := by
  obtain ⟨c, h1, h2, h3, h4, h5⟩ := (allStr ts a trs it fuel).v id cur toks v r u h
  cases c with
  | nil => exact absurd (by simpa using h4 []) (unmV_nil ts a trs it fuel id cur v [] u)
  | cons x xs => subst h1; simp; omega

theorem unmWild_ok_len {fuel meth t rest v r u} (h : unmWild ts a trs it fuel meth t rest = .ok v r u) :
    r.length ≤ rest.length := by
  obtain ⟨c, h1, h2, h3, h4, h5⟩ := (allStr ts a trs it fuel).w meth t rest v r u h
  subst h1; simp

theorem setRoute_of_getRoute (f : Val → Val) : ∀ (n id : Nat) (route : List Nat) (cur x : Val),
    getRoute ts n id route cur = some x → ∃ y, setRoute ts n id route cur f = some y := by
  intro n
  induction n with
  | zero => intro id route cur x h; simp [getRoute] at h
  | succ n ih =>
    intro id route cur x h
    cases route with
    | nil => exact ⟨f cur, by simp [setRoute]⟩
    | cons i rest =>
      rw [getRoute.eq_def] at h
      rw [setRoute.eq_def]
      simp only at h ⊢
      split at h
      · obtain ⟨y, hy⟩ := ih _ (i :: rest) _ x h
        simp [hy]
      · split at h
        · rename_i fd fv h1 h2
          have key : ∀ c : Bool, (if c = true then none else getRoute ts n fd.ty rest fv) = some x →
              c = false ∧ getRoute ts n fd.ty rest fv = some x := by
            intro c; cases c <;> simp
          obtain ⟨hc, h'⟩ := key _ h
          obtain ⟨y, hy⟩ := ih fd.ty rest fv x h'
          simp only [hc, hy]
          exact ⟨_, rfl⟩
        · cases h
      · cases h

/-- same-list delegation depth of a machine: a transform delegates to the machine of its receive type, an untyped
    slot to the machine of the type registered for the token's tag; every other machine consumes a token first -/
def delegOk (ts : Types) (a : Atlas) : Nat → UMach → Prop
  | 0, m => (match m with | .transform _ _ => False | .wildcard => False | _ => True)
  | n+1, m => (match m with
      | .transform _ uty => delegOk ts a n (upickBare ts a uty)
      | .wildcard => ∀ g e, a.getByTag g = some e → delegOk ts a n (upickBare ts a e.ty)
      | _ => True)

def notPtr (d : TyDesc) : Prop := ∀ e, d ≠ .ptr e

def memberOk (ts : Types) (me : Entry) : Prop :=
  (∃ fs, me.k = .structMap fs) ∨ (∃ fn mty uty, me.k = .transform fn mty uty ∧ notPtr (ts.get uty))

def mOk (ts : Types) (a : Atlas) : UMach → Prop
  | .panic => False
  | .transform _ uty => notPtr (ts.get uty)
  | .union ms => ∀ p ∈ ms, ∃ me, a.pool[p.2]? = some me ∧ memberOk ts me
  | _ => True

structure Ctx (ts : Types) (a : Atlas) (D : Nat) : Prop where
  pick : ∀ id, notPtr (ts.get id) ∨ (a.get id).isSome → mOk ts a (upickBare ts a id)
  base : ∀ id, notPtr (ts.get (peel ts 64 0 id).2)
  deleg : ∀ id, delegOk ts a D (upickBare ts a id)
  tag : ∀ g e, a.getByTag g = some e → (a.get e.ty).isSome

structure AllNP (D fuel : Nat) : Prop where
  v : ∀ id cur toks, (2*D+3) * toks.length + (2*D+2) ≤ fuel → NP (unmV ts a trs it fuel id cur toks)
  b : ∀ id m cur toks d, mOk ts a m → delegOk ts a d m → d ≤ D + 1 → (2*D+3) * toks.length + 2*d + 1 ≤ fuel →
        NP (unmBare ts a trs it fuel id m cur toks)
  w : ∀ meth t rest d, delegOk ts a d .wildcard → d ≤ D + 1 → (2*D+3) * (rest.length + 1) + 2*d ≤ fuel →
        NP (unmWild ts a trs it fuel meth t rest)
  e : ∀ e cap acc toks, (2*D+3) * toks.length + (2*D+3) ≤ fuel → NP (unmElems ts a trs it fuel e cap acc toks)
  m : ∀ kf vt es toks, (2*D+3) * toks.length + (2*D+3) ≤ fuel → NP (unmMapEntries ts a trs it fuel kf vt es toks)
  s : ∀ id fields len idx cur toks, (2*D+3) * toks.length + (2*D+3) ≤ fuel →
        NP (unmStruct ts a trs it fuel id fields len idx cur toks)

theorem mul_len_lt {A n m : Nat} (h : n < m) : A * n + A ≤ A * m := by
  have := Nat.mul_le_mul_left A (Nat.succ_le_of_lt h)
  rwa [Nat.mul_succ] at this
theorem mul_len_le {A n m : Nat} (h : n ≤ m) : A * n ≤ A * m := Nat.mul_le_mul_left A h

variable {ts a trs it}

theorem np_v {D fuel} (cx : Ctx ts a D) (ih : AllNP ts a trs it D fuel) (id cur toks)
    (hf : (2*D+3) * toks.length + (2*D+2) ≤ fuel + 1) : NP (unmV ts a trs it (fuel+1) id cur toks) := by
  cases toks with
  | nil => simp [unmV]; exact NP.more
  | cons t rest =>
    have hb : ∀ cur', NP (unmBare ts a trs it fuel (peel ts 64 0 id).2 (upickBare ts a (peel ts 64 0 id).2) cur' (t :: rest)) :=
      fun cur' => ih.b _ _ cur' _ D (cx.pick _ (Or.inl (cx.base id))) (cx.deleg _) (by omega) (by omega)
    rw [unmV_cons]
    split
    · exact hb _
    · split
      · exact NP.ok
      · exact NP.bind' (hb _) (fun _ _ _ _ => NP.ok)

theorem np_e {D fuel} (cx : Ctx ts a D) (ih : AllNP ts a trs it D fuel) (e cap acc toks)
    (hf : (2*D+3) * toks.length + (2*D+3) ≤ fuel + 1) : NP (unmElems ts a trs it (fuel+1) e cap acc toks) := by
  cases toks with
  | nil => simp [unmElems]; exact NP.more
  | cons t rest =>
    rw [unmElems_cons]
    simp only [List.length_cons, Nat.mul_succ] at hf
    split
    · exact NP.err
    · exact NP.ok
    · split
      · exact NP.err
      · refine NP.bind' (ih.v _ _ _ (by simp only [List.length_cons, Nat.mul_succ]; omega)) (fun v r u hv => NP.shift (ih.e _ _ _ _ ?_) _)
        have := mul_len_le (A := 2*D+3) (Nat.le_of_lt_succ (by simpa using unmV_ok_len ts a trs it hv))
        omega

theorem np_m {D fuel} (cx : Ctx ts a D) (ih : AllNP ts a trs it D fuel) (kf vt es toks)
    (hf : (2*D+3) * toks.length + (2*D+3) ≤ fuel + 1) : NP (unmMapEntries ts a trs it (fuel+1) kf vt es toks) := by
  cases toks with
  | nil => simp [unmMapEntries]; exact NP.more
  | cons t rest =>
    rw [unmMapEntries_cons]
    simp only [List.length_cons, Nat.mul_succ] at hf
    split
    · exact NP.ok
    · split
      · exact NP.err
      · split
        · exact NP.err
        · refine NP.bind' (ih.v _ _ _ (by omega)) (fun v r u hv => NP.shift (ih.m _ _ _ _ ?_) _)
          have := mul_len_le (A := 2*D+3) (Nat.le_of_lt (unmV_ok_len ts a trs it hv))
          omega
    · exact NP.err

theorem np_s {D fuel} (cx : Ctx ts a D) (ih : AllNP ts a trs it D fuel) (id fields len idx cur toks)
    (hf : (2*D+3) * toks.length + (2*D+3) ≤ fuel + 1) : NP (unmStruct ts a trs it (fuel+1) id fields len idx cur toks) := by
  cases toks with
  | nil => simp [unmStruct]; exact NP.more
  | cons t rest =>
    rw [unmStruct_cons]
    simp only [List.length_cons, Nat.mul_succ] at hf
    split
    · split
      · exact NP.err
      · exact NP.ok
    · split
      · exact NP.err
      · split
        · split
          · exact NP.more
          · rename_i v rest2
            simp only [List.length_cons, Nat.mul_succ] at hf
            have hw : delegOk ts a (D + 1) .wildcard := fun g e hge => cx.deleg _
            refine NP.bind' (ih.w _ _ _ (D + 1) hw (by omega) (by simp only [Nat.mul_succ]; omega))
              (fun v r u hv => NP.shift (ih.s _ _ _ _ _ _ ?_) _)
            have := mul_len_le (A := 2*D+3) (unmWild_ok_len ts a trs it hv)
            omega
        · split
          · exact NP.more
          · split
            · exact NP.err
            · rename_i fcur hg
              refine NP.bind' (ih.v _ _ _ (by omega)) (fun v r u hv => ?_)
              unfold structCont
              obtain ⟨y, hy⟩ := setRoute_of_getRoute ts (fun _ => v) _ _ _ _ _ hg
              rw [hy]
              refine NP.shift (ih.s _ _ _ _ _ _ ?_) _
              have := mul_len_le (A := 2*D+3) (Nat.le_of_lt (unmV_ok_len ts a trs it hv))
              omega
    · exact NP.err


theorem find?_get_isSome {a : Atlas} {g e} (h : a.getByTag g = some e) : (a.get e.ty).isSome := by
  unfold Atlas.getByTag at h
  unfold Atlas.get
  rw [List.find?_isSome]
  have hm := List.mem_of_find?_eq_some h
  have hp := List.find?_some h
  simp at hp
  exact ⟨e, hm, by simp [hp.1]⟩

theorem np_w {D fuel} (cx : Ctx ts a D) (ih : AllNP ts a trs it D fuel) (meth t rest d)
    (hd : delegOk ts a d .wildcard) (hdD : d ≤ D + 1)
    (hf : (2*D+3) * (rest.length + 1) + 2*d ≤ fuel + 1) : NP (unmWild ts a trs it (fuel+1) meth t rest) := by
  cases d with
  | zero => exact absurd hd (by simp [delegOk])
  | succ d =>
    rw [unmWild_eq]
    split
    · rename_i g htag
      split
      · exact NP.err
      · rename_i e hg
        split
        · exact NP.err
        · refine NP.bind' (ih.b _ _ _ _ d (cx.pick _ (Or.inr (cx.tag g e hg))) (hd g e hg) (by omega) ?_) (fun _ _ _ _ => NP.ok)
          simp only [List.length_cons]; omega
    · split
      · exact NP.err
      · split
        · refine NP.bind' (ih.b _ _ _ _ 0 trivial trivial (by omega) ?_) (fun _ _ _ _ => NP.ok)
          simp only [List.length_cons]; omega
        · refine NP.bind' (ih.b _ _ _ _ 0 trivial trivial (by omega) ?_) (fun _ _ _ _ => NP.ok)
          simp only [List.length_cons]; omega
        all_goals first | exact NP.err | exact NP.ok | skip
        split <;> exact NP.ok

theorem np_b {D fuel} (cx : Ctx ts a D) (ih : AllNP ts a trs it D fuel) (id m cur toks d)
    (hm : mOk ts a m) (hd : delegOk ts a d m) (hdD : d ≤ D + 1)
    (hf : (2*D+3) * toks.length + 2*d + 1 ≤ fuel + 1) : NP (unmBare ts a trs it (fuel+1) id m cur toks) := by
  cases toks with
  | nil => simp [unmBare]; exact NP.more
  | cons t rest =>
    simp only [List.length_cons, Nat.mul_succ] at hf
    cases m with
    | errThunk => rw [unmBare_errThunk]; exact NP.err
    | panic => exact absurd hm (by simp [mOk])
    | prim => rw [unmBare_prim]; split <;> first | exact NP.ok | exact NP.err
    | wildcard =>
      rw [unmBare_wild]
      exact ih.w _ _ _ d hd hdD (by simp only [Nat.mul_succ]; omega)
    | slice e =>
      rw [unmBare_slice]
      split
      · exact NP.ok
      · exact NP.shift (ih.e _ _ _ _ (by omega)) _
      · exact NP.err
    | array n e =>
      rw [unmBare_array]
      split
      · exact NP.ok
      · exact NP.bind' (ih.e _ _ _ _ (by omega)) (fun _ _ _ _ => NP.ok)
      · exact NP.err
    | map kt vt =>
      rw [unmBare_map]
      split
      · exact NP.err
      · split
        · exact NP.ok
        · exact NP.shift (ih.m _ _ _ _ (by omega)) _
        · exact NP.err
    | structMap fields =>
      rw [unmBare_structMap]
      split
      · exact NP.ok
      · exact NP.shift (ih.s _ _ _ _ _ _ (by omega)) _
      · exact NP.err
    | transform fn uty =>
      cases d with
      | zero => exact absurd hd (by simp [delegOk])
      | succ d =>
        rw [unmBare_transform]
        refine NP.bind' (ih.b _ _ _ _ d (cx.pick _ (Or.inl hm)) hd (by omega) ?_) (fun v r u _ => ?_)
        · simp only [List.length_cons, Nat.mul_succ]; omega
        · unfold trPost; split <;> first | exact NP.ok | exact NP.err
    | union members =>
      rw [unmBare_union]
      split
      · split
        · exact NP.err
        · split
          · exact NP.more
          · rename_i k rest2
            simp only [List.length_cons, Nat.mul_succ] at hf
            split
            · split
              · exact NP.err
              · rename_i nm idx hfind
                obtain ⟨me, hme, hmem⟩ := hm _ (List.mem_of_find?_eq_some hfind)
                simp only at hme
                rw [hme]
                simp only
                have hK : ∀ v r u, NP (unionClose me.ty v r u) := by
                  intro v r u
                  unfold unionClose
                  split
                  · exact NP.more
                  · split <;> first | exact NP.ok | exact NP.err
                rcases hmem with ⟨fs, hk⟩ | ⟨fn', mty, uty', hk, hnp⟩
                · have hmach : umachForEntry ts me = .structMap fs := by simp [umachForEntry, hk]
                  rw [hmach]
                  exact NP.bind' (ih.b _ _ _ _ 0 trivial trivial (by omega) (by omega)) (fun v r u _ => hK v r u)
                · have hmach : umachForEntry ts me = .transform fn' uty' := by simp [umachForEntry, hk]
                  rw [hmach]
                  refine NP.bind' (ih.b _ _ _ _ (D + 1) hnp (cx.deleg uty') (by omega) (by omega)) (fun v r u _ => hK v r u)
            · exact NP.err
      · exact NP.err

theorem allNP {D} (cx : Ctx ts a D) (fuel : Nat) : AllNP ts a trs it D fuel := by
  induction fuel with
  | zero =>
    refine ⟨?_, ?_, ?_, ?_, ?_, ?_⟩ <;> intros <;> (try simp only [Nat.mul_succ] at *) <;> omega
  | succ n ih =>
    exact ⟨np_v cx ih, np_b cx ih, np_w cx ih, np_e cx ih, np_m cx ih, np_s cx ih⟩

end Refmt.Obj
