/-
  Scanner-DFA facts for the shapes of text that `FloatText.fmtE` / `FloatText.fmtF` produce.
  Nothing about the digit algorithm is used here: only that the digit string is non-empty and made of digits.
-/
import RefmtProofs.Lemmas.FloatChars
set_option linter.unusedSimpArgs false
set_option linter.unusedVariables false
namespace Refmt.FloatL
open Refmt Refmt.FloatText Refmt.JsonDec Refmt.C03L

def Digs (l : Bytes) : Prop := ∀ x ∈ l, isDigit x = true

theorem Digs.nil : Digs [] := by intro x hx; simp at hx
theorem Digs.cons {b : Nat} {l : Bytes} (hb : isDigit b = true) (hl : Digs l) : Digs (b :: l) := by
  intro x hx; simp only [List.mem_cons] at hx; rcases hx with rfl | hx; exact hb; exact hl x hx
theorem Digs.head {b : Nat} {l : Bytes} (h : Digs (b :: l)) : isDigit b = true := h b (by simp)
theorem Digs.tail {b : Nat} {l : Bytes} (h : Digs (b :: l)) : Digs l := fun x hx => h x (by simp [hx])
theorem Digs.append {a b : Bytes} (ha : Digs a) (hb : Digs b) : Digs (a ++ b) := by
  intro x hx; simp only [List.mem_append] at hx; rcases hx with h | h; exact ha x h; exact hb x h
theorem Digs.left {a b : Bytes} (h : Digs (a ++ b)) : Digs a := fun x hx => h x (by simp [hx])
theorem Digs.right {a b : Bytes} (h : Digs (a ++ b)) : Digs b := fun x hx => h x (by simp [hx])
theorem Digs.zeros (n : Nat) : Digs (List.replicate n 48) := by
  intro x hx; simp only [List.mem_replicate] at hx; rw [hx.2]; decide
theorem Digs.take {l : Bytes} (h : Digs l) (n : Nat) : Digs (l.take n) := fun x hx => h x (List.mem_of_mem_take hx)
theorem Digs.drop {l : Bytes} (h : Digs l) (n : Nat) : Digs (l.drop n) := fun x hx => h x (List.mem_of_mem_drop hx)
theorem Digs.nat (n : Nat) : Digs (natDigits n) := natDigits_digits n

theorem isDigit_iff {b : Nat} : isDigit b = true ↔ 48 ≤ b ∧ b ≤ 57 := by
  simp [isDigit]

/-! ### runs of the scanner -/

theorem numRun_append : ∀ (a b : Bytes) (st : NS),
    numRun st (a ++ b) = (numRun st a).bind (fun st' => numRun st' b)
  | [], b, st => by simp [numRun]
  | x :: a, b, st => by
    simp only [List.cons_append, numRun]
    split
    · exact numRun_append a b _
    · simp

theorem numRun_dot0 : ∀ (r : Bytes), Digs r → numRun .dot0 r = some .dot0
  | [], _ => rfl
  | b :: r, h => by
    simp only [numRun, numStep, h.head, if_true]
    exact numRun_dot0 r h.tail

theorem numRun_e0 : ∀ (r : Bytes), Digs r → numRun .e0 r = some .e0
  | [], _ => rfl
  | b :: r, h => by
    simp only [numRun, numStep, h.head, if_true]
    exact numRun_e0 r h.tail

def intSt (st : NS) : Prop := st = .s0 ∨ st = .s1

/-- a fraction part `.ddd` read after the integer part -/
theorem numRun_frac (st : NS) (hs : intSt st) (d : Nat) (r : Bytes) (h : Digs (d :: r)) :
    numRun st (46 :: d :: r) = some .dot0 := by
  rcases hs with rfl | rfl <;>
    simp [numRun, numStep, h.head, numRun_dot0 r h.tail, show isDigit 46 = false by decide]

/-- an exponent part `e±ddd` -/
theorem numRun_exp (st : NS) (hs : intSt st ∨ st = .dot0) (sg d : Nat) (r : Bytes) (hsg : sg = 43 ∨ sg = 45)
    (h : Digs (d :: r)) : numRun st (101 :: sg :: d :: r) = some .e0 := by
  rcases hs with (rfl | rfl) | rfl <;> rcases hsg with rfl | rfl <;>
    simp [numRun, numStep, h.head, numRun_e0 r h.tail, show isDigit 101 = false by decide,
      show isDigit 43 = false by decide, show isDigit 45 = false by decide]

/-- state after the first digit of the integer part -/
def st1 (b : Nat) : NS := if b == 48 then .s0 else .s1

theorem st1_int (b : Nat) : intSt (st1 b) := by
  unfold st1 intSt; split <;> simp

/-- a signed text whose body starts with a digit: the run starts after that digit -/
theorem numberOk_signed (neg : Bool) (b : Nat) (rest : Bytes) (hb : isDigit b = true) (st : NS)
    (hrun : numRun (st1 b) rest = some st) (hacc : numAccept st = true) :
    numberOk ((if neg then [45] else []) ++ b :: rest) = true := by
  have hb' := isDigit_iff.1 hb
  unfold st1 at hrun
  cases neg
  · have h45 : ¬ b = 45 := by omega
    simp only [Bool.false_eq_true, if_false, List.nil_append, numberOk, hb, Bool.or_true, Bool.true_and, numStart,
      beq_iff_eq, h45]
    simp only [beq_iff_eq] at hrun
    rw [hrun]; exact hacc
  · simp only [if_true, List.cons_append, List.nil_append, numberOk, numStart, beq_self_eq_true, Bool.true_or,
      Bool.true_and, numRun, numStep, beq_iff_eq]
    by_cases h0 : b = 48
    · simp only [h0, beq_self_eq_true, if_true] at hrun ⊢
      rw [hrun]; exact hacc
    · have h1 : (49 ≤ b ∧ b ≤ 57) := by omega
      simp only [h0, if_false, beq_iff_eq] at hrun
      simp only [h0, h1, if_false, decide_true, Bool.and_self, if_true]
      rw [hrun]; exact hacc

theorem st1_nz {b : Nat} (hb : 49 ≤ b ∧ b ≤ 57) : st1 b = .s1 := by
  have : ¬ b = 48 := by omega
  simp [st1, this]

/-- `d.ddde±XX` (the `%e` shape): any leading digit, optional fraction, signed exponent -/
theorem numberOk_eShape (neg : Bool) (f : Nat) (rest : Bytes) (sg : Nat) (ed : Bytes)
    (hf : isDigit f = true) (hr : Digs rest) (hsg : sg = 43 ∨ sg = 45) (he : Digs ed) (hne : ed ≠ []) :
    numberOk ((if neg then [45] else []) ++ [f] ++ (if rest.isEmpty then [] else 46 :: rest) ++ [101] ++ [sg] ++ ed)
      = true := by
  obtain ⟨d, r, rfl⟩ : ∃ d r, ed = d :: r := by
    cases ed with
    | nil => exact absurd rfl hne
    | cons d r => exact ⟨d, r, rfl⟩
  have : (if neg then [45] else []) ++ [f] ++ (if rest.isEmpty then [] else 46 :: rest) ++ [101] ++ [sg] ++ d :: r =
      (if neg then [45] else []) ++ f :: ((if rest.isEmpty then [] else 46 :: rest) ++ 101 :: sg :: d :: r) := by
    simp
  rw [this]
  refine numberOk_signed neg f _ hf .e0 ?_ rfl
  rw [numRun_append]
  cases rest with
  | nil =>
    simp only [List.isEmpty_nil, if_true]
    rw [show numRun (st1 f) [] = some (st1 f) from rfl, Option.bind_some]
    exact numRun_exp _ (Or.inl (st1_int f)) sg d r hsg he
  | cons x xs =>
    simp only [List.isEmpty_cons, Bool.false_eq_true, if_false]
    rw [numRun_frac _ (st1_int f) x xs hr, Option.bind_some]
    exact numRun_exp _ (Or.inr rfl) sg d r hsg he

/-- `0.000ddd` -/
theorem numberOk_fracShape (neg : Bool) (z : Nat) (ds : Bytes) (hd : Digs ds) (hne : ds ≠ []) :
    numberOk ((if neg then [45] else []) ++ [48, 46] ++ List.replicate z 48 ++ ds) = true := by
  have : (if neg then [45] else []) ++ [48, 46] ++ List.replicate z 48 ++ ds =
      (if neg then [45] else []) ++ 48 :: (46 :: (List.replicate z 48 ++ ds)) := by simp
  rw [this]
  refine numberOk_signed neg 48 _ (by decide) .dot0 ?_ rfl
  have hd' : Digs (List.replicate z 48 ++ ds) := (Digs.zeros z).append hd
  obtain ⟨d, r, e⟩ : ∃ d r, List.replicate z 48 ++ ds = d :: r := by
    cases h : List.replicate z 48 ++ ds with
    | nil => simp at h; exact absurd h.2 hne
    | cons d r => exact ⟨d, r, rfl⟩
  rw [e] at hd' ⊢
  exact numRun_frac _ (st1_int 48) d r hd'

/-- `ddd000` with a non-zero leading digit -/
theorem numberOk_intShape (neg : Bool) (b : Nat) (r : Bytes) (hb : 49 ≤ b ∧ b ≤ 57) (hr : Digs r) :
    numberOk ((if neg then [45] else []) ++ b :: r) = true := by
  refine numberOk_signed neg b _ (isDigit_iff.2 ⟨by omega, hb.2⟩) .s1 ?_ rfl
  rw [st1_nz hb, numRun_digits r hr]

/-- `0` / `-0` -/
theorem numberOk_zero (neg : Bool) : numberOk ((if neg then [45] else []) ++ [48]) = true := by
  cases neg <;> decide

/-- `ddd.ddd` with a non-zero leading digit -/
theorem numberOk_pointShape (neg : Bool) (b : Nat) (r : Bytes) (fp : Bytes) (hb : 49 ≤ b ∧ b ≤ 57) (hr : Digs r)
    (hf : Digs fp) (hne : fp ≠ []) :
    numberOk ((if neg then [45] else []) ++ (b :: r) ++ [46] ++ fp) = true := by
  obtain ⟨d, q, rfl⟩ : ∃ d q, fp = d :: q := by
    cases fp with
    | nil => exact absurd rfl hne
    | cons d q => exact ⟨d, q, rfl⟩
  have : (if neg then [45] else []) ++ (b :: r) ++ [46] ++ d :: q =
      (if neg then [45] else []) ++ b :: (r ++ 46 :: d :: q) := by simp
  rw [this]
  refine numberOk_signed neg b _ (isDigit_iff.2 ⟨by omega, hb.2⟩) .dot0 ?_ rfl
  rw [numRun_append, st1_nz hb, numRun_digits r hr, Option.bind_some]
  exact numRun_frac _ (Or.inr rfl) d q hf

end Refmt.FloatL
