/-
  Stateful object unmarshaller: all simulation statements by induction on the functional model's fuel, and the run of
  a bound instance.
-/
import RefmtProofs.Lemmas.UnmarshalMachUnionU
set_option linter.unusedSimpArgs false
set_option linter.unusedVariables false
namespace Refmt.UMachU
open Refmt Refmt.Obj Refmt.Obj.UM Refmt.UMachL

variable {ts : Types} {a : Atlas} {trs : Trs} {it : IfaceTys}

theorem okSub_mono {S : List Nat} {wi wi' : Option Nat} (h : wildIn S wi → wildIn S wi') {M : UMach}
    (hM : okSub ts a S wi M) : okSub ts a S wi' M := by
  cases M with
  | structMap fs =>
    intro f hf
    have := hM f hf
    split at this
    · rename_i hi; simp only [hi, if_true]; exact h this
    · rename_i hi; simp only [hi, if_false]; exact this
  | _ => exact hM

theorem okMember_mono {S : List Nat} {wi wi' : Option Nat} (h : wildIn S wi → wildIn S wi') {M : UMach}
    (hM : okMember ts a S wi M) : okMember ts a S wi' M := by
  cases M with
  | structMap fs =>
    intro f hf
    have := hM f hf
    split at this
    · rename_i hi; simp only [hi, if_true]; exact h this
    · rename_i hi; simp only [hi, if_false]; exact this
  | transform fn uty => exact ⟨hM.1, okSub_mono h hM.2⟩
  | _ => exact hM

/-- the machines of tagged entries, from the member simulation -/
theorem tagSim_of {S : List Nat} {wi : Option Nat} {n : Nat} (hS : Closed ts a S wi)
    (hWd : WildHyp ts a it S) (hwi : wildIn S wi)
    (hAll : ∀ m, m < n → SimL (ts := ts) (a := a) (trs := trs) (it := it) S wi m) :
    TagSim (ts := ts) (a := a) (trs := trs) (it := it) S n := by
  intro g e hg L T stk be c w0 du k hcfg hup hdu cur toks fr sf1 sf hfr hsf1 hsf
  exact simDelegate hS hAll (okMember_mono (fun _ => hwi) (hWd.tags g e hg)) (fun kt e' h => upick_map h)
    L T stk be c none w0 du k hcfg hup hdu cur toks fr sf1 sf hfr hsf1 hsf

theorem simB_succ {S : List Nat} {wi : Option Nat} {n : Nat} (hS : Closed ts a S wi)
    (hWd : wildIn S wi → WildHyp ts a it S) (hE : SimE ts a trs it S n)
    (hAr : SimAr ts a trs it S n) (hMp : SimM ts a trs it S n) (hSt : SimSt ts a trs it S wi n)
    (hE2 : ∀ m, m + 2 = n → SimE ts a trs it S m) (hM2 : ∀ m, m + 2 = n → SimM ts a trs it S m)
    (hL : ∀ m, m + 1 = n → SimE ts a trs it S m ∧ SimAr ts a trs it S m ∧ SimM ts a trs it S m ∧
      SimSt ts a trs it S wi m)
    (hAll : ∀ m, m < n → SimL (ts := ts) (a := a) (trs := trs) (it := it) S wi m) :
    SimB ts a trs it S wi (n+1) := by
  intro base hok cur lo row hi stk be c k w d toks fr sf1 sf hcfg hwp hfr hsf1 hsf
  have hw : Wr trs.u c lo row k some w d none := hwp.toWr
  have hd2 : d ≤ 3 := by have := hwp.le; omega
  by_cases hlf : isLeaf (upickBare ts a base)
  · have hcl : CfgLeaf row base k (upickBare ts a base) := by
      revert hcfg hlf; generalize upickBare ts a base = M; intro hcfg hlf
      cases M <;> first | exact hcfg | exact hlf.elim
    exact (simLeaf hS hE hAr hMp hSt base hok hlf cur lo row hi stk be c k some w d toks fr sf1 sf hcl hw hd2
      (by omega) hsf1 hsf).weakB
  · cases hM : upickBare ts a base with
    | wildcard =>
      rw [hM] at hcfg hok
      cases hcfg
      exact (simB_wild hS (hWd hok) hE2 hM2 cur lo row hi stk be c w d toks fr sf1 sf
        (fun m hm => tagSim_of hS (hWd hok) hok (fun m' hm' => hAll m' (by omega))) hwp (by omega) hsf1 hsf)
    | transform fn uty =>
      rw [hM] at hcfg hok
      obtain ⟨rfl, hfn, hrt, k', hdl, hcl⟩ := hcfg
      exact (simB_transform hS hL hok.2 cur lo row hi stk be c w d toks fr sf1 sf hfn hrt hdl hcl hwp hfr hsf1 hsf).weakB
    | prim => rw [hM] at hlf; exact (hlf trivial).elim
    | errThunk => rw [hM] at hlf; exact (hlf trivial).elim
    | slice e => rw [hM] at hlf; exact (hlf trivial).elim
    | array N e => rw [hM] at hlf; exact (hlf trivial).elim
    | map kt vt => rw [hM] at hlf; exact (hlf trivial).elim
    | structMap fs => rw [hM] at hlf; exact (hlf trivial).elim
    | union ms =>
      rw [hM] at hcfg hok
      obtain ⟨rfl, hmem⟩ := hcfg
      exact simB_union hS hAll hok cur lo row hi stk be c w d toks fr sf1 sf hmem hwp hfr hsf1 hsf
    | _ => rw [hM] at hok; exact hok.elim

variable (ts a trs it) in
/-- all simulation statements at functional fuel `n` -/
def Bundle (S : List Nat) (wi : Option Nat) (n : Nat) : Prop :=
  SimV ts a trs it S n ∧ SimB ts a trs it S wi n ∧ SimE ts a trs it S n ∧ SimAr ts a trs it S n ∧
    SimM ts a trs it S n ∧ SimSt ts a trs it S wi n

theorem sim_all {S : List Nat} {wi : Option Nat} (hS : Closed ts a S wi) (hWd : wildIn S wi → WildHyp ts a it S)
    (n : Nat) : ∀ m, m ≤ n → Bundle ts a trs it S wi m := by
  induction n with
  | zero =>
    intro m hm
    obtain rfl : m = 0 := by omega
    exact ⟨simV_zero S, simB_zero S wi, simE_zero S, simAr_zero S, simM_zero S, simSt_zero S wi⟩
  | succ n ih =>
    intro m hm
    by_cases hle : m ≤ n
    · exact ih m hle
    · obtain rfl : m = n + 1 := by omega
      obtain ⟨hV, hB, hE, hAr, hMp, hSt⟩ := ih n (Nat.le_refl n)
      have hE2 : ∀ m, m + 2 = n → SimE ts a trs it S m := fun m h => (ih m (by omega)).2.2.1
      have hM2 : ∀ m, m + 2 = n → SimM ts a trs it S m := fun m h => (ih m (by omega)).2.2.2.2.1
      have hL : ∀ m, m + 1 = n → SimE ts a trs it S m ∧ SimAr ts a trs it S m ∧ SimM ts a trs it S m ∧
          SimSt ts a trs it S wi m := fun m h =>
        ⟨(ih m (by omega)).2.2.1, (ih m (by omega)).2.2.2.1, (ih m (by omega)).2.2.2.2.1, (ih m (by omega)).2.2.2.2.2⟩
      have hAll : ∀ m, m < n → SimL (ts := ts) (a := a) (trs := trs) (it := it) S wi m := fun m h =>
        ⟨(ih m (by omega)).2.2.1, (ih m (by omega)).2.2.2.1, (ih m (by omega)).2.2.2.2.1, (ih m (by omega)).2.2.2.2.2⟩
      exact ⟨simV_succ hS hB, simB_succ hS hWd hE hAr hMp hSt hE2 hM2 hL hAll, simE_succ hV hE, simAr_succ hV hAr,
        simM_succ hV hMp, simSt_succ hS hWd hE2 hM2
          (fun hwi m hm => tagSim_of hS (hWd hwi) hwi (fun m' hm' => (hAll m' (by omega)))) hV hSt⟩

theorem pump1_top (sf : Nat) (R : List URow) (c : Option URef) (be : Option XFail) (toks : List Tok) :
    pump1 ts a trs it sf sf ⟨R, [], c, be⟩ toks = pump ts a trs it sf ⟨R, [], c, be⟩ toks := by
  cases toks with
  | nil => rfl
  | cons t rest =>
    simp only [pump1, pump]
    cases ustep ts a trs it sf ⟨R, [], c, be⟩ t with
    | error x => rfl
    | ok res => cases hd : res.done <;> simp [hd]

/-- a bound instance run on the tokens is Reset-then-pump of the first machine -/
theorem urun_bind {S : List Nat} {wi : Option Nat} (hS : Closed ts a S wi) {id : Nat} (hid : id ∈ S) (sf : Nat) (hsf : 4 ≤ sf)
    (dirty : UState) (cur : Val) (toks : List Tok) :
    ∃ crow ck, CfgV ts a crow id ck ∧
      urun ts a trs it sf (UM.bind ts a sf dirty id cur) toks
        = rtp ts a trs it sf sf sf ([] ++ crow :: []) [] none ⟨([] : List URow).length, ck⟩ id cur toks := by
  obtain ⟨f, rfl⟩ : ∃ f, sf = f + 4 := ⟨sf - 4, by omega⟩
  obtain ⟨crow, ck, hreq, hcc⟩ := requisition_cov (f := f) (R := []) hS hid
  refine ⟨crow, ck, hcc, ?_⟩
  cases toks with
  | nil => simp [urun, rtp]
  | cons t rest =>
    simp only [UM.bind, hreq, rtp, List.nil_append, List.length_nil]
    cases hr : resetM ts a (f + 4) ⟨0, ck⟩ id cur [crow] with
    | error x => simp [urun]
    | ok R1 => simp only [urun]; rw [pump1_top]

theorem refines_closed {S : List Nat} {wi : Option Nat} (hS : Closed ts a S wi)
    (hWd : wildIn S wi → WildHyp ts a it S) {id : Nat} (hid : id ∈ S) (fuel : Nat) (cur : Val)
    (toks : List Tok) (hnp : ∀ u, unmV ts a trs it fuel id cur toks ≠ .panic u) (sf : Nat) (hsf : 17 ≤ sf)
    (dirty : UState) :
    urun ts a trs it sf (UM.bind ts a sf dirty id cur) toks = unmV ts a trs it fuel id cur toks := by
  obtain ⟨crow, ck, hcc, hrun⟩ := urun_bind (trs := trs) (it := it) hS hid sf (by omega) dirty cur toks
  rw [hrun]
  have hA := (sim_all (trs := trs) (it := it) hS hWd fuel fuel (Nat.le_refl _)).1 id hid cur [] crow [] [] none ck toks sf sf sf hcc
    (by omega) (by omega) hsf
  revert hA hnp
  generalize unmV ts a trs it fuel id cur toks = r
  intro hnp hA
  cases r with
  | panic u => exact absurd rfl (hnp u)
  | more u => exact hA
  | err u => exact hA
  | ok v rest u =>
    obtain ⟨hu, row', hi', fa, _, _, hx⟩ := hA
    rw [hx]
    simp only [kontU, kont, URes.shift, _root_.id]
    congr 1; omega

end Refmt.UMachU
