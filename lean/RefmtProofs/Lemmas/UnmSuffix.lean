/-
  Lemma for C01: what any unmarshal machine leaves unconsumed is a suffix of the tokens it was given
  (so token-wise hypotheses on the input carry over to the rest).  Induction on the fuel over the six machines.
-/
import RefmtModel
set_option linter.unusedSimpArgs false
set_option linter.unusedVariables false
namespace Refmt.C01L
open Refmt Refmt.Obj

theorem shift_ok_inv {x : URes} {k : Nat} {v : Val} {r : List Tok} {u : Nat} (h : x.shift k = .ok v r u) :
    ∃ u', x = .ok v r u' := by
  cases x <;> simp [URes.shift] at h
  exact ⟨_, by rw [h.1, h.2.1]⟩

theorem ite_err_ok {c : Prop} [Decidable c] {k : Nat} {y : URes} {v : Val} {r : List Tok} {u : Nat}
    (h : (if c then URes.err k else y) = .ok v r u) : ¬ c ∧ y = .ok v r u := by
  split at h
  · simp at h
  · exact ⟨‹_›, h⟩

section
variable (ts : Types) (a : Atlas) (trs : Trs) (it : IfaceTys)

def SV (fuel : Nat) : Prop := ∀ id cur toks v r u, unmV ts a trs it fuel id cur toks = .ok v r u → r <:+ toks
def SB (fuel : Nat) : Prop := ∀ id m cur toks v r u, unmBare ts a trs it fuel id m cur toks = .ok v r u → r <:+ toks
def SW (fuel : Nat) : Prop := ∀ me t rest v r u, unmWild ts a trs it fuel me t rest = .ok v r u → r <:+ t :: rest
def SE (fuel : Nat) : Prop := ∀ e cap acc toks v r u, unmElems ts a trs it fuel e cap acc toks = .ok v r u → r <:+ toks
def SM (fuel : Nat) : Prop := ∀ kf vt es toks v r u, unmMapEntries ts a trs it fuel kf vt es toks = .ok v r u → r <:+ toks
def SS (fuel : Nat) : Prop := ∀ id fields el idx cur toks v r u, unmStruct ts a trs it fuel id fields el idx cur toks = .ok v r u → r <:+ toks

theorem sv_step (fuel : Nat) (hb : SB ts a trs it fuel) : SV ts a trs it (fuel+1) := by
  intro id cur toks v r u h
  cases toks with
  | nil => simp [unmV] at h
  | cons t rest =>
    simp only [unmV] at h
    split at h
    · exact hb _ _ _ _ _ _ _ h
    · split at h
      · simp only [URes.ok.injEq] at h
        rw [← h.2.1]; exact List.suffix_cons _ _
      · split at h
        · next hx => simp only [URes.ok.injEq] at h; rw [← h.2.1]; exact hb _ _ _ _ _ _ _ hx
        · next x hx => rw [h] at hx; exact absurd rfl (hx _ _ _)

theorem se_step (fuel : Nat) (hv : SV ts a trs it fuel) (he : SE ts a trs it fuel) : SE ts a trs it (fuel+1) := by
  intro e cap acc toks v r u h
  cases toks with
  | nil => simp [unmElems] at h
  | cons t rest =>
    unfold unmElems at h
    split at h
    · simp at h
    · simp only [URes.ok.injEq] at h
      rw [← h.2.1]; exact List.suffix_cons _ _
    · have h := (ite_err_ok h).2
      · split at h
        · next hx =>
          obtain ⟨u', h'⟩ := shift_ok_inv h
          exact (he _ _ _ _ _ _ _ h').trans (hv _ _ _ _ _ _ hx)
        · next x hx => rw [h] at hx; exact absurd rfl (hx _ _ _)

theorem ok_rest {v v' : Val} {r r' : List Tok} {u u' : Nat} (h : URes.ok v r u = .ok v' r' u') : r = r' := by
  simp only [URes.ok.injEq] at h; exact h.2.1

theorem sm_step (fuel : Nat) (hv : SV ts a trs it fuel) (hm : SM ts a trs it fuel) : SM ts a trs it (fuel+1) := by
  intro kf vt es toks v r u h
  cases toks with
  | nil => simp [unmMapEntries] at h
  | cons t rest =>
    unfold unmMapEntries at h
    split at h
    · rw [← ok_rest h]; exact List.suffix_cons _ _
    · simp only at h
      split at h
      · simp at h
      · have h := (ite_err_ok h).2
        split at h
        · next hx =>
          obtain ⟨u', h'⟩ := shift_ok_inv h
          exact ((hm _ _ _ _ _ _ _ h').trans (hv _ _ _ _ _ _ hx)).trans (List.suffix_cons _ _)
        · next x hx =>
          obtain ⟨u', h'⟩ := shift_ok_inv h
          exact absurd h' (hx _ _ _)
    · simp at h

theorem ss_step (fuel : Nat) (hv : SV ts a trs it fuel) (hw : SW ts a trs it fuel) (hs : SS ts a trs it fuel) : SS ts a trs it (fuel+1) := by
  intro id fields el idx cur toks v r u h
  cases toks with
  | nil => simp [unmStruct] at h
  | cons t rest =>
    unfold unmStruct at h
    split at h
    · have h := (ite_err_ok h).2
      rw [← ok_rest h]; exact List.suffix_cons _ _
    · split at h
      · simp at h
      · split at h
        · split at h
          · simp at h
          · split at h
            · next hx =>
              obtain ⟨u', h'⟩ := shift_ok_inv h
              exact ((hs _ _ _ _ _ _ _ _ _ h').trans (hw _ _ _ _ _ _ hx)).trans (List.suffix_cons _ _)
            · next x hx =>
              obtain ⟨u', h'⟩ := shift_ok_inv h
              exact absurd h' (hx _ _ _)
        · split at h
          · simp at h
          · split at h
            · simp at h
            · split at h
              · next hx =>
                split at h
                · simp at h
                · obtain ⟨u', h'⟩ := shift_ok_inv h
                  exact ((hs _ _ _ _ _ _ _ _ _ h').trans (hv _ _ _ _ _ _ hx)).trans (List.suffix_cons _ _)
              · next x hx =>
                obtain ⟨u', h'⟩ := shift_ok_inv h
                exact absurd h' (hx _ _ _)
    · simp at h

theorem sw_step (fuel : Nat) (hb : SB ts a trs it fuel) : SW ts a trs it (fuel+1) := by
  intro me t rest v r u h
  unfold unmWild at h
  split at h
  · split at h
    · simp at h
    · have h := (ite_err_ok h).2
      split at h
      · next hx => rw [← ok_rest h]; exact hb _ _ _ _ _ _ _ hx
      · next x hx => rw [h] at hx; exact absurd rfl (hx _ _ _)
  · have h := (ite_err_ok h).2
    split at h
    · split at h
      · next hx => rw [← ok_rest h]; exact hb _ _ _ _ _ _ _ hx
      · next x hx => rw [h] at hx; exact absurd rfl (hx _ _ _)
    · split at h
      · next hx => rw [← ok_rest h]; exact hb _ _ _ _ _ _ _ hx
      · next x hx => rw [h] at hx; exact absurd rfl (hx _ _ _)
    · simp at h
    · simp at h
    all_goals (try (rw [← ok_rest h]; exact List.suffix_cons _ _))
    split at h <;> (rw [← ok_rest h]; exact List.suffix_cons _ _)

theorem sb_step (fuel : Nat) (hv : SV ts a trs it fuel) (hb : SB ts a trs it fuel) (hw : SW ts a trs it fuel)
    (he : SE ts a trs it fuel) (hm : SM ts a trs it fuel) (hs : SS ts a trs it fuel) : SB ts a trs it (fuel+1) := by
  intro id m cur toks v r u h
  cases toks with
  | nil => simp [unmBare] at h
  | cons t rest =>
    cases m with
    | errThunk => unfold unmBare at h; simp at h
    | panic => unfold unmBare at h; simp at h
    | prim =>
      unfold unmBare at h; simp only at h
      split at h
      · rw [← ok_rest h]; exact List.suffix_cons _ _
      · simp at h
    | wildcard => unfold unmBare at h; exact hw _ _ _ _ _ _ h
    | slice e =>
      unfold unmBare at h; simp only at h
      split at h
      · rw [← ok_rest h]; exact List.suffix_cons _ _
      · obtain ⟨u', h'⟩ := shift_ok_inv h
        exact (he _ _ _ _ _ _ _ h').trans (List.suffix_cons _ _)
      · simp at h
    | array n e =>
      unfold unmBare at h; simp only at h
      split at h
      · rw [← ok_rest h]; exact List.suffix_cons _ _
      · split at h
        · next hx => rw [← ok_rest h]; exact (he _ _ _ _ _ _ _ hx).trans (List.suffix_cons _ _)
        · obtain ⟨u', h'⟩ := shift_ok_inv h
          exact (he _ _ _ _ _ _ _ h').trans (List.suffix_cons _ _)
      · simp at h
    | map kt vt =>
      unfold unmBare at h; simp only at h
      split at h
      · simp at h
      · split at h
        · rw [← ok_rest h]; exact List.suffix_cons _ _
        · obtain ⟨u', h'⟩ := shift_ok_inv h
          exact (hm _ _ _ _ _ _ _ h').trans (List.suffix_cons _ _)
        · simp at h
    | structMap fields =>
      unfold unmBare at h; simp only at h
      split at h
      · rw [← ok_rest h]; exact List.suffix_cons _ _
      · obtain ⟨u', h'⟩ := shift_ok_inv h
        exact (hs _ _ _ _ _ _ _ _ _ h').trans (List.suffix_cons _ _)
      · simp at h
    | transform fn uty =>
      unfold unmBare at h; simp only at h
      split at h
      · next hx =>
        split at h
        · rw [← ok_rest h]; exact hb _ _ _ _ _ _ _ hx
        · simp at h
      · next x hx => rw [h] at hx; exact absurd rfl (hx _ _ _)
    | union members =>
      unfold unmBare at h; simp only at h
      split at h
      · have h := (ite_err_ok h).2
        split at h
        · simp at h
        · split at h
          · split at h
            · simp at h
            · split at h
              · simp at h
              · split at h
                · simp at h
                · simp at h
                · split at h
                  · next hx =>
                    split at h
                    · simp at h
                    · split at h
                      · rw [← ok_rest h]
                        exact (((List.suffix_cons _ _).trans (hb _ _ _ _ _ _ _ hx)).trans (List.suffix_cons _ _)).trans (List.suffix_cons _ _)
                      · simp at h
                  · next x hx =>
                    obtain ⟨u', h'⟩ := shift_ok_inv h
                    exact absurd h' (hx _ _ _)
          · simp at h
      · simp at h

theorem suffix_all_fuel (fuel : Nat) :
    SV ts a trs it fuel ∧ SB ts a trs it fuel ∧ SW ts a trs it fuel ∧ SE ts a trs it fuel ∧
    SM ts a trs it fuel ∧ SS ts a trs it fuel := by
  induction fuel with
  | zero =>
    refine ⟨?_, ?_, ?_, ?_, ?_, ?_⟩
    · intro id cur toks v r u h; simp [unmV] at h
    · intro id m cur toks v r u h; simp [unmBare] at h
    · intro me t rest v r u h; simp [unmWild] at h
    · intro e cap acc toks v r u h; simp [unmElems] at h
    · intro kf vt es toks v r u h; simp [unmMapEntries] at h
    · intro id fields el idx cur toks v r u h; simp [unmStruct] at h
  | succ n ih =>
    obtain ⟨hv, hb, hw, he, hm, hs⟩ := ih
    exact ⟨sv_step ts a trs it n hb, sb_step ts a trs it n hv hb hw he hm hs, sw_step ts a trs it n hb,
      se_step ts a trs it n hv he, sm_step ts a trs it n hv hm, ss_step ts a trs it n hv hw hs⟩

end

/-- what an unmarshal machine leaves unconsumed is a suffix of what it was given -/
theorem unm_rest_suffix (ts : Types) (a : Atlas) (trs : Trs) (it : IfaceTys) (fuel id : Nat) (cur : Val) (toks : List Tok)
    (v : Val) (r : List Tok) (u : Nat) (h : unmV ts a trs it fuel id cur toks = .ok v r u) : r <:+ toks :=
  (suffix_all_fuel ts a trs it fuel).1 id cur toks v r u h

theorem all_of_suffix {p : Tok → Bool} {r toks : List Tok} (hs : r <:+ toks) (h : toks.all p = true) : r.all p = true := by
  obtain ⟨pre, rfl⟩ := hs
  simp only [List.all_append, Bool.and_eq_true] at h
  exact h.2

end Refmt.C01L
